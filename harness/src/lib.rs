//! Shared utilities of the correspondence / oracle harness.
//!
//! Every binary under `src/bin` drives the *real* `alpenglow` crate (path dependency on `/repo`,
//! features `test-utils` + `verif-hooks`) on generated operation sequences and writes
//!   `<out>/ops.txt`    one operation per line (input of the Lean driver),
//!   `<out>/impl.txt`   one canonical output line per operation (compared with the driver's output),
//!   `<out>/report.json` statistics, samples and property-oracle failures.
//! All randomness derives from one SplitMix64 state seeded from `--seed`.

use std::collections::BTreeMap;
use std::fmt::Write as _;
use std::io::Write as _;
use std::path::PathBuf;

pub mod poolkit;
pub mod rng;
pub use rng::Rng;

/// Adversarial interning of block hashes: small ids -> 32-byte strings.
///
/// Real block hashes are uniformly distributed, the hashes a Byzantine validator puts into a vote are not: it may
/// name any 32 bytes, in particular ones that agree with an honest block's hash everywhere but in one byte.  Every
/// container of the code that is keyed by block hash (sorted maps, binary searches, per-validator vote maps) must
/// still tell them apart.  Ids are therefore interned so that the ids of one *group* (`(id - 1) / GROUP`, i.e.
/// 1..=4, 5..=8, ...) share all 32 bytes except ONE, whose position depends on the group and cycles through the four
/// 64-bit words and through early / late bytes of a word (`POS`): the blocks of group 0 differ only in byte 31, those
/// of group 1 only in byte 8, group 2 byte 24, group 3 byte 15, ...  All other bytes are a fixed pseudo-random
/// filler derived from the group number, except bytes 0..4 which hold the group number + 1 big-endian, so that
///   * the byte order (`Ord`) of the hashes is the order of the ids (the code iterates some sets in hash order, the
///     Lean model in id order),
///   * the interning is injective and can be inverted without a table (`id_of`).
/// Generators that want competing blocks of one slot to collide allocate their ids inside one group.
pub mod advhash {
    pub const GROUP: u64 = 4;
    /// position of the one byte in which the members of group g differ (g mod 16)
    pub const POS: [usize; 16] = [31, 8, 24, 15, 16, 7, 23, 4, 28, 12, 20, 27, 5, 11, 19, 30];

    fn mix(mut z: u64) -> u64 {
        z = z.wrapping_add(0x9E3779B97F4A7C15);
        z = (z ^ (z >> 30)).wrapping_mul(0xBF58476D1CE4E5B9);
        z = (z ^ (z >> 27)).wrapping_mul(0x94D049BB133111EB);
        z ^ (z >> 31)
    }

    pub fn group_of(id: u64) -> u64 { (id - 1) / GROUP }
    /// the byte position in which `id` differs from the other members of its group
    pub fn pos_of(id: u64) -> usize { POS[(group_of(id) % 16) as usize] }

    /// the 32 bytes of block id `id` (`id` >= 1; id 0 is the genesis hash, all zero, by convention of the callers)
    pub fn bytes(id: u64) -> [u8; 32] {
        assert!(id >= 1 && group_of(id) < u32::MAX as u64, "block id out of range");
        let g = group_of(id);
        let j = ((id - 1) % GROUP) as u8;
        let mut b = [0u8; 32];
        for w in 0..4 {
            b[8 * w..8 * w + 8].copy_from_slice(&mix(g.wrapping_mul(4).wrapping_add(w as u64) ^ 0xB10C_4A54).to_be_bytes());
        }
        b[..4].copy_from_slice(&((g + 1) as u32).to_be_bytes());
        let p = POS[(g % 16) as usize];
        b[p] = (b[p] & !(GROUP as u8 - 1)) | j;
        b
    }

    /// inverse of `bytes` (all-zero = 0); `None` for a string that is no interned id
    pub fn id_of(b: &[u8]) -> Option<u64> {
        if b.len() != 32 { return None; }
        if b.iter().all(|x| *x == 0) { return Some(0); }
        let g1 = u32::from_be_bytes(b[..4].try_into().ok()?) as u64;
        if g1 == 0 { return None; }
        let g = g1 - 1;
        let p = POS[(g % 16) as usize];
        let id = g * GROUP + (b[p] & (GROUP as u8 - 1)) as u64 + 1;
        if bytes(id)[..] == *b { Some(id) } else { None }
    }

    pub fn block_hash(id: u64) -> alpenglow::crypto::merkle::BlockHash {
        if id == 0 { return alpenglow::crypto::merkle::GENESIS_BLOCK_HASH; }
        let h: alpenglow::crypto::Hash = wincode::deserialize(&bytes(id)).expect("32 bytes are a Hash");
        h.into()
    }

    pub fn block_id(h: &alpenglow::crypto::merkle::BlockHash) -> Option<u64> {
        id_of(&wincode::serialize(h).ok()?)
    }
}

#[derive(Clone, Debug)]
pub struct Args {
    pub seed: u64,
    pub thorough: bool,
    pub out: PathBuf,
    pub replay: Option<PathBuf>,
    pub extra: Vec<String>,
}

impl Args {
    pub fn parse() -> Self {
        let mut seed = 1u64;
        let mut thorough = false;
        let mut out = PathBuf::from("work");
        let mut replay = None;
        let mut extra = Vec::new();
        let mut it = std::env::args().skip(1);
        while let Some(a) = it.next() {
            match a.as_str() {
                "--seed" => seed = it.next().and_then(|s| s.parse().ok()).expect("--seed N"),
                "--tier" => thorough = it.next().expect("--tier quick|thorough") == "thorough",
                "--out" => out = PathBuf::from(it.next().expect("--out DIR")),
                "--replay" => replay = Some(PathBuf::from(it.next().expect("--replay FILE"))),
                _ => extra.push(a),
            }
        }
        Self { seed, thorough, out, replay, extra }
    }
}

/// One oracle failure: the property itself evaluated on what the real code did.
#[derive(Clone, Debug, serde::Serialize)]
pub struct OracleFailure {
    pub case: u64,
    /// stable key used to match known findings (kind of failure, not the concrete numbers)
    pub key: String,
    pub what: String,
}

/// Collects ops, implementation outputs and the report.
pub struct Recorder {
    pub ops: String,
    pub imp: String,
    pub case: u64,
    pub cases: u64,
    pub steps: u64,
    pub oracle_checks: u64,
    pub failures: Vec<OracleFailure>,
    pub counters: BTreeMap<String, u64>,
    pub samples: Vec<String>,
    pub nontrivial: std::collections::BTreeSet<u64>,
    cur_case_start: usize,
    max_samples: usize,
}

impl Default for Recorder {
    fn default() -> Self {
        Self::new()
    }
}

impl Recorder {
    pub fn new() -> Self {
        Self {
            ops: String::new(),
            imp: String::new(),
            case: 0,
            cases: 0,
            steps: 0,
            oracle_checks: 0,
            failures: Vec::new(),
            counters: BTreeMap::new(),
            samples: Vec::new(),
            nontrivial: Default::default(),
            cur_case_start: 0,
            max_samples: 3,
        }
    }

    /// Starts a new case; `tag` describes the generator shape (for the distribution report).
    pub fn begin_case(&mut self, tag: &str) {
        self.case += 1;
        self.cases += 1;
        self.cur_case_start = self.ops.len();
        let _ = writeln!(self.ops, "case {} {}", self.case, tag);
        let _ = writeln!(self.imp, "case {}", self.case);
        self.count(&format!("shape:{tag}"));
    }

    /// Records one operation and the implementation's canonical output for it.
    pub fn step(&mut self, op: &str, out: &str) {
        debug_assert!(!op.contains('\n') && !out.contains('\n'));
        self.steps += 1;
        let _ = writeln!(self.ops, "{op}");
        let _ = writeln!(self.imp, "{out}");
    }

    /// Marks the end of a case; `class` is a hash of the behaviour class of the case (branch
    /// vector / verdict vector); `nontrivial` says whether the case reached a non-default branch.
    pub fn end_case(&mut self, class: u64, nontrivial: bool) {
        if nontrivial {
            self.nontrivial.insert(class);
        }
        if self.samples.len() < self.max_samples && nontrivial {
            let s = &self.ops[self.cur_case_start..];
            let s: String = s.lines().take(40).collect::<Vec<_>>().join(" ; ");
            self.samples.push(s);
        }
    }

    pub fn count(&mut self, key: &str) {
        *self.counters.entry(key.to_string()).or_default() += 1;
    }

    pub fn oracle(&mut self, ok: bool, key: &str, what: impl FnOnce() -> String) {
        self.oracle_checks += 1;
        if !ok {
            self.count(&format!("oracle_fail:{key}"));
            if self.failures.len() < 200 {
                self.failures.push(OracleFailure { case: self.case, key: key.to_string(), what: what() });
            }
        }
    }

    pub fn finish(self, args: &Args, extra: serde_json::Value) {
        std::fs::create_dir_all(&args.out).expect("create out dir");
        std::fs::File::create(args.out.join("ops.txt")).and_then(|mut f| f.write_all(self.ops.as_bytes())).expect("write ops");
        std::fs::File::create(args.out.join("impl.txt")).and_then(|mut f| f.write_all(self.imp.as_bytes())).expect("write impl");
        let report = serde_json::json!({
            "seed": args.seed,
            "tier": if args.thorough { "thorough" } else { "quick" },
            "cases": self.cases,
            "steps": self.steps,
            "oracle_checks": self.oracle_checks,
            "distinct_nontrivial": self.nontrivial.len(),
            "failures": self.failures,
            "counters": self.counters,
            "samples": self.samples,
            "extra": extra,
        });
        std::fs::write(args.out.join("report.json"), serde_json::to_string_pretty(&report).expect("json")).expect("write report");
    }
}

/// FNV-1a, for behaviour-class hashing.
pub fn fnv(mut h: u64, s: &str) -> u64 {
    if h == 0 {
        h = 0xcbf29ce484222325;
    }
    for b in s.bytes() {
        h ^= b as u64;
        h = h.wrapping_mul(0x100000001b3);
    }
    h
}

/// Runs `f` catching panics; returns `Err(message)` on panic.
pub fn catch<T>(f: impl FnOnce() -> T) -> Result<T, String> {
    match std::panic::catch_unwind(std::panic::AssertUnwindSafe(f)) {
        Ok(v) => Ok(v),
        Err(e) => {
            let msg = if let Some(s) = e.downcast_ref::<&str>() {
                s.to_string()
            } else if let Some(s) = e.downcast_ref::<String>() {
                s.clone()
            } else {
                "panic".to_string()
            };
            Err(msg)
        }
    }
}

/// Silences the default panic hook output (we catch and report panics ourselves).
pub fn quiet_panics() {
    if std::env::var_os("AG_LOUD").is_some() { return; }
    std::panic::set_hook(Box::new(|_| {}));
}
