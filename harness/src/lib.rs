//! Shared utilities of the correspondence / oracle harness.
//!
//! Every binary under `src/bin` drives the *real* `alpenglow` crate (path dependency on `/repo`,
//! features `test-utils` + `verif-hooks`) on generated operation sequences and writes
//!   `<out>/ops.txt`    one operation per line (input of the Lean driver),
//!   `<out>/impl.txt`   one canonical output line per operation (compared with the driver's output),
//!   `<out>/report.json` statistics, samples and property-oracle failures.
//! All randomness derives from one SplitMix64 state seeded from `--seed`.

use std::collections::BTreeMap;
use std::fmt::Write as _;
use std::io::Write as _;
use std::path::PathBuf;

pub mod poolkit;
pub mod rng;
pub use rng::Rng;

#[derive(Clone, Debug)]
pub struct Args {
    pub seed: u64,
    pub thorough: bool,
    pub out: PathBuf,
    pub replay: Option<PathBuf>,
    pub extra: Vec<String>,
}

impl Args {
    pub fn parse() -> Self {
        let mut seed = 1u64;
        let mut thorough = false;
        let mut out = PathBuf::from("work");
        let mut replay = None;
        let mut extra = Vec::new();
        let mut it = std::env::args().skip(1);
        while let Some(a) = it.next() {
            match a.as_str() {
                "--seed" => seed = it.next().and_then(|s| s.parse().ok()).expect("--seed N"),
                "--tier" => thorough = it.next().expect("--tier quick|thorough") == "thorough",
                "--out" => out = PathBuf::from(it.next().expect("--out DIR")),
                "--replay" => replay = Some(PathBuf::from(it.next().expect("--replay FILE"))),
                _ => extra.push(a),
            }
        }
        Self { seed, thorough, out, replay, extra }
    }
}

/// One oracle failure: the property itself evaluated on what the real code did.
#[derive(Clone, Debug, serde::Serialize)]
pub struct OracleFailure {
    pub case: u64,
    /// stable key used to match known findings (kind of failure, not the concrete numbers)
    pub key: String,
    pub what: String,
}

/// Collects ops, implementation outputs and the report.
pub struct Recorder {
    pub ops: String,
    pub imp: String,
    pub case: u64,
    pub cases: u64,
    pub steps: u64,
    pub oracle_checks: u64,
    pub failures: Vec<OracleFailure>,
    pub counters: BTreeMap<String, u64>,
    pub samples: Vec<String>,
    pub nontrivial: std::collections::BTreeSet<u64>,
    cur_case_start: usize,
    max_samples: usize,
}

impl Default for Recorder {
    fn default() -> Self {
        Self::new()
    }
}

impl Recorder {
    pub fn new() -> Self {
        Self {
            ops: String::new(),
            imp: String::new(),
            case: 0,
            cases: 0,
            steps: 0,
            oracle_checks: 0,
            failures: Vec::new(),
            counters: BTreeMap::new(),
            samples: Vec::new(),
            nontrivial: Default::default(),
            cur_case_start: 0,
            max_samples: 3,
        }
    }

    /// Starts a new case; `tag` describes the generator shape (for the distribution report).
    pub fn begin_case(&mut self, tag: &str) {
        self.case += 1;
        self.cases += 1;
        self.cur_case_start = self.ops.len();
        let _ = writeln!(self.ops, "case {} {}", self.case, tag);
        let _ = writeln!(self.imp, "case {}", self.case);
        self.count(&format!("shape:{tag}"));
    }

    /// Records one operation and the implementation's canonical output for it.
    pub fn step(&mut self, op: &str, out: &str) {
        debug_assert!(!op.contains('\n') && !out.contains('\n'));
        self.steps += 1;
        let _ = writeln!(self.ops, "{op}");
        let _ = writeln!(self.imp, "{out}");
    }

    /// Marks the end of a case; `class` is a hash of the behaviour class of the case (branch
    /// vector / verdict vector); `nontrivial` says whether the case reached a non-default branch.
    pub fn end_case(&mut self, class: u64, nontrivial: bool) {
        if nontrivial {
            self.nontrivial.insert(class);
        }
        if self.samples.len() < self.max_samples && nontrivial {
            let s = &self.ops[self.cur_case_start..];
            let s: String = s.lines().take(40).collect::<Vec<_>>().join(" ; ");
            self.samples.push(s);
        }
    }

    pub fn count(&mut self, key: &str) {
        *self.counters.entry(key.to_string()).or_default() += 1;
    }

    pub fn oracle(&mut self, ok: bool, key: &str, what: impl FnOnce() -> String) {
        self.oracle_checks += 1;
        if !ok {
            self.count(&format!("oracle_fail:{key}"));
            if self.failures.len() < 200 {
                self.failures.push(OracleFailure { case: self.case, key: key.to_string(), what: what() });
            }
        }
    }

    pub fn finish(self, args: &Args, extra: serde_json::Value) {
        std::fs::create_dir_all(&args.out).expect("create out dir");
        std::fs::File::create(args.out.join("ops.txt")).and_then(|mut f| f.write_all(self.ops.as_bytes())).expect("write ops");
        std::fs::File::create(args.out.join("impl.txt")).and_then(|mut f| f.write_all(self.imp.as_bytes())).expect("write impl");
        let report = serde_json::json!({
            "seed": args.seed,
            "tier": if args.thorough { "thorough" } else { "quick" },
            "cases": self.cases,
            "steps": self.steps,
            "oracle_checks": self.oracle_checks,
            "distinct_nontrivial": self.nontrivial.len(),
            "failures": self.failures,
            "counters": self.counters,
            "samples": self.samples,
            "extra": extra,
        });
        std::fs::write(args.out.join("report.json"), serde_json::to_string_pretty(&report).expect("json")).expect("write report");
    }
}

/// FNV-1a, for behaviour-class hashing.
pub fn fnv(mut h: u64, s: &str) -> u64 {
    if h == 0 {
        h = 0xcbf29ce484222325;
    }
    for b in s.bytes() {
        h ^= b as u64;
        h = h.wrapping_mul(0x100000001b3);
    }
    h
}

/// Runs `f` catching panics; returns `Err(message)` on panic.
pub fn catch<T>(f: impl FnOnce() -> T) -> Result<T, String> {
    match std::panic::catch_unwind(std::panic::AssertUnwindSafe(f)) {
        Ok(v) => Ok(v),
        Err(e) => {
            let msg = if let Some(s) = e.downcast_ref::<&str>() {
                s.to_string()
            } else if let Some(s) = e.downcast_ref::<String>() {
                s.clone()
            } else {
                "panic".to_string()
            };
            Err(msg)
        }
    }
}

/// Silences the default panic hook output (we catch and report panics ourselves).
pub fn quiet_panics() {
    if std::env::var_os("AG_LOUD").is_some() { return; }
    std::panic::set_hook(Box::new(|_| {}));
}
