#!/usr/bin/env python3
"""Rewrites the `commit` of every fixed entry in known_findings.json to the hash that commit has on /repo's
current branch (fix: commits made on work branches were cherry-picked), keyed by the commit subject."""
import json, os, subprocess
root = os.path.normpath(os.path.join(os.path.dirname(os.path.abspath(__file__)), ".."))
repo = os.path.normpath(os.path.join(root, "..", "repo"))
def git(*a):
    return subprocess.run(["git", "-C", repo] + list(a), capture_output=True, text=True).stdout.strip()
main = {l.split(" ", 1)[1]: l.split(" ", 1)[0] for l in git("log", "--format=%h %s").split("\n") if " " in l}
k = json.load(open(os.path.join(root, "known_findings.json")))
for f in k["findings"]:
    if f.get("status") != "fixed" or not f.get("commit"):
        continue
    subj = f.get("subject") or git("log", "-1", "--format=%s", f["commit"])
    if subj:
        f["subject"] = subj
        if subj in main and main[subj] != f["commit"]:
            f["summary"] = f.get("summary", "").replace(f["commit"], main[subj])
            f["commit"] = main[subj]
json.dump(k, open(os.path.join(root, "known_findings.json"), "w"), indent=1)
print([(f["id"], f.get("commit")) for f in k["findings"]])
