#!/bin/sh
# dev helper: run the pool harness + driver and summarise
seed=${1:-1}; focus=${2:-C03}; tier=${3:-quick}
cd /verif
harness/target/debug/pool --seed $seed --tier $tier --out work/pool --focus $focus || exit 1
lean/.lake/build/bin/drv_c03 < work/pool/ops.txt > work/pool/model.txt
python3 - <<'PY'
import json,collections
r=json.load(open('/verif/work/pool/report.json'))
print({k:r[k] for k in ['cases','steps','oracle_checks','distinct_nontrivial']})
print({k:v for k,v in r['counters'].items() if not k.startswith('shape:')})
c=collections.Counter(f['key'] for f in r['failures']);print(c)
seen=set()
for f in r['failures']:
    if f['key'] not in seen: seen.add(f['key']); print(f)
def split(p):
    cases={};cur=None
    for l in open(p):
        l=l.rstrip('\n')
        if l.startswith('case '): cur=int(l.split()[1]);cases[cur]=[]
        elif cur is not None: cases[cur].append(l)
    return cases
ops=split('/verif/work/pool/ops.txt');imp=split('/verif/work/pool/impl.txt');mod=split('/verif/work/pool/model.txt')
bad=0
for c in imp:
    if imp[c]!=mod.get(c):
        bad+=1
        if bad<=3:
            for j,(a,b) in enumerate(zip(imp[c],mod.get(c,[]))):
                if a!=b:
                    print('MISMATCH case',c,'step',j,ops[c][j]); print('  impl :',a); print('  model:',b); break
print('mismatched cases:',bad,'of',len(imp))
PY
