#!/usr/bin/env python3
"""Print the DESIGN.md table of one round of seeded changes from seeded/<id>/meta.json.  Usage: tools/seeded_table.py <round>"""
import json, os, sys, glob, re
ROOT = os.path.dirname(os.path.dirname(os.path.abspath(__file__)))
rnd = int(sys.argv[1])
print("| id | file | change | caught by (oracle key of the first violation) |\n|---|---|---|---|")
for d in sorted(glob.glob(f"{ROOT}/seeded/*")):
    if not os.path.isdir(d): continue
    m = json.load(open(f"{d}/meta.json"))
    if m.get("round", 1) != rnd: continue
    parts = []
    checks = [m["property"]] + [c for c in m.get("also_run", []) if c != m["property"]]
    for c in checks:
        if c in m.get("caught_by", []):
            v = m.get("first_violation", {}).get(c, "")
            k = re.search(r"replays/C\d\d-\d+-(.*?)\.json", v)
            key = k.group(1) if k else "?"
            nf = " no failing input" if "no-failing-input-found" in v else ""
            parts.append(f"{c} (`{key}`{',' + nf if nf else ''})")
        elif c == m["property"]:
            parts.append(f"{c}: " + ("no longer a violation (neutralized by a later fix, see meta.json)" if m.get("neutralized") else "missed"))
    files = ", ".join(os.path.basename(f) for f in m.get("files", []))
    title = m.get("title", "").replace("|", "/")
    print(f"| {m['id']} | {files} | {title} | {'; '.join(parts)} |")
