#!/usr/bin/env python3
"""Re-run every seeded change under /verif/seeded/<id>/ against its target check and the related checks listed in
meta.json["also_run"]; records meta.json["caught_by"] / ["missed_by"].  Usage: tools/seeded_all.py [id ...]"""
import json, os, subprocess, sys, glob
ROOT = os.path.dirname(os.path.dirname(os.path.abspath(__file__)))
ids = sys.argv[1:] or sorted(os.path.basename(d) for d in glob.glob(f"{ROOT}/seeded/*") if os.path.isdir(d))
summary = []
for i in ids:
    d = f"{ROOT}/seeded/{i}"
    meta = json.load(open(f"{d}/meta.json"))
    checks = [meta["property"]] + [c for c in meta.get("also_run", []) if c != meta["property"]]
    r = subprocess.run([sys.executable, f"{ROOT}/tools/run_seeded.py", d, "--checks", ",".join(checks)], capture_output=True, text=True)
    print(f"== {i}\n{r.stdout}{r.stderr[-300:]}", flush=True)
    res = json.load(open(f"{d}/check_results.json")) if os.path.exists(f"{d}/check_results.json") else {}
    meta["caught_by"] = [c for c in checks if res.get(c, {}).get("rc") == 1 and res[c]["violations"]]
    meta["missed_by"] = [c for c in checks if res.get(c, {}).get("rc") == 0]
    meta["first_violation"] = {c: res[c]["violations"][0] for c in meta["caught_by"]}
    json.dump(meta, open(f"{d}/meta.json", "w"), indent=1)
    summary.append((i, meta["caught_by"], meta["missed_by"]))
print("\nSUMMARY")
for i, c, m in summary:
    print(f"{i}: caught by {','.join(c) or '-'}; missed by {','.join(m) or '-'}")
