#!/usr/bin/env python3
"""Lists lake targets named in cfg/*.json: `drivers` or `props`."""
import glob, json, os, sys
root = os.path.join(os.path.dirname(os.path.abspath(__file__)), "..")
what = sys.argv[1] if len(sys.argv) > 1 else "drivers"
out = []
for p in sorted(glob.glob(os.path.join(root, "cfg", "C*.json"))):
    c = json.load(open(p))
    if what == "drivers" and c.get("driver"):
        out.append(c["driver"])
    if what == "drivers":
        out += [a["driver"] for a in c.get("also", []) if isinstance(a, dict) and a.get("driver")]
    if what == "props":
        out += c["lean_props"]
print(" ".join(dict.fromkeys(out)))
