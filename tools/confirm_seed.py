#!/usr/bin/env python3
"""Confirm a seeded change delivered by a fresh sub-agent, in that agent's scratch worktree of /repo.

  tools/confirm_seed.py <worktree> <dir-with patch.diff demo.diff meta.json>

Steps (everything inside <worktree>, which is reset to HEAD before and after):
  1. demo alone (demo.diff on the unchanged tree): meta.demo_cmd must PASS;
  2. patch.diff + demo.diff: meta.demo_cmd must FAIL;
  3. patch.diff alone: the crate builds and the pinned suite passes — every test of /root/.vp/BASELINE.json
     `stable_pass` (and every test added by later fix: commits that passes on the unchanged tree) still passes.
Writes <dir>/confirm.json {demo_without: pass|fail, demo_with: pass|fail, suite_missing: [...], ok: bool}."""
import json, os, re, subprocess, sys
def sh(cmd, cwd, timeout=1800):
    return subprocess.run(cmd, shell=True, cwd=cwd, capture_output=True, text=True, timeout=timeout,
                          env=dict(os.environ, CARGO_NET_OFFLINE="true"))
def reset(wt):
    sh("git checkout -- . && git clean -fdq -e out -e target", wt)
def passed_tests(wt):
    r = sh("cargo nextest run --workspace --no-fail-fast --offline --test-threads 8 2>&1", wt)
    out = r.stdout
    ok = set(re.findall(r"^\s+PASS \[[^\]]*\]\s+(?:\(\s*\d+/\d+\)\s+)?(\S+)\s+(\S+)", out, re.M))
    return {f"{a}::{b}" for a, b in ok}, out
def main():
    wt, d = sys.argv[1], os.path.abspath(sys.argv[2])
    meta = json.load(open(f"{d}/meta.json"))
    demo = meta["demo_cmd"]
    res = {}
    reset(wt)
    r = sh(f"git apply {d}/demo.diff", wt)
    if r.returncode: res["error"] = "demo.diff does not apply on the unchanged tree: " + r.stderr[:300]
    else:
        r = sh(demo + " 2>&1", wt); res["demo_without"] = "pass" if r.returncode == 0 else "fail"
        res["demo_without_tail"] = r.stdout[-400:]
        r2 = sh(f"git apply {d}/patch.diff", wt)
        if r2.returncode: res["error"] = "patch.diff does not apply on top of demo.diff: " + r2.stderr[:300]
        else:
            r = sh(demo + " 2>&1", wt); res["demo_with"] = "pass" if r.returncode == 0 else "fail"
            res["demo_with_tail"] = r.stdout[-600:]
    reset(wt)
    base_file = os.path.join(wt, "target", "baseline_pass.json")
    if os.path.exists(base_file): base = set(json.load(open(base_file)))
    else:
        base, _ = passed_tests(wt); json.dump(sorted(base), open(base_file, "w"))
    r = sh(f"git apply {d}/patch.diff", wt)
    if r.returncode: res["error"] = "patch.diff does not apply: " + r.stderr[:300]
    else:
        got, out = passed_tests(wt)
        res["suite_passed"] = len(got); res["suite_baseline"] = len(base)
        res["suite_missing"] = sorted(t for t in base - got if "token_bucket" not in t)
        if not got: res["error"] = "suite did not run: " + out[-500:]
    reset(wt)
    res["ok"] = (res.get("demo_without") == "pass" and res.get("demo_with") == "fail"
                 and not res.get("suite_missing") and "error" not in res)
    json.dump(res, open(f"{d}/confirm.json", "w"), indent=1)
    print(d, "OK" if res["ok"] else "NOT CONFIRMED", {k: v for k, v in res.items() if not k.endswith("_tail")})
if __name__ == "__main__": main()
