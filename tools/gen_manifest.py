#!/usr/bin/env python3
"""Writes /verif/MANIFEST.json from cfg/C*.json (+ cfg/not_applicable.json). Run after editing a cfg."""
import glob, json, os, subprocess
root = os.path.normpath(os.path.join(os.path.dirname(os.path.abspath(__file__)), ".."))
props = [json.loads(l)["id"] for l in open(os.path.join(root, "properties.jsonl"))]
na_path = os.path.join(root, "cfg", "not_applicable.json")
na = json.load(open(na_path)) if os.path.exists(na_path) else {}
checks, engines = [], {}
for pid in props:
    p = os.path.join(root, "cfg", pid + ".json")
    if not os.path.exists(p):
        continue
    c = json.load(open(p))
    m = c.get("manifest", {})
    checks.append({
        "property_id": pid,
        "quick_cmd": f"./check {pid} --tier quick",
        "thorough_cmd": f"./check {pid} --tier thorough",
        "evidence_file": f"/verif/evidence/{pid}.json",
        "replay_cmd_template": f"./check {pid} --replay {{path}}",
        "engine": "lean4-proof+correspondence",
        "level_claimed": {"category": c.get("level", "proof"),
                          "text": m.get("level_text", c.get("explanation", "")),
                          "design_ref": m.get("design_ref", f"DESIGN.md §6 {pid}")},
        "level_note": m.get("level_note", "; ".join(c.get("trusted_base", []))),
        "technique": m.get("technique", "machine-checked proof in Lean 4 about an executable model + differential correspondence check of the model against the Rust implementation"),
    })
hooks_commits = subprocess.run(["git", "-C", "/repo", "log", "--format=%h %s", "--grep", "^verif-hooks"],
                               capture_output=True, text=True).stdout.strip().split("\n")
manifest = {
    "version": 1,
    "setup_cmd": "./setup.sh",
    "hooks": {
        "guard": "cargo feature verif-hooks",
        "enable": "the harness crate /verif/harness depends on alpenglow = { path = \"/repo\", features = [\"test-utils\", \"verif-hooks\"] } and is rebuilt by every check",
        "baseline_off_cmd": "cd /repo && cargo nextest run --workspace --no-fail-fast --offline --test-threads 8 || cargo test --workspace --no-fail-fast --offline",
        "source_commits": [c for c in hooks_commits if c],
        "add_only": True,
    },
    "engines": [{"name": "lean4-proof+correspondence", "path": "/verif/check",
                 "serves_properties": [c["property_id"] for c in checks],
                 "kind_free_text": "Lean 4 theorems about hand-written executable models (lean/AgModel), tied to /repo on every run by a Rust differential harness (harness/) whose operations are replayed on the compiled Lean model driver, plus constants regenerated from the sources"}],
    "checks": checks,
    "notes": "see DESIGN.md; known_findings.json lists genuine defects (fixed ones with their fix: commit)",
    "not_applicable": [{"property_id": pid, "reason": na.get(pid, "no check built yet in this phase (design in DESIGN.md §6); not claimed")}
                       for pid in props if not os.path.exists(os.path.join(root, "cfg", pid + ".json"))],
}
json.dump(manifest, open(os.path.join(root, "MANIFEST.json"), "w"), indent=1)
print(f"MANIFEST.json: {len(checks)} checks, {len(manifest['not_applicable'])} not claimed")
