#!/usr/bin/env python3
"""Apply a seeded change (patch.diff) to /repo, run the given checks (quick tier), undo it.

  tools/run_seeded.py <dir-with-patch.diff> [--checks C03,C18 | --all] [--tier quick]

Prints per check: exit code, VIOLATION lines.  The patch is always reverted (git checkout -- . ; git clean for
new files listed in the patch).  Refuses to run when /repo has local modifications."""
import subprocess, sys, os, json, re, time
ROOT = os.path.dirname(os.path.dirname(os.path.abspath(__file__)))
REPO = os.path.abspath(os.path.join(ROOT, "..", "repo"))
def sh(cmd, **kw): return subprocess.run(cmd, shell=True, capture_output=True, text=True, **kw)
def main():
    d = sys.argv[1].rstrip("/")
    checks = None; tier = "quick"
    a = sys.argv[2:]
    while a:
        if a[0] == "--checks": checks = a[1].split(","); a = a[2:]
        elif a[0] == "--all": checks = [f"C{i:02d}" for i in range(1, 21)]; a = a[1:]
        elif a[0] == "--tier": tier = a[1]; a = a[2:]
        else: a = a[1:]
    meta = json.load(open(f"{d}/meta.json")) if os.path.exists(f"{d}/meta.json") else {}
    if checks is None: checks = [meta.get("property")]
    if sh(f"git -C {REPO} status --porcelain --untracked-files=no").stdout.strip():
        print("refusing: /repo has local modifications"); sys.exit(2)
    patch = os.path.abspath(f"{d}/patch.diff")
    r = sh(f"git -C {REPO} apply {patch}")
    if r.returncode != 0:
        print("patch does not apply:", r.stderr[:500]); sys.exit(2)
    new_files = re.findall(r"^\+\+\+ b/(\S+)", open(patch).read(), re.M)
    res = {}
    import shutil, tempfile
    evbak = tempfile.mkdtemp(prefix="evbak", dir=os.path.join(ROOT, "work") if os.path.isdir(os.path.join(ROOT, "work")) else None)
    shutil.copytree(os.path.join(ROOT, "evidence"), os.path.join(evbak, "evidence"))
    try:
        for c in checks:
            t0 = time.time()
            r = sh(f"{ROOT}/check {c} --tier {tier}", cwd=ROOT)
            viol = [l for l in r.stdout.splitlines() if l.startswith("VIOLATION")]
            tail = [l for l in r.stdout.splitlines() if l.startswith(c + " ")]
            res[c] = {"rc": r.returncode, "violations": viol, "summary": tail[-1] if tail else (r.stdout[-300:] + r.stderr[-300:]), "wall": round(time.time() - t0, 1)}
            extra = ""
            if viol:
                rp = viol[0].split("replay=")[1].split()[0]
                try: extra = " | " + json.load(open(rp)).get("what", "")[:300]
                except Exception: pass
            print(f"  {c}: rc={r.returncode} {'CAUGHT' if r.returncode == 1 and viol else 'missed' if r.returncode == 0 else 'ERROR'} ({res[c]['wall']}s) {viol[0] if viol else ''}{extra}")
            if r.returncode not in (0, 1) or (r.returncode == 1 and not viol): print("    ", res[c]["summary"][-600:])
    finally:
        # evidence written while the change was applied does not describe /repo: put the previous files back
        shutil.rmtree(os.path.join(ROOT, "evidence")); shutil.copytree(os.path.join(evbak, "evidence"), os.path.join(ROOT, "evidence")); shutil.rmtree(evbak)
        sh(f"git -C {REPO} checkout -- .")
        for f in new_files:
            if sh(f"git -C {REPO} ls-files --error-unmatch {f}").returncode != 0:
                try: os.remove(os.path.join(REPO, f))
                except OSError: pass
    json.dump(res, open(f"{d}/check_results.json", "w"), indent=1)
if __name__ == "__main__": main()
