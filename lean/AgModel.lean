import AgModel.Gen.Consts
import AgModel.Model.Merkle
import AgModel.Proofs.Merkle
import AgModel.Props.C15
