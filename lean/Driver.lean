import Driver.Util
