import AgModel.Model.Shred
/-!
Toy instance of `AgModel.Shred.Env` used by the C11 / C12 drivers, and the byte generators shared with
the Rust harness.

* Reed–Solomon: recovery shard `j` holds, per byte position, the whole column of the 32 originals packed
  in base 256 (the first one times 64, plus `j`). Any single recovery shard therefore restores every original (the code is
  trivially MDS), and a recovery shard presented under a wrong index restores garbage. Its *bytes* are not
  those of `reed-solomon-simd`, so recovery-shard contents are never compared with the implementation —
  only sizes, counts, verdicts, the restored slice and equalities between shreds are.
* cipher / key mask: byte-wise involutions `x ↦ (k - x) mod 256`.
* leaf ids: two polynomial hashes modulo 31-bit primes (injective in practice on the few hundred shards of a run).
-/
namespace AgModel.Exec.ShredEnv
open AgModel.Shred

def fnv (bs : List Nat) : UInt64 :=
  bs.foldl (fun h b => (h ^^^ UInt64.ofNat b) * 0x100000001b3) 0xcbf29ce484222325

/-- per byte position, the column of the originals packed in base 256 -/
def packColumns (D : List (List Nat)) : List Nat :=
  match D with
  | [] => []
  | d :: rest => rest.foldl (fun (acc : List Nat × Nat) e => (List.zipWith (fun a x => a + acc.2 * x) acc.1 e, acc.2 * 256)) (d, 256) |>.1

def toyEncode (nc : Nat) (D : List (List Nat)) : List (List Nat) :=
  let cols := packColumns D
  (List.range nc).map fun j =>
    match cols with
    | [] => []
    | c :: rest => (c * 64 + j) :: rest

def toyRestore (_nc _sb : Nat) (_orig rcv : List (Nat × List Nat)) (i : Nat) : List Nat :=
  match rcv with
  | (j, x :: c) :: _ =>
    if x % 64 = j then
      let w := 256 ^ i
      (x / 64 / w) % 256 :: c.map fun y => (y / w) % 256
    else (x :: c).map fun y => 255 - (y % 256)
  | _ => []

def involute (k : List Nat) (off : Nat) (b : List Nat) : List Nat :=
  (b.zipIdx).map fun (x, i) => (k.getD (i % 16) 0 + i + off + 256 * (1 + x / 256) - x) % 256

def toyKeystream (key b : List Nat) : List Nat := involute key 0 b

def toyMask (ct key : List Nat) : List Nat := involute [(fnv ct).toNat % 256] 7 key

-- (moduli below 2^32: larger literals are re-parsed from a string on every use by the compiled code)
def M : Nat := 4294967291
def M1 : Nat := 2147483647
def M2 : Nat := 2147483629

def toyLeafId (b : List Nat) : Nat :=
  if b.isEmpty then 0
  else
    let (h1, h2) := b.foldl (fun (h : Nat × Nat) x =>
      let r := if x < 256 then x else x % M
      ((h.1 * 1000003 + r + 1) % M1, (h.2 * 7368787 + r + 5) % M2)) (7, 11)
    1 + h1 * 2147483648 + h2

def toyEnv : Env := ⟨toyEncode, toyRestore, toyKeystream, toyMask, toyLeafId⟩

/-- data byte generator shared with the harness: `(a·i + b + i/251) mod 256`, last bytes overridden by `tail` -/
def genData (len a b : Nat) (tail : List Nat) : List Nat :=
  let base := (List.range len).map fun i => (a * i + b + i / 251) % 256
  let t := tail.drop (tail.length - len)
  base.take (len - t.length) ++ t

def genHash (seed : Nat) : List Nat := (List.range 32).map fun j => (seed + 7 * j) % 256

def keyOf (seed : Nat) : List Nat := (List.range 16).map fun j => (seed + 3 * j) % 256

def mkSlice (slot idx last hasP pslot hseed len a b : Nat) (tail : List Nat) : Slice :=
  ⟨⟨slot, idx, last == 1⟩, if hasP == 1 then some (pslot, genHash hseed) else none, genData len a b tail⟩

def variantOf : String → Variant
  | "c" => .codingOnly
  | "p" => .pets
  | "a" => .aont
  | _ => .regular

def errName : DErr → String
  | .invalidLayout => "InvalidLayout"
  | .notEnoughShreds => "NotEnoughShreds"
  | .tooMuchData => "TooMuchData"
  | .badEncoding => "BadEncoding"
  | .invalidMerkleTree => "InvalidMerkleTree"

end AgModel.Exec.ShredEnv
