import Mathlib.Algebra.BigOperators.Group.Finset.Basic
import Mathlib.Algebra.Order.BigOperators.Group.Finset
import Mathlib.Data.Fintype.Basic
/-!
Stake arithmetic over an arbitrary finite validator set: the weight `w p` of a predicate on validators,
monotonicity, union / intersection bounds. Used by the protocol-level safety proof (C01) and the
progress arithmetic (C02).
-/
namespace AgModel.Spec

open Finset Classical

variable {V : Type} [Fintype V]

/-- total stake of the validators satisfying `p` -/
noncomputable def w (stake : V → ℕ) (p : V → Prop) : ℕ := ∑ v ∈ univ.filter p, stake v

/-- total stake -/
noncomputable def total (stake : V → ℕ) : ℕ := ∑ v, stake v

theorem w_true (stake : V → ℕ) : w stake (fun _ => True) = total stake := by
  unfold w total; simp

theorem w_mono (stake : V → ℕ) {p q : V → Prop} (h : ∀ v, p v → q v) : w stake p ≤ w stake q := by
  unfold w
  apply Finset.sum_le_sum_of_subset
  intro v hv
  simp only [mem_filter, mem_univ, true_and] at hv ⊢
  exact h v hv

theorem w_le_total (stake : V → ℕ) (p : V → Prop) : w stake p ≤ total stake := by
  rw [← w_true]; exact w_mono stake (fun _ _ => trivial)

theorem w_or_add_and (stake : V → ℕ) (p q : V → Prop) :
    w stake (fun v => p v ∨ q v) + w stake (fun v => p v ∧ q v) = w stake p + w stake q := by
  unfold w
  simp only [Finset.sum_filter]
  rw [← Finset.sum_add_distrib, ← Finset.sum_add_distrib]
  apply Finset.sum_congr rfl
  intro v _
  by_cases hp : p v <;> by_cases hq : q v <;> simp [hp, hq]

theorem w_or_le (stake : V → ℕ) (p q : V → Prop) : w stake (fun v => p v ∨ q v) ≤ w stake p + w stake q := by
  have := w_or_add_and stake p q; omega

/-- quorum intersection -/
theorem w_and_ge (stake : V → ℕ) (p q : V → Prop) :
    w stake p + w stake q ≤ w stake (fun v => p v ∧ q v) + total stake := by
  have h := w_or_add_and stake p q
  have := w_le_total stake (fun v => p v ∨ q v)
  omega

theorem w_not (stake : V → ℕ) (p : V → Prop) : w stake p + w stake (fun v => ¬ p v) = total stake := by
  unfold w total
  simp only [Finset.sum_filter]
  rw [← Finset.sum_add_distrib]
  apply Finset.sum_congr rfl
  intro v _
  by_cases hp : p v <;> simp [hp]

theorem exists_of_w_pos (stake : V → ℕ) (p : V → Prop) (h : 0 < w stake p) : ∃ v, p v := by
  unfold w at h
  by_contra hne
  have : ∑ v ∈ univ.filter p, stake v = 0 := by
    apply Finset.sum_eq_zero
    intro v hv
    simp only [mem_filter, mem_univ, true_and] at hv
    exact absurd ⟨v, hv⟩ hne
  omega

/-- a set heavier than the Byzantine set contains a correct validator -/
theorem exists_correct (stake : V → ℕ) (byz p : V → Prop) (h : w stake byz < w stake p) : ∃ v, p v ∧ ¬ byz v := by
  have h1 : w stake p ≤ w stake (fun v => p v ∧ byz v) + w stake (fun v => p v ∧ ¬ byz v) := by
    have := w_or_le stake (fun v => p v ∧ byz v) (fun v => p v ∧ ¬ byz v)
    refine Nat.le_trans (w_mono stake ?_) this
    intro v hp
    by_cases hb : byz v
    · exact Or.inl ⟨hp, hb⟩
    · exact Or.inr ⟨hp, hb⟩
  have h2 : w stake (fun v => p v ∧ byz v) ≤ w stake byz := w_mono stake (fun v hv => hv.2)
  have : 0 < w stake (fun v => p v ∧ ¬ byz v) := by omega
  exact exists_of_w_pos stake _ this

/-- weight of a set all of whose correct members lie outside `n`: at most `total − w n + w byz` -/
theorem w_le_of_correct_outside (stake : V → ℕ) (byz n p : V → Prop) (h : ∀ v, p v → ¬ byz v → ¬ n v) :
    w stake p + w stake n ≤ total stake + w stake byz := by
  have h1 : w stake p ≤ w stake (fun v => ¬ n v ∨ byz v) := by
    apply w_mono; intro v hp
    by_cases hb : byz v
    · exact Or.inr hb
    · exact Or.inl (h v hp hb)
  have h2 := w_or_le stake (fun v => ¬ n v) byz
  have h3 := w_not stake n
  omega

end AgModel.Spec
