import AgModel.Spec.Protocol
import AgModel.Proofs.NodeSigned
import AgModel.Proofs.VotorZero
/-!
# A cluster of model nodes under an adversarial network (C01, refinement stage 0: definitions)

* `Cfg`: `n = stakes.length` validators with their stakes, which of them are *correct* (the others are Byzantine),
  and the global parent function `parentOf` on block ids `(slot, hash)` — *the hash binds the parent* (C13): every
  block delivered anywhere in a run, to a pool or to a Votor, names the parent `parentOf` gives for its id.
* every validator index runs one composed node (`Model/Node.lean`: `PoolImpl` ∘ event queue ∘ `Votor`) with
  `epoch.own = i`; only the nodes of correct validators matter (nothing reads the others);
* a **run** is a list of events `(i, op)`: the operation `op : NodeOp` (deliver a vote / a certificate / a block to the
  pool, pump the event queue, deliver a block / first shred / invalid block / timeout to Votor) happens at node `i`.
  The *network is the adversary*: it chooses every event, in any order, with any delay, loss and duplication;
* `Valid`: the only restrictions — **unforgeability** and *the hash binds the parent*:
  a delivered vote naming a correct signer `j` is a vote node `j`'s Votor has broadcast before (`sigOf`); votes naming
  Byzantine signers are arbitrary; a delivered certificate is arbitrary but *backed* (`CertBacked`: what
  `ValidatedCert::try_new` checks, C09 — the distinct stake of the listed signers meets the threshold — and every
  listed *correct* signer has broadcast the vote the certificate binds its aggregate to); blocks agree with `parentOf`;
* the derived `History` (`histOf`): a correct validator signed exactly what its Votor log contains (`.out` items; the
  genesis block counts as notarized by everybody, as in `Spec.Protocol`); a Byzantine validator signed *everything* (the
  worst case: whatever votes of theirs were or could be delivered are in it);
* the derived `Chain` (`chainOf`): blocks are ids `(slot, hash)` (`Blk`; the only block of slot 0 is genesis), the
  parent is `parentOf` when that is in an earlier slot (else genesis: such a block is never voted for).
-/
namespace AgModel.Cluster
open AgModel AgModel.Node AgModel.NodePanic

structure Cfg where
  stakes : List Nat
  correct : Nat → Bool
  parentOf : Nat × Nat → Nat × Nat

def Cfg.n (c : Cfg) : Nat := c.stakes.length

def Cfg.epoch (c : Cfg) (i : Nat) : Pool.Epoch := { stakes := c.stakes, own := i }

/-- the state of the cluster: one node per validator index -/
abbrev State := Nat → Node

def init (c : Cfg) : State := fun i => { pool := { epoch := c.epoch i } }

/-- an event of a run: operation `op` happens at node `i` -/
abbrev Ev := Nat × NodeOp

def step (s : State) (ev : Ev) : State := fun j => if j = ev.1 then nodeStep (s j) ev.2 else s j

def run (s : State) : List Ev → State
  | [] => s
  | ev :: evs => run (step s ev) evs

/-- **who has signed what** in state `s`: a correct validator exactly what its Votor has broadcast (its log), a Byzantine
    validator everything -/
def sigOf (c : Cfg) (s : State) : Pool.SigLog where
  notar := fun j sl h => c.correct j = true → ∃ ps ph, Votor.Item.out (.notar sl h ps ph) ∈ (s j).votor.log
  nf := fun j sl h => c.correct j = true → Votor.Item.out (.notarFallback sl h) ∈ (s j).votor.log
  skip := fun j sl => c.correct j = true → Votor.Item.out (.skip sl) ∈ (s j).votor.log
  sf := fun j sl => c.correct j = true → Votor.Item.out (.skipFallback sl) ∈ (s j).votor.log
  fin := fun j sl => c.correct j = true → Votor.Item.out (.final sl) ∈ (s j).votor.log

/-- the restriction on one event (unforgeability; the hash binds the parent): `NodeOk` of `Proofs/NodeSigned.lean` —
    `.recvVote v`: `v` is signed by the validator it names; `.recvCert x`: `x` is backed; `.poolBlock b p`: `parentOf b = p`;
    `.votorBlock s ⟨h, ps, ph⟩`: `parentOf (s, h) = (ps, ph)`; everything else is unrestricted -/
def EvOk (c : Cfg) (s : State) (ev : Ev) : Prop := NodeOk (sigOf c s) (c.epoch ev.1) c.parentOf ev.2

/-- a run all of whose events respect the restriction in the state in which they happen -/
def Valid (c : Cfg) : State → List Ev → Prop
  | _, [] => True
  | s, ev :: evs => EvOk c s ev ∧ Valid c (step s ev) evs

/-! ### blocks, the chain -/

/-- block ids; the only block of slot 0 is the genesis block -/
structure Blk where
  slot : Nat
  hash : Nat
  ok : slot = 0 → hash = 0

theorem Blk.ext' {a b : Blk} (h1 : a.slot = b.slot) (h2 : a.hash = b.hash) : a = b := by
  cases a; cases b; simp only at h1 h2; subst h1; subst h2; rfl

def Blk.genesis : Blk := ⟨0, 0, fun _ => rfl⟩

/-- the block with id `(s, h)` (slot 0: genesis) -/
def Blk.mk' (s h : Nat) : Blk := if hs : s = 0 then Blk.genesis else ⟨s, h, fun h0 => absurd h0 hs⟩

theorem Blk.mk'_slot (s h : Nat) : (Blk.mk' s h).slot = s := by
  unfold Blk.mk'; split
  · rename_i hs; rw [hs]; rfl
  · rfl

theorem Blk.mk'_hash (s h : Nat) (hs : s ≠ 0) : (Blk.mk' s h).hash = h := by
  unfold Blk.mk'; rw [dif_neg hs]

theorem Blk.mk'_zero (h : Nat) : Blk.mk' 0 h = Blk.genesis := by
  unfold Blk.mk'; rw [dif_pos rfl]

theorem Blk.mk'_self (b : Blk) : Blk.mk' b.slot b.hash = b := by
  by_cases hs : b.slot = 0
  · apply Blk.ext'
    · rw [Blk.mk'_slot]
    · rw [hs, Blk.mk'_zero, b.ok hs]; rfl
  · apply Blk.ext'
    · rw [Blk.mk'_slot]
    · rw [Blk.mk'_hash _ _ hs]

theorem Blk.eq_genesis_of_slot (b : Blk) (h : b.slot = 0) : b = Blk.genesis :=
  Blk.ext' h (b.ok h)

def parentBlk (c : Cfg) (b : Blk) : Blk :=
  if b.slot = 0 then Blk.genesis
  else if (c.parentOf (b.slot, b.hash)).1 < b.slot then Blk.mk' (c.parentOf (b.slot, b.hash)).1 (c.parentOf (b.slot, b.hash)).2
  else Blk.genesis

/-- the block tree of a configuration -/
def chainOf (c : Cfg) : Spec.Chain Blk where
  slot := Blk.slot
  parent := parentBlk c
  genesis := Blk.genesis
  slot_genesis := rfl
  zero_is_genesis := fun b h => b.eq_genesis_of_slot h
  parent_lt := by
    intro b hb
    have hs : b.slot ≠ 0 := fun h => hb (b.eq_genesis_of_slot h)
    unfold parentBlk
    rw [if_neg hs]
    split
    · rw [Blk.mk'_slot]; assumption
    · show 0 < b.slot; omega

/-! ### validators, stakes, the history -/

def stakeFn (c : Cfg) : Fin c.n → ℕ := fun v => c.stakes.getD v.val 0

def byz (c : Cfg) : Fin c.n → Prop := fun v => c.correct v.val = false

/-- the global history of signed votes derived from a cluster state -/
def histOf (c : Cfg) (s : State) : Spec.History (Fin c.n) Blk where
  notar := fun v b => c.correct v.val = true →
    (b = Blk.genesis ∨ ∃ ps ph, Votor.Item.out (.notar b.slot b.hash ps ph) ∈ (s v.val).votor.log)
  nf := fun v b => c.correct v.val = true → Votor.Item.out (.notarFallback b.slot b.hash) ∈ (s v.val).votor.log
  skip := fun v t => c.correct v.val = true → Votor.Item.out (.skip t) ∈ (s v.val).votor.log
  sf := fun v t => c.correct v.val = true → Votor.Item.out (.skipFallback t) ∈ (s v.val).votor.log
  fin := fun v t => c.correct v.val = true → Votor.Item.out (.final t) ∈ (s v.val).votor.log

/-! ### what a correct node's pool reports as finalized (`PoolImpl::get_final_certs`) -/

/-- node `i`'s pool holds a fast-finalization certificate for block `b`, or a finalization certificate for `b`'s slot
    together with a notarization certificate for `b` -/
def PoolFinalized (s : State) (i : Nat) (b : Blk) : Prop :=
  ∃ st, (s i).pool.getSlot b.slot = some st ∧
    ((∃ x, st.cFf = some x ∧ x.hash = b.hash) ∨ (st.cFin.isSome = true ∧ ∃ x, st.cNotar = some x ∧ x.hash = b.hash))

end AgModel.Cluster
