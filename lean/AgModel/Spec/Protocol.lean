import AgModel.Spec.Stake
import AgModel.Gen.Consts
/-!
Protocol-level specification for C01 (finalization agreement).

* validators `V` (any finite type), stakes, a Byzantine set with `< 20 %` of the stake;
* blocks with a slot and a parent (any number of blocks per slot: equivocating leaders);
* the *global, monotone history* of signed votes (`History`): which validator ever signed which vote —
  Byzantine validators arbitrary; message delay / loss / duplication / reordering never removes a vote
  from the history, so every certificate any node ever assembles is a subset of it;
* certificates are *derived*: a certificate exists iff the signers' stake reaches the threshold taken
  from the source (`AgModel.Gen.*_THRESHOLD_*`). This is what C03/C09 justify: every certificate a pool
  creates or admits is backed by distinct validators that signed exactly these votes;
* `Rules`: what the safety proof needs of a *correct* validator's own votes (R1–R5). Each rule is
  discharged for the executable Votor / Pool models by the C05 / C06 / C07 theorems (see DESIGN.md).
-/
namespace AgModel.Spec

open Classical

/-- `≥ 60 %` (QUORUM_THRESHOLD), `≥ 80 %`, `≥ 40 %`, `≥ 20 %` of `T`, as `Fraction::is_met` computes them -/
def Q (x T : ℕ) : Prop := x * Gen.QUORUM_THRESHOLD_DEN ≥ T * Gen.QUORUM_THRESHOLD_NUM
def Strong (x T : ℕ) : Prop := x * Gen.STRONG_QUORUM_THRESHOLD_DEN ≥ T * Gen.STRONG_QUORUM_THRESHOLD_NUM
def Weak (x T : ℕ) : Prop := x * Gen.WEAK_QUORUM_THRESHOLD_DEN ≥ T * Gen.WEAK_QUORUM_THRESHOLD_NUM
def Weakest (x T : ℕ) : Prop := x * Gen.WEAKEST_QUORUM_THRESHOLD_DEN ≥ T * Gen.WEAKEST_QUORUM_THRESHOLD_NUM

theorem Q_iff (x T : ℕ) : Q x T ↔ 5 * x ≥ 3 * T := by
  unfold Q Gen.QUORUM_THRESHOLD_DEN Gen.QUORUM_THRESHOLD_NUM; omega
theorem Strong_iff (x T : ℕ) : Strong x T ↔ 5 * x ≥ 4 * T := by
  unfold Strong Gen.STRONG_QUORUM_THRESHOLD_DEN Gen.STRONG_QUORUM_THRESHOLD_NUM; omega
theorem Weak_iff (x T : ℕ) : Weak x T ↔ 5 * x ≥ 2 * T := by
  unfold Weak Gen.WEAK_QUORUM_THRESHOLD_DEN Gen.WEAK_QUORUM_THRESHOLD_NUM; omega
theorem Weakest_iff (x T : ℕ) : Weakest x T ↔ 5 * x ≥ T := by
  unfold Weakest Gen.WEAKEST_QUORUM_THRESHOLD_DEN Gen.WEAKEST_QUORUM_THRESHOLD_NUM; omega

/-- the block tree -/
structure Chain (Block : Type) where
  slot : Block → ℕ
  parent : Block → Block
  genesis : Block
  slot_genesis : slot genesis = 0
  zero_is_genesis : ∀ b, slot b = 0 → b = genesis
  parent_lt : ∀ b, b ≠ genesis → slot (parent b) < slot b

/-- `Anc C b x`: `b` is `x` or an ancestor of `x` -/
inductive Anc {Block : Type} (C : Chain Block) (b : Block) : Block → Prop where
  | refl : Anc C b b
  | step (x : Block) : x ≠ C.genesis → Anc C b (C.parent x) → Anc C b x

/-- the global history of signed votes -/
structure History (V Block : Type) where
  notar : V → Block → Prop
  nf : V → Block → Prop
  skip : V → ℕ → Prop
  sf : V → ℕ → Prop
  fin : V → ℕ → Prop

def windowStart (t : ℕ) : Prop := t % Gen.SLOTS_PER_WINDOW = 0

section
variable {V Block : Type} [Fintype V] (stake : V → ℕ) (C : Chain Block) (H : History V Block)

/-- stake that signed a notarization vote for `b` -/
noncomputable def notarW (b : Block) : ℕ := w stake (fun v => H.notar v b)

def NotarCert (b : Block) : Prop := Q (notarW stake H b) (total stake)
def FastFinalCert (b : Block) : Prop := Strong (notarW stake H b) (total stake)
def NFCert (b : Block) : Prop := Q (w stake (fun v => H.notar v b ∨ H.nf v b)) (total stake)
def SkipCert (s : ℕ) : Prop := Q (w stake (fun v => H.skip v s ∨ H.sf v s)) (total stake)
def FinalCert (s : ℕ) : Prop := Q (w stake (fun v => H.fin v s)) (total stake)

/-- a block is finalized: fast path, or slow path (finalization + notarization certificate) -/
def FinalizedAt (b : Block) : Prop :=
  FastFinalCert stake H b ∨ (FinalCert stake H (C.slot b) ∧ NotarCert stake H b)

/-- a parent is acceptable: genesis, or certified at least notar-fallback -/
def Certified (p : Block) : Prop := p = C.genesis ∨ NFCert stake H p

/-- the voting rules of a correct validator `v`, on the history -/
structure Rules (v : V) : Prop where
  /-- R1: one initial vote per slot -/
  one_notar : ∀ b b', H.notar v b → H.notar v b' → C.slot b = C.slot b' → b = b'
  notar_no_skip : ∀ b, H.notar v b → ¬ H.skip v (C.slot b)
  /-- R2: finalize only the own, certificate-notarized block, never together with a skip / fallback vote -/
  fin_rule : ∀ s, H.fin v s →
    (∃ b, C.slot b = s ∧ H.notar v b ∧ NotarCert stake H b) ∧ ¬ H.skip v s ∧ ¬ H.sf v s ∧ ∀ x, C.slot x = s → ¬ H.nf v x
  /-- R3: notar-fallback only when safe-to-notar held -/
  nf_rule : ∀ x, H.nf v x →
    (Weak (notarW stake H x) (total stake) ∨
      (Weakest (notarW stake H x) (total stake) ∧
        Q (w stake (fun u => H.notar u x ∨ H.skip u (C.slot x))) (total stake))) ∧
    Certified stake C H (C.parent x) ∧ ¬ H.notar v x
  /-- R4: skip-fallback only when safe-to-skip held (for every candidate "most voted" block `c`) -/
  sf_rule : ∀ s, H.sf v s → ∀ c, C.slot c = s →
    Weak (w stake (fun u => H.skip u s ∨ ∃ x, C.slot x = s ∧ x ≠ c ∧ H.notar u x)) (total stake)
  /-- R5: notarize only on an acceptable parent (genesis counts as notarized by everyone) -/
  notar_rule : ∀ x, H.notar v x → x ≠ C.genesis →
    ((windowStart (C.slot x) → Certified stake C H (C.parent x) ∧
        ∀ t, C.slot (C.parent x) < t → t < C.slot x → SkipCert stake H t) ∧
     (¬ windowStart (C.slot x) → H.notar v (C.parent x) ∧ C.slot (C.parent x) + 1 = C.slot x))

end

end AgModel.Spec
