import AgModel.Gen.Consts
import AgModel.Proofs.Pad
import AgModel.Proofs.Shred
/-!
# C11 — Erasure coding: any 32 of a slice's 64 shreds restore it bit-for-bit

Statements about `AgModel.Pad` (padding / chunking arithmetic of `reed_solomon.rs`) and `AgModel.Shred`
(the four shredders and `Shredder::deshred`). `reed-solomon-simd`, AES-CTR, the SHA-256 key mask and the
interning of shard bytes as Merkle leaves are parameters `env : Env` whose contracts are the hypotheses
`Env.Laws env` (structure fields, not axioms).
-/
namespace AgModel.Shred
open AgModel.Pad AgModel.Merkle

/-! ### padding arithmetic (every payload length, every residue of the padding scheme) -/

/-- The size arithmetic of `ReedSolomonCoder::shred`, for **every** payload length:
    the shard size is even, at least 2 and `2·(len/64 + 1)`; 32 shards hold the payload plus
    1..64 padding bytes; `last_shreds_bytes` is a multiple of the shard size, at least 64; neither
    `usize` subtraction in `boundary` underflows; `boundary` is a multiple of the shard size and
    `≤ len`; the tail + marker fits `last_shreds` (`resize` never truncates). -/
theorem pad_arith (len : Nat) :
    shredBytes len = 2 * (len / 64 + 1) ∧
    1 ≤ paddingBytes len ∧ paddingBytes len ≤ 64 ∧
    len + paddingBytes len = 32 * shredBytes len ∧
    lastShredsBytes len % shredBytes len = 0 ∧
    paddingBytes len ≤ lastShredsBytes len ∧
    lastShredsBytes len - paddingBytes len ≤ len ∧
    boundary len % shredBytes len = 0 ∧ boundary len ≤ len ∧
    (len - boundary len) + 1 ≤ lastShredsBytes len := by
  have hp := paddingBytes_eq len
  have hs := shredBytes_eq len
  have ht := padded_total len
  have ⟨hd, h64, hle⟩ := lastShredsBytes_props len
  have hb := boundary_eq len
  refine ⟨hs, by omega, by omega, ht, hd, by omega, by omega, ?_, by omega, by omega⟩
  -- boundary = 32*sb - last, both multiples of sb
  rw [hb]
  have hk := Nat.div_add_mod (lastShredsBytes len) (shredBytes len)
  rw [hd, Nat.add_zero] at hk
  rw [← hk, Nat.mul_comm 32, ← Nat.mul_sub]
  exact Nat.mul_mod_right _ _

/-- within the size limit the shard size never exceeds `MAX_DATA_PER_SHRED` (and reaches it) -/
theorem shredBytes_le_max (len : Nat) (h : len ≤ MAX_PER_SLICE) : shredBytes len ≤ MAX_PER_SHRED := by
  rw [shredBytes_eq, MAX_PER_SHRED_eq]; rw [MAX_PER_SLICE_eq] at h; omega

/-- `rsSplit` (the data shards handed to the encoder): exactly 32 shards of `shred_bytes` bytes whose
    concatenation is `payload ‖ 0x80 ‖ 0…0`. -/
theorem split_spec (p : Bytes) :
    (rsSplit p).length = DATA ∧ (∀ c ∈ rsSplit p, c.length = shredBytes p.length) ∧
    (rsSplit p).flatten = p ++ marker :: List.replicate (paddingBytes p.length - 1) 0 :=
  ⟨(rsSplit_shape p).1, (rsSplit_shape p).2, rsSplit_flatten p⟩

/-- removing the padding restores the payload, for every payload (including the empty one, payloads
    ending in `0x00` / `0x80` bytes, and the maximum) -/
theorem unpad_split (p : Bytes) : unpad (rsSplit p).flatten = some p :=
  unpad_rsSplit p

end AgModel.Shred
