import AgModel.Gen.Consts
import AgModel.Proofs.Pad
import AgModel.Proofs.Shred
import AgModel.Proofs.ShredInstance
import AgModel.Props.C15
import AgModel.Exec.ShredEnv
/-!
# C11 — Erasure coding: any 32 of a slice's 64 shreds restore it bit-for-bit

Statements about `AgModel.Pad` (padding / chunking arithmetic of `reed_solomon.rs`) and `AgModel.Shred`
(the four shredders and `Shredder::deshred`). `reed-solomon-simd`, AES-CTR, the SHA-256 key mask and the
interning of shard bytes as Merkle leaves are parameters `env : Env` whose contracts are the hypotheses
`Env.Laws env` (structure fields, not axioms).
-/
namespace AgModel.Shred
open AgModel.Pad AgModel.Merkle

/-! ### padding arithmetic (every payload length, every residue of the padding scheme) -/

/-- The size arithmetic of `ReedSolomonCoder::shred`, for **every** payload length:
    the shard size is even, at least 2 and `2·(len/64 + 1)`; 32 shards hold the payload plus
    1..64 padding bytes; `last_shreds_bytes` is a multiple of the shard size, at least 64; neither
    `usize` subtraction in `boundary` underflows; `boundary` is a multiple of the shard size and
    `≤ len`; the tail + marker fits `last_shreds` (`resize` never truncates). -/
theorem pad_arith (len : Nat) :
    shredBytes len = 2 * (len / 64 + 1) ∧
    1 ≤ paddingBytes len ∧ paddingBytes len ≤ 64 ∧
    len + paddingBytes len = 32 * shredBytes len ∧
    lastShredsBytes len % shredBytes len = 0 ∧
    paddingBytes len ≤ lastShredsBytes len ∧
    lastShredsBytes len - paddingBytes len ≤ len ∧
    boundary len % shredBytes len = 0 ∧ boundary len ≤ len ∧
    (len - boundary len) + 1 ≤ lastShredsBytes len := by
  have hp := paddingBytes_eq len
  have hs := shredBytes_eq len
  have ht := padded_total len
  have ⟨hd, h64, hle⟩ := lastShredsBytes_props len
  have hb := boundary_eq len
  refine ⟨hs, by omega, by omega, ht, hd, by omega, by omega, ?_, by omega, by omega⟩
  -- boundary = 32*sb - last, both multiples of sb
  rw [hb]
  have hk := Nat.div_add_mod (lastShredsBytes len) (shredBytes len)
  rw [hd, Nat.add_zero] at hk
  rw [← hk, Nat.mul_comm 32, ← Nat.mul_sub]
  exact Nat.mul_mod_right _ _

/-- within the size limit the shard size never exceeds `MAX_DATA_PER_SHRED` (and reaches it) -/
theorem shredBytes_le_max (len : Nat) (h : len ≤ MAX_PER_SLICE) : shredBytes len ≤ MAX_PER_SHRED := by
  rw [shredBytes_eq, MAX_PER_SHRED_eq]; rw [MAX_PER_SLICE_eq] at h; omega

/-- `rsSplit` (the data shards handed to the encoder): exactly 32 shards of `shred_bytes` bytes whose
    concatenation is `payload ‖ 0x80 ‖ 0…0`. -/
theorem split_spec (p : Bytes) :
    (rsSplit p).length = DATA ∧ (∀ c ∈ rsSplit p, c.length = shredBytes p.length) ∧
    (rsSplit p).flatten = p ++ marker :: List.replicate (paddingBytes p.length - 1) 0 :=
  ⟨(rsSplit_shape p).1, (rsSplit_shape p).2, rsSplit_flatten p⟩

/-- removing the padding restores the payload, for every payload (including the empty one, payloads
    ending in `0x00` / `0x80` bytes, and the maximum) -/
theorem unpad_split (p : Bytes) : unpad (rsSplit p).flatten = some p :=
  unpad_rsSplit p

/-! ### the round trip, for the four shredders -/

/-- **A slice above the size limit is refused at shredding time**, and only then: `shred` returns
    `TooMuchData` iff the serialized payload exceeds the shredder's `MAX_DATA_SIZE`; otherwise it returns
    the 64 shreds `leaderOut` (no panic). -/
theorem too_big (env : Env) (L : env.Laws) (v : Variant) (sl : Slice) (sk : Nat) (key : Bytes)
    (hkey : key.length = KEY_BYTES) :
    (v.maxData < (payloadBytes sl.parent sl.data).length → shred env v sl sk key = .err .tooMuchData) ∧
    ((payloadBytes sl.parent sl.data).length ≤ v.maxData →
      shred env v sl sk key = .ok (leaderOut env v sl sk key) ∧ (leaderOut env v sl sk key).length = TOTAL) := by
  constructor
  · intro hbig
    have := coderPayload_too_long env L v key _ hkey hbig
    unfold shred
    rw [shredRaw_eq, if_pos this]
  · intro hfit
    refine ⟨shred_ok env L v sl sk key hkey hfit, ?_⟩
    unfold leaderOut
    simp only [mkAll_length]
    rw [rawsOf_length env _ _ L (nData_le v), TOTAL_eq]

/-- what every shred of the leader's output looks like: position `i` carries index `i`, the data/coding tag
    of the layout, the slice header, the leader's signature over (header, root) and the tree's proof -/
theorem leaderOut_get (env : Env) (v : Variant) (sl : Slice) (sk : Nat) (key : Bytes) (i : Nat) (s : VShred)
    (h : (leaderOut env v sl sk key)[i]? = some s) :
    s.root = (leaderTree env v sl key).root ∧ s.shred.index = i ∧ s.shred.header = sl.header ∧
    s.shred.isData = decide (i < v.nData) ∧
    s.shred.sig = .signed sk (commit sl.header (leaderTree env v sl key).root) ∧
    s.shred.path = (leaderTree env v sl key).createProof i ∧
    (rawsOf env (coderPayload env v key (payloadBytes sl.parent sl.data)) v.nData)[i]? = some s.shred.data := by
  unfold leaderOut at h
  simp only [mkAll_getElem?, Nat.zero_add] at h
  cases hr : (rawsOf env (coderPayload env v key (payloadBytes sl.parent sl.data)) v.nData)[i]? with
  | none => simp [hr] at h
  | some d =>
    simp only [hr, Option.map_some, Option.some.injEq] at h
    subst h
    simp [mkShred, leaderTree]

/-- **Round trip.** For each of the four shredders, every slice within the shredder's size limit (any
    header, with or without parent, any data including the empty and the maximum), every cipher key and
    every set `present` of at least 32 of the 64 positions: `deshred` on the shreds at those positions
    returns exactly the original slice (slot, index, last flag, parent, data) with the leader's root, and
    the array afterwards is the leader's complete output — every missing shred regenerated identically
    (same index, kind, bytes, copied signature, Merkle path). -/
theorem roundtrip (env : Env) (L : env.Laws) (v : Variant) (sl : Slice) (sk : Nat) (key : Bytes)
    (hkey : key.length = KEY_BYTES) (hfit : (payloadBytes sl.parent sl.data).length ≤ v.maxData)
    (hpar : ∀ s h, sl.parent = some (s, h) → s < 2 ^ 64 ∧ h.length = 32)
    (present : Nat → Bool) (hcnt : 32 ≤ ((List.range 64).filter present).length) :
    deshred env v (selectFrom present 0 (leaderOut env v sl sk key))
      = .ok (⟨sl, (leaderTree env v sl key).root⟩, (leaderOut env v sl sk key).map some) := by
  have hm := MAX_PER_SLICE_eq
  have hfit' : (payloadBytes sl.parent sl.data).length ≤ MAX_PER_SLICE := by
    have : v.maxData ≤ MAX_PER_SLICE := by cases v <;> decide
    omega
  generalize hpb : payloadBytes sl.parent sl.data = pb at *
  have hP := coderPayload_length env L v key pb hkey hfit
  have hlen := rawsOf_length env (coderPayload env v key pb) v.nData L (nData_le v)
  have htree0 : leaderTree env v sl key = Tree.new ((rawsOf env (coderPayload env v key pb) v.nData).map env.leafId) := by
    unfold leaderTree; rw [hpb]
  unfold leaderOut
  rw [hpb]
  generalize htree : leaderTree env v sl key = tree at *
  generalize hsig : Sig.signed sk (commit sl.header tree.root) = sig
  generalize hsh : selectFrom present 0 (mkAll (mkShred sl.header v.nData tree sig) 0 (rawsOf env (coderPayload env v key pb) v.nData)) = shreds
  have hcount : count shreds = ((List.range 64).filter present).length := by
    rw [← hsh, count_selectFrom, mkAll_length, hlen, List.range_eq_range']
  have hnotall : shreds.all Option.isNone = false := count_pos_of_not_all_none _ (by omega)
  have hlay : tryNewLayout shreds v.nData = .ok := by
    rw [← hsh]; exact tryNewLayout_select env L _ _ (nData_le v) _ _ _ _ (by rw [hsh]; omega)
  have hdv : deshredValidated env v shreds = .ok (pb, leaderRaw env v key pb) := by
    rw [← hsh]
    exact deshredValidated_roundtrip env L v key pb hkey hfit _ (by intro i d; simp [mkShred]) present hcnt
  obtain ⟨a, ha⟩ : ∃ a, anyShred shreds = some a := by
    cases h : anyShred shreds with
    | none => rw [(anyShred_none_iff _).mp h] at hnotall; simp at hnotall
    | some a => exact ⟨a, rfl⟩
  obtain ⟨i, d, _, hai⟩ := mem_selectFrom _ _ _ _ _ (by rw [hsh]; exact anyShred_mem _ _ ha)
  have hbt : buildTree env (leaderRaw env v key pb) = tree := by rw [htree0]; rfl
  have hdl : (leaderRaw env v key pb).data.length = v.nData := by
    simp only [leaderRaw, List.length_take, (rsSplit_shape _).1]; have := nData_le v; omega
  have hraws : (leaderRaw env v key pb).data ++ (leaderRaw env v key pb).coding = rawsOf env (coderPayload env v key pb) v.nData := rfl
  have hparse := parse_payloadBytes sl.parent sl.data (by rw [hpb]; exact hfit') hpar
  rw [hpb] at hparse
  unfold deshred
  simp only [hnotall, hlay, hdv, ha, hbt, hparse, Bool.false_eq_true, if_false]
  subst hai
  simp only [mkShred, ne_eq, not_true_eq_false, if_false, fillMissing, hdl, hraws, hlen, TOTAL_eq]
  rw [← hsh]
  simp only [mkShred] at *
  rw [fillAux_select]
  have hcl : (leaderRaw env v key pb).coding.length = 64 - v.nData := L.encode_length _ _
  rw [if_neg (by rw [hcl]; have := nData_le v; omega)]

/-- **Each regenerated (= each leader) shred carries a Merkle proof valid under the same signed root**:
    it passes `ValidatedShred::try_new` for the leader key without a cache and - under any key - with the slice's
    cached commitment that remembers the leader's signature, with the leader's root as derived root, and its path verifies (`check_proof`) at its index. -/
theorem leader_shreds_validate (env : Env) (L : env.Laws) (v : Variant) (sl : Slice) (sk : Nat) (key : Bytes)
    (i : Nat) (s : VShred) (h : (leaderOut env v sl sk key)[i]? = some s) :
    validate env s.shred none sk = .ok s ∧
    (∀ pk, validate env s.shred (some ⟨commit sl.header (leaderTree env v sl key).root,
        some (.signed sk (commit sl.header (leaderTree env v sl key).root))⟩) pk = .ok s) ∧
    checkProof (env.leafId s.shred.data) s.shred.index (leaderTree env v sl key).root s.shred.path = true := by
  obtain ⟨hroot, hidx, hhdr, _, hsig, hpath, hraw⟩ := leaderOut_get env v sl sk key i s h
  have hlen := rawsOf_length env (coderPayload env v key (payloadBytes sl.parent sl.data)) v.nData L (nData_le v)
  have hi : i < 64 := by
    rw [← hlen]; exact (List.getElem?_eq_some_iff.mp hraw).1
  have hc := AgModel.Merkle.complete
    ((rawsOf env (coderPayload env v key (payloadBytes sl.parent sl.data)) v.nData).map env.leafId) i
    (by rw [List.length_map, hlen]; exact hi) (by rw [List.length_map, hlen]; decide)
  have hleaf : ((rawsOf env (coderPayload env v key (payloadBytes sl.parent sl.data)) v.nData).map env.leafId).getD i 0
      = env.leafId s.shred.data := by
    simp [List.getD_eq_getElem?_getD, List.getElem?_map, hraw]
  rw [hleaf] at hc
  have hcp : checkProof (env.leafId s.shred.data) s.shred.index (leaderTree env v sl key).root s.shred.path = true := by
    rw [hidx, hpath]; exact hc
  have hder : s.shred.sliceRoot env = s.root := by
    unfold checkProof checkHashProof at hcp
    simp only [Bool.and_eq_true, decide_eq_true_eq] at hcp
    unfold Shred.sliceRoot
    rw [hcp.2, hroot]
  -- the created path consumes the whole index (what `try_new` asks for since the D32 fix)
  have hcons : s.shred.indexConsumed = true := by
    unfold checkProof checkHashProof at hcp
    simp only [Bool.and_eq_true, decide_eq_true_eq] at hcp
    have := hcp.1.2
    rw [deriveRootIdx_snd] at this
    simp [Shred.indexConsumed, this]
  refine ⟨?_, ?_, hcp⟩
  · unfold validate
    simp only [hcons, Bool.not_true, Bool.false_eq_true, if_false, hder, hsig, hhdr, hroot, Sig.verify, decide_true]
    cases s; simp_all
  · intro pk
    unfold validate Cached.shortcuts
    simp only [hcons, Bool.not_true, Bool.false_eq_true, if_false, hder, hsig, hhdr, hroot, decide_true, Bool.and_self, if_true]
    cases s; simp_all

/-! ### fewer than 32 shreds, errors, untouched input -/

/-- **Fewer than 32 shreds never reconstruct anything**, whatever the shreds are (honest or not):
    `deshred` then returns `NotEnoughShreds` or `InvalidLayout` (or hits the documented position panic of
    `ValidatedShreds::try_new`), never a slice. -/
theorem too_few (env : Env) (v : Variant) (shreds : List (Option VShred)) (h : count shreds < DATA) :
    deshred env v shreds = .err .notEnoughShreds ∨ deshred env v shreds = .err .invalidLayout ∨
      deshred env v shreds = .panic := by
  unfold deshred
  by_cases hall : shreds.all Option.isNone = true
  · left; simp only [hall, if_true]
  · simp only [hall, Bool.false_eq_true, if_false]
    cases tryNewLayout shreds v.nData with
    | invalid => right; left; rfl
    | panic => right; right; rfl
    | ok =>
      left
      have : deshredValidated env v shreds = .error .notEnoughShreds := by
        unfold deshredValidated coderDeshred
        simp only [h, if_true]
      simp only [this]

/-- for fewer than 32 of the *leader's* shreds the verdict is exactly `NotEnoughShreds` -/
theorem too_few_honest (env : Env) (L : env.Laws) (v : Variant) (sl : Slice) (sk : Nat) (key : Bytes)
    (present : Nat → Bool) (hcnt : ((List.range 64).filter present).length < 32) :
    deshred env v (selectFrom present 0 (leaderOut env v sl sk key)) = .err .notEnoughShreds := by
  have hlen := rawsOf_length env (coderPayload env v key (payloadBytes sl.parent sl.data)) v.nData L (nData_le v)
  have hcount : count (selectFrom present 0 (leaderOut env v sl sk key)) = ((List.range 64).filter present).length := by
    unfold leaderOut
    rw [count_selectFrom, mkAll_length, hlen, List.range_eq_range']
  by_cases hall : (selectFrom present 0 (leaderOut env v sl sk key)).all Option.isNone = true
  · unfold deshred; simp only [hall, if_true]
  · have hpos : 0 < count (selectFrom present 0 (leaderOut env v sl sk key)) := by
      rcases Nat.eq_zero_or_pos (count (selectFrom present 0 (leaderOut env v sl sk key))) with h0 | h0
      · exfalso; apply hall
        unfold count at h0
        rw [List.all_eq_true]
        intro x hx
        cases x with
        | none => rfl
        | some y =>
          have : some y ∈ List.filter Option.isSome (selectFrom present 0 (leaderOut env v sl sk key)) :=
            List.mem_filter.mpr ⟨hx, rfl⟩
          rw [List.eq_nil_of_length_eq_zero h0] at this
          simp at this
      · exact h0
    have hlay := tryNewLayout_select env L _ _ (nData_le v) sl.header (leaderTree env v sl key)
      (.signed sk (commit sl.header (leaderTree env v sl key).root)) present hpos
    unfold deshred
    simp only [hall, Bool.false_eq_true, if_false]
    unfold leaderOut at *
    rw [hlay]
    have : deshredValidated env v (selectFrom present 0 (mkAll (mkShred sl.header v.nData (leaderTree env v sl key)
        (.signed sk (commit sl.header (leaderTree env v sl key).root))) 0
        (rawsOf env (coderPayload env v key (payloadBytes sl.parent sl.data)) v.nData))) = .error .notEnoughShreds := by
      unfold deshredValidated coderDeshred
      rw [if_pos (by rw [hcount, DATA_eq]; exact hcnt)]
    simp only [this]

/-- **On any decoding error the supplied shreds are left untouched** (the model writes the array only in
    the final `fill_missing_shreds`; the harness compares the real array before / after every failing call). -/
theorem error_leaves_input (env : Env) (v : Variant) (shreds : List (Option VShred))
    (h : ∀ r, deshred env v shreds ≠ .ok r) : arrayAfter shreds (deshred env v shreds) = shreds := by
  cases hd : deshred env v shreds with
  | ok r => exact absurd hd (h r)
  | err e => rfl
  | panic => rfl

/-- `fill_missing_shreds` never overwrites a present entry and keeps the array length -/
theorem fillAux_keeps (mk : Nat → Bytes → VShred) (k : Nat) (raws : List Bytes) (arr : List (Option VShred))
    (i : Nat) (s : VShred) (h : arr[i]? = some (some s)) : (fillAux mk k raws arr)[i]? = some (some s) := by
  induction raws generalizing k arr i with
  | nil => simpa [fillAux] using h
  | cons d ds ih =>
    cases arr with
    | nil => simp at h
    | cons a arr =>
      cases i with
      | zero =>
        simp only [List.getElem?_cons_zero, Option.some.injEq] at h
        subst h; simp [fillAux]
      | succ i =>
        simp only [List.getElem?_cons_succ] at h
        simp only [fillAux, List.getElem?_cons_succ]
        exact ih (k + 1) arr i h

/-- a successful `deshred` of *any* array leaves every supplied shred in place -/
theorem present_untouched (env : Env) (v : Variant) (shreds : List (Option VShred)) (r : RSlice)
    (out : List (Option VShred)) (h : deshred env v shreds = .ok (r, out)) (i : Nat) (s : VShred)
    (hs : shreds[i]? = some (some s)) : out[i]? = some (some s) := by
  have key : ∃ hd raw tree sig, fillMissing shreds hd raw tree sig = some out := by
    unfold deshred at h
    simp only at h
    repeat' split at h
    all_goals first
      | (simp at h; done)
      | (rename_i out' hfm
         simp only [Res.ok.injEq, Prod.mk.injEq] at h
         rw [← h.2]
         exact ⟨_, _, _, _, hfm⟩)
  obtain ⟨hd, raw, tree, sig, hfm⟩ := key
  unfold fillMissing at hfm
  split at hfm
  · simp at hfm
  · simp only [Option.some.injEq] at hfm
    rw [← hfm]
    exact fillAux_keeps _ _ _ _ i s hs

/-! ### non-vacuity of the hypotheses -/

/-- **The contracts `Env.Laws` are satisfiable**: `Proofs/ShredInstance.lean` constructs an `Env` (a trivially MDS
    code whose recovery shards carry whole columns, identity cipher, injective list encoding as leaf id) and
    proves every clause — for arbitrary `Nat` shards, all `nc`, all shard sizes. -/
theorem laws_satisfiable : ∃ env : Env, env.Laws := ⟨Instance.env, Instance.laws⟩

/-- `roundtrip` instantiated with the lawful instance: an unconditional statement (no `Env.Laws` hypothesis). -/
theorem roundtrip_instance (v : Variant) (sl : Slice) (sk : Nat) (key : Bytes)
    (hkey : key.length = KEY_BYTES) (hfit : (payloadBytes sl.parent sl.data).length ≤ v.maxData)
    (hpar : ∀ s h, sl.parent = some (s, h) → s < 2 ^ 64 ∧ h.length = 32)
    (present : Nat → Bool) (hcnt : 32 ≤ ((List.range 64).filter present).length) :
    deshred Instance.env v (selectFrom present 0 (leaderOut Instance.env v sl sk key))
      = .ok (⟨sl, (leaderTree Instance.env v sl key).root⟩, (leaderOut Instance.env v sl sk key).map some) :=
  roundtrip Instance.env Instance.laws v sl sk key hkey hfit hpar present hcnt

/-! ### non-vacuity (concrete evaluation in the kernel, toy `Env` of `AgModel/Exec/ShredEnv.lean`) -/

section NonVacuity
open AgModel.Exec.ShredEnv

/-- a slice with a parent and data ending in `0x80 0x00` (the bytes the padding removal looks for) -/
def exampleSlice : Slice := ⟨⟨7, 3, true⟩, some (6, genHash 3), [1, 2, 0, 128, 0]⟩

/-- the conclusion of `roundtrip` holds by evaluation for all four shredders when only the 32 odd positions
    are supplied (so every data shred of the regular layout has to come out of the decoder), … -/
example : ∀ v ∈ [Variant.regular, .codingOnly, .pets, .aont],
    deshred toyEnv v (selectFrom (fun i => i % 2 == 1) 0 (leaderOut toyEnv v exampleSlice 5 (keyOf 1)))
      = .ok (⟨exampleSlice, (leaderTree toyEnv v exampleSlice (keyOf 1)).root⟩,
             (leaderOut toyEnv v exampleSlice 5 (keyOf 1)).map some) := by
  decide +kernel

/-- … 31 shreds are refused, a 32 768-byte payload is refused at shredding time, a flipped tag is an invalid layout. -/
example :
    deshred toyEnv .regular (selectFrom (fun i => i % 2 == 1 && i != 63) 0 (leaderOut toyEnv .regular exampleSlice 5 (keyOf 1)))
      = .err .notEnoughShreds ∧
    shred toyEnv .regular ⟨⟨7, 3, true⟩, none, List.replicate 32759 1⟩ 5 (keyOf 1) = .err .tooMuchData ∧
    deshred toyEnv .regular (selectFrom (fun _ => true) 0 (leaderOut toyEnv .codingOnly exampleSlice 5 (keyOf 1)))
      = .err .invalidLayout := by
  decide +kernel

end NonVacuity

end AgModel.Shred
