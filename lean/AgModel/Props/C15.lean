import AgModel.Gen.Consts
import AgModel.Proofs.Merkle
/-!
# C15 — Merkle proofs verify exactly for the leaf at the stated position

All statements are about `AgModel.Merkle` (model of `src/crypto/merkle.rs`), with SHA-256 idealised
as the free term algebra `H` ("unless a hash collision"). Leaves are data ids; id `0` is the empty
byte string that `MerkleTree::new` pads with (`EMPTY_ROOTS`).
-/
namespace AgModel.Merkle

/-- the constant the model uses is the one in the source -/
theorem maxHeight_is_source : maxHeight = AgModel.Gen.MAX_MERKLE_TREE_HEIGHT := by decide

/-- the tree built by the well-founded form of the construction loop (proof vehicle) -/
def newWF (leaves : List Nat) : Tree := ⟨buildLevelsWF 0 (leaves.map H.leaf)⟩

theorem new_def (leaves : List Nat) : Tree.new leaves = newWF leaves := by
  unfold Tree.new newWF; rw [buildLevels_eq_wf]

private theorem root_def (leaves : List Nat) : (newWF leaves).root = rootOf (buildLevelsWF 0 (leaves.map H.leaf)) := rfl

namespace WF
private theorem leaves_isLeaf (leaves : List Nat) : ∀ y ∈ leaves.map H.leaf, IsLeaf y := by
  intro y hy; simp at hy; obtain ⟨a, _, rfl⟩ := hy; trivial

theorem height_le (leaves : List Nat) (k : Nat) (hn : leaves.length ≤ 2 ^ k) : (newWF leaves).height ≤ k := by
  unfold Tree.height newWF
  exact buildLevelsWF_height_le 0 _ k (by simpa using hn)

/-- `MerkleTree::new` computes the root of the perfect tree over the leaves padded with empty leaves. -/
theorem new_eq_spec (leaves : List Nat) (hne : leaves ≠ []) :
    (newWF leaves).root = specG 0 (newWF leaves).height (leaves.map H.leaf) := by
  rw [root_def]
  exact root_eq_spec 0 _ (by simpa using hne)

/-- **Completeness.** Every proof the tree creates verifies (any `n ≥ 1` up to `2^32` leaves, any `i < n`). -/
theorem complete (leaves : List Nat) (i : Nat) (hi : i < leaves.length) (hn : leaves.length ≤ 2 ^ 32) :
    checkProof (leaves.getD i 0) i (newWF leaves).root ((newWF leaves).createProof i) = true := by
  have hc := proofAux_complete 0 (leaves.map H.leaf) i (by simpa using hi)
  have hget : (leaves.map H.leaf).getD i (.junk 0) = .leaf (leaves.getD i 0) := by
    simp [List.getD_eq_getElem?_getD, List.getElem?_map, hi]
  rw [hget] at hc
  have hlen : ((newWF leaves).createProof i).length ≤ maxHeight := by
    unfold Tree.createProof
    rw [proofAux_length]
    exact height_le leaves 32 hn
  unfold checkProof checkHashProof deriveRoot
  unfold Tree.createProof newWF at *
  simp only [hc]
  simp [hlen]
  rfl

/-- **Completeness, last-leaf variant.** The created proof of the last leaf verifies as "last". -/
theorem complete_last (leaves : List Nat) (hne : leaves ≠ []) (hn : leaves.length ≤ 2 ^ 32) :
    checkProofLast (leaves.getD (leaves.length - 1) 0) (leaves.length - 1) (newWF leaves).root
      ((newWF leaves).createProof (leaves.length - 1)) = true := by
  have hpos : 0 < leaves.length := List.length_pos_iff.mpr hne
  have hi : leaves.length - 1 < leaves.length := by omega
  have hc := proofAux_last_complete 0 (leaves.map H.leaf) (leaves.length - 1) (by simp; omega)
  have hget : (leaves.map H.leaf).getD (leaves.length - 1) (.junk 0) = .leaf (leaves.getD (leaves.length - 1) 0) := by
    simp [List.getD_eq_getElem?_getD, hi]
  rw [hget] at hc
  have hlen : ¬ ((newWF leaves).createProof (leaves.length - 1)).length > maxHeight := by
    unfold Tree.createProof
    rw [proofAux_length]
    have := height_le leaves 32 hn
    have hm : maxHeight = 32 := by decide
    rw [hm]
    unfold Tree.height at *; omega
  unfold checkProofLast checkHashProofLast deriveRootLast
  rw [if_neg hlen]
  unfold Tree.createProof newWF at *
  simp only [hc]
  simp
  rfl

/-- **Soundness.** A proof verifies for `(leaf d, index i, root of the tree)` only if the proof has
    exactly the tree's height, the index is inside the tree's width, and `d` is the `i`-th leaf
    (the padding leaf `0` beyond the real leaves). -/
theorem sound (leaves : List Nat) (hne : leaves ≠ []) (d i : Nat) (π : List H)
    (hv : checkProof d i (newWF leaves).root π = true) :
    π.length = (newWF leaves).height ∧ i < 2 ^ (newWF leaves).height ∧ d = leaves.getD i 0 := by
  unfold checkProof checkHashProof deriveRoot at hv
  simp only [Bool.and_eq_true, decide_eq_true_eq] at hv
  obtain ⟨⟨_, hz⟩, hr⟩ := hv
  rw [new_eq_spec leaves hne] at hr
  obtain ⟨hlen, hx⟩ := derive_sound _ _ (leaves_isLeaf leaves) (.leaf d) trivial i π hr
  rw [deriveRootIdx_snd, hlen] at hz
  have hlt : i < 2 ^ (newWF leaves).height := by
    have hp := Nat.two_pow_pos (newWF leaves).height
    exact (Nat.div_eq_zero_iff_lt hp).mp hz
  refine ⟨hlen, hlt, ?_⟩
  rw [Nat.mod_eq_of_lt hlt] at hx
  by_cases hi : i < leaves.length
  · simp [List.getD_eq_getElem?_getD, List.getElem?_map, hi] at hx ⊢; exact hx
  · have : leaves.length ≤ i := by omega
    simp [List.getD_eq_getElem?_getD, this] at hx ⊢; exact hx

/-- The accepted proof is unique: any change to a proof element, or to the proof's length, of an
    accepted `(d, i, root, π)` is rejected. -/
theorem proof_unique (leaves : List Nat) (hne : leaves ≠ []) (d d' i : Nat) (π π' : List H)
    (h1 : checkProof d i (newWF leaves).root π = true)
    (h2 : checkProof d' i (newWF leaves).root π' = true) : d = d' ∧ π = π' := by
  have l1 := (sound leaves hne d i π h1).1
  have l2 := (sound leaves hne d' i π' h2).1
  unfold checkProof checkHashProof deriveRoot at h1 h2
  simp only [Bool.and_eq_true, decide_eq_true_eq] at h1 h2
  have := derive_inj (.leaf d) (.leaf d') i π π' (by omega) (by rw [h1.2, h2.2])
  exact ⟨by injection this.1, this.2⟩

/-- Changing the root: a proof accepted for one root is rejected for every other root. -/
theorem root_unique (d i : Nat) (r r' : H) (π : List H)
    (h1 : checkProof d i r π = true) (h2 : checkProof d i r' π = true) : r = r' := by
  unfold checkProof checkHashProof at h1 h2
  simp only [Bool.and_eq_true, decide_eq_true_eq] at h1 h2
  rw [← h1.2, ← h2.2]

/-- **Last-leaf soundness.** The last-leaf variant verifies only if, in addition, every leaf to the
    right of `i` (inside the tree's width) is empty: the number of slices cannot be misreported. -/
theorem last_sound (leaves : List Nat) (hne : leaves ≠ []) (d i : Nat) (π : List H)
    (hv : checkProofLast d i (newWF leaves).root π = true) :
    π.length = (newWF leaves).height ∧ i < 2 ^ (newWF leaves).height ∧ d = leaves.getD i 0 ∧
      ∀ j, i < j → leaves.getD j 0 = 0 := by
  unfold checkProofLast checkHashProofLast deriveRootLast at hv
  split at hv
  · rename_i r heq
    split at heq
    · simp at heq
    · rename_i hlen32
      split at heq
      · rename_i r' haux
        simp only [Option.some.injEq] at heq; subst heq
        simp only [decide_eq_true_eq] at hv
        have hd := deriveLastAux_some 0 (.leaf d) i π _ haux
        -- reuse `sound`
        have hcp : checkProof d i (newWF leaves).root π = true := by
          unfold checkProof checkHashProof deriveRoot
          simp only [hd, hv, Bool.and_eq_true, decide_eq_true_eq]
          exact ⟨⟨by omega, trivial⟩, trivial⟩
        obtain ⟨hlen, hlt, hdd⟩ := sound leaves hne d i π hcp
        refine ⟨hlen, hlt, hdd, ?_⟩
        -- right siblings at 0-bits are canonical empties ⇒ all leaves right of `i` are empty
        have hemp := deriveLastAux_empties 0 (.leaf d) i π _ haux
        have hr : (deriveRootIdx (.leaf d) i π).1 = specG 0 (newWF leaves).height (leaves.map H.leaf) := by
          rw [hd, hv, new_eq_spec leaves hne]
        have key := derive_last_right_empty _ _ (leaves_isLeaf leaves) (.leaf d) i π hlen hr
          (by intro t ht hb; simpa using hemp t (by omega) hb)
        rw [Nat.mod_eq_of_lt hlt] at key
        intro j hij
        by_cases hjw : j < 2 ^ (newWF leaves).height
        · have := key j hij hjw
          by_cases hjl : j < leaves.length
          · simpa [List.getD_eq_getElem?_getD, List.getElem?_map, hjl] using this
          · have : leaves.length ≤ j := by omega
            simp [List.getD_eq_getElem?_getD, this]
        · have hw := buildLevelsWF_width 0 (leaves.map H.leaf)
          have : leaves.length ≤ j := by
            have : leaves.length ≤ 2 ^ (newWF leaves).height := by simpa [Tree.height, newWF] using hw
            omega
          simp [List.getD_eq_getElem?_getD, this]
      · simp at heq
  · simp at hv

end WF

/-! ### The property theorems, about the executable `Tree.new` -/

/-- `MerkleTree::new` computes the root of the perfect tree over the leaves padded with empty leaves. -/
theorem new_eq_spec (leaves : List Nat) (hne : leaves ≠ []) :
    (Tree.new leaves).root = specG 0 (Tree.new leaves).height (leaves.map H.leaf) := by
  rw [new_def]; exact WF.new_eq_spec leaves hne

/-- **Completeness.** Every proof the tree creates verifies (any `n ≥ 1` up to `2^32` leaves, any `i < n`). -/
theorem complete (leaves : List Nat) (i : Nat) (hi : i < leaves.length) (hn : leaves.length ≤ 2 ^ 32) :
    checkProof (leaves.getD i 0) i (Tree.new leaves).root ((Tree.new leaves).createProof i) = true := by
  rw [new_def]; exact WF.complete leaves i hi hn

/-- **Completeness, last-leaf variant.** The created proof of the last leaf verifies as "last". -/
theorem complete_last (leaves : List Nat) (hne : leaves ≠ []) (hn : leaves.length ≤ 2 ^ 32) :
    checkProofLast (leaves.getD (leaves.length - 1) 0) (leaves.length - 1) (Tree.new leaves).root
      ((Tree.new leaves).createProof (leaves.length - 1)) = true := by
  rw [new_def]; exact WF.complete_last leaves hne hn

/-- **Soundness.** A proof verifies for `(leaf d, index i, root of the tree)` only if the proof has
    exactly the tree's height, the index is inside the tree's width (so an index beyond the width
    is rejected), and `d` is the `i`-th leaf (the padding leaf `0` beyond the real leaves). -/
theorem sound (leaves : List Nat) (hne : leaves ≠ []) (d i : Nat) (π : List H)
    (hv : checkProof d i (Tree.new leaves).root π = true) :
    π.length = (Tree.new leaves).height ∧ i < 2 ^ (Tree.new leaves).height ∧ d = leaves.getD i 0 := by
  rw [new_def] at hv ⊢; exact WF.sound leaves hne d i π hv

/-- The accepted proof is unique: changing any proof element, or the proof's length, or the leaf,
    of an accepted `(d, i, root, π)` is rejected. -/
theorem proof_unique (leaves : List Nat) (hne : leaves ≠ []) (d d' i : Nat) (π π' : List H)
    (h1 : checkProof d i (Tree.new leaves).root π = true)
    (h2 : checkProof d' i (Tree.new leaves).root π' = true) : d = d' ∧ π = π' := by
  rw [new_def] at h1 h2; exact WF.proof_unique leaves hne d d' i π π' h1 h2

/-- **Last-leaf soundness.** The last-leaf variant verifies only if, in addition, every leaf to the
    right of `i` is empty: the number of slices cannot be misreported. -/
theorem last_sound (leaves : List Nat) (hne : leaves ≠ []) (d i : Nat) (π : List H)
    (hv : checkProofLast d i (Tree.new leaves).root π = true) :
    π.length = (Tree.new leaves).height ∧ i < 2 ^ (Tree.new leaves).height ∧ d = leaves.getD i 0 ∧
      ∀ j, i < j → leaves.getD j 0 = 0 := by
  rw [new_def] at hv ⊢; exact WF.last_sound leaves hne d i π hv

/-! ### The pinned snapshot's verifier (defect D5) and non-vacuity -/

/-- What *is* true of the snapshot's `check_hash_proof`, which ignores index bits above the proof
    length: the leaf is the one at `i mod 2^height`. -/
theorem sound_old_mod (leaves : List Nat) (hne : leaves ≠ []) (d i : Nat) (π : List H)
    (hv : checkHashProofOld (.leaf d) i (Tree.new leaves).root π = true) :
    π.length = (Tree.new leaves).height ∧ H.leaf d = (leaves.map H.leaf).getD (i % 2 ^ (Tree.new leaves).height) (.leaf 0) := by
  unfold checkHashProofOld deriveRoot at hv
  simp only [Bool.and_eq_true, decide_eq_true_eq] at hv
  have hr := hv.2
  rw [new_def, WF.new_eq_spec leaves hne] at hr
  rw [new_def]
  exact derive_sound _ _ (by intro y hy; simp at hy; obtain ⟨a, _, rfl⟩ := hy; trivial) (.leaf d) trivial i π hr

/-- Witness that `sound` is false for the snapshot's verifier: in a 4-leaf tree the proof of leaf 3
    is accepted for index 7 (and a 1-leaf tree accepts every index with the empty proof). The
    repaired verifier rejects both. -/
theorem old_unsound_witness :
    let t := Tree.new [1, 2, 3, 4]
    checkHashProofOld (.leaf 4) 7 t.root (t.createProof 3) = true ∧
    checkHashProof (.leaf 4) 7 t.root (t.createProof 3) = false ∧
    checkHashProofOld (.leaf 9) 12345 (Tree.new [9]).root [] = true ∧
    checkHashProof (.leaf 9) 12345 (Tree.new [9]).root [] = false := by decide

/-- Non-vacuity: a concrete 5-leaf tree; proofs verify, the last-leaf variant accepts exactly the
    last leaf, a wrong index / leaf / truncated proof is rejected. -/
example :
    let t := Tree.new [11, 12, 13, 14, 15]
    t.height = 3 ∧
    checkProof 12 1 t.root (t.createProof 1) = true ∧
    checkProofLast 15 4 t.root (t.createProof 4) = true ∧
    checkProofLast 14 3 t.root (t.createProof 3) = false ∧
    checkProof 12 2 t.root (t.createProof 1) = false ∧
    checkProof 13 1 t.root (t.createProof 1) = false ∧
    checkProof 12 1 t.root ((t.createProof 1).dropLast) = false := by decide

end AgModel.Merkle
