import AgModel.Proofs.PoolS2N
import AgModel.Proofs.PoolS2NComplete
import AgModel.Proofs.PoolS2NGlue
import AgModel.Proofs.PoolS2NGlueEvents
import AgModel.Proofs.PoolS2NGluePanic
import AgModel.Proofs.PoolS2NGlueSoundEv
import AgModel.Proofs.PoolS2NGlueOnce
/-!
# C06 — Safe-to-notar / safe-to-skip are signalled exactly when the protocol allows

Per-slot state machine of the pool model (`slotStep` / `slotRun`, see C03). `S2NCond e st h` is the
condition of the statement evaluated on the state: the node's own initial vote is stored and is not
a notarization of `h`; `notar(h) ≥ 40 %`, or `≥ 20 %` with `skip + notar(h) ≥ 60 %`; the block is
registered and its parent is marked certified (the pool marks it when it holds a notarization,
notar-fallback or fast-finalization certificate for the parent — `Pool.addBlock` / `notifyWaiting`).
`S2SCond`: the node notarized some block and `skip + Σ notar − max notar ≥ 40 %`.
-/
namespace AgModel.Pool

/-- **Soundness.** In any state, any slot operation: every safe-to-notar event it emits satisfies all
    conditions of the statement in the resulting state, every safe-to-skip event likewise. -/
theorem s2n_s2s_sound (e : Epoch) (st : SlotState) (op : SlotOp) :
    ∀ ev ∈ (slotStep e st op).2.2,
      match ev with
      | .s2n s h => s = (slotStep e st op).1.slot ∧ S2NCond e (slotStep e st op).1 h
      | .s2s s => s = (slotStep e st op).1.slot ∧ S2SCond e (slotStep e st op).1
      | _ => True :=
  (slotStep_emit e st op).1

/-- **At most once.** Over every history of a slot: safe-to-notar is signalled at most once per block,
    safe-to-skip at most once per slot. -/
theorem s2n_s2s_once (e : Epoch) (slot : Nat) (ops : List SlotOp) :
    let evs := (slotRun e { slot := slot } ops).2.2
    (evs.filterMap s2nHash).Nodup ∧ (evs.filter isS2S).length ≤ 1 :=
  ⟨(slotRun_emit e ops _).nodup, (slotRun_emit e ops _).s2sOne⟩

/-- the decision of `check_safe_to_notar` is exactly the condition -/
theorem checkS2N_decides (e : Epoch) (st : SlotState) (h : Nat) : (st.checkS2N e h).2 = .safe ↔ S2NCond e st h :=
  (checkS2N_safe_iff e st h).1

/-- **Completeness (state form).** In every state reachable by a history of slot operations (admitted votes of
    every kind in any order, received certificates, block registration and parent certification in any order):
    if the safe-to-notar condition holds for `h` the signal has been recorded, and if the safe-to-skip condition
    holds its flag is set. -/
theorem s2n_s2s_complete (e : Epoch) (hpos : 0 < e.total) (slot : Nat) (ops : List SlotOp) :
    let st := (slotRun e { slot := slot } ops).1
    (∀ h, S2NCond e st h → h ∈ st.sent) ∧ (S2SCond e st → st.sentS2S = true) := by
  refine ⟨fun h c => ?_, slotRun_sinv e ops _ (SInv.init e slot)⟩
  rcases slotRun_cinv e ops _ (CInv.init e hpos slot) h with x | x
  · exact x
  · exact absurd c x.1

theorem s2n_event_sound (e : Epoch) (ops : List SlotOp) (st : SlotState) (h : Nat)
    (hev : h ∈ (slotRun e st ops).2.2.filterMap s2nHash) : S2NCond e (slotRun e st ops).1 h := by
  induction ops generalizing st with
  | nil => simp [slotRun] at hev
  | cons op ops ih =>
    simp only [slotRun] at hev ⊢
    rw [List.filterMap_append, List.mem_append] at hev
    rcases hev with hev | hev
    · -- emitted by this step: justified in the state after it, and the condition is monotone afterwards
      obtain ⟨ev, hm, hs⟩ := List.mem_filterMap.mp hev
      have hsound := (slotStep_emit e st op).1 ev hm
      cases ev with
      | s2n sl hh =>
        simp only [s2nHash, Option.some.injEq] at hs; subst hs
        have c := hsound.2
        clear hsound hev hm ih
        generalize (slotStep e st op).1 = s1 at c ⊢
        induction ops generalizing s1 with
        | nil => exact c
        | cons op2 ops ih2 => simp only [slotRun]; exact ih2 _ (slotStep_mono e s1 op2 hh c)
      | _ => simp [s2nHash] at hs
    · exact ih _ hev

/-- **Exactly when.** After any history of a slot, safe-to-notar for `h` *has been signalled* (at some step of
    the history) iff its condition holds now. Applied to every prefix of a history, with `s2n_s2s_once`, this says:
    the signal is raised in the very step after which the condition holds for the first time — whichever of a vote,
    the node's own vote, the block registration or the parent's certification arrives last — and never again. -/
theorem s2n_signalled_iff (e : Epoch) (hpos : 0 < e.total) (slot : Nat) (ops : List SlotOp) (h : Nat) :
    h ∈ (slotRun e { slot := slot } ops).2.2.filterMap s2nHash ↔ S2NCond e (slotRun e { slot := slot } ops).1 h := by
  constructor
  · exact s2n_event_sound e ops _ h
  · intro c
    have hs := (s2n_s2s_complete e hpos slot ops).1 h c
    rcases (slotRun_traced e ops { slot := slot }).s2n h hs with x | x
    · cases x
    · exact x

/-- **As soon as.** If the condition does not hold after the history `pre` and holds after one more operation
    `op`, then this very operation emits the safe-to-notar event for `h`. -/
theorem s2n_timely (e : Epoch) (hpos : 0 < e.total) (slot : Nat) (pre : List SlotOp) (op : SlotOp) (h : Nat)
    (hbefore : ¬ S2NCond e (slotRun e { slot := slot } pre).1 h)
    (hafter : S2NCond e (slotStep e (slotRun e { slot := slot } pre).1 op).1 h) :
    h ∈ (slotStep e (slotRun e { slot := slot } pre).1 op).2.2.filterMap s2nHash := by
  have hrun := slotRun_append e { slot := slot } pre [op]
  have h1 : (slotRun e { slot := slot } (pre ++ [op])).1 = (slotStep e (slotRun e { slot := slot } pre).1 op).1 := by
    rw [hrun]; simp [slotRun]
  have h2 : (slotRun e { slot := slot } (pre ++ [op])).2.2 =
      (slotRun e { slot := slot } pre).2.2 ++ (slotStep e (slotRun e { slot := slot } pre).1 op).2.2 := by
    rw [hrun]; simp [slotRun]
  have := (s2n_signalled_iff e hpos slot (pre ++ [op]) h).mpr (by rw [h1]; exact hafter)
  rw [h2, List.filterMap_append, List.mem_append] at this
  rcases this with x | x
  · exact absurd ((s2n_signalled_iff e hpos slot pre h).mp x) hbefore
  · exact x

/-- safe-to-skip: if the condition holds after a history, the event has been emitted during it; and it is emitted
    by the very operation after which the condition holds while the flag was still clear. -/
theorem s2s_signalled (e : Epoch) (slot : Nat) (ops : List SlotOp)
    (c : S2SCond e (slotRun e { slot := slot } ops).1) : (slotRun e { slot := slot } ops).2.2.filter isS2S ≠ [] := by
  have hs := slotRun_sinv e ops _ (SInv.init e slot) c
  rcases (slotRun_traced e ops { slot := slot }).s2s hs with x | x
  · cases x
  · exact x

theorem s2s_timely (e : Epoch) (st : SlotState) (op : SlotOp) (i : SInv e st) (hclear : st.sentS2S = false)
    (c : S2SCond e (slotStep e st op).1) : (slotStep e st op).2.2.filter isS2S ≠ [] := by
  have hs := slotStep_sinv e st op i c
  rcases (slotStep_traced e st op).s2s hs with x | x
  · rw [hclear] at x; cases x
  · exact x

/-! non-vacuity: 5 equal validators, node 0 skips, two others notarize block 7 (40 %), block registered
    and parent certified: the last arriving ingredient (here: the parent's certificate) raises the signal. -/
example :
    let e : Epoch := { stakes := [1, 1, 1, 1, 1], own := 0 }
    let r := slotRun e { slot := 3 } [.vote ⟨.skip, 3, 0, 0⟩, .vote ⟨.notar, 3, 7, 1⟩, .vote ⟨.notar, 3, 7, 2⟩,
      .parentKnown 7, .parentCertified 7]
    r.2.2 = [.repair 3 7, .s2n 3 7] ∧ S2NCond e r.1 7 := by decide

example :
    let e : Epoch := { stakes := [1, 1, 1, 1, 1], own := 0 }
    let r := slotRun e { slot := 3 } [.vote ⟨.skip, 3, 0, 1⟩, .vote ⟨.skip, 3, 0, 2⟩, .vote ⟨.notar, 3, 7, 0⟩]
    r.2.2 = [.repair 3 7, .s2s 3] := by decide

/-! ## The pool level: which block gets `parentKnown` / `parentCertified`, and when

`poolRun` (Proofs/PoolGlue.lean) runs any list of pool operations — votes, received certificates, block registrations —
from the empty pool `{ epoch := e }`; certificates created by votes are added by `add_valid_cert` exactly as in
`PoolImpl`, with finalization, pruning and `notify_waiting_children` interleaved. A registration `.block b par` is
*accepted* when `b.1 > par.1` and the finality tracker takes the link (`Finality.addParent … = .ok …`; it refuses — a
"consensus safety violation" assertion, `add_block` then panics before touching the pool — when the same block was
registered with a different parent or the link would finalize a block conflicting with a finalized one).
`Held p par`: the slot state of `par.1` exists and holds a notarization, notar-fallback or fast-finalization
certificate for `par.2`. `kidsOf p par`: the children waiting under `par` in `s2n_waiting_parent_cert`. -/

/-- **Flag completeness.** Whenever an accepted registration `b → par` happened during the run and `b`'s slot is still
    retained, the slot state of `b.1` exists, `b` has a parent entry, and the entry is `true` as soon as the pool holds a
    certificate for `par` — whichever of the block, the certificate (received, or created by votes) arrived last, and
    whatever was pruned, re-created or registered in between. If the entry is still `false`, `b` is queued under `par`. -/
theorem pool_parent_flag_complete (e : Epoch) (pre post : List PoolOp) (b par : Nat × Nat) :
    let q := (poolRun { epoch := e } pre).1
    let p := (poolRun { epoch := e } (pre ++ .block b par :: post)).1
    b.1 > par.1 → (∃ t ev, Finality.addParent q.fin b par = .ok t ev) → p.fin.first ≤ b.1 →
    ∃ st flag, p.getSlot b.1 = some st ∧ st.parents.lookup b.2 = some flag ∧
      (Held p par → flag = true) ∧ (flag = false → b ∈ kidsOf p par) := by
  intro q p hgt hacc hret
  have hinv := poolRun_flag (pre ++ .block b par :: post) [] { epoch := e } (FlagInv.init e)
  have hmem := mem_regsRun { epoch := e } pre post b par ⟨hgt, hacc⟩
  obtain ⟨st, hg, hc⟩ := hinv.2 (b, par) (by simpa using hmem) hret
  rcases hc with hc | ⟨hc, hw⟩
  · exact ⟨st, true, hg, hc, fun _ => rfl, fun h => by cases h⟩
  · rcases hw with ⟨hx, _⟩ | ⟨_, hnh, hk⟩
    · cases hx
    · exact ⟨st, false, hg, hc, fun hh => absurd hh hnh, fun _ => hk⟩

/-- The acceptance hypothesis is necessary: after two conflicting fast-finalization certificates for slots 2 and 3, the
    tracker refuses the link `(3,7) → (2,8)` (block `(2,9)` is finalized), `add_block` panics, and block `(3,7)` has
    no parent entry although its slot state exists and is retained. -/
theorem pool_parent_flag_needs_acceptance :
    let e : Epoch := { stakes := [1], own := 0 }
    let r := poolRun { epoch := e } [.cert ⟨.ff, 3, 7, [], [], 0⟩, .cert ⟨.ff, 2, 9, [], [], 0⟩, .block (3, 7) (2, 8)]
    r.1.fin.first ≤ 3 ∧ (r.1.getSlot 3).map (fun st => st.parents.lookup 7) = some none ∧ Event.panic ∈ r.2 := by
  decide +kernel

/-- **Flag soundness.** A parent entry `h ↦ true` in the slot state of `s` exists only if block `(s, h)` was registered
    (accepted) with some parent `par` during the run **and** the pool stored — and announced with `CertCreated` — a
    notarization, notar-fallback or fast-finalization certificate for that very `par` during the run. (Applied to every
    prefix of a run: not later than the operation in which the entry became `true`.) -/
theorem pool_parent_flag_sound (e : Epoch) (ops : List PoolOp) (s h : Nat) (st : SlotState) :
    let p := (poolRun { epoch := e } ops).1
    p.getSlot s = some st → st.parents.lookup h = some true →
    ∃ pre post par c, ops = pre ++ .block (s, h) par :: post ∧
      (s > par.1 ∧ ∃ t ev, Finality.addParent (poolRun { epoch := e } pre).1.fin (s, h) par = .ok t ev) ∧
      Event.cert c ∈ (poolRun { epoch := e } ops).2 ∧ (c.kind = .notar ∨ c.kind = .nf ∨ c.kind = .ff) ∧
      (c.slot, c.hash) = par := by
  intro p hg hl
  have hinv := poolRun_sound e ops [] (fun _ => False) { epoch := e } (SoundInv.init e)
  obtain ⟨par, hr, hc⟩ := hinv.2.2.1 s st hg h hl
  rw [getSlot_slot hg] at hr
  obtain ⟨pre, post, he, ha⟩ := regsRun_mem ops _ _ (by simpa using hr)
  rcases hc with hc | hc
  · cases hc
  · obtain ⟨c, hm, hs, hid⟩ := certIds_mem hc
    exact ⟨pre, post, par, c, he, ha, hm, hs, hid⟩

/-- every certificate for a block the pool holds (`Held`) was announced with `CertCreated` during the run; together with
    `pool_parent_flag_sound`: held certificates only disappear by pruning, never silently appear -/
theorem pool_held_announced (e : Epoch) (ops : List PoolOp) (par : Nat × Nat) :
    Held (poolRun { epoch := e } ops).1 par →
    ∃ c, Event.cert c ∈ (poolRun { epoch := e } ops).2 ∧ (c.kind = .notar ∨ c.kind = .nf ∨ c.kind = .ff) ∧
      (c.slot, c.hash) = par := by
  intro ⟨st, hg, hh⟩
  have hinv := poolRun_sound e ops [] (fun _ => False) { epoch := e } (SoundInv.init e)
  have := hinv.2.2.2 par.1 st hg par.2 hh
  rw [getSlot_slot hg] at this
  rcases this with hc | hc
  · cases hc
  · exact certIds_mem hc

/-- **No `parent not known` panic.** In every reachable pool, every child in the waiting map whose slot is retained is a
    known parent entry of its (existing) slot state — the waiting map only holds registered children —, hence
    `notify_waiting_children` for any block emits no panic. (`add_valid_cert` calls it on the pool after the
    certificate was stored and the watermark advanced: `pool_no_unknown_parent_panic_wake`; `add_block` calls
    `notify_parent_certified` for the entry it has just created: `pool_no_unknown_parent_panic_block`.) -/
theorem pool_no_unknown_parent_panic (e : Epoch) (ops : List PoolOp) :
    let p := (poolRun { epoch := e } ops).1
    (∀ par kids, (par, kids) ∈ p.waiting → ∀ k ∈ kids, p.fin.first ≤ k.1 →
      ∃ st, p.getSlot k.1 = some st ∧ (st.parents.lookup k.2).isSome = true) ∧
    (∀ par, Event.panic ∉ (p.notifyWaiting par).2) := by
  intro p
  have hinv := poolRun_flag ops [] { epoch := e } (FlagInv.init e)
  refine ⟨fun par kids hm k hk hf => (hinv.2 (k, par) (hinv.1 par kids hm k hk)).known hf, fun par => ?_⟩
  exact (notifyWaiting_flag _ p par hinv.1 (fun r hr => (hinv.2 r hr).exempt par)).2

/-- the same inside `add_valid_cert(c)`, at the pool on which `notify_waiting_children` is actually called: after the
    certificate was stored (`stored`), and after `handle_finalization` advanced the watermark and pruned (`advance`);
    `FlagInv` is the invariant that holds in every reachable pool (`poolRun_flag`) **and** between the certificates a
    vote creates (`addValidCert_flag`) -/
theorem pool_no_unknown_parent_panic_wake (R : List Reg) (p : Pool) (c : Cert) (h : FlagInv R p)
    (hs : c.kind = .notar ∨ c.kind = .nf ∨ c.kind = .ff) :
    Event.panic ∉ ((p.stored c).notifyWaiting (c.slot, c.hash)).2 ∧
    (∀ t r, p.fin.first ≤ t.first → Event.panic ∉ (((p.stored c).advance t r).notifyWaiting (c.slot, c.hash)).2) ∧
    FlagInv R (p.addValidCert c).1 := by
  refine ⟨((h.stored c).wake hs).2, fun t r hm => (((h.stored c).advance t r ?_).wake hs).2, addValidCert_flag R c p h⟩
  unfold Pool.stored
  rw [(mod_frame p c.slot _).2.1]; exact hm

theorem pool_no_unknown_parent_panic_block (q : Pool) (b par : Nat × Nat) (e0 : List Event) (cert : Bool)
    (h0 : Event.panic ∉ e0) : Event.panic ∉ (Pool.addBlockTail (q.known b) b par e0 cert).2 :=
  addBlockTail_no_panic _ b par e0 cert (known_known q b) h0

/-- **No `parent not known` panic, run level.** `trackerRun` (Proofs/PoolS2NGluePanic.lean) lists, operation by operation,
    only the events produced by `handle_finalization` (finality tracker: "consensus safety violation"; parent-ready
    tracker), by the parent-ready bookkeeping of `add_valid_cert`, by the signer bound of `add_vote` and by `add_block`'s
    slot-order / `add_parent` assertions — it leaves out everything `notify_waiting_children`, `SlotState::add_vote` and
    `add_block`'s own `notify_parent_certified` emit. It is a sub-list of the real events, and **every `.panic` of the run is in
    it**: no run ever emits the `parent not known` panic of `notify_parent_certified`, from either call site. -/
theorem pool_panic_only_from_trackers (e : Epoch) (ops : List PoolOp) :
    (Event.panic ∈ (poolRun { epoch := e } ops).2 ↔ Event.panic ∈ trackerRun { epoch := e } ops) ∧
    (∀ ev ∈ trackerRun { epoch := e } ops, ev ∈ (poolRun { epoch := e } ops).2) :=
  ⟨⟨poolRun_panic_source ops [] _ (FlagInv.init e), trackerRun_sub ops _ _⟩, trackerRun_sub ops _⟩

/-- **Pool-level completeness / timeliness of safe-to-notar.** In every reachable pool (positive total stake), for every
    accepted registration `b → par` whose slot is retained: if the pool holds a certificate for `par`, the stake clause
    holds for `b` and the node's own vote in the slot is stored and is not a notarization of `b`, then safe-to-notar for
    `b` **has been raised** (`b.2 ∈ sent`; `check_safe_to_notar` inserts there exactly when it answers `SafeToNotar`).
    Holding after every operation, this says the signal is raised by the end of the operation that completes the
    condition — the last vote, the own vote, the block registration, or the parent's certificate by votes or received.
    Dropping a waiting child (D11), re-creating a pruned one (D20) or not waking on a fast-finalization certificate (D21)
    would falsify this theorem. -/
theorem pool_s2n_complete (e : Epoch) (hpos : 0 < e.total) (pre post : List PoolOp) (b par : Nat × Nat) :
    let q := (poolRun { epoch := e } pre).1
    let p := (poolRun { epoch := e } (pre ++ .block b par :: post)).1
    b.1 > par.1 → (∃ t ev, Finality.addParent q.fin b par = .ok t ev) → p.fin.first ≤ b.1 →
    ∃ st, p.getSlot b.1 = some st ∧
      (Held p par → stakeClause e st b.2 = true → ownVotedNot e st b.2 = true → b.2 ∈ st.sent) := by
  intro q p hgt hacc hret
  obtain ⟨st, flag, hg, hl, hh, _⟩ := pool_parent_flag_complete e pre post b par hgt hacc hret
  refine ⟨st, hg, fun hheld hst hown => ?_⟩
  have hc := (poolRun_closed (cinv_closed e hpos) (pre ++ .block b par :: post) { epoch := e } ⟨rfl, SlotsSat.init e _⟩).2 b.1 st hg
  rcases hc b.2 with x | x
  · exact x
  · exact absurd ⟨hst, by rw [hl, hh hheld], hown⟩ x.1

/-- **The pool forwards the signal.** Whatever is recorded in the `sent` set of a slot state of a reachable pool was emitted
    as a `SafeToNotar` event for that slot among the events of the run (from `add_vote`, from `notify_waiting_children`
    inside `add_valid_cert`, or from `add_block`). -/
theorem pool_s2n_emitted (e : Epoch) (ops : List PoolOp) (s h : Nat) (st : SlotState) :
    (poolRun { epoch := e } ops).1.getSlot s = some st → h ∈ st.sent → Event.s2n s h ∈ (poolRun { epoch := e } ops).2 := by
  intro hg hh
  have := (poolRun_emit e (fun ev => ev ∈ (poolRun { epoch := e } ops).2) ops { epoch := e } ⟨rfl, SlotsSat.init e _⟩
    (fun _ hev => hev)).2 s st hg h hh
  rw [getSlot_slot hg] at this
  exact this

/-- **Pool-level timeliness, on the events.** `pool_s2n_complete` with `pool_s2n_emitted`: for a retained accepted
    registration `b → par`, once the parent's certificate is held and the stake and own-vote conditions hold in the slot
    state, the event `SafeToNotar(b)` is among the events the pool has emitted — for every run, hence by the end of the
    operation that completed the condition. -/
theorem pool_s2n_timely (e : Epoch) (hpos : 0 < e.total) (pre post : List PoolOp) (b par : Nat × Nat) :
    let q := (poolRun { epoch := e } pre).1
    let r := poolRun { epoch := e } (pre ++ .block b par :: post)
    b.1 > par.1 → (∃ t ev, Finality.addParent q.fin b par = .ok t ev) → r.1.fin.first ≤ b.1 →
    ∃ st, r.1.getSlot b.1 = some st ∧
      (Held r.1 par → stakeClause e st b.2 = true → ownVotedNot e st b.2 = true → Event.s2n b.1 b.2 ∈ r.2) := by
  intro q r hgt hacc hret
  obtain ⟨st, hg, hc⟩ := pool_s2n_complete e hpos pre post b par hgt hacc hret
  exact ⟨st, hg, fun h1 h2 h3 => pool_s2n_emitted e _ b.1 b.2 st hg (hc h1 h2 h3)⟩

/-- **Pool-level soundness.** Conversely, in every reachable pool a recorded safe-to-notar signal for `(s, h)` is
    justified: the stake clause and the own-vote condition hold in the slot state, the block was registered (accepted)
    with some parent, and a notarization / notar-fallback / fast-finalization certificate for that parent was stored and
    announced during the run. -/
theorem pool_s2n_sound (e : Epoch) (ops : List PoolOp) (s h : Nat) (st : SlotState) :
    let p := (poolRun { epoch := e } ops).1
    p.getSlot s = some st → h ∈ st.sent →
    stakeClause e st h = true ∧ ownVotedNot e st h = true ∧
    ∃ pre post par c, ops = pre ++ .block (s, h) par :: post ∧
      (s > par.1 ∧ ∃ t ev, Finality.addParent (poolRun { epoch := e } pre).1.fin (s, h) par = .ok t ev) ∧
      Event.cert c ∈ (poolRun { epoch := e } ops).2 ∧ (c.kind = .notar ∨ c.kind = .nf ∨ c.kind = .ff) ∧
      (c.slot, c.hash) = par := by
  intro p hg hs
  have hc := (poolRun_closed (sentSound_closed e) ops { epoch := e } ⟨rfl, SlotsSat.init e _⟩).2 s st hg h hs
  exact ⟨hc.1, hc.2.2, pool_parent_flag_sound e ops s h st hg hc.2.1⟩

/-- **Pool-level soundness, per emitted event.** Every `SafeToNotar(s, h)` event in the output of a run is for a block that
    was registered (accepted) with some parent during the run, and a notarization / notar-fallback / fast-finalization
    certificate for that parent was stored and announced during the run — independently of what happens to the slot state
    afterwards (it can be pruned within the same operation). With `s2n_s2s_sound` (stake clause, own vote and `true` parent
    entry in the slot state right after the slot-level step that emitted the event) this is the "only if" half of the
    statement at pool level. Applied to every prefix of a run: registration and certificate are not later than the operation
    that emitted the event. -/
theorem pool_s2n_event_sound (e : Epoch) (ops : List PoolOp) (s h : Nat) :
    Event.s2n s h ∈ (poolRun { epoch := e } ops).2 →
    ∃ pre post par c, ops = pre ++ .block (s, h) par :: post ∧
      (s > par.1 ∧ ∃ t ev, Finality.addParent (poolRun { epoch := e } pre).1.fin (s, h) par = .ok t ev) ∧
      Event.cert c ∈ (poolRun { epoch := e } ops).2 ∧ (c.kind = .notar ∨ c.kind = .nf ∨ c.kind = .ff) ∧
      (c.slot, c.hash) = par := by
  intro hev
  obtain ⟨par, hr, hc⟩ := poolRun_good e ops [] (fun _ => False) { epoch := e } (SoundInv.init e) _ hev
  obtain ⟨pre, post, he, ha⟩ := regsRun_mem ops _ _ (by simpa using hr)
  rcases hc with hc | hc
  · cases hc
  · obtain ⟨c, hm, hs, hid⟩ := certIds_mem hc
    exact ⟨pre, post, par, c, he, ha, hm, hs, hid⟩

/-- **At most once, at pool level.** Among all events a run emits, no `SafeToNotar(s, h)` occurs twice for the same slot and
    block, and no `SafeToSkip(s)` twice for the same slot (`s2nKey (.s2n s h) = some (s, h)`, `s2sKey (.s2s s) = some (s, ())`) —
    across pruning and re-creation of slot states: events are only emitted for slots at or above the watermark, those slot
    states are never dropped, and their `sent` / `sentS2S` records only grow. -/
theorem pool_s2n_s2s_once (e : Epoch) (ops : List PoolOp) :
    ((poolRun { epoch := e } ops).2.filterMap s2nKey).Nodup ∧ ((poolRun { epoch := e } ops).2.filterMap s2sKey).Nodup := by
  have h1 := (poolRun_chan (s2nChan_closed e) ops { epoch := e } rfl (ChanInv.init e)).2
  have h2 := (poolRun_chan (s2sChan_closed e) ops { epoch := e } rfl (ChanInv.init e)).2
  rw [List.nil_append] at h1 h2
  exact ⟨h1, h2⟩

/-- **Pool-level completeness of safe-to-skip** (no parent involved, so no glue beyond "the pool applies slot-level
    operations"): in every reachable pool, every slot state in which the node notarized some block and
    `skip + Σ notar − max notar ≥ 40 %` has its safe-to-skip flag set. -/
theorem pool_s2s_complete (e : Epoch) (ops : List PoolOp) (s : Nat) (st : SlotState) :
    (poolRun { epoch := e } ops).1.getSlot s = some st → S2SCond e st → st.sentS2S = true := by
  intro hg hc
  exact (poolRun_closed (sinv_closed e) ops { epoch := e } ⟨rfl, SlotsSat.init e _⟩).2 s st hg hc

/-! non-vacuity of the pool-level theorems: 5 equal validators, node 0. The node skips slot 3, two others notarize block
    `(3,7)` (40 %), the block is registered with parent `(2,5)`; the parent's certificate arrives last — as a received
    *fast-finalization* certificate (the D21 case) — and wakes the waiting child: the flag is set, safe-to-notar is raised.
    Second run: the certificate (notar-fallback) is there first, the block registration is what arrives last. -/
example :
    let e : Epoch := { stakes := [1, 1, 1, 1, 1], own := 0 }
    let pre : List PoolOp := [.vote ⟨.skip, 3, 0, 0⟩, .vote ⟨.notar, 3, 7, 1⟩, .vote ⟨.notar, 3, 7, 2⟩]
    let post : List PoolOp := [.cert ⟨.ff, 2, 5, [1, 2, 3, 4], [], 4⟩]
    let q := (poolRun { epoch := e } pre).1
    let mid := (poolRun { epoch := e } (pre ++ [.block (3, 7) (2, 5)])).1
    let r := poolRun { epoch := e } (pre ++ .block (3, 7) (2, 5) :: post)
    (match Finality.addParent q.fin (3, 7) (2, 5) with | .ok _ _ => true | .panic => false) = true ∧
    r.1.fin.first ≤ 3 ∧
    (mid.getSlot 3).map (fun st => (st.parents.lookup 7, st.sent)) = some (some false, []) ∧ kidsOf mid (2, 5) = [(3, 7)] ∧
    (r.1.getSlot 2).map (·.isNfOrStronger 5) = some true ∧
    (r.1.getSlot 3).map (fun st => (st.parents.lookup 7, st.sent)) = some (some true, [7]) ∧
    Event.s2n 3 7 ∈ r.2 := by decide +kernel

example :
    let e : Epoch := { stakes := [1, 1, 1, 1, 1], own := 0 }
    let pre : List PoolOp := [.cert ⟨.nf, 2, 5, [1, 2], [3], 3⟩, .vote ⟨.skip, 3, 0, 0⟩, .vote ⟨.notar, 3, 7, 1⟩,
      .vote ⟨.notar, 3, 7, 2⟩]
    let r := poolRun { epoch := e } (pre ++ [.block (3, 7) (2, 5)])
    (r.1.getSlot 2).map (·.isNfOrStronger 5) = some true ∧
    (r.1.getSlot 3).map (fun st => (st.parents.lookup 7, st.sent)) = some (some true, [7]) ∧
    Event.s2n 3 7 ∈ r.2 := by decide +kernel

/-! An observation (not a violation of the statement, which asks for a certificate the node *holds*): the pool has no
    certificate for the genesis block and `is_notar_fallback_or_stronger` does not special-case it (the parent-ready tracker
    does), so a child of genesis is never safe-to-notar: it waits under `(0,0)` until its slot is pruned. -/
example :
    let e : Epoch := { stakes := [1, 1, 1, 1, 1], own := 0 }
    let r := poolRun { epoch := e } [.vote ⟨.skip, 1, 0, 0⟩, .vote ⟨.notar, 1, 7, 1⟩, .vote ⟨.notar, 1, 7, 2⟩, .block (1, 7) (0, 0)]
    (r.1.getSlot 1).map (fun st => (st.parents.lookup 7, stakeClause e st 7, ownVotedNot e st 7, st.sent)) =
      some (some false, true, true, []) ∧
    kidsOf r.1 (0, 0) = [(1, 7)] ∧ (r.1.getSlot 0).isNone = true ∧ Event.s2n 1 7 ∉ r.2 := by decide +kernel

end AgModel.Pool
