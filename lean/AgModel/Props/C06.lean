import AgModel.Proofs.PoolS2N
/-!
# C06 — Safe-to-notar / safe-to-skip are signalled exactly when the protocol allows

Per-slot state machine of the pool model (`slotStep` / `slotRun`, see C03). `S2NCond e st h` is the
condition of the statement evaluated on the state: the node's own initial vote is stored and is not
a notarization of `h`; `notar(h) ≥ 40 %`, or `≥ 20 %` with `skip + notar(h) ≥ 60 %`; the block is
registered and its parent is marked certified (the pool marks it when it holds a notarization,
notar-fallback or fast-finalization certificate for the parent — `Pool.addBlock` / `notifyWaiting`).
`S2SCond`: the node notarized some block and `skip + Σ notar − max notar ≥ 40 %`.
-/
namespace AgModel.Pool

/-- **Soundness.** In any state, any slot operation: every safe-to-notar event it emits satisfies all
    conditions of the statement in the resulting state, every safe-to-skip event likewise. -/
theorem s2n_s2s_sound (e : Epoch) (st : SlotState) (op : SlotOp) :
    ∀ ev ∈ (slotStep e st op).2.2,
      match ev with
      | .s2n s h => s = (slotStep e st op).1.slot ∧ S2NCond e (slotStep e st op).1 h
      | .s2s s => s = (slotStep e st op).1.slot ∧ S2SCond e (slotStep e st op).1
      | _ => True :=
  (slotStep_emit e st op).1

/-- **At most once.** Over every history of a slot: safe-to-notar is signalled at most once per block,
    safe-to-skip at most once per slot. -/
theorem s2n_s2s_once (e : Epoch) (slot : Nat) (ops : List SlotOp) :
    let evs := (slotRun e { slot := slot } ops).2.2
    (evs.filterMap s2nHash).Nodup ∧ (evs.filter isS2S).length ≤ 1 :=
  ⟨(slotRun_emit e ops _).nodup, (slotRun_emit e ops _).s2sOne⟩

/-- the decision of `check_safe_to_notar` is exactly the condition -/
theorem checkS2N_decides (e : Epoch) (st : SlotState) (h : Nat) : (st.checkS2N e h).2 = .safe ↔ S2NCond e st h :=
  (checkS2N_safe_iff e st h).1

/-! non-vacuity: 5 equal validators, node 0 skips, two others notarize block 7 (40 %), block registered
    and parent certified: the last arriving ingredient (here: the parent's certificate) raises the signal. -/
example :
    let e : Epoch := { stakes := [1, 1, 1, 1, 1], own := 0 }
    let r := slotRun e { slot := 3 } [.vote ⟨.skip, 3, 0, 0⟩, .vote ⟨.notar, 3, 7, 1⟩, .vote ⟨.notar, 3, 7, 2⟩,
      .parentKnown 7, .parentCertified 7]
    r.2.2 = [.repair 3 7, .s2n 3 7] ∧ S2NCond e r.1 7 := by decide

example :
    let e : Epoch := { stakes := [1, 1, 1, 1, 1], own := 0 }
    let r := slotRun e { slot := 3 } [.vote ⟨.skip, 3, 0, 1⟩, .vote ⟨.skip, 3, 0, 2⟩, .vote ⟨.notar, 3, 7, 0⟩]
    r.2.2 = [.repair 3 7, .s2s 3] := by decide

end AgModel.Pool
