import AgModel.Proofs.PoolS2N
import AgModel.Proofs.PoolS2NComplete
/-!
# C06 — Safe-to-notar / safe-to-skip are signalled exactly when the protocol allows

Per-slot state machine of the pool model (`slotStep` / `slotRun`, see C03). `S2NCond e st h` is the
condition of the statement evaluated on the state: the node's own initial vote is stored and is not
a notarization of `h`; `notar(h) ≥ 40 %`, or `≥ 20 %` with `skip + notar(h) ≥ 60 %`; the block is
registered and its parent is marked certified (the pool marks it when it holds a notarization,
notar-fallback or fast-finalization certificate for the parent — `Pool.addBlock` / `notifyWaiting`).
`S2SCond`: the node notarized some block and `skip + Σ notar − max notar ≥ 40 %`.
-/
namespace AgModel.Pool

/-- **Soundness.** In any state, any slot operation: every safe-to-notar event it emits satisfies all
    conditions of the statement in the resulting state, every safe-to-skip event likewise. -/
theorem s2n_s2s_sound (e : Epoch) (st : SlotState) (op : SlotOp) :
    ∀ ev ∈ (slotStep e st op).2.2,
      match ev with
      | .s2n s h => s = (slotStep e st op).1.slot ∧ S2NCond e (slotStep e st op).1 h
      | .s2s s => s = (slotStep e st op).1.slot ∧ S2SCond e (slotStep e st op).1
      | _ => True :=
  (slotStep_emit e st op).1

/-- **At most once.** Over every history of a slot: safe-to-notar is signalled at most once per block,
    safe-to-skip at most once per slot. -/
theorem s2n_s2s_once (e : Epoch) (slot : Nat) (ops : List SlotOp) :
    let evs := (slotRun e { slot := slot } ops).2.2
    (evs.filterMap s2nHash).Nodup ∧ (evs.filter isS2S).length ≤ 1 :=
  ⟨(slotRun_emit e ops _).nodup, (slotRun_emit e ops _).s2sOne⟩

/-- the decision of `check_safe_to_notar` is exactly the condition -/
theorem checkS2N_decides (e : Epoch) (st : SlotState) (h : Nat) : (st.checkS2N e h).2 = .safe ↔ S2NCond e st h :=
  (checkS2N_safe_iff e st h).1

/-- **Completeness (state form).** In every state reachable by a history of slot operations (admitted votes of
    every kind in any order, received certificates, block registration and parent certification in any order):
    if the safe-to-notar condition holds for `h` the signal has been recorded, and if the safe-to-skip condition
    holds its flag is set. -/
theorem s2n_s2s_complete (e : Epoch) (hpos : 0 < e.total) (slot : Nat) (ops : List SlotOp) :
    let st := (slotRun e { slot := slot } ops).1
    (∀ h, S2NCond e st h → h ∈ st.sent) ∧ (S2SCond e st → st.sentS2S = true) := by
  refine ⟨fun h c => ?_, slotRun_sinv e ops _ (SInv.init e slot)⟩
  rcases slotRun_cinv e ops _ (CInv.init e hpos slot) h with x | x
  · exact x
  · exact absurd c x.1

theorem s2n_event_sound (e : Epoch) (ops : List SlotOp) (st : SlotState) (h : Nat)
    (hev : h ∈ (slotRun e st ops).2.2.filterMap s2nHash) : S2NCond e (slotRun e st ops).1 h := by
  induction ops generalizing st with
  | nil => simp [slotRun] at hev
  | cons op ops ih =>
    simp only [slotRun] at hev ⊢
    rw [List.filterMap_append, List.mem_append] at hev
    rcases hev with hev | hev
    · -- emitted by this step: justified in the state after it, and the condition is monotone afterwards
      obtain ⟨ev, hm, hs⟩ := List.mem_filterMap.mp hev
      have hsound := (slotStep_emit e st op).1 ev hm
      cases ev with
      | s2n sl hh =>
        simp only [s2nHash, Option.some.injEq] at hs; subst hs
        have c := hsound.2
        clear hsound hev hm ih
        generalize (slotStep e st op).1 = s1 at c ⊢
        induction ops generalizing s1 with
        | nil => exact c
        | cons op2 ops ih2 => simp only [slotRun]; exact ih2 _ (slotStep_mono e s1 op2 hh c)
      | _ => simp [s2nHash] at hs
    · exact ih _ hev

/-- **Exactly when.** After any history of a slot, safe-to-notar for `h` *has been signalled* (at some step of
    the history) iff its condition holds now. Applied to every prefix of a history, with `s2n_s2s_once`, this says:
    the signal is raised in the very step after which the condition holds for the first time — whichever of a vote,
    the node's own vote, the block registration or the parent's certification arrives last — and never again. -/
theorem s2n_signalled_iff (e : Epoch) (hpos : 0 < e.total) (slot : Nat) (ops : List SlotOp) (h : Nat) :
    h ∈ (slotRun e { slot := slot } ops).2.2.filterMap s2nHash ↔ S2NCond e (slotRun e { slot := slot } ops).1 h := by
  constructor
  · exact s2n_event_sound e ops _ h
  · intro c
    have hs := (s2n_s2s_complete e hpos slot ops).1 h c
    rcases (slotRun_traced e ops { slot := slot }).s2n h hs with x | x
    · cases x
    · exact x

/-- **As soon as.** If the condition does not hold after the history `pre` and holds after one more operation
    `op`, then this very operation emits the safe-to-notar event for `h`. -/
theorem s2n_timely (e : Epoch) (hpos : 0 < e.total) (slot : Nat) (pre : List SlotOp) (op : SlotOp) (h : Nat)
    (hbefore : ¬ S2NCond e (slotRun e { slot := slot } pre).1 h)
    (hafter : S2NCond e (slotStep e (slotRun e { slot := slot } pre).1 op).1 h) :
    h ∈ (slotStep e (slotRun e { slot := slot } pre).1 op).2.2.filterMap s2nHash := by
  have hrun := slotRun_append e { slot := slot } pre [op]
  have h1 : (slotRun e { slot := slot } (pre ++ [op])).1 = (slotStep e (slotRun e { slot := slot } pre).1 op).1 := by
    rw [hrun]; simp [slotRun]
  have h2 : (slotRun e { slot := slot } (pre ++ [op])).2.2 =
      (slotRun e { slot := slot } pre).2.2 ++ (slotStep e (slotRun e { slot := slot } pre).1 op).2.2 := by
    rw [hrun]; simp [slotRun]
  have := (s2n_signalled_iff e hpos slot (pre ++ [op]) h).mpr (by rw [h1]; exact hafter)
  rw [h2, List.filterMap_append, List.mem_append] at this
  rcases this with x | x
  · exact absurd ((s2n_signalled_iff e hpos slot pre h).mp x) hbefore
  · exact x

/-- safe-to-skip: if the condition holds after a history, the event has been emitted during it; and it is emitted
    by the very operation after which the condition holds while the flag was still clear. -/
theorem s2s_signalled (e : Epoch) (slot : Nat) (ops : List SlotOp)
    (c : S2SCond e (slotRun e { slot := slot } ops).1) : (slotRun e { slot := slot } ops).2.2.filter isS2S ≠ [] := by
  have hs := slotRun_sinv e ops _ (SInv.init e slot) c
  rcases (slotRun_traced e ops { slot := slot }).s2s hs with x | x
  · cases x
  · exact x

theorem s2s_timely (e : Epoch) (st : SlotState) (op : SlotOp) (i : SInv e st) (hclear : st.sentS2S = false)
    (c : S2SCond e (slotStep e st op).1) : (slotStep e st op).2.2.filter isS2S ≠ [] := by
  have hs := slotStep_sinv e st op i c
  rcases (slotStep_traced e st op).s2s hs with x | x
  · rw [hclear] at x; cases x
  · exact x

/-! non-vacuity: 5 equal validators, node 0 skips, two others notarize block 7 (40 %), block registered
    and parent certified: the last arriving ingredient (here: the parent's certificate) raises the signal. -/
example :
    let e : Epoch := { stakes := [1, 1, 1, 1, 1], own := 0 }
    let r := slotRun e { slot := 3 } [.vote ⟨.skip, 3, 0, 0⟩, .vote ⟨.notar, 3, 7, 1⟩, .vote ⟨.notar, 3, 7, 2⟩,
      .parentKnown 7, .parentCertified 7]
    r.2.2 = [.repair 3 7, .s2n 3 7] ∧ S2NCond e r.1 7 := by decide

example :
    let e : Epoch := { stakes := [1, 1, 1, 1, 1], own := 0 }
    let r := slotRun e { slot := 3 } [.vote ⟨.skip, 3, 0, 1⟩, .vote ⟨.skip, 3, 0, 2⟩, .vote ⟨.notar, 3, 7, 0⟩]
    r.2.2 = [.repair 3 7, .s2s 3] := by decide

end AgModel.Pool
