import AgModel.Proofs.NodePanic
import AgModel.Proofs.PoolGlue
import AgModel.Props.C09
import AgModel.Props.C18
/-!
# C10 — No network input or Byzantine-signed content can crash or wedge a node

Panic-freedom is proved per modelled seam (each model carries the Rust `assert!` / `expect` / `unreachable!` /
index sites of its seam as explicit `panic` outcomes) and, here, across the pool–votor seam of the composed node.
The derive-generated decoders, the tokio glue, UDP and third-party crates are outside the models: they are covered by
the hostile-traffic run against real full nodes (`harness/src/bin/c10.rs`), which is exploration — level `other`.

Per-seam theorems proved elsewhere and collected by `cfg/C10.json` (`lean_props`):
* C09 `validateVote_total`, `validateCert_total` — admission of arbitrary votes / certificates never panics;
* C05 `votor_asserts_unreachable` — the four `assert!`s of votor.rs;
* C14 `unsolicited_ignored`, `invalid_response_inert`, `shred_arm_root_known`, `repair_announces_requested_hash` — repair
  responses (the `unreachable!` and the `assert_eq!` of repair.rs);
* C13 `announced_block_wellformed` — a block announced by the blockstore has its parent in an earlier slot (so
  `pool.add_block`'s `assert!(block_id.0 > parent_id.0)` holds for every block the blockstore hands over);
* C18 `recover_total`; C20 `no_panic`; C19 `decoded_shred_in_range`, `decoded_agg_bounded`.
-/
namespace AgModel.NodePanic
open AgModel AgModel.Node

/-- inputs of the composed node: the network side (validated votes / certificates, reconstructed blocks) and what
    the runtime may schedule for the voting task -/
inductive NodeOp where
  | recvVote (v : Pool.Vote)
  | recvCert (c : Pool.Cert)
  | poolBlock (b par : Nat × Nat)
  | pump
  | votorBlock (slot : Nat) (b : Votor.BlockInfo)
  | firstShred (slot : Nat)
  | invalidBlock (slot : Nat)
  | timeout (slot : Nat)
  | timeoutCrashed (slot : Nat)

def nodeStep (n : Node) : NodeOp → Node
  | .recvVote v => (recvVote n v).1
  | .recvCert c => (recvCert n c).1
  | .poolBlock b par => (poolBlock n b par).1
  | .pump => (pump n).1
  | .votorBlock s b => (votorStep n (.block s b)).1
  | .firstShred s => (votorStep n (.firstShred s)).1
  | .invalidBlock s => (votorStep n (.invalidBlock s)).1
  | .timeout s => (votorStep n (.timeout s)).1
  | .timeoutCrashed s => (votorStep n (.timeoutCrashed s)).1

def nodeRun (n : Node) : List NodeOp → Node
  | [] => n
  | op :: ops => nodeRun (nodeStep n op) ops

/-- the voting task has only seen well-formed events, and only well-formed ones are queued for it -/
structure VInv (n : Node) : Prop where
  hist : ∃ es, (∀ e ∈ es, Votor.Event.wellFormed e) ∧ n.votor = Votor.run Votor.init es
  queue : ∀ e ∈ n.queue, ∀ ve, toVotor e = some ve → Votor.Event.wellFormed ve

theorem toVotor_wf (evs : List Pool.Event) (h : PROk evs) : ∀ e ∈ evs, ∀ ve, toVotor e = some ve → Votor.Event.wellFormed ve := by
  intro e he ve hv
  cases e with
  | parentReady s ps ph =>
    simp only [toVotor, Option.some.injEq] at hv; subst hv
    have := h s ps ph he
    simpa [Votor.Event.wellFormed, ParentReady.isWindowStart, ParentReady.W, Votor.W] using this
  | cert c => simp only [toVotor, Option.some.injEq] at hv; subst hv; trivial
  | s2n s h' => simp only [toVotor, Option.some.injEq] at hv; subst hv; trivial
  | s2s s => simp only [toVotor, Option.some.injEq] at hv; subst hv; trivial
  | standstill s cs vs => simp only [toVotor, Option.some.injEq] at hv; subst hv; trivial
  | repair a b => simp [toVotor] at hv
  | panic => simp [toVotor] at hv

theorem enqueue_inv (n : Node) (evs : List Pool.Event) (h : PROk evs) (i : VInv n) (hv : (enqueue n evs).votor = n.votor)
    : VInv (enqueue n evs) := by
  unfold enqueue at *
  split
  · exact ⟨i.hist, i.queue⟩
  · refine ⟨i.hist, ?_⟩
    intro e he ve hve
    rcases List.mem_append.mp he with h1 | h1
    · exact i.queue e h1 ve hve
    · exact toVotor_wf evs h e (List.mem_filter.mp h1).1 ve hve

theorem votorStep_inv (n : Node) (e : Votor.Event) (hw : Votor.Event.wellFormed e) (i : VInv n) : VInv (votorStep n e).1 := by
  unfold votorStep
  split
  · exact i
  · obtain ⟨es, hes, hrun⟩ := i.hist
    refine ⟨⟨es ++ [e], ?_, ?_⟩, i.queue⟩
    · intro x hx
      rcases List.mem_append.mp hx with h | h
      · exact hes x h
      · simp at h; subst h; exact hw
    · show Votor.step n.votor e = _
      rw [Votor.run_append, ← hrun]; rfl

theorem nodeStep_inv (n : Node) (op : NodeOp) (i : VInv n) : VInv (nodeStep n op) := by
  cases op with
  | recvVote v =>
    simp only [nodeStep, recvVote]
    split
    · exact i
    · exact enqueue_inv _ _ (addVote_prOk n.pool v) ⟨i.hist, i.queue⟩ (by unfold enqueue; split <;> rfl)
  | recvCert c =>
    simp only [nodeStep, recvCert]
    split
    · exact i
    · exact enqueue_inv _ _ (addCert_prOk n.pool c) ⟨i.hist, i.queue⟩ (by unfold enqueue; split <;> rfl)
  | poolBlock b par =>
    simp only [nodeStep, poolBlock]
    split
    · exact i
    · exact enqueue_inv _ _ (addBlock_prOk n.pool b par) ⟨i.hist, i.queue⟩ (by unfold enqueue; split <;> rfl)
  | pump =>
    simp only [nodeStep, pump]
    split
    · exact i
    · rename_i e rest hq
      have hrest : ∀ x ∈ rest, ∀ ve, toVotor x = some ve → Votor.Event.wellFormed ve :=
        fun x hx => i.queue x (by rw [hq]; exact List.mem_cons_of_mem _ hx)
      split
      · rename_i ve hve
        exact votorStep_inv _ ve (i.queue e (by rw [hq]; simp) ve hve) ⟨i.hist, hrest⟩
      · exact ⟨i.hist, hrest⟩
  | votorBlock s b => exact votorStep_inv n _ trivial i
  | firstShred s => exact votorStep_inv n _ trivial i
  | invalidBlock s => exact votorStep_inv n _ trivial i
  | timeout s => exact votorStep_inv n _ trivial i
  | timeoutCrashed s => exact votorStep_inv n _ trivial i

theorem nodeRun_inv (ops : List NodeOp) (n : Node) (i : VInv n) : VInv (nodeRun n ops) := by
  induction ops generalizing n with
  | nil => exact i
  | cons op ops ih => exact ih _ (nodeStep_inv n op i)

/-- **The voting task of a node never hits an assertion**, whatever validated votes and certificates arrive from
    the network (in particular everything Byzantine validators can sign), whatever blocks are reconstructed, in any
    interleaving with timeouts: the pool announces `ParentReady` only for window starts (proved through the
    parent-ready tracker model), which is the only way `set_timeouts`' assertion could fire, and the three pruning
    assertions are unreachable (C05). -/
theorem votor_never_panics (e : Pool.Epoch) (ops : List NodeOp) :
    (nodeRun { pool := { epoch := e } } ops).votor.panicked = false := by
  have i : VInv ({ pool := { epoch := e } } : Node) :=
    ⟨⟨[], by simp, rfl⟩, by intro x hx; simp at hx⟩
  obtain ⟨es, hes, hrun⟩ := (nodeRun_inv ops _ i).hist
  rw [hrun]
  exact Votor.votor_asserts_unreachable es hes

/-- the pool's own state stays well-formed under every input (C03/C18 `PoolOk`), restated for the node -/
theorem node_pool_ok (e : Pool.Epoch) (hpos : 0 < e.total) (ops : List Pool.PoolOp)
    (hrecv : ∀ c, Pool.PoolOp.cert c ∈ ops → Pool.CertOk e c) :
    Pool.PoolOk (Pool.poolRun { epoch := e } ops).1 :=
  (Pool.poolRun_ok ops { epoch := e } (Pool.PoolOk.init e hpos) hrecv).1

end AgModel.NodePanic
