import AgModel.Proofs.NodeRun
import AgModel.Proofs.PoolGlue
import AgModel.Props.C09
import AgModel.Props.C18
/-!
# C10 — No network input or Byzantine-signed content can crash or wedge a node

Panic-freedom is proved per modelled seam (each model carries the Rust `assert!` / `expect` / `unreachable!` /
index sites of its seam as explicit `panic` outcomes) and, here, across the pool–votor seam of the composed node.
The derive-generated decoders, the tokio glue, UDP and third-party crates are outside the models: they are covered by
the hostile-traffic run against real full nodes (`harness/src/bin/c10.rs`), which is exploration — level `other`.

Per-seam theorems proved elsewhere and collected by `cfg/C10.json` (`lean_props`):
* C09 `validateVote_total`, `validateCert_total` — admission of arbitrary votes / certificates never panics;
* C05 `votor_asserts_unreachable` — the four `assert!`s of votor.rs;
* C14 `unsolicited_ignored`, `invalid_response_inert`, `shred_arm_root_known`, `repair_announces_requested_hash` — repair
  responses (the `unreachable!` and the `assert_eq!` of repair.rs);
* C13 `announced_block_wellformed` — a block announced by the blockstore has its parent in an earlier slot (so
  `pool.add_block`'s `assert!(block_id.0 > parent_id.0)` holds for every block the blockstore hands over);
* C18 `recover_total`; C20 `no_panic`; C19 `decoded_shred_in_range`, `decoded_agg_bounded`.
-/
namespace AgModel.NodePanic
open AgModel AgModel.Node

/-- **The voting task of a node never hits an assertion**, whatever validated votes and certificates arrive from
    the network (in particular everything Byzantine validators can sign), whatever blocks are reconstructed, in any
    interleaving with timeouts: the pool announces `ParentReady` only for window starts (proved through the
    parent-ready tracker model), which is the only way `set_timeouts`' assertion could fire, and the three pruning
    assertions are unreachable (C05). -/
theorem votor_never_panics (e : Pool.Epoch) (ops : List NodeOp) :
    (nodeRun { pool := { epoch := e } } ops).votor.panicked = false := by
  have i : VInv ({ pool := { epoch := e } } : Node) :=
    ⟨⟨[], by simp, rfl⟩, by intro x hx; simp at hx⟩
  obtain ⟨es, hes, hrun⟩ := (nodeRun_inv ops _ i).hist
  rw [hrun]
  -- = C05 `votor_asserts_unreachable` (Props/C05.lean is not imported: its composed-node part builds on the C06 pool glue,
  -- whose lemma names clash with the C07/C18 pool wiring imported here through Props/C18)
  exact Votor.run_panicked es Votor.Inv.init hes

/-- the pool's own state stays well-formed under every input (C03/C18 `PoolOk`), restated for the node -/
theorem node_pool_ok (e : Pool.Epoch) (hpos : 0 < e.total) (ops : List Pool.PoolOp)
    (hrecv : ∀ c, Pool.PoolOp.cert c ∈ ops → Pool.CertOk e c) :
    Pool.PoolOk (Pool.poolRun { epoch := e } ops).1 :=
  (Pool.poolRun_ok ops { epoch := e } (Pool.PoolOk.init e hpos) hrecv).1

end AgModel.NodePanic
