import AgModel.Model.TrieOps
import AgModel.Model.Exec
import AgModel.Proofs.TrieState
import AgModel.Proofs.TrieIter
import AgModel.Proofs.LtHash
import AgModel.Proofs.Exec
/-!
# C20 — execution state: persistent map semantics, fork isolation, content commitment

Statements are about `AgModel.Trie` (model of `src/execution/state.rs`), `AgModel.LtHash` (model of
`src/execution/commitment.rs`, per-entry hash an arbitrary function) and `AgModel.Exec` (model of
`DummyExecution` in `src/execution.rs` as repaired by the D10 `fix:` commit; SHA-256 chaining a free
constructor). Keys are real addresses (`ValidKey`: 32 bytes `< 256`). The "ordinary ordered map" is
`AgModel.OrdMap`: the association list strictly sorted in the byte-lexicographic order `lexLt` of
`[u8; 32]` (what `BTreeMap<Address, _>` iterates).
-/
namespace AgModel.C20
open AgModel.Trie AgModel.OrdMap

/-! ## 1. Persistent ordered-map semantics -/

private theorem put_keyLt_eq_lexLt (m : Map) (k : Key) (v : Nat) (hk : ValidKey k)
    (hm : ∀ kv ∈ m, ValidKey kv.1) : put keyLt m k v = put lexLt m k v :=
  put_congr keyLt lexLt m k v (fun kv hkv => keyLt_eq_lexLt k kv.1 hk (hm kv hkv))

private theorem run_refines_aux (ops : List Op) : ∀ (s : State) (m : Map), Inv s m →
    (∀ op ∈ ops, ValidKey op.key) →
    ∃ s', State.run s ops = some (s', (OrdMap.run lexLt m ops).2) ∧ Inv s' (OrdMap.run lexLt m ops).1 := by
  induction ops with
  | nil => intro s m h _; exact ⟨s, rfl, h⟩
  | cons op ops ih =>
    intro s m h hv
    have hk : ValidKey op.key := hv op (by simp)
    have hv' : ∀ op' ∈ ops, ValidKey op'.key := fun o ho => hv o (by simp [ho])
    cases op with
    | ins k v =>
      obtain ⟨s1, e1, i1⟩ := inv_insert h k v hk
      rw [put_keyLt_eq_lexLt m k v hk h.2.2] at i1
      obtain ⟨s', e2, i2⟩ := ih s1 _ i1 hv'
      exact ⟨s', by simp [State.run, State.apply, e1, e2, OrdMap.run, OrdMap.apply], i2⟩
    | rem k =>
      obtain ⟨s1, e1, i1⟩ := inv_remove h k
      obtain ⟨s', e2, i2⟩ := ih s1 _ i1 hv'
      exact ⟨s', by simp [State.run, State.apply, e1, e2, OrdMap.run, OrdMap.apply], i2⟩

private theorem inv_sorted_lexLt {s : State} {m : Map} (h : Inv s m) : Sorted lexLt m :=
  sorted_congr keyLt lexLt m (fun a ha b hb => keyLt_eq_lexLt a.1 b.1 (h.2.2 a ha) (h.2.2 b hb)) (inv_sorted_keyLt h)

/-- **Refinement of an ordered map.** For every sequence of inserts and removals of real addresses,
    started from `State::new()`: the Rust code does not panic, every call returns what the ordered map
    returns, and afterwards `iter()` is exactly the map's sorted listing (strictly increasing in the
    byte order of `[u8; 32]`), `len()` its size, `get` its lookup (for *every* key), and the trie is in
    canonical form. -/
theorem refines_ordered_map (ops : List Op) (hv : ∀ op ∈ ops, ValidKey op.key) :
    ∃ s, State.run {} ops = some (s, (OrdMap.run lexLt [] ops).2) ∧
      s.iter = (OrdMap.run lexLt [] ops).1 ∧
      s.len = (OrdMap.run lexLt [] ops).1.length ∧
      (∀ key, s.get key = find (OrdMap.run lexLt [] ops).1 key) ∧
      Sorted lexLt s.iter ∧
      s.wf = true := by
  obtain ⟨s, e, i⟩ := run_refines_aux ops {} [] inv_new hv
  refine ⟨s, e, i.2.1, (inv_root i).2, fun key => inv_get i key, ?_, i.1⟩
  rw [i.2.1]; exact inv_sorted_lexLt i

/-- the same for a single step from any state that represents a map (the inductive invariant):
    used for forks below -/
theorem step_refines (s : State) (m : Map) (h : Inv s m) (op : Op) (hk : ValidKey op.key) :
    ∃ s', s.apply op = .ok s' (OrdMap.apply lexLt m op).2 ∧ Inv s' (OrdMap.apply lexLt m op).1 := by
  cases op with
  | ins k v =>
    obtain ⟨s1, e1, i1⟩ := inv_insert h k v hk
    rw [put_keyLt_eq_lexLt m k v hk h.2.2] at i1
    exact ⟨s1, e1, i1⟩
  | rem k => exact inv_remove h k

/-- lookups of a state that represents a map answer like the map, for every key -/
theorem get_refines (s : State) (m : Map) (h : Inv s m) (key : Key) : s.get key = find m key := inv_get h key

/-- no depth at which `chunk_at` would index out of bounds is ever reached, and no other panic
    (`unreachable!`, `.expect`, `len` underflow) either: a write to a reachable state is `ok` -/
theorem no_panic (s : State) (m : Map) (h : Inv s m) (op : Op) (hk : ValidKey op.key) : s.apply op ≠ .panic := by
  obtain ⟨s', e, _⟩ := step_refines s m h op hk
  rw [e]; intro h'; cases h'

/-- `Iter::next`'s explicit-stack loop (pop; yield a leaf; push a branch's children so that they are
    popped in chunk order), started from `[root]`, yields exactly the listing `iter` used above -/
theorem iter_is_stack_loop (s : State) (h : s.wf = true) : iterStack (size s.root) [s.root] = s.iter :=
  iter_stack_eq_toList s h

/-! ## 2. Canonical structure: equal contents ⇒ equal states -/

/-- two canonical states with the same listing are the same value (`==` is structural equality) -/
theorem canonical (s1 s2 : State) (h1 : s1.wf = true) (h2 : s2.wf = true) (he : s1.iter = s2.iter) : s1 = s2 :=
  state_canonical s1 s2 h1 h2 he

/-- **Equal contents are equal whatever produced them**: two operation sequences whose ordered maps
    coincide leave `==` states (in particular identical trie structure: detours through other keys,
    overwritten values and deep collapses leave no trace). -/
theorem equal_contents_equal_states (ops1 ops2 : List Op)
    (hv1 : ∀ op ∈ ops1, ValidKey op.key) (hv2 : ∀ op ∈ ops2, ValidKey op.key)
    (he : (OrdMap.run lexLt [] ops1).1 = (OrdMap.run lexLt [] ops2).1) :
    ∃ s, (State.run {} ops1).map (·.1) = some s ∧ (State.run {} ops2).map (·.1) = some s := by
  obtain ⟨s1, e1, i1, _, _, _, w1⟩ := refines_ordered_map ops1 hv1
  obtain ⟨s2, e2, i2, _, _, _, w2⟩ := refines_ordered_map ops2 hv2
  have : s1 = s2 := canonical s1 s2 w1 w2 (by rw [i1, i2, he])
  subst this
  exact ⟨s1, by simp [e1], by simp [e2]⟩

/-- and conversely `==` states have equal contents (trivially: `iter` is a function of the value) -/
theorem equal_states_equal_contents (s1 s2 : State) (h : s1 = s2) : s1.iter = s2.iter := by rw [h]

/-! ## 3. Fork isolation -/

/-- every fork represents its own ordered map -/
def ForksInv (fs : List State) (ms : List Map) : Prop :=
  fs.length = ms.length ∧ ∀ (i : Nat) (s : State) (m : Map), fs[i]? = some s → ms[i]? = some m → Inv s m

private theorem forks_step_refines (fs : List State) (ms : List Map) (h : ForksInv fs ms) (op : FOp)
    (hk : op.keyValid ValidKey) :
    (forksStep fs op = none ∧ OrdMap.forksStep lexLt ms op = none) ∨
    ∃ fs' ms', forksStep fs op = some fs' ∧ OrdMap.forksStep lexLt ms op = some ms' ∧ ForksInv fs' ms' := by
  obtain ⟨hl, hi⟩ := h
  cases op with
  | fork i =>
    by_cases hlt : i < fs.length
    · have hlt' : i < ms.length := by omega
      right
      refine ⟨fs ++ [fs[i]], ms ++ [ms[i]], by simp [Trie.forksStep, hlt], by simp [OrdMap.forksStep, hlt'], by simp [hl], ?_⟩
      intro j s m hs hm
      by_cases hj : j < fs.length
      · rw [List.getElem?_append_left hj] at hs
        rw [List.getElem?_append_left (by omega)] at hm
        exact hi j s m hs hm
      · have hj' : j = fs.length := by
          have := (List.getElem?_eq_some_iff.1 hs).1
          simp at this; omega
        subst hj'
        rw [List.getElem?_append_right (Nat.le_refl _)] at hs
        rw [hl, List.getElem?_append_right (Nat.le_refl _)] at hm
        simp at hs hm
        subst hs; subst hm
        exact hi i _ _ (List.getElem?_eq_getElem hlt) (List.getElem?_eq_getElem hlt')
    · left
      have h1 : fs[i]? = none := List.getElem?_eq_none (by omega)
      have h2 : ms[i]? = none := List.getElem?_eq_none (by omega)
      simp [Trie.forksStep, OrdMap.forksStep, h1, h2]
  | write i op =>
    by_cases hlt : i < fs.length
    · have hlt' : i < ms.length := by omega
      right
      have hs : fs[i]? = some fs[i] := List.getElem?_eq_getElem hlt
      have hm : ms[i]? = some ms[i] := List.getElem?_eq_getElem hlt'
      obtain ⟨s', e, inv'⟩ := step_refines fs[i] ms[i] (hi i _ _ hs hm) op hk
      refine ⟨fs.set i s', ms.set i (OrdMap.apply lexLt ms[i] op).1, by simp [Trie.forksStep, hs, e],
        by simp [OrdMap.forksStep, hm], by simp [hl], ?_⟩
      intro j s m hsj hmj
      by_cases hj : i = j
      · subst hj
        rw [List.getElem?_set_self hlt] at hsj
        rw [List.getElem?_set_self hlt'] at hmj
        cases hsj; cases hmj
        exact inv'
      · rw [List.getElem?_set_ne hj] at hsj
        rw [List.getElem?_set_ne hj] at hmj
        exact hi j s m hsj hmj
    · left
      have h1 : fs[i]? = none := List.getElem?_eq_none (by omega)
      have h2 : ms[i]? = none := List.getElem?_eq_none (by omega)
      simp [Trie.forksStep, OrdMap.forksStep, h1, h2]

/-- **Fork isolation, all interleavings.** Run any sequence of `fork i` / `write i op` (real addresses)
    on a family of states starting from one fresh state, and the same sequence on a family of plain
    ordered maps (values, which cannot interfere with each other). Either both reject the sequence (an
    index out of range) or both succeed, and then *every* fork is canonical and lists exactly the
    ordered map produced by its own history: no fork observes a write made to another fork after the
    split. -/
theorem fork_isolation (ops : List FOp) (hv : ∀ op ∈ ops, op.keyValid ValidKey) :
    (forksRun [{}] ops = none ∧ OrdMap.forksRun lexLt [[]] ops = none) ∨
    ∃ fs ms, forksRun [{}] ops = some fs ∧ OrdMap.forksRun lexLt [[]] ops = some ms ∧
      fs.length = ms.length ∧
      ∀ (i : Nat) (s : State) (m : Map), fs[i]? = some s → ms[i]? = some m → s.wf = true ∧ s.iter = m ∧ s.len = m.length := by
  have gen : ∀ (ops : List FOp) (fs : List State) (ms : List Map), ForksInv fs ms →
      (∀ op ∈ ops, op.keyValid ValidKey) →
      (forksRun fs ops = none ∧ OrdMap.forksRun lexLt ms ops = none) ∨
      ∃ fs' ms', forksRun fs ops = some fs' ∧ OrdMap.forksRun lexLt ms ops = some ms' ∧ ForksInv fs' ms' := by
    intro ops
    induction ops with
    | nil => intro fs ms h _; exact Or.inr ⟨fs, ms, rfl, rfl, h⟩
    | cons op ops ih =>
      intro fs ms h hv
      rcases forks_step_refines fs ms h op (hv op (by simp)) with ⟨e1, e2⟩ | ⟨fs1, ms1, e1, e2, h1⟩
      · left; simp [Trie.forksRun, OrdMap.forksRun, e1, e2]
      · rcases ih fs1 ms1 h1 (fun o ho => hv o (by simp [ho])) with ⟨f1, f2⟩ | ⟨fs', ms', f1, f2, h'⟩
        · left; simp [Trie.forksRun, OrdMap.forksRun, e1, e2, f1, f2]
        · right; exact ⟨fs', ms', by simp [Trie.forksRun, e1, f1], by simp [OrdMap.forksRun, e2, f2], h'⟩
  have h0 : ForksInv [{}] [[]] := by
    refine ⟨rfl, ?_⟩
    intro i s m hs hm
    cases i with
    | zero => simp at hs hm; subst hs; subst hm; exact inv_new
    | succ i => simp at hs
  rcases gen ops _ _ h0 hv with h | ⟨fs, ms, e1, e2, hl, hi⟩
  · exact Or.inl h
  · exact Or.inr ⟨fs, ms, e1, e2, hl, fun i s m hs hm => ⟨(hi i s m hs hm).1, (hi i s m hs hm).2.1, (inv_root (hi i s m hs hm)).2⟩⟩

/-- the frame property itself: a write to fork `i` leaves every other fork's value untouched -/
theorem write_leaves_other_forks (fs fs' : List State) (i j : Nat) (op : Op) (hj : i ≠ j)
    (h : forksStep fs (.write i op) = some fs') : fs'[j]? = fs[j]? := by
  simp only [Trie.forksStep] at h
  split at h
  · cases h
  · split at h
    · cases h
    · cases h; exact List.getElem?_set_ne hj

/-! ## 4. The lattice-hash commitment -/

section lthash
open AgModel.LtHash
variable (h : Key → Nat → Lanes) (hOK : ∀ k v, LanesOK (h k v))
include hOK

private theorem runCommit_aux (ops : List Op) : ∀ (s : State) (m : Map), Inv s m →
    (∀ op ∈ ops, ValidKey op.key) →
    ∃ s', State.runCommit h s (commitOf h m) ops = some (s', commitOf h s'.iter) ∧
      (State.run s ops).map (·.1) = some s' := by
  induction ops with
  | nil => intro s m i _; exact ⟨s, by simp [State.runCommit, i.2.1], rfl⟩
  | cons op ops ih =>
    intro s m i hv
    have hk : ValidKey op.key := hv op (by simp)
    have hv' : ∀ op' ∈ ops, ValidKey op'.key := fun o ho => hv o (by simp [ho])
    have hs := inv_sorted_keyLt i
    cases op with
    | ins k v =>
      obtain ⟨s1, e1, i1⟩ := inv_insert i k v hk
      have hc : observe (commitOf h m) ((find m k).map (h k)) ((some v).map (h k)) = commitOf h (put keyLt m k v) :=
        commit_update h hOK m (put keyLt m k v) k (find m k) (some v) (sorted_nodup m hs) (find_eq_find? m k)
          (by simpa using put_perm m k v hs)
      obtain ⟨s', e2, e3⟩ := ih s1 _ i1 hv'
      refine ⟨s', ?_, ?_⟩
      · simp only [State.runCommit, State.apply, e1, Op.key, Op.newVal]
        rw [hc]; exact e2
      · simp only [State.run, State.apply, e1, Option.map_map]
        simpa [Option.map_map, Function.comp_def] using e3
    | rem k =>
      obtain ⟨s1, e1, i1⟩ := inv_remove i k
      have hc : observe (commitOf h m) ((find m k).map (h k)) ((none : Option Nat).map (h k)) = commitOf h (del m k) :=
        commit_update h hOK m (del m k) k (find m k) none (sorted_nodup m hs) (find_eq_find? m k)
          (by simp [del])
      obtain ⟨s', e2, e3⟩ := ih s1 _ i1 hv'
      refine ⟨s', ?_, ?_⟩
      · simp only [State.runCommit, State.apply, e1, Op.key, Op.newVal]
        rw [hc]; exact e2
      · simp only [State.run, State.apply, e1, Option.map_map]
        simpa [Option.map_map, Function.comp_def] using e3

/-- **Incremental = recomputed.** For every sequence of writes (inserts, overwrites, removals of
    present and absent keys) from the empty state and the identity commitment, folding each write with
    `observe(key, old, new)` yields exactly the commitment recomputed from the final contents
    (`for (k, v) in &state { add_entry(k, v) }`), for any per-entry hash function `h`. -/
theorem lthash_incremental_eq_recomputed (ops : List Op) (hv : ∀ op ∈ ops, ValidKey op.key) :
    ∃ s, State.runCommit h {} identity ops = some (s, commitOf h s.iter) ∧
      (State.run {} ops).map (·.1) = some s := by
  have := runCommit_aux h hOK ops {} [] inv_new hv
  simpa [commitOf] using this

/-- **Order independence.** The commitment depends only on the multiset of entries, not on the order
    in which they are added. -/
theorem lthash_order_independent (l1 l2 : List (Key × Nat)) (hp : l1.Perm l2) : commitOf h l1 = commitOf h l2 :=
  commitOf_perm h hOK l1 l2 hp

/-- hence any two write sequences that reach the same contents carry the same maintained commitment -/
theorem lthash_depends_on_contents_only (ops1 ops2 : List Op)
    (hv1 : ∀ op ∈ ops1, ValidKey op.key) (hv2 : ∀ op ∈ ops2, ValidKey op.key)
    (he : (OrdMap.run lexLt [] ops1).1 = (OrdMap.run lexLt [] ops2).1) :
    (State.runCommit h {} identity ops1).map (·.2) = (State.runCommit h {} identity ops2).map (·.2) := by
  obtain ⟨s1, c1, r1⟩ := lthash_incremental_eq_recomputed h hOK ops1 hv1
  obtain ⟨s2, c2, r2⟩ := lthash_incremental_eq_recomputed h hOK ops2 hv2
  obtain ⟨s, q1, q2⟩ := equal_contents_equal_states ops1 ops2 hv1 hv2 he
  rw [r1] at q1; rw [r2] at q2
  cases q1; cases q2
  rw [c1, c2]

/-- `a += b; a -= b` restores `a` (lane-wise wrapping arithmetic is a group) -/
theorem lthash_add_sub_inverse (a b : Lanes) (ha : LanesOK a) (hb : LanesOK b) : subL (addL a b) b = a :=
  subL_addL_cancel a b ha hb

end lthash

/-- the constants the models use are the ones in the sources -/
theorem constants_are_source :
    bitsPerLevel = AgModel.Gen.STATE_BITS_PER_LEVEL ∧ LtHash.numLanes = AgModel.Gen.LTHASH_NUM_LANES ∧
    bitsPerLevel = 5 ∧ numChunks = 52 ∧ LtHash.numLanes = 1024 := by decide

/-- the trie order is the byte order of addresses, and an address is determined by its chunks -/
theorem key_order_is_byte_order (k1 k2 : Key) (h1 : ValidKey k1) (h2 : ValidKey k2) :
    keyLt k1 k2 = lexLt k1 k2 := keyLt_eq_lexLt k1 k2 h1 h2

theorem key_determined_by_chunks (k1 k2 : Key) (h1 : ValidKey k1) (h2 : ValidKey k2)
    (h : ∀ d, d < 52 → chunkAt k1 d = chunkAt k2 d) : k1 = k2 := chunks_inj k1 k2 h1 h2 h

/-! ## 5. The placeholder engine -/

open AgModel.Exec

/-- **The engine computes the specification.** For every sequence of `begin_block` /
    `execute_transactions` / `end_block` / `finalize` calls (any block tree, any interleaving, also
    malformed feeds) the engine's state is the abstraction of the specification engine's state — which
    stores per in-flight block the seed chosen at `begin_block` and the whole transaction sequence —
    and the emitted events are identical. In the specification engine the reported commitment is *by
    definition* the fold of the block's transaction sequence over the seed, and the seed is `specSeed`. -/
theorem engine_refines_spec (ops : List Exec.Op) :
    Exec.run ops = (⟨absBlocks (grun ops).1⟩, (grun ops).2) := run_refines ops

/-- every emitted event carries the number of streamed transactions and the fold of the complete
    transaction sequence over the seed of the block state it was read from -/
theorem engine_event_is_fold (g : GBlocks) (op : Exec.Op) (ev : Event) (h : (gstepOp g op).2 = some ev) :
    ∃ b x, op = .endB b ∧ glookup g (gendKey g b) = some x ∧
      ev = (b, x.txs.length, x.txs.foldl SH.step x.seed) := gstep_event g op ev h

/-- **Seed rule.** no parent: genesis; a state completed under exactly the parent's id: its commitment
    (`Known(parent)` first, else `Pending(parent slot)`); *otherwise the parent block hash* — in
    particular when the pending block of the parent's slot is a different block or is unfinished. -/
theorem engine_seed_rule (g : GBlocks) (ps ph : Nat) :
    specSeed g none = .block 0 ∧
    (∀ x, glookup g (.known ps ph) = some x → x.completedAs = some ph → specSeed g (some (ps, ph)) = x.commitment) ∧
    (∀ x, (∀ y, glookup g (.known ps ph) = some y → y.completedAs ≠ some ph) →
      glookup g (.pending ps) = some x → x.completedAs = some ph → specSeed g (some (ps, ph)) = x.commitment) ∧
    ((∀ x, glookup g (.known ps ph) = some x → x.completedAs ≠ some ph) →
      (∀ x, glookup g (.pending ps) = some x → x.completedAs ≠ some ph) → specSeed g (some (ps, ph)) = .block ph) :=
  ⟨specSeed_genesis g, fun x h hc => specSeed_known g ps ph x h hc,
   fun x h1 h hc => specSeed_pending g ps ph x h1 h hc, fun h1 h2 => specSeed_unknown g ps ph h1 h2⟩

/-- slice boundaries are irrelevant: streaming `t1` then `t2` is streaming `t1 ++ t2` -/
theorem engine_streaming (e : Engine) (id : Ipb) (t1 t2 : List Nat) :
    exec (exec e id t1) id t2 = exec e id (t1 ++ t2) := exec_append e id t1 t2

/-- a complete block on a completed parent: the child's commitment is the fold of its transactions
    over the parent's reported commitment (concrete end-to-end instance, also non-vacuity) -/
example :
    (Exec.run [.begin (.pending 1) none, .exec (.pending 1) [7, 8], .endB (1, 11),
               .begin (.pending 2) (some (1, 11)), .exec (.pending 2) [9], .endB (2, 22)]).2 =
      [((1, 11), 2, SH.step (SH.step (.block 0) 7) 8),
       ((2, 22), 1, SH.step (SH.step (SH.step (.block 0) 7) 8) 9)] := by decide

/-- **D10, repaired behaviour.** An unrelated pending block of the parent's slot (here slot 1 holds
    block 11, the child names parent (1, 12)) is not used: the child is seeded from block hash 12. -/
theorem d10_repaired :
    (Exec.run [.begin (.pending 1) none, .exec (.pending 1) [7], .endB (1, 11),
               .begin (.pending 2) (some (1, 12)), .endB (2, 22)]).2 =
      [((1, 11), 1, SH.step (.block 0) 7), ((2, 22), 0, .block 12)] := by decide

/-- … and a parent that is still being executed is not used either (its hash is not final) -/
theorem d10_repaired_partial_parent :
    (Exec.run [.begin (.pending 1) none, .exec (.pending 1) [7],
               .begin (.pending 2) (some (1, 11)), .exec (.pending 1) [8], .endB (1, 11), .endB (2, 22)]).2 =
      [((1, 11), 2, SH.step (SH.step (.block 0) 7) 8), ((2, 22), 0, .block 11)] := by decide

/-- **D10, witness of the pinned snapshot's behaviour**: `seedOld` takes the state of whatever is
    pending in the parent's slot — the unrelated block 11 for parent (1, 12), and a half-executed
    parent's intermediate hash. -/
theorem d10_old_behaviour :
    seedOld (exec (beginOld {} (.pending 1) none) (.pending 1) [7]) (some (1, 12)) = SH.step (.block 0) 7 ∧
    seed (exec (begin {} (.pending 1) none) (.pending 1) [7]) (some (1, 12)) = .block 12 := by decide

/-! ## Non-vacuity: concrete deep tries -/

/-- `[0xAB; 32]` and the same with the last bit flipped share 51 chunks -/
def keyA : Key := List.replicate 32 171
def keyB : Key := List.replicate 31 171 ++ [170]
def keyC : Key := 0 :: List.replicate 31 171

example : validKey keyA = true ∧ validKey keyB = true ∧ validKey keyC = true := by decide

/-- the two keys split at the deepest level (depth 51), removal collapses the whole chain again and
    leaves exactly the state that only ever contained the other key -/
example :
    (State.run {} [.ins keyA 1, .ins keyB 2, .ins keyC 3, .rem keyA, .rem keyC]).map (·.1) =
      (State.run {} [.ins keyB 2]).map (·.1) := by decide +kernel

example : ((State.run {} [.ins keyA 1, .ins keyB 2]).map (fun r => (r.1.iter, r.1.len, r.1.wf))) =
    some ([(keyB, 2), (keyA, 1)], 2, true) := by decide +kernel

end AgModel.C20
