import AgModel.Model.Trie
import AgModel.Model.LtHash
import AgModel.Model.Exec
import AgModel.Proofs.TrieKey
/-!
# C20 — execution state: persistent map semantics, fork isolation, content commitment
-/
namespace AgModel.Trie

/-- the address → chunk map loses nothing: valid keys with the same 52 chunks are equal -/
theorem key_determined_by_chunks (k1 k2 : Key) (h1 : ValidKey k1) (h2 : ValidKey k2)
    (h : ∀ d, d < 52 → chunkAt k1 d = chunkAt k2 d) : k1 = k2 := chunks_inj k1 k2 h1 h2 h

end AgModel.Trie
