import AgModel.Props.C13Producer
import AgModel.Model.ProducerLoop
import AgModel.Proofs.ProducerLoop
import AgModel.Model.Votor
import AgModel.Props.C05
/-!
# C13, leader side — the window loop of `block_production_loop`

All theorems are about `AgModel.BlockProducer.Loop.produceWindow` (one iteration of
`for first_slot_in_window in Slot::windows()` of `block_producer.rs`) and quantify over every leader schedule
`leader`, every node `me`, every window `w` and every input `i : WindowIn` (what `wait_for_first_slot` observed, the
inputs of every production of the window and the hashes the blockstore reported).
-/
namespace AgModel.BlockProducer.Loop
open AgModel.BlockProducer AgModel.Blockstore

/-! ### 1. only own windows; `Skip` / waiting produce nothing -/

/-- **A node produces nothing in a window it does not lead.** -/
theorem only_own_windows (leader : Nat → Nat) (me w : Nat) (i : WindowIn) (h : leader (w * W) ≠ me) :
    (produceWindow leader me w i).blocks = [] ∧ (produceWindow leader me w i).verdict = .notLeader := by
  simp [produceWindow, entry, h]

/-- blocks are produced only on the verdicts `complete` / `stuck` -/
theorem no_blocks_unless_entered (leader : Nat → Nat) (me w : Nat) (i : WindowIn)
    (h : (produceWindow leader me w i).verdict = .notLeader ∨ (produceWindow leader me w i).verdict = .skip ∨
      (produceWindow leader me w i).verdict = .waiting) : (produceWindow leader me w i).blocks = [] := by
  rcases produceWindow_cases leader me w i with ⟨v, _, hv, _⟩ | ⟨slots, m, p, _, hp⟩
  · rw [hv]
  · rw [hp] at h
    rcases fin_verdict (produceSlots i.eq slots m p i.blocks) with h' | h' <;> rw [h'] at h <;> simp at h

/-- **`SlotReady::Skip` produces nothing.** -/
theorem skip_produces_nothing (leader : Nat → Nat) (me w : Nat) (i : WindowIn)
    (h : (produceWindow leader me w i).verdict = .skip) : (produceWindow leader me w i).blocks = [] :=
  no_blocks_unless_entered leader me w i (Or.inr (Or.inl h))

/-- while `wait_for_first_slot` has not returned nothing is produced -/
theorem waiting_produces_nothing (leader : Nat → Nat) (me w : Nat) (i : WindowIn)
    (h : (produceWindow leader me w i).verdict = .waiting) : (produceWindow leader me w i).blocks = [] :=
  no_blocks_unless_entered leader me w i (Or.inr (Or.inr h))

/-- the window is skipped when the first thing that becomes true is `finalized_slot() >= first_slot_in_window` -/
theorem skip_characterised (leader : Nat → Nat) (me w : Nat) (i : WindowIn) (hl : leader (w * W) = me) (hw : w ≠ 0)
    (h1 : i.first.already = none) (h2 : i.first.prFirst = none) (h3 : i.first.prevBlock = none)
    (h4 : i.first.finalizedLater = true) : (produceWindow leader me w i).verdict = .skip := by
  simp [produceWindow, entry, waitForFirstSlot, hl, hw, h1, h2, h3, h4]

/-- ... and the loop keeps waiting when none of the four has happened -/
theorem waiting_characterised (leader : Nat → Nat) (me w : Nat) (i : WindowIn) (hl : leader (w * W) = me) (hw : w ≠ 0)
    (h1 : i.first.already = none) (h2 : i.first.prFirst = none) (h3 : i.first.prevBlock = none)
    (h4 : i.first.finalizedLater = false) : (produceWindow leader me w i).verdict = .waiting := by
  simp [produceWindow, entry, waitForFirstSlot, hl, hw, h1, h2, h3, h4]

/-! ### 2. one block per slot -/

/-- **At most one block per slot, in slot order, only slots of the window, never slot 0**: the produced slots are a
    prefix of the window's slots (window 0: without the genesis slot). -/
theorem one_block_per_slot (leader : Nat → Nat) (me w : Nat) (i : WindowIn) :
    (∃ k, (produceWindow leader me w i).blocks.map (·.slot) =
      (if w = 0 then (windowSlots 0).drop 1 else windowSlots w).take k) ∧
    ((produceWindow leader me w i).blocks.map (·.slot)).Pairwise (· < ·) ∧
    ((produceWindow leader me w i).blocks.map (·.slot)).Nodup ∧
    ∀ b ∈ (produceWindow leader me w i).blocks, b.slot / W = w ∧ b.slot ≠ 0 := by
  obtain ⟨k, hk⟩ := blocks_slots_prefix leader me w i
  refine ⟨⟨k, by rw [hk, slotsOf_eq]⟩, ?_, ?_, ?_⟩
  · rw [hk]; exact List.Pairwise.sublist (List.take_sublist _ _) (slotsOf_pairwise w)
  · rw [hk]; exact List.Nodup.sublist (List.take_sublist _ _) (slotsOf_nodup w)
  · intro b hb
    have := mem_slotsOf w b.slot (blocks_slot_mem leader me w i b hb)
    exact ⟨this.1, this.2.1⟩

/-! ### 3. a complete window has a block for every slot -/

/-- **A completed iteration produced exactly one block for every slot of the window** (except genesis), in slot
    order. -/
theorem complete_window_all_slots (leader : Nat → Nat) (me w : Nat) (i : WindowIn)
    (h : (produceWindow leader me w i).verdict = .complete) :
    (produceWindow leader me w i).blocks.map (·.slot) =
      if w = 0 then List.range' 1 (W - 1) else List.range' (w * W) W := by
  rcases produceWindow_cases leader me w i with ⟨v, _, hv, hvv⟩ | ⟨slots, m, p, he, hp⟩
  · rw [hv] at h
    simp only at h
    subst h
    simp at hvv
  · obtain ⟨_, hs, _⟩ := entry_inr leader me w i slots m p he
    rw [hp] at h ⊢
    have h2 : (produceSlots i.eq slots m p i.blocks).2 = true := by
      unfold fin at h
      cases hb : (produceSlots i.eq slots m p i.blocks).2 with
      | true => rfl
      | false => rw [hb] at h; simp at h
    have := (produceSlots_slots i.eq slots m p i.blocks).2 h2
    subst hs
    exact this

/-! ### 4. the parent of the first block -/

/-- **The first block of a window is built on what `wait_for_first_slot` returned**: genesis in window 0; the
    ParentReady parent when that was seen first; otherwise the block of the previous slot - and then the final parent is
    that optimistic parent or the ParentReady received in one of the block's slices (one switch at most, only to a
    different hash). -/
theorem first_block_parent (leader : Nat → Nat) (me w : Nat) (i : WindowIn) (b : Produced) (rest : List Produced)
    (hb : (produceWindow leader me w i).blocks = b :: rest) :
    (w = 0 → b.slot = 1 ∧ b.parent = (0, 0)) ∧
    (∀ p, w ≠ 0 → waitForFirstSlot (w * W) { i.first with genesisWindow := false } = some (.ready p) →
      b.slot = w * W ∧ b.parent = p) ∧
    (∀ p, w ≠ 0 → waitForFirstSlot (w * W) { i.first with genesisWindow := false } = some (.parentReadyNotSeen p) →
      b.slot = w * W ∧ (∃ h, i.first.prevBlock = some h ∧ p = (w * W - 1, h)) ∧
      ∃ bi, i.blocks.head? = some bi ∧
        (b.parent = p ∨ ∃ si ∈ bi.ins, si.pr = some b.parent ∧ b.parent.2 ≠ p.2)) := by
  obtain ⟨m, q, bi, bs', he, hbs, _, hx⟩ := first_block_shape leader me w i b rest hb
  obtain ⟨_, _, h0, hn⟩ := entry_inr leader me w i _ m q he
  refine ⟨fun hw => ?_, fun p hw hr => ?_, fun p hw hr => ?_⟩
  · obtain ⟨hm, hq⟩ := h0 hw
    subst hm hq
    rw [hx, if_pos hw]
    exact ⟨rfl, produce_ready_parent _ _ rfl⟩
  · rcases hn hw with ⟨hm, hr'⟩ | ⟨_, hr'⟩
    · rw [hr] at hr'
      simp only [Option.some.injEq, SlotReady.ready.injEq] at hr'
      subst hm hr'
      rw [hx, if_neg hw]
      exact ⟨rfl, produce_ready_parent _ _ rfl⟩
    · rw [hr] at hr'; simp at hr'
  · rcases hn hw with ⟨_, hr'⟩ | ⟨hm, hr'⟩
    · rw [hr] at hr'; simp at hr'
    · rw [hr] at hr'
      simp only [Option.some.injEq, SlotReady.parentReadyNotSeen.injEq] at hr'
      subst hm hr'
      have hns := waitFor_notSeen _ _ _ hr
      refine ⟨by rw [hx, if_neg hw], hns, bi, by rw [hbs]; rfl, ?_⟩
      rw [hx, if_neg hw]
      exact run_parent_switch ⟨.notReady, w * W, p, i.eq⟩ bi.ins (init ⟨.notReady, w * W, p, i.eq⟩)

/-- the first block's parent is in an earlier slot whenever the ParentReady parents the leader sees for this window
    are (Pool, C06) -/
theorem first_block_parent_earlier (leader : Nat → Nat) (me w : Nat) (i : WindowIn) (b : Produced)
    (rest : List Produced) (hb : (produceWindow leader me w i).blocks = b :: rest)
    (h1 : ∀ p, i.first.already = some p → p.1 < w * W) (h2 : ∀ p, i.first.prFirst = some p → p.1 < w * W)
    (h3 : ∀ bi, i.blocks.head? = some bi → ∀ si ∈ bi.ins, ∀ np, si.pr = some np → np.1 < w * W) :
    b.parent.1 < b.slot := by
  obtain ⟨m, q, bi, bs', he, hbs, _, hx⟩ := first_block_shape leader me w i b rest hb
  have hq := entry_parent_lt leader me w i _ m q he h1 h2
  rw [hx]
  refine final_parent_earlier ⟨m, _, q, i.eq⟩ bi.ins hq ?_
  intro si hsi np hnp
  have := h3 bi (by rw [hbs]; rfl) si hsi np hnp
  show np.1 < if w = 0 then 1 else w * W
  split
  · rename_i hw; subst hw; omega
  · exact this

/-! ### 5. later blocks chain -/

/-- **Every later block of the window is built on the block just produced in the previous slot.** -/
theorem later_blocks_chain (leader : Nat → Nat) (me w : Nat) (i : WindowIn) (pre : List Produced) (a b : Produced)
    (post : List Produced) (h : (produceWindow leader me w i).blocks = pre ++ a :: b :: post) :
    b.slot = a.slot + 1 ∧ b.parent = (a.slot, a.hash) := by
  obtain ⟨slots, m, p, he, hbl⟩ := blocks_ne_nil leader me w i (by rw [h]; simp)
  obtain ⟨_, hs, _⟩ := entry_inr leader me w i slots m p he
  obtain ⟨n, len, hr, _⟩ := slotsOf_range w
  rw [hbl, hs, hr] at h
  exact produceSlots_chain i.eq len n m p i.blocks pre a b post h

/-! ### 6. what Votor's `try_notar` demands of the parent -/

/-- **Produced blocks pass Votor's parent test** (`V.parentOk`, C05 `notar_parent_ok`): the first block of a window
    when its parent is among the ParentReady parents Votor holds for the slot (window 0: genesis is notarized from the
    start); every later block as soon as the node voted for the block of the previous slot - the one it is built on. -/
theorem produced_blocks_pass_parent_check (leader : Nat → Nat) (me w : Nat) (i : WindowIn) (v : AgModel.Votor.V) :
    (∀ b rest, (produceWindow leader me w i).blocks = b :: rest → b.slot % AgModel.Votor.W = 0 →
      (v.getS b.slot).parentsReady.contains b.parent = true →
      v.parentOk b.slot ⟨b.hash, b.parent.1, b.parent.2⟩ = true) ∧
    (∀ b rest, (produceWindow leader me w i).blocks = b :: rest → w = 0 → (v.getS 0).votedNotar = some 0 →
      v.parentOk b.slot ⟨b.hash, b.parent.1, b.parent.2⟩ = true) ∧
    (∀ pre a b post, (produceWindow leader me w i).blocks = pre ++ a :: b :: post →
      (v.getS a.slot).votedNotar = some a.hash →
      b.slot % AgModel.Votor.W ≠ 0 ∧ v.parentOk b.slot ⟨b.hash, b.parent.1, b.parent.2⟩ = true) := by
  have hW : AgModel.Votor.W = 4 := rfl
  refine ⟨?_, ?_, ?_⟩
  · intro b rest _ hm hc
    unfold AgModel.Votor.V.parentOk
    rw [if_pos hm]
    exact hc
  · intro b rest hb hw hg
    obtain ⟨h1, h2⟩ := (first_block_parent leader me w i b rest hb).1 hw
    unfold AgModel.Votor.V.parentOk
    rw [h1, h2, hW]
    simp [hg]
  · intro pre a b post hb hv
    obtain ⟨h1, h2⟩ := later_blocks_chain leader me w i pre a b post hb
    have ha := mem_slotsOf w a.slot (blocks_slot_mem leader me w i a (by rw [hb]; simp))
    have hb' := mem_slotsOf w b.slot (blocks_slot_mem leader me w i b (by rw [hb]; simp))
    have hm : b.slot % AgModel.Votor.W ≠ 0 := by
      rw [hW]
      have h3 := ha.1
      have h4 := hb'.1
      rw [W_eq] at h3 h4
      omega
    refine ⟨hm, ?_⟩
    unfold AgModel.Votor.V.parentOk
    rw [if_neg hm, h2]
    simp [h1, hv]

/-- the hypothesis of the genesis-window case holds from the start -/
theorem votor_init_genesis_notarized : (AgModel.Votor.init.getS 0).votedNotar = some 0 := by decide

/-- ... and then `try_notar` casts the notar vote (slot not pruned, not voted yet) -/
theorem produced_blocks_get_notar_vote (leader : Nat → Nat) (me w : Nat) (i : WindowIn) (v : AgModel.Votor.V) :
    (∀ b rest, (produceWindow leader me w i).blocks = b :: rest → b.slot % AgModel.Votor.W = 0 →
      (v.getS b.slot).parentsReady.contains b.parent = true →
      v.firstUnpruned ≤ b.slot → (v.getS b.slot).voted = false →
      (v.tryNotar b.slot ⟨b.hash, b.parent.1, b.parent.2⟩).2 = true) ∧
    (∀ b rest, (produceWindow leader me w i).blocks = b :: rest → w = 0 → (v.getS 0).votedNotar = some 0 →
      v.firstUnpruned ≤ b.slot → (v.getS b.slot).voted = false →
      (v.tryNotar b.slot ⟨b.hash, b.parent.1, b.parent.2⟩).2 = true) ∧
    (∀ pre a b post, (produceWindow leader me w i).blocks = pre ++ a :: b :: post →
      (v.getS a.slot).votedNotar = some a.hash →
      v.firstUnpruned ≤ b.slot → (v.getS b.slot).voted = false →
      (v.tryNotar b.slot ⟨b.hash, b.parent.1, b.parent.2⟩).2 = true) := by
  obtain ⟨p1, p2, p3⟩ := produced_blocks_pass_parent_check leader me w i v
  exact ⟨fun b rest hb hm hc h1 h2 => tryNotar_of_parentOk v _ _ h1 h2 (p1 b rest hb hm hc),
    fun b rest hb hw hg h1 h2 => tryNotar_of_parentOk v _ _ h1 h2 (p2 b rest hb hw hg),
    fun pre a b post hb hv h1 h2 => tryNotar_of_parentOk v _ _ h1 h2 (p3 pre a b post hb hv).2⟩

/-- **The produced blocks define a parent function** (the `parentOf` with "block `(s, h)` has parent `p`" that the C02
    `timely_*` theorems take as input): looking a produced block up by its id gives the parent it was added to the
    pool with - well defined because there is one block per slot. -/
theorem produced_parent_function (leader : Nat → Nat) (me w : Nat) (i : WindowIn) :
    ∀ b ∈ (produceWindow leader me w i).blocks,
      parentOfBlocks (produceWindow leader me w i).blocks (b.slot, b.hash) = b.parent := by
  intro b hb
  unfold parentOfBlocks
  rw [find_slot_of_nodup _ (one_block_per_slot leader me w i).2.2.1 b hb]

/-! ### 7. every produced block is a completed `produce` -> what the followers reconstruct -/

/-- **Every produced block is a completed run of the per-block producer** on one of the window's inputs, for the
    block's slot, ending with the block's parent - so every per-block theorem of `C13Producer` applies to it. -/
theorem produced_block_reconstructed (leader : Nat → Nat) (me w : Nat) (i : WindowIn) :
    ∀ b ∈ (produceWindow leader me w i).blocks, ∃ c ins, c.slot = b.slot ∧ c.eqDeltas = i.eq ∧
      (produce c ins).1.status = .done ∧ (produce c ins).1.parent = b.parent ∧ ins ∈ i.blocks.map (·.ins) := by
  intro b hb
  obtain ⟨slots, m, p, he, hbl⟩ := blocks_ne_nil leader me w i (List.ne_nil_of_mem hb)
  obtain ⟨_, hs, _⟩ := entry_inr leader me w i slots m p he
  obtain ⟨n, len, hr, _⟩ := slotsOf_range w
  rw [hbl, hs, hr] at hb
  obtain ⟨m', par', bi, h1, _, _, _, h5, h6⟩ := produceSlots_mem i.eq len n m p i.blocks b hb
  exact ⟨⟨m', b.slot, par', i.eq⟩, bi.ins, rfl, rfl, h5, h6, List.mem_map_of_mem h1⟩

/-- **Leader window → followers**: `leader_to_follower` for every block of the window. Under its hypotheses (decoder
    `env` faithful on the produced slices, shred sizes non-zero, slice capacity, ParentReady parents in earlier slots)
    every honest delivery of a produced block's shreds makes the follower announce exactly a block with the parent the
    leader added it to its pool with, iff it received enough shreds of every slice. -/
theorem produced_block_leader_to_follower (leader : Nat → Nat) (me w : Nat) (i : WindowIn)
    (root sz : Nat → Nat) (env : Nat → Content) (cap : Nat) (hcap : MAX_SLICES ≤ cap) (hsz : ∀ j, sz j ≠ 0)
    (h1 : ∀ p, i.first.already = some p → p.1 < w * W) (h2 : ∀ p, i.first.prFirst = some p → p.1 < w * W)
    (h3 : ∀ bi ∈ i.blocks, ∀ si ∈ bi.ins, ∀ np, si.pr = some np → np.1 < w * W ∨ np.1 = 0) :
    ∀ b ∈ (produceWindow leader me w i).blocks, ∃ c ins, c.slot = b.slot ∧ ins ∈ i.blocks.map (·.ins) ∧
      (produce c ins).1.status = .done ∧ (produce c ins).1.parent = b.parent ∧
      ((∀ o ∈ (produce c ins).2, env (root o.index) = .ok o.payload.parent (some (txIds o))) →
        ∀ ss : List Shred, (∀ s ∈ ss, (toHBlock c root sz (produce c ins)).Honest s) →
          (toHBlock c root sz (produce c ins)).block.parent = b.parent ∧
          (.block (toHBlock c root sz (produce c ins)).block.info ∈
              (runDissem env (SlotData.new cap c.slot) ss).2 ↔
            Enough (toHBlock c root sz (produce c ins)) ss)) := by
  intro b hb
  obtain ⟨slots, m, p, he, hbl⟩ := blocks_ne_nil leader me w i (List.ne_nil_of_mem hb)
  obtain ⟨_, hs, _⟩ := entry_inr leader me w i slots m p he
  have hp := entry_parent_lt leader me w i slots m p he h1 h2
  obtain ⟨n, len, hr, hn1, _, hn0, hnw0, hnw⟩ := slotsOf_range w
  have hn : (if w = 0 then 1 else w * W) = n := by
    split
    · rename_i hw; exact (hnw0 hw).symm
    · rename_i hw; exact (hnw hw).symm
  rw [hn] at hp
  rw [hbl, hs, hr] at hb
  obtain ⟨m', par', bi, g1, g2, g3, _, g5, g6⟩ := produceSlots_mem i.eq len n m p i.blocks b hb
  refine ⟨⟨m', b.slot, par', i.eq⟩, bi.ins, rfl, List.mem_map_of_mem g1, g5, g6, ?_⟩
  intro henv ss hss
  have hpar : par'.1 < b.slot := by
    rcases g2 with ⟨e1, _, e3⟩ | g2
    · rw [e1, e3]; exact hp
    · exact g2
  have hpr : ∀ si ∈ bi.ins, ∀ np, si.pr = some np → np.1 < b.slot := by
    intro si hsi np hnp
    rcases h3 bi g1 si hsi np hnp with h | h <;> omega
  have := leader_to_follower ⟨m', b.slot, par', i.eq⟩ bi.ins root sz env cap g5 hcap hsz henv hpar hpr ss hss
  exact ⟨this.1.trans g6, this.2.2.2.1⟩

/-! ### 8. non-vacuity -/

/-- the round-robin schedule over 4 validators, one window each -/
def exLeader : Nat → Nat := fun s => s / W % 4
/-- a slice that times out with one transaction (with `delta_block == delta_first_slice` it completes a ready block) -/
def exSlice : SliceIn := ⟨[⟨0, 10⟩], true, false, none⟩

/-- (a) validator 1 leads window 1 (slots 4..7), ParentReady (2, #7) first: four blocks, chained -/
example : produceWindow exLeader 1 1
      ⟨⟨false, none, some (2, 7), none, false⟩, true, [⟨[exSlice], 11⟩, ⟨[exSlice], 12⟩, ⟨[exSlice], 13⟩, ⟨[exSlice], 14⟩]⟩ =
    ⟨.complete, [⟨4, 11, (2, 7)⟩, ⟨5, 12, (4, 11)⟩, ⟨6, 13, (5, 12)⟩, ⟨7, 14, (6, 13)⟩]⟩ := by decide +kernel

/-- (b) optimistic handover: the block of slot 3 (#9) is seen first, the first block starts on (3, #9), its second
    slice receives ParentReady (2, #7): the block's parent becomes (2, #7); the next production is still running -/
example : produceWindow exLeader 1 1
      ⟨⟨false, none, none, some 9, false⟩, true,
        [⟨[⟨[], true, false, none⟩, ⟨[⟨0, 10⟩], true, true, some (2, 7)⟩], 11⟩, ⟨[exSlice], 12⟩, ⟨[], 13⟩]⟩ =
    ⟨.stuck, [⟨4, 11, (2, 7)⟩, ⟨5, 12, (4, 11)⟩]⟩ := by decide +kernel

/-- (c) a later slot was finalized first: the window is skipped -/
example : produceWindow exLeader 1 1 ⟨⟨false, none, none, none, true⟩, true, [⟨[exSlice], 11⟩]⟩ = ⟨.skip, []⟩ := by
  decide +kernel

/-- (d) the genesis window: slot 0 is not produced, slot 1 is built on genesis -/
example : produceWindow exLeader 0 0
      ⟨⟨false, none, none, none, false⟩, true, [⟨[exSlice], 11⟩, ⟨[exSlice], 12⟩, ⟨[exSlice], 13⟩, ⟨[exSlice], 14⟩]⟩ =
    ⟨.complete, [⟨1, 11, (0, 0)⟩, ⟨2, 12, (1, 11)⟩, ⟨3, 13, (2, 12)⟩]⟩ := by decide +kernel

/-- (e) validator 2 does not lead window 1; validator 1 still waits when nothing has happened -/
example : produceWindow exLeader 2 1 ⟨⟨false, none, some (2, 7), none, false⟩, true, [⟨[exSlice], 11⟩]⟩ = ⟨.notLeader, []⟩ ∧
    produceWindow exLeader 1 1 ⟨⟨false, none, none, none, false⟩, true, [⟨[exSlice], 11⟩]⟩ = ⟨.waiting, []⟩ := by
  decide +kernel

/-- the Votor hypotheses of `produced_blocks_pass_parent_check` are satisfiable: after ParentReady(4, (2, #7)) the first
    block of example (a) gets the notar vote, and then so does the second -/
example :
    let v0 := AgModel.Votor.init.upd 4 (fun s => { s with parentsReady := [(2, 7)] })
    let r1 := v0.tryNotar 4 ⟨11, 2, 7⟩
    r1.2 = true ∧ (r1.1.getS 4).votedNotar = some 11 ∧ (r1.1.tryNotar 5 ⟨12, 4, 11⟩).2 = true := by decide +kernel

end AgModel.BlockProducer.Loop
