import AgModel.Gen.Consts
import AgModel.Proofs.Shred
import AgModel.Model.ShredGate
import AgModel.Props.C15
import AgModel.Props.C11
import AgModel.Exec.ShredEnv
/-!
# C12 — Shreds are bound to leader, slot, slice and position; equivocation is detected

Statements about `AgModel.Shred.validate` (`ValidatedShred::try_new`), the leader's output
(`leaderOut`, see `Props/C11.lean`) and the equivocation gate of the blockstore (`Model/ShredGate.lean`).
Ed25519 is symbolic (`Sig.signed key commitment`; a correct leader's key signs only what the leader
signs), SHA-256 is the free term algebra of `Model/Merkle.lean`, shard bytes ↦ leaf id is injective
(`Env.Laws.leafId_inj`).
-/
namespace AgModel.Shred
open AgModel.Pad AgModel.Merkle

/-- the commitment a shred claims: its header fields and the root derived from payload, index and path -/
def Shred.claimed (env : Env) (s : Shred) : Commitment := commit s.header (s.sliceRoot env)

/-- a cache entry is *sound* for key `pk`: the signature it remembers, if any, is `pk`'s signature over its
    commitment. Entries only come out of `ValidatedShred::commitment()` (`accepted_entry_sound`: the invariant) or
    of `SliceCommitment::new` (no signature remembered). -/
def Cached.Sound (pk : Nat) (e : Cached) : Prop := ∀ σ, e.sig = some σ → σ = .signed pk e.commitment

def CacheSound (pk : Nat) : Option Cached → Prop
  | none => True
  | some e => e.Sound pk

/-- a validated shred carries `pk`'s signature over its own commitment -/
def VShred.Signed (pk : Nat) (v : VShred) : Prop := v.shred.sig = .signed pk v.commitment

/-- **An index the Merkle path does not consume is rejected** (D32 `fix:`), with or without cached commitment,
    whatever the signature: never accepted and never reported as equivocation of the leader. -/
theorem index_not_consumed_rejected (env : Env) (s : Shred) (cached : Option Cached) (pk : Nat)
    (h : s.indexConsumed = false) : validate env s cached pk = .error .invalidSignature := by
  unfold validate; simp [h]

/-- whatever is accepted has an index inside the width `2 ^ path length` of the tree its path describes -/
theorem accepted_index_consumed (env : Env) (s : Shred) (cached : Option Cached) (pk : Nat) (x : VShred)
    (h : validate env s cached pk = .ok x) : s.indexConsumed = true ∧ s.index < 2 ^ s.path.length := by
  cases hc : s.indexConsumed with
  | false => rw [index_not_consumed_rejected env s cached pk hc] at h; cases h
  | true =>
    refine ⟨rfl, ?_⟩
    simp only [Shred.indexConsumed, decide_eq_true_eq] at hc
    exact (Nat.div_eq_zero_iff_lt (Nat.two_pow_pos _)).mp hc

/-- **Accepted only if the leader signed exactly this slot, slice index, last flag and root - with or without a
    cached commitment** (D34 `fix:`; on the pinned snapshot only without cache: `cache_skips_signature_old_witness`).
    For every sound cache state, a shred is accepted iff its index is consumed by its path, its signature is the
    leader key's signature over exactly (slot, slice index, last-slice flag, root derived from its payload, index
    and path), and the cached commitment, if any, is that very commitment. -/
theorem accept_iff_signed (env : Env) (s : Shred) (pk : Nat) (cached : Option Cached) (hs : CacheSound pk cached)
    (v : VShred) :
    validate env s cached pk = .ok v ↔
      (s.indexConsumed = true ∧ s.sig = .signed pk (s.claimed env) ∧
        (∀ e, cached = some e → e.commitment = s.claimed env) ∧ v = ⟨s, s.sliceRoot env⟩) := by
  cases hc : s.indexConsumed with
  | false => rw [index_not_consumed_rejected env s cached pk hc]; simp
  | true =>
    unfold validate Sig.verify Shred.claimed Cached.shortcuts
    simp only [hc, Bool.not_true, Bool.false_eq_true, if_false, true_and]
    cases cached with
    | none =>
      by_cases h : s.sig = .signed pk (commit s.header (s.sliceRoot env))
      · simp only [h, decide_true, Bool.not_true, Bool.false_eq_true, if_false, Except.ok.injEq, true_and]
        constructor
        · intro e; exact ⟨(by intro _ h; cases h), e.symm⟩
        · intro e; exact e.2.symm
      · simp [h]
    | some e =>
      by_cases hcm : e.commitment = commit s.header (s.sliceRoot env)
      · by_cases hsg : e.sig = some s.sig
        · have hsigned : s.sig = .signed pk (commit s.header (s.sliceRoot env)) := by
            rw [← hcm]; exact hs s.sig hsg
          simp only [hcm, hsg, decide_true, Bool.and_self, if_true, Except.ok.injEq, hsigned, true_and]
          constructor
          · intro h; exact ⟨(by intro e' he'; injection he' with he'; rw [← he']; exact hcm), h.symm⟩
          · intro h; exact h.2.symm
        · by_cases h : s.sig = .signed pk (commit s.header (s.sliceRoot env))
          · rw [h] at hsg
            simp only [hcm, hsg, h, decide_true, decide_false, Bool.and_false, Bool.false_eq_true, if_false,
              Bool.not_true, ne_eq, not_true_eq_false, Except.ok.injEq, true_and]
            constructor
            · intro h'; exact ⟨(by intro e' he'; injection he' with he'; rw [← he']; exact hcm), h'.symm⟩
            · intro h'; exact h'.2.symm
          · simp [hcm, hsg, h]
      · have hne : ¬ (∀ e', some e = some e' → e'.commitment = commit s.header (s.sliceRoot env)) := by
          intro h; exact hcm (h e rfl)
        by_cases h : s.sig = .signed pk (commit s.header (s.sliceRoot env))
        · simp [hcm, h, hne]
        · simp [hcm, h]

/-- everything `try_new` accepts under a sound cache carries the leader's signature over its own commitment, and the
    cache entry it seeds (`ValidatedShred::commitment()`) is sound again: the invariant of the commitment cache -/
theorem accepted_entry_sound (env : Env) (s : Shred) (pk : Nat) (cached : Option Cached) (hs : CacheSound pk cached)
    (v : VShred) (h : validate env s cached pk = .ok v) : v.Signed pk ∧ v.cacheEntry.Sound pk := by
  obtain ⟨_, h1, _, rfl⟩ := (accept_iff_signed env s pk cached hs v).mp h
  have : VShred.Signed pk ⟨s, s.sliceRoot env⟩ := h1
  refine ⟨this, ?_⟩
  intro σ hσ
  simp only [VShred.cacheEntry, Option.some.injEq] at hσ
  rw [← hσ]; exact this

/-- **No signature of the leader over the claimed commitment: rejected**, whatever is cached (sound) - in particular
    a genuine shred whose signature bytes a relay replaced, presented while the slice's own commitment is cached. -/
theorem unsigned_rejected (env : Env) (s : Shred) (pk : Nat) (cached : Option Cached) (hs : CacheSound pk cached)
    (hsig : s.sig ≠ .signed pk (s.claimed env)) : validate env s cached pk = .error .invalidSignature := by
  cases hc : s.indexConsumed with
  | false => exact index_not_consumed_rejected env s cached pk hc
  | true =>
    unfold Shred.claimed at hsig
    unfold validate Sig.verify Cached.shortcuts
    simp only [hc, Bool.not_true, Bool.false_eq_true, if_false]
    cases cached with
    | none => simp [hsig]
    | some e =>
      by_cases hcm : e.commitment = commit s.header (s.sliceRoot env)
      · have hsg : e.sig ≠ some s.sig := by
          intro h; apply hsig; rw [← hcm]; exact hs s.sig h
        simp [hsg, hsig]
      · simp [hcm, hsig]

/-- **A cached commitment only ever shortcuts verification of an identical commitment, and only for the signature
    verified for it.** With a sound cached entry `e`, a shred (whose index its path consumes - otherwise
    `index_not_consumed_rejected`) claiming `e`'s commitment is accepted iff it carries the leader's signature over
    it (no signature: `InvalidSignature`, the D34 `fix:`); a shred claiming another commitment is never accepted:
    `Equivocation` iff the leader key signed the claimed commitment (two different validly signed commitments),
    `InvalidSignature` iff it did not. -/
theorem cache_only_identical (env : Env) (s : Shred) (e : Cached) (pk : Nat) (hcons : s.indexConsumed = true)
    (hs : e.Sound pk) :
    (s.claimed env = e.commitment → s.sig = .signed pk (s.claimed env) → validate env s (some e) pk = .ok ⟨s, s.sliceRoot env⟩) ∧
    (s.claimed env = e.commitment → s.sig ≠ .signed pk (s.claimed env) → validate env s (some e) pk = .error .invalidSignature) ∧
    (s.claimed env ≠ e.commitment → s.sig = .signed pk (s.claimed env) → validate env s (some e) pk = .error .equivocation) ∧
    (s.claimed env ≠ e.commitment → s.sig ≠ .signed pk (s.claimed env) → validate env s (some e) pk = .error .invalidSignature) := by
  refine ⟨?_, ?_, ?_, ?_⟩
  · intro h1 h2
    exact (accept_iff_signed env s pk (some e) hs _).mpr ⟨hcons, h2, (by intro e' he'; injection he' with he'; rw [← he', h1]), rfl⟩
  · intro _ h2; exact unsigned_rejected env s pk (some e) hs h2
  · intro h1 h2
    unfold Shred.claimed at h1 h2
    unfold validate Sig.verify Cached.shortcuts
    simp [hcons, h2, Ne.symm h1]
  · intro _ h2; exact unsigned_rejected env s pk (some e) hs h2

/-- **Equivocation is reported only for two different commitments both signed by the leader key**: a correct
    leader (whose key signs one commitment per slot and slice) is never reported by `try_new`. -/
theorem equivocation_only_if_two_signed (env : Env) (s : Shred) (cached : Option Cached) (pk : Nat)
    (h : validate env s cached pk = .error .equivocation) :
    ∃ e, cached = some e ∧ e.commitment ≠ s.claimed env ∧ s.sig = .signed pk (s.claimed env) := by
  cases hc : s.indexConsumed with
  | false => rw [index_not_consumed_rejected env s cached pk hc] at h; cases h
  | true =>
    unfold validate Sig.verify Shred.claimed Cached.shortcuts at *
    simp only [hc, Bool.not_true, Bool.false_eq_true, if_false] at h
    cases cached with
    | none => simp only at h; split at h <;> (try split at h) <;> simp at h
    | some e =>
      refine ⟨e, rfl, ?_⟩
      simp only at h
      split at h
      · simp at h
      · split at h
        · simp at h
        · rename_i hv
          split at h
          · rename_i hne; exact ⟨hne, by simpa using hv⟩
          · simp at h

/-- **Replay / header mutation is rejected**: a signature of the leader over commitment `c` makes a shred
    acceptable only for exactly `c`'s slot, slice index, last flag and root. Altering any of them (or
    replaying the shred under another slot / slice / position, which changes the derived root or the header)
    gives `InvalidSignature` — with or without a (sound) cached commitment. (Before the D34 fix: unless the claimed
    commitment was the cached one.) -/
theorem replay_rejected (env : Env) (s : Shred) (pk : Nat) (c : Commitment) (cached : Option Cached)
    (hs : CacheSound pk cached) (hsig : s.sig = .signed pk c)
    (hmut : s.header.slot ≠ c.slot ∨ s.header.sliceIdx ≠ c.sliceIdx ∨ s.header.isLast ≠ c.isLast ∨ s.sliceRoot env ≠ c.root) :
    validate env s cached pk = .error .invalidSignature := by
  apply unsigned_rejected env s pk cached hs
  rw [hsig]
  intro h
  injection h with _ h
  subst h
  simp [Shred.claimed, commit] at hmut

/-! ### binding to the position inside the signed tree -/

/-- **The payload at the shred index is proven under the signed root - for a tree of every height.** Let the root
    a shred derives be the root of *any* Merkle tree (`leaves`: 1 .. 2^32 shards, whatever a leader may sign: 64
    as the shredders do, 2, 65, …). If the shred's path consumes its index (which `try_new` demands since the
    D32 fix: `accepted_index_consumed`), then the path has exactly the tree's height, the index lies inside the
    tree's width, the payload is the leaf at that very index (the empty padding leaf beyond the real leaves) and,
    for an index below the number of leaves, payload and path are exactly the shard and the proof the tree creates
    for that index. So a shred cannot be relabelled `j ↦ j + k * 2^h`, a path element / the path length / a payload
    byte cannot be altered, without changing the derived root. (On the pinned snapshot this held only when the tree
    had height 6: `index_alias_old_witness`.) -/
theorem root_binds_position (env : Env) (L : env.Laws) (leaves : List Bytes) (hne : leaves ≠ [])
    (hn : leaves.length ≤ 2 ^ 32) (s : Shred) (hcons : s.indexConsumed = true)
    (hroot : s.sliceRoot env = (Tree.new (leaves.map env.leafId)).root) :
    s.path.length = (Tree.new (leaves.map env.leafId)).height ∧
    s.index < 2 ^ (Tree.new (leaves.map env.leafId)).height ∧
    env.leafId s.data = (leaves.map env.leafId).getD s.index 0 ∧
    (∀ hi : s.index < leaves.length,
      s.data = leaves[s.index] ∧ s.path = (Tree.new (leaves.map env.leafId)).createProof s.index) := by
  have hne' : leaves.map env.leafId ≠ [] := by simpa using hne
  have hn' : (leaves.map env.leafId).length ≤ 2 ^ 32 := by simpa using hn
  -- the derivation reaches the root of the perfect tree over the padded leaves
  have hr : (deriveRootIdx (.leaf (env.leafId s.data)) s.index s.path).1
      = specG 0 (Tree.new (leaves.map env.leafId)).height ((leaves.map env.leafId).map H.leaf) := by
    rw [← new_eq_spec _ hne', ← hroot]; rfl
  obtain ⟨hplen, _⟩ := derive_sound _ _
    (by intro y hy; simp at hy; obtain ⟨a, _, rfl⟩ := hy; trivial) (.leaf (env.leafId s.data)) trivial s.index s.path hr
  have hh : (Tree.new (leaves.map env.leafId)).height ≤ 32 := by
    rw [new_def]; exact WF.height_le _ 32 hn'
  -- hence `check_proof` (index exhausted, length bound, root) holds, and C15 soundness / uniqueness apply
  have hc1 : checkProof (env.leafId s.data) s.index (Tree.new (leaves.map env.leafId)).root s.path = true := by
    unfold checkProof checkHashProof
    simp only [Bool.and_eq_true, decide_eq_true_eq]
    refine ⟨⟨?_, ?_⟩, by rw [← hroot]; rfl⟩
    · rw [hplen]; have : maxHeight = 32 := by decide
      omega
    · rw [deriveRootIdx_snd]; simpa [Shred.indexConsumed] using hcons
  obtain ⟨h1, h2, h3⟩ := sound _ hne' _ _ _ hc1
  refine ⟨h1, h2, h3, ?_⟩
  intro hi
  have hi' : s.index < (leaves.map env.leafId).length := by simpa using hi
  have hdata : s.data = leaves[s.index] := by
    simp [List.getD_eq_getElem?_getD, List.getElem?_map, List.getElem?_eq_getElem hi] at h3
    exact L.leafId_inj _ _ h3
  have hc2 := complete (leaves.map env.leafId) s.index hi' hn'
  obtain ⟨_, hpath⟩ := proof_unique _ hne' _ _ _ _ _ hc1 hc2
  exact ⟨hdata, hpath⟩

/-- the same for a correct leader's slice (any of the four shredders: 64 shards, height 6): a shred whose path
    consumes its index and that derives the leader's root *is*, in payload and path, the leader's shred at that
    index - and the index is below 64 (no longer a hypothesis: the bound of the wire format is not needed). -/
theorem root_binds_leader_position (env : Env) (L : env.Laws) (v : Variant) (sl : Slice) (sk : Nat) (key : Bytes)
    (s : Shred) (hcons : s.indexConsumed = true) (hroot : s.sliceRoot env = (leaderTree env v sl key).root) :
    s.index < TOTAL ∧
    ∃ l, (leaderOut env v sl sk key)[s.index]? = some l ∧ s.data = l.shred.data ∧ s.path = l.shred.path := by
  have hlen := rawsOf_length env (coderPayload env v key (payloadBytes sl.parent sl.data)) v.nData L (nData_le v)
  generalize hraws : rawsOf env (coderPayload env v key (payloadBytes sl.parent sl.data)) v.nData = raws at *
  have hT : leaderTree env v sl key = Tree.new (raws.map env.leafId) := by unfold leaderTree; rw [hraws]
  have hne : raws ≠ [] := by
    intro h; have := congrArg List.length h; simp [hlen] at this
  rw [hT] at hroot
  obtain ⟨_, h2, _, h4⟩ := root_binds_position env L raws hne (by rw [hlen]; decide) s hcons hroot
  -- the height of a 64-leaf tree is at most 6
  have hh : (Tree.new (raws.map env.leafId)).height ≤ 6 := by
    rw [new_def]; exact WF.height_le _ 6 (by rw [List.length_map, hlen]; decide)
  have hidx : s.index < 64 := by
    have : 2 ^ (Tree.new (raws.map env.leafId)).height ≤ 2 ^ 6 := Nat.pow_le_pow_right (by decide) hh
    omega
  have hi : s.index < raws.length := by omega
  obtain ⟨hdata, hpath⟩ := h4 hi
  refine ⟨by rw [TOTAL_eq]; exact hidx, mkShred sl.header v.nData (leaderTree env v sl key) (.signed sk (commit sl.header (leaderTree env v sl key).root)) s.index raws[s.index], ?_, ?_, ?_⟩
  · unfold leaderOut
    rw [hraws, mkAll_getElem?, List.getElem?_eq_getElem hi]; simp
  · simp [mkShred, hdata]
  · simp [mkShred, hpath, hT]

/-- **Mutations of a valid shred are rejected** (single-field and combined): whatever is accepted — with *any*
    sound cache state (none, the slice's own commitment, anything else) — under a correct leader's key and that
    leader's signature for the slice is the leader's own shred at that index: same slot, slice index, last flag,
    payload bytes and Merkle path, at an index below 64 (a conclusion since the D32 fix, not a hypothesis). Only the
    data/coding tag may differ (defect D15). Full statement (fails only for the tag): `… → s = l.shred`. -/
theorem accepted_is_leader_shred_partial (env : Env) (L : env.Laws) (v : Variant) (sl : Slice) (sk : Nat) (key : Bytes)
    (s : Shred) (x : VShred)
    (cached : Option Cached) (hcache : CacheSound sk cached)
    (hsig : s.sig = .signed sk (commit sl.header (leaderTree env v sl key).root))
    (hok : validate env s cached sk = .ok x) :
    s.index < TOTAL ∧
    ∃ l, (leaderOut env v sl sk key)[s.index]? = some l ∧ s = { l.shred with isData := s.isData } ∧
      x = ⟨s, (leaderTree env v sl key).root⟩ := by
  obtain ⟨hcons, h1, hcm, hx⟩ := (accept_iff_signed env s sk cached hcache x).mp hok
  rw [hsig] at h1
  injection h1 with hk hc0
  have hc := hc0.symm
  clear hc0 hcm hk
  unfold Shred.claimed commit at hc
  injection hc with h1 h2 h3 h4
  obtain ⟨hidx, l, hl, hd, hp⟩ := root_binds_leader_position env L v sl sk key s hcons h4
  obtain ⟨_, hli, hlh, _, hls, _, _⟩ := leaderOut_get env v sl sk key s.index l hl
  refine ⟨hidx, l, hl, ?_, by rw [hx, h4]⟩
  have hhdr : s.header = sl.header := by
    cases hs : s.header; cases hsl : sl.header
    simp only [hs, hsl] at h1 h2 h3
    simp [h1, h2, h3]
  clear hok hcache hcons hx
  cases s; cases l with
  | mk ls lr =>
    cases ls
    simp_all

/-! ### the blockstore's equivocation gate: the pinned gate `Gate.addOld` (core of `Gate.add`) -/

/-- a shred that passes the gate leaves its commitment in the cache and the leader unflagged -/
theorem gateOld_pass_caches (g : Gate) (a : VShred) (hg : g.misbehaved = false) (hpass : (g.addOld a).2 = .pass) :
    (g.addOld a).1.cached a.shred.header.sliceIdx = some a.commitment ∧ (g.addOld a).1.misbehaved = false := by
  unfold Gate.addOld at hpass ⊢
  simp only [hg, Bool.false_eq_true, if_false] at hpass ⊢
  cases hc : g.cached a.shred.header.sliceIdx with
  | some c =>
    simp only [hc] at hpass ⊢
    by_cases hca : c = a.commitment
    · subst hca
      simp only [ne_eq, not_true_eq_false, if_false] at hpass ⊢
      cases hl : g.lastSlice with
      | none =>
        cases hb : a.shred.header.isLast with
        | false => simp_all [Gate.cached]
        | true =>
          cases hany : g.cache.any (fun e => decide (e.1 > a.shred.header.sliceIdx)) with
          | true => simp [hl, hb, hany] at hpass
          | false => simp_all [Gate.cached]
      | some l =>
        simp only [hl] at hpass ⊢
        split at hpass <;> simp_all [Gate.cached]
    · simp [hca] at hpass
  | none =>
    simp only [hc] at hpass ⊢
    cases hl : g.lastSlice with
    | none =>
      cases hb : a.shred.header.isLast with
      | false => simp_all [Gate.cached]
      | true =>
        cases hany : ((a.shred.header.sliceIdx, a.commitment) :: g.cache).any (fun e => decide (e.1 > a.shred.header.sliceIdx)) with
        | true => simp [hl, hb, hany] at hpass
        | false => simp [hl, hb, hany, hg, Gate.cached]
    | some l =>
      simp only [hl] at hpass ⊢
      split at hpass <;> simp_all [Gate.cached]

/-- (pinned gate; for `Gate.add` see `gate_conflict_reported` below) two different commitments for one slot and slice are reported in both arrival orders: whichever of two
    validated shreds with the same slice index and different commitments reaches an unflagged block data first,
    the other one is answered with `Equivocation` and the leader is flagged. -/
theorem gateOld_conflict_reported (g : Gate) (a b : VShred) (hg : g.misbehaved = false)
    (hidx : a.shred.header.sliceIdx = b.shred.header.sliceIdx) (hne : a.commitment ≠ b.commitment)
    (hpass : (g.addOld a).2 = .pass) :
    ((g.addOld a).1.addOld b).2 = .equivocation ∧ (((g.addOld a).1.addOld b).1).misbehaved = true := by
  obtain ⟨h1, h2⟩ := gateOld_pass_caches g a hg hpass
  generalize (g.addOld a).1 = g' at *
  unfold Gate.addOld
  rw [hidx] at h1
  simp [h2, h1, hne]

/-- the gate invariant under shreds of one consistent block: commitments given by `C`, last slice `last`;
    (since the D2 fix) no cached slice index lies beyond the block's last slice -/
def Gate.Consistent (C : Nat → Commitment) (last : Option Nat) (g : Gate) : Prop :=
  g.misbehaved = false ∧ (∀ p ∈ g.cache, p.2 = C p.1) ∧ (g.lastSlice = none ∨ g.lastSlice = last) ∧
  (∀ p ∈ g.cache, ∀ l, last = some l → p.1 ≤ l)

/-- a validated shred of a block whose slices have commitments `C` and whose last slice is `last` -/
def VShred.FromBlock (C : Nat → Commitment) (last : Option Nat) (v : VShred) : Prop :=
  v.commitment = C v.shred.header.sliceIdx ∧
  (v.shred.header.isLast = true ↔ last = some v.shred.header.sliceIdx) ∧
  (∀ l, last = some l → v.shred.header.sliceIdx ≤ l)

/-- the empty gate is consistent with every block (the induction starts here) -/
theorem gate_empty_consistent (C : Nat → Commitment) (last : Option Nat) : ({} : Gate).Consistent C last :=
  by unfold Gate.Consistent; simp

/-- (pinned gate; the statement for `Gate.add` is `gate_honest_never_flagged` below) a correct leader is never flagged by the gate (`honest_never_flagged`, gate part): no sequence of
    validated shreds that all belong to one block — one commitment per slice index, the last flag exactly on
    the last slice, no slice beyond it — makes `add_shred` answer `Equivocation` or `InvalidShred`, in any
    arrival order and with any duplicates. `_partial`: what happens *after* the gate is C13; on the unchanged
    tree a relayed tag flip (D15) makes the later reconstruction fail and flags the correct leader. -/
theorem gateOld_honest_never_flagged (C : Nat → Commitment) (last : Option Nat) (g : Gate) (v : VShred)
    (hg : g.Consistent C last) (hv : v.FromBlock C last) :
    (g.addOld v).2 = .pass ∧ (g.addOld v).1.Consistent C last := by
  obtain ⟨hm, hcache, hlast, hbound⟩ := hg
  obtain ⟨hc, hl1, hl2⟩ := hv
  have hfind : ∀ c, g.cached v.shred.header.sliceIdx = some c → c = v.commitment := by
    intro c h
    unfold Gate.cached at h
    cases hf : g.cache.find? (·.1 == v.shred.header.sliceIdx) with
    | none => simp [hf] at h
    | some p =>
      simp only [hf, Option.map_some, Option.some.injEq] at h
      have := hcache p (List.mem_of_find?_eq_some hf)
      have hk := List.find?_some hf
      simp only [beq_iff_eq] at hk
      rw [← h, this, hk, hc]
  -- the last-slice check always succeeds
  have hlastok : ∀ l, g.lastSlice = some l →
      ((decide (v.shred.header.sliceIdx < l) && !v.shred.header.isLast) || (v.shred.header.sliceIdx == l && v.shred.header.isLast)) = true := by
    intro l hgl
    have hll : last = some l := by rcases hlast with h | h <;> simp_all
    have hle := hl2 l hll
    by_cases he : v.shred.header.sliceIdx = l
    · have : v.shred.header.isLast = true := hl1.mpr (by rw [hll, he])
      simp [he, this]
    · have hnl : v.shred.header.isLast = false := by
        cases hb : v.shred.header.isLast with
        | false => rfl
        | true => have := hl1.mp hb; rw [hll] at this; injection this with this; exact absurd this.symm he
      have : v.shred.header.sliceIdx < l := by omega
      simp [hnl, this]
  have hlastnew : v.shred.header.isLast = true → some v.shred.header.sliceIdx = last := fun hb => (hl1.mp hb).symm
  have hcache' : ∀ p ∈ (v.shred.header.sliceIdx, v.commitment) :: g.cache, p.2 = C p.1 := by
    intro p hp
    rcases List.mem_cons.mp hp with rfl | hp
    · exact hc
    · exact hcache p hp
  have hbound' : ∀ p ∈ (v.shred.header.sliceIdx, v.commitment) :: g.cache, ∀ l, last = some l → p.1 ≤ l := by
    intro p hp l hl
    rcases List.mem_cons.mp hp with rfl | hp
    · exact hl2 l hl
    · exact hbound p hp l hl
  -- when the shred declares the last slice, nothing cached lies beyond it
  have hnobeyond : v.shred.header.isLast = true →
      g.cache.any (fun e => decide (e.1 > v.shred.header.sliceIdx)) = false := by
    intro hb
    rw [List.any_eq_false]
    intro p hp
    have := hbound p hp _ (hl1.mp hb)
    simp; omega
  have hnobeyond' : v.shred.header.isLast = true →
      ((v.shred.header.sliceIdx, v.commitment) :: g.cache).any (fun e => decide (e.1 > v.shred.header.sliceIdx)) = false := by
    intro hb
    rw [List.any_cons, hnobeyond hb]; simp
  unfold Gate.Consistent Gate.addOld
  simp only [hm, Bool.false_eq_true, if_false]
  cases hcd : g.cached v.shred.header.sliceIdx with
  | some c =>
    have := hfind c hcd
    subst this
    cases hgl : g.lastSlice with
    | none =>
      cases hb : v.shred.header.isLast with
      | true =>
        have := hnobeyond hb
        simp [this, hlastnew hb]
        exact ⟨fun a b h => hcache (a, b) h, fun a b h l hl => hbound (a, b) h l hl⟩
      | false =>
        simp [hm, hgl]
        exact ⟨fun a b h => hcache (a, b) h, fun a b h l hl => hbound (a, b) h l hl⟩
    | some l =>
      have := hlastok l hgl
      simp [hm, hgl, this]
      exact ⟨fun a b h => hcache (a, b) h, by simpa [hgl] using hlast, fun a b h l hl => hbound (a, b) h l hl⟩
  | none =>
    cases hgl : g.lastSlice with
    | none =>
      cases hb : v.shred.header.isLast with
      | true =>
        have := hnobeyond' hb
        simp [this, hlastnew hb]
        exact ⟨⟨hc, fun a b h => hcache (a, b) h⟩, hl2, fun a b h l hl => hbound (a, b) h l hl⟩
      | false =>
        simp [hm, hgl]
        exact ⟨⟨hc, fun a b h => hcache (a, b) h⟩, hl2, fun a b h l hl => hbound (a, b) h l hl⟩
    | some l =>
      have := hlastok l hgl
      simp [hm, hgl, this]
      exact ⟨⟨hc, fun a b h => hcache (a, b) h⟩, by simpa [hgl] using hlast, hl2, fun a b h l hl => hbound (a, b) h l hl⟩


/-! ### the gate after the D15 `fix:` (`Gate.add`): a shred whose data/coding type does not fit its index is dropped -/

theorem gate_add_of_typeOk (g : Gate) (v : VShred) (hg : g.misbehaved = false) (ht : v.shred.typeOk = true) :
    g.add v = g.addOld v := by
  unfold Gate.add; simp [hg, ht]

/-- a shred of the wrong type changes nothing and blames nobody -/
theorem gate_add_wrongType (g : Gate) (v : VShred) (hg : g.misbehaved = false) (ht : v.shred.typeOk = false) :
    g.add v = (g, .wrongType) := by
  unfold Gate.add; simp [hg, ht]

theorem gate_pass_typeOk (g : Gate) (v : VShred) (hg : g.misbehaved = false) (hpass : (g.add v).2 = .pass) :
    v.shred.typeOk = true := by
  cases ht : v.shred.typeOk with
  | true => rfl
  | false => rw [gate_add_wrongType g v hg ht] at hpass; cases hpass

/-- a shred that passes the gate leaves its commitment in the cache and the leader unflagged -/
theorem gate_pass_caches (g : Gate) (a : VShred) (hg : g.misbehaved = false) (hpass : (g.add a).2 = .pass) :
    (g.add a).1.cached a.shred.header.sliceIdx = some a.commitment ∧ (g.add a).1.misbehaved = false := by
  have ht := gate_pass_typeOk g a hg hpass
  rw [gate_add_of_typeOk g a hg ht] at hpass ⊢
  exact gateOld_pass_caches g a hg hpass

/-- **Two different commitments for one slot and slice are never silently accepted, in both arrival orders**:
    whichever of two validated shreds with the same slice index and different commitments is stored by an unflagged
    block data first, the other one is answered with `Equivocation` and the leader is flagged - unless its
    data/coding type does not fit its index: then (D15 `fix:`) it is dropped as `WrongType` and the block data does
    not change (the blockstore cannot tell a relay's alteration from the leader's doing; the *node* still reports
    the conflict, because `try_new` answers `Equivocation` before the type is looked at: `node_conflict_reported`,
    whose statement is unchanged). Statement change forced by the fix: on the pinned gate the first clause held
    without the premise `typeOk` (`gateOld_conflict_reported`). -/
theorem gate_conflict_reported (g : Gate) (a b : VShred) (hg : g.misbehaved = false)
    (hidx : a.shred.header.sliceIdx = b.shred.header.sliceIdx) (hne : a.commitment ≠ b.commitment)
    (hpass : (g.add a).2 = .pass) :
    (b.shred.typeOk = true →
      ((g.add a).1.add b).2 = .equivocation ∧ (((g.add a).1.add b).1).misbehaved = true) ∧
    (b.shred.typeOk = false → (g.add a).1.add b = ((g.add a).1, .wrongType)) := by
  have hta := gate_pass_typeOk g a hg hpass
  have hm := (gate_pass_caches g a hg hpass).2
  refine ⟨fun htb => ?_, fun htb => gate_add_wrongType _ b hm htb⟩
  rw [gate_add_of_typeOk _ b hm htb]
  rw [gate_add_of_typeOk g a hg hta] at hpass ⊢
  exact gateOld_conflict_reported g a b hg hidx hne hpass

/-- **A correct leader is never flagged by the gate** (`honest_never_flagged`, gate part, at full strength since the
    D15 `fix:`): a validated shred that belongs to the leader's block — its commitment is the block's commitment for
    its slice, the last flag sits exactly on the last slice, no slice beyond it; *its data/coding type may have been
    flipped by whoever passed it on* — is answered `pass` (iff the type fits the index) or `WrongType`, never
    `Equivocation` / `InvalidShred`, and the gate stays consistent and unflagged. -/
theorem gate_honest_never_flagged (C : Nat → Commitment) (last : Option Nat) (g : Gate) (v : VShred)
    (hg : g.Consistent C last) (hv : v.FromBlock C last) :
    ((g.add v).2 = .pass ∨ (g.add v).2 = .wrongType) ∧ ((g.add v).2 = .pass ↔ v.shred.typeOk = true) ∧
      (g.add v).1.Consistent C last := by
  have hm : g.misbehaved = false := hg.1
  cases ht : v.shred.typeOk with
  | true =>
    rw [gate_add_of_typeOk g v hm ht]
    obtain ⟨h1, h2⟩ := gateOld_honest_never_flagged C last g v hg hv
    exact ⟨Or.inl h1, ⟨fun _ => rfl, fun _ => h1⟩, h2⟩
  | false =>
    rw [gate_add_wrongType g v hm ht]
    exact ⟨Or.inr rfl, ⟨(fun h => by cases h), (fun h => by cases h)⟩, hg⟩

/-- the blockstore's gate fed a whole sequence of validated shreds -/
def Gate.run (g : Gate) : List VShred → Gate × List GateVerdict
  | [] => (g, [])
  | v :: rest => ((g.add v).1.run rest).1 |> fun g' => (g', (g.add v).2 :: ((g.add v).1.run rest).2)

/-- **`honest_never_flagged` for every sequence** (any order, duplicates, relayed tag flips): validated shreds that
    all belong to one block of a correct leader never make the gate answer `Equivocation` or `InvalidShred`, and the
    leader ends unflagged. -/
theorem honest_never_flagged (C : Nat → Commitment) (last : Option Nat) (g : Gate) (vs : List VShred)
    (hg : g.Consistent C last) (hvs : ∀ v ∈ vs, v.FromBlock C last) :
    (∀ r ∈ (g.run vs).2, r = .pass ∨ r = .wrongType) ∧ (g.run vs).1.Consistent C last ∧
      (g.run vs).1.misbehaved = false := by
  induction vs generalizing g with
  | nil => exact ⟨by intro r hr; simp [Gate.run] at hr, hg, hg.1⟩
  | cons v rest ih =>
    obtain ⟨h1, _, h3⟩ := gate_honest_never_flagged C last g v hg (hvs v List.mem_cons_self)
    obtain ⟨i1, i2, i3⟩ := ih (g.add v).1 h3 (fun x hx => hvs x (List.mem_cons_of_mem _ hx))
    simp only [Gate.run]
    refine ⟨?_, i2, i3⟩
    intro r hr
    rcases List.mem_cons.mp hr with rfl | hr
    · exact h1
    · exact i1 r hr

/-- the commitment cache of the gate is sound for the leader key: entry by entry, `sigs` holds the leader's
    signature over the commitment `cache` holds for the same slice index -/
def sigsSound (pk : Nat) : List (Nat × Commitment) → List (Nat × Sig) → Prop
  | [], [] => True
  | c :: cs, σ :: σs => c.1 = σ.1 ∧ σ.2 = .signed pk c.2 ∧ sigsSound pk cs σs
  | _, _ => False

def Gate.SigSound (pk : Nat) (g : Gate) : Prop := sigsSound pk g.cache g.sigs

theorem sigsSound_find (pk : Nat) (cs : List (Nat × Commitment)) (σs : List (Nat × Sig)) (h : sigsSound pk cs σs)
    (idx : Nat) (c : Nat × Commitment) (hc : cs.find? (·.1 == idx) = some c) :
    ∃ σ, σs.find? (·.1 == idx) = some σ ∧ σ.2 = .signed pk c.2 := by
  induction cs generalizing σs with
  | nil => simp at hc
  | cons c0 cs ih =>
    cases σs with
    | nil => simp [sigsSound] at h
    | cons σ0 σs =>
      obtain ⟨h1, h2, h3⟩ := h
      by_cases hk : c0.1 = idx
      · have hk' : σ0.1 = idx := by rw [← h1]; exact hk
        simp only [List.find?_cons, hk, beq_self_eq_true, Option.some.injEq] at hc
        subst hc
        exact ⟨σ0, by simp [List.find?_cons, hk'], h2⟩
      · have hk' : ¬ σ0.1 = idx := by rw [← h1]; exact hk
        have hb : (c0.1 == idx) = false := by simpa using hk
        have hb' : (σ0.1 == idx) = false := by simpa using hk'
        simp only [List.find?_cons, hb] at hc
        obtain ⟨σ, hσ, hs⟩ := ih σs h3 hc
        exact ⟨σ, by simp only [List.find?_cons, hb']; exact hσ, hs⟩

/-- every entry `cached_commitment` hands to `try_new` is sound -/
theorem gate_entry_sound (pk : Nat) (g : Gate) (hg : g.SigSound pk) (idx : Nat) : CacheSound pk (g.cachedEntry idx) := by
  unfold Gate.cachedEntry Gate.cached
  cases hf : g.cache.find? (·.1 == idx) with
  | none => simp [CacheSound]
  | some c =>
    obtain ⟨σ, hσ, hs⟩ := sigsSound_find pk g.cache g.sigs hg idx c hf
    simp only [Option.map_some, CacheSound, Cached.Sound, hσ, Option.some.injEq]
    intro σ' h; rw [← h]; exact hs

/-- the gate keeps its cache sound when it is fed shreds that carry the leader's signature -/
theorem gate_add_sigsound (pk : Nat) (g : Gate) (v : VShred) (hg : g.SigSound pk) (hv : v.Signed pk) :
    (g.add v).1.SigSound pk := by
  have hcons : sigsSound pk ((v.shred.header.sliceIdx, v.commitment) :: g.cache) ((v.shred.header.sliceIdx, v.shred.sig) :: g.sigs) :=
    ⟨rfl, hv, hg⟩
  have key : ((g.add v).1.cache = g.cache ∧ (g.add v).1.sigs = g.sigs) ∨
      ((g.add v).1.cache = (v.shred.header.sliceIdx, v.commitment) :: g.cache ∧
        (g.add v).1.sigs = (v.shred.header.sliceIdx, v.shred.sig) :: g.sigs) := by
    unfold Gate.add
    split
    · simp
    · split
      · simp
      · unfold Gate.addOld
        dsimp only
        repeat' split
        all_goals simp
  unfold Gate.SigSound
  rcases key with ⟨h1, h2⟩ | ⟨h1, h2⟩
  · rw [h1, h2]; exact hg
  · rw [h1, h2]; exact hcons

/-- **The node only ever caches, stores and forwards shreds that carry the leader's signature** (D34 `fix:`):
    the soundness of the commitment cache is an invariant of `handle_disseminator_shred` (it holds for the empty
    blockstore), and whatever the handler accepts - with or without cache hit - is signed by the leader key over
    its own commitment. -/
theorem node_cache_sound (env : Env) (g : Gate) (s : Shred) (pk : Nat) (hg : g.SigSound pk) :
    (g.nodeHandle env s pk).SigSound pk ∧
    ∀ v, validate env s (g.cachedEntry s.header.sliceIdx) pk = .ok v → v.Signed pk := by
  have hs := gate_entry_sound pk g hg s.header.sliceIdx
  refine ⟨?_, fun v hv => (accepted_entry_sound env s pk _ hs v hv).1⟩
  unfold Gate.nodeHandle
  cases hv : validate env s (g.cachedEntry s.header.sliceIdx) pk with
  | ok v =>
    simp only
    split
    · exact hg
    · exact gate_add_sigsound pk g v hg (accepted_entry_sound env s pk _ hs v hv).1
  | error e => cases e <;> exact hg

theorem gate_empty_sigsound (pk : Nat) : ({} : Gate).SigSound pk := trivial

/-- **The node reports a conflicting signed commitment** (after the D16 `fix:`): when the blockstore already
    caches a commitment for the slice and a shred arrives that the leader key validly signed for a *different*
    commitment of that slot and slice, `handle_disseminator_shred` flags the leader (the snapshot dropped the
    `Equivocation` verdict of `try_new` silently, so at node level the conflict was never reported). -/
theorem node_conflict_reported (env : Env) (g : Gate) (s : Shred) (pk : Nat) (e : Cached)
    (hcons : s.indexConsumed = true)
    (hc : g.cachedEntry s.header.sliceIdx = some e) (hne : s.claimed env ≠ e.commitment)
    (hsig : s.sig = .signed pk (s.claimed env)) :
    (g.nodeHandle env s pk).misbehaved = true := by
  unfold Gate.nodeHandle
  have : validate env s (some e) pk = .error .equivocation := by
    unfold Shred.claimed at hne hsig
    unfold validate Sig.verify Cached.shortcuts
    simp [hcons, hsig, Ne.symm hne]
  rw [hc, this]

/-- a shred with a bad signature, or one that merely fails to match the cache without a valid signature, never
    changes the node's gate (so it cannot flag a correct leader) -/
theorem node_invalid_ignored (env : Env) (g : Gate) (s : Shred) (pk : Nat)
    (h : validate env s (g.cachedEntry s.header.sliceIdx) pk = .error .invalidSignature) :
    g.nodeHandle env s pk = g := by
  unfold Gate.nodeHandle; rw [h]

/-- **A genuine shred whose signature a relay replaced is ignored by the node, cache hit or not** (D34 `fix:`): it
    is neither stored nor does it touch the cache or the leader's standing. -/
theorem node_unsigned_ignored (env : Env) (g : Gate) (s : Shred) (pk : Nat) (hg : g.SigSound pk)
    (hsig : s.sig ≠ .signed pk (s.claimed env)) : g.nodeHandle env s pk = g :=
  node_invalid_ignored env g s pk (unsigned_rejected env s pk _ (gate_entry_sound pk g hg _) hsig)

/-! ### `honest_never_flagged` at node level, and what the node stores for a correct leader (D15 `fix:`) -/

/-- What a correct leader with key `pk` means for the shreds of one slot, in the symbolic signature model: every
    signature of `pk` that occurs on a shred is over a commitment of the leader's one block for the slot
    (commitment `C i` for slice `i`, the last flag exactly on the last slice `last`, no slice beyond it).
    Nothing is assumed about the rest of the shred: payload, index, path, type, header, other signatures. -/
def LeaderSignedOnly (pk : Nat) (C : Nat → Commitment) (last : Option Nat) (s : Shred) : Prop :=
  ∀ c, s.sig = .signed pk c →
    c = C c.sliceIdx ∧ (c.isLast = true ↔ last = some c.sliceIdx) ∧ (∀ l, last = some l → c.sliceIdx ≤ l)

/-- `handle_disseminator_shred` on a sequence of received shreds -/
def Gate.nodeRun (env : Env) (pk : Nat) (g : Gate) (ss : List Shred) : Gate :=
  ss.foldl (fun g s => g.nodeHandle env s pk) g

theorem gate_cachedEntry_commitment (C : Nat → Commitment) (last : Option Nat) (g : Gate) (hg : g.Consistent C last)
    (idx : Nat) (e : Cached) (he : g.cachedEntry idx = some e) : e.commitment = C idx := by
  unfold Gate.cachedEntry Gate.cached at he
  cases hf : g.cache.find? (·.1 == idx) with
  | none => simp [hf] at he
  | some p =>
    simp only [hf, Option.map_some, Option.some.injEq] at he
    have := hg.2.1 p (List.mem_of_find?_eq_some hf)
    have hk := List.find?_some hf
    simp only [beq_iff_eq] at hk
    rw [← he]; simp only; rw [this, hk]

/-- one step of `node_honest_never_flagged` -/
theorem node_honest_step (env : Env) (pk : Nat) (C : Nat → Commitment) (last : Option Nat) (g : Gate) (s : Shred)
    (hg : g.Consistent C last) (hsnd : g.SigSound pk) (hs : LeaderSignedOnly pk C last s) :
    (g.nodeHandle env s pk).Consistent C last ∧ (g.nodeHandle env s pk).SigSound pk := by
  refine ⟨?_, (node_cache_sound env g s pk hsnd).1⟩
  have hcs := gate_entry_sound pk g hsnd s.header.sliceIdx
  unfold Gate.nodeHandle
  cases hv : validate env s (g.cachedEntry s.header.sliceIdx) pk with
  | error e =>
    cases e with
    | invalidSignature => exact hg
    | equivocation =>
      -- impossible: the cached commitment and the claimed one are both the block's commitment for this slice
      exfalso
      obtain ⟨e, he, hne, hsig⟩ := equivocation_only_if_two_signed env s _ pk hv
      have h1 := (hs _ hsig).1
      have h2 := gate_cachedEntry_commitment C last g hg _ e he
      apply hne
      rw [h2, h1]; rfl
  | ok v =>
    simp only
    split
    · exact hg
    · obtain ⟨_, hsig, _, rfl⟩ := (accept_iff_signed env s pk _ hcs v).mp hv
      obtain ⟨h1, h2, h3⟩ := hs _ hsig
      have hfb : VShred.FromBlock C last ⟨s, s.sliceRoot env⟩ := ⟨h1, h2, h3⟩
      exact (gate_honest_never_flagged C last g _ hg hfb).2.2

/-- **No shred whatsoever can make a node report a correct leader** (the last clause of C12 at node level, for the
    part of `handle_disseminator_shred` the gate models): whatever sequence of shreds a node receives for a slot
    of a correct leader — genuine ones in any order with duplicates, shreds with altered payload / index / path /
    header / signature, replays from other slices, genuine shreds with the data/coding type flipped by a relay —
    the leader is never flagged and the commitment cache only ever holds the leader's commitments.
    (What happens to the stored shreds afterwards - reconstruction - is C13 `honest_never_flagged`, which applies
    because what is stored is the leader's own shred, type included: `gate_stores_leader_shred`.) -/
theorem node_honest_never_flagged (env : Env) (pk : Nat) (C : Nat → Commitment) (last : Option Nat) (g : Gate)
    (ss : List Shred) (hg : g.Consistent C last) (hsnd : g.SigSound pk)
    (hss : ∀ s ∈ ss, LeaderSignedOnly pk C last s) :
    (g.nodeRun env pk ss).Consistent C last ∧ (g.nodeRun env pk ss).misbehaved = false := by
  suffices h : (g.nodeRun env pk ss).Consistent C last ∧ (g.nodeRun env pk ss).SigSound pk from ⟨h.1, h.1.1⟩
  induction ss generalizing g with
  | nil => exact ⟨hg, hsnd⟩
  | cons s rest ih =>
    obtain ⟨h1, h2⟩ := node_honest_step env pk C last g s hg hsnd (hss s List.mem_cons_self)
    exact ih (g.nodeHandle env s pk) h1 h2 (fun x hx => hss x (List.mem_cons_of_mem _ hx))

/-- **What the blockstore stores for a correct leader's slice is the leader's own shred, type included** (D15
    `fix:`): if a shred validated (any sound cache state) under the leader's signature for a slice of the regular
    shredder passes the gate, it *is* the leader's shred at its index - `accepted_is_leader_shred_partial` without
    the exception for the data/coding type. At the level of `try_new` alone the exception remains
    (`tag_not_bound_witness`): the type is still not authenticated, it is the consumers that drop a wrong one. -/
theorem gate_stores_leader_shred (env : Env) (L : env.Laws) (sl : Slice) (sk : Nat) (key : Bytes)
    (s : Shred) (x : VShred) (cached : Option Cached) (hcache : CacheSound sk cached)
    (hsig : s.sig = .signed sk (commit sl.header (leaderTree env .regular sl key).root))
    (hok : validate env s cached sk = .ok x)
    (g : Gate) (hg : g.misbehaved = false) (hpass : (g.add x).2 = .pass) :
    (leaderOut env .regular sl sk key)[s.index]? = some x := by
  obtain ⟨hidx, l, hl, hs, hx⟩ := accepted_is_leader_shred_partial env L .regular sl sk key s x cached hcache hsig hok
  have ht := gate_pass_typeOk g x hg hpass
  obtain ⟨hroot, hli, _, hld, _, _, _⟩ := leaderOut_get env .regular sl sk key s.index l hl
  have hxs : x.shred = s := by rw [hx]
  have hdata : s.isData = l.shred.isData := by
    rw [hxs] at ht
    simp only [Shred.typeOk, beq_iff_eq] at ht
    rw [ht, hld]; rfl
  rw [hl]; congr 1
  rw [hx]
  cases l with
  | mk ls lr =>
    simp only at hs hroot hdata ⊢
    rw [hroot]
    congr 1
    rw [hs, hdata]

/-! ### what a node stores and serves carries the leader's signature (D34 `fix:`) -/

/-- a stored shred a repair peer accepts: `try_new(shred, None, leader_pk)` succeeds and returns it -/
def VShred.Valid (env : Env) (pk : Nat) (x : VShred) : Prop := validate env x.shred none pk = .ok x

/-- everything `try_new` accepts under a sound cache is also accepted without any cache (so: by a repair peer) -/
theorem accepted_valid_without_cache (env : Env) (s : Shred) (pk : Nat) (cached : Option Cached)
    (hs : CacheSound pk cached) (v : VShred) (h : validate env s cached pk = .ok v) : v.Valid env pk := by
  obtain ⟨h1, h2, _, rfl⟩ := (accept_iff_signed env s pk cached hs v).mp h
  exact (accept_iff_signed env s pk none trivial _).mpr ⟨h1, h2, (by intro e he; cases he), rfl⟩

theorem fillAux_mem (mk : Nat → Bytes → VShred) (k : Nat) (raws : List Bytes) (shreds : List (Option VShred))
    (y : VShred) (h : some y ∈ fillAux mk k raws shreds) :
    some y ∈ shreds ∨ ∃ i d, raws[i]? = some d ∧ y = mk (k + i) d := by
  induction raws generalizing k shreds with
  | nil => left; simpa [fillAux] using h
  | cons d ds ih =>
    cases shreds with
    | nil => simp [fillAux] at h
    | cons s ss =>
      simp only [fillAux, List.mem_cons] at h
      rcases h with h | h
      · cases s with
        | some x => left; simp only at h; rw [h]; exact List.mem_cons_self
        | none =>
          right; simp only [Option.some.injEq] at h
          exact ⟨0, d, by simp, by simpa using h⟩
      · rcases ih (k + 1) ss h with h | ⟨i, d', hi, hy⟩
        · left; exact List.mem_cons_of_mem _ h
        · right; exact ⟨i + 1, d', by simpa using hi, by rw [hy]; congr 1; omega⟩

/-- **Every shred a node holds after reconstructing a slice is one a repair peer accepts.** If each shred the
    blockstore stored for a slice passes `try_new(_, None, leader_pk)` (which everything ingested through the
    validated paths does since the D34 fix: `accepted_valid_without_cache`, `node_cache_sound`), then after a
    successful `Shredder::deshred` *every* shred of the array - the stored ones and the regenerated ones, which get
    the first stored shred's header and signature and the recomputed tree's proofs - passes it too. (On the pinned
    snapshot the premise failed for a junk-signature shred accepted on a cache hit, and so did the conclusion:
    `cache_skips_signature_old_witness`.) -/
theorem reconstructed_shreds_validate (env : Env) (v : Variant) (shreds : List (Option VShred)) (pk : Nat)
    (rs : RSlice) (out : List (Option VShred)) (h : deshred env v shreds = .ok (rs, out))
    (hvalid : ∀ x, some x ∈ shreds → x.Valid env pk) :
    ∀ y, some y ∈ out → y.Valid env pk := by
  unfold deshred at h
  split at h
  · cases h
  · split at h
    · cases h
    · cases h
    · split at h
      · cases h
      · rename_i pb raw _
        split at h
        · cases h
        · rename_i a ha
          simp only at h
          split at h
          · cases h
          · rename_i hroot
            split at h
            · cases h
            · split at h
              · cases h
              · rename_i out' hfill
                injection h with h
                injection h with _ hout
                subst hout
                have hroot : (buildTree env raw).root = a.root := by simpa using hroot
                unfold fillMissing at hfill
                split at hfill
                · cases hfill
                · rename_i hlen
                  have hlen : raw.data.length + raw.coding.length = 64 := by rw [← TOTAL_eq]; simpa using hlen
                  injection hfill with hfill
                  subst hfill
                  have ha_valid : a.Valid env pk := hvalid a (anyShred_mem _ _ ha)
                  obtain ⟨_, hasig, _, haeq⟩ := (accept_iff_signed env a.shred pk none trivial a).mp ha_valid
                  have haroot : a.root = a.shred.sliceRoot env := by
                    have := congrArg VShred.root haeq; simpa using this
                  intro y hy
                  rcases fillAux_mem _ _ _ _ _ hy with hy | ⟨i, d, hi, rfl⟩
                  · exact hvalid y hy
                  · -- a regenerated shred
                    have hi64 : i < (raw.data ++ raw.coding).length := (List.getElem?_eq_some_iff.mp hi).1
                    have hl : ((raw.data ++ raw.coding).map env.leafId).length = 64 := by simp [hlen]
                    have hc := complete ((raw.data ++ raw.coding).map env.leafId) i (by simpa using hi64)
                      (by rw [hl]; decide)
                    have hleaf : ((raw.data ++ raw.coding).map env.leafId).getD i 0 = env.leafId d := by
                      rw [List.getD_eq_getElem?_getD, List.getElem?_map, hi]; rfl
                    rw [hleaf] at hc
                    unfold checkProof checkHashProof at hc
                    simp only [Bool.and_eq_true, decide_eq_true_eq] at hc
                    obtain ⟨⟨_, hz⟩, hr⟩ := hc
                    rw [deriveRootIdx_snd] at hz
                    unfold VShred.Valid
                    refine (accept_iff_signed env _ pk none trivial _).mpr ⟨?_, ?_, (by intro e he; cases he), ?_⟩
                    · simp only [mkShred, Nat.zero_add, Shred.indexConsumed, decide_eq_true_eq]; exact hz
                    · simp only [mkShred, Nat.zero_add, Shred.claimed, Shred.sliceRoot, buildTree]
                      rw [hr, hasig]
                      simp only [Shred.claimed, ← haroot, ← hroot, buildTree]
                    · simp only [mkShred, Nat.zero_add, Shred.sliceRoot, buildTree]
                      rw [hr]

/-! ### the tag is not bound (defect D15) and non-vacuity -/

section Witness
open AgModel.Exec.ShredEnv

def wOut : List VShred := leaderOut toyEnv .regular exampleSlice 5 (keyOf 1)
def wS : Shred := (wOut.getD 3 default).shred
def wFlipped : Shred := { wS with isData := !wS.isData }

def okIs (r : Except VErr VShred) (x : VShred) : Bool :=
  match r with
  | .ok y => decide (y = x)
  | .error _ => false

def errIs (r : Except VErr VShred) (e : VErr) : Bool :=
  match r with
  | .ok _ => false
  | .error e' => decide (e' = e)

/-- **Witness of D15**: flipping the data/coding tag of a correct leader's shred still validates (with and
    without cache), and 32 validated shreds one of which carries a flipped tag make `deshred` fail with
    `InvalidLayout` — which the blockstore turns into `InvalidShred` and a flagged leader. Also non-vacuity:
    the unflipped shreds validate and reconstruct; a changed payload byte / slot / index is rejected. -/
theorem tag_not_bound_witness :
    okIs (validate toyEnv wS none 5) (wOut.getD 3 default) ∧
    okIs (validate toyEnv wFlipped none 5) ⟨wFlipped, (wOut.getD 3 default).root⟩ ∧
    okIs (validate toyEnv wFlipped (some (wOut.getD 40 default).cacheEntry) 99) ⟨wFlipped, (wOut.getD 3 default).root⟩ ∧
    deshred toyEnv .regular ((selectFrom (fun i => i < 32) 0 wOut).set 3 (some ⟨wFlipped, (wOut.getD 3 default).root⟩))
      = .err .invalidLayout ∧
    errIs (validate toyEnv { wS with data := wS.data.set 0 77 } none 5) .invalidSignature ∧
    errIs (validate toyEnv { wS with header := { wS.header with slot := 8 } } none 5) .invalidSignature ∧
    errIs (validate toyEnv { wS with index := 4 } none 5) .invalidSignature ∧
    errIs (validate toyEnv { wS with index := 4 } (some (wOut.getD 40 default).cacheEntry) 5) .invalidSignature ∧
    errIs (validate toyEnv wS none 6) .invalidSignature := by
  decide +kernel

/-- **Witness of the D15 repair at the gate**: the pinned gate (`Gate.addOld`) lets the tag-flipped, validated shred
    pass - it is cached and stored, and `deshred` then fails (`tag_not_bound_witness`) -; `Gate.add` answers
    `WrongType` and stays as it was, and the genuine shred at that index passes afterwards. -/
theorem tag_flip_gate_old_witness :
    (({} : Gate).addOld ⟨wFlipped, (wOut.getD 3 default).root⟩).2 = .pass ∧
    ({} : Gate).add ⟨wFlipped, (wOut.getD 3 default).root⟩ = ({}, .wrongType) ∧
    (({} : Gate).add (wOut.getD 3 default)).2 = .pass ∧
    (({} : Gate).nodeHandle toyEnv wFlipped 5) = {} ∧
    (({} : Gate).nodeHandle toyEnv wS 5).cached 3 = some (wOut.getD 3 default).commitment := by
  decide +kernel

/-! #### the index alias of short trees (defect D32, repaired) -/

/-- the first two shards of the example slice: the leaves of a two-leaf tree a (Byzantine) leader signs -/
def wLeaves2 : List Bytes := [(wOut.getD 0 default).shred.data, (wOut.getD 1 default).shred.data]
def wTree2 : Tree := Tree.new (wLeaves2.map toyEnv.leafId)
def wCommit2 : Commitment := commit wS.header wTree2.root
/-- the cache entry a validated shred of that slice seeds: the commitment with the leader's signature -/
def wEntry2 : Cached := ⟨wCommit2, some (.signed 5 wCommit2)⟩
/-- the genuine shred at position `i` of that two-leaf slice (1-hash path), signed by key 5 -/
def wShort (i : Nat) : Shred := ⟨true, wS.header, i, wLeaves2.getD i [], .signed 5 wCommit2, wTree2.createProof i⟩
/-- shred 0 relabelled as index `0 + k * 2` by a relay: same payload, same path, same derived root -/
def wAlias (k : Nat) : Shred := { wShort 0 with index := 2 * k }
/-- a one-leaf tree: the empty path -/
def wTree1 : Tree := Tree.new [toyEnv.leafId (wLeaves2.getD 0 [])]
def wOne (i : Nat) : Shred := ⟨true, wS.header, i, wLeaves2.getD 0 [], .signed 5 (commit wS.header wTree1.root), wTree1.createProof 0⟩

/-- **Witness of D32 and of its repair.** The pinned `try_new` (`validateOld`) accepts shred 0 of a signed
    two-leaf tree under the indices 2 and 62 as well (without cache under the leader key; with the slice's cached
    commitment under any key), and the single shred of a one-leaf tree under index 63. The repaired `try_new`
    answers `InvalidSignature` in each case, with and without cache - never `Equivocation` - and still accepts the
    genuine shreds 0 and 1 (and the one-leaf shred at index 0). Non-vacuity of `root_binds_position` for a tree of
    height 1: its hypotheses hold for the genuine shred. -/
theorem index_alias_old_witness :
    okIs (validateOld toyEnv (wAlias 1) none 5) ⟨wAlias 1, wTree2.root⟩ ∧
    okIs (validateOld toyEnv (wAlias 31) none 5) ⟨wAlias 31, wTree2.root⟩ ∧
    okIs (validateOld toyEnv (wAlias 1) (some wCommit2) 99) ⟨wAlias 1, wTree2.root⟩ ∧
    okIs (validateOld toyEnv (wOne 63) none 5) ⟨wOne 63, wTree1.root⟩ ∧
    errIs (validate toyEnv (wAlias 1) none 5) .invalidSignature ∧
    errIs (validate toyEnv (wAlias 31) none 5) .invalidSignature ∧
    errIs (validate toyEnv (wAlias 1) (some wEntry2) 5) .invalidSignature ∧
    errIs (validate toyEnv (wAlias 1) (some (wOut.getD 40 default).cacheEntry) 5) .invalidSignature ∧
    errIs (validate toyEnv (wOne 63) none 5) .invalidSignature ∧
    errIs (validate toyEnv (wOne 1) (some ⟨commit wS.header wTree1.root, some (.signed 5 (commit wS.header wTree1.root))⟩) 5) .invalidSignature ∧
    okIs (validate toyEnv (wShort 0) none 5) ⟨wShort 0, wTree2.root⟩ ∧
    okIs (validate toyEnv (wShort 1) none 5) ⟨wShort 1, wTree2.root⟩ ∧
    okIs (validate toyEnv (wShort 1) (some wEntry2) 99) ⟨wShort 1, wTree2.root⟩ ∧
    okIs (validate toyEnv (wOne 0) none 5) ⟨wOne 0, wTree1.root⟩ ∧
    errIs (validate toyEnv (wShort 1) (some (wOut.getD 40 default).cacheEntry) 5) .equivocation ∧
    ((wShort 1).indexConsumed = true ∧ (wShort 1).sliceRoot toyEnv = (Tree.new (wLeaves2.map toyEnv.leafId)).root ∧
      wLeaves2 ≠ [] ∧ wTree2.height = 1) := by
  decide +kernel

/-! #### the cache hit skipped the signature (defect D34, repaired) -/

/-- a genuine shred of the correct leader whose signature bytes a relay replaced -/
def wJunk (i : Nat) : Shred := { (wOut.getD i default).shred with sig := .junk 7 }
/-- the same with a valid signature of *another* key over the very same commitment -/
def wForeign : Shred := { wS with sig := .signed 6 (wOut.getD 3 default).commitment }
/-- 32 shreds (indices 0..31) of the slice, the one at index 0 carrying the junk signature -/
def wStored : List (Option VShred) :=
  (selectFrom (fun i => i < 32) 0 wOut).set 0 (some ⟨wJunk 0, (wOut.getD 0 default).root⟩)
/-- the signature of shred `j` in the array `deshred` leaves behind -/
def sigAfter (j : Nat) : Option Sig :=
  match deshred toyEnv .regular wStored with
  | .ok (_, out) => (out.getD j none).map (·.shred.sig)
  | _ => none

/-- **Witness of D34 and of its repair.** Pinned `try_new` (`validateCacheOld`): once the slice's commitment is
    cached, shred 3 with a garbage signature is accepted - under any key - although the same shred is refused without
    cache (what a repair peer does); stored at index 0 it is the shred `deshred` copies the signature from, so that
    every regenerated shred (e.g. 40, 63) carries the garbage. Repaired `try_new`: `InvalidSignature` with the cache
    hit (never `Equivocation`, also for a valid signature of a foreign key over the same commitment); a genuine shred
    still takes the shortcut without its key being looked at; an entry that remembers no signature never shortcuts. -/
theorem cache_skips_signature_old_witness :
    okIs (validateCacheOld toyEnv (wJunk 3) (some (wOut.getD 40 default).commitment) 5) ⟨wJunk 3, (wOut.getD 3 default).root⟩ ∧
    okIs (validateCacheOld toyEnv (wJunk 3) (some (wOut.getD 40 default).commitment) 99) ⟨wJunk 3, (wOut.getD 3 default).root⟩ ∧
    errIs (validateCacheOld toyEnv (wJunk 3) none 5) .invalidSignature ∧
    sigAfter 40 = some (.junk 7) ∧ sigAfter 63 = some (.junk 7) ∧ sigAfter 5 = some (wOut.getD 5 default).shred.sig ∧
    errIs (validate toyEnv (wJunk 3) (some (wOut.getD 40 default).cacheEntry) 5) .invalidSignature ∧
    errIs (validate toyEnv (wJunk 3) none 5) .invalidSignature ∧
    errIs (validate toyEnv wForeign (some (wOut.getD 40 default).cacheEntry) 5) .invalidSignature ∧
    okIs (validate toyEnv wForeign (some (wOut.getD 40 default).cacheEntry) 6) ⟨wForeign, (wOut.getD 3 default).root⟩ ∧
    okIs (validate toyEnv wS (some (wOut.getD 40 default).cacheEntry) 99) (wOut.getD 3 default) ∧
    errIs (validate toyEnv wS (some ⟨(wOut.getD 40 default).commitment, none⟩) 99) .invalidSignature ∧
    okIs (validate toyEnv wS (some ⟨(wOut.getD 40 default).commitment, none⟩) 5) (wOut.getD 3 default) := by
  decide +kernel

end Witness

end AgModel.Shred
