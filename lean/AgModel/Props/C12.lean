import AgModel.Gen.Consts
import AgModel.Proofs.Shred
import AgModel.Model.ShredGate
import AgModel.Props.C15
import AgModel.Props.C11
import AgModel.Exec.ShredEnv
/-!
# C12 — Shreds are bound to leader, slot, slice and position; equivocation is detected

Statements about `AgModel.Shred.validate` (`ValidatedShred::try_new`), the leader's output
(`leaderOut`, see `Props/C11.lean`) and the equivocation gate of the blockstore (`Model/ShredGate.lean`).
Ed25519 is symbolic (`Sig.signed key commitment`; a correct leader's key signs only what the leader
signs), SHA-256 is the free term algebra of `Model/Merkle.lean`, shard bytes ↦ leaf id is injective
(`Env.Laws.leafId_inj`).
-/
namespace AgModel.Shred
open AgModel.Pad AgModel.Merkle

/-- the commitment a shred claims: its header fields and the root derived from payload, index and path -/
def Shred.claimed (env : Env) (s : Shred) : Commitment := commit s.header (s.sliceRoot env)

/-- `try_new` is the pinned `try_new` behind the index guard -/
theorem validate_of_consumed (env : Env) (s : Shred) (cached : Option Commitment) (pk : Nat)
    (h : s.indexConsumed = true) : validate env s cached pk = validateOld env s cached pk := by
  unfold validate; simp [h]

/-- **An index the Merkle path does not consume is rejected** (D32 `fix:`), with or without cached commitment,
    whatever the signature: never accepted and never reported as equivocation of the leader. -/
theorem index_not_consumed_rejected (env : Env) (s : Shred) (cached : Option Commitment) (pk : Nat)
    (h : s.indexConsumed = false) : validate env s cached pk = .error .invalidSignature := by
  unfold validate; simp [h]

/-- whatever is accepted has an index inside the width `2 ^ path length` of the tree its path describes -/
theorem accepted_index_consumed (env : Env) (s : Shred) (cached : Option Commitment) (pk : Nat) (x : VShred)
    (h : validate env s cached pk = .ok x) : s.indexConsumed = true ∧ s.index < 2 ^ s.path.length := by
  cases hc : s.indexConsumed with
  | false => rw [index_not_consumed_rejected env s cached pk hc] at h; cases h
  | true =>
    refine ⟨rfl, ?_⟩
    simp only [Shred.indexConsumed, decide_eq_true_eq] at hc
    exact (Nat.div_eq_zero_iff_lt (Nat.two_pow_pos _)).mp hc

/-- **Accepted only if the leader signed exactly this slot, slice index, last flag and root.** Without a
    cached commitment a shred is accepted iff its index is consumed by its path and its signature is the leader
    key's signature over exactly (slot, slice index, last-slice flag, root derived from its payload, index and path). -/
theorem accept_iff_signed (env : Env) (s : Shred) (pk : Nat) (v : VShred) :
    validate env s none pk = .ok v ↔
      (s.indexConsumed = true ∧ s.sig = .signed pk (s.claimed env) ∧ v = ⟨s, s.sliceRoot env⟩) := by
  cases hc : s.indexConsumed with
  | false => rw [index_not_consumed_rejected env s none pk hc]; simp
  | true =>
    rw [validate_of_consumed env s none pk hc]
    unfold validateOld Sig.verify Shred.claimed
    by_cases h : s.sig = .signed pk (commit s.header (s.sliceRoot env))
    · simp only [h, decide_true, if_true, Except.ok.injEq, true_and]; exact eq_comm
    · simp [h]

/-- **A cached commitment only ever shortcuts verification of an identical commitment**: with a cached
    commitment `c` a shred (whose index its path consumes - otherwise `index_not_consumed_rejected`) is accepted
    iff the commitment it claims *is* `c` (then the signature is not looked at); otherwise the verdict is
    `Equivocation` iff the leader key signed the claimed commitment (two different validly signed commitments),
    and `InvalidSignature` iff it did not — never acceptance. -/
theorem cache_only_identical (env : Env) (s : Shred) (c : Commitment) (pk : Nat) (hcons : s.indexConsumed = true) :
    (s.claimed env = c → validate env s (some c) pk = .ok ⟨s, s.sliceRoot env⟩) ∧
    (s.claimed env ≠ c → s.sig = .signed pk (s.claimed env) → validate env s (some c) pk = .error .equivocation) ∧
    (s.claimed env ≠ c → s.sig ≠ .signed pk (s.claimed env) → validate env s (some c) pk = .error .invalidSignature) := by
  rw [validate_of_consumed env s (some c) pk hcons]
  unfold validateOld Sig.verify Shred.claimed
  refine ⟨?_, ?_, ?_⟩
  · intro h; simp [h]
  · intro h1 h2; simp [h2, Ne.symm h1]
  · intro h1 h2; simp [h2, Ne.symm h1]

/-- **Equivocation is reported only for two different commitments both signed by the leader key**: a correct
    leader (whose key signs one commitment per slot and slice) is never reported by `try_new`. -/
theorem equivocation_only_if_two_signed (env : Env) (s : Shred) (cached : Option Commitment) (pk : Nat)
    (h : validate env s cached pk = .error .equivocation) :
    ∃ c, cached = some c ∧ c ≠ s.claimed env ∧ s.sig = .signed pk (s.claimed env) := by
  cases hc : s.indexConsumed with
  | false => rw [index_not_consumed_rejected env s cached pk hc] at h; cases h
  | true =>
    rw [validate_of_consumed env s cached pk hc] at h
    unfold validateOld Sig.verify Shred.claimed at *
    cases cached with
    | none => simp only at h; split at h <;> simp at h
    | some c =>
      refine ⟨c, rfl, ?_⟩
      simp only at h
      split at h
      · simp at h
      · rename_i hne
        split at h
        · rename_i hs; exact ⟨hne, by simpa using hs⟩
        · simp at h

/-- **Replay / header mutation is rejected**: a signature of the leader over commitment `c` makes a shred
    acceptable only for exactly `c`'s slot, slice index, last flag and root. Altering any of them (or
    replaying the shred under another slot / slice / position, which changes the derived root or the header)
    gives `InvalidSignature` — with or without a cached commitment, unless the claimed commitment is the cached one. -/
theorem replay_rejected (env : Env) (s : Shred) (pk : Nat) (c : Commitment) (cached : Option Commitment)
    (hsig : s.sig = .signed pk c)
    (hmut : s.header.slot ≠ c.slot ∨ s.header.sliceIdx ≠ c.sliceIdx ∨ s.header.isLast ≠ c.isLast ∨ s.sliceRoot env ≠ c.root)
    (hcache : cached ≠ some (s.claimed env)) :
    validate env s cached pk = .error .invalidSignature := by
  cases hc : s.indexConsumed with
  | false => exact index_not_consumed_rejected env s cached pk hc
  | true =>
    rw [validate_of_consumed env s cached pk hc]
    have hne : Sig.signed pk c ≠ .signed pk (commit s.header (s.sliceRoot env)) := by
      intro h
      injection h with _ h
      subst h
      simp [commit] at hmut
    unfold validateOld Sig.verify
    cases cached with
    | none => simp [hsig, hne]
    | some c' =>
      have : c' ≠ commit s.header (s.sliceRoot env) := by
        intro h; apply hcache; rw [h]; rfl
      simp [hsig, hne, this]

/-! ### binding to the position inside the signed tree -/

/-- **The payload at the shred index is proven under the signed root - for a tree of every height.** Let the root
    a shred derives be the root of *any* Merkle tree (`leaves`: 1 .. 2^32 shards, whatever a leader may sign: 64
    as the shredders do, 2, 65, …). If the shred's path consumes its index (which `try_new` demands since the
    D32 fix: `accepted_index_consumed`), then the path has exactly the tree's height, the index lies inside the
    tree's width, the payload is the leaf at that very index (the empty padding leaf beyond the real leaves) and,
    for an index below the number of leaves, payload and path are exactly the shard and the proof the tree creates
    for that index. So a shred cannot be relabelled `j ↦ j + k * 2^h`, a path element / the path length / a payload
    byte cannot be altered, without changing the derived root. (On the pinned snapshot this held only when the tree
    had height 6: `index_alias_old_witness`.) -/
theorem root_binds_position (env : Env) (L : env.Laws) (leaves : List Bytes) (hne : leaves ≠ [])
    (hn : leaves.length ≤ 2 ^ 32) (s : Shred) (hcons : s.indexConsumed = true)
    (hroot : s.sliceRoot env = (Tree.new (leaves.map env.leafId)).root) :
    s.path.length = (Tree.new (leaves.map env.leafId)).height ∧
    s.index < 2 ^ (Tree.new (leaves.map env.leafId)).height ∧
    env.leafId s.data = (leaves.map env.leafId).getD s.index 0 ∧
    (∀ hi : s.index < leaves.length,
      s.data = leaves[s.index] ∧ s.path = (Tree.new (leaves.map env.leafId)).createProof s.index) := by
  have hne' : leaves.map env.leafId ≠ [] := by simpa using hne
  have hn' : (leaves.map env.leafId).length ≤ 2 ^ 32 := by simpa using hn
  -- the derivation reaches the root of the perfect tree over the padded leaves
  have hr : (deriveRootIdx (.leaf (env.leafId s.data)) s.index s.path).1
      = specG 0 (Tree.new (leaves.map env.leafId)).height ((leaves.map env.leafId).map H.leaf) := by
    rw [← new_eq_spec _ hne', ← hroot]; rfl
  obtain ⟨hplen, _⟩ := derive_sound _ _
    (by intro y hy; simp at hy; obtain ⟨a, _, rfl⟩ := hy; trivial) (.leaf (env.leafId s.data)) trivial s.index s.path hr
  have hh : (Tree.new (leaves.map env.leafId)).height ≤ 32 := by
    rw [new_def]; exact WF.height_le _ 32 hn'
  -- hence `check_proof` (index exhausted, length bound, root) holds, and C15 soundness / uniqueness apply
  have hc1 : checkProof (env.leafId s.data) s.index (Tree.new (leaves.map env.leafId)).root s.path = true := by
    unfold checkProof checkHashProof
    simp only [Bool.and_eq_true, decide_eq_true_eq]
    refine ⟨⟨?_, ?_⟩, by rw [← hroot]; rfl⟩
    · rw [hplen]; have : maxHeight = 32 := by decide
      omega
    · rw [deriveRootIdx_snd]; simpa [Shred.indexConsumed] using hcons
  obtain ⟨h1, h2, h3⟩ := sound _ hne' _ _ _ hc1
  refine ⟨h1, h2, h3, ?_⟩
  intro hi
  have hi' : s.index < (leaves.map env.leafId).length := by simpa using hi
  have hdata : s.data = leaves[s.index] := by
    simp [List.getD_eq_getElem?_getD, List.getElem?_map, List.getElem?_eq_getElem hi] at h3
    exact L.leafId_inj _ _ h3
  have hc2 := complete (leaves.map env.leafId) s.index hi' hn'
  obtain ⟨_, hpath⟩ := proof_unique _ hne' _ _ _ _ _ hc1 hc2
  exact ⟨hdata, hpath⟩

/-- the same for a correct leader's slice (any of the four shredders: 64 shards, height 6): a shred whose path
    consumes its index and that derives the leader's root *is*, in payload and path, the leader's shred at that
    index - and the index is below 64 (no longer a hypothesis: the bound of the wire format is not needed). -/
theorem root_binds_leader_position (env : Env) (L : env.Laws) (v : Variant) (sl : Slice) (sk : Nat) (key : Bytes)
    (s : Shred) (hcons : s.indexConsumed = true) (hroot : s.sliceRoot env = (leaderTree env v sl key).root) :
    s.index < TOTAL ∧
    ∃ l, (leaderOut env v sl sk key)[s.index]? = some l ∧ s.data = l.shred.data ∧ s.path = l.shred.path := by
  have hlen := rawsOf_length env (coderPayload env v key (payloadBytes sl.parent sl.data)) v.nData L (nData_le v)
  generalize hraws : rawsOf env (coderPayload env v key (payloadBytes sl.parent sl.data)) v.nData = raws at *
  have hT : leaderTree env v sl key = Tree.new (raws.map env.leafId) := by unfold leaderTree; rw [hraws]
  have hne : raws ≠ [] := by
    intro h; have := congrArg List.length h; simp [hlen] at this
  rw [hT] at hroot
  obtain ⟨_, h2, _, h4⟩ := root_binds_position env L raws hne (by rw [hlen]; decide) s hcons hroot
  -- the height of a 64-leaf tree is at most 6
  have hh : (Tree.new (raws.map env.leafId)).height ≤ 6 := by
    rw [new_def]; exact WF.height_le _ 6 (by rw [List.length_map, hlen]; decide)
  have hidx : s.index < 64 := by
    have : 2 ^ (Tree.new (raws.map env.leafId)).height ≤ 2 ^ 6 := Nat.pow_le_pow_right (by decide) hh
    omega
  have hi : s.index < raws.length := by omega
  obtain ⟨hdata, hpath⟩ := h4 hi
  refine ⟨by rw [TOTAL_eq]; exact hidx, mkShred sl.header v.nData (leaderTree env v sl key) (.signed sk (commit sl.header (leaderTree env v sl key).root)) s.index raws[s.index], ?_, ?_, ?_⟩
  · unfold leaderOut
    rw [hraws, mkAll_getElem?, List.getElem?_eq_getElem hi]; simp
  · simp [mkShred, hdata]
  · simp [mkShred, hpath, hT]

/-- **Mutations of a valid shred are rejected** (single-field and combined): whatever is accepted — without
    cache, or with the slice's cached commitment — under a correct leader's key and that leader's signature for
    the slice is the leader's own shred at that index: same slot, slice index, last flag, payload bytes and
    Merkle path, at an index below 64 (a conclusion since the D32 fix, not a hypothesis). Only the data/coding tag
    may differ (defect D15). Full statement (fails only for the tag): `… → s = l.shred`. -/
theorem accepted_is_leader_shred_partial (env : Env) (L : env.Laws) (v : Variant) (sl : Slice) (sk : Nat) (key : Bytes)
    (s : Shred) (x : VShred)
    (cached : Option Commitment) (hcache : cached = none ∨ cached = some (commit sl.header (leaderTree env v sl key).root))
    (hsig : s.sig = .signed sk (commit sl.header (leaderTree env v sl key).root))
    (hok : validate env s cached sk = .ok x) :
    s.index < TOTAL ∧
    ∃ l, (leaderOut env v sl sk key)[s.index]? = some l ∧ s = { l.shred with isData := s.isData } ∧
      x = ⟨s, (leaderTree env v sl key).root⟩ := by
  obtain ⟨hcons, _⟩ := accepted_index_consumed env s cached sk x hok
  have hclaim : s.claimed env = commit sl.header (leaderTree env v sl key).root ∧ x = ⟨s, s.sliceRoot env⟩ := by
    rcases hcache with rfl | rfl
    · obtain ⟨_, h1, h2⟩ := (accept_iff_signed env s sk x).mp hok
      rw [hsig] at h1
      injection h1 with _ h1
      exact ⟨h1.symm, h2⟩
    · by_cases hc : s.claimed env = commit sl.header (leaderTree env v sl key).root
      · have := (cache_only_identical env s _ sk hcons).1 hc
        rw [this] at hok
        injection hok with hok
        exact ⟨hc, hok.symm⟩
      · have := (replay_rejected env s sk _ (some (commit sl.header (leaderTree env v sl key).root)) hsig
          (by
            unfold Shred.claimed commit at hc
            by_cases h1 : s.header.slot = sl.header.slot
            · by_cases h2 : s.header.sliceIdx = sl.header.sliceIdx
              · by_cases h3 : s.header.isLast = sl.header.isLast
                · right; right; right
                  intro h4; apply hc; simp [h1, h2, h3, h4, commit]
                · right; right; left; simpa [commit] using h3
              · right; left; simpa [commit] using h2
            · left; simpa [commit] using h1)
          (by intro h; injection h with h; exact hc h.symm))
        rw [this] at hok; cases hok
  obtain ⟨hc, hx⟩ := hclaim
  unfold Shred.claimed commit at hc
  injection hc with h1 h2 h3 h4
  obtain ⟨hidx, l, hl, hd, hp⟩ := root_binds_leader_position env L v sl sk key s hcons h4
  obtain ⟨_, hli, hlh, _, hls, _, _⟩ := leaderOut_get env v sl sk key s.index l hl
  refine ⟨hidx, l, hl, ?_, by rw [hx, h4]⟩
  have hhdr : s.header = sl.header := by
    cases hs : s.header; cases hsl : sl.header
    simp only [hs, hsl] at h1 h2 h3
    simp [h1, h2, h3]
  cases s; cases l with
  | mk ls lr =>
    cases ls
    simp_all

/-! ### the blockstore's equivocation gate -/

/-- a shred that passes the gate leaves its commitment in the cache and the leader unflagged -/
theorem gate_pass_caches (g : Gate) (a : VShred) (hg : g.misbehaved = false) (hpass : (g.add a).2 = .pass) :
    (g.add a).1.cached a.shred.header.sliceIdx = some a.commitment ∧ (g.add a).1.misbehaved = false := by
  unfold Gate.add at hpass ⊢
  simp only [hg, Bool.false_eq_true, if_false] at hpass ⊢
  cases hc : g.cached a.shred.header.sliceIdx with
  | some c =>
    simp only [hc] at hpass ⊢
    by_cases hca : c = a.commitment
    · subst hca
      simp only [ne_eq, not_true_eq_false, if_false] at hpass ⊢
      cases hl : g.lastSlice with
      | none =>
        cases hb : a.shred.header.isLast with
        | false => simp_all [Gate.cached]
        | true =>
          cases hany : g.cache.any (fun e => decide (e.1 > a.shred.header.sliceIdx)) with
          | true => simp [hl, hb, hany] at hpass
          | false => simp_all [Gate.cached]
      | some l =>
        simp only [hl] at hpass ⊢
        split at hpass <;> simp_all [Gate.cached]
    · simp [hca] at hpass
  | none =>
    simp only [hc] at hpass ⊢
    cases hl : g.lastSlice with
    | none =>
      cases hb : a.shred.header.isLast with
      | false => simp_all [Gate.cached]
      | true =>
        cases hany : ((a.shred.header.sliceIdx, a.commitment) :: g.cache).any (fun e => decide (e.1 > a.shred.header.sliceIdx)) with
        | true => simp [hl, hb, hany] at hpass
        | false => simp [hl, hb, hany, hg, Gate.cached]
    | some l =>
      simp only [hl] at hpass ⊢
      split at hpass <;> simp_all [Gate.cached]

/-- **Two different commitments for one slot and slice are reported in both arrival orders**: whichever of two
    validated shreds with the same slice index and different commitments reaches an unflagged block data first,
    the other one is answered with `Equivocation` and the leader is flagged. -/
theorem gate_conflict_reported (g : Gate) (a b : VShred) (hg : g.misbehaved = false)
    (hidx : a.shred.header.sliceIdx = b.shred.header.sliceIdx) (hne : a.commitment ≠ b.commitment)
    (hpass : (g.add a).2 = .pass) :
    ((g.add a).1.add b).2 = .equivocation ∧ (((g.add a).1.add b).1).misbehaved = true := by
  obtain ⟨h1, h2⟩ := gate_pass_caches g a hg hpass
  generalize (g.add a).1 = g' at *
  unfold Gate.add
  rw [hidx] at h1
  simp [h2, h1, hne]

/-- the gate invariant under shreds of one consistent block: commitments given by `C`, last slice `last`;
    (since the D2 fix) no cached slice index lies beyond the block's last slice -/
def Gate.Consistent (C : Nat → Commitment) (last : Option Nat) (g : Gate) : Prop :=
  g.misbehaved = false ∧ (∀ p ∈ g.cache, p.2 = C p.1) ∧ (g.lastSlice = none ∨ g.lastSlice = last) ∧
  (∀ p ∈ g.cache, ∀ l, last = some l → p.1 ≤ l)

/-- a validated shred of a block whose slices have commitments `C` and whose last slice is `last` -/
def VShred.FromBlock (C : Nat → Commitment) (last : Option Nat) (v : VShred) : Prop :=
  v.commitment = C v.shred.header.sliceIdx ∧
  (v.shred.header.isLast = true ↔ last = some v.shred.header.sliceIdx) ∧
  (∀ l, last = some l → v.shred.header.sliceIdx ≤ l)

/-- the empty gate is consistent with every block (the induction starts here) -/
theorem gate_empty_consistent (C : Nat → Commitment) (last : Option Nat) : ({} : Gate).Consistent C last :=
  by unfold Gate.Consistent; simp

/-- **A correct leader is never flagged by the gate** (`honest_never_flagged`, gate part): no sequence of
    validated shreds that all belong to one block — one commitment per slice index, the last flag exactly on
    the last slice, no slice beyond it — makes `add_shred` answer `Equivocation` or `InvalidShred`, in any
    arrival order and with any duplicates. `_partial`: what happens *after* the gate is C13; on the unchanged
    tree a relayed tag flip (D15) makes the later reconstruction fail and flags the correct leader. -/
theorem gate_honest_never_flagged_partial (C : Nat → Commitment) (last : Option Nat) (g : Gate) (v : VShred)
    (hg : g.Consistent C last) (hv : v.FromBlock C last) :
    (g.add v).2 = .pass ∧ (g.add v).1.Consistent C last := by
  obtain ⟨hm, hcache, hlast, hbound⟩ := hg
  obtain ⟨hc, hl1, hl2⟩ := hv
  have hfind : ∀ c, g.cached v.shred.header.sliceIdx = some c → c = v.commitment := by
    intro c h
    unfold Gate.cached at h
    cases hf : g.cache.find? (·.1 == v.shred.header.sliceIdx) with
    | none => simp [hf] at h
    | some p =>
      simp only [hf, Option.map_some, Option.some.injEq] at h
      have := hcache p (List.mem_of_find?_eq_some hf)
      have hk := List.find?_some hf
      simp only [beq_iff_eq] at hk
      rw [← h, this, hk, hc]
  -- the last-slice check always succeeds
  have hlastok : ∀ l, g.lastSlice = some l →
      ((decide (v.shred.header.sliceIdx < l) && !v.shred.header.isLast) || (v.shred.header.sliceIdx == l && v.shred.header.isLast)) = true := by
    intro l hgl
    have hll : last = some l := by rcases hlast with h | h <;> simp_all
    have hle := hl2 l hll
    by_cases he : v.shred.header.sliceIdx = l
    · have : v.shred.header.isLast = true := hl1.mpr (by rw [hll, he])
      simp [he, this]
    · have hnl : v.shred.header.isLast = false := by
        cases hb : v.shred.header.isLast with
        | false => rfl
        | true => have := hl1.mp hb; rw [hll] at this; injection this with this; exact absurd this.symm he
      have : v.shred.header.sliceIdx < l := by omega
      simp [hnl, this]
  have hlastnew : v.shred.header.isLast = true → some v.shred.header.sliceIdx = last := fun hb => (hl1.mp hb).symm
  have hcache' : ∀ p ∈ (v.shred.header.sliceIdx, v.commitment) :: g.cache, p.2 = C p.1 := by
    intro p hp
    rcases List.mem_cons.mp hp with rfl | hp
    · exact hc
    · exact hcache p hp
  have hbound' : ∀ p ∈ (v.shred.header.sliceIdx, v.commitment) :: g.cache, ∀ l, last = some l → p.1 ≤ l := by
    intro p hp l hl
    rcases List.mem_cons.mp hp with rfl | hp
    · exact hl2 l hl
    · exact hbound p hp l hl
  -- when the shred declares the last slice, nothing cached lies beyond it
  have hnobeyond : v.shred.header.isLast = true →
      g.cache.any (fun e => decide (e.1 > v.shred.header.sliceIdx)) = false := by
    intro hb
    rw [List.any_eq_false]
    intro p hp
    have := hbound p hp _ (hl1.mp hb)
    simp; omega
  have hnobeyond' : v.shred.header.isLast = true →
      ((v.shred.header.sliceIdx, v.commitment) :: g.cache).any (fun e => decide (e.1 > v.shred.header.sliceIdx)) = false := by
    intro hb
    rw [List.any_cons, hnobeyond hb]; simp
  unfold Gate.Consistent Gate.add
  simp only [hm, Bool.false_eq_true, if_false]
  cases hcd : g.cached v.shred.header.sliceIdx with
  | some c =>
    have := hfind c hcd
    subst this
    cases hgl : g.lastSlice with
    | none =>
      cases hb : v.shred.header.isLast with
      | true =>
        have := hnobeyond hb
        simp [this, hlastnew hb]
        exact ⟨fun a b h => hcache (a, b) h, fun a b h l hl => hbound (a, b) h l hl⟩
      | false =>
        simp [hm, hgl]
        exact ⟨fun a b h => hcache (a, b) h, fun a b h l hl => hbound (a, b) h l hl⟩
    | some l =>
      have := hlastok l hgl
      simp [hm, hgl, this]
      exact ⟨fun a b h => hcache (a, b) h, by simpa [hgl] using hlast, fun a b h l hl => hbound (a, b) h l hl⟩
  | none =>
    cases hgl : g.lastSlice with
    | none =>
      cases hb : v.shred.header.isLast with
      | true =>
        have := hnobeyond' hb
        simp [this, hlastnew hb]
        exact ⟨⟨hc, fun a b h => hcache (a, b) h⟩, hl2, fun a b h l hl => hbound (a, b) h l hl⟩
      | false =>
        simp [hm, hgl]
        exact ⟨⟨hc, fun a b h => hcache (a, b) h⟩, hl2, fun a b h l hl => hbound (a, b) h l hl⟩
    | some l =>
      have := hlastok l hgl
      simp [hm, hgl, this]
      exact ⟨⟨hc, fun a b h => hcache (a, b) h⟩, by simpa [hgl] using hlast, hl2, fun a b h l hl => hbound (a, b) h l hl⟩

/-- **The node reports a conflicting signed commitment** (after the D16 `fix:`): when the blockstore already
    caches a commitment for the slice and a shred arrives that the leader key validly signed for a *different*
    commitment of that slot and slice, `handle_disseminator_shred` flags the leader (the snapshot dropped the
    `Equivocation` verdict of `try_new` silently, so at node level the conflict was never reported). -/
theorem node_conflict_reported (env : Env) (g : Gate) (s : Shred) (pk : Nat) (c : Commitment)
    (hcons : s.indexConsumed = true)
    (hc : g.cached s.header.sliceIdx = some c) (hne : s.claimed env ≠ c) (hsig : s.sig = .signed pk (s.claimed env)) :
    (g.nodeHandle env s pk).misbehaved = true := by
  unfold Gate.nodeHandle
  rw [hc, (cache_only_identical env s c pk hcons).2.1 hne hsig]

/-- a shred with a bad signature, or one that merely fails to match the cache without a valid signature, never
    changes the node's gate (so it cannot flag a correct leader) -/
theorem node_invalid_ignored (env : Env) (g : Gate) (s : Shred) (pk : Nat)
    (h : validate env s (g.cached s.header.sliceIdx) pk = .error .invalidSignature) :
    g.nodeHandle env s pk = g := by
  unfold Gate.nodeHandle; rw [h]

/-! ### the tag is not bound (defect D15) and non-vacuity -/

section Witness
open AgModel.Exec.ShredEnv

def wOut : List VShred := leaderOut toyEnv .regular exampleSlice 5 (keyOf 1)
def wS : Shred := (wOut.getD 3 default).shred
def wFlipped : Shred := { wS with isData := !wS.isData }

def okIs (r : Except VErr VShred) (x : VShred) : Bool :=
  match r with
  | .ok y => decide (y = x)
  | .error _ => false

def errIs (r : Except VErr VShred) (e : VErr) : Bool :=
  match r with
  | .ok _ => false
  | .error e' => decide (e' = e)

/-- **Witness of D15**: flipping the data/coding tag of a correct leader's shred still validates (with and
    without cache), and 32 validated shreds one of which carries a flipped tag make `deshred` fail with
    `InvalidLayout` — which the blockstore turns into `InvalidShred` and a flagged leader. Also non-vacuity:
    the unflipped shreds validate and reconstruct; a changed payload byte / slot / index is rejected. -/
theorem tag_not_bound_witness :
    okIs (validate toyEnv wS none 5) (wOut.getD 3 default) ∧
    okIs (validate toyEnv wFlipped none 5) ⟨wFlipped, (wOut.getD 3 default).root⟩ ∧
    okIs (validate toyEnv wFlipped (some (wOut.getD 40 default).commitment) 99) ⟨wFlipped, (wOut.getD 3 default).root⟩ ∧
    deshred toyEnv .regular ((selectFrom (fun i => i < 32) 0 wOut).set 3 (some ⟨wFlipped, (wOut.getD 3 default).root⟩))
      = .err .invalidLayout ∧
    errIs (validate toyEnv { wS with data := wS.data.set 0 77 } none 5) .invalidSignature ∧
    errIs (validate toyEnv { wS with header := { wS.header with slot := 8 } } none 5) .invalidSignature ∧
    errIs (validate toyEnv { wS with index := 4 } none 5) .invalidSignature ∧
    errIs (validate toyEnv { wS with index := 4 } (some (wOut.getD 40 default).commitment) 5) .invalidSignature ∧
    errIs (validate toyEnv wS none 6) .invalidSignature := by
  decide +kernel

/-! #### the index alias of short trees (defect D32, repaired) -/

/-- the first two shards of the example slice: the leaves of a two-leaf tree a (Byzantine) leader signs -/
def wLeaves2 : List Bytes := [(wOut.getD 0 default).shred.data, (wOut.getD 1 default).shred.data]
def wTree2 : Tree := Tree.new (wLeaves2.map toyEnv.leafId)
def wCommit2 : Commitment := commit wS.header wTree2.root
/-- the genuine shred at position `i` of that two-leaf slice (1-hash path), signed by key 5 -/
def wShort (i : Nat) : Shred := ⟨true, wS.header, i, wLeaves2.getD i [], .signed 5 wCommit2, wTree2.createProof i⟩
/-- shred 0 relabelled as index `0 + k * 2` by a relay: same payload, same path, same derived root -/
def wAlias (k : Nat) : Shred := { wShort 0 with index := 2 * k }
/-- a one-leaf tree: the empty path -/
def wTree1 : Tree := Tree.new [toyEnv.leafId (wLeaves2.getD 0 [])]
def wOne (i : Nat) : Shred := ⟨true, wS.header, i, wLeaves2.getD 0 [], .signed 5 (commit wS.header wTree1.root), wTree1.createProof 0⟩

/-- **Witness of D32 and of its repair.** The pinned `try_new` (`validateOld`) accepts shred 0 of a signed
    two-leaf tree under the indices 2 and 62 as well (without cache under the leader key; with the slice's cached
    commitment under any key), and the single shred of a one-leaf tree under index 63. The repaired `try_new`
    answers `InvalidSignature` in each case, with and without cache - never `Equivocation` - and still accepts the
    genuine shreds 0 and 1 (and the one-leaf shred at index 0). Non-vacuity of `root_binds_position` for a tree of
    height 1: its hypotheses hold for the genuine shred. -/
theorem index_alias_old_witness :
    okIs (validateOld toyEnv (wAlias 1) none 5) ⟨wAlias 1, wTree2.root⟩ ∧
    okIs (validateOld toyEnv (wAlias 31) none 5) ⟨wAlias 31, wTree2.root⟩ ∧
    okIs (validateOld toyEnv (wAlias 1) (some wCommit2) 99) ⟨wAlias 1, wTree2.root⟩ ∧
    okIs (validateOld toyEnv (wOne 63) none 5) ⟨wOne 63, wTree1.root⟩ ∧
    errIs (validate toyEnv (wAlias 1) none 5) .invalidSignature ∧
    errIs (validate toyEnv (wAlias 31) none 5) .invalidSignature ∧
    errIs (validate toyEnv (wAlias 1) (some wCommit2) 5) .invalidSignature ∧
    errIs (validate toyEnv (wAlias 1) (some (wOut.getD 40 default).commitment) 5) .invalidSignature ∧
    errIs (validate toyEnv (wOne 63) none 5) .invalidSignature ∧
    errIs (validate toyEnv (wOne 1) (some (commit wS.header wTree1.root)) 5) .invalidSignature ∧
    okIs (validate toyEnv (wShort 0) none 5) ⟨wShort 0, wTree2.root⟩ ∧
    okIs (validate toyEnv (wShort 1) none 5) ⟨wShort 1, wTree2.root⟩ ∧
    okIs (validate toyEnv (wShort 1) (some wCommit2) 99) ⟨wShort 1, wTree2.root⟩ ∧
    okIs (validate toyEnv (wOne 0) none 5) ⟨wOne 0, wTree1.root⟩ ∧
    errIs (validate toyEnv (wShort 1) (some (wOut.getD 40 default).commitment) 5) .equivocation ∧
    ((wShort 1).indexConsumed = true ∧ (wShort 1).sliceRoot toyEnv = (Tree.new (wLeaves2.map toyEnv.leafId)).root ∧
      wLeaves2 ≠ [] ∧ wTree2.height = 1) := by
  decide +kernel

end Witness

end AgModel.Shred
