import AgModel.Props.C01
import AgModel.Props.C01Cluster
import AgModel.Props.C02
import AgModel.Props.C02Cluster
import AgModel.Props.C03
import AgModel.Props.C03Pool
import AgModel.Props.C04
import AgModel.Props.C05
import AgModel.Props.C06
import AgModel.Props.C07
import AgModel.Props.C08
import AgModel.Props.C08Pool
import AgModel.Props.C09
import AgModel.Props.C10
import AgModel.Props.C10Cluster
import AgModel.Props.C11
import AgModel.Props.C12
import AgModel.Props.C13
import AgModel.Props.C14
import AgModel.Props.C14Live
import AgModel.Props.C15
import AgModel.Props.C16
import AgModel.Props.C17
import AgModel.Props.C18
import AgModel.Props.C19
import AgModel.Props.C20
/-! All property modules in one import: the 20 developments are one coherent library (no clashing names, one
    model of each component). Built by `setup.sh` (`lake build AgModel`). -/
