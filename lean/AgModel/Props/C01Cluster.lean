import AgModel.Props.C01
import AgModel.Props.C05
import AgModel.Proofs.ClusterStake
import AgModel.Proofs.ClusterReady
import AgModel.Proofs.ClusterDec
/-!
# C01 — refinement: a cluster of executable model nodes produces a history that obeys the voting rules

`Spec/Cluster.lean` defines a cluster of `n` composed model nodes (`PoolImpl` ∘ queue ∘ `Votor`, one per validator) driven
by an adversarial network (`Valid`: unforgeability + "the hash binds the parent" are the only restrictions), the derived
global history `histOf` and block tree `chainOf`. This file connects the two halves of C01 — **all stages are theorems**:

* **stage 1** (`cluster_one_notar`, `cluster_notar_no_skip`, and the vote-local half of `cluster_fin_rule`): R1 and the
  vote-local part of R2, from the C05 theorems, for every correct node of every valid run;
* **stage 2** (`cluster_certs_sound`): every certificate held by any pool of the cluster is a certificate of the
  derived history (thresholds of `Spec/Protocol.lean`, signers' votes in the history);
* **stage 3** (`cluster_fin_rule`, `cluster_nf_rule`, `cluster_sf_rule`, `cluster_notar_rule_partial` + `ready_justified`):
  R2's certificate clause, R3, R4, and R5. R5 for the first slot of a leader window is first proved relative to
  `ReadyJustified` (every `ParentReady` event a correct Votor handled was for a certified parent with skip-certified slots in
  between; the `…_partial` theorems), and `ready_justified` then discharges that premise by induction along the run: the
  implementation also derives `ParentReady` from finalizations (implicitly finalized parents, implicitly skipped slots), which
  is justified only through the safety theorems applied to the *prefix* of the run (`Proofs/SpecLog.lean`) and because
  Byzantine stake counts as signed in `histOf` (finding 1 at the end of this file);
* **stage 4** (`cluster_rules`, `cluster_setting`, `cluster_agreement`, `cluster_logs_one_chain`,
  `cluster_tracker_logs_one_chain`): all rules R1–R5 for every correct validator of every valid run; hence
  (`Props/C01.lean`) the blocks that the pools / finality trackers of *any* two nodes report finalized are on one chain.

Crashed validators are correct validators whose nodes receive no further events. The statements hold after every run, hence
after every prefix: "never".
-/
namespace AgModel.Cluster
open AgModel AgModel.Node AgModel.NodePanic AgModel.Pool AgModel.Spec

/-! ## what is known about one correct node of a valid run -/

/-- the facts about node `v` used below: its Votor state is reachable (`es`), its log is the log of `es`, the composed-node
    premises of C05 hold for its projection, and the node invariant holds -/
structure NodeFacts (c : Cfg) (evs : List Ev) (v : ℕ) where
  es : List Votor.Event
  hlog : (run (init c) evs v).votor.log = Votor.log es
  hrun : run (init c) evs v = nodeRun { pool := { epoch := c.epoch v } } (proj v evs)
  hown : OwnVotesFromVotor (c.epoch v).own { pool := { epoch := c.epoch v } } [] (proj v evs) = true
  ninv : NInv (sigOf c (run (init c) evs)) (c.epoch v) c.parentOf (run (init c) evs v)

theorem nodeFacts (c : Cfg) (evs : List Ev) (hv : Valid c (init c) evs) (hpos : 0 < c.stakes.sum) (v : ℕ)
    (hc : c.correct v = true) : Nonempty (NodeFacts c evs v) := by
  obtain ⟨hrun, hown⟩ := node_of_valid c v hc evs hv
  have i0 : VInv ({ pool := { epoch := c.epoch v } } : Node) := ⟨⟨[], by simp, rfl⟩, by intro x hx; simp at hx⟩
  obtain ⟨es, _, hes⟩ := (nodeRun_inv (proj v evs) _ i0).hist
  refine ⟨⟨es, ?_, hrun, hown, (CInv.init c).run hpos evs hv v⟩⟩
  rw [hrun, hes]; rfl

theorem pos_of_byz (c : Cfg) (hb : 5 * w (stakeFn c) (byz c) < total (stakeFn c)) : 0 < c.stakes.sum := by
  rw [← total_eq]; omega

section
variable (c : Cfg) (evs : List Ev) (v : Fin c.n) (F : NodeFacts c evs v.val) (hc : c.correct v.val = true)

local notation "S" => run (init c) evs
local notation "H" => histOf c (run (init c) evs)
local notation "C" => chainOf c

include F hc

/-- a log item of a correct node that is a vote is not for slot 0, unless it is the finalize vote -/
theorem no_slot_zero (x : Votor.Item) (hx : x ∈ (S v.val).votor.log) (hs : x.voteSlot = some 0) : x = .out (.final 0) := by
  rw [F.hlog] at hx
  exact Votor.no_vote_in_slot_zero F.es x hx hs

/-! ## stage 1: R1 -/

/-- **R1 (one notarization vote per slot)** -/
theorem cluster_one_notar (b b' : Blk) (h1 : (H).notar v b) (h2 : (H).notar v b') (hs : (C).slot b = (C).slot b') : b = b' := by
  have hs' : b.slot = b'.slot := hs
  rcases h1 hc with rfl | ⟨ps, ph, m1⟩
  · exact (b'.eq_genesis_of_slot hs'.symm).symm
  · rcases h2 hc with rfl | ⟨ps', ph', m2⟩
    · exact b.eq_genesis_of_slot hs'
    · rw [F.hlog] at m1 m2
      have := Votor.initial_vote_unique F.es b.slot _ _ m1 m2 (by simp [Votor.Item.isInit]) (by simp [Votor.Item.isInit, hs'])
      simp only [Votor.Item.out.injEq, Votor.Out.notar.injEq] at this
      exact Blk.ext' this.1 this.2.1

/-- **R1 (never notarize and skip the same slot)** -/
theorem cluster_notar_no_skip (b : Blk) (h1 : (H).notar v b) : ¬ (H).skip v ((C).slot b) := by
  intro h2
  have m2 := h2 hc
  rcases h1 hc with rfl | ⟨ps, ph, m1⟩
  · have := no_slot_zero c evs v F hc _ m2 rfl
    cases this
  · rw [F.hlog] at m1 m2
    have := Votor.initial_vote_unique F.es b.slot _ _ m1 m2 (by simp [Votor.Item.isInit]) (by
      show Votor.Item.isInit b.slot (.out (.skip b.slot)) = true
      simp [Votor.Item.isInit])
    cases this

/-! ## stage 3: R2 (with its certificate clause), R3, R4 -/

/-- a certificate event in the log of a correct Votor is a certificate of the history -/
theorem cert_event_on_hist (k : Votor.CertKind) (t h : ℕ) (hm : Votor.Item.ev (.cert k t h) ∈ (S v.val).votor.log) :
    ∃ x : Cert, certKind x.kind = k ∧ x.slot = t ∧ x.hash = h ∧ CertOn c (H) x.kind x.slot x.hash := by
  obtain ⟨x, a, b, d, hb⟩ := F.ninv.log _ hm
  exact ⟨x, a, b, d, certOn_of_backed c _ v.val x hb⟩

/-- **R2**: a finalize vote only for the own, certificate-notarized block; never with a skip or fallback vote -/
theorem cluster_fin_rule (t : ℕ) (hf : (H).fin v t) :
    (∃ b, (C).slot b = t ∧ (H).notar v b ∧ NotarCert (stakeFn c) (H) b) ∧ ¬ (H).skip v t ∧ ¬ (H).sf v t ∧
      ∀ x, (C).slot x = t → ¬ (H).nf v x := by
  have mf := hf hc
  rw [F.hlog] at mf
  obtain ⟨a, b, hab⟩ := List.append_of_mem mf
  obtain ⟨h, hn, hcert⟩ := Votor.final_only_for_notarized_own_block F.es a b t hab
  have hsub : ∀ y ∈ b, y ∈ (S v.val).votor.log := by intro y hy; rw [F.hlog, hab]; simp [hy]
  obtain ⟨n1, n2, n3⟩ := Votor.no_final_in_bad_slot F.es t mf
  refine ⟨⟨Blk.mk' t h, Blk.mk'_slot t h, ?_, ?_⟩, ?_, ?_, ?_⟩
  · intro _
    by_cases h0 : t = 0
    · left; rw [h0, Blk.mk'_zero]
    · right
      rcases hn with ⟨e0, _⟩ | ⟨ps, ph, hm⟩
      · exact absurd e0 h0
      · rw [Blk.mk'_slot, Blk.mk'_hash _ _ h0]; exact ⟨ps, ph, hsub _ hm⟩
  · by_cases h0 : t = 0
    · rw [h0, Blk.mk'_zero]; exact notarCert_genesis c _
    · rcases hcert with ⟨e0, _⟩ | hm
      · exact absurd e0 h0
      · obtain ⟨x, hk, hsl, hh, hon⟩ := cert_event_on_hist c evs v F hc _ _ _ (hsub _ hm)
        have hkn : x.kind = .notar := by cases hx : x.kind <;> simp [hx, certKind] at hk ⊢
        rw [hkn, hsl, hh] at hon
        exact hon
  · intro hsk; exact n1 (by rw [← F.hlog]; exact hsk hc)
  · intro hsf; exact n2 (by rw [← F.hlog]; exact hsf hc)
  · intro x hx hnf
    have := hnf hc
    rw [show x.slot = t from hx, F.hlog] at this
    exact n3 _ this

/-- the parent of a block in the chain, when the registered parent is certified -/
theorem certified_parent (x : Blk) (hcs : CertifiedS (sigOf c (S)) (c.epoch v.val) (c.parentOf (x.slot, x.hash))) :
    Certified (stakeFn c) (C) (H) ((C).parent x) := by
  show Certified (stakeFn c) (C) (H) (parentBlk c x)
  unfold parentBlk
  split
  · exact Or.inl rfl
  · split
    · obtain ⟨y, hst, hid, hb⟩ := hcs
      have hon := certOn_of_backed c _ v.val y hb
      have h1 : y.slot = (c.parentOf (x.slot, x.hash)).1 := congrArg Prod.fst hid
      have h2 : y.hash = (c.parentOf (x.slot, x.hash)).2 := congrArg Prod.snd hid
      rw [← h1, ← h2]
      right
      unfold CertOn at hon
      rcases hst with hk | hk | hk <;> simp only [hk] at hon
      · exact nfCert_of_notarCert _ _ _ hon
      · exact hon
      · exact nfCert_of_notarCert _ _ _ (notarCert_of_ffCert _ _ _ hon)
    · exact Or.inl rfl

/-- **R3**: a notar-fallback vote only when safe-to-notar held on the history -/
theorem cluster_nf_rule (x : Blk) (hnf : (H).nf v x) :
    (Weak (notarW (stakeFn c) (H) x) (total (stakeFn c)) ∨
      (Weakest (notarW (stakeFn c) (H) x) (total (stakeFn c)) ∧
        Q (w (stakeFn c) (fun u => (H).notar u x ∨ (H).skip u ((C).slot x))) (total (stakeFn c)))) ∧
    Certified (stakeFn c) (C) (H) ((C).parent x) ∧ ¬ (H).notar v x := by
  have mf := hnf hc
  have h0 : x.slot ≠ 0 := by
    intro e0
    have := no_slot_zero c evs v F hc _ mf (by rw [e0]; rfl)
    cases this
  have mf' := mf
  rw [F.hlog] at mf'
  obtain ⟨a, b, hab⟩ := List.append_of_mem mf'
  obtain ⟨rest, hb⟩ := (Votor.fallback_only_after_condition F.es a b x.slot).1 x.hash hab
  have hev : Votor.Item.ev (.safeToNotar x.slot x.hash) ∈ (S v.val).votor.log := by
    rw [F.hlog, hab, hb]; simp
  obtain ⟨⟨st, hsl, iv, qv, hcond⟩, hpar⟩ := F.ninv.log _ hev
  refine ⟨?_, certified_parent c evs v F hc x hpar, ?_⟩
  · have := s2n_stake_on_hist c _ v.val st x.hash (by rw [hsl]; exact h0) iv qv hcond.1
    rw [hsl, Blk.mk'_self] at this
    exact this
  · intro hn
    rcases hn hc with rfl | ⟨ps, ph, hm⟩
    · exact h0 rfl
    · rw [F.hrun] at mf hm
      exact node_fallback_not_for_own_block (c.epoch v.val) (proj v.val evs) F.hown x.slot x.hash x.hash ps ph mf hm rfl

/-- **R4**: a skip-fallback vote only when safe-to-skip held on the history -/
theorem cluster_sf_rule (t : ℕ) (hsf : (H).sf v t) (cb : Blk) (hcb : (C).slot cb = t) :
    Weak (w (stakeFn c) (fun u => (H).skip u t ∨ ∃ x, (C).slot x = t ∧ x ≠ cb ∧ (H).notar u x)) (total (stakeFn c)) := by
  have mf := hsf hc
  have h0 : t ≠ 0 := by
    intro e0
    have := no_slot_zero c evs v F hc _ mf (by rw [e0]; rfl)
    cases this
  rw [F.hlog] at mf
  obtain ⟨a, b, hab⟩ := List.append_of_mem mf
  obtain ⟨rest, hb⟩ := (Votor.fallback_only_after_condition F.es a b t).2 hab
  have hev : Votor.Item.ev (.safeToSkip t) ∈ (S v.val).votor.log := by
    rw [F.hlog, hab, hb]; simp
  obtain ⟨st, hsl, iv, qv, hcond⟩ := F.ninv.log _ hev
  have := s2s_stake_on_hist c _ v.val st (by rw [hsl]; exact h0) iv qv hcond.1 cb (by rw [hsl]; exact hcb)
  rw [hsl] at this
  exact this

/-! ## R5 -/

/-- the premise for the first slot of a leader window: every `ParentReady(w, (ps, ph))` event this Votor handled was for a
    parent in an earlier slot that is certified on the history, with every slot in between skip-certified -/
def ReadyJustifiedAt (c : Cfg) (evs : List Ev) (v : Fin c.n) : Prop :=
  ∀ w ps ph, Votor.Item.ev (.parentReady w ps ph) ∈ (run (init c) evs v.val).votor.log →
    ps < w ∧ Certified (stakeFn c) (chainOf c) (histOf c (run (init c) evs)) (Blk.mk' ps ph) ∧
    ∀ t, ps < t → t < w → SkipCert (stakeFn c) (histOf c (run (init c) evs)) t

/-- **R5** — inside a leader window in full (the node notarized the parent itself, in the preceding slot); for the first
    slot of a window relative to `ReadyJustifiedAt` -/
theorem cluster_notar_rule_partial (hr : ReadyJustifiedAt c evs v) (x : Blk) (hn : (H).notar v x) (hx : x ≠ (C).genesis) :
    (windowStart ((C).slot x) → Certified (stakeFn c) (C) (H) ((C).parent x) ∧
        ∀ t, (C).slot ((C).parent x) < t → t < (C).slot x → SkipCert (stakeFn c) (H) t) ∧
    (¬ windowStart ((C).slot x) → (H).notar v ((C).parent x) ∧ (C).slot ((C).parent x) + 1 = (C).slot x) := by
  have h0 : x.slot ≠ 0 := fun e0 => hx (x.eq_genesis_of_slot e0)
  rcases hn hc with rfl | ⟨ps, ph, hm⟩
  · exact absurd rfl hx
  · rw [F.hlog] at hm
    obtain ⟨a, b, hab⟩ := List.append_of_mem hm
    obtain ⟨hblk, hpar⟩ := Votor.notar_parent_ok F.es a b x.slot x.hash ps ph hab
    have hsub : ∀ y ∈ b, y ∈ (S v.val).votor.log := by intro y hy; rw [F.hlog, hab]; simp [hy]
    have hpo : c.parentOf (x.slot, x.hash) = (ps, ph) := F.ninv.log _ (hsub _ hblk)
    have hparent : ps < x.slot → (C).parent x = Blk.mk' ps ph := by
      intro hlt
      show parentBlk c x = _
      unfold parentBlk
      rw [if_neg h0, hpo, if_pos hlt]
    constructor
    · intro hw
      have hw' : x.slot % Votor.W = 0 := hw
      rw [if_pos hw'] at hpar
      obtain ⟨hlt, hcert, hskip⟩ := hr _ _ _ (hsub _ hpar)
      rw [hparent hlt]
      refine ⟨hcert, ?_⟩
      intro t ht1 ht2
      exact hskip t (by rw [show (C).slot (Blk.mk' ps ph) = ps from Blk.mk'_slot ps ph] at ht1; exact ht1) ht2
    · intro hw
      have hw' : ¬ x.slot % Votor.W = 0 := hw
      rw [if_neg hw'] at hpar
      obtain ⟨hs1, hor⟩ := hpar
      rw [hparent (by omega)]
      refine ⟨?_, by rw [show (C).slot (Blk.mk' ps ph) = ps from Blk.mk'_slot ps ph]; exact hs1⟩
      intro _
      by_cases hp0 : ps = 0
      · left; rw [hp0, Blk.mk'_zero]
      · right
        rcases hor with ⟨e0, _⟩ | ⟨ps', ph', hm'⟩
        · exact absurd e0 hp0
        · rw [Blk.mk'_slot, Blk.mk'_hash _ _ hp0]; exact ⟨ps', ph', hsub _ hm'⟩

/-! ## stage 4 -/

/-- **All voting rules** for a correct validator of a valid run — `_partial`: R5 for the first slot of a leader window is
    relative to `ReadyJustifiedAt` -/
theorem cluster_rules_at (hr : ReadyJustifiedAt c evs v) : Rules (stakeFn c) (C) (H) v where
  one_notar := cluster_one_notar c evs v F hc
  notar_no_skip := cluster_notar_no_skip c evs v F hc
  fin_rule := cluster_fin_rule c evs v F hc
  nf_rule := cluster_nf_rule c evs v F hc
  sf_rule := fun t hsf cb hcb => cluster_sf_rule c evs v F hc t hsf cb hcb
  notar_rule := cluster_notar_rule_partial c evs v F hc hr

end

/-! ## the cluster-level statements -/

/-- every `ParentReady` event handled by a correct Votor was justified (see `ReadyJustifiedAt`) -/
def ReadyJustified (c : Cfg) (evs : List Ev) : Prop := ∀ v : Fin c.n, c.correct v.val = true → ReadyJustifiedAt c evs v

/-- **Stage 2: every certificate held by a pool of the cluster is a certificate of the derived history** — for every node
    (correct or not: pools only store what was delivered), every slot state, every held certificate: it is of the kind and
    slot of the field that holds it, and the stake of the validators whose votes *in the history* it certifies meets the
    threshold of `Spec/Protocol.lean`. -/
theorem cluster_certs_sound (c : Cfg) (evs : List Ev) (hv : Valid c (init c) evs) (hpos : 0 < c.stakes.sum)
    (i sl : ℕ) (st : SlotState) (hg : (run (init c) evs i).pool.getSlot sl = some st) :
    (∀ x, st.cNotar = some x → x.slot = sl ∧ NotarCert (stakeFn c) (histOf c (run (init c) evs)) (Blk.mk' sl x.hash)) ∧
    (∀ x, x ∈ st.cNf → x.slot = sl ∧ NFCert (stakeFn c) (histOf c (run (init c) evs)) (Blk.mk' sl x.hash)) ∧
    (∀ x, st.cSkip = some x → SkipCert (stakeFn c) (histOf c (run (init c) evs)) sl) ∧
    (∀ x, st.cFf = some x → x.slot = sl ∧ FastFinalCert (stakeFn c) (histOf c (run (init c) evs)) (Blk.mk' sl x.hash)) ∧
    (∀ x, st.cFin = some x → FinalCert (stakeFn c) (histOf c (run (init c) evs)) sl) := by
  have hq : QC (sigOf c (run (init c) evs)) (c.epoch i) st := (((CInv.init c).run hpos evs hv i).pool.slots.2 sl st hg).2.2
  have hsl := getSlot_slot hg
  refine ⟨?_, ?_, ?_, ?_, ?_⟩
  · intro x hx
    obtain ⟨hk, hs, hb⟩ := hq.notar x hx
    have := certOn_of_backed c _ i x hb
    rw [hk, hs, hsl] at this
    exact ⟨hs.trans hsl, this⟩
  · intro x hx
    obtain ⟨hk, hs, hb⟩ := hq.nf x hx
    have := certOn_of_backed c _ i x hb
    rw [hk, hs, hsl] at this
    exact ⟨hs.trans hsl, this⟩
  · intro x hx
    obtain ⟨hk, hs, hb⟩ := hq.skip x hx
    have := certOn_of_backed c _ i x hb
    rw [hk, hs, hsl] at this
    exact this
  · intro x hx
    obtain ⟨hk, hs, hb⟩ := hq.ff x hx
    have := certOn_of_backed c _ i x hb
    rw [hk, hs, hsl] at this
    exact ⟨hs.trans hsl, this⟩
  · intro x hx
    obtain ⟨hk, hs, hb⟩ := hq.fin x hx
    have := certOn_of_backed c _ i x hb
    rw [hk, hs, hsl] at this
    exact this

/-- **`cluster_rules`** — `_partial` (relative to `ReadyJustified`): in every valid run of the cluster, the derived history
    satisfies all voting rules R1–R5 for every correct validator. -/
theorem cluster_rules_partial (c : Cfg) (evs : List Ev) (hv : Valid c (init c) evs) (hpos : 0 < c.stakes.sum)
    (hr : ReadyJustified c evs) (v : Fin c.n) (hc : c.correct v.val = true) :
    Rules (stakeFn c) (chainOf c) (histOf c (run (init c) evs)) v := by
  obtain ⟨F⟩ := nodeFacts c evs hv hpos v.val hc
  exact cluster_rules_at c evs v F hc (hr v hc)

/-- the hypotheses of the protocol-level safety theorems hold for the derived history of every valid run -/
theorem cluster_setting_partial (c : Cfg) (evs : List Ev) (hv : Valid c (init c) evs)
    (hb : 5 * w (stakeFn c) (byz c) < total (stakeFn c)) (hr : ReadyJustified c evs) :
    Setting (stakeFn c) (chainOf c) (histOf c (run (init c) evs)) (byz c) where
  byz_bound := hb
  rules := fun v hn => cluster_rules_partial c evs hv (pos_of_byz c hb) hr v (by
    unfold byz at hn
    cases hcv : c.correct v.val
    · exact absurd hcv hn
    · rfl)

/-- a block a pool reports as finalized is finalized on the derived history -/
theorem finalizedAt_of_pool (c : Cfg) (evs : List Ev) (hv : Valid c (init c) evs) (hpos : 0 < c.stakes.sum) (i : ℕ) (b : Blk)
    (hf : PoolFinalized (run (init c) evs) i b) :
    FinalizedAt (stakeFn c) (chainOf c) (histOf c (run (init c) evs)) b := by
  obtain ⟨st, hg, hor⟩ := hf
  obtain ⟨h1, _, _, h4, h5⟩ := cluster_certs_sound c evs hv hpos i b.slot st hg
  rcases hor with ⟨x, hx, hh⟩ | ⟨hfin, x, hx, hh⟩
  · left
    have := (h4 x hx).2
    rw [hh, Blk.mk'_self] at this
    exact this
  · right
    cases hfc : st.cFin with
    | none => rw [hfc] at hfin; cases hfin
    | some y =>
      refine ⟨h5 y hfc, ?_⟩
      have := (h1 x hx).2
      rw [hh, Blk.mk'_self] at this
      exact this

/-- **`cluster_agreement`** — `_partial` (relative to `ReadyJustified`): with less than 20 % Byzantine stake, in every valid
    run of the cluster — every delivery order, delay, loss, duplication; every vote and certificate the Byzantine validators
    can sign; equivocating leaders — if the pools of two nodes `i`, `j` report blocks `b`, `b'` as finalized (directly: a
    fast-finalization certificate, or a finalization certificate together with a notarization certificate), then `b` and
    `b'` are on one chain; if they are in the same slot they are equal; and no pool of the cluster holds a skip certificate
    for the slot of a block some pool reports finalized. -/
theorem cluster_agreement_partial (c : Cfg) (evs : List Ev) (hv : Valid c (init c) evs)
    (hb : 5 * w (stakeFn c) (byz c) < total (stakeFn c)) (hr : ReadyJustified c evs)
    (i j : ℕ) (b b' : Blk) (hf : PoolFinalized (run (init c) evs) i b) (hf' : PoolFinalized (run (init c) evs) j b') :
    (Anc (chainOf c) b b' ∨ Anc (chainOf c) b' b) ∧ (b.slot = b'.slot → b = b') ∧
    (∀ k st, (run (init c) evs k).pool.getSlot b.slot = some st → st.cSkip = none) := by
  have hS := cluster_setting_partial c evs hv hb hr
  have hpos := pos_of_byz c hb
  have f1 := finalizedAt_of_pool c evs hv hpos i b hf
  have f2 := finalizedAt_of_pool c evs hv hpos j b' hf'
  refine ⟨agreement hS b b' f1 f2, fun hs => (slot_unique hS b' b hs f2 f1), ?_⟩
  intro k st hg
  cases hsk : st.cSkip with
  | none => rfl
  | some x =>
    exfalso
    exact finalized_not_skipped hS b f1 ((cluster_certs_sound c evs hv hpos k b.slot st hg).2.2.1 x hsk)

/-! ## discharging `ReadyJustified`: induction along the run -/

theorem snoc_induction {α : Type} (P : List α → Prop) (h0 : P []) (hs : ∀ l a, P l → P (l ++ [a])) : ∀ l, P l := by
  have : ∀ l : List α, P l.reverse := by
    intro l
    induction l with
    | nil => exact h0
    | cons a t ih => rw [List.reverse_cons]; exact hs _ a ih
  intro l
  have := this l.reverse
  rwa [List.reverse_reverse] at this

theorem byzAll (c : Cfg) (s : State) : ByzAll (histOf c s) (byz c) := by
  intro v hv b hc
  unfold byz at hv
  rw [hv] at hc
  cases hc

/-- the weak justification of a `ParentReady` event (certified *or in the finalized log*; skip-certified *or a gap*) is the
    strong one when the safety hypotheses hold for the history -/
theorem strong_of_weak (c : Cfg) (s : State) (hS : Setting (stakeFn c) (chainOf c) (histOf c s) (byz c)) (w ps ph : ℕ)
    (h : ParentReady.ReadyP (tpOf c s).CP (tpOf c s).SP w (ps, ph)) :
    ps < w ∧ Certified (stakeFn c) (chainOf c) (histOf c s) (Blk.mk' ps ph) ∧
    ∀ t, ps < t → t < w → SkipCert (stakeFn c) (histOf c s) t := by
  obtain ⟨h1, h2, h3⟩ := h
  refine ⟨h1, ?_, ?_⟩
  · rcases h2 with a | a
    · exact a
    · exact certified_of_inLog hS (byzAll c s) _ a
  · intro t ht1 ht2
    rcases h3 t ht1 ht2 with a | a
    · exact a
    · exact skip_of_gap hS (byzAll c s) t a

/-- **Every `ParentReady` event a correct Votor handles in a valid run is justified on the derived history** (the parent is
    in an earlier slot and certified, every slot in between is skip-certified), although the implementation also derives
    such events from finalizations: by induction along the run, with the safety hypotheses for the prefix. -/
theorem ready_justified (c : Cfg) (hb : 5 * w (stakeFn c) (byz c) < total (stakeFn c)) :
    ∀ evs, Valid c (init c) evs → ReadyJustified c evs := by
  have hpos := pos_of_byz c hb
  apply snoc_induction
  · intro _ v _ w ps ph hm
    simp only [run, init, Votor.init, List.mem_singleton] at hm
    cases hm
  · intro pre ev ih hv
    rw [valid_append] at hv
    obtain ⟨hvp, hve, _⟩ := hv
    have ihp := ih hvp
    have hS := cluster_setting_partial c pre hvp hb ihp
    have hR : RInv c (run (init c) pre) := (RInv.init c).run hpos pre (CInv.init c) hvp
    have hrun : run (init c) (pre ++ [ev]) = step (run (init c) pre) ev := by rw [run_append]; rfl
    have hl := histOf_le_step c (run (init c) pre) ev
    intro v hc w ps ph hm
    rw [hrun] at hm ⊢
    -- justified on the history of the prefix
    have hold : ps < w ∧ Certified (stakeFn c) (chainOf c) (histOf c (run (init c) pre)) (Blk.mk' ps ph) ∧
        ∀ t, ps < t → t < w → SkipCert (stakeFn c) (histOf c (run (init c) pre)) t := by
      obtain ⟨i, op⟩ := ev
      by_cases hvi : v.val = i
      · subst hvi
        rw [step_self] at hm
        rcases nodeStep_parentReady _ op w ps ph hm with h | h
        · exact ihp v hc w ps ph h
        · exact strong_of_weak c _ hS w ps ph ((hR v.val).2 _ h)
      · rw [step_other _ _ _ _ hvi] at hm
        exact ihp v hc w ps ph hm
    exact ⟨hold.1, Certified.mono hl hold.2.1, fun t a b => SkipCert.mono hl (hold.2.2 t a b)⟩

/-- **`cluster_rules`: in every valid run of the cluster the derived history satisfies all voting rules R1–R5 of
    `Spec.Rules` for every correct validator** — for every number of validators and stake distribution, every Byzantine set
    with less than 20 % of the stake, every run (every interleaving of deliveries of votes, certificates and blocks to
    pools and Votors, queue pumps and timeouts at all nodes; arbitrary delay, loss, duplication, reordering; arbitrary
    votes and backed certificates naming Byzantine signers; equivocating leaders), restricted only by unforgeability and
    "the hash binds the parent" (`Valid`). -/
theorem cluster_rules (c : Cfg) (evs : List Ev) (hv : Valid c (init c) evs)
    (hb : 5 * w (stakeFn c) (byz c) < total (stakeFn c)) (v : Fin c.n) (hc : c.correct v.val = true) :
    Rules (stakeFn c) (chainOf c) (histOf c (run (init c) evs)) v :=
  cluster_rules_partial c evs hv (pos_of_byz c hb) (ready_justified c hb evs hv) v hc

/-- the hypotheses of the protocol-level safety theorems (`Props/C01.lean`) hold for the derived history of every valid run -/
theorem cluster_setting (c : Cfg) (evs : List Ev) (hv : Valid c (init c) evs)
    (hb : 5 * w (stakeFn c) (byz c) < total (stakeFn c)) :
    Setting (stakeFn c) (chainOf c) (histOf c (run (init c) evs)) (byz c) :=
  cluster_setting_partial c evs hv hb (ready_justified c hb evs hv)

/-- **`cluster_agreement`: finalization agreement for the cluster of executable model nodes.** With less than 20 % of the stake
    Byzantine, in every valid run — whatever the network and the Byzantine validators do — if the pools of two nodes `i`, `j`
    report blocks `b`, `b'` as finalized (a fast-finalization certificate, or a finalization certificate together with a
    notarization certificate: `PoolImpl::get_final_certs`), then `b` and `b'` lie on one chain of the block tree; if they are
    in the same slot they are equal; and no pool of the cluster holds a skip certificate for `b`'s slot. -/
theorem cluster_agreement (c : Cfg) (evs : List Ev) (hv : Valid c (init c) evs)
    (hb : 5 * w (stakeFn c) (byz c) < total (stakeFn c))
    (i j : ℕ) (b b' : Blk) (hf : PoolFinalized (run (init c) evs) i b) (hf' : PoolFinalized (run (init c) evs) j b') :
    (Anc (chainOf c) b b' ∨ Anc (chainOf c) b' b) ∧ (b.slot = b'.slot → b = b') ∧
    (∀ k st, (run (init c) evs k).pool.getSlot b.slot = some st → st.cSkip = none) :=
  cluster_agreement_partial c evs hv hb (ready_justified c hb evs hv) i j b b' hf hf'

/-- all blocks the pools report finalized, and their ancestors, lie on one chain (the finalization logs never conflict) -/
theorem cluster_logs_one_chain (c : Cfg) (evs : List Ev) (hv : Valid c (init c) evs)
    (hb : 5 * w (stakeFn c) (byz c) < total (stakeFn c))
    (i j : ℕ) (b b' x y : Blk) (hf : PoolFinalized (run (init c) evs) i b) (hf' : PoolFinalized (run (init c) evs) j b')
    (hx : Anc (chainOf c) x b) (hy : Anc (chainOf c) y b') :
    (Anc (chainOf c) x y ∨ Anc (chainOf c) y x) ∧ (x.slot = y.slot → x = y) := by
  have hS := cluster_setting c evs hv hb
  have hpos := pos_of_byz c hb
  exact logs_one_chain hS x y ⟨b, finalizedAt_of_pool c evs hv hpos i b hf, hx⟩ ⟨b', finalizedAt_of_pool c evs hv hpos j b' hf', hy⟩

/-- **The finalization logs of the nodes' finality trackers never conflict**: whenever the finality tracker inside the pool of
    node `i` marks slot `s` as finalized or implicitly finalized with block `h`, and that of node `j` slot `s'` with `h'`
    (directly, or through a finalized descendant along registered parent links), the two blocks lie on one chain of the block
    tree, and are equal if `s = s'`. (Tracker entries are pruned as the watermark advances; the statement holds after every
    prefix of every run.) -/
theorem cluster_tracker_logs_one_chain (c : Cfg) (evs : List Ev) (hv : Valid c (init c) evs)
    (hb : 5 * w (stakeFn c) (byz c) < total (stakeFn c)) (i j s s' h h' : ℕ)
    (hi : (run (init c) evs i).pool.fin.status s = some (.finalized h) ∨
          (run (init c) evs i).pool.fin.status s = some (.implFinalized h))
    (hj : (run (init c) evs j).pool.fin.status s' = some (.finalized h') ∨
          (run (init c) evs j).pool.fin.status s' = some (.implFinalized h')) :
    (Anc (chainOf c) (Blk.mk' s h) (Blk.mk' s' h') ∨ Anc (chainOf c) (Blk.mk' s' h') (Blk.mk' s h)) ∧
    (s = s' → Blk.mk' s h = Blk.mk' s' h') := by
  have hS := cluster_setting c evs hv hb
  have hpos := pos_of_byz c hb
  have hR : RInv c (run (init c) evs) := (RInv.init c).run hpos evs (CInv.init c) hv
  have li : InLog (stakeFn c) (chainOf c) (histOf c (run (init c) evs)) (Blk.mk' s h) :=
    hi.elim (fun a => (hR i).1.1.fin s h a) (fun a => (hR i).1.1.impl s h a)
  have lj : InLog (stakeFn c) (chainOf c) (histOf c (run (init c) evs)) (Blk.mk' s' h') :=
    hj.elim (fun a => (hR j).1.1.fin s' h' a) (fun a => (hR j).1.1.impl s' h' a)
  obtain ⟨a, b⟩ := logs_one_chain hS _ _ li lj
  refine ⟨a, fun e => b ?_⟩
  show (Blk.mk' s h).slot = (Blk.mk' s' h').slot
  rw [Blk.mk'_slot, Blk.mk'_slot, e]

/-! ## non-vacuity: a valid run with a Byzantine validator in which two pools report a block finalized -/
namespace Example

/-- six validators with stake 1; validator 5 is Byzantine (1/6 < 20 %) -/
def c : Cfg := { stakes := [1, 1, 1, 1, 1, 1], correct := fun i => decide (i < 5), parentOf := fun _ => (0, 0) }

/-- validators 0–3 receive block (1,9) and notarize it; node 0's pool receives their votes and a vote of the Byzantine
    validator 5 (5/6 ≥ 80 %: notar-fallback, notarization and fast-finalization certificates), its Votor handles the
    certificates (finalize vote); node 1's pool receives the fast-finalization certificate -/
def evs : List Ev :=
  [(0, .votorBlock 1 ⟨9, 0, 0⟩), (1, .votorBlock 1 ⟨9, 0, 0⟩), (2, .votorBlock 1 ⟨9, 0, 0⟩), (3, .votorBlock 1 ⟨9, 0, 0⟩),
   (0, .recvVote ⟨.notar, 1, 9, 0⟩), (0, .recvVote ⟨.notar, 1, 9, 1⟩), (0, .recvVote ⟨.notar, 1, 9, 2⟩),
   (0, .recvVote ⟨.notar, 1, 9, 3⟩), (0, .recvVote ⟨.notar, 1, 9, 5⟩),
   (0, .pump), (0, .pump), (0, .pump),
   (1, .recvCert ⟨.ff, 1, 9, [0, 1, 2, 3, 5], [], 5⟩)]

theorem byz_bound : 5 * w (stakeFn c) (byz c) < total (stakeFn c) := by
  rw [byz_bound_iff]; decide

theorem valid : Valid c (init c) evs := by decide +kernel

/-- node 0 has voted: notarization, then (after its pool created the certificates) the finalize vote -/
example : nodeRunOuts { pool := { epoch := c.epoch 0 } } (proj 0 evs) =
    [.notar 1 9 0 0, .cert .notarFallback 1 9, .final 1, .cert .notar 1 9, .timer 0, .cert .fastFinal 1 9] := by decide +kernel

theorem pool_finalized (i : ℕ) (hi : i = 0 ∨ i = 1) : PoolFinalized (run (init c) evs) i ⟨1, 9, by decide⟩ := by
  have h : ((run (init c) evs i).pool.getSlot 1).bind (fun st => st.cFf.map (·.hash)) = some 9 := by
    rcases hi with rfl | rfl <;> decide +kernel
  cases hg : (run (init c) evs i).pool.getSlot 1 with
  | none => rw [hg] at h; cases h
  | some st =>
    rw [hg] at h
    simp only [Option.bind] at h
    cases hf : st.cFf with
    | none => rw [hf] at h; cases h
    | some x =>
      rw [hf] at h
      simp only [Option.map, Option.some.injEq] at h
      exact ⟨st, hg, Or.inl ⟨x, hf, h⟩⟩

/-- the hypotheses of `cluster_agreement` are satisfied by this run, for the pools of nodes 0 and 1 -/
example : (Anc (chainOf c) ⟨1, 9, by decide⟩ ⟨1, 9, by decide⟩ ∨ Anc (chainOf c) ⟨1, 9, by decide⟩ ⟨1, 9, by decide⟩) :=
  (cluster_agreement c evs valid byz_bound 0 1 _ _ (pool_finalized 0 (Or.inl rfl)) (pool_finalized 1 (Or.inr rfl))).1

end Example

/-! ## two findings of the refinement proof (both reproduced on the real `PoolImpl` + `Votor`: directed cases of
    `harness/src/bin/cluster.rs`)

Validators X = 0 (41 %), Y = 1 (39 %), A = 2 (1 %) are correct, Z = 3 (19 %) is Byzantine; the leader of window 0
(slots 1–3) and of slot 4 equivocates. -/
namespace Findings

def c (par : ℕ × ℕ → ℕ × ℕ) : Cfg := { stakes := [41, 39, 1, 19], correct := fun i => decide (i < 3), parentOf := par }

/-! ### 1. `ParentReady` derived from a finalization: a correct node notarizes a block whose parent has no certificate -/

def par1 : ℕ × ℕ → ℕ × ℕ
  | (2, 20) => (1, 10) | (3, 30) => (2, 20) | (4, 40) => (3, 30) | (4, 41) => (2, 20) | _ => (0, 0)

/-- X notarizes (1,10), p = (2,20), (3,30); Y and A time out (skip 1–3); X casts skip-fallback 3; (3,30) is notarized by X + Z;
    X and Y notarize c2 = (4,40) built on (3,30); A holds the skip certificate of slot 3, knows (4,40) → (3,30) → (2,20), has
    the block x = (4,41) built on p pending, and receives the fast-finalization certificate of (4,40) -/
def evs1 : List Ev :=
  [(0, .votorBlock 1 ⟨10, 0, 0⟩), (0, .votorBlock 2 ⟨20, 1, 10⟩), (0, .votorBlock 3 ⟨30, 2, 20⟩), (1, .timeout 1), (2, .timeout 1),
   (0, .recvVote ⟨.notar, 3, 30, 0⟩), (0, .recvVote ⟨.skip, 3, 0, 1⟩), (0, .recvVote ⟨.skip, 3, 0, 2⟩), (0, .pump),
   (0, .recvCert ⟨.notar, 3, 30, [0, 3], [], 60⟩), (0, .votorBlock 4 ⟨40, 3, 30⟩), (0, .pump), (0, .pump),
   (1, .recvCert ⟨.notar, 3, 30, [0, 3], [], 60⟩), (1, .votorBlock 4 ⟨40, 3, 30⟩), (1, .pump), (1, .pump),
   (2, .recvCert ⟨.skip, 3, 0, [1, 2], [0], 81⟩), (2, .poolBlock (3, 30) (2, 20)), (2, .poolBlock (4, 40) (3, 30)),
   (2, .votorBlock 4 ⟨41, 2, 20⟩),
   (2, .recvCert ⟨.ff, 4, 40, [0, 1, 3], [], 99⟩), (2, .pump), (2, .pump), (2, .pump)]

/-- **Finding 1** (not a safety violation; the reason why `histOf` counts Byzantine stake as signed): in this *valid* run with
    19 % Byzantine stake the correct node A notarizes x = (4,41), a block of the first slot of a leader window whose parent
    p = (2,20) was announced `ParentReady` only because p is an ancestor of the fast-finalized (4,40): A's pool holds no
    certificate for p (it has no state for slot 2 at all), and the only correct validator that ever signed a notarization or
    notar-fallback vote for p is X (41 % < 60 %): on the history of the votes actually signed, R5 (`notar_rule`) fails for A.
    `cluster_rules` holds because on `histOf` the Byzantine 19 % count as signed (41 + 19 ≥ 60). -/
theorem parent_ready_from_finalization :
    Valid (c par1) (init (c par1)) evs1 ∧ 5 * byzStake (c par1) < (c par1).stakes.sum ∧
    nodeRunOuts { pool := { epoch := (c par1).epoch 2 } } (proj 2 evs1) =
      [.skip 1, .skip 2, .skip 3, .cert .skip 3 0, .notar 4 41 2 20, .timer 4, .timer 4, .cert .fastFinal 4 40] ∧
    ((run (init (c par1)) evs1 2).pool.getSlot 2).isNone = true ∧
    (List.range 3).filter (fun j => (run (init (c par1)) evs1 j).votor.log.any (fun it => isNotarFor 2 20 it ||
      it == .out (.notarFallback 2 20))) = [0] := by decide +kernel

/-! ### 2. (repaired: D27) a correct node hit a "consensus safety violation" assertion although safety holds -/

def par2 : ℕ × ℕ → ℕ × ℕ
  | (2, 21) => (1, 10) | (2, 22) => (1, 10) | (3, 32) => (2, 22) | (4, 40) => (3, 32) | _ => (0, 0)

/-- the leader of slot 2 equivocates: X notarizes x = (2,21), Y and A notarize y = (2,22); Z notarizes both. y reaches 59 %
    notarization stake: X casts the notar-fallback vote for y (and, by `try_skip_window`, skips slot 3); x gets a
    notarization certificate (X + Z = 60 %), y a notar-fallback certificate. The chain continues on y: z = (3,32) (Y, A, Z
    notarize, X notar-fallback), f = (4,40) (X and Y notarize: 80 %, fast-finalized). -/
def evs2 : List Ev :=
  [(0, .votorBlock 1 ⟨10, 0, 0⟩), (1, .votorBlock 1 ⟨10, 0, 0⟩), (2, .votorBlock 1 ⟨10, 0, 0⟩),
   (0, .votorBlock 2 ⟨21, 1, 10⟩), (1, .votorBlock 2 ⟨22, 1, 10⟩), (2, .votorBlock 2 ⟨22, 1, 10⟩),
   (1, .votorBlock 3 ⟨32, 2, 22⟩), (2, .votorBlock 3 ⟨32, 2, 22⟩),
   (0, .recvVote ⟨.notar, 1, 10, 0⟩), (0, .recvVote ⟨.notar, 1, 10, 3⟩),
   (0, .poolBlock (2, 22) (1, 10)), (0, .recvVote ⟨.notar, 2, 21, 0⟩),
   (0, .recvVote ⟨.notar, 2, 22, 1⟩), (0, .recvVote ⟨.notar, 2, 22, 2⟩), (0, .recvVote ⟨.notar, 2, 22, 3⟩),
   (0, .pump), (0, .pump), (0, .pump), (0, .pump), (0, .pump),
   (0, .recvCert ⟨.notar, 2, 21, [0, 3], [], 60⟩), (0, .recvVote ⟨.nf, 2, 22, 0⟩),
   (0, .poolBlock (3, 32) (2, 22)), (0, .recvVote ⟨.skip, 3, 0, 0⟩),
   (0, .recvVote ⟨.notar, 3, 32, 1⟩), (0, .recvVote ⟨.notar, 3, 32, 2⟩), (0, .recvVote ⟨.notar, 3, 32, 3⟩),
   (0, .pump), (0, .pump), (0, .pump), (0, .pump), (0, .pump), (0, .pump), (0, .pump),
   (0, .recvVote ⟨.nf, 3, 32, 0⟩), (0, .votorBlock 4 ⟨40, 3, 32⟩), (0, .pump), (0, .pump), (0, .pump),
   (1, .recvCert ⟨.nf, 3, 32, [1, 2, 3], [0], 100⟩), (1, .votorBlock 4 ⟨40, 3, 32⟩), (1, .pump), (1, .pump),
   (0, .poolBlock (4, 40) (3, 32)), (0, .recvVote ⟨.notar, 4, 40, 0⟩), (0, .recvVote ⟨.notar, 4, 40, 1⟩)]

/-- **Finding 2** (defect D27 of `finality_tracker.rs`, found by this refinement proof, since repaired: `fix:` commit 7ac7ffa;
    the model `Model/Finality.lean` follows the repaired code). In this *valid* run with 19 % Byzantine stake — all correct nodes
    follow the protocol, agreement holds (`cluster_agreement`) — node X's finality tracker holds `Notarized(x)` for slot 2 (a
    notarization certificate for x = (2,21)) when the fast-finalization of f = (4,40) makes it walk the chain
    f → z → y = (2,22). The pinned snapshot asserted in `handle_implicitly_finalized` that the notarized block of slot 2 is y
    ("consensus safety violation") and the correct node X panicked. A notarized block need not be on the finalized chain: its slot
    can also hold a notar-fallback-certified block (the old premise `Finality.Safe.notar_final` of C08 / C07 was *not* implied by
    safety). **Now**: the run completes, no node panics, X's pool holds the fast-finalization certificate of f. **Before the
    repair** (`markNotarizedOld` / `markFastFinalizedOld` = the pinned snapshot, applied to X's tracker state before the last
    operation, which both versions reach identically): the fast-finalization panics. -/
theorem notarized_sibling_no_longer_panics :
    Valid (c par2) (init (c par2)) evs2 ∧ 5 * byzStake (c par2) < (c par2).stakes.sum ∧
    (List.range 4).all (fun i => !(run (init (c par2)) evs2 i).dead) = true ∧
    Pool.Event.panic ∉ (recvVote (run (init (c par2)) (evs2.take 45) 0) ⟨.notar, 4, 40, 1⟩).2.2 ∧
    (((run (init (c par2)) evs2 0).pool.getSlot 4).bind (·.cFf)).map (·.hash) = some 40 ∧
    (match Finality.markNotarizedOld (run (init (c par2)) (evs2.take 45) 0).pool.fin (4, 40) with
      | .ok t _ => (match Finality.markFastFinalizedOld t (4, 40) with | .panic => true | .ok _ _ => false)
      | .panic => false) = true ∧
    nodeRunOuts { pool := { epoch := (c par2).epoch 1 } } (proj 1 evs2) =
      [.notar 1 10 0 0, .notar 2 22 1 10, .notar 3 32 2 22, .notar 4 40 3 32, .timer 4, .cert .notarFallback 3 32] := by
  decide +kernel

end Findings

end AgModel.Cluster
