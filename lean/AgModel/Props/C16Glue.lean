import AgModel.Model.NodeGlue
import AgModel.Props.C16
/-!
# C16 (node glue) — order and conditions of the side effects of `Alpenglow::handle_disseminator_shred`

Statements about `AgModel.NodeGlue.handleShred` (model of `src/consensus.rs:386-441`), for **all** inputs: every
verdict of `try_new`, either answer of `has_expected_type`, every outcome of `Disseminator::forward`, own node leader
or not, every answer of the blockstore.  Part (d) plugs the glue into the loss-free run of `AgModel.Route`
(Props/C16.lean) as the behaviour of every node and re-derives coverage from `rotor_run` / `turbine_run`.
That the real handler *is* this function is decided on every run by `harness/src/bin/ng.rs` + `drv_ng`.
-/
namespace AgModel.NodeGlue
open AgModel.Route

/-- the shred validates (`try_new` = Ok) and has the type its index demands -/
def Accepted (i : ShredIn) : Prop := i.verdict = .ok ∧ i.typeOk = true

def Eff.isValidOk : Eff → Bool
  | .validate .ok => true
  | _ => false

def Eff.isTypeOk : Eff → Bool
  | .typeCheck true => true
  | _ => false

/-- executable form of "every element satisfying `q` has an element satisfying `p` somewhere before it" -/
def precededBy (p q : Eff → Bool) : Bool → List Eff → Bool
  | _, [] => true
  | seen, e :: es => (!q e || seen) && precededBy p q (seen || p e) es

theorem precededBy_sound (p q : Eff → Bool) (es : List Eff) : ∀ (seen : Bool) (pre : List Eff) (e : Eff) (post : List Eff),
    precededBy p q seen es = true → es = pre ++ e :: post → q e = true → seen = true ∨ ∃ x ∈ pre, p x = true := by
  induction es with
  | nil => intro seen pre e post _ h; simp at h
  | cons a as ih =>
    intro seen pre e post hg h hq
    simp only [precededBy, Bool.and_eq_true, Bool.or_eq_true, Bool.not_eq_true'] at hg
    cases pre with
    | nil =>
      simp only [List.nil_append, List.cons.injEq] at h
      obtain ⟨rfl, _⟩ := h
      rcases hg.1 with h1 | h1
      · rw [hq] at h1; cases h1
      · exact Or.inl h1
    | cons b bs =>
      simp only [List.cons_append, List.cons.injEq] at h
      obtain ⟨rfl, h⟩ := h
      rcases ih (seen || p a) bs e post hg.2 h hq with h1 | ⟨x, hx, hpx⟩
      · simp only [Bool.or_eq_true] at h1
        rcases h1 with h1 | h1
        · exact Or.inl h1
        · exact Or.inr ⟨a, by simp, h1⟩
      · exact Or.inr ⟨x, by simp [hx], hpx⟩

/-! ## (a) an accepted shred is forwarded exactly once - also by the slot's leader; a rejected one never -/

/-- **Forward exactly once.** Whatever `forward` does, whoever leads the slot, whatever the blockstore answers. -/
theorem forward_exactly_once (i : ShredIn) (h : Accepted i) :
    forwards (handleShred i) = 1 ∧ Eff.forward i.fwd ∈ handleShred i := by
  obtain ⟨v, t, f, l, b⟩ := i
  obtain ⟨hv, ht⟩ := h
  simp only at hv ht
  subst hv ht
  cases f <;> cases l <;> cases b <;> simp [handleShred, forwards, Eff.isForward, List.countP_cons]

/-- the case the Rotor leader depends on, spelled out -/
theorem leader_forwards (i : ShredIn) (h : Accepted i) (hl : i.ownIsLeader = true) :
    forwards (handleShred i) = 1 ∧ fwdOut (handleShred i) = i.fwd := by
  obtain ⟨v, t, f, l, b⟩ := i
  obtain ⟨hv, ht⟩ := h
  simp only at hv ht hl
  subst hv ht hl
  cases f <;> cases b <;> simp [handleShred, forwards, Eff.isForward, fwdOut]

/-- **Never when validation fails** (bad signature, equivocation, wrong type): no forward, no ingest, no block. -/
theorem rejected_no_effect (i : ShredIn) (h : ¬ Accepted i) :
    forwards (handleShred i) = 0 ∧ ingests (handleShred i) = 0 ∧ Eff.addBlock ∉ handleShred i ∧
      fwdOut (handleShred i) = .to [] := by
  obtain ⟨v, t, f, l, b⟩ := i
  cases v <;> cases t <;> first
    | (exfalso; exact h ⟨rfl, rfl⟩)
    | simp [handleShred, forwards, ingests, Eff.isForward, Eff.isIngest, fwdOut]

/-- what an accepted shred puts on the network is exactly what `Disseminator::forward` does -/
theorem fwdOut_accepted (i : ShredIn) (h : Accepted i) : fwdOut (handleShred i) = i.fwd := by
  obtain ⟨v, t, f, l, b⟩ := i
  obtain ⟨hv, ht⟩ := h
  simp only at hv ht
  subst hv ht
  cases f <;> cases l <;> cases b <;> simp [handleShred, fwdOut]

/-- an equivocating shred flags the leader and nothing else happens -/
theorem equivocation_flags (i : ShredIn) (h : i.verdict = .equivocation) :
    handleShred i = [.readCache, .validate .equivocation, .flag] := by
  obtain ⟨v, t, f, l, b⟩ := i
  simp only at h
  subst h
  rfl

/-! ## (b) nothing leaves the handler before validation succeeded; forward precedes the blockstore -/

theorem guarded_valid (i : ShredIn) : precededBy Eff.isValidOk Eff.isAct false (handleShred i) = true := by
  obtain ⟨v, t, f, l, b⟩ := i
  cases v <;> cases t <;> cases f <;> cases l <;> cases b <;> rfl

theorem guarded_type (i : ShredIn) : precededBy Eff.isTypeOk Eff.isAct false (handleShred i) = true := by
  obtain ⟨v, t, f, l, b⟩ := i
  cases v <;> cases t <;> cases f <;> cases l <;> cases b <;> rfl

theorem guarded_forward (i : ShredIn) : precededBy Eff.isForward Eff.isIngest false (handleShred i) = true := by
  obtain ⟨v, t, f, l, b⟩ := i
  cases v <;> cases t <;> cases f <;> cases l <;> cases b <;> rfl

/-- **Nothing before validation.** Wherever a network send, a blockstore write or a pool write stands in the effect
    list, `try_new = Ok` and `has_expected_type = true` stand before it. -/
theorem nothing_before_validation (i : ShredIn) (pre post : List Eff) (e : Eff)
    (h : handleShred i = pre ++ e :: post) (he : e.isAct = true) :
    Eff.validate .ok ∈ pre ∧ Eff.typeCheck true ∈ pre := by
  constructor
  · rcases precededBy_sound _ _ _ false pre e post (guarded_valid i) h he with h1 | ⟨x, hx, hp⟩
    · cases h1
    · have : x = .validate .ok := by
        cases x <;> simp [Eff.isValidOk] at hp ⊢
        rename_i v; cases v <;> simp_all
      exact this ▸ hx
  · rcases precededBy_sound _ _ _ false pre e post (guarded_type i) h he with h1 | ⟨x, hx, hp⟩
    · cases h1
    · have : x = .typeCheck true := by
        cases x <;> simp [Eff.isTypeOk] at hp ⊢
        rename_i v; cases v <;> simp_all
      exact this ▸ hx

/-- **Forward before store**: the blockstore is only written after `forward` was called. -/
theorem forward_before_ingest (i : ShredIn) (pre post : List Eff) (r : BsRes)
    (h : handleShred i = pre ++ Eff.ingest r :: post) : ∃ o, Eff.forward o ∈ pre := by
  rcases precededBy_sound _ _ _ false pre _ post (guarded_forward i) h rfl with h1 | ⟨x, hx, hp⟩
  · cases h1
  · cases x <;> simp [Eff.isForward] at hp
    exact ⟨_, hx⟩

/-! ## (c) the leader's node never ingests its own disseminated shreds, but forwards them -/

theorem leader_never_ingests (i : ShredIn) (hl : i.ownIsLeader = true) :
    ingests (handleShred i) = 0 ∧ Eff.addBlock ∉ handleShred i ∧ (Accepted i → forwards (handleShred i) = 1) := by
  refine ⟨?_, ?_, fun h => (forward_exactly_once i h).1⟩ <;>
  · obtain ⟨v, t, f, l, b⟩ := i
    simp only at hl
    subst hl
    cases v <;> cases t <;> cases f <;> cases b <;> simp [handleShred, ingests, Eff.isIngest]

/-- everybody else hands an accepted shred to the blockstore exactly once (after a successful `forward`), and calls
    `pool.add_block` iff the blockstore reports the block complete -/
theorem nonleader_ingests_once (i : ShredIn) (h : Accepted i) (hl : i.ownIsLeader = false) (ds : List Nat)
    (hf : i.fwd = .to ds) :
    ingests (handleShred i) = 1 ∧ (Eff.addBlock ∈ handleShred i ↔ i.bs = .block) := by
  obtain ⟨v, t, f, l, b⟩ := i
  obtain ⟨hv, ht⟩ := h
  simp only at hv ht hl hf
  subst hv ht hl hf
  cases b <;> simp [handleShred, ingests, Eff.isIngest, List.countP_cons]

/-! ## (d) every node runs this glue: fault-free dissemination reaches everyone -/

theorem rotorGlueRun_eq (n ldr : Nat) (committee : List Nat) (s : Nat) (bs : Nat → BsRes) :
    rotorGlueRun handleShred n ldr committee s (fun _ => .ok) (fun _ => true) bs = rotorRun n ldr committee s := by
  unfold rotorGlueRun rotorRun
  rfl

/-- **Rotor with the glue.** Every shred the leader sends (to relay `r = committee[s]`) is delivered to the relay and
    then to everybody but relay and leader - also when `r` is the leader itself: its own node's handler forwards. -/
theorem rotor_glue_run (n ldr : Nat) (committee : List Nat) (s r : Nat) (bs : Nat → BsRes)
    (hc : committee[s]? = some r) (hr : r < n) :
    rotorGlueRun handleShred n ldr committee s (fun _ => .ok) (fun _ => true) bs = r :: broadcastDests n r ldr := by
  rw [rotorGlueRun_eq]; exact (rotor_run n ldr committee s r hc hr).1

/-- every validator other than the leader receives the shred exactly once -/
theorem rotor_glue_cover (n ldr : Nat) (committee : List Nat) (s r v : Nat) (bs : Nat → BsRes)
    (hc : committee[s]? = some r) (hr : r < n) (hv : v < n) :
    (rotorGlueRun handleShred n ldr committee s (fun _ => .ok) (fun _ => true) bs).count v
      = if v = ldr then (if r = ldr then 1 else 0) else 1 := by
  rw [rotorGlueRun_eq]; exact rotor_cover n ldr committee s r v hc hr hv

/-- **exactly one relay broadcast**: the only node whose handler sends anything is the relay - the leader included -/
theorem rotor_glue_one_broadcast (n ldr own : Nat) (committee : List Nat) (s r : Nat) (bs : Nat → BsRes)
    (hc : committee[s]? = some r) (hr : r < n) :
    fwdOut (handleShred (rotorIn n ldr committee s (fun _ => .ok) (fun _ => true) bs own))
      = (if own = r then .to (broadcastDests n r ldr) else .to []) := by
  rw [fwdOut_accepted _ ⟨rfl, rfl⟩]
  exact rotor_one_broadcast n ldr own committee s r hc hr

/-- the shreds whose sampled relay is the leader: the leader's own node broadcasts them -/
theorem rotor_glue_leader_relay (n ldr : Nat) (committee : List Nat) (s : Nat) (bs : Nat → BsRes)
    (hc : committee[s]? = some ldr) (hr : ldr < n) :
    fwdOut (handleShred (rotorIn n ldr committee s (fun _ => .ok) (fun _ => true) bs ldr))
      = .to (broadcastDests n ldr ldr) := by
  rw [rotor_glue_one_broadcast n ldr ldr committee s ldr bs hc hr]; simp

/-- in that run every node but the leader stores the shred once, the leader never -/
theorem rotor_glue_ingests (n ldr v : Nat) (committee : List Nat) (s r : Nat) (bs : Nat → BsRes)
    (hc : committee[s]? = some r) (hr : r < n) :
    ingests (handleShred (rotorIn n ldr committee s (fun _ => .ok) (fun _ => true) bs v)) = if v = ldr then 0 else 1 := by
  by_cases h : v = ldr
  · rw [if_pos h]
    exact (leader_never_ingests _ (by simp [rotorIn, h])).1
  · rw [if_neg h]
    have hf : (rotorIn n ldr committee s (fun _ => Verdict.ok) (fun _ => true) bs v).fwd
        = if v = r then .to (broadcastDests n r ldr) else .to [] := rotor_one_broadcast n ldr v committee s r hc hr
    by_cases hvr : v = r
    · exact (nonleader_ingests_once _ ⟨rfl, rfl⟩ (by simp [rotorIn, h]) (broadcastDests n r ldr) (by rw [hf, if_pos hvr])).1
    · exact (nonleader_ingests_once _ ⟨rfl, rfl⟩ (by simp [rotorIn, h]) [] (by rw [hf, if_neg hvr])).1

theorem turbineGlueRun_eq (perm : List Nat) (f ldr : Nat) (bs : Nat → BsRes) :
    turbineGlueRun handleShred perm f ldr (fun _ => .ok) (fun _ => true) bs = turbineRun perm f ldr := by
  unfold turbineGlueRun turbineRun
  rfl

/-- **Turbine with the glue**: the delivery sequence is the order; everybody receives every shred exactly once. -/
theorem turbine_glue_cover_once (perm : List Nat) (f ldr v : Nat) (bs : Nat → BsRes) (hnd : perm.Nodup) (hf : 1 ≤ f)
    (hb : perm.length * f + 1 < 2 ^ 64) (hl : ldr ∈ perm) (hv : v ∈ perm) :
    turbineGlueRun handleShred perm f ldr (fun _ => .ok) (fun _ => true) bs = perm ∧
      (turbineGlueRun handleShred perm f ldr (fun _ => .ok) (fun _ => true) bs).count v = 1 := by
  rw [turbineGlueRun_eq]
  exact ⟨(turbine_run perm f ldr hnd hf hb hl).1, turbine_cover_once perm f ldr v hnd hf hb hl hv⟩

/-- a node that rejects what it receives (here: everybody) forwards nothing: the run stops at the first receiver -/
theorem rejecting_nodes_stop_the_run (n ldr : Nat) (committee : List Nat) (s r : Nat) (bs : Nat → BsRes)
    (hc : committee[s]? = some r) (hr : r < n) :
    rotorGlueRun handleShred n ldr committee s (fun _ => .invalidSignature) (fun _ => true) bs = [r] := by
  have hrel : rotorRelay n committee s = some r := by simp [rotorRelay, hc, hr]
  have : (fun v => fwdOut (handleShred (rotorIn n ldr committee s (fun _ => Verdict.invalidSignature) (fun _ => true) bs v)))
      = fun _ => Out.to [] := by
    funext v
    exact (rejected_no_effect _ (by simp [Accepted, rotorIn])).2.2.2
  unfold rotorGlueRun
  rw [this]
  simp only [rotorSend, hrel, outDests, Route.run]
  cases n <;> rfl

/-! ## the defective order: "leader returns before forward" loses the shreds whose relay is the leader -/

/-- 4 validators, leader 1, relay of the shred = the leader: with the real order everybody gets the shred … -/
theorem leader_relay_ok :
    rotorGlueRun handleShred 4 1 [1] 0 (fun _ => .ok) (fun _ => true) (fun _ => .stored) = [1, 0, 2, 3] := by decide

/-- … with the leader test moved above `forward` it reaches nobody but the leader itself -/
theorem leaderFirst_loses_leader_relay_shreds :
    rotorGlueRun handleShredLeaderFirst 4 1 [1] 0 (fun _ => .ok) (fun _ => true) (fun _ => .stored) = [1] ∧
      forwards (handleShredLeaderFirst ⟨.ok, true, .to [0, 2, 3], true, .stored⟩) = 0 := by decide

/-! ## all-to-all messages -/

/-- the pool is touched exactly once for a message whose signatures verify, never otherwise -/
theorem a2a_pool_iff_valid (k : A2AKind) (valid : Bool) (res : PoolRes) :
    ((handleA2A k valid res).countP (fun e => e = .addVote ∨ e = .addCert) = if valid then 1 else 0) ∧
      (handleA2A k valid res).head? = some (.validate k valid) := by
  cases k <;> cases valid <;> cases res <;> decide

/-! ## non-vacuity -/

example : handleShred ⟨.ok, true, .to [0, 2], false, .block⟩ =
    [.readCache, .validate .ok, .typeCheck true, .forward (.to [0, 2]), .ingest .block, .addBlock] := by decide
example : handleShred ⟨.ok, true, .to [0, 2], true, .block⟩ =
    [.readCache, .validate .ok, .typeCheck true, .forward (.to [0, 2])] := by decide
example : handleShred ⟨.ok, false, .to [0, 2], false, .stored⟩ = [.readCache, .validate .ok, .typeCheck false] := by decide
example : handleShred ⟨.invalidSignature, true, .to [0], false, .stored⟩ = [.readCache, .validate .invalidSignature] := by decide
example : render false (handleShred ⟨.ok, true, .to [0, 2], false, .block⟩) = "fwd 0 2 | store | block" := by decide
example : Accepted ⟨.ok, true, .to [], true, .err⟩ := ⟨rfl, rfl⟩
example : rotorGlueRun handleShred 5 1 [3, 1, 4] 0 (fun _ => .ok) (fun _ => true) (fun _ => .stored) = [3, 0, 2, 4] := by decide

end AgModel.NodeGlue
