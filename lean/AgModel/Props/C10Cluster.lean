import AgModel.Proofs.ClusterPanic
/-!
# C10 / C01 — no node of a valid cluster run ever panics (`cluster_never_panics`)

The composition of C01 (safety of the cluster of executable model nodes, `Props/C01Cluster.lean`), C06
(`pool_panic_only_from_trackers`), C07 / C08 (the trackers never panic on `Consistent` / `Safe` histories) and C10
(`votor_never_panics`): **the premise of the tracker theorems is always met in a valid run** — the remaining
"consensus safety violation" assertions of `finality_tracker.rs`, the `add_to_ready` assertion of `parent_ready_state.rs`, and
`add_block`'s assertions are unreachable.

Setting: `Spec/Cluster.lean` — `n` composed model nodes (`PoolImpl` ∘ queue ∘ `Votor`), an adversarial network that chooses every
event; `Valid` = unforgeability + "the hash binds the parent". Two more facts about the inputs of a pool are established
outside the cluster model before the pool is called and are hypotheses here (`Admitted`, decidable; both necessary:
`signer_bound_needed`, `parent_slot_bound_needed`): a delivered vote names a validator index (signature validation, C09
`validateVote_total`: `add_vote` indexes the validator table), and a registered block has its parent in an earlier slot (the
blockstore, C13 `announced_block_wellformed`: `assert!(block_id.0 > parent_id.0)`).

Statements (for every configuration with less than 20 % Byzantine stake, every valid admitted run, **every** node `i` — also the
nodes of Byzantine validators, whose pools only ever receive what the network delivers):

* `cluster_pools_safe` (stage 1) — the finality inputs of the ghost log of `i`'s pool satisfy every clause of `Finality.Safe`;
* `cluster_pools_consistent` (stages 2, 3) — `i`'s pool is the run of the empty pool over the pool operations delivered to `i`
  and its ghost log is `Pool.Consistent`;
* `cluster_never_panics` (stage 4) — no pool operation of `i` emitted `Event.panic`, `i`'s Votor did not panic, `i` is not
  `dead`; `cluster_step_never_panics`: the same per operation, in the state in which it happens.

**Finding** (`old_skip_premise_fails_on_valid_run`): the skip clause of `Consistent` as it stood before this proof — *no skip
certificate for the slot of any `Final` block* — is **not** implied by safety: the slot of an *implicitly* finalized block
(an ancestor of a finalized block, certified only by a notarization / notar-fallback certificate) can carry a skip certificate
as well; the valid run `Findings.evs1` has one at the correct node A. (The same direct-vs-implicit distinction as D27, this
time in the premise of the C07 pool theorems, not in the code: nothing panics.) The clause now speaks about *directly*
finalized blocks only (`Proofs/PoolWiring.lean`), which safety gives (`finalized_not_skipped`) and which suffices: the
watermark of the finality tracker is always genesis or the slot of a directly finalized block (`first_direct`).
-/
namespace AgModel.Cluster
open AgModel AgModel.Node AgModel.NodePanic AgModel.Pool AgModel.Spec

/-- **Stage 1: every clause of `Finality.Safe`** — parents in earlier slots, one parent per block, one `Final` block per slot,
    no `Final` block strictly between a `Final` block and its parent, one notarized block per slot, a notarized block agrees
    with a directly final one, no finalization certificate for an implicitly skipped slot — holds for the operations the
    finality tracker inside the pool of any node received in a valid admitted run. -/
theorem cluster_pools_safe (c : Cfg) (evs : List Ev) (hv : Valid c (init c) evs) (hw : Admitted c evs)
    (hb : 5 * w (stakeFn c) (byz c) < total (stakeFn c)) (i : ℕ) :
    Finality.Safe (finOps (poolLog { epoch := c.epoch i } (poolOps (proj i evs)))) :=
  safe_of_logOk c _ (cluster_setting c evs hv hb) (votes_gok_run c evs hv hb) i _ (pinv_run c hb evs hv hw i).log

/-- **`cluster_pools_consistent`**: in every valid admitted run with less than 20 % Byzantine stake, the pool of every node is
    the run of the empty pool over the pool operations delivered to the node (none was dropped: the node never died), and
    its ghost log — block registrations and `CertCreated` events in order — is `Consistent` (`Finality.Safe`, no skip
    certificate for the slot of a directly finalized block, the only finalized block of slot 0 is genesis): the premise of
    the C07 / C08 / C18 pool theorems (`pool_wired`, `pool_ready_iff`, `pool_pr_never_panics`, …) is always met. -/
theorem cluster_pools_consistent (c : Cfg) (evs : List Ev) (hv : Valid c (init c) evs) (hw : Admitted c evs)
    (hb : 5 * w (stakeFn c) (byz c) < total (stakeFn c)) (i : ℕ) :
    (run (init c) evs i).pool = (poolRun { epoch := c.epoch i } (poolOps (proj i evs))).1 ∧
    Consistent (poolLog { epoch := c.epoch i } (poolOps (proj i evs))) :=
  ⟨(pinv_run c hb evs hv hw i).pool, consistent_of_valid c evs hv hb i _ (pinv_run c hb evs hv hw i).log⟩

/-- **`cluster_never_panics`: no node ever panics in a valid cluster run.** For every number of validators and stake
    distribution, every Byzantine set with less than 20 % of the stake, every run of the cluster (every interleaving of
    deliveries of votes, certificates and blocks, queue pumps, timeouts; arbitrary delay, loss, duplication, reordering;
    arbitrary votes and backed certificates naming Byzantine signers; equivocating leaders) that is `Valid` (unforgeability,
    the hash binds the parent) and `Admitted` (signers are validator indices, registered blocks have parents in earlier
    slots), and every node `i`: none of the pool operations delivered to `i` emitted `Event.panic` — neither the finality
    tracker's "consensus safety violation" assertions, nor the parent-ready tracker's `add_to_ready` assertion, nor
    `add_block`'s assertions, nor `parent not known` —, `i`'s Votor has not tripped an assertion, and `i` is not dead. The
    statement holds after every run, hence after every prefix: never. -/
theorem cluster_never_panics (c : Cfg) (evs : List Ev) (hv : Valid c (init c) evs) (hw : Admitted c evs)
    (hb : 5 * w (stakeFn c) (byz c) < total (stakeFn c)) (i : ℕ) :
    Pool.Event.panic ∉ (poolRun { epoch := c.epoch i } (poolOps (proj i evs))).2 ∧
    (run (init c) evs i).votor.panicked = false ∧ (run (init c) evs i).dead = false :=
  ⟨(pinv_run c hb evs hv hw i).quiet, cluster_votor_ok c evs i, (pinv_run c hb evs hv hw i).alive⟩

/-- … per operation, in the state in which it happens: when the network delivers a vote / certificate / block to node `i`
    after the run `pre`, the call into `i`'s pool (`add_vote` / `add_cert` / `add_block` on the pool as it is then) emits no
    `Event.panic`. -/
theorem cluster_step_never_panics (c : Cfg) (pre : List Ev) (i : ℕ) (op : NodeOp) (hv : Valid c (init c) (pre ++ [(i, op)]))
    (hw : Admitted c (pre ++ [(i, op)])) (hb : 5 * w (stakeFn c) (byz c) < total (stakeFn c)) (pop : PoolOp)
    (hop : poolOpOf op = some pop) : Pool.Event.panic ∉ (poolStep (run (init c) pre i).pool pop).2 := by
  have hvp : Valid c (init c) pre := ((valid_append c _ pre [(i, op)]).mp hv).1
  have hwp : Admitted c pre := fun x hx => hw x (List.mem_append_left _ hx)
  have I := pinv_run c hb pre hvp hwp i
  have J := (pinv_run c hb _ hv hw i).quiet
  have hpo : poolOps (proj i (pre ++ [(i, op)])) = poolOps (proj i pre) ++ [pop] := by
    rw [proj_append, proj_single_self]; unfold poolOps; rw [List.filterMap_append]; simp [hop]
  unfold poolOf at J
  rw [hpo, poolRun_append] at J
  simp only [poolRun, List.append_nil, List.mem_append, not_or] at J
  rw [I.pool]
  exact J.2

/-! ## the hypotheses are satisfiable (non-vacuity) and `Admitted` is necessary -/

/-- the run of finding 2 of `Props/C01Cluster.lean` (D27: the run on which the pinned snapshot panicked) is admitted -/
theorem evs2_admitted : Admitted (Findings.c Findings.par2) Findings.evs2 := by decide

/-- … so `cluster_never_panics` applies to it: node X = 0 (whose finality tracker walks past the notarized sibling) has not
    panicked, its pool holds a fast-finalization certificate -/
example : (run (init (Findings.c Findings.par2)) Findings.evs2 0).dead = false ∧
    (((run (init (Findings.c Findings.par2)) Findings.evs2 0).pool.getSlot 4).bind (·.cFf)).isSome = true :=
  ⟨(cluster_never_panics _ _ Findings.notarized_sibling_no_longer_panics.1 evs2_admitted
      ((byz_bound_iff _).mpr Findings.notarized_sibling_no_longer_panics.2.1) 0).2.2, by decide +kernel⟩

example : Admitted Example.c Example.evs := by decide

/-- **`Admitted` is necessary (1)**: a vote naming signer 7 of 6 validators (index 7 is not a correct validator, so nothing
    restricts its votes in `Valid`) makes `add_vote` index the validator table out of bounds -/
theorem signer_bound_needed :
    Valid Example.c (init Example.c) [(0, .recvVote ⟨.skip, 1, 0, 7⟩)] ∧
    ¬ Admitted Example.c [(0, .recvVote ⟨.skip, 1, 0, 7⟩)] ∧
    (run (init Example.c) [(0, .recvVote ⟨.skip, 1, 0, 7⟩)] 0).dead = true := by decide +kernel

/-- **`Admitted` is necessary (2)**: a registration whose parent is not in an earlier slot trips
    `assert!(block_id.0 > parent_id.0)` of `add_block` (`parentOf` maps every id to `(0, 0)` here, so the registration agrees
    with it) -/
theorem parent_slot_bound_needed :
    Valid Example.c (init Example.c) [(0, .poolBlock (0, 3) (0, 0))] ∧
    ¬ Admitted Example.c [(0, .poolBlock (0, 3) (0, 0))] ∧
    (run (init Example.c) [(0, .poolBlock (0, 3) (0, 0))] 0).dead = true := by decide +kernel

/-! ## finding: the old skip clause of `Consistent` is not implied by safety -/

/-- the ghost log of the correct node A = 2 in the valid run `Findings.evs1` -/
def logA : List LogItem := poolLog { epoch := (Findings.c Findings.par1).epoch 2 } (poolOps (proj 2 Findings.evs1))

/-- **Finding**: in the valid, admitted run `Findings.evs1` (19 % Byzantine stake; all correct nodes follow the protocol) the
    log of the correct node A contains the skip certificate of slot 3 **and** block `(3, 30)` is `Final` in it — implicitly:
    `(4, 40)` is fast-finalized and `(4, 40) → (3, 30)` is registered. (`(3, 30)` has a notarization certificate from X + Z,
    slot 3 a skip certificate from Y, A and X's skip-fallback vote: both are legitimate, the next leader built on `(3, 30)`.)
    So the premise "no skip certificate for a finalized slot" of the C07 pool theorems, as it stood, does **not** hold for
    every valid run; the weakened premise (`Consistent`: … for a *directly* finalized slot) holds — here by evaluation, in
    general by `cluster_pools_consistent`. No node panics in the run. -/
theorem old_skip_premise_fails_on_valid_run :
    Valid (Findings.c Findings.par1) (init (Findings.c Findings.par1)) Findings.evs1 ∧
    Admitted (Findings.c Findings.par1) Findings.evs1 ∧
    (∃ x, LogItem.cert x ∈ logA ∧ x.kind = .skip ∧ x.slot = 3) ∧ Finality.Final (finOps logA) (3, 30) ∧
    ¬ Finality.Direct (finOps logA) (3, 30) ∧ Consistent logA ∧
    (List.range 4).all (fun i => !(run (init (Findings.c Findings.par1)) Findings.evs1 i).dead) = true := by
  have hsafe : Finality.Safe (finOps logA) := by decide +kernel
  refine ⟨Findings.parent_ready_from_finalization.1, by decide, ?_, ?_, ?_, ?_, ?_⟩
  · exact ⟨⟨.skip, 3, 0, [1, 2], [0], 81⟩, by decide +kernel, rfl, rfl⟩
  · exact (Finality.mem_finals hsafe.link_lt).mp (by decide +kernel)
  · decide +kernel
  · decide +kernel
  · decide +kernel

end AgModel.Cluster
