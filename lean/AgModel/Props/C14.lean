import AgModel.Model.Repair
/-!
# C14 — repair stores only data matching the requested hash and cannot be derailed
-/
namespace AgModel.Repair
open AgModel.Blockstore

/-- **Replay / unsolicited responses are inert**: a response whose request is not outstanding changes
    neither the requester, nor the blockstore, and triggers nothing. -/
theorem unsolicited_ignored (env : Nat → Content) (cap : Nat) (st : RepairSt) (store : Store) (resp : Resp)
    (h : resp.req ∉ st.outstanding) : handleResponse env cap st store resp = (st, store, {}) := by
  unfold handleResponse; simp [h]

end AgModel.Repair
