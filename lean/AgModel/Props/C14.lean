import AgModel.Proofs.Repair
/-!
# C14 — repair stores only data matching the requested hash and cannot be derailed

Model: `AgModel.Repair` (requester + responder of `src/repair.rs`) over `AgModel.Blockstore`.
Merkle soundness (what an accepted proof implies about the tree) is C15 (`AgModel.Merkle.sound`,
`last_sound`); the theorems below are about what `repair.rs` / the blockstore do with it.
-/
namespace AgModel.Repair
open AgModel.Blockstore AgModel.Merkle

/-! ### integrity: a block is stored / announced under an id only if it hashes to that id -/

/-- every completed block filed in the repair spot of hash `h` has hash `h` -/
def RepOk (sd : SlotData) : Prop :=
  ∀ h b blk, repGet sd.rep h = some b → b.completed = some blk → blk.hash = h

theorem repOk_new (cap slot : Nat) : RepOk (SlotData.new cap slot) := by
  intro h b blk hg; simp [SlotData.new, repGet] at hg

theorem fileRepair_block (sd : SlotData) (h : H) (b : BlockData) (r : AddRes) (info : BlockInfo)
    (hr : (fileRepair sd h b r).2 = .ev (.block info)) : info.hash = h ∧ r = .ev (.block info) := by
  unfold fileRepair at hr
  split at hr
  · rename_i i
    split at hr
    · simp at hr
    · rename_i hne
      simp at hr; subst hr
      exact ⟨by simpa using hne, rfl⟩
  · simp at hr; subst hr
    rename_i hx
    exact absurd rfl (hx info)

theorem flagIfBad_res (sd : SlotData) (r : AddRes) : (flagIfBad sd r).2.1 = r := by
  unfold flagIfBad; split <;> rfl

private theorem flag_rep (sd : SlotData) : (flag sd).1.rep = sd.rep := by
  unfold flag; split <;> rfl

theorem flagIfBad_rep (sd : SlotData) (r : AddRes) : (flagIfBad sd r).1.rep = sd.rep := by
  unfold flagIfBad; split
  · exact flag_rep sd
  · rfl

/-- **Announced only under the requested id.** Whatever shred is filed for whatever requested hash
    `h`, if `add_shred_from_repair` announces a block, that block's hash is `h`. -/
theorem repair_announces_requested_hash (env : Nat → Content) (sd : SlotData) (h : H) (s : Shred) (info : BlockInfo)
    (hr : (addRepair env sd h s).2.1 = .ev (.block info)) : info.hash = h := by
  unfold addRepair at hr
  simp only [flagIfBad_res] at hr
  exact (fileRepair_block _ _ _ _ _ hr).1

/-- **Stored only under the matching id — invariant.** `RepOk` is preserved by every
    `add_shred_from_repair`, for every shred and every requested hash. -/
theorem addRepair_repOk (env : Nat → Content) (sd : SlotData) (h : H) (s : Shred) (hok : RepOk sd) :
    RepOk (addRepair env sd h s).1 := by
  unfold addRepair
  simp only
  have hcomp : (addShred env ((repGet sd.rep h).getD (BlockData.new sd.dis.cap sd.dis.slot)) s).1.completed =
        ((repGet sd.rep h).getD (BlockData.new sd.dis.cap sd.dis.slot)).completed ∨
      ∃ info txs, (addShred env ((repGet sd.rep h).getD (BlockData.new sd.dis.cap sd.dis.slot)) s).2 = .ev (.block info) ∧
        (addShred env ((repGet sd.rep h).getD (BlockData.new sd.dis.cap sd.dis.slot)) s).1.completed =
          some ⟨info.hash, info.parent, txs⟩ := by
    cases hty : s.ty with
    | true => rw [addShred_of_ty _ _ s hty]; exact addShred_completed env _ s
    | false => rw [addShred_wrongType _ _ s hty]; exact Or.inl rfl
  generalize addShred env ((repGet sd.rep h).getD (BlockData.new sd.dis.cap sd.dis.slot)) s = br at hcomp
  obtain ⟨b, r⟩ := br
  simp only at hcomp ⊢
  intro h' b' blk hg hc
  rw [flagIfBad_rep] at hg
  have old : ∀ bb, repGet sd.rep h' = some bb → bb.completed = some blk → blk.hash = h' := fun bb => hok h' bb blk
  have hcase : (fileRepair sd h b r).1.rep = repDel sd.rep h ∨
      ((fileRepair sd h b r).1.rep = repSet sd.rep h b ∧ (∀ info, r = .ev (.block info) → info.hash = h)) := by
    unfold fileRepair
    split
    · rename_i i
      split
      · left; rfl
      · rename_i hne
        right; exact ⟨rfl, by intro info hi; simp at hi; rw [← hi]; simpa using hne⟩
    · rename_i hx
      right; exact ⟨rfl, by intro info hi; exact absurd hi (hx info)⟩
  rcases hcase with hdel | ⟨hset, hinfo⟩
  · rw [hdel, repGet_repDel] at hg
    split at hg
    · simp at hg
    · exact old b' hg hc
  · rw [hset, repGet_repSet] at hg
    split at hg
    · rename_i hh; subst hh
      simp at hg; subst hg
      rcases hcomp with hsame | ⟨info, txs, hrr, hcc⟩
      · rw [hsame] at hc
        cases hold : repGet sd.rep h' with
        | none => simp [hold, BlockData.new] at hc
        | some bb => simp [hold] at hc; exact old bb hold hc
      · rw [hcc] at hc
        simp at hc
        rw [← hc]
        exact hinfo info hrr
    · exact old b' hg hc

/-- dissemination never touches the repair spots -/
theorem addDissem_repOk (env : Nat → Content) (sd : SlotData) (s : Shred) (hok : RepOk sd) :
    RepOk (addDissem env sd s).1 := by
  have : (addDissem env sd s).1.rep = sd.rep := by
    unfold addDissem
    split
    · rfl
    · simp only
      split
      · rw [flag_rep]
      · rfl
  intro h b blk hg hc
  rw [this] at hg
  exact hok h b blk hg hc

/-- **Stored under `id` ⇒ hashes to `id`.** `get_block((slot, h))` only ever returns a block whose hash
    is `h` — for the disseminated block by the lookup itself, for repaired blocks by `RepOk`. -/
theorem getBlock_hash (sd : SlotData) (h : H) (blk : Block) (hok : RepOk sd)
    (hg : getBlock sd h = some blk) : blk.hash = h := by
  unfold getBlock at hg
  cases hbd : blockData sd h with
  | none => simp [hbd] at hg
  | some b =>
    simp only [hbd, Option.bind_some] at hg
    unfold blockData at hbd
    cases hd : sd.dis.completed with
    | none =>
      simp only [hd] at hbd
      exact hok h b blk hbd hg
    | some dblk =>
      simp only [hd] at hbd
      by_cases hh : dblk.hash = h
      · simp only [hh, if_true, Option.some.injEq] at hbd
        subst hbd
        rw [hd] at hg
        simp only [Option.some.injEq] at hg
        rw [← hg]; exact hh
      · simp only [hh, if_false] at hbd
        exact hok h b blk hbd hg

/-! ### responses -/

/-- **Replay / unsolicited responses are inert**: a response whose request is not outstanding changes
    neither the requester, nor the blockstore, and triggers nothing. -/
theorem unsolicited_ignored (env : Nat → Content) (cap : Nat) (st : RepairSt) (store : Store) (resp : Resp)
    (h : resp.req ∉ st.outstanding) : handleResponse env cap st store resp = (st, store, {}) := by
  unfold handleResponse; simp [h]

/-- what `handle_response` validates before it acts on a (non-NACK) response -/
def Valid (st : RepairSt) : Resp → Prop
  | .nack _ => True
  | .lastRoot (.last b) l root π => checkProofLast root l b.hash π = true
  | .sliceRoot (.root b i) root π => checkProof root i b.hash π = true
  | .shred (.shred b i j) slot s sigOk =>
    slot = b.slot ∧ s.slice = i ∧ s.idx = j ∧ rootGet st.sliceRoots (b, i) = some s.root ∧
      s.isLast = decide (lastGet st.lastSlices b = some i) ∧ s.ty = true ∧ sigOk = true
  | _ => False

/-- every outstanding shred request has its slice root proven (what makes `unreachable!` unreachable) -/
def RootsKnown (st : RepairSt) : Prop :=
  ∀ b i j, Req.shred b i j ∈ st.outstanding → (rootGet st.sliceRoots (b, i)).isSome

/-- **A response that fails validation changes nothing (fix D4)** — wrong variant, invalid or
    truncated or foreign proof, wrong root, wrong or aliased last-slice index, shred with wrong
    slot / slice / index / root, with a last-slice flag that disagrees with the proven last slice
    index (fix D26), with a data/coding type that does not fit its index (fix D15b), or without the leader's
    signature: requester state (in particular the
    outstanding request and its pending timeout), blockstore and outputs are untouched, and the
    repair task does not panic. -/
theorem invalid_response_inert (env : Nat → Content) (cap : Nat) (st : RepairSt) (store : Store) (resp : Resp)
    (hk : RootsKnown st) (hv : ¬ Valid st resp) : handleResponse env cap st store resp = (st, store, {}) := by
  unfold handleResponse
  split
  · rfl
  · rename_i hout
    simp only [Decidable.not_not] at hout
    cases resp with
    | nack r => exact absurd trivial hv
    | lastRoot r l root π =>
      cases r with
      | last b => simp only [Valid] at hv; simp [hv]
      | root _ _ => rfl
      | shred _ _ _ => rfl
    | sliceRoot r root π =>
      cases r with
      | root b i => simp only [Valid] at hv; simp [hv]
      | last _ => rfl
      | shred _ _ _ => rfl
    | shred r slot s sigOk =>
      cases r with
      | shred b i j =>
        simp only
        split
        · rfl
        · rename_i hidx
          have hrk := hk b i j hout
          cases hroot : rootGet st.sliceRoots (b, i) with
          | none => simp [hroot] at hrk
          | some root =>
            simp only
            split
            · rfl
            · rename_i hr
              split
              · rfl
              · rename_i hl
                split
                · rfl
                · rename_i hty
                  split
                  · rfl
                  · rename_i hs
                    exfalso; apply hv
                    simp only [Valid]
                    simp only [not_or, Decidable.not_not] at hidx
                    simp only [Decidable.not_not] at hr
                    simp only [ne_eq, Decidable.not_not] at hl
                    refine ⟨hidx.1, hidx.2.1, hidx.2.2, by rw [hroot, hr], hl, by simpa using hty, by simpa using hs⟩
      | last _ => rfl
      | root _ _ => rfl

/-! ### retries -/

/-- every outstanding request has a pending timeout (so it is retried until validly answered) -/
def Tracked (st : RepairSt) : Prop := ∀ r ∈ st.outstanding, r ∈ st.timeouts

theorem sendRequest_tracked (st : RepairSt) (r : Req) (h : Tracked st) : Tracked (sendRequest st r) := by
  intro x hx
  unfold sendRequest at hx ⊢
  simp only at hx ⊢
  by_cases hxr : x = r
  · subst hxr; simp
  · have : x ∈ st.outstanding := by
      split at hx
      · exact hx
      · rcases List.mem_append.mp hx with hx | hx
        · exact hx
        · simp at hx; exact absurd hx hxr
    simp [List.mem_filter, h x this, hxr]

theorem sendRequest_outstanding (st : RepairSt) (r x : Req) :
    x ∈ (sendRequest st r).outstanding ↔ x ∈ st.outstanding ∨ x = r := by
  unfold sendRequest
  simp only
  split
  · rename_i hin; constructor
    · intro h; exact Or.inl h
    · rintro (h | rfl); exact h; exact hin
  · simp

theorem sendAll_tracked (st : RepairSt) (rs : List Req) (h : Tracked st) : Tracked (sendAll st rs) := by
  unfold sendAll
  induction rs generalizing st with
  | nil => exact h
  | cons r rest ih => exact ih _ (sendRequest_tracked st r h)

theorem done_tracked (st : RepairSt) (r : Req) (h : Tracked st) : Tracked (done st r) := by
  intro x hx
  unfold done at hx ⊢
  simp only [List.mem_filter] at hx
  exact h x hx.1

/-- **Retries are never lost.** `Tracked` holds initially and is preserved by every step of the repair
    task: starting a repair, a timeout firing, and every response whatsoever. Together with
    `invalid_response_inert` (an invalid response leaves the request outstanding) and `timeout_retries`
    this is the safety core of "cannot be derailed". -/
theorem tracked_init : Tracked RepairSt.init := by intro r hr; simp [RepairSt.init] at hr

theorem repairBlock_tracked (cap : Nat) (st : RepairSt) (store : Store) (b : Bid) (h : Tracked st) :
    Tracked (repairBlock cap st store b).1 := by
  unfold repairBlock
  split
  · exact h
  · exact sendRequest_tracked st _ h

theorem fireTimeout_tracked (st : RepairSt) (h : Tracked st) (hnd : st.timeouts.Nodup) : Tracked (fireTimeout st).1 := by
  unfold fireTimeout
  cases ht : st.timeouts with
  | nil => simp only; exact h
  | cons r rest =>
    simp only
    rw [ht] at hnd
    have hr : r ∉ rest := (List.nodup_cons.mp hnd).1
    split
    · apply sendRequest_tracked
      intro x hx
      simp only [List.mem_filter, decide_eq_true_eq] at hx
      have := h x hx.1
      rw [ht] at this
      rcases List.mem_cons.mp this with rfl | h2
      · exact absurd rfl hx.2
      · exact h2
    · rename_i hnot
      intro x hx
      simp only at hx
      have := h x hx
      rw [ht] at this
      rcases List.mem_cons.mp this with rfl | h2
      · exact absurd hx hnot
      · exact h2

/-- a timeout of a request that is still outstanding re-sends exactly that request and keeps it outstanding -/
theorem timeout_retries (st : RepairSt) (r : Req) (rest : List Req) (ht : st.timeouts = r :: rest)
    (ho : r ∈ st.outstanding) :
    (fireTimeout st).2.sent = [r] ∧ r ∈ (fireTimeout st).1.outstanding ∧ r ∈ (fireTimeout st).1.timeouts := by
  unfold fireTimeout
  simp only [ht, ho, if_true]
  refine ⟨by simp, ?_, ?_⟩
  · rw [sendRequest_outstanding]; exact Or.inr rfl
  · unfold sendRequest; simp

theorem handleResponse_tracked (env : Nat → Content) (cap : Nat) (st : RepairSt) (store : Store) (resp : Resp)
    (h : Tracked st) : Tracked (handleResponse env cap st store resp).1 := by
  unfold handleResponse
  split
  · exact h
  · cases resp with
    | nack r => exact sendRequest_tracked st r h
    | lastRoot r l root π =>
      cases r with
      | last b =>
        simp only
        split
        · exact h
        · apply sendAll_tracked
          intro x hx
          exact done_tracked st _ h x hx
      | root _ _ => exact h
      | shred _ _ _ => exact h
    | sliceRoot r root π =>
      cases r with
      | root b i =>
        simp only
        split
        · exact h
        · apply sendAll_tracked
          intro x hx
          exact done_tracked st _ h x hx
      | last _ => exact h
      | shred _ _ _ => exact h
    | shred r slot s sigOk =>
      cases r with
      | shred b i j =>
        simp only
        split
        · exact h
        · split
          · exact h
          · split
            · exact h
            · split
              · exact h
              · split
                · exact h
                · split
                  · exact h
                  · have hd := done_tracked st (.shred b i j) h
                    repeat' split
                    all_goals exact hd
      | last _ => exact h
      | root _ _ => exact h

/- Full statement (`not_derailed`): on every fair stream of responses / timeouts that eventually contains
   a correct answer to each outstanding request, an active repair completes, whatever is interleaved.
   That is now a theorem: `repair_completes` in `Props/C14Live.lean` (with the hypothesis `Admissible`,
   shown necessary there). Below is its safety core — an invalid response to an outstanding request
   leaves that request outstanding *with its retry timer pending* and changes nothing else, and the two
   invariants (`Tracked`, `RootsKnown`) survive every step — kept under its historical name. -/

/-- **Cannot be derailed (safety core).** -/
theorem not_derailed_partial (env : Nat → Content) (cap : Nat) (st : RepairSt) (store : Store) (resp : Resp)
    (ht : Tracked st) (hk : RootsKnown st) (hout : resp.req ∈ st.outstanding) (hv : ¬ Valid st resp) :
    let st' := (handleResponse env cap st store resp).1
    resp.req ∈ st'.outstanding ∧ resp.req ∈ st'.timeouts ∧ st' = st ∧
      (handleResponse env cap st store resp).2.1 = store ∧ Tracked st' ∧ RootsKnown st' := by
  have h := invalid_response_inert env cap st store resp hk hv
  simp only [h]
  exact ⟨hout, ht _ hout, trivial, trivial, ht, hk⟩

/-! ### the `unreachable!` of the shred arm is unreachable -/

theorem rootGet_rootSet (m : List ((Bid × Nat) × Nat)) (k k' : Bid × Nat) (v : Nat) :
    rootGet (rootSet m k v) k' = if k' = k then some v else rootGet m k' := by
  induction m with
  | nil => simp only [rootSet, rootGet]; split <;> simp_all [eq_comm]
  | cons kv rest ih =>
    obtain ⟨k0, w⟩ := kv
    simp only [rootSet]
    split
    · rename_i hk; subst hk
      simp only [rootGet]
      by_cases hh : k0 = k'
      · simp [hh]
      · simp [hh]; intro h2; exact absurd h2.symm hh
    · rename_i hk
      simp only [rootGet, ih]
      by_cases hh : k0 = k'
      · subst hh; simp [hk]
      · simp [hh]

theorem sendRequest_roots (st : RepairSt) (r : Req) : (sendRequest st r).sliceRoots = st.sliceRoots := rfl

theorem sendAll_roots (st : RepairSt) (rs : List Req) : (sendAll st rs).sliceRoots = st.sliceRoots := by
  unfold sendAll
  induction rs generalizing st with
  | nil => rfl
  | cons r rest ih => simp only [List.foldl_cons]; rw [ih, sendRequest_roots]

theorem sendAll_outstanding (st : RepairSt) (rs : List Req) (x : Req) :
    x ∈ (sendAll st rs).outstanding ↔ x ∈ st.outstanding ∨ x ∈ rs := by
  unfold sendAll
  induction rs generalizing st with
  | nil => simp
  | cons r rest ih =>
    simp only [List.foldl_cons, ih, sendRequest_outstanding, List.mem_cons]
    constructor
    · rintro ((h | h) | h)
      · exact Or.inl h
      · exact Or.inr (Or.inl h)
      · exact Or.inr (Or.inr h)
    · rintro (h | h | h)
      · exact Or.inl (Or.inl h)
      · exact Or.inl (Or.inr h)
      · exact Or.inr h

theorem rootsKnown_init : RootsKnown RepairSt.init := by intro b i j h; simp [RepairSt.init] at h

theorem sendRequest_rootsKnown (st : RepairSt) (r : Req) (h : RootsKnown st)
    (hr : ∀ b i j, r = .shred b i j → (rootGet st.sliceRoots (b, i)).isSome) : RootsKnown (sendRequest st r) := by
  intro b i j hx
  rw [sendRequest_outstanding] at hx
  rw [sendRequest_roots]
  rcases hx with hx | hx
  · exact h b i j hx
  · exact hr b i j hx.symm

theorem done_rootsKnown (st : RepairSt) (r : Req) (h : RootsKnown st) : RootsKnown (done st r) := by
  intro b i j hx
  unfold done at hx ⊢
  simp only [List.mem_filter] at hx
  exact h b i j hx.1

theorem repairBlock_rootsKnown (cap : Nat) (st : RepairSt) (store : Store) (b : Bid) (h : RootsKnown st) :
    RootsKnown (repairBlock cap st store b).1 := by
  unfold repairBlock
  split
  · exact h
  · exact sendRequest_rootsKnown st _ h (by intro b i j hh; simp at hh)

theorem fireTimeout_rootsKnown (st : RepairSt) (h : RootsKnown st) : RootsKnown (fireTimeout st).1 := by
  unfold fireTimeout
  split
  · exact h
  · rename_i r rest ht
    simp only
    split
    · rename_i hin
      apply sendRequest_rootsKnown
      · intro b i j hx
        simp only [List.mem_filter] at hx
        exact h b i j hx.1
      · intro b i j hr
        subst hr
        exact h b i j hin
    · exact h

/-- **`RootsKnown` is an invariant of the repair task** (with `rootsKnown_init`, `repairBlock_rootsKnown`,
    `fireTimeout_rootsKnown`): a shred request is only ever issued after the slice root was proven and
    proven roots are never forgotten, so the `unreachable!` in the shred arm cannot be reached. -/
theorem handleResponse_rootsKnown (env : Nat → Content) (cap : Nat) (st : RepairSt) (store : Store) (resp : Resp)
    (h : RootsKnown st) : RootsKnown (handleResponse env cap st store resp).1 := by
  unfold handleResponse
  split
  · exact h
  · rename_i hout
    simp only [Decidable.not_not] at hout
    cases resp with
    | nack r =>
      apply sendRequest_rootsKnown st r h
      intro b i j hr; subst hr; exact h b i j hout
    | lastRoot r l root π =>
      cases r with
      | last b =>
        simp only
        split
        · exact h
        · intro b' i j hx
          rw [sendAll_outstanding] at hx
          rw [sendAll_roots]
          rcases hx with hx | hx
          · have := done_rootsKnown st (.last b) h b' i j hx
            simp only [done] at this ⊢
            rw [rootGet_rootSet]
            split
            · rfl
            · exact this
          · simp at hx
      | root _ _ => exact h
      | shred _ _ _ => exact h
    | sliceRoot r root π =>
      cases r with
      | root b i0 =>
        simp only
        split
        · exact h
        · intro b' i j hx
          rw [sendAll_outstanding] at hx
          rw [sendAll_roots]
          simp only [done]
          rw [rootGet_rootSet]
          rcases hx with hx | hx
          · have := done_rootsKnown st (.root b i0) h b' i j hx
            simp only [done] at this
            split
            · rfl
            · exact this
          · simp only [List.mem_map, List.mem_range] at hx
            obtain ⟨j', _, hj⟩ := hx
            simp only [Req.shred.injEq] at hj
            obtain ⟨rfl, rfl, _⟩ := hj
            simp
      | last _ => exact h
      | shred _ _ _ => exact h
    | shred r slot s sigOk =>
      cases r with
      | shred b i j =>
        simp only
        split
        · exact h
        · split
          · exact h
          · split
            · exact h
            · split
              · exact h
              · split
                · exact h
                · split
                  · exact h
                  · have hd := done_rootsKnown st (.shred b i j) h
                    repeat' split
                    all_goals exact hd
      | last _ => exact h
      | root _ _ => exact h

/-- the shred arm never hits `unreachable!` under the invariant: a panic can then only come from the
    blockstore (`add_shred_from_repair`) or the two asserts after it -/
theorem shred_arm_root_known (st : RepairSt) (b : Bid) (i j : Nat) (h : RootsKnown st)
    (hout : Req.shred b i j ∈ st.outstanding) : ∃ root, rootGet st.sliceRoots (b, i) = some root := by
  have := h b i j hout
  cases hr : rootGet st.sliceRoots (b, i) with
  | none => simp [hr] at this
  | some root => exact ⟨root, rfl⟩

/-! ### responder -/

/-- **Requests that cannot be served are NACKed**: if the blockstore holds no data for the block id
    (neither a completed disseminated block with that hash nor a repair spot), every request about
    it is answered with `Nack` of exactly that request. -/
theorem responder_nacks_unknown (sd : SlotData) (r : Req)
    (hnone : ∀ b, (r = .last b ∨ (∃ i, r = .root b i) ∨ (∃ i j, r = .shred b i j)) → blockData sd b.hash = none) :
    answer sd r = some (.nack r) := by
  cases r with
  | last b =>
    have := hnone b (Or.inl rfl)
    simp [answer, getLastSliceIndex, this]
  | root b i =>
    have := hnone b (Or.inr (Or.inl ⟨i, rfl⟩))
    simp [answer, getSliceRoot, this]
  | shred b i j =>
    have := hnone b (Or.inr (Or.inr ⟨i, j, rfl⟩))
    simp [answer, getShred, this]

end AgModel.Repair
