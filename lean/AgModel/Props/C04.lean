import AgModel.Proofs.PoolCerts
/-!
# C04 — Vote admission: one countable vote per validator, slashing flagged order-free

About the admission filter of the pool model (`Pool.addVote` = bounds, `check_slashable_offence`,
`should_ignore_vote`) and the vote stores of a slot, for every reachable slot state and every vote.
-/
namespace AgModel.Pool

/-- the verdict of `Pool::add_vote` is: out of bounds, else the slashable offence found by
    `check_slashable_offence`, else duplicate if `should_ignore_vote`, else accepted. -/
theorem addVote_verdict (p : Pool) (v : Vote) (hs : v.signer < p.epoch.n) :
    (p.addVote v).2.1 =
      if p.outOfBounds v.slot then .oob
      else match (p.slotState v.slot).2.checkSlashable v with
        | some o => .slash o
        | none => if (p.slotState v.slot).2.shouldIgnore v then .dup else .ok := by
  unfold Pool.addVote
  split
  · rfl
  · have : ¬ v.signer ≥ p.epoch.n := by omega
    simp only [this, if_false]
    split <;> rename_i h <;> simp only [h]
    split <;> rfl

/-- `slot_bounds`: a vote is refused as out of bounds exactly below the pruning watermark or
    `2 * SLOTS_PER_EPOCH` or more above the highest finalized slot. -/
theorem slot_bounds (p : Pool) (v : Vote) :
    ((p.addVote v).2.1 = .oob ↔ (v.slot < p.fin.first ∨ v.slot ≥ p.fin.highest + 2 * Gen.SLOTS_PER_EPOCH))
      ∨ v.signer ≥ p.epoch.n := by
  by_cases hs : v.signer < p.epoch.n
  · left
    rw [addVote_verdict p v hs]
    unfold Pool.outOfBounds
    constructor
    · intro h
      split at h
      · rename_i hb; simpa using hb
      · split at h
        · cases h
        · split at h <;> cases h
    · intro h
      have : (decide (v.slot < p.fin.first) || decide (v.slot ≥ p.fin.highest + 2 * Gen.SLOTS_PER_EPOCH)) = true := by
        simpa using h
      simp [this]
  · right; omega

/-- a vote `x` is stored in the slot state -/
def Stored (st : SlotState) (x : Vote) : Prop :=
  match x.kind with
  | .notar => st.vNotar.lookup x.signer = some x.hash
  | .nf => (x.signer, x.hash) ∈ st.vNf
  | .skip => x.signer ∈ st.vSkip
  | .sf => x.signer ∈ st.vSf
  | .final => x.signer ∈ st.vFin

/-- the slashable conflicts of the protocol (symmetric by definition) -/
def conflict (x y : Vote) : Option Offence :=
  match x.kind, y.kind with
  | .notar, .notar => if x.hash ≠ y.hash then some .notarDifferentHash else none
  | .skip, .notar => some .skipAndNotarize
  | .notar, .skip => some .skipAndNotarize
  | .final, .skip => some .skipAndFinalize
  | .skip, .final => some .skipAndFinalize
  | .final, .sf => some .skipAndFinalize
  | .sf, .final => some .skipAndFinalize
  | .final, .nf => some .nfAndFinalize
  | .nf, .final => some .nfAndFinalize
  | _, _ => none

theorem conflict_symm (x y : Vote) : conflict x y = conflict y x := by
  unfold conflict
  cases x.kind <;> cases y.kind <;> simp
  by_cases h : x.hash = y.hash
  · simp [h]
  · have : ¬ y.hash = x.hash := fun e => h e.symm
    simp [h, this]

/-- equivalent repeats: the same vote, or skip / skip-fallback of one validator, or notar /
    notar-fallback for the same block -/
def equivalent (x y : Vote) : Bool :=
  match x.kind, y.kind with
  | .notar, .notar => true
  | .notar, .nf => x.hash == y.hash
  | .nf, .notar => x.hash == y.hash
  | .nf, .nf => x.hash == y.hash
  | .skip, .skip | .skip, .sf | .sf, .skip | .sf, .sf => true
  | .final, .final => true
  | _, _ => false

/-- **A refusal always has a reason**: a vote is reported slashable only if a conflicting vote of the
    same validator is stored (and the reported offence is that conflict); it is refused as a
    duplicate only if an equivalent vote of the same validator is stored. Hence a vote that neither
    conflicts with nor repeats an accepted vote of its validator is never refused or reported. -/
theorem refusal_reason (st : SlotState) (y : Vote) :
    (∀ o, st.checkSlashable y = some o → ∃ x, Stored st x ∧ x.signer = y.signer ∧ conflict x y = some o) ∧
    (st.checkSlashable y = none → st.shouldIgnore y = true →
      ∃ x, Stored st x ∧ x.signer = y.signer ∧ equivalent x y = true) := by
  constructor
  · intro o ho
    unfold SlotState.checkSlashable at ho
    cases hk : y.kind <;> simp only [hk] at ho
    · -- notar
      split at ho
      · rename_i h; cases ho
        exact ⟨⟨.skip, y.slot, 0, y.signer⟩, by simpa [Stored, List.contains_eq_mem] using h, rfl, by simp [conflict, hk]⟩
      · split at ho
        · rename_i h' hl
          split at ho
          · rename_i hne; cases ho
            exact ⟨⟨.notar, y.slot, h', y.signer⟩, by simpa [Stored] using hl, rfl, by
              simp only [conflict, hk]; simp; exact fun e => hne e.symm⟩
          · cases ho
        · cases ho
    · -- nf
      split at ho
      · rename_i h; cases ho
        exact ⟨⟨.final, y.slot, 0, y.signer⟩, by simpa [Stored, List.contains_eq_mem] using h, rfl, by simp [conflict, hk]⟩
      · cases ho
    · -- skip
      split at ho
      · rename_i h; cases ho
        exact ⟨⟨.final, y.slot, 0, y.signer⟩, by simpa [Stored, List.contains_eq_mem] using h, rfl, by simp [conflict, hk]⟩
      · split at ho
        · rename_i h; cases ho
          cases hl : st.vNotar.lookup y.signer with
          | none => simp [hl] at h
          | some b => exact ⟨⟨.notar, y.slot, b, y.signer⟩, by simpa [Stored] using hl, rfl, by simp [conflict, hk]⟩
        · cases ho
    · -- sf
      split at ho
      · rename_i h; cases ho
        exact ⟨⟨.final, y.slot, 0, y.signer⟩, by simpa [Stored, List.contains_eq_mem] using h, rfl, by simp [conflict, hk]⟩
      · cases ho
    · -- final
      split at ho
      · rename_i h; cases ho
        simp only [Bool.or_eq_true] at h
        rcases h with h | h
        · exact ⟨⟨.skip, y.slot, 0, y.signer⟩, by simpa [Stored, List.contains_eq_mem] using h, rfl, by simp [conflict, hk]⟩
        · exact ⟨⟨.sf, y.slot, 0, y.signer⟩, by simpa [Stored, List.contains_eq_mem] using h, rfl, by simp [conflict, hk]⟩
      · split at ho
        · rename_i h; cases ho
          simp only [List.any_eq_true] at h
          obtain ⟨⟨a, b⟩, hm, ha⟩ := h
          have : a = y.signer := by simpa using ha
          rw [this] at hm
          exact ⟨⟨.nf, y.slot, b, y.signer⟩, by simpa [Stored] using hm, rfl, by simp [conflict, hk]⟩
        · cases ho
  · intro _ hi
    unfold SlotState.shouldIgnore at hi
    cases hk : y.kind <;> simp only [hk] at hi
    · simp only [Bool.or_eq_true] at hi
      rcases hi with hi | hi
      · cases hl : st.vNotar.lookup y.signer with
        | none => simp [hl] at hi
        | some b => exact ⟨⟨.notar, y.slot, b, y.signer⟩, by simpa [Stored] using hl, rfl, by simp [equivalent, hk]⟩
      · exact ⟨⟨.nf, y.slot, y.hash, y.signer⟩, by simpa [Stored, List.contains_eq_mem] using hi, rfl, by simp [equivalent, hk]⟩
    · simp only [Bool.or_eq_true] at hi
      rcases hi with hi | hi
      · exact ⟨⟨.nf, y.slot, y.hash, y.signer⟩, by simpa [Stored, List.contains_eq_mem] using hi, rfl, by simp [equivalent, hk]⟩
      · exact ⟨⟨.notar, y.slot, y.hash, y.signer⟩, by simpa [Stored] using hi, rfl, by simp [equivalent, hk]⟩
    · simp only [Bool.or_eq_true] at hi
      rcases hi with hi | hi
      · exact ⟨⟨.skip, y.slot, 0, y.signer⟩, by simpa [Stored, List.contains_eq_mem] using hi, rfl, by simp [equivalent, hk]⟩
      · exact ⟨⟨.sf, y.slot, 0, y.signer⟩, by simpa [Stored, List.contains_eq_mem] using hi, rfl, by simp [equivalent, hk]⟩
    · simp only [Bool.or_eq_true] at hi
      rcases hi with hi | hi
      · exact ⟨⟨.sf, y.slot, 0, y.signer⟩, by simpa [Stored, List.contains_eq_mem] using hi, rfl, by simp [equivalent, hk]⟩
      · exact ⟨⟨.skip, y.slot, 0, y.signer⟩, by simpa [Stored, List.contains_eq_mem] using hi, rfl, by simp [equivalent, hk]⟩
    · exact ⟨⟨.final, y.slot, 0, y.signer⟩, by simpa [Stored, List.contains_eq_mem] using hi, rfl, by simp [equivalent, hk]⟩

theorem adm_notar_facts (st : SlotState) (y : Vote) (hk : y.kind = .notar) (h : Adm st y) :
    y.signer ∉ st.vSkip ∧ st.vNotar.lookup y.signer = none ∧ (y.signer, y.hash) ∉ st.vNf := by
  obtain ⟨hs, hi⟩ := h
  unfold SlotState.checkSlashable at hs
  unfold SlotState.shouldIgnore at hi
  simp only [hk] at hs hi
  have hnot : st.vNotar.lookup y.signer = none := by
    cases h2 : st.vNotar.lookup y.signer with
    | none => rfl
    | some x => simp [h2] at hi
  exact ⟨fun h => by simp [h] at hs, hnot, fun h => by simp [h, hnot] at hi⟩

theorem adm_skip_facts (st : SlotState) (y : Vote) (hk : y.kind = .skip) (h : Adm st y) :
    y.signer ∉ st.vFin ∧ st.vNotar.lookup y.signer = none ∧ y.signer ∉ st.vSkip ∧ y.signer ∉ st.vSf := by
  obtain ⟨hs, hi⟩ := h
  unfold SlotState.checkSlashable at hs
  unfold SlotState.shouldIgnore at hi
  simp only [hk] at hs hi
  have hfin : y.signer ∉ st.vFin := fun h => by simp [h] at hs
  have hnot : st.vNotar.lookup y.signer = none := by
    cases h2 : st.vNotar.lookup y.signer with
    | none => rfl
    | some x => simp [h2, hfin] at hs
  exact ⟨hfin, hnot, fun h => by simp [h] at hi, fun h => by simp [h] at hi⟩

theorem adm_final_facts (st : SlotState) (y : Vote) (hk : y.kind = .final) (h : Adm st y) :
    y.signer ∉ st.vSkip ∧ y.signer ∉ st.vSf ∧ (∀ b, (y.signer, b) ∉ st.vNf) ∧ y.signer ∉ st.vFin := by
  obtain ⟨hs, hi⟩ := h
  unfold SlotState.checkSlashable at hs
  unfold SlotState.shouldIgnore at hi
  simp only [hk] at hs hi
  have hskip : y.signer ∉ st.vSkip := fun h => by simp [h] at hs
  have hsf : y.signer ∉ st.vSf := fun h => by simp [h] at hs
  refine ⟨hskip, hsf, ?_, fun h => by simp [h] at hi⟩
  intro b hm
  have : st.vNf.any (·.1 == y.signer) = true := by
    simp only [List.any_eq_true]; exact ⟨_, hm, by simp⟩
  simp [hskip, hsf, this] at hs

theorem slash_after (e : Epoch) (st : SlotState) (x y : Vote) (o : Offence) (hs : x.signer = y.signer)
    (hc : conflict x y = some o) (hx : Adm st x) (hy : Adm st y) : (st.stored e x).checkSlashable y = some o := by
  unfold conflict at hc
  cases hkx : x.kind <;> cases hky : y.kind <;> simp only [hkx, hky] at hc <;> try (cases hc; done)
  case notar.notar =>
    obtain ⟨a1, a2, _⟩ := adm_notar_facts st y hky hy
    split at hc
    · rename_i hne; cases hc
      unfold SlotState.checkSlashable SlotState.stored
      simp only [hkx, hky, hs]
      have hl := lookup_after_store st.vNotar y.signer x.hash y.signer a2
      rw [hl]
      simp [a1]; exact fun (e : y.hash = x.hash) => hne e.symm
    · cases hc
  case notar.skip =>
    obtain ⟨a1, a2, _, _⟩ := adm_skip_facts st y hky hy
    cases hc
    unfold SlotState.checkSlashable SlotState.stored
    simp only [hkx, hky, hs]
    have hl := lookup_after_store st.vNotar y.signer x.hash y.signer a2
    rw [hl]
    simp [a1]
  case nf.final =>
    obtain ⟨a1, a2, _, _⟩ := adm_final_facts st y hky hy
    cases hc
    unfold SlotState.checkSlashable SlotState.stored
    simp only [hkx, hky, hs]
    simp [a1, a2, List.any_append]
  all_goals (
    obtain ⟨hsy, hiy⟩ := hy
    obtain ⟨hsx, hix⟩ := hx
    unfold SlotState.checkSlashable at hsy hsx ⊢
    unfold SlotState.shouldIgnore at hiy hix
    unfold SlotState.stored
    simp only [hkx, hky] at hsy hiy hsx hix ⊢
    rw [hs] at *
    simp_all [List.contains_eq_mem, lookup_append_single, List.any_append])

/-- **Slashing is flagged order-free.** For every pair of conflicting votes of one validator
    (notarize two blocks; skip & notarize; finalize & skip; finalize & skip-fallback; finalize &
    notar-fallback) that are both individually admissible in a state: whichever is accepted first, the
    other is then refused and reported as the same offence. -/
theorem slash_order_free (e : Epoch) (st : SlotState) (x y : Vote) (o : Offence) (hs : x.signer = y.signer)
    (hc : conflict x y = some o) (hx : Adm st x) (hy : Adm st y) :
    (st.stored e x).checkSlashable y = some o ∧ (st.stored e y).checkSlashable x = some o :=
  ⟨slash_after e st x y o hs hc hx hy, slash_after e st y x o hs.symm (by rw [conflict_symm]; exact hc) hy hx⟩

/-- checkSlashable / shouldIgnore only look at the vote stores -/
theorem admission_coreEq {a b : SlotState} (h : CoreEq a b) (y : Vote) :
    a.checkSlashable y = b.checkSlashable y ∧ a.shouldIgnore y = b.shouldIgnore y := by
  have h1 : a.vNotar = b.vNotar := (congrArg SlotState.vNotar h.eq : a.core.vNotar = b.core.vNotar)
  have h2 : a.vNf = b.vNf := (congrArg SlotState.vNf h.eq : a.core.vNf = b.core.vNf)
  have h3 : a.vSkip = b.vSkip := (congrArg SlotState.vSkip h.eq : a.core.vSkip = b.core.vSkip)
  have h4 : a.vSf = b.vSf := (congrArg SlotState.vSf h.eq : a.core.vSf = b.core.vSf)
  have h5 : a.vFin = b.vFin := (congrArg SlotState.vFin h.eq : a.core.vFin = b.core.vFin)
  unfold SlotState.checkSlashable SlotState.shouldIgnore
  rw [h1, h2, h3, h4, h5]; exact ⟨rfl, rfl⟩

/-- **Counted at most once per class** (from the invariant): in every state reachable by a history of
    slot operations each validator occurs at most once in each vote store (per block for
    notar-fallback), the accepted votes of one validator are conflict-free, and (C03
    `counters_are_recounts`) each counter is the stake of the distinct validators in its store. -/
theorem counted_once (e : Epoch) (hpos : 0 < e.total) (slot : Nat) (ops : List SlotOp) :
    let st := (slotRun e { slot := slot } ops).1
    (st.vNotar.map Prod.fst).Nodup ∧ st.vNf.Nodup ∧ st.vSkip.Nodup ∧ st.vSf.Nodup ∧ st.vFin.Nodup ∧
    (∀ v, v ∈ st.vSkip → st.vNotar.lookup v = none) ∧
    (∀ v, v ∈ st.vFin → v ∉ st.vSkip ∧ v ∉ st.vSf ∧ ∀ h, (v, h) ∉ st.vNf) ∧
    (∀ v, v ∈ st.vSkip → v ∉ st.vSf) ∧ (∀ v h, (v, h) ∈ st.vNf → st.vNotar.lookup v ≠ some h) := by
  have i := (slotRun_Inv e ops _ (Inv.init e slot hpos)).1
  exact ⟨i.notarNodup, i.nfNodup, i.skipNodup, i.sfNodup, i.finNodup, i.noSkipNotar, i.noFinSkip, i.noSkipSf, i.noNotarNfSame⟩

/-! non-vacuity: the legitimate combinations are all accepted, in a "worst" order -/
example :
    let e : Epoch := { stakes := [1, 1, 1, 1, 1], own := 0 }
    let votes : List Vote := [⟨.nf, 2, 8, 3⟩, ⟨.notar, 2, 7, 3⟩, ⟨.sf, 2, 0, 3⟩, ⟨.nf, 2, 9, 3⟩,   -- notarize + nf others + sf
                              ⟨.nf, 2, 7, 4⟩, ⟨.skip, 2, 0, 4⟩,                                 -- skip + nf
                              ⟨.final, 2, 0, 1⟩, ⟨.notar, 2, 7, 1⟩]                              -- notarize + finalize
    let p0 : Pool := { epoch := e }
    (votes.foldl (fun (acc : Pool × List Verdict) v => let r := acc.1.addVote v; (r.1, acc.2 ++ [r.2.1])) (p0, [])).2
      = [.ok, .ok, .ok, .ok, .ok, .ok, .ok, .ok] := by decide

end AgModel.Pool
