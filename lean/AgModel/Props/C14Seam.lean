import AgModel.Proofs.SeamRepair
import AgModel.Proofs.SeamRegen
import AgModel.Proofs.ShredInstance
import AgModel.Props.C12Seam
import AgModel.Props.C14Live
/-!
# The repair half of the seam between the two shred models (C14 / C12)

`Model/RepairAbs.lean`: `FResp` (a repair response as received: slice roots are hashes, a shred response is a RAW
shred), `fHandle` (`Repair::handle_response` on it, in code order, down to `ValidatedShred::try_new(_, None, leader)`
and `add_shred_from_repair`), `absResp` (the stateless abstraction to the coarse `Repair.Resp`; `sigOk` := `try_new`
accepts). Here: the simulation theorem and what it transfers from `Props/C14.lean` / `Props/C14Live.lean` to raw
responses.
-/
set_option linter.unusedSimpArgs false
namespace AgModel.Seam.Repair
open AgModel.Shred (Env VShred validate)
open AgModel.Blockstore (Content Event HBlock)
open AgModel.Repair (Bid Req Resp RepairSt Store Out Sys Ev)
open AgModel.Merkle (H)

/-- the abstraction of a raw event -/
def absEv (env : Env) (rid : RootId) (pk : Nat → Nat) : FEv → Ev
  | .resp r => .resp (absResp env rid pk r)
  | .timeout => .timeout
  | .start b => .start b

/-- the coarse system a fine requester stands for -/
def FSys.sys (σ : FSys) : Sys := ⟨σ.st, σ.store⟩

theorem rootsAgree_init (rid : RootId) (store : Store) : RootsAgree rid ⟨AgModel.Repair.RepairSt.init, [], store⟩ := rfl

theorem fStep_refines (env : Env) (cenv : Nat → Content) (rid : RootId) (hinj : ∀ a b, rid a = rid b → a = b)
    (pk : Nat → Nat) (cap : Nat) (σ : FSys) (hR : RootsAgree rid σ) (e : FEv) :
    RootsAgree rid (fStep env cenv rid pk cap σ e).1 ∧
    ((fStep env cenv rid pk cap σ e).1.sys, (fStep env cenv rid pk cap σ e).2) =
      AgModel.Repair.stepEv cenv cap σ.sys (absEv env rid pk e) := by
  cases e with
  | resp r =>
    obtain ⟨h1, h2⟩ := fHandle_refines env cenv rid hinj pk cap σ hR r
    refine ⟨h1, ?_⟩
    simp only [fStep, absEv, AgModel.Repair.stepEv, FSys.sys]
    rw [← h2]
  | timeout =>
    refine ⟨?_, rfl⟩
    unfold RootsAgree at hR ⊢
    simp only [fStep]
    rw [← hR]
    unfold AgModel.Repair.fireTimeout
    split
    · rfl
    · simp only
      split <;> rfl
  | start b =>
    refine ⟨?_, rfl⟩
    unfold RootsAgree at hR ⊢
    simp only [fStep]
    rw [← hR]
    unfold AgModel.Repair.repairBlock
    repeat' split
    all_goals rfl

/-- **Simulation (refinement) for the repair path, every schedule of raw events.** For every sequence of raw repair
    responses - any variant, any proof, any root hash, any shred bytes / header / signature / Merkle path / type /
    index, replies to requests never made, replays -, timeouts and `repair_block` calls: running the fine requester
    (`handle_response` in code order on the raw data: header checks, root re-derived from the payload against the
    proven root hash, last-slice flag, `has_expected_type`, `try_new(_, None, leader(slot))`, then
    `add_shred_from_repair`) gives exactly the requester state, the blockstore and the outputs (requests sent,
    blockstore events, `pool.add_block`, panics) of the coarse model `Repair.run` on the abstraction of the events,
    where a raw shred response abstracts to the coarse response with `sigOk` := "`try_new(_, None, leader)` accepts
    it". So the coarse model is run on exactly the raw responses that pass the fine checks, and every theorem of
    `Props/C14.lean` / `Props/C14Live.lean` about `Repair.run` speaks about raw responses. `hinj`: no SHA-256
    collision among slice roots (the coarse model compares interned roots, the code compares hashes). -/
theorem repair_refines (env : Env) (cenv : Nat → Content) (rid : RootId) (hinj : ∀ a b, rid a = rid b → a = b)
    (pk : Nat → Nat) (cap : Nat) (σ : FSys) (hR : RootsAgree rid σ) (evs : List FEv) :
    RootsAgree rid (fRun env cenv rid pk cap σ evs).1 ∧
    ((fRun env cenv rid pk cap σ evs).1.sys, (fRun env cenv rid pk cap σ evs).2) =
      AgModel.Repair.run cenv cap σ.sys (evs.map (absEv env rid pk)) := by
  induction evs generalizing σ with
  | nil => exact ⟨hR, rfl⟩
  | cons e rest ih =>
    obtain ⟨h1, h2⟩ := fStep_refines env cenv rid hinj pk cap σ hR e
    obtain ⟨i1, i2⟩ := ih _ h1
    refine ⟨i1, ?_⟩
    have h2a := congrArg Prod.fst h2
    have h2b := congrArg Prod.snd h2
    have i2a := congrArg Prod.fst i2
    have i2b := congrArg Prod.snd i2
    simp only at h2a h2b i2a i2b
    simp only [fRun, List.map_cons, AgModel.Repair.run]
    rw [← h2a, ← h2b, ← i2a, ← i2b]

/-! ### integrity on raw responses -/

theorem addRepair_events_block (cenv : Nat → Content) (sd : Blockstore.SlotData) (h : H) (s : Blockstore.Shred)
    (info : Blockstore.BlockInfo) (hin : Event.block info ∈ (Blockstore.addRepair cenv sd h s).2.2) :
    (Blockstore.addRepair cenv sd h s).2.1 = .ev (.block info) := by
  unfold Blockstore.addRepair Blockstore.flagIfBad at hin ⊢
  simp only at hin ⊢
  split at hin
  · exfalso
    unfold Blockstore.flag at hin
    split at hin <;> simp at hin
  · rename_i hb
    rw [if_neg hb]
    simp only
    generalize (Blockstore.fileRepair sd h _ _).2 = r at hin
    cases r with
    | ev e => simp [Blockstore.evOf] at hin; rw [hin]
    | none => simp [Blockstore.evOf] at hin
    | err e => simp [Blockstore.evOf] at hin
    | panic => simp [Blockstore.evOf] at hin

theorem ingest_events (cenv : Nat → Content) (cap : Nat) (st : RepairSt) (store : Store) (b : Bid) (cs : Blockstore.Shred) :
    (ingest cenv cap st store b cs).2.2.events =
      (Blockstore.addRepair cenv (AgModel.Repair.storeGet cap store b.slot) b.hash cs).2.2 := by
  unfold ingest
  simp only
  repeat' split
  all_goals rfl

/-- the only step of the fine requester that produces blockstore events: a shred response to an outstanding shred
    request whose raw shred passed every check, `try_new(_, None, leader)` last -/
theorem fHandle_events (env : Env) (cenv : Nat → Content) (rid : RootId) (pk : Nat → Nat) (cap : Nat) (σ : FSys)
    (resp : FResp) :
    (fHandle env cenv rid pk cap σ resp).2.events = [] ∨
    ∃ b i j raw v, resp = .shred (.shred b i j) raw ∧ Req.shred b i j ∈ σ.st.outstanding ∧
      raw.header.slot = b.slot ∧ raw.header.sliceIdx = i ∧ raw.index = j ∧
      frootGet σ.froots (b, i) = some (raw.sliceRoot env) ∧ raw.typeOk = true ∧
      validate env raw none (pk b.slot) = .ok v ∧
      (fHandle env cenv rid pk cap σ resp).2.events =
        (Blockstore.addRepair cenv (AgModel.Repair.storeGet cap σ.store b.slot) b.hash (absShred rid v)).2.2 := by
  unfold fHandle
  split
  · left; rfl
  · rename_i hout
    simp only [Decidable.not_not] at hout
    cases resp with
    | nack r => left; rfl
    | lastRoot r l root π =>
      cases r with
      | last b => simp only; split <;> (left; rfl)
      | root _ _ => left; rfl
      | shred _ _ _ => left; rfl
    | sliceRoot r root π =>
      cases r with
      | root b i => simp only; split <;> (left; rfl)
      | last _ => left; rfl
      | shred _ _ _ => left; rfl
    | shred r raw =>
      cases r with
      | last _ => left; rfl
      | root _ _ => left; rfl
      | shred b i j =>
        simp only
        split
        · left; rfl
        · rename_i h1
          simp only [not_or, Decidable.not_not] at h1
          split
          · left; rfl
          · rename_i R hfr
            split
            · left; rfl
            · rename_i h3
              simp only [ne_eq, Decidable.not_not] at h3
              split
              · left; rfl
              · split
                · left; rfl
                · rename_i h5
                  split
                  · left; rfl
                  · rename_i v hv
                    right
                    refine ⟨b, i, j, raw, v, rfl, hout, h1.1, h1.2.1, h1.2.2, by rw [hfr, h3], by simpa using h5, hv, ?_⟩
                    exact ingest_events cenv cap _ σ.store b _

theorem ingest_store (cenv : Nat → Content) (cap : Nat) (st : RepairSt) (store : Store) (b : Bid) (cs : Blockstore.Shred) :
    (ingest cenv cap st store b cs).2.1 = AgModel.Repair.storeSet store b.slot
      (Blockstore.addRepair cenv (AgModel.Repair.storeGet cap store b.slot) b.hash cs).1 := by
  unfold ingest
  simp only
  repeat' split
  all_goals rfl

/-- the blockstore is only ever written by `add_shred_from_repair` -/
theorem fHandle_store (env : Env) (cenv : Nat → Content) (rid : RootId) (pk : Nat → Nat) (cap : Nat) (σ : FSys)
    (resp : FResp) :
    (fHandle env cenv rid pk cap σ resp).1.store = σ.store ∨
    ∃ (b : Bid) (cs : Blockstore.Shred), (fHandle env cenv rid pk cap σ resp).1.store = AgModel.Repair.storeSet σ.store b.slot
      (Blockstore.addRepair cenv (AgModel.Repair.storeGet cap σ.store b.slot) b.hash cs).1 := by
  unfold fHandle
  split
  · left; rfl
  · cases resp with
    | nack r => left; rfl
    | lastRoot r l root π =>
      cases r with
      | last b => simp only; split <;> (left; rfl)
      | root _ _ => left; rfl
      | shred _ _ _ => left; rfl
    | sliceRoot r root π =>
      cases r with
      | root b i => simp only; split <;> (left; rfl)
      | last _ => left; rfl
      | shred _ _ _ => left; rfl
    | shred r raw =>
      cases r with
      | last _ => left; rfl
      | root _ _ => left; rfl
      | shred b i j =>
        simp only
        split
        · left; rfl
        · split
          · left; rfl
          · split
            · left; rfl
            · split
              · left; rfl
              · split
                · left; rfl
                · split
                  · left; rfl
                  · rename_i v hv
                    right
                    exact ⟨b, absShred rid v, ingest_store cenv cap _ σ.store b _⟩

/-- **Announced only under the requested hash - raw responses** (C14 `repair_announces_requested_hash` transferred).
    Whatever raw response arrives in whatever requester state: if the step sends a `Block` event to Votor, then the
    response is a shred response to an outstanding `Shred(b, i, j)` request whose raw shred is for `b`'s slot, slice
    `i`, index `j`, re-derives the slice root proven for `(b, i)`, carries the type fitting its index and passes
    `ValidatedShred::try_new(_, None, leader(b.slot))` - and the announced block hashes to the requested `b.hash`. -/
theorem raw_repair_announces_requested_hash (env : Env) (cenv : Nat → Content) (rid : RootId) (pk : Nat → Nat) (cap : Nat)
    (σ : FSys) (resp : FResp) (info : Blockstore.BlockInfo)
    (hev : Event.block info ∈ (fHandle env cenv rid pk cap σ resp).2.events) :
    ∃ b i j raw v, resp = .shred (.shred b i j) raw ∧ Req.shred b i j ∈ σ.st.outstanding ∧
      raw.header.slot = b.slot ∧ raw.header.sliceIdx = i ∧ raw.index = j ∧
      frootGet σ.froots (b, i) = some (raw.sliceRoot env) ∧ raw.typeOk = true ∧
      validate env raw none (pk b.slot) = .ok v ∧ info.hash = b.hash := by
  rcases fHandle_events env cenv rid pk cap σ resp with h | ⟨b, i, j, raw, v, h1, h2, h3, h4, h5, h6, h7, h8, h9⟩
  · rw [h] at hev; cases hev
  · rw [h9] at hev
    exact ⟨b, i, j, raw, v, h1, h2, h3, h4, h5, h6, h7, h8,
      AgModel.Repair.repair_announces_requested_hash cenv _ b.hash _ info (addRepair_events_block cenv _ _ _ info hev)⟩

/-- **Stored only under the matching id - raw schedules** (C14 `addRepair_repOk` / `getBlock_hash` transferred): along
    every schedule of raw events, `get_block((slot, h))` only ever returns a block hashing to `h`. -/
theorem raw_getBlock_hash (env : Env) (cenv : Nat → Content) (rid : RootId) (hinj : ∀ a b, rid a = rid b → a = b)
    (pk : Nat → Nat) (cap : Nat) (σ : FSys) (hR : RootsAgree rid σ)
    (hok : ∀ slot, AgModel.Repair.RepOk (AgModel.Repair.storeGet cap σ.store slot)) (evs : List FEv)
    (slot : Nat) (h : H) (blk : Blockstore.Block)
    (hg : Blockstore.getBlock (AgModel.Repair.storeGet cap (fRun env cenv rid pk cap σ evs).1.store slot) h = some blk) :
    blk.hash = h := by
  apply AgModel.Repair.getBlock_hash _ h blk _ hg
  clear hg
  induction evs generalizing σ with
  | nil => exact hok slot
  | cons e rest ih =>
    simp only [fRun]
    apply ih _ (fStep_refines env cenv rid hinj pk cap σ hR e).1
    intro slot'
    cases e with
    | timeout => exact hok slot'
    | start b => exact hok slot'
    | resp r =>
      simp only [fStep]
      rcases fHandle_store env cenv rid pk cap σ r with hs | ⟨b, cs, hs⟩
      · rw [hs]; exact hok slot'
      · rw [hs, AgModel.Repair.storeGet_storeSet]
        split
        · rename_i hsl; subst hsl
          exact AgModel.Repair.addRepair_repOk cenv _ b.hash cs (hok _)
        · exact hok slot'

/-! ### completion on raw responses -/

/-- **Repair completes on every fair schedule of RAW events** (C14 `repair_completes` transferred through
    `repair_refines`). `evs` is any finite schedule of raw events at the fine requester - raw responses of any kind
    from anybody (a shred response is raw bytes with a signature field; whether it is "signed" is decided by the fine
    `try_new`), timeouts, `repair_block` calls. Fairness and admissibility are those of C14 read on the abstraction of
    the raw events. Then no request about `B` stays outstanding, `get_block(id B)` returns exactly `B`, it was announced
    in the completing step, nothing panicked, and the fine / coarse root tables agree. -/
theorem raw_repair_completes (B : HBlock) (env : Env) (cenv : Nat → Content) (cap : Nat) (hwf : B.WF cenv cap)
    (hroots : ∀ i, i < B.n → B.root i ≠ 0)
    (rid : RootId) (hinj : ∀ a b, rid a = rid b → a = b) (pk : Nat → Nat)
    (sdH : Blockstore.SlotData) (hH : AgModel.Repair.Holds B cap sdH)
    (σ : FSys) (hR : RootsAgree rid σ) (hinv : AgModel.Repair.RepInv B cap σ.sys)
    (hstore : AgModel.Repair.StoreInv cap σ.store)
    (evs : List FEv) (hadm : ∀ e ∈ evs, AgModel.Repair.Admissible B (absEv env rid pk e))
    (hfair : AgModel.Repair.Fair cenv cap (AgModel.Repair.respOf sdH) (AgModel.Repair.bidOf B) σ.sys
      (evs.map (absEv env rid pk))) :
    (∀ r ∈ (fRun env cenv rid pk cap σ evs).1.st.outstanding, AgModel.Repair.Req.bid r ≠ AgModel.Repair.bidOf B) ∧
    Blockstore.getBlock (AgModel.Repair.storeGet cap (fRun env cenv rid pk cap σ evs).1.store B.slot) B.block.hash
      = some B.block ∧
    ((AgModel.Repair.spotOf cap B σ.store).completed = none →
      ∃ o ∈ (fRun env cenv rid pk cap σ evs).2, AgModel.Repair.Announced B o) ∧
    (∀ o ∈ (fRun env cenv rid pk cap σ evs).2, o.panic = false) ∧
    RootsAgree rid (fRun env cenv rid pk cap σ evs).1 := by
  obtain ⟨hra, hsim⟩ := repair_refines env cenv rid hinj pk cap σ hR evs
  have hadm' : ∀ e ∈ evs.map (absEv env rid pk), AgModel.Repair.Admissible B e := by
    intro e he
    obtain ⟨e0, he0, rfl⟩ := List.mem_map.mp he
    exact hadm e0 he0
  obtain ⟨c1, c2, c3, c4, _, _⟩ :=
    AgModel.Repair.repair_completes B cenv cap hwf hroots sdH hH σ.sys hinv hstore _ hadm' hfair
  have ha := congrArg Prod.fst hsim
  have hb := congrArg Prod.snd hsim
  simp only at ha hb
  rw [← ha] at c1 c2
  rw [← hb] at c3 c4
  exact ⟨c1, c2, c3, c4, hra⟩

end AgModel.Seam.Repair

/-! ### `sigOk = true` of the responder model, without the assumed link; an injective interning of roots -/
namespace AgModel.Seam
open AgModel.Shred (Env VShred Bytes validate)
open AgModel.Blockstore (Content)
open AgModel.Merkle (H)

/-- **`sigOk = true` of the responder model is a theorem** (C14; completes `served_sigOk_partial`: its hypothesis
    `RegenBacked` is now `regenBacked_of_faithful`). A node that ingested ANY sequence of raw shreds through
    `handle_disseminator_shred` answers a repair request for a shred (`try_build_response`, model `Repair.answer`,
    which sets `sigOk = true`) only with the abstraction of a fine shred of that slot which passes
    `ValidatedShred::try_new(_, None, leader_pk)` - for the shreds it stored AND for the shreds it regenerated after
    reconstructing a slice. Hypotheses beyond those of `node_refines_blockstore` (`hinj`): the contracts `L` of the
    external crates (only `leafId_inj`: no SHA-256 collision on leaf data, is used) and `Faithful`: the coarse decoding
    environment says "decodes" only for code word roots. `Faithful` is not an assumption about peers or the leader: it
    relates the two models' decoders (the fine `deshred` ends with `check_merkle_tree`, the coarse one is a lookup); it
    holds for what the harness supplies (`faithful_of_leader`) and for every self-checking environment
    (`served_sigOk_checked`: no hypothesis on the environment at all). Without it the *coarse model* regenerates
    shreds the code never would (an environment that "decodes" a root which is no 64-leaf tree). -/
theorem served_sigOk (env : Env) (L : env.Laws) (cenv : Nat → Content) (rid : RootId)
    (hinj : ∀ a b, rid a = rid b → a = b) (pk cap slot : Nat) (hF : Faithful env rid cenv) (ss : List Shred.Shred)
    (b : AgModel.Repair.Bid) (i j : Nat) (r : AgModel.Repair.Req) (hslot : Nat) (cs : Blockstore.Shred) (ok : Bool)
    (ha : AgModel.Repair.answer (FNode.run env cenv rid pk (FNode.new cap slot) ss).1.abs (.shred b i j)
      = some (.shred r hslot cs ok)) :
    ok = true ∧ ∃ x : VShred, ServedOk env rid pk x cs ∧ x.shred.header.slot = slot :=
  served_sigOk_partial env cenv rid hinj pk cap slot (regenBacked_of_faithful env L cenv rid pk slot hF) ss b i j r hslot cs ok ha

/-- the same for ANY decoding oracle, re-checked (`checkedCenv`): no hypothesis on the environment -/
theorem served_sigOk_checked (env : Env) (L : env.Laws) (dec : Nat → Option (List Bytes × Content)) (rid : RootId)
    (hinj : ∀ a b, rid a = rid b → a = b) (pk cap slot : Nat) (ss : List Shred.Shred)
    (b : AgModel.Repair.Bid) (i j : Nat) (r : AgModel.Repair.Req) (hslot : Nat) (cs : Blockstore.Shred) (ok : Bool)
    (ha : AgModel.Repair.answer (FNode.run env (checkedCenv env rid dec) rid pk (FNode.new cap slot) ss).1.abs (.shred b i j)
      = some (.shred r hslot cs ok)) :
    ok = true ∧ ∃ x : VShred, ServedOk env rid pk x cs ∧ x.shred.header.slot = slot :=
  served_sigOk env L _ rid hinj pk cap slot (checkedCenv_faithful env rid hinj dec) ss b i j r hslot cs ok ha

/-- an explicit interning of the free hash term algebra `Merkle.H` into `Nat` (Gödel numbering; never `0`, the id of
    the empty leaf) -/
def ridInj : H → Nat
  | .leaf d => 3 * d + 1
  | .node l r => 3 * AgModel.Shred.Instance.pair (ridInj l) (ridInj r) + 2
  | .junk n => 3 * n + 3

/-- **an injective `rid` exists, explicitly**: the hypothesis `hinj` of `node_refines_blockstore`, `repair_refines`,
    `served_sigOk`, … is satisfiable (non-vacuity), and `ridInj` never is the padding leaf id `0` -/
theorem ridInj_injective : ∀ a b, ridInj a = ridInj b → a = b := by
  intro a
  induction a with
  | leaf d => intro b h; cases b <;> simp only [ridInj] at h <;> first | (congr 1; omega) | omega
  | junk n => intro b h; cases b <;> simp only [ridInj] at h <;> first | (congr 1; omega) | omega
  | node l r ihl ihr =>
    intro b h
    cases b with
    | leaf _ => simp only [ridInj] at h; omega
    | junk _ => simp only [ridInj] at h; omega
    | node l' r' =>
      simp only [ridInj] at h
      have hp : AgModel.Shred.Instance.pair (ridInj l) (ridInj r) = AgModel.Shred.Instance.pair (ridInj l') (ridInj r') := by omega
      have h1 := congrArg AgModel.Shred.Instance.fstP hp
      have h2 := congrArg AgModel.Shred.Instance.sndP hp
      rw [AgModel.Shred.Instance.fstP_pair, AgModel.Shred.Instance.fstP_pair] at h1
      rw [AgModel.Shred.Instance.sndP_pair, AgModel.Shred.Instance.sndP_pair] at h2
      rw [ihl _ h1, ihr _ h2]

theorem ridInj_ne_zero (a : H) : ridInj a ≠ 0 := by cases a <;> simp [ridInj]

/-! ### non-vacuity -/
section Witness
open AgModel.Exec.ShredEnv
open AgModel.Shred (wOut wS wFlipped wJunk)

def wBid : AgModel.Repair.Bid := ⟨7, .leaf 9⟩
def wReq : AgModel.Repair.Req := .shred wBid 3 3
/-- a requester waiting for shred 3 of slice 3 (the last slice) of a block in slot 7, slice root proven -/
def wSys : Repair.FSys :=
  ⟨⟨[wReq], [wReq], [((wBid, 3), ridEx (wOut.getD 3 default).root)], [(wBid, 3)]⟩, [((wBid, 3), (wOut.getD 3 default).root)], []⟩

/-- **Non-vacuity of the repair simulation**: the genuine raw shred of the leader (key 5) is accepted - request done,
    `FirstShred`-free repair spot filled, no panic -; the same shred with a junk signature, with its type flipped,
    under another leader key, or a shred of another index leaves the request outstanding and the store untouched; the
    coarse model on the abstraction of the raw response does the same; `RootsAgree` holds of the start state. -/
theorem repair_witness :
    (Repair.fHandle toyEnv cenvEx ridEx (fun _ => 5) 4 wSys (.shred wReq wS)).1.st.outstanding = [] ∧
    (Repair.fHandle toyEnv cenvEx ridEx (fun _ => 5) 4 wSys (.shred wReq wS)).2.panic = false ∧
    (Repair.fHandle toyEnv cenvEx ridEx (fun _ => 5) 4 wSys (.shred wReq wS)).1.store.length = 1 ∧
    (Repair.fHandle toyEnv cenvEx ridEx (fun _ => 5) 4 wSys (.shred wReq (wJunk 3))).1.st.outstanding = [wReq] ∧
    (Repair.fHandle toyEnv cenvEx ridEx (fun _ => 5) 4 wSys (.shred wReq (wJunk 3))).1.store.length = 0 ∧
    (Repair.fHandle toyEnv cenvEx ridEx (fun _ => 5) 4 wSys (.shred wReq wFlipped)).1.st.outstanding = [wReq] ∧
    (Repair.fHandle toyEnv cenvEx ridEx (fun _ => 6) 4 wSys (.shred wReq wS)).1.st.outstanding = [wReq] ∧
    (Repair.fHandle toyEnv cenvEx ridEx (fun _ => 5) 4 wSys (.shred wReq { wS with index := 4 })).1.st.outstanding = [wReq] ∧
    (AgModel.Repair.handleResponse cenvEx 4 wSys.st wSys.store
      (Repair.absResp toyEnv ridEx (fun _ => 5) (.shred wReq wS))).1.outstanding = [] ∧
    (AgModel.Repair.handleResponse cenvEx 4 wSys.st wSys.store
      (Repair.absResp toyEnv ridEx (fun _ => 5) (.shred wReq (wJunk 3)))).1.outstanding = [wReq] ∧
    Repair.sigOkOf toyEnv 5 wS = true ∧ Repair.sigOkOf toyEnv 5 (wJunk 3) = false := by
  decide +kernel

example : Repair.RootsAgree ridEx wSys := rfl

end Witness

end AgModel.Seam
