import AgModel.Proofs.MachInt
import AgModel.Proofs.MachIntExt
/-!
# C10 (no panic from input), machine-integer layer

For ALL u64 values: when exactly each integer expression of `slot.rs`, `fraction.rs`, `epoch_info.rs` and the raw slot
arithmetic of pool / finality / parent-ready / votor / block producer panics (overflow checks are on in the release
profile), and that otherwise the machine result is the value the `Nat`-level models compute (refinement), so the
"unbounded Nat" of `Votor.firstInWindow`, `Votor.windowSlots`, `ParentReady.isWindowStart`, `Pool.isMet`,
`Pool.Epoch.is*`, `Route.leader`, `Route.indexInSlot`, `PoolTrack.outOfBounds` is exact for the code.
`none` = panic throughout.
-/
namespace AgModel.MachInt
open AgModel

/-! ## (a)+(b) `slot.rs` -/

/-- `first_slot_in_window` never panics and is `Votor.firstInWindow` = `ParentReady.windowFirst`. -/
theorem first_never_panics_refines (s : UInt64) :
    ∃ f, first s = some f ∧ f.toNat = Votor.firstInWindow s.toNat ∧ f.toNat = ParentReady.windowFirst s.toNat
      ∧ f.toNat ≤ s.toNat ∧ s.toNat < f.toNat + W :=
  ⟨_, (first_eq s).1, (first_eq s).2, (first_eq s).2,
    by rw [(first_eq s).2]; exact nat_first_le _, by rw [(first_eq s).2]; exact nat_lt_window_end _⟩

/-- `last_slot_in_window` (as repaired by `cd019dd`, D33) never panics, for every u64 slot including the last
    window, and is `first + (W - 1)`. -/
theorem last_never_panics_refines (s : UInt64) :
    ∃ l, last s = some l ∧ l.toNat = Votor.firstInWindow s.toNat + (W - 1) ∧ s.toNat ≤ l.toNat := by
  obtain ⟨l, hl, hn⟩ := last_eq s
  refine ⟨l, hl, hn, ?_⟩
  have := nat_lt_window_end s.toNat
  rw [hn]; omega

/-- The pre-fix formula (`Self(first.0 + W).prev()`) panics exactly on the slots of the last window. -/
theorem lastOld_panics_iff (s : UInt64) : lastOld s = none ↔ 2 ^ 64 - W ≤ s.toNat := by
  rw [lastOld_none]; have := W_pos; have : W < 2 ^ 64 := by decide
  omega

/-- witness of D33: the old formula overflowed at `u64::MAX`, the repaired one returns `u64::MAX`. -/
theorem lastOld_overflow_witness :
    lastOld MAX = none ∧ last MAX = some MAX ∧ slotsInWindowOld MAX = none
      ∧ (slotsInWindow MAX).map List.length = some W := by decide

/-- `is_start_of_window` is `ParentReady.isWindowStart`. -/
theorem isStart_refines (s : UInt64) : isStart s = ParentReady.isWindowStart s.toNat := isStart_eq s

/-- `next` panics iff `s = u64::MAX`; otherwise it is `s + 1`. -/
theorem next_panics_iff (s : UInt64) :
    (next s = none ↔ s = MAX) ∧ ∀ n, next s = some n → n.toNat = s.toNat + 1 := by
  refine ⟨?_, fun n h => next_some h⟩
  rw [next_none, ← MAX_toNat, UInt64.toNat_inj]

/-- `prev` panics iff `s = 0` (genesis); otherwise it is `s - 1`. -/
theorem prev_panics_iff (s : UInt64) :
    (prev s = none ↔ s = 0) ∧ ∀ p, prev s = some p → p.toNat + 1 = s.toNat := by
  refine ⟨?_, fun p h => prev_some h⟩
  rw [prev_none, ← zero_toNat, UInt64.toNat_inj]

/-- `is_genesis_window` never panics: `s < W`. -/
theorem isGenesisWindow_never_panics (s : UInt64) : isGenesisWindow s = some (decide (s.toNat < W)) :=
  isGenesisWindow_eq s

/-- `slots_in_window` never panics and yields `Votor.windowSlots` (W consecutive slots from the window start). -/
theorem slotsInWindow_never_panics_refines (s : UInt64) :
    ∃ l, slotsInWindow s = some l ∧ l.map UInt64.toNat = Votor.windowSlots s.toNat ∧ l.length = W := by
  obtain ⟨l, hl, hm⟩ := slotsInWindow_eq s
  refine ⟨l, hl, hm, ?_⟩
  have := congrArg List.length hm
  rw [List.length_map] at this
  rw [this]; unfold Votor.windowSlots; rw [List.length_range']; rfl

/-- every slot of `slots_in_window(s)` lies in the same window as `s`. -/
theorem slotsInWindow_same_window (s : UInt64) (l : List UInt64) (h : slotsInWindow s = some l) (x : UInt64)
    (hx : x ∈ l) : Votor.firstInWindow x.toNat = Votor.firstInWindow s.toNat := by
  obtain ⟨l', hl', hm⟩ := slotsInWindow_eq s
  rw [h] at hl'; cases hl'
  have hx' : x.toNat ∈ Votor.windowSlots s.toNat := by rw [← hm]; exact List.mem_map_of_mem hx
  unfold Votor.windowSlots at hx'
  rw [List.mem_range'_1] at hx'
  unfold Votor.firstInWindow at *
  have hW : 0 < Votor.W := W_pos
  generalize Votor.W = w at *
  generalize s.toNat / w = q at *
  have : x.toNat / w = q := by
    rw [Nat.div_eq_iff hW]; constructor <;> omega
  rw [this]

/-- `future_slots().take(k)` panics iff `s + k + 1 ≥ 2^64` (`self.0 + 1` overflows, or the range iterator computes
    the successor of `u64::MAX`); otherwise it yields `s+1 .. s+k`. -/
theorem futureSlots_panics_iff (s : UInt64) (k : Nat) :
    (futureSlots s k = none ↔ 2 ^ 64 ≤ s.toNat + k + 1)
    ∧ ∀ l, futureSlots s k = some l → l.map UInt64.toNat = List.range' (s.toNat + 1) k :=
  ⟨futureSlots_none s k, fun l h => futureSlots_some s k l h⟩

/-! ## (c) `fraction.rs`, `epoch_info.rs` -/

/-- The u128 products of `is_met` never overflow: `(2^64-1)^2 < 2^128`. -/
theorem u128_products_never_overflow (a b : UInt64) :
    a.toNat * b.toNat ≤ (2 ^ 64 - 1) * (2 ^ 64 - 1) ∧ (2 ^ 64 - 1) * (2 ^ 64 - 1) < 2 ^ 128 := by
  refine ⟨Nat.mul_le_mul ?_ ?_, u64_max_sq_lt_u128⟩
  · have := UInt64.toNat_lt a; omega
  · have := UInt64.toNat_lt b; omega

/-- `is_met` never panics (release profile) and is exactly the cross-multiplied comparison `Pool.isMet` on `Nat`,
    i.e. `value / total ≥ num / den` as rationals whenever `den, total > 0`. -/
theorem isMet_never_panics_refines (num den value total : UInt64) :
    isMet num den value total = some (Pool.isMet num.toNat den.toNat value.toNat total.toNat)
    ∧ (Pool.isMet num.toNat den.toNat value.toNat total.toNat = true
        ↔ total.toNat * num.toNat ≤ value.toNat * den.toNat) := by
  refine ⟨isMet_eq _ _ _ _, ?_⟩
  simp [Pool.isMet]

/-- With u64 products instead (what the source comment warns against) `is_met` would panic on realistic stakes. -/
theorem isMetU64_overflow_witness :
    isMetU64 3 5 (UInt64.ofNat (2 ^ 62)) (UInt64.ofNat (2 ^ 62)) = none
    ∧ isMet 3 5 (UInt64.ofNat (2 ^ 62)) (UInt64.ofNat (2 ^ 62)) = some true := by decide

/-- `is_met` is monotone in the stake and antitone in the total. -/
theorem isMet_monotone (num den v v' t t' : UInt64) (hv : v.toNat ≤ v'.toNat) (ht : t'.toNat ≤ t.toNat)
    (h : isMet num den v t = some true) : isMet num den v' t' = some true := by
  rw [isMet_eq] at h ⊢
  simp only [Option.some.injEq, Pool.isMet, decide_eq_true_eq] at h ⊢
  calc t'.toNat * num.toNat ≤ t.toNat * num.toNat := Nat.mul_le_mul_right _ ht
    _ ≤ v.toNat * den.toNat := h
    _ ≤ v'.toNat * den.toNat := Nat.mul_le_mul_right _ hv

/-- `EpochInfo::new` panics iff the exact total stake does not fit u64; otherwise `total_stake` is the exact sum
    (`Pool.Epoch.total`). A validator set is configuration, not peer input. -/
theorem totalStake_panics_iff (stakes : List UInt64) :
    (totalStake stakes = none ↔ 2 ^ 64 ≤ (stakes.map UInt64.toNat).sum)
    ∧ ∀ t, totalStake stakes = some t → t.toNat = (Pool.Epoch.total ⟨stakes.map UInt64.toNat, 0⟩) := by
  constructor
  · unfold totalStake; rw [sumFrom_none, zero_toNat, Nat.zero_add]
  · intro t h; unfold totalStake at h
    rw [sumFrom_some 0 t stakes h, zero_toNat, Nat.zero_add]; rfl

/-- The four quorum predicates of `EpochInfo` never panic and are the `Pool.Epoch` predicates of the Nat model. -/
theorem quorums_refine (stakes : List UInt64) (t stake : UInt64) (h : totalStake stakes = some t) :
    let e : Pool.Epoch := ⟨stakes.map UInt64.toNat, 0⟩
    isWeakest t stake = some (e.isWeakest stake.toNat) ∧ isWeak t stake = some (e.isWeak stake.toNat)
    ∧ isQuorum t stake = some (e.isQuorum stake.toNat) ∧ isStrong t stake = some (e.isStrong stake.toNat) := by
  intro e
  have ht : t.toNat = e.total := (totalStake_panics_iff stakes).2 t h
  refine ⟨?_, ?_, ?_, ?_⟩
  · unfold isWeakest Pool.Epoch.isWeakest; rw [isMet_eq, ht]; rfl
  · unfold isWeak Pool.Epoch.isWeak; rw [isMet_eq, ht]; rfl
  · unfold isQuorum Pool.Epoch.isQuorum; rw [isMet_eq, ht]; rfl
  · unfold isStrong Pool.Epoch.isStrong; rw [isMet_eq, ht]; rfl

/-- quorum predicates are monotone in the stake. -/
theorem quorums_monotone (t a b : UInt64) (hab : a.toNat ≤ b.toNat) :
    (isWeakest t a = some true → isWeakest t b = some true) ∧ (isWeak t a = some true → isWeak t b = some true)
    ∧ (isQuorum t a = some true → isQuorum t b = some true) ∧ (isStrong t a = some true → isStrong t b = some true) :=
  ⟨isMet_monotone _ _ a b t t hab (Nat.le_refl _), isMet_monotone _ _ a b t t hab (Nat.le_refl _),
   isMet_monotone _ _ a b t t hab (Nat.le_refl _), isMet_monotone _ _ a b t t hab (Nat.le_refl _)⟩

/-- `leader(slot)` panics iff there are no validators; otherwise the index is `Route.leader` and in range
    (so `validators[leader_id as usize]` cannot fail). -/
theorem leader_panics_iff (n s : UInt64) :
    (leader n s = none ↔ n = 0) ∧ ∀ i, leader n s = some i → i.toNat = Route.leader n.toNat s.toNat ∧ i.toNat < n.toNat :=
  ⟨leader_none n s, fun _ h => leader_some h⟩

/-! ## (d) admission window and the other raw slot expressions -/

/-- `finalized + 2 * SLOTS_PER_EPOCH` (`add_cert` / `add_vote`) overflows iff `finalized ≥ 2^64 - 2E`; then the call
    PANICS (it does not reject); otherwise the bound is the `Nat` one. -/
theorem farFuture_panics_iff (fin : UInt64) :
    (farFuture fin = none ↔ 2 ^ 64 - 2 * E ≤ fin.toNat) ∧ ∀ ff, farFuture fin = some ff → ff.toNat = fin.toNat + 2 * E := by
  refine ⟨?_, fun ff h => farFuture_some h⟩
  rw [farFuture_none]; have : 2 * E < 2 ^ 64 := by decide
  omega

/-- `SlotOutOfBounds` decision: same overflow condition; otherwise exactly `PoolTrack.outOfBounds`. -/
theorem outOfBounds_refines (fu fin slot : UInt64) :
    (outOfBounds fu fin slot = none ↔ 2 ^ 64 - 2 * E ≤ fin.toNat)
    ∧ ∀ b, outOfBounds fu fin slot = some b → b = natOutOfBounds fu.toNat fin.toNat slot.toNat := by
  have hp := farFuture_panics_iff fin
  constructor
  · rw [← hp.1]; unfold outOfBounds
    cases farFuture fin <;> simp
  · intro b h; unfold outOfBounds at h
    cases hf : farFuture fin with
    | none => rw [hf] at h; cases h
    | some ff =>
      rw [hf] at h
      simp only [Option.bind_eq_bind, Option.bind_some, Option.some.injEq] at h
      subst h
      unfold natOutOfBounds
      have hff := hp.2 ff hf
      unfold E at hff
      rw [← hff]
      simp only [UInt64.lt_iff_toNat_lt, ge_iff_le, UInt64.le_iff_toNat_le]

/-- the Nat form above is the existing pool model's decision -/
theorem natOutOfBounds_is_PoolTrack (p : PoolTrack.Pool) (slot : Nat) :
    PoolTrack.outOfBounds p slot = natOutOfBounds p.fin.first p.fin.highest slot := rfl

/-- The overflow is out of reach of the protocol: every admitted certificate / vote is for a slot below
    `finalized + 2E`, so after `k` finalizations `finalized ≤ k * 2E`; below 5 * 10^14 finalizations the bound does
    not overflow. -/
theorem farFuture_ok_after_k_finalizations (fin : UInt64) (k : Nat) (h : fin.toNat ≤ k * (2 * E))
    (hk : k ≤ 500000000000000) : (farFuture fin).isSome = true := by
  cases hf : farFuture fin with
  | some _ => rfl
  | none =>
    have h1 := (farFuture_panics_iff fin).1.mp hf
    have h2 : k * (2 * E) ≤ 500000000000000 * (2 * E) := Nat.mul_le_mul_right _ hk
    have h3 : 500000000000000 * (2 * E) + 2 * E < 2 ^ 64 := by decide
    omega

/-- `recover_from_standstill` / `FinalityTracker::prune`: `next()` chains panic iff they step past `u64::MAX`. -/
theorem standstill_prune_panic_iff (fin : UInt64) (k : Nat) :
    (standstillSlot fin = none ↔ fin = MAX) ∧ (pruneCursor fin k = none ↔ 2 ^ 64 ≤ fin.toNat + k + 1) :=
  ⟨(next_panics_iff fin).1, pruneCursor_none fin k⟩

/-- `slot.prev()` in `Votor::try_notar` (only off the window start) and in `wait_for_first_slot` of the block
    producer (only outside the genesis window) never panics. -/
theorem guarded_prev_never_panics (s : UInt64) : votorParentSlot s ≠ none ∧ producerPrevWindowLast s ≠ none := by
  constructor
  · unfold votorParentSlot
    rw [(first_eq s).1]
    simp only [Option.bind_eq_bind, Option.bind_some]
    split
    · simp
    · next hne =>
      cases hp : prev s with
      | some _ => simp
      | none =>
        exfalso
        have h0 := (prev_panics_iff s).1.mp hp
        subst h0
        exact hne (by decide)
  · unfold producerPrevWindowLast
    rw [isGenesisWindow_eq]
    simp only [Option.bind_eq_bind, Option.bind_some]
    split
    · simp
    · next hne =>
      cases hp : prev s with
      | some _ => simp
      | none =>
        exfalso
        have h0 := (prev_panics_iff s).1.mp hp
        subst h0
        exact hne (by decide)

/-- `index_in_slot` and `last_slice + 1` (usize) cannot overflow for validated indices; `index_in_slot` is
    `Route.indexInSlot`. -/
theorem index_arith_never_panics (slice shred : UInt64) (h1 : sliceIndexNew slice = some slice)
    (h2 : shredIndexNew shred = some shred) :
    (∃ r, indexInSlot slice shred = some r ∧ r.toNat = Route.indexInSlot slice.toNat shred.toNat)
    ∧ ∃ c, sliceCount slice = some c ∧ c.toNat = slice.toNat + 1 := by
  have hs : slice.toNat < Gen.MAX_SLICES_PER_BLOCK := by
    unfold sliceIndexNew at h1
    split at h1
    · cases h1
    · next hn =>
      have hu : (u Gen.MAX_SLICES_PER_BLOCK).toNat = Gen.MAX_SLICES_PER_BLOCK := by decide
      rw [ge_iff_le, UInt64.le_iff_toNat_le, hu] at hn; omega
  have hr : shred.toNat < Gen.TOTAL_SHREDS := by
    unfold shredIndexNew at h2
    split at h2
    · cases h2
    · next hn =>
      have hu : (u Gen.TOTAL_SHREDS).toNat = Gen.TOTAL_SHREDS := by decide
      rw [ge_iff_le, UInt64.le_iff_toNat_le, hu] at hn; omega
  have hT : (u Gen.TOTAL_SHREDS).toNat = Gen.TOTAL_SHREDS := by decide
  have hb : Gen.MAX_SLICES_PER_BLOCK * Gen.TOTAL_SHREDS + Gen.TOTAL_SHREDS < 2 ^ 64 := by decide
  have hm : slice.toNat * Gen.TOTAL_SHREDS ≤ Gen.MAX_SLICES_PER_BLOCK * Gen.TOTAL_SHREDS :=
    Nat.mul_le_mul_right _ (Nat.le_of_lt hs)
  constructor
  · obtain ⟨m, hmm, hmn⟩ := cmul_of_lt (a := slice) (b := u Gen.TOTAL_SHREDS) (by rw [hT]; omega)
    obtain ⟨r, hrr, hrn⟩ := cadd_of_lt (a := m) (b := shred) (by rw [hmn, hT]; omega)
    refine ⟨r, ?_, ?_⟩
    · simp only [indexInSlot, hmm, Option.bind_eq_bind, Option.bind_some, hrr]
    · rw [hrn, hmn, hT]; rfl
  · have hM : Gen.MAX_SLICES_PER_BLOCK < 2 ^ 63 := by decide
    obtain ⟨c, hc, hcn⟩ := cadd_of_lt (a := slice) (b := 1) (by rw [one_toNat]; omega)
    exact ⟨c, hc, by rw [hcn, one_toNat]⟩

/-! ## `Stake` arithmetic, `Fraction::cmp` / `eq`, `Slot::windows()` -/

/-- `Stake + Stake` / `+=` panic iff the exact sum `>= 2^64` (`checked_add` is `None` exactly then); `Stake - Stake` /
    `-=` panic iff `rhs > self`; `Stake * u64` panics iff the exact product `>= 2^64`; otherwise all are exact. -/
theorem stake_add_sub_mul_panic_iff (a b : UInt64) :
    (stakeAdd a b = none ↔ 2 ^ 64 ≤ a.toNat + b.toNat) ∧ (∀ c, stakeAdd a b = some c → c.toNat = a.toNat + b.toNat) ∧
    stakeCheckedAdd a b = stakeAdd a b ∧
    (stakeSub a b = none ↔ a.toNat < b.toNat) ∧ (∀ c, stakeSub a b = some c → c.toNat = a.toNat - b.toNat) ∧
    (stakeMul a b = none ↔ 2 ^ 64 ≤ a.toNat * b.toNat) ∧ (∀ c, stakeMul a b = some c → c.toNat = a.toNat * b.toNat) :=
  ⟨cadd_none, fun _ h => (cadd_some h).1, rfl, csub_none, fun _ h => (csub_some h).1, cmul_none,
    fun _ h => (cmul_some h).1⟩

/-- `Stake::div_ceil` panics iff the divisor is 0 (the `+ 1` of the rounding cannot overflow); otherwise the result
    `r` is the ceiling: `r = a / d + [a % d ≠ 0]`, i.e. the least `r` with `a ≤ r * d`. -/
theorem stake_divCeil_panics_iff (a d : UInt64) :
    (stakeDivCeil a d = none ↔ d = 0) ∧
    ∀ r, stakeDivCeil a d = some r →
      r.toNat = a.toNat / d.toNat + (if a.toNat % d.toNat = 0 then 0 else 1) ∧
      a.toNat ≤ r.toNat * d.toNat ∧ r.toNat * d.toNat < a.toNat + d.toNat := by
  refine ⟨stakeDivCeil_none a d, fun r h => ?_⟩
  have hr := stakeDivCeil_some a d r h
  have hd : d ≠ 0 := fun hd => by rw [(stakeDivCeil_none a d).mpr hd] at h; cases h
  have hd0 : 0 < d.toNat := by
    rcases Nat.eq_zero_or_pos d.toNat with h0 | h0
    · exact absurd (UInt64.toNat_inj.mp (by rw [h0]; rfl)) hd
    · exact h0
  refine ⟨hr, ?_⟩
  have hdm := Nat.div_add_mod a.toNat d.toNat
  have hml := Nat.mod_lt a.toNat hd0
  rw [hr, Nat.add_mul, Nat.mul_comm (a.toNat / d.toNat)]
  by_cases hz : a.toNat % d.toNat = 0
  · rw [if_pos hz]; omega
  · rw [if_neg hz]; omega

/-- `Fraction::cmp` (and `partial_cmp`, which is `Some(cmp)`) never panics - the u128 products cannot overflow - and
    is the comparison of the cross products, i.e. of the rationals `n1/d1` and `n2/d2` (denominators are `NonZeroU64`). -/
theorem fracCmp_never_panics_refines (n1 d1 n2 d2 : UInt64) :
    fracCmp n1 d1 n2 d2 = some (compare (n1.toNat * d2.toNat) (n2.toNat * d1.toNat)) := fracCmp_eq n1 d1 n2 d2

/-- `==` is consistent with `cmp`: true iff `cmp` is `Equal` iff the cross products agree (`1/2 == 2/4`); `cmp` is
    antisymmetric (`b.cmp(a)` is the reverse of `a.cmp(b)`) and reflexive. -/
theorem fracEq_consistent (n1 d1 n2 d2 : UInt64) :
    (fracEq n1 d1 n2 d2 = some true ↔ fracCmp n1 d1 n2 d2 = some .eq) ∧
    (fracEq n1 d1 n2 d2 = some true ↔ n1.toNat * d2.toNat = n2.toNat * d1.toNat) ∧
    (fracCmp n2 d2 n1 d1 = (fracCmp n1 d1 n2 d2).map Ordering.swap) ∧
    fracCmp n1 d1 n1 d1 = some .eq := by
  unfold fracEq
  rw [fracCmp_eq, fracCmp_eq, fracCmp_eq]
  refine ⟨?_, ?_, ?_, ?_⟩
  · simp only [Option.map_some, Option.some.injEq]
    cases compare (n1.toNat * d2.toNat) (n2.toNat * d1.toNat) <;> decide
  · simp only [Option.map_some, Option.some.injEq]
    rw [← Nat.compare_eq_eq (a := n1.toNat * d2.toNat) (b := n2.toNat * d1.toNat)]
    cases compare (n1.toNat * d2.toNat) (n2.toNat * d1.toNat) <;> decide
  · simp only [Option.map_some, Option.some.injEq]
    rw [Nat.compare_swap]
  · rw [Nat.compare_eq_eq.mpr rfl]

/-- `cmp` is consistent with `is_met`: `Fraction(n/d).is_met(value, total)` iff `value/total >= n/d` under `cmp`. -/
theorem fracCmp_consistent_with_isMet (num den value total : UInt64) :
    isMet num den value total = some true ↔ fracCmp value total num den ≠ some .lt := by
  rw [isMet_eq, fracCmp_eq]
  simp only [Option.some.injEq, ne_eq]
  rw [Nat.compare_eq_lt, (isMet_never_panics_refines num den value total).2, Nat.mul_comm total.toNat num.toNat]
  omega

/-- `cmp` is transitive (`<=`), so with antisymmetry and totality (`compare` on the products) it is a total preorder
    on fractions whose `Equal` classes are the equal rationals. Needs the non-zero denominators. -/
theorem fracCmp_le_trans (n1 d1 n2 d2 n3 d3 : UInt64) (h2 : d2 ≠ 0)
    (h12 : fracCmp n1 d1 n2 d2 ≠ some .gt) (h23 : fracCmp n2 d2 n3 d3 ≠ some .gt) :
    fracCmp n1 d1 n3 d3 ≠ some .gt := by
  rw [fracCmp_eq] at *
  simp only [Option.some.injEq, ne_eq, Nat.compare_eq_gt, Nat.not_lt] at *
  have hd : 0 < d2.toNat := by
    rcases Nat.eq_zero_or_pos d2.toNat with h0 | h0
    · exact absurd (UInt64.toNat_inj.mp (by rw [h0]; rfl)) h2
    · exact h0
  -- n1*d2 ≤ n2*d1, n2*d3 ≤ n3*d2  ⟹  n1*d3 ≤ n3*d1
  apply Nat.le_of_mul_le_mul_right (c := d2.toNat) _ hd
  calc n1.toNat * d3.toNat * d2.toNat = n1.toNat * d2.toNat * d3.toNat := by rw [Nat.mul_right_comm]
    _ ≤ n2.toNat * d1.toNat * d3.toNat := Nat.mul_le_mul_right _ h12
    _ = n2.toNat * d3.toNat * d1.toNat := by rw [Nat.mul_right_comm]
    _ ≤ n3.toNat * d2.toNat * d1.toNat := Nat.mul_le_mul_right _ h23
    _ = n3.toNat * d1.toNat * d2.toNat := by rw [Nat.mul_right_comm]

/-- `Slot::windows().take(k)` (`(0..).step_by(W)`): panics iff `k > 2^64 / W` - the iterator yields every window start
    of the u64 range (the last one, `2^64 - W`, included) and panics on the call after that; otherwise it yields
    `0, W, 2W, …, (k-1)·W`. -/
theorem windows_panics_iff (k : Nat) :
    (windows k = none ↔ 2 ^ 64 < k * W) ∧
    ∀ l, windows k = some l → l.map UInt64.toNat = (List.range k).map (fun i => i * W) := by
  cases k with
  | zero =>
    refine ⟨by simp [windows], ?_⟩
    intro l h; simp only [windows] at h; cases h; rfl
  | succ k =>
    unfold windows
    have h01 : cadd 0 1 = some 1 := by decide
    rw [h01]; simp only
    have hsp := windowsFrom_spec k 1 0 (by rw [one_toNat]; omega)
    have hW := W_pos
    have hWle : W ≤ 2 ^ 64 := by have := W_dvd; have := W64_toNat; have := W64.toNat_lt; omega
    cases hr : windowsFrom 1 k with
    | none =>
      have := hsp.1.mp hr
      simp only [true_iff, reduceCtorEq, false_implies, implies_true, and_true]
      have h1 : (0 + 1 + k) = k + 1 := by omega
      rw [h1] at this; exact this.1
    | some rest =>
      have hno : ¬ (2 ^ 64 < (0 + 1 + k) * W ∧ 0 < k) := by
        intro hc; have := hsp.1.mpr hc; rw [hr] at this; cases this
      refine ⟨?_, ?_⟩
      · simp only [reduceCtorEq, false_iff]
        intro hc
        have h1 : (0 + 1 + k) = k + 1 := by omega
        rw [h1] at hno
        by_cases hk : 0 < k
        · exact hno ⟨hc, hk⟩
        · have : k = 0 := by omega
          subst this
          omega
      · intro l hl
        cases hl
        have := hsp.2 rest hr
        simp only [List.map_cons, this, List.range_succ_eq_map, List.map_cons, List.map_map, zero_toNat]
        refine List.cons_eq_cons.mpr ⟨by simp, ?_⟩
        apply List.map_congr_left
        intro i _
        simp only [Function.comp]; congr 1; omega

/-! ## non-vacuity -/

example : fracEq 1 2 2 4 = some true ∧ fracCmp 1 3 1 2 = some .lt ∧ fracCmp 3 4 2 3 = some .gt
    ∧ fracCmp MAX 1 (MAX - 1) 1 = some .gt ∧ fracCmp MAX MAX (MAX - 1) (MAX - 1) = some .eq := by decide
example : stakeDivCeil 7 2 = some 4 ∧ stakeDivCeil MAX 1 = some MAX ∧ stakeDivCeil MAX 2 = some (MAX / 2 + 1)
    ∧ stakeDivCeil 5 0 = none ∧ stakeSub 3 4 = none ∧ stakeMul (MAX / 2 + 1) 2 = none := by decide
example : windows 3 = some [0, 4, 8] := by decide

example : first 7 = some 4 ∧ last 7 = some 7 ∧ slotsInWindow 5 = some [4, 5, 6, 7] := by decide
example : next MAX = none ∧ prev 0 = none ∧ next 41 = some 42 ∧ prev 42 = some 41 := by decide
example : futureSlots (MAX - 2) 1 = some [MAX - 1] ∧ futureSlots (MAX - 2) 2 = none ∧ futureSlots (MAX - 1) 0 = some []
    ∧ futureSlots MAX 0 = none := by decide
example : totalStake [MAX, 1] = none ∧ totalStake [MAX - 1, 1] = some MAX ∧ totalStake [] = some 0 := by decide
example : isQuorum MAX (MAX / 5 * 3 - 1) = some false ∧ isQuorum MAX (MAX / 5 * 3) = some true := by decide
example : isQuorum 10 6 = some true ∧ isQuorum 10 5 = some false ∧ isStrong 10 8 = some true := by decide
example : leader 0 5 = none ∧ leader 3 (MAX - 1) = some 0 ∧ leader 5 22 = some 0 ∧ leader 5 24 = some 1 := by decide
example : farFuture (MAX - 35999) = none ∧ farFuture (MAX - 36000) = some MAX
    ∧ outOfBounds 0 (MAX - 36000) (MAX - 1) = some false := by decide
example : votorParentSlot 4 = some none ∧ votorParentSlot 5 = some (some 4) ∧ producerPrevWindowLast 0 = some none
    ∧ producerPrevWindowLast 8 = some (some 7) := by decide
example : sliceIndexNew 1023 = some 1023 ∧ sliceIndexNew 1024 = none ∧ indexInSlot 1023 63 = some 65535 := by decide

end AgModel.MachInt
