import AgModel.Proofs.Seam
import AgModel.Props.C13
import AgModel.Props.C14
/-!
# The seam between the two shred models, as theorems (C12 / C13 / C14)

`Model/ShredAbs.lean`: `absShred` (fine validated shred ↦ coarse blockstore shred), `FNode` (fine per-slot node
state), `FNode.handle` (a RAW shred arrives: `cached_commitment` → `ValidatedShred::try_new` → type check →
`add_shred_from_dissemination`), `absIn` (the stateless abstraction of a raw shred: `try_new(_, None, leader)`).
Here: the simulation theorem and what it transfers from `Props/C13.lean` / `Props/C14.lean` to raw network input.
-/
set_option linter.unusedSimpArgs false
namespace AgModel.Seam
open AgModel.Shred (Env VShred Cached Sig Bytes validate VErr CacheSound)
open AgModel.Blockstore (SlotData Event Content AddRes HBlock GoodSd runDissem Enough)

/-- the simulation invariant holds for a fresh slot -/
theorem inv_fresh (rid : RootId) (pk cap slot : Nat) : Inv rid pk (FNode.new cap slot) := inv_new rid pk cap slot

/-- **Simulation (refinement), every sequence of raw shreds.** For every sequence of raw shreds - any bytes, headers,
    signatures, types, indices, Merkle paths, any order, duplicates, other slots' shreds - running the fine node
    (`try_new` with the commitment cache, then the blockstore) and abstracting gives exactly the state and the events
    of the coarse model run on the abstraction of exactly those raw shreds of the slot that pass
    `try_new(_, None, leader_pk)`; the invariant (cache soundness D34, cache agreement) is kept.
    The coarse run is `runNode`: `add_shred_from_dissemination`, except that a validly signed *conflicting* commitment
    on a shred of the *wrong type* flags the leader (`try_new` reports before the type is looked at; the blockstore
    alone would drop it): `typedConflict`. Where that case cannot occur `runNode` is `runDissem`
    (`runNode_eq_runDissem`). `hinj`: no SHA-256 collision among slice roots. -/
theorem node_refines_blockstore (env : Env) (cenv : Nat → Content) (rid : RootId)
    (hinj : ∀ a b, rid a = rid b → a = b) (pk : Nat) (n : FNode) (hI : Inv rid pk n) (ss : List Shred.Shred) :
    Inv rid pk (FNode.run env cenv rid pk n ss).1 ∧
    ((FNode.run env cenv rid pk n ss).1.abs, (FNode.run env cenv rid pk n ss).2) =
      runNode cenv n.abs (ss.filterMap (absIn env rid pk n.slot)) := by
  induction ss generalizing n with
  | nil => exact ⟨hI, rfl⟩
  | cons s rest ih =>
    obtain ⟨h1, h2, h3⟩ := handle_refines env cenv rid hinj pk n hI s
    obtain ⟨i1, i2⟩ := ih (n.handle env cenv rid pk s).1 h1
    rw [h2] at i2
    simp only [FNode.run]
    refine ⟨i1, ?_⟩
    rw [List.filterMap_cons]
    cases ha : absIn env rid pk n.slot s with
    | none =>
      rw [ha] at h3
      simp only at h3 ⊢
      injection h3 with h3a h3b
      rw [h3b, List.nil_append, ← h3a]
      exact i2
    | some cs =>
      rw [ha] at h3
      simp only at h3 ⊢
      have h3a : (n.handle env cenv rid pk s).1.abs = (addNode cenv n.abs cs).1 := congrArg Prod.fst h3
      have h3b : (n.handle env cenv rid pk s).2 = (addNode cenv n.abs cs).2 := congrArg Prod.snd h3
      have i2a := congrArg Prod.fst i2
      have i2b := congrArg Prod.snd i2
      simp only at i2a i2b
      simp only [runNode]
      rw [← h3a, ← h3b, ← i2a, ← i2b]

/-- one step of `runNode` without typed conflict is `add_shred_from_dissemination` -/
theorem addNode_eq_addDissem (cenv : Nat → Content) (sd : SlotData) (cs : Blockstore.Shred)
    (h : typedConflict sd cs = false) :
    addNode cenv sd cs = ((Blockstore.addDissem cenv sd cs).1, (Blockstore.addDissem cenv sd cs).2.2) := by
  unfold addNode; rw [h]; rfl

/-- shreds of a correct leader's block (type possibly flipped by a relay) never are a typed conflict in a store that
    holds only the leader's data, and keep the store so -/
theorem addNode_honest (B : HBlock) (cenv : Nat → Content) (cap : Nat) (hwf : B.WF cenv cap) (sd : SlotData)
    (hg : GoodSd B cap sd) (cs : Blockstore.Shred) (hs : B.HonestUpToType cs) :
    addNode cenv sd cs = ((Blockstore.addDissem cenv sd cs).1, (Blockstore.addDissem cenv sd cs).2.2) ∧
      GoodSd B cap (Blockstore.addDissem cenv sd cs).1 := by
  constructor
  · apply addNode_eq_addDissem
    unfold typedConflict
    cases hc : sd.dis.cache cs.slice with
    | none => simp
    | some c =>
      have h1 := (hg.2.cache _ _ hc).2
      have h2 : cs.commitment = B.commit cs.slice := by
        have := hs.2.2
        have h3 := congrArg Blockstore.Shred.commitment this
        simp only [Blockstore.Shred.commitment, HBlock.shred] at h3 ⊢
        exact h3
      simp [h1, h2]
  · cases hty : cs.ty with
    | false => rw [Blockstore.wrong_type_ignored cenv sd cs hg.1 hty]; exact hg
    | true => exact (Blockstore.addDissem_good B cenv cap hwf sd cs hg (hs.honest hty)).1

/-- on deliveries of a correct leader's shreds (up to relayed type flips) the node's coarse run is the blockstore's -/
theorem runNode_eq_runDissem (B : HBlock) (cenv : Nat → Content) (cap : Nat) (hwf : B.WF cenv cap) (sd : SlotData)
    (hg : GoodSd B cap sd) (ds : List Blockstore.Shred) (hds : ∀ s ∈ ds, B.HonestUpToType s) :
    runNode cenv sd ds = runDissem cenv sd ds := by
  induction ds generalizing sd with
  | nil => rfl
  | cons s rest ih =>
    obtain ⟨h1, h2⟩ := addNode_honest B cenv cap hwf sd hg s (hds s List.mem_cons_self)
    have := ih _ h2 (fun x hx => hds x (List.mem_cons_of_mem _ hx))
    simp only [runNode, runDissem, h1, this]

/-! ### the C13 theorems on raw network input -/

/-- every raw shred of the sequence that passes `try_new(_, None, leader)` for the slot abstracts to a shred of the
    leader's block `B`, up to the unauthenticated data/coding type (derived from fine-level facts about a correct
    leader in `raw_honest_of_leader`) -/
def RawHonest (env : Env) (rid : RootId) (pk : Nat) (B : HBlock) (ss : List Shred.Shred) : Prop :=
  ∀ s ∈ ss, ∀ cs, absIn env rid pk B.slot s = some cs → B.HonestUpToType cs

theorem rawHonest_deliveries (env : Env) (rid : RootId) (pk : Nat) (B : HBlock) (ss : List Shred.Shred)
    (h : RawHonest env rid pk B ss) : ∀ cs ∈ ss.filterMap (absIn env rid pk B.slot), B.HonestUpToType cs := by
  intro cs hcs
  obtain ⟨s, hs, ha⟩ := List.mem_filterMap.mp hcs
  exact h s hs cs ha

/-- **C13 `honest_never_flagged` on raw network input.** A node whose store holds only a correct leader's data
    receives ANY sequence of raw shreds (garbage, mutations, replays, other slots, relayed type flips, any order,
    duplicates) among which those that validate under the leader key are the leader's up to type: no `InvalidBlock`,
    never flagged, only the leader's block is announced and at most once, and the store holds only the leader's data
    afterwards. (`Blockstore.honest_never_flagged` transferred through `node_refines_blockstore`.) -/
theorem raw_honest_never_flagged (B : HBlock) (env : Env) (cenv : Nat → Content) (cap : Nat) (hwf : B.WF cenv cap)
    (rid : RootId) (hinj : ∀ a b, rid a = rid b → a = b) (pk : Nat) (n : FNode) (hI : Inv rid pk n)
    (hslot : n.slot = B.slot) (hg : GoodSd B cap n.abs) (ss : List Shred.Shred) (hss : RawHonest env rid pk B ss) :
    GoodSd B cap (FNode.run env cenv rid pk n ss).1.abs ∧
    (FNode.run env cenv rid pk n ss).1.abs.misbehaved = false ∧
    (∀ e ∈ (FNode.run env cenv rid pk n ss).2, e = .firstShred ∨ e = .block B.block.info) ∧
    ((FNode.run env cenv rid pk n ss).2.count (.block B.block.info) ≤ (if n.abs.dis.completed.isSome then 0 else 1)) ∧
    Inv rid pk (FNode.run env cenv rid pk n ss).1 := by
  obtain ⟨hinv, hsim⟩ := node_refines_blockstore env cenv rid hinj pk n hI ss
  rw [hslot] at hsim
  have hds := rawHonest_deliveries env rid pk B ss hss
  rw [runNode_eq_runDissem B cenv cap hwf n.abs hg _ hds] at hsim
  obtain ⟨h1, h2, h3⟩ := Blockstore.honest_never_flagged B cenv cap hwf n.abs hg _ hds
  have ha := congrArg Prod.fst hsim
  have hb := congrArg Prod.snd hsim
  simp only at ha hb
  rw [ha, hb]
  exact ⟨h1, h1.1, h2, h3, hinv⟩

/-- **C13 `honest_block_announced_iff` on raw network input.** A fresh slot, any sequence of raw shreds whose
    validating members are the leader's up to type; `del` = the abstractions of the raw shreds that validate and whose
    type fits their index. The `Block` event of the leader's block has been emitted iff every slice has at least
    `DATA_SHREDS` distinct shreds in `del`, exactly once in that case, no other `Block`, no `InvalidBlock`; the block
    is stored iff announced; the leader is not flagged. -/
theorem raw_honest_block_announced_iff (B : HBlock) (env : Env) (cenv : Nat → Content) (cap : Nat) (hwf : B.WF cenv cap)
    (rid : RootId) (hinj : ∀ a b, rid a = rid b → a = b) (pk : Nat) (ss : List Shred.Shred)
    (hss : RawHonest env rid pk B ss) :
    let r := FNode.run env cenv rid pk (FNode.new cap B.slot) ss
    let del := (ss.filterMap (absIn env rid pk B.slot)).filter (·.ty)
    (.block B.block.info ∈ r.2 ↔ Enough B del) ∧
    r.2.count (.block B.block.info) = (if Enough B del then 1 else 0) ∧
    (∀ e ∈ r.2, e = .firstShred ∨ e = .block B.block.info) ∧
    r.1.abs.dis.completed = (if Enough B del then some B.block else none) ∧
    r.1.abs.misbehaved = false := by
  intro r del
  obtain ⟨_, hsim⟩ := node_refines_blockstore env cenv rid hinj pk (FNode.new cap B.slot) (inv_new rid pk cap B.slot) ss
  have hds := rawHonest_deliveries env rid pk B ss hss
  have hg : GoodSd B cap (SlotData.new cap B.slot) := ⟨rfl, Blockstore.good_new B cap⟩
  change _ = runNode cenv (SlotData.new cap B.slot) (List.filterMap (absIn env rid pk B.slot) ss) at hsim
  rw [runNode_eq_runDissem B cenv cap hwf _ hg _ hds] at hsim
  obtain ⟨hflip, hhon⟩ := Blockstore.relayed_type_flips_ignored B cenv cap hwf _ hg _ hds
  rw [hflip] at hsim
  have ha : r.1.abs = (runDissem cenv (SlotData.new cap B.slot) del).1 := congrArg Prod.fst hsim
  have hb : r.2 = (runDissem cenv (SlotData.new cap B.slot) del).2 := congrArg (fun p => p.2) hsim
  rw [ha, hb]
  exact Blockstore.honest_block_announced_iff B cenv cap hwf del hhon

end AgModel.Seam
