import AgModel.Proofs.Seam
import AgModel.Proofs.SeamStore
import AgModel.Props.C13
import AgModel.Props.C14
/-!
# The seam between the two shred models, as theorems (C12 / C13 / C14)

`Model/ShredAbs.lean`: `absShred` (fine validated shred ↦ coarse blockstore shred), `FNode` (fine per-slot node
state), `FNode.handle` (a RAW shred arrives: `cached_commitment` → `ValidatedShred::try_new` → type check →
`add_shred_from_dissemination`), `absIn` (the stateless abstraction of a raw shred: `try_new(_, None, leader)`).
Here: the simulation theorem and what it transfers from `Props/C13.lean` / `Props/C14.lean` to raw network input.
-/
set_option linter.unusedSimpArgs false
namespace AgModel.Seam
open AgModel.Shred (Env VShred Cached Sig Bytes validate VErr CacheSound)
open AgModel.Blockstore (SlotData Event Content AddRes HBlock GoodSd runDissem Enough)

/-- the simulation invariant holds for a fresh slot -/
theorem inv_fresh (rid : RootId) (pk cap slot : Nat) : Inv rid pk (FNode.new cap slot) := inv_new rid pk cap slot

/-- **Simulation (refinement), every sequence of raw shreds.** For every sequence of raw shreds - any bytes, headers,
    signatures, types, indices, Merkle paths, any order, duplicates, other slots' shreds - running the fine node
    (`try_new` with the commitment cache, then the blockstore) and abstracting gives exactly the state and the events
    of the coarse model run on the abstraction of exactly those raw shreds of the slot that pass
    `try_new(_, None, leader_pk)`; the invariant (cache soundness D34, cache agreement) is kept.
    The coarse run is `runNode`: `add_shred_from_dissemination`, except that a validly signed *conflicting* commitment
    on a shred of the *wrong type* flags the leader (`try_new` reports before the type is looked at; the blockstore
    alone would drop it): `typedConflict`. Where that case cannot occur `runNode` is `runDissem`
    (`runNode_eq_runDissem`). `hinj`: no SHA-256 collision among slice roots. -/
theorem node_refines_blockstore (env : Env) (cenv : Nat → Content) (rid : RootId)
    (hinj : ∀ a b, rid a = rid b → a = b) (pk : Nat) (n : FNode) (hI : Inv rid pk n) (ss : List Shred.Shred) :
    Inv rid pk (FNode.run env cenv rid pk n ss).1 ∧
    ((FNode.run env cenv rid pk n ss).1.abs, (FNode.run env cenv rid pk n ss).2) =
      runNode cenv n.abs (ss.filterMap (absIn env rid pk n.slot)) := by
  induction ss generalizing n with
  | nil => exact ⟨hI, rfl⟩
  | cons s rest ih =>
    obtain ⟨h1, h2, h3⟩ := handle_refines env cenv rid hinj pk n hI s
    obtain ⟨i1, i2⟩ := ih (n.handle env cenv rid pk s).1 h1
    rw [h2] at i2
    simp only [FNode.run]
    refine ⟨i1, ?_⟩
    rw [List.filterMap_cons]
    cases ha : absIn env rid pk n.slot s with
    | none =>
      rw [ha] at h3
      simp only at h3 ⊢
      injection h3 with h3a h3b
      rw [h3b, List.nil_append, ← h3a]
      exact i2
    | some cs =>
      rw [ha] at h3
      simp only at h3 ⊢
      have h3a : (n.handle env cenv rid pk s).1.abs = (addNode cenv n.abs cs).1 := congrArg Prod.fst h3
      have h3b : (n.handle env cenv rid pk s).2 = (addNode cenv n.abs cs).2 := congrArg Prod.snd h3
      have i2a := congrArg Prod.fst i2
      have i2b := congrArg Prod.snd i2
      simp only at i2a i2b
      simp only [runNode]
      rw [← h3a, ← h3b, ← i2a, ← i2b]

/-- one step of `runNode` without typed conflict is `add_shred_from_dissemination` -/
theorem addNode_eq_addDissem (cenv : Nat → Content) (sd : SlotData) (cs : Blockstore.Shred)
    (h : typedConflict sd cs = false) :
    addNode cenv sd cs = ((Blockstore.addDissem cenv sd cs).1, (Blockstore.addDissem cenv sd cs).2.2) := by
  unfold addNode; rw [h]; rfl

/-- shreds of a correct leader's block (type possibly flipped by a relay) never are a typed conflict in a store that
    holds only the leader's data, and keep the store so -/
theorem addNode_honest (B : HBlock) (cenv : Nat → Content) (cap : Nat) (hwf : B.WF cenv cap) (sd : SlotData)
    (hg : GoodSd B cap sd) (cs : Blockstore.Shred) (hs : B.HonestUpToType cs) :
    addNode cenv sd cs = ((Blockstore.addDissem cenv sd cs).1, (Blockstore.addDissem cenv sd cs).2.2) ∧
      GoodSd B cap (Blockstore.addDissem cenv sd cs).1 := by
  constructor
  · apply addNode_eq_addDissem
    unfold typedConflict
    cases hc : sd.dis.cache cs.slice with
    | none => simp
    | some c =>
      have h1 := (hg.2.cache _ _ hc).2
      have h2 : cs.commitment = B.commit cs.slice := by
        have := hs.2.2
        have h3 := congrArg Blockstore.Shred.commitment this
        simp only [Blockstore.Shred.commitment, HBlock.shred] at h3 ⊢
        exact h3
      simp [h1, h2]
  · cases hty : cs.ty with
    | false => rw [Blockstore.wrong_type_ignored cenv sd cs hg.1 hty]; exact hg
    | true => exact (Blockstore.addDissem_good B cenv cap hwf sd cs hg (hs.honest hty)).1

/-- on deliveries of a correct leader's shreds (up to relayed type flips) the node's coarse run is the blockstore's -/
theorem runNode_eq_runDissem (B : HBlock) (cenv : Nat → Content) (cap : Nat) (hwf : B.WF cenv cap) (sd : SlotData)
    (hg : GoodSd B cap sd) (ds : List Blockstore.Shred) (hds : ∀ s ∈ ds, B.HonestUpToType s) :
    runNode cenv sd ds = runDissem cenv sd ds := by
  induction ds generalizing sd with
  | nil => rfl
  | cons s rest ih =>
    obtain ⟨h1, h2⟩ := addNode_honest B cenv cap hwf sd hg s (hds s List.mem_cons_self)
    have := ih _ h2 (fun x hx => hds x (List.mem_cons_of_mem _ hx))
    simp only [runNode, runDissem, h1, this]

/-! ### the C13 theorems on raw network input -/

/-- every raw shred of the sequence that passes `try_new(_, None, leader)` for the slot abstracts to a shred of the
    leader's block `B`, up to the unauthenticated data/coding type (derived from fine-level facts about a correct
    leader in `raw_honest_of_leader`) -/
def RawHonest (env : Env) (rid : RootId) (pk : Nat) (B : HBlock) (ss : List Shred.Shred) : Prop :=
  ∀ s ∈ ss, ∀ cs, absIn env rid pk B.slot s = some cs → B.HonestUpToType cs

theorem rawHonest_deliveries (env : Env) (rid : RootId) (pk : Nat) (B : HBlock) (ss : List Shred.Shred)
    (h : RawHonest env rid pk B ss) : ∀ cs ∈ ss.filterMap (absIn env rid pk B.slot), B.HonestUpToType cs := by
  intro cs hcs
  obtain ⟨s, hs, ha⟩ := List.mem_filterMap.mp hcs
  exact h s hs cs ha

/-- **C13 `honest_never_flagged` on raw network input.** A node whose store holds only a correct leader's data
    receives ANY sequence of raw shreds (garbage, mutations, replays, other slots, relayed type flips, any order,
    duplicates) among which those that validate under the leader key are the leader's up to type: no `InvalidBlock`,
    never flagged, only the leader's block is announced and at most once, and the store holds only the leader's data
    afterwards. (`Blockstore.honest_never_flagged` transferred through `node_refines_blockstore`.) -/
theorem raw_honest_never_flagged (B : HBlock) (env : Env) (cenv : Nat → Content) (cap : Nat) (hwf : B.WF cenv cap)
    (rid : RootId) (hinj : ∀ a b, rid a = rid b → a = b) (pk : Nat) (n : FNode) (hI : Inv rid pk n)
    (hslot : n.slot = B.slot) (hg : GoodSd B cap n.abs) (ss : List Shred.Shred) (hss : RawHonest env rid pk B ss) :
    GoodSd B cap (FNode.run env cenv rid pk n ss).1.abs ∧
    (FNode.run env cenv rid pk n ss).1.abs.misbehaved = false ∧
    (∀ e ∈ (FNode.run env cenv rid pk n ss).2, e = .firstShred ∨ e = .block B.block.info) ∧
    ((FNode.run env cenv rid pk n ss).2.count (.block B.block.info) ≤ (if n.abs.dis.completed.isSome then 0 else 1)) ∧
    Inv rid pk (FNode.run env cenv rid pk n ss).1 := by
  obtain ⟨hinv, hsim⟩ := node_refines_blockstore env cenv rid hinj pk n hI ss
  rw [hslot] at hsim
  have hds := rawHonest_deliveries env rid pk B ss hss
  rw [runNode_eq_runDissem B cenv cap hwf n.abs hg _ hds] at hsim
  obtain ⟨h1, h2, h3⟩ := Blockstore.honest_never_flagged B cenv cap hwf n.abs hg _ hds
  have ha := congrArg Prod.fst hsim
  have hb := congrArg Prod.snd hsim
  simp only at ha hb
  rw [ha, hb]
  exact ⟨h1, h1.1, h2, h3, hinv⟩

/-- **C13 `honest_block_announced_iff` on raw network input.** A fresh slot, any sequence of raw shreds whose
    validating members are the leader's up to type; `del` = the abstractions of the raw shreds that validate and whose
    type fits their index. The `Block` event of the leader's block has been emitted iff every slice has at least
    `DATA_SHREDS` distinct shreds in `del`, exactly once in that case, no other `Block`, no `InvalidBlock`; the block
    is stored iff announced; the leader is not flagged. -/
theorem raw_honest_block_announced_iff (B : HBlock) (env : Env) (cenv : Nat → Content) (cap : Nat) (hwf : B.WF cenv cap)
    (rid : RootId) (hinj : ∀ a b, rid a = rid b → a = b) (pk : Nat) (ss : List Shred.Shred)
    (hss : RawHonest env rid pk B ss) :
    let r := FNode.run env cenv rid pk (FNode.new cap B.slot) ss
    let del := (ss.filterMap (absIn env rid pk B.slot)).filter (·.ty)
    (.block B.block.info ∈ r.2 ↔ Enough B del) ∧
    r.2.count (.block B.block.info) = (if Enough B del then 1 else 0) ∧
    (∀ e ∈ r.2, e = .firstShred ∨ e = .block B.block.info) ∧
    r.1.abs.dis.completed = (if Enough B del then some B.block else none) ∧
    r.1.abs.misbehaved = false := by
  intro r del
  obtain ⟨_, hsim⟩ := node_refines_blockstore env cenv rid hinj pk (FNode.new cap B.slot) (inv_new rid pk cap B.slot) ss
  have hds := rawHonest_deliveries env rid pk B ss hss
  have hg : GoodSd B cap (SlotData.new cap B.slot) := ⟨rfl, Blockstore.good_new B cap⟩
  change _ = runNode cenv (SlotData.new cap B.slot) (List.filterMap (absIn env rid pk B.slot) ss) at hsim
  rw [runNode_eq_runDissem B cenv cap hwf _ hg _ hds] at hsim
  obtain ⟨hflip, hhon⟩ := Blockstore.relayed_type_flips_ignored B cenv cap hwf _ hg _ hds
  rw [hflip] at hsim
  have ha : r.1.abs = (runDissem cenv (SlotData.new cap B.slot) del).1 := congrArg Prod.fst hsim
  have hb : r.2 = (runDissem cenv (SlotData.new cap B.slot) del).2 := congrArg (fun p => p.2) hsim
  rw [ha, hb]
  exact Blockstore.honest_block_announced_iff B cenv cap hwf del hhon

/-! ### where `RawHonest` comes from: a correct leader, at the fine level -/

/-- the coarse block `B` is the abstraction of what the leader `sk` produced for the slot with the regular shredder:
    slice `i` is `sl i` (cipher key `key i`), and the abstraction of the leader's `j`-th shred of it is `B.shred i j`
    (this fixes `B.root i` = the interned root of the leader's tree and `B.sz i` = the size class of its shards,
    which are of one length) -/
def AbstractsLeader (env : Env) (rid : RootId) (sk : Nat) (B : HBlock) (sl : Nat → Shred.Slice) (key : Nat → Bytes) : Prop :=
  ∀ i j l, i < B.n → (Shred.leaderOut env .regular (sl i) sk (key i))[j]? = some l → absShred rid l = B.shred i j

/-- symbolic signatures: the leader key signed, for this slot, only the commitments of its block's slices -/
def LeaderSignedBlock (env : Env) (sk : Nat) (B : HBlock) (sl : Nat → Shred.Slice) (key : Nat → Bytes)
    (s : Shred.Shred) : Prop :=
  ∀ c, s.sig = .signed sk c → c.slot = B.slot →
    ∃ i, i < B.n ∧ c = Shred.commit (sl i).header (Shred.leaderTree env .regular (sl i) (key i)).root

/-- **`RawHonest` is a theorem about a correct leader**: if the leader key's signatures on the raw shreds are only
    over the commitments of the leader's block (nothing assumed about payload, index, path, type, header, other
    signatures - the shreds may be anything), then every raw shred that passes `try_new(_, None, leader)` abstracts
    to the leader's shred at that slice and index up to the type. Uses C12 `accepted_is_leader_shred_partial`
    (Merkle binding of payload and index, C15). -/
theorem raw_honest_of_leader (env : Env) (L : env.Laws) (rid : RootId) (sk : Nat) (B : HBlock) (sl : Nat → Shred.Slice)
    (key : Nat → Bytes) (habs : AbstractsLeader env rid sk B sl key) (ss : List Shred.Shred)
    (hss : ∀ s ∈ ss, LeaderSignedBlock env sk B sl key s) : RawHonest env rid sk B ss := by
  intro s hs cs hcs
  unfold absIn at hcs
  split at hcs
  · cases hcs
  · rename_i hslot
    have hslot : s.header.slot = B.slot := Decidable.not_not.mp hslot
    cases hv : validate env s none sk with
    | error e => rw [hv] at hcs; cases hcs
    | ok v =>
      rw [hv] at hcs
      simp only [Option.some.injEq] at hcs
      obtain ⟨_, hsig, _, _⟩ := (Shred.accept_iff_signed env s sk none trivial v).mp hv
      obtain ⟨i, hi, hc⟩ := hss s hs _ hsig hslot
      rw [hc] at hsig
      obtain ⟨hidx, l, hl, hsl, hx⟩ :=
        Shred.accepted_is_leader_shred_partial env L .regular (sl i) sk (key i) s v none trivial hsig hv
      obtain ⟨hroot, hli, _⟩ := Shred.leaderOut_get env .regular (sl i) sk (key i) s.index l hl
      have hB := habs i s.index l hi hl
      have hh : s.header = l.shred.header := by rw [hsl]
      have hd : s.data = l.shred.data := by rw [hsl]
      have hcs' : ({ cs with ty := true } : Blockstore.Shred) = B.shred i s.index := by
        rw [← hB, ← hcs, hx]
        simp only [absShred, hh, hd, hroot, hli, Blockstore.Shred.mk.injEq, true_and]
        have := congrArg Blockstore.Shred.ty hB
        simpa [absShred, HBlock.shred] using this
      unfold HBlock.HonestUpToType HBlock.Honest
      rw [hcs']
      refine ⟨hi, ?_, rfl⟩
      have : Blockstore.TOTAL_SHREDS = Pad.TOTAL := rfl
      simp only [HBlock.shred]
      rw [this]; exact hidx

/-! ### repair (C14): `sigOk = true` of the responder model -/

/-- a coarse shred that is the abstraction of a fine shred of the slot which `try_new(_, None, leader)` accepts -/
def Backed (env : Env) (rid : RootId) (pk slot : Nat) (cs : Blockstore.Shred) : Prop :=
  ∃ x : VShred, ServedOk env rid pk x cs ∧ x.shred.header.slot = slot

/-- the link between the coarse decoding environment and the fine `Shredder::deshred` that is still assumed: when
    the coarse model regenerates the missing shreds of a slice (its environment says the root decodes), the fine
    `deshred` succeeds on the fine shreds held and its regenerated shreds are what the coarse `refill` abstracts.
    The fine half is a theorem - C12 `reconstructed_shreds_validate`: after a successful fine `deshred` every shred
    of the array, stored or regenerated, passes `try_new(_, None, leader)` -; what is not proved is that the coarse
    `deshred` (an environment lookup) and the fine one (Reed-Solomon, Merkle re-check) succeed together. -/
def RegenBacked (env : Env) (cenv : Nat → Content) (rid : RootId) (pk slot : Nat) : Prop :=
  Blockstore.RegenKeeps cenv (Backed env rid pk slot)

theorem handle_slot (env : Env) (cenv : Nat → Content) (rid : RootId) (pk : Nat) (n : FNode) (s : Shred.Shred) :
    (n.handle env cenv rid pk s).1.slot = n.slot := by
  unfold FNode.handle
  split
  · rfl
  · split
    · rfl
    · rfl
    · split <;> rfl

/-- **Everything the node hands to the blockstore is backed** (connects C12 `node_cache_sound` /
    `accepted_valid_without_cache` to the coarse deliveries): whatever `try_new` accepts with the node's cache - hit
    or not - is a shred `try_new(_, None, leader)` accepts, and the blockstore is given its abstraction; with
    `RegenBacked`, everything the slot holds stays backed. -/
theorem handle_stored (env : Env) (cenv : Nat → Content) (rid : RootId) (pk : Nat) (n : FNode) (hI : Inv rid pk n)
    (hr : RegenBacked env cenv rid pk n.slot) (s : Shred.Shred)
    (h : Blockstore.SdStored (Backed env rid pk n.slot) n.abs) :
    Blockstore.SdStored (Backed env rid pk n.slot) (n.handle env cenv rid pk s).1.abs := by
  unfold FNode.handle
  split
  · exact h
  · rename_i hslot
    have hslot : s.header.slot = n.slot := Decidable.not_not.mp hslot
    have hcs : CacheSound pk (n.cachedEntry s.header.sliceIdx) := by
      cases hc : n.cachedEntry s.header.sliceIdx with
      | none => trivial
      | some e => exact hI.sound _ _ hc
    split
    · exact h
    · exact Blockstore.flag_sdStored _ _ h
    · rename_i v hv
      split
      · exact h
      · apply Blockstore.addDissem_sdStored cenv _ hr n.sd _ h
        have hvalid := Shred.accepted_valid_without_cache env s pk _ hcs v hv
        obtain ⟨_, _, _, hx⟩ := (Shred.accept_iff_signed env s pk _ hcs v).mp hv
        exact ⟨v, ⟨hvalid, rfl⟩, by rw [hx]; exact hslot⟩

theorem run_stored (env : Env) (cenv : Nat → Content) (rid : RootId) (hinj : ∀ a b, rid a = rid b → a = b) (pk : Nat)
    (n : FNode) (hI : Inv rid pk n) (hr : RegenBacked env cenv rid pk n.slot) (ss : List Shred.Shred)
    (h : Blockstore.SdStored (Backed env rid pk n.slot) n.abs) :
    Blockstore.SdStored (Backed env rid pk n.slot) (FNode.run env cenv rid pk n ss).1.abs := by
  induction ss generalizing n with
  | nil => exact h
  | cons s rest ih =>
    have hs := handle_slot env cenv rid pk n s
    have h1 := handle_stored env cenv rid pk n hI hr s h
    have hI1 := (handle_refines env cenv rid hinj pk n hI s).1
    rw [← hs] at hr h1
    have := ih _ hI1 hr h1
    rw [hs] at this
    exact this

/-- **`sigOk = true` of the responder model is a theorem** (C14; `_partial`: under `RegenBacked`, see there).
    A node that ingested ANY sequence of raw shreds through `handle_disseminator_shred` (from a fresh slot) answers
    a repair request for a shred - `RepairRequestHandler::try_build_response`, model `Repair.answer`, which sets
    `sigOk = true` - only with the abstraction of a fine shred of that slot which passes
    `ValidatedShred::try_new(_, None, leader_pk)`: what the requester model's check `sigOk` stands for.
    Full statement: the same without the hypothesis `hr`. Missing: coarse `deshred` succeeds only if the fine one
    does, and `refill` is the abstraction of `fill_missing_shreds` (then `reconstructed_shreds_validate` gives `hr`).
    On the pinned snapshot the conclusion was false already for stored shreds (`cache_skips_signature_old_witness`);
    here the stored part is `handle_stored` (D34 `fix:`, `Inv.sound`). -/
theorem served_sigOk_partial (env : Env) (cenv : Nat → Content) (rid : RootId) (hinj : ∀ a b, rid a = rid b → a = b)
    (pk cap slot : Nat) (hr : RegenBacked env cenv rid pk slot) (ss : List Shred.Shred)
    (b : Repair.Bid) (i j : Nat) (r : Repair.Req) (hslot : Nat) (cs : Blockstore.Shred) (ok : Bool)
    (ha : Repair.answer (FNode.run env cenv rid pk (FNode.new cap slot) ss).1.abs (.shred b i j) = some (.shred r hslot cs ok)) :
    ok = true ∧ ∃ x : VShred, ServedOk env rid pk x cs ∧ x.shred.header.slot = slot := by
  have hst := run_stored env cenv rid hinj pk (FNode.new cap slot) (inv_new rid pk cap slot) hr ss
    (Blockstore.sdStored_new _ cap slot)
  unfold Repair.answer at ha
  simp only at ha
  cases hg : Blockstore.getShred (FNode.run env cenv rid pk (FNode.new cap slot) ss).1.abs b.hash i j with
  | none => rw [hg] at ha; simp at ha
  | some s =>
    rw [hg] at ha
    simp only [Option.some.injEq, Repair.Resp.shred.injEq] at ha
    obtain ⟨_, _, h3, h4⟩ := ha
    subst h3
    exact ⟨h4.symm, Blockstore.getShred_stored _ _ hst b.hash i j s hg⟩

/-! ### non-vacuity and the one divergence -/

section Witness
open AgModel.Exec.ShredEnv
open AgModel.Shred (wOut wS wFlipped wJunk)

/-- interning used in the examples: the example slice's root is id 1 -/
def ridEx : RootId := fun h => if h = (wOut.getD 3 default).root then 1 else 2
def cenvEx : Nat → Content := fun _ => .bad
/-- the same leader (key 5) signs a second slice for slot 7, slice 3: other content -/
def wSlice2 : Shred.Slice := ⟨⟨7, 3, true⟩, some (6, genHash 3), [9, 2, 0, 128, 0]⟩
def wOut2 : List VShred := Shred.leaderOut toyEnv .regular wSlice2 5 (keyOf 1)
/-- a shred of the conflicting slice whose data/coding type a relay flipped -/
def wConflictFlipped : Shred.Shred :=
  { (wOut2.getD 3 default).shred with isData := !(wOut2.getD 3 default).shred.isData }

def view (c : Blockstore.Shred) : Nat × Bool × Nat × Nat × Bool := (c.slice, c.isLast, c.root, c.idx, c.ty)

/-- **Non-vacuity of the abstraction**: a concrete fine shred of the leader (key 5, slot 7, slice 3, index 3) passes
    `try_new(_, None, 5)` and abstracts to the coarse shred (slice 3, last, root id 1, index 3, type fits); with its
    type flipped it still validates and abstracts to the same shred with `ty = false`; the same shred with a junk
    signature, under another key, or offered to another slot is no delivery at all. -/
theorem abs_witness :
    (absIn toyEnv ridEx 5 7 wS).map view = some (3, true, 1, 3, true) ∧
    (absIn toyEnv ridEx 5 7 wFlipped).map view = some (3, true, 1, 3, false) ∧
    absIn toyEnv ridEx 5 7 (wJunk 3) = none ∧
    absIn toyEnv ridEx 6 7 wS = none ∧
    absIn toyEnv ridEx 5 8 wS = none ∧
    absIn toyEnv ridEx 5 7 { wS with index := 4 } = none := by
  decide +kernel

/-- **Non-vacuity of the simulation**: the fine node on junk, a genuine shred, its type-flipped copy and a duplicate
    sends exactly `FirstShred`, stays unflagged and caches the slice's commitment with the signature verified for it;
    the coarse run on the abstractions of the shreds that validate sends the same. -/
theorem run_witness :
    (FNode.run toyEnv cenvEx ridEx 5 (FNode.new 4 7) [wJunk 3, wS, wFlipped, wS]).2 = [.firstShred] ∧
    (FNode.run toyEnv cenvEx ridEx 5 (FNode.new 4 7) [wJunk 3, wS, wFlipped, wS]).1.abs.misbehaved = false ∧
    (FNode.run toyEnv cenvEx ridEx 5 (FNode.new 4 7) [wJunk 3, wS, wFlipped, wS]).1.cachedEntry 3
      = some (wOut.getD 3 default).cacheEntry ∧
    (runNode cenvEx (SlotData.new 4 7) ([wJunk 3, wS, wFlipped, wS].filterMap (absIn toyEnv ridEx 5 7))).2 = [.firstShred] := by
  decide +kernel

/-- **The one place where the node is not "the blockstore on what validates"** (why the simulation is stated with
    `runNode`): after a genuine shred of slice 3, a shred of a *second* slice the leader signed for the same slot and
    index, with its type flipped on the way, makes the node flag the leader (`try_new` answers `Equivocation` before
    the type is looked at), whereas the blockstore model fed the abstraction drops it as `WrongType`. The node errs on
    the safe side: the leader did sign two commitments. -/
theorem typed_conflict_witness :
    (FNode.run toyEnv cenvEx ridEx 5 (FNode.new 4 7) [wS, wConflictFlipped]).2 = [.firstShred, .invalidBlock] ∧
    (FNode.run toyEnv cenvEx ridEx 5 (FNode.new 4 7) [wS, wConflictFlipped]).1.abs.misbehaved = true ∧
    (runNode cenvEx (SlotData.new 4 7) ([wS, wConflictFlipped].filterMap (absIn toyEnv ridEx 5 7))).2
      = [.firstShred, .invalidBlock] ∧
    (runDissem cenvEx (SlotData.new 4 7) ([wS, wConflictFlipped].filterMap (absIn toyEnv ridEx 5 7))).2 = [.firstShred] ∧
    (runDissem cenvEx (SlotData.new 4 7) ([wS, wConflictFlipped].filterMap (absIn toyEnv ridEx 5 7))).1.misbehaved = false := by
  decide +kernel

end Witness

end AgModel.Seam
