import AgModel.Proofs.PoolCerts
/-!
# C03 — Certificates a node emits are valid, justified by accepted votes, and timely

Statements are about the per-slot state machine of the pool model (`AgModel.Pool`): `slotStep` is what
`PoolImpl::add_vote / add_cert / add_block` do to the state of one slot (admission filter,
`SlotState::add_vote`, adding the created certificates, received certificates, parent
notifications); `slotRun` runs an arbitrary finite history of such operations. Everything is
unbounded in the number of validators, the stakes (any `List Nat` with positive total), the block
hashes and the length and order of the history.
-/
namespace AgModel.Pool

/-- a state reachable from the empty slot state by an arbitrary history of slot operations -/
def Reachable (e : Epoch) (st : SlotState) : Prop := ∃ slot ops, st = (slotRun e { slot := slot } ops).1

theorem reachable_inv (e : Epoch) (hpos : 0 < e.total) (st : SlotState) (h : Reachable e st) : Inv e st := by
  obtain ⟨slot, ops, rfl⟩ := h
  exact slotRun_Inv e ops _ (Inv.init e slot hpos)

/-- **Counters are recounts; each validator is counted at most once per class.** In every reachable
    state every running stake total equals the stake of the *distinct* validators whose vote of that
    class (and block) is stored, `notar_or_skip` is the total of all notar voters plus the skip voters,
    and `top_notar` is the maximum notar stake over all blocks. -/
theorem counters_are_recounts (e : Epoch) (hpos : 0 < e.total) (st : SlotState) (h : Reachable e st) :
    (∀ b, lookupD st.sNotar b = stakeOf e (st.notarVoters e.n b)) ∧
    (∀ b, lookupD st.sNf b = stakeOf e (st.nfVoters e.n b)) ∧
    st.sSkip = stakeOf e (st.skipVoters e.n) ∧ st.sSf = stakeOf e (st.sfVoters e.n) ∧
    st.sFin = stakeOf e (st.finVoters e.n) ∧
    st.sNotarOrSkip = stakeOf e ((List.range e.n).filter (fun v => (st.vNotar.lookup v).isSome)) + st.sSkip ∧
    (∀ b, lookupD st.sNotar b ≤ st.sTopNotar) ∧ (st.sTopNotar = 0 ∨ ∃ b, lookupD st.sNotar b = st.sTopNotar) := by
  have i := (reachable_inv e hpos st h).1
  exact ⟨i.cNotar, i.cNf, i.cSkip, i.cSf, i.cFin, i.cNotarOrSkip, i.topGe, i.topAttained⟩

/-- **Timeliness (⇒).** In every reachable state, as soon as the accepted stake reaches a threshold the
    certificate of that type is held: 60 % notar ⇒ notarization, 80 % notar ⇒ fast-finalization,
    60 % notar + notar-fallback for a block ⇒ notar-fallback for that block, 60 % skip + skip-fallback
    ⇒ skip, 60 % finalize ⇒ finalization. (Certificates are added in the same step that makes the
    threshold true: `slotStep` is one step.) -/
theorem cert_timely (e : Epoch) (hpos : 0 < e.total) (st : SlotState) (h : Reachable e st) :
    (∀ b, e.isQuorum (lookupD st.sNotar b) = true → st.cNotar.isSome = true) ∧
    (∀ b, e.isStrong (lookupD st.sNotar b) = true → st.cFf.isSome = true) ∧
    (∀ b, e.isQuorum (lookupD st.sNf b + lookupD st.sNotar b) = true → st.isNf b = true) ∧
    (e.isQuorum (st.sSkip + st.sSf) = true → st.cSkip.isSome = true) ∧
    (e.isQuorum st.sFin = true → st.cFin.isSome = true) := by
  have i := (reachable_inv e hpos st h).2
  exact ⟨i.tNotar, i.tFf, i.tNf, i.tSkip, i.tFin⟩

/-- what "valid and justified" means for a certificate created in state `s` (the state after the
    crossing vote was stored): signers of each aggregate are exactly the validators whose matching
    vote is stored, the two aggregates are disjoint, the declared stake is the stake of the signers
    and meets the type's threshold. -/
def Justified (e : Epoch) (s : SlotState) (c : Cert) : Prop :=
  c.slot = s.slot ∧
  match c.kind with
  | .notar => c.sig1 = s.notarVoters e.n c.hash ∧ c.sig2 = [] ∧ c.stake = stakeOf e c.sig1 ∧ e.isQuorum c.stake = true
  | .ff => c.sig1 = s.notarVoters e.n c.hash ∧ c.sig2 = [] ∧ c.stake = stakeOf e c.sig1 ∧ e.isStrong c.stake = true
  | .nf => c.sig1 = s.notarVoters e.n c.hash ∧ c.sig2 = s.nfVoters e.n c.hash ∧ (∀ x ∈ c.sig1, x ∉ c.sig2) ∧
      c.stake = stakeOf e c.sig1 + stakeOf e c.sig2 ∧ e.isQuorum c.stake = true
  | .skip => c.sig1 = s.skipVoters e.n ∧ c.sig2 = s.sfVoters e.n ∧ (∀ x ∈ c.sig1, x ∉ c.sig2) ∧
      c.stake = stakeOf e c.sig1 + stakeOf e c.sig2 ∧ e.isQuorum c.stake = true
  | .final => c.sig1 = s.finVoters e.n ∧ c.sig2 = [] ∧ c.stake = stakeOf e c.sig1 ∧ e.isQuorum c.stake = true

private theorem mem_notarVoters (s : SlotState) (n h x : Nat) : x ∈ s.notarVoters n h ↔ x < n ∧ s.vNotar.lookup x = some h := by
  simp [SlotState.notarVoters]
private theorem mem_nfVoters (s : SlotState) (n h x : Nat) : x ∈ s.nfVoters n h ↔ x < n ∧ (x, h) ∈ s.vNf := by
  simp [SlotState.nfVoters]

theorem newCerts_justified (e : Epoch) (s : SlotState) (v : Vote) (i : InvV e s) :
    ∀ c ∈ s.newCerts e v, Justified e s c := by
  intro c hc
  unfold SlotState.newCerts at hc
  cases hk : v.kind <;> simp only [hk] at hc
  · -- notar vote: nf / notar / ff certificates
    simp only [notarCertsOn, List.mem_append] at hc
    rcases hc with (hc | hc) | hc
    · split at hc
      · rename_i hq
        simp only [List.mem_singleton] at hc; subst hc
        simp only [Bool.and_eq_true] at hq
        refine ⟨rfl, rfl, rfl, ?_, rfl, ?_⟩
        · intro x hx hx2
          have a := (mem_notarVoters s e.n v.hash x).mp hx
          have b := (mem_nfVoters s e.n v.hash x).mp hx2
          exact i.noNotarNfSame x v.hash b.2 a.2
        · show e.isQuorum (stakeOf e (s.notarVoters e.n v.hash) + stakeOf e (s.nfVoters e.n v.hash)) = true
          rw [← i.cNotar, ← i.cNf, Nat.add_comm]; exact hq.1
      · simp at hc
    · split at hc
      · rename_i hq
        simp only [List.mem_singleton] at hc; subst hc
        simp only [Bool.and_eq_true] at hq
        refine ⟨rfl, rfl, rfl, rfl, ?_⟩
        show e.isQuorum (stakeOf e (s.notarVoters e.n v.hash)) = true
        rw [← i.cNotar]; exact hq.1
      · simp at hc
    · split at hc
      · rename_i hq
        simp only [List.mem_singleton] at hc; subst hc
        simp only [Bool.and_eq_true] at hq
        refine ⟨rfl, rfl, rfl, rfl, ?_⟩
        show e.isStrong (stakeOf e (s.notarVoters e.n v.hash)) = true
        rw [← i.cNotar]; exact hq.1
      · simp at hc
  · -- nf vote
    simp only [nfCertsOn] at hc
    split at hc
    · rename_i hq
      simp only [List.mem_singleton] at hc; subst hc
      simp only [Bool.and_eq_true] at hq
      refine ⟨rfl, rfl, rfl, ?_, rfl, ?_⟩
      · intro x hx hx2
        have a := (mem_notarVoters s e.n v.hash x).mp hx
        have b := (mem_nfVoters s e.n v.hash x).mp hx2
        exact i.noNotarNfSame x v.hash b.2 a.2
      · show e.isQuorum (stakeOf e (s.notarVoters e.n v.hash) + stakeOf e (s.nfVoters e.n v.hash)) = true
        rw [← i.cNotar, ← i.cNf, Nat.add_comm]; exact hq.1
    · simp at hc
  · -- skip vote
    simp only [skipCertsOn] at hc
    split at hc
    · rename_i hq
      simp only [List.mem_singleton] at hc; subst hc
      simp only [Bool.and_eq_true] at hq
      refine ⟨rfl, rfl, rfl, ?_, rfl, ?_⟩
      · intro x hx hx2
        have hx' : x ∈ s.skipVoters e.n := hx
        have hx2' : x ∈ s.sfVoters e.n := hx2
        simp [SlotState.skipVoters, SlotState.sfVoters] at hx' hx2'
        exact i.noSkipSf x hx'.2 hx2'.2
      · show e.isQuorum (stakeOf e (s.skipVoters e.n) + stakeOf e (s.sfVoters e.n)) = true
        rw [← i.cSkip, ← i.cSf]; exact hq.1
    · simp at hc
  · -- sf vote
    simp only [skipCertsOn] at hc
    split at hc
    · rename_i hq
      simp only [List.mem_singleton] at hc; subst hc
      simp only [Bool.and_eq_true] at hq
      refine ⟨rfl, rfl, rfl, ?_, rfl, ?_⟩
      · intro x hx hx2
        have hx' : x ∈ s.skipVoters e.n := hx
        have hx2' : x ∈ s.sfVoters e.n := hx2
        simp [SlotState.skipVoters, SlotState.sfVoters] at hx' hx2'
        exact i.noSkipSf x hx'.2 hx2'.2
      · show e.isQuorum (stakeOf e (s.skipVoters e.n) + stakeOf e (s.sfVoters e.n)) = true
        rw [← i.cSkip, ← i.cSf]; exact hq.1
    · simp at hc
  · -- final vote
    simp only [finCertsOn] at hc
    split at hc
    · rename_i hq
      simp only [List.mem_singleton] at hc; subst hc
      simp only [Bool.and_eq_true] at hq
      refine ⟨rfl, rfl, rfl, rfl, ?_⟩
      show e.isQuorum (stakeOf e (s.finVoters e.n)) = true
      rw [← i.cFin]; exact hq.1
    · simp at hc

/-- two states store the same votes -/
structure SameVotes (a b : SlotState) : Prop where
  slot : a.slot = b.slot
  notar : a.vNotar = b.vNotar
  nf : a.vNf = b.vNf
  skip : a.vSkip = b.vSkip
  sf : a.vSf = b.vSf
  fin : a.vFin = b.vFin

theorem SameVotes.of_coreEq {a b : SlotState} (h : CoreEq a b) : SameVotes a b :=
  ⟨(congrArg SlotState.slot h.eq : a.core.slot = b.core.slot), (congrArg SlotState.vNotar h.eq : a.core.vNotar = b.core.vNotar),
   (congrArg SlotState.vNf h.eq : a.core.vNf = b.core.vNf), (congrArg SlotState.vSkip h.eq : a.core.vSkip = b.core.vSkip),
   (congrArg SlotState.vSf h.eq : a.core.vSf = b.core.vSf), (congrArg SlotState.vFin h.eq : a.core.vFin = b.core.vFin)⟩

theorem SameVotes.trans {a b c : SlotState} (h1 : SameVotes a b) (h2 : SameVotes b c) : SameVotes a c :=
  ⟨h1.slot.trans h2.slot, h1.notar.trans h2.notar, h1.nf.trans h2.nf, h1.skip.trans h2.skip, h1.sf.trans h2.sf,
   h1.fin.trans h2.fin⟩

theorem SameVotes.addCert (a : SlotState) (c : Cert) : SameVotes a (a.addCert c) := by
  unfold SlotState.addCert
  cases c.kind <;> dsimp only
  · exact ⟨rfl, rfl, rfl, rfl, rfl, rfl⟩
  · split <;> exact ⟨rfl, rfl, rfl, rfl, rfl, rfl⟩
  all_goals exact ⟨rfl, rfl, rfl, rfl, rfl, rfl⟩

theorem SameVotes.addCerts (cs : List Cert) (a : SlotState) : SameVotes a (cs.foldl SlotState.addCert a) := by
  induction cs generalizing a with
  | nil => exact ⟨rfl, rfl, rfl, rfl, rfl, rfl⟩
  | cons c cs ih => exact (SameVotes.addCert a c).trans (ih _)

theorem Justified.of_sameVotes {e : Epoch} {a b : SlotState} {c : Cert} (h : SameVotes a b) (j : Justified e a c) :
    Justified e b c := by
  unfold Justified at *
  unfold SlotState.notarVoters SlotState.nfVoters SlotState.skipVoters SlotState.sfVoters SlotState.finVoters at *
  rw [← h.slot, ← h.notar, ← h.nf, ← h.skip, ← h.sf, ← h.fin]
  exact j

/-- **Soundness of created certificates.** Every certificate created by an admitted vote in a reachable
    state is justified in the resulting state: its signers are exactly the validators whose matching
    votes are stored — including the vote that crossed the threshold —, each counted once, the two
    halves are disjoint, and the declared stake is their stake and meets the threshold. -/
theorem cert_sound (e : Epoch) (hpos : 0 < e.total) (st : SlotState) (hr : Reachable e st) (v : Vote) :
    ∀ c ∈ (slotStep e st (.vote v)).2.1, Justified e (slotStep e st (.vote v)).1 c := by
  have i := reachable_inv e hpos st hr
  intro c hc
  simp only [slotStep] at hc ⊢
  split at hc
  · simp at hc
  · rename_i hrf
    rw [if_neg hrf]
    have ha := adm_of_not_refused st v hrf
    have hce := addVote_core e st v
    dsimp only at hc ⊢
    rw [addVote_certs] at hc
    have j := newCerts_justified e (st.stored e v) v (stored_InvV e st v i.1 ha) c hc
    exact j.of_sameVotes ((SameVotes.of_coreEq hce.symm).trans (SameVotes.addCerts _ _))

theorem mem_ite_singleton {c x : Cert} {p : Prop} [Decidable p] (h : c ∈ (if p then [x] else [])) : c = x := by
  split at h
  · simpa using h
  · simp at h

/-- the crossing vote is among the signers of the certificate(s) it creates -/
theorem cert_includes_crossing_vote (e : Epoch) (st : SlotState) (v : Vote) (hv : v.signer < e.n) (ha : Adm st v) :
    ∀ c ∈ (st.stored e v).newCerts e v, v.signer ∈ c.sig1 ∨ v.signer ∈ c.sig2 := by
  have hnot : v.kind = .notar → (st.stored e v).vNotar.lookup v.signer = some v.hash := by
    intro hk
    obtain ⟨_, hi⟩ := ha
    unfold SlotState.shouldIgnore at hi
    simp only [hk] at hi
    have hn : st.vNotar.lookup v.signer = none := by
      cases h2 : st.vNotar.lookup v.signer with
      | none => rfl
      | some x => simp [h2] at hi
    show (SlotState.stored e st v).vNotar.lookup v.signer = some v.hash
    unfold SlotState.stored; simp only [hk]
    rw [lookup_after_store _ _ _ _ hn]; simp
  intro c hc
  unfold SlotState.newCerts at hc
  cases hk : v.kind <;> simp only [hk] at hc
  · left
    have hmem : v.signer ∈ (st.stored e v).notarVoters e.n v.hash := by
      simp [SlotState.notarVoters, hv, hnot hk]
    simp only [notarCertsOn, List.mem_append] at hc
    rcases hc with (hc | hc) | hc <;> (have := mem_ite_singleton hc; subst this; exact hmem)
  · right
    have hmem : v.signer ∈ (st.stored e v).nfVoters e.n v.hash := by
      simp [SlotState.nfVoters, hv, SlotState.stored, hk]
    have := mem_ite_singleton hc; subst this; exact hmem
  · left
    have hmem : v.signer ∈ (st.stored e v).skipVoters e.n := by
      simp [SlotState.skipVoters, hv, SlotState.stored, hk]
    have := mem_ite_singleton hc; subst this; exact hmem
  · right
    have hmem : v.signer ∈ (st.stored e v).sfVoters e.n := by
      simp [SlotState.sfVoters, hv, SlotState.stored, hk]
    have := mem_ite_singleton hc; subst this; exact hmem
  · left
    have hmem : v.signer ∈ (st.stored e v).finVoters e.n := by
      simp [SlotState.finVoters, hv, SlotState.stored, hk]
    have := mem_ite_singleton hc; subst this; exact hmem

/-! ### at most once per slot and type (per block for notar-fallback) -/

/-- the "type" of a certificate for the at-most-once statement -/
def certKey (c : Cert) : CertKind × Nat := (c.kind, if c.kind = .nf then c.hash else 0)

theorem certDup_key (st : SlotState) (c c' : Cert) (h : certKey c = certKey c') : certDup st c = certDup st c' := by
  unfold certKey at h
  have hk : c.kind = c'.kind := congrArg Prod.fst h
  have h2 := congrArg Prod.snd h
  unfold certDup
  rw [← hk]
  cases hkk : c.kind <;> simp only [hkk] at h2 ⊢
  · rw [← hk, hkk] at h2; simp at h2; rw [h2]

theorem certDup_addCert_mono (st : SlotState) (c x : Cert) (h : certDup st x = true) : certDup (st.addCert c) x = true := by
  unfold certDup at *
  cases hk : x.kind <;> simp only [hk] at h ⊢
  · rw [addCert_cNotar]; simp [h]
  · rw [addCert_isNf]; simp [h]
  · rw [addCert_cSkip]; simp [h]
  · rw [addCert_cFf]; simp [h]
  · rw [addCert_cFin]; simp [h]

theorem certDup_addCert_self (st : SlotState) (c : Cert) : certDup (st.addCert c) c = true := by
  unfold certDup
  cases hk : c.kind <;> simp only
  · rw [addCert_cNotar]; simp [hk]
  · rw [addCert_isNf]; simp [hk]
  · rw [addCert_cSkip]; simp [hk]
  · rw [addCert_cFf]; simp [hk]
  · rw [addCert_cFin]; simp [hk]

theorem certDup_addCerts_mono (cs : List Cert) (st : SlotState) (x : Cert) (h : certDup st x = true) :
    certDup (cs.foldl SlotState.addCert st) x = true := by
  induction cs generalizing st with
  | nil => exact h
  | cons c cs ih => exact ih _ (certDup_addCert_mono st c x h)

theorem certDup_addCerts_mem (cs : List Cert) (st : SlotState) (x : Cert) (h : x ∈ cs) :
    certDup (cs.foldl SlotState.addCert st) x = true := by
  induction cs generalizing st with
  | nil => simp at h
  | cons c cs ih =>
    rcases List.mem_cons.mp h with h | h
    · subst h; exact certDup_addCerts_mono cs _ x (certDup_addCert_self st x)
    · exact ih _ h

theorem certDup_coreEq {a b : SlotState} (h : CoreEq a b) (x : Cert) : certDup a x = certDup b x := by
  have h1 : a.cNotar = b.cNotar := (congrArg SlotState.cNotar h.eq : a.core.cNotar = b.core.cNotar)
  have h2 : a.cNf = b.cNf := (congrArg SlotState.cNf h.eq : a.core.cNf = b.core.cNf)
  have h3 : a.cSkip = b.cSkip := (congrArg SlotState.cSkip h.eq : a.core.cSkip = b.core.cSkip)
  have h4 : a.cFf = b.cFf := (congrArg SlotState.cFf h.eq : a.core.cFf = b.core.cFf)
  have h5 : a.cFin = b.cFin := (congrArg SlotState.cFin h.eq : a.core.cFin = b.core.cFin)
  unfold certDup SlotState.isNf
  rw [h1, h2, h3, h4, h5]

/-- a certificate of a held type is never created: every created certificate is of a type not held before -/
theorem newCerts_not_held (e : Epoch) (st : SlotState) (v : Vote) :
    ∀ c ∈ (st.stored e v).newCerts e v, certDup st c = false := by
  intro c hc
  unfold SlotState.newCerts at hc
  cases hk : v.kind <;> simp only [hk] at hc
  · simp only [notarCertsOn, List.mem_append] at hc
    rcases hc with (hc | hc) | hc
    · split at hc
      · rename_i hq
        simp only [List.mem_singleton] at hc; subst hc
        simp only [Bool.and_eq_true, stored_isNf] at hq
        simpa [certDup, mkNfCert] using hq.2
      · simp at hc
    · split at hc
      · rename_i hq
        simp only [List.mem_singleton] at hc; subst hc
        simp only [Bool.and_eq_true, stored_cNotar] at hq
        have := hq.2
        cases hx : st.cNotar <;> simp_all [certDup, notarCertOf]
      · simp at hc
    · split at hc
      · rename_i hq
        simp only [List.mem_singleton] at hc; subst hc
        simp only [Bool.and_eq_true, stored_cFf] at hq
        have := hq.2
        cases hx : st.cFf <;> simp_all [certDup, ffCertOf]
      · simp at hc
  · simp only [nfCertsOn] at hc
    split at hc
    · rename_i hq
      simp only [List.mem_singleton] at hc; subst hc
      simp only [Bool.and_eq_true, stored_isNf] at hq
      simpa [certDup, mkNfCert] using hq.2
    · simp at hc
  · simp only [skipCertsOn] at hc
    split at hc
    · rename_i hq
      simp only [List.mem_singleton] at hc; subst hc
      simp only [Bool.and_eq_true, stored_cSkip] at hq
      have := hq.2
      cases hx : st.cSkip <;> simp_all [certDup, skipCertOf]
    · simp at hc
  · simp only [skipCertsOn] at hc
    split at hc
    · rename_i hq
      simp only [List.mem_singleton] at hc; subst hc
      simp only [Bool.and_eq_true, stored_cSkip] at hq
      have := hq.2
      cases hx : st.cSkip <;> simp_all [certDup, skipCertOf]
    · simp at hc
  · simp only [finCertsOn] at hc
    split at hc
    · rename_i hq
      simp only [List.mem_singleton] at hc; subst hc
      simp only [Bool.and_eq_true, stored_cFin] at hq
      have := hq.2
      cases hx : st.cFin <;> simp_all [certDup, finCertOf]
    · simp at hc

/-- the certificates created in one step have pairwise different types -/
theorem newCerts_keys_nodup (e : Epoch) (s : SlotState) (v : Vote) : ((s.newCerts e v).map certKey).Nodup := by
  unfold SlotState.newCerts
  cases v.kind <;> dsimp only
  · unfold notarCertsOn
    split <;> split <;> split <;> simp [certKey, mkNfCert, notarCertOf, ffCertOf]
  · unfold nfCertsOn; split <;> simp
  · unfold skipCertsOn; split <;> simp
  · unfold skipCertsOn; split <;> simp
  · unfold finCertsOn; split <;> simp

/-- step form of **at most once**: what a step creates was not held before and is held afterwards;
    whatever is held stays held (any operation). -/
theorem created_fresh_then_held (e : Epoch) (st : SlotState) (op : SlotOp) :
    (∀ c ∈ (slotStep e st op).2.1, certDup st c = false ∧ certDup (slotStep e st op).1 c = true) ∧
    (∀ x, certDup st x = true → certDup (slotStep e st op).1 x = true) := by
  cases op with
  | vote v =>
    simp only [slotStep]
    split
    · exact ⟨by simp, fun x h => h⟩
    · have hce := addVote_core e st v
      dsimp only
      constructor
      · intro c hc
        refine ⟨?_, certDup_addCerts_mem _ _ c hc⟩
        rw [addVote_certs] at hc
        exact newCerts_not_held e st v c hc
      · intro x hx
        apply certDup_addCerts_mono
        rw [certDup_coreEq hce]
        have : certDup (st.stored e v) x = certDup st x := by
          unfold certDup
          rw [stored_cNotar, stored_cFf, stored_cSkip, stored_cFin, stored_isNf]
        rw [this]; exact hx
  | cert c =>
    simp only [slotStep]
    split
    · exact ⟨by simp, fun x h => h⟩
    · exact ⟨by simp, fun x h => certDup_addCert_mono st c x h⟩
  | parentKnown h =>
    simp only [slotStep, SlotState.notifyParentKnown]
    split
    · exact ⟨by simp, fun x h => h⟩
    · exact ⟨by simp, fun x hx => by
        have hc : CoreEq st { st with parents := st.parents ++ [(h, false)] } := ⟨rfl⟩
        rw [← certDup_coreEq hc]; exact hx⟩
  | parentCertified h =>
    simp only [slotStep]
    split
    · exact ⟨by simp, fun x h => h⟩
    · rename_i s evs hn
      have hc := notifyParentCertified_core e st h s evs hn
      exact ⟨by simp, fun x hx => by rw [← certDup_coreEq hc]; exact hx⟩

/-- **At most once.** Over an arbitrary history of a slot, no two created certificates have the same type
    (same block for notar-fallback), and none has a type that was already held at the start. -/
theorem cert_once (e : Epoch) (ops : List SlotOp) (st : SlotState) :
    ((slotRun e st ops).2.1.map certKey).Nodup ∧ ∀ c ∈ (slotRun e st ops).2.1, certDup st c = false := by
  induction ops generalizing st with
  | nil => simp [slotRun]
  | cons op ops ih =>
    obtain ⟨hn, hf⟩ := ih (slotStep e st op).1
    obtain ⟨h1, h2⟩ := created_fresh_then_held e st op
    simp only [slotRun]
    constructor
    · rw [List.map_append, List.nodup_append]
      refine ⟨?_, hn, ?_⟩
      · -- within the step
        cases op with
        | vote v =>
          simp only [slotStep]
          split
          · simp
          · dsimp only; rw [addVote_certs]; exact newCerts_keys_nodup e _ v
        | cert c => simp only [slotStep]; split <;> simp
        | parentKnown h => simp [slotStep]
        | parentCertified h => simp only [slotStep]; split <;> simp
      · intro a ha b hb hab
        obtain ⟨c, hc, rfl⟩ := List.mem_map.mp ha
        obtain ⟨c', hc', rfl⟩ := List.mem_map.mp hb
        have held := (h1 c hc).2
        have fresh := hf c' hc'
        rw [certDup_key _ c c' hab] at held
        rw [held] at fresh; cases fresh
    · intro c hc
      rcases List.mem_append.mp hc with hc | hc
      · exact (h1 c hc).1
      · have := hf c hc
        cases hd : certDup st c
        · rfl
        · rw [h2 c hd] at this; cases this

/-! ### non-vacuity -/

/-- 3 validators with stakes 3, 1, 1 (total 5, so 60 % = 3 exactly): validator 1 and 2 notarize block 7
    (2/5: nothing), then validator 0 does: the step creates notar-fallback, notarization and
    fast-finalization certificates, each signed by all three. -/
example :
    let e : Epoch := { stakes := [3, 1, 1], own := 0 }
    let r := slotRun e { slot := 4 } [.vote ⟨.notar, 4, 7, 1⟩, .vote ⟨.notar, 4, 7, 2⟩, .vote ⟨.notar, 4, 7, 0⟩]
    r.2.1.map (fun c => (c.kind, c.sig1, c.stake)) =
      [(.nf, [0, 1, 2], 5), (.notar, [0, 1, 2], 5), (.ff, [0, 1, 2], 5)] ∧ 0 < e.total := by decide

end AgModel.Pool
