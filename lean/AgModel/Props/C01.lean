import AgModel.Spec.Protocol
import Mathlib.Algebra.BigOperators.Fin
/-!
# C01 — Finalization agreement

For every finite validator set, every stake distribution, every Byzantine set holding less than 20 % of
the stake (arbitrary, equivocating votes), every block tree (any number of blocks per slot) and every
global history of signed votes in which the *correct* validators obey the voting rules R1–R5
(`Spec.Rules`; discharged for the executable Votor/Pool models by C05/C06/C07, see DESIGN.md):

* `notar_unique`      — at most one block per slot gets a notarization certificate;
* `final_excludes`    — a finalized slot has no skip certificate and no other block of that slot is
                        certified (notar-fallback or stronger);
* `slot_unique`       — no two different blocks are finalized in the same slot;
* `chain`             — every block certified in a slot at or after a finalized block descends from it;
* `agreement`         — any two finalized blocks lie on one chain (so the finalization logs of any two
                        correct nodes, each consisting of finalized blocks and their ancestors, are
                        totally ordered by the ancestor relation).

Crashes are the special case of correct validators that stop voting (the rules only restrict votes
that are cast). Network behaviour is irrelevant: the history is the set of votes ever signed.
-/
namespace AgModel.Spec

open Classical

variable {V Block : Type} [Fintype V] (stake : V → ℕ) (C : Chain Block) (H : History V Block) (byz : V → Prop)

/-- the hypotheses of the property: `< 20 %` Byzantine stake, correct validators follow the rules -/
structure Setting : Prop where
  byz_bound : 5 * w stake byz < total stake
  rules : ∀ v, ¬ byz v → Rules stake C H v

variable {stake C H byz}

/-! ### A1: two notarization certificates in one slot -/

theorem notar_unique (S : Setting stake C H byz) (b b' : Block) (hs : C.slot b = C.slot b')
    (h1 : NotarCert stake H b) (h2 : NotarCert stake H b') : b = b' := by
  unfold NotarCert at h1 h2
  rw [Q_iff] at h1 h2
  have hi := w_and_ge stake (fun v => H.notar v b) (fun v => H.notar v b')
  have hb := S.byz_bound
  unfold notarW at h1 h2
  have : w stake byz < w stake (fun v => H.notar v b ∧ H.notar v b') := by omega
  obtain ⟨v, ⟨hv1, hv2⟩, hc⟩ := exists_correct stake byz _ this
  exact (S.rules v hc).one_notar b b' hv1 hv2 hs

/-! ### weights around a finalized block -/

/-- Around a finalized block `b`: a set of validators whose *correct* members did not notarize `b` (needed
    on the fast path) resp. did not finalize-vote in `b`'s slot (needed on the slow path) is lighter than 60 %. -/
theorem light_of_avoiding (S : Setting stake C H byz) (b : Block) (hf : FinalizedAt stake C H b)
    (p : V → Prop)
    (hfast : FastFinalCert stake H b → ∀ v, p v → ¬ byz v → ¬ H.notar v b)
    (hslow : FinalCert stake H (C.slot b) → NotarCert stake H b → ∀ v, p v → ¬ byz v → ¬ H.fin v (C.slot b)) :
    5 * w stake p < 3 * total stake := by
  have hb := S.byz_bound
  rcases hf with hff | ⟨hfc, hnc⟩
  · have hff' := hff
    unfold FastFinalCert at hff'; rw [Strong_iff] at hff'
    have := w_le_of_correct_outside stake byz (fun v => H.notar v b) p (hfast hff)
    unfold notarW at hff'
    omega
  · have hfc' := hfc
    unfold FinalCert at hfc'; rw [Q_iff] at hfc'
    have := w_le_of_correct_outside stake byz (fun v => H.fin v (C.slot b)) p (hslow hfc hnc)
    omega

/-- a correct validator that finalize-voted in `b`'s slot, where `b` has a notarization certificate,
    notarized `b` -/
theorem fin_voter_notarized (S : Setting stake C H byz) (b : Block) (hn : NotarCert stake H b)
    (v : V) (hc : ¬ byz v) (hfin : H.fin v (C.slot b)) : H.notar v b := by
  obtain ⟨⟨b', hs', hv', hn'⟩, _⟩ := (S.rules v hc).fin_rule _ hfin
  have := notar_unique S b' b hs' hn' hn
  rw [← this]; exact hv'

/-- on the fast path no correct validator ever casts a skip-fallback vote in the slot or a
    notar-fallback vote for another block of the slot -/
theorem fast_no_fallback (S : Setting stake C H byz) (b : Block) (hff : FastFinalCert stake H b)
    (v : V) (hc : ¬ byz v) :
    ¬ H.sf v (C.slot b) ∧ ∀ x, C.slot x = C.slot b → x ≠ b → ¬ H.nf v x := by
  have hb := S.byz_bound
  have hff' := hff
  unfold FastFinalCert at hff'; rw [Strong_iff] at hff'; unfold notarW at hff'
  -- any set whose correct members did not notarize `b` weighs < 40 %
  have light : ∀ p : V → Prop, (∀ u, p u → ¬ byz u → ¬ H.notar u b) → 5 * w stake p < 2 * total stake := by
    intro p hp
    have := w_le_of_correct_outside stake byz (fun u => H.notar u b) p hp
    omega
  constructor
  · intro hsf
    have := (S.rules v hc).sf_rule _ hsf b rfl
    rw [Weak_iff] at this
    have hl := light (fun u => H.skip u (C.slot b) ∨ ∃ x, C.slot x = C.slot b ∧ x ≠ b ∧ H.notar u x) (by
      intro u hu hcu hnb
      rcases hu with hsk | ⟨x, hsx, hne, hnx⟩
      · exact (S.rules u hcu).notar_no_skip b hnb hsk
      · exact hne ((S.rules u hcu).one_notar x b hnx hnb hsx))
    omega
  · intro x hsx hne hnf
    obtain ⟨hst, _, _⟩ := (S.rules v hc).nf_rule x hnf
    have hl1 := light (fun u => H.notar u x) (by
      intro u hu hcu hnb
      exact hne ((S.rules u hcu).one_notar x b hu hnb hsx))
    have hl2 := light (fun u => H.notar u x ∨ H.skip u (C.slot x)) (by
      intro u hu hcu hnb
      rcases hu with hnx | hsk
      · exact hne ((S.rules u hcu).one_notar x b hnx hnb hsx)
      · rw [hsx] at hsk; exact (S.rules u hcu).notar_no_skip b hnb hsk)
    rcases hst with h | ⟨_, h⟩
    · rw [Weak_iff] at h; unfold notarW at h; omega
    · rw [Q_iff] at h; omega

/-! ### A2–A4: a finalized slot excludes everything else -/

theorem final_excludes (S : Setting stake C H byz) (b : Block) (hf : FinalizedAt stake C H b) :
    ¬ SkipCert stake H (C.slot b) ∧ ∀ x, C.slot x = C.slot b → x ≠ b → ¬ NFCert stake H x := by
  constructor
  · intro hsk
    unfold SkipCert at hsk; rw [Q_iff] at hsk
    have := light_of_avoiding S b hf (fun v => H.skip v (C.slot b) ∨ H.sf v (C.slot b))
      (by
        intro hff v hv hc hnb
        rcases hv with h | h
        · exact (S.rules v hc).notar_no_skip b hnb h
        · exact (fast_no_fallback S b hff v hc).1 h)
      (by
        intro _ _ v hv hc hfin
        obtain ⟨_, h1, h2, _⟩ := (S.rules v hc).fin_rule _ hfin
        rcases hv with h | h
        · exact h1 h
        · exact h2 h)
    omega
  · intro x hsx hne hnf
    unfold NFCert at hnf; rw [Q_iff] at hnf
    have := light_of_avoiding S b hf (fun v => H.notar v x ∨ H.nf v x)
      (by
        intro hff v hv hc hnb
        rcases hv with h | h
        · exact hne ((S.rules v hc).one_notar x b h hnb hsx)
        · exact (fast_no_fallback S b hff v hc).2 x hsx hne h)
      (by
        intro _ hnc v hv hc hfin
        have hnb := fin_voter_notarized S b hnc v hc hfin
        obtain ⟨_, _, _, h3⟩ := (S.rules v hc).fin_rule _ hfin
        rcases hv with h | h
        · exact hne ((S.rules v hc).one_notar x b h hnb hsx)
        · exact h3 x hsx h)
    omega

/-- **No two different blocks are finalized in one slot.** -/
theorem slot_unique (S : Setting stake C H byz) (b b' : Block) (hs : C.slot b' = C.slot b)
    (hf : FinalizedAt stake C H b) (hf' : FinalizedAt stake C H b') : b' = b := by
  by_contra hne
  have hnf : NFCert stake H b' := by
    unfold NFCert; rw [Q_iff]
    have hm : w stake (fun v => H.notar v b') ≤ w stake (fun v => H.notar v b' ∨ H.nf v b') :=
      w_mono stake (fun v h => Or.inl h)
    rcases hf' with h | ⟨_, h⟩
    · unfold FastFinalCert at h; rw [Strong_iff] at h; unfold notarW at h; omega
    · unfold NotarCert at h; rw [Q_iff] at h; unfold notarW at h; omega
  exact (final_excludes S b hf).2 b' hs hne hnf

/-! ### ancestors -/

theorem anc_slot_le (b x : Block) (h : Anc C b x) : C.slot b ≤ C.slot x := by
  induction h with
  | refl => exact Nat.le_refl _
  | step x hx _ ih => exact Nat.le_trans ih (Nat.le_of_lt (C.parent_lt x hx))

theorem anc_same_slot (b x : Block) (h : Anc C b x) (hs : C.slot x = C.slot b) : x = b := by
  cases h with
  | refl => rfl
  | step _ hx hp =>
    have := anc_slot_le (C := C) b (C.parent x) hp
    have := C.parent_lt x hx
    omega

theorem anc_genesis (x : Block) : Anc C C.genesis x := by
  have : ∀ n, ∀ x, C.slot x = n → Anc C C.genesis x := by
    intro n
    induction n using Nat.strong_induction_on with
    | _ n ih =>
      intro x hx
      by_cases hg : x = C.genesis
      · rw [hg]; exact Anc.refl
      · exact Anc.step x hg (ih _ (by rw [← hx]; exact C.parent_lt x hg) _ rfl)
  exact this _ x rfl

theorem anc_trans (a b x : Block) (h1 : Anc C a b) (h2 : Anc C b x) : Anc C a x := by
  induction h2 with
  | refl => exact h1
  | step x hx _ ih => exact Anc.step x hx ih

/-- a finalized block is certified (notar-fallback or stronger) -/
theorem finalized_nf (b : Block) (hf : FinalizedAt stake C H b) : NFCert stake H b := by
  unfold NFCert; rw [Q_iff]
  have hm : w stake (fun v => H.notar v b) ≤ w stake (fun v => H.notar v b ∨ H.nf v b) :=
    w_mono stake (fun v h => Or.inl h)
  rcases hf with h | ⟨_, h⟩
  · unfold FastFinalCert at h; rw [Strong_iff] at h; unfold notarW at h; omega
  · unfold NotarCert at h; rw [Q_iff] at h; unfold notarW at h; omega

/-! ### A5: the chain invariant -/

/-- correct stake that notarized a block *off* `b`'s subtree in slot `t` -/
noncomputable def offW (stake : V → ℕ) (C : Chain Block) (H : History V Block) (byz : V → Prop) (b : Block) (t : ℕ) : ℕ :=
  w stake (fun v => ¬ byz v ∧ ∃ x, C.slot x = t ∧ ¬ Anc C b x ∧ H.notar v x)

/-- the invariant at slot `t ≥ slot b` -/
structure J (stake : V → ℕ) (C : Chain Block) (H : History V Block) (byz : V → Prop) (b : Block) (t : ℕ) : Prop where
  nocert : ∀ x, C.slot b ≤ C.slot x → C.slot x ≤ t → ¬ Anc C b x → ¬ NFCert stake H x
  offBound : 5 * offW stake C H byz b t ≤ 2 * total stake

/-- in the finalized slot itself: the correct stake on other blocks is at most 40 % -/
theorem off_bound_base (S : Setting stake C H byz) (b : Block) (hf : FinalizedAt stake C H b) :
    5 * offW stake C H byz b (C.slot b) ≤ 2 * total stake := by
  have hb := S.byz_bound
  -- members are correct and notarized another block of the slot
  have key : ∀ v, (¬ byz v ∧ ∃ x, C.slot x = C.slot b ∧ ¬ Anc C b x ∧ H.notar v x) → ¬ H.notar v b := by
    intro v ⟨hc, x, hsx, hoff, hnx⟩ hnb
    have := (S.rules v hc).one_notar x b hnx hnb hsx
    rw [this] at hoff; exact hoff Anc.refl
  unfold offW
  rcases hf with hff | ⟨hfc, hnc⟩
  · unfold FastFinalCert at hff; rw [Strong_iff] at hff; unfold notarW at hff
    -- disjoint from the notar(b) voters
    have h1 := w_or_add_and stake (fun v => ¬ byz v ∧ ∃ x, C.slot x = C.slot b ∧ ¬ Anc C b x ∧ H.notar v x) (fun v => H.notar v b)
    have h2 : w stake (fun v => (¬ byz v ∧ ∃ x, C.slot x = C.slot b ∧ ¬ Anc C b x ∧ H.notar v x) ∧ H.notar v b) = 0 := by
      have : w stake (fun v => (¬ byz v ∧ ∃ x, C.slot x = C.slot b ∧ ¬ Anc C b x ∧ H.notar v x) ∧ H.notar v b)
          ≤ w stake (fun _ => False) := w_mono stake (fun v hv => key v hv.1 hv.2)
      have h0 : w stake (fun _ : V => False) = 0 := by unfold w; simp
      omega
    have h3 := w_le_total stake (fun v => (¬ byz v ∧ ∃ x, C.slot x = C.slot b ∧ ¬ Anc C b x ∧ H.notar v x) ∨ H.notar v b)
    omega
  · unfold FinalCert at hfc; rw [Q_iff] at hfc
    -- correct final voters notarized `b`; the off-voters are correct and not among them
    have hF : w stake (fun v => H.fin v (C.slot b)) ≤ w stake byz + w stake (fun v => H.fin v (C.slot b) ∧ ¬ byz v) := by
      have := w_or_le stake (fun v => H.fin v (C.slot b) ∧ byz v) (fun v => H.fin v (C.slot b) ∧ ¬ byz v)
      have h1 : w stake (fun v => H.fin v (C.slot b)) ≤
          w stake (fun v => (H.fin v (C.slot b) ∧ byz v) ∨ (H.fin v (C.slot b) ∧ ¬ byz v)) := by
        apply w_mono; intro v hv
        by_cases hbv : byz v
        · exact Or.inl ⟨hv, hbv⟩
        · exact Or.inr ⟨hv, hbv⟩
      have h2 : w stake (fun v => H.fin v (C.slot b) ∧ byz v) ≤ w stake byz := w_mono stake (fun v hv => hv.2)
      omega
    -- three disjoint sets: byz, correct final voters, off-voters
    have hdis := w_or_add_and stake (fun v => ¬ byz v ∧ ∃ x, C.slot x = C.slot b ∧ ¬ Anc C b x ∧ H.notar v x)
      (fun v => byz v ∨ (H.fin v (C.slot b) ∧ ¬ byz v))
    have hz : w stake (fun v => (¬ byz v ∧ ∃ x, C.slot x = C.slot b ∧ ¬ Anc C b x ∧ H.notar v x) ∧
        (byz v ∨ (H.fin v (C.slot b) ∧ ¬ byz v))) = 0 := by
      have : w stake (fun v => (¬ byz v ∧ ∃ x, C.slot x = C.slot b ∧ ¬ Anc C b x ∧ H.notar v x) ∧
          (byz v ∨ (H.fin v (C.slot b) ∧ ¬ byz v))) ≤ w stake (fun _ => False) := by
        apply w_mono; intro v ⟨hv, hor⟩
        rcases hor with hbz | ⟨hfin, hc⟩
        · exact hv.1 hbz
        · exact key v hv (fin_voter_notarized S b hnc v hc hfin)
      have h0 : w stake (fun _ : V => False) = 0 := by unfold w; simp
      omega
    have hsum := w_or_add_and stake byz (fun v => H.fin v (C.slot b) ∧ ¬ byz v)
    have hz2 : w stake (fun v => byz v ∧ (H.fin v (C.slot b) ∧ ¬ byz v)) = 0 := by
      have : w stake (fun v => byz v ∧ (H.fin v (C.slot b) ∧ ¬ byz v)) ≤ w stake (fun _ => False) :=
        w_mono stake (fun v hv => hv.2.2 hv.1)
      have h0 : w stake (fun _ : V => False) = 0 := by unfold w; simp
      omega
    have htot := w_le_total stake (fun v => (¬ byz v ∧ ∃ x, C.slot x = C.slot b ∧ ¬ Anc C b x ∧ H.notar v x) ∨
      (byz v ∨ (H.fin v (C.slot b) ∧ ¬ byz v)))
    omega

theorem w_false_zero : w stake (fun _ : V => False) = 0 := by unfold w; simp

/-- if no correct validator notarized `x`, no correct validator casts a notar-fallback vote for it -/
theorem no_nf_without_correct_notar (S : Setting stake C H byz) (x : Block)
    (hno : ∀ v, ¬ byz v → ¬ H.notar v x) (v : V) (hc : ¬ byz v) : ¬ H.nf v x := by
  intro hnf
  have hb := S.byz_bound
  obtain ⟨hst, _, _⟩ := (S.rules v hc).nf_rule x hnf
  have hle : notarW stake H x ≤ w stake byz := by
    unfold notarW; apply w_mono; intro u hu
    by_contra hcu; exact hno u hcu hu
  rcases hst with h | ⟨h, _⟩
  · rw [Weak_iff] at h; omega
  · rw [Weakest_iff] at h; omega

/-- weight of the voters of a block none of whose correct voters exist: only Byzantine -/
theorem nfcert_needs_correct (S : Setting stake C H byz) (x : Block)
    (hno : ∀ v, ¬ byz v → ¬ H.notar v x) : ¬ NFCert stake H x := by
  intro hcert
  have hb := S.byz_bound
  unfold NFCert at hcert; rw [Q_iff] at hcert
  have : w stake (fun v => H.notar v x ∨ H.nf v x) ≤ w stake byz := by
    apply w_mono; intro v hv
    by_contra hc
    rcases hv with h | h
    · exact hno v hc h
    · exact no_nf_without_correct_notar S x hno v hc h
  omega

/-- the induction step of the chain invariant -/
theorem J_step (S : Setting stake C H byz) (b : Block) (hf : FinalizedAt stake C H b) (hbg : b ≠ C.genesis)
    (t : ℕ) (ht : C.slot b ≤ t) (ih : J stake C H byz b t) : J stake C H byz b (t + 1) := by
  have hb := S.byz_bound
  have hs1 : 1 ≤ C.slot b := by
    by_contra h
    have : C.slot b = 0 := by omega
    exact hbg (C.zero_is_genesis b this)
  by_cases hw : windowStart (t + 1)
  · -- first slot of a window: a correct validator only notarizes descendants of `b`
    have key : ∀ v, ¬ byz v → ∀ x, C.slot x = t + 1 → H.notar v x → Anc C b x := by
      intro v hc x hsx hnx
      have hxg : x ≠ C.genesis := by intro e; rw [e, C.slot_genesis] at hsx; omega
      obtain ⟨hstart, _⟩ := (S.rules v hc).notar_rule x hnx hxg
      obtain ⟨hcert, hskips⟩ := hstart (by rw [hsx]; exact hw)
      have hplt := C.parent_lt x hxg
      -- the parent cannot be older than `b`'s slot: that slot has no skip certificate
      have hge : C.slot b ≤ C.slot (C.parent x) := by
        by_contra hlt
        exact (final_excludes S b hf).1 (hskips (C.slot b) (by omega) (by omega))
      rcases hcert with hg | hnf
      · rw [hg, C.slot_genesis] at hge; omega
      · by_contra hoff
        have hpoff : ¬ Anc C b (C.parent x) := fun ha => hoff (Anc.step x hxg ha)
        exact ih.nocert (C.parent x) hge (by omega) hpoff hnf
    constructor
    · intro x hx1 hx2 hoff
      by_cases hxt : C.slot x ≤ t
      · exact ih.nocert x hx1 hxt hoff
      · have hsx : C.slot x = t + 1 := by omega
        exact nfcert_needs_correct S x (fun v hc hnx => hoff (key v hc x hsx hnx))
    · have : offW stake C H byz b (t + 1) ≤ w stake (fun _ => False) := by
        unfold offW; apply w_mono
        intro v ⟨hc, x, hsx, hoff, hnx⟩
        exact hoff (key v hc x hsx hnx)
      rw [w_false_zero] at this; omega
  · -- later slot of a window: correct voters of an off block also notarized its (off) parent in slot `t`
    have key : ∀ v, ¬ byz v → ∀ x, C.slot x = t + 1 → ¬ Anc C b x → H.notar v x →
        x ≠ C.genesis ∧ C.slot (C.parent x) = t ∧ ¬ Anc C b (C.parent x) ∧ H.notar v (C.parent x) := by
      intro v hc x hsx hoff hnx
      have hxg : x ≠ C.genesis := by intro e; rw [e, C.slot_genesis] at hsx; omega
      obtain ⟨_, hlater⟩ := (S.rules v hc).notar_rule x hnx hxg
      obtain ⟨hnp, hsp⟩ := hlater (by rw [hsx]; exact hw)
      exact ⟨hxg, by omega, fun ha => hoff (Anc.step x hxg ha), hnp⟩
    have hsub : offW stake C H byz b (t + 1) ≤ offW stake C H byz b t := by
      unfold offW; apply w_mono
      intro v ⟨hc, x, hsx, hoff, hnx⟩
      obtain ⟨_, hsp, hpoff, hnp⟩ := key v hc x hsx hoff hnx
      exact ⟨hc, C.parent x, hsp, hpoff, hnp⟩
    constructor
    · intro x hx1 hx2 hoff
      by_cases hxt : C.slot x ≤ t
      · exact ih.nocert x hx1 hxt hoff
      · have hsx : C.slot x = t + 1 := by omega
        by_cases hex : ∃ v, ¬ byz v ∧ H.notar v x
        · obtain ⟨v0, hc0, hn0⟩ := hex
          obtain ⟨hxg, hsp, hpoff, _⟩ := key v0 hc0 x hsx hoff hn0
          -- the parent is an off block in slot `t ≥ slot b`: it is not certified, and not genesis
          have hpn : ¬ NFCert stake H (C.parent x) := ih.nocert (C.parent x) (by omega) (by omega) hpoff
          have hpg : C.parent x ≠ C.genesis := by
            intro hg; rw [hg, C.slot_genesis] at hsp; omega
          have nonf : ∀ v, ¬ byz v → ¬ H.nf v x := by
            intro v hc hnf
            obtain ⟨_, hcert, _⟩ := (S.rules v hc).nf_rule x hnf
            rcases hcert with h | h
            · exact hpg h
            · exact hpn h
          intro hcert
          unfold NFCert at hcert; rw [Q_iff] at hcert
          have hle : w stake (fun v => H.notar v x ∨ H.nf v x) ≤ offW stake C H byz b t + w stake byz := by
            have h1 : w stake (fun v => H.notar v x ∨ H.nf v x) ≤
                w stake (fun v => (¬ byz v ∧ ∃ y, C.slot y = t ∧ ¬ Anc C b y ∧ H.notar v y) ∨ byz v) := by
              apply w_mono; intro v hv
              by_cases hc : byz v
              · exact Or.inr hc
              · left
                rcases hv with h | h
                · obtain ⟨_, hsp', hpoff', hnp'⟩ := key v hc x hsx hoff h
                  exact ⟨hc, C.parent x, hsp', hpoff', hnp'⟩
                · exact absurd h (nonf v hc)
            have h2 := w_or_le stake (fun v => ¬ byz v ∧ ∃ y, C.slot y = t ∧ ¬ Anc C b y ∧ H.notar v y) byz
            unfold offW; omega
          have := ih.offBound
          omega
        · exact nfcert_needs_correct S x (fun v hc hnx => hex ⟨v, hc, hnx⟩)
    · have := ih.offBound; omega

/-- the chain invariant holds at every slot from the finalized one on -/
theorem J_all (S : Setting stake C H byz) (b : Block) (hf : FinalizedAt stake C H b) (hbg : b ≠ C.genesis)
    (n : ℕ) : J stake C H byz b (C.slot b + n) := by
  induction n with
  | zero =>
    refine ⟨?_, off_bound_base S b hf⟩
    intro x hx1 hx2 hoff
    have hsx : C.slot x = C.slot b := by omega
    have hne : x ≠ b := by intro e; rw [e] at hoff; exact hoff Anc.refl
    exact (final_excludes S b hf).2 x hsx hne
  | succ n ih => exact J_step S b hf hbg (C.slot b + n) (by omega) ih

/-- **Chain.** Every block that is certified (notar-fallback or stronger — in particular every notarized,
    fast-finalized or finalized block) in a slot at or after a finalized block `b` descends from `b`. -/
theorem chain (S : Setting stake C H byz) (b x : Block) (hf : FinalizedAt stake C H b)
    (hs : C.slot b ≤ C.slot x) (hx : NFCert stake H x) : Anc C b x := by
  by_cases hbg : b = C.genesis
  · rw [hbg]; exact anc_genesis x
  · by_contra hoff
    have hJ := J_all S b hf hbg (C.slot x - C.slot b)
    exact hJ.nocert x hs (by omega) hoff hx

/-- **Agreement.** Any two finalized blocks lie on one chain: the one in the earlier (or same) slot is an
    ancestor of (or equal to) the other. Hence the finalization logs of any two correct nodes — finalized
    blocks and their ancestors — never conflict, whatever the network and the Byzantine validators do. -/
theorem agreement (S : Setting stake C H byz) (b b' : Block)
    (hf : FinalizedAt stake C H b) (hf' : FinalizedAt stake C H b') : Anc C b b' ∨ Anc C b' b := by
  by_cases h : C.slot b ≤ C.slot b'
  · exact Or.inl (chain S b b' hf h (finalized_nf b' hf'))
  · exact Or.inr (chain S b' b hf' (by omega) (finalized_nf b hf))

/-- directly or indirectly finalized: an ancestor of a finalized block -/
def InLog (stake : V → ℕ) (C : Chain Block) (H : History V Block) (x : Block) : Prop :=
  ∃ b, FinalizedAt stake C H b ∧ Anc C x b

/-- two ancestors of one block are comparable -/
theorem anc_comparable (a a' x : Block) (h1 : Anc C a x) (h2 : Anc C a' x) : Anc C a a' ∨ Anc C a' a := by
  revert h2
  induction h1 with
  | refl => intro h2; exact Or.inr h2
  | step y hy hp ih =>
    intro h2
    cases h2 with
    | refl => exact Or.inl (Anc.step _ hy hp)
    | step _ _ hp2 => exact ih hp2

/-- **All blocks finalized directly or through a finalized descendant lie on one chain**; two of them in the
    same slot are equal. -/
theorem logs_one_chain (S : Setting stake C H byz) (x y : Block) (hx : InLog stake C H x) (hy : InLog stake C H y) :
    (Anc C x y ∨ Anc C y x) ∧ (C.slot x = C.slot y → x = y) := by
  obtain ⟨b, hfb, hxb⟩ := hx
  obtain ⟨b', hfb', hyb'⟩ := hy
  have hcmp : Anc C x y ∨ Anc C y x := by
    rcases agreement S b b' hfb hfb' with h | h
    · exact anc_comparable x y b' (anc_trans x b b' hxb h) hyb'
    · exact anc_comparable x y b hxb (anc_trans y b' b hyb' h)
  refine ⟨hcmp, ?_⟩
  intro hs
  rcases hcmp with h | h
  · exact (anc_same_slot x y h hs.symm).symm
  · exact anc_same_slot y x h hs

/-- **No slot is both finalized and skip-certified** — also not indirectly: a slot strictly between a block of
    the log and its parent carries no certified block, and the finalized slot itself no skip certificate. -/
theorem finalized_not_skipped (S : Setting stake C H byz) (b : Block) (hf : FinalizedAt stake C H b) :
    ¬ SkipCert stake H (C.slot b) := (final_excludes S b hf).1

end AgModel.Spec

/-! ### non-vacuity: a concrete setting satisfying all hypotheses, with a finalized block -/
namespace AgModel.Spec.Example
open AgModel.Spec Classical

/-- 6 validators with stake 1; validator 5 is Byzantine (1/6 < 20 %) and silent -/
def stake : Fin 6 → ℕ := fun _ => 1
def byz : Fin 6 → Prop := fun v => v = 5

/-- blocks are natural numbers: block `b` is in slot `b`, its parent is `b - 1`, genesis is `0` -/
def C : Chain ℕ where
  slot := id
  parent := fun b => b - 1
  genesis := 0
  slot_genesis := rfl
  zero_is_genesis := fun _ h => h
  parent_lt := fun b hb => by simp only [id]; omega

/-- the five correct validators notarize genesis (by convention) and block 1, and finalize-vote slot 1 -/
def H : History (Fin 6) ℕ where
  notar := fun v b => v ≠ 5 ∧ b ≤ 1
  nf := fun _ _ => False
  skip := fun _ _ => False
  sf := fun _ _ => False
  fin := fun v s => v ≠ 5 ∧ s = 1

theorem total_eq : total stake = 6 := by
  unfold total stake; simp

theorem w_byz : w stake byz = 1 := by
  have h : (Finset.univ.filter (fun v : Fin 6 => v = 5)).card = 1 := by decide
  unfold w stake byz
  simp
  convert h

theorem w_notar1 : w stake (fun v => H.notar v 1) = 5 := by
  have h : (Finset.univ.filter (fun v : Fin 6 => ¬ v = 5)).card = 5 := by decide
  unfold w stake H
  simp
  convert h

theorem setting : Setting stake C H byz := by
  refine ⟨by rw [w_byz, total_eq]; decide, ?_⟩
  intro v hv
  refine ⟨?_, ?_, ?_, ?_, ?_, ?_⟩
  · intro b b' _ _ hs; exact hs
  · intro b _ h; exact h
  · intro s hs
    obtain ⟨hv5, rfl⟩ := hs
    refine ⟨⟨1, rfl, ⟨hv5, Nat.le_refl 1⟩, ?_⟩, fun h => h, fun h => h, fun _ _ h => h⟩
    unfold NotarCert notarW; rw [Q_iff, w_notar1, total_eq]; decide
  · intro x h; exact h.elim
  · intro s h; exact h.elim
  · intro x hx hxg
    obtain ⟨hv5, hle⟩ := hx
    have hx1 : x = 1 := by
      have : x ≠ 0 := hxg
      omega
    subst hx1
    refine ⟨fun hw => ?_, fun _ => ⟨⟨hv5, by decide⟩, rfl⟩⟩
    unfold windowStart Gen.SLOTS_PER_WINDOW at hw; simp [C] at hw

/-- block 1 is finalized (fast path: 5/6 ≥ 80 %), so the theorems above apply non-vacuously -/
example : FinalizedAt stake C H 1 := by
  left
  unfold FastFinalCert notarW; rw [Strong_iff, w_notar1, total_eq]; decide

end AgModel.Spec.Example
