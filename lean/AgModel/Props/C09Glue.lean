import AgModel.Model.NodeGlue
/-!
# C09 at the node: votes / certificates through `Alpenglow::handle_all2all_message`

Theorems about `AgModel.NodeGlue.handleA2A` / `a2aNode` (Model/NodeGlue.lean: consensus.rs:345-382, then
pool.rs `add_valid_cert` → `PoolEvent::CertCreated` → votor.rs `handle_cert_created` → `All2All::broadcast`),
tied to the real node by the `a2a` family of `harness/src/bin/ng.rs` + `drv_ng`.
For ALL messages: nothing reaches the pool, is created or broadcast unless `Validated{Vote,Cert}::try_new` accepted the
message; effects come in the order validate → pool call → CertCreated events → re-broadcasts; a refused message
(invalid, or valid but answered `Err(_)` by the pool) has no effect beyond the (refused) pool call.
-/
namespace AgModel.NodeGlue

/-- an effect that changes / leaves the node: pool call, pool event, broadcast -/
def NodeEff.isAct : NodeEff → Bool
  | .glue .addVote | .glue .addCert | .certCreated _ | .bcast _ => true
  | _ => false

def NodeEff.isPoolCall : NodeEff → Bool
  | .glue .addVote | .glue .addCert => true
  | _ => false

def NodeEff.isBcast : NodeEff → Bool
  | .bcast _ => true
  | _ => false

/-- the first effect is always the validation, with the verdict of `try_new` -/
theorem a2a_validate_first (k : A2AKind) (valid : Bool) (res : PoolRes) (cr : List CertRef) (hf : Nat) :
    (a2aNode k valid res cr hf).1.head? = some (.glue (.validate k valid)) := by
  unfold a2aNode handleA2A
  cases k <;> cases valid <;> cases res <;> simp

/-- **a message that does not validate has no effect at all**: the effect list is the failed validation alone and
    the Votor's state is untouched - for every pool answer and every `created` the environment might claim -/
theorem a2a_invalid_no_effect (k : A2AKind) (res : PoolRes) (cr : List CertRef) (hf : Nat) :
    a2aNode k false res cr hf = ([.glue (.validate k false)], hf) := by
  unfold a2aNode handleA2A
  simp

/-- **pool effects only after successful validation**: if any pool call, pool event or broadcast occurs, the message
    validated (and validation is the head of the list by `a2a_validate_first`) -/
theorem a2a_act_only_if_valid (k : A2AKind) (valid : Bool) (res : PoolRes) (cr : List CertRef) (hf : Nat)
    (e : NodeEff) (he : e ∈ (a2aNode k valid res cr hf).1) (ha : e.isAct = true) : valid = true := by
  cases valid with
  | true => rfl
  | false =>
    rw [a2a_invalid_no_effect] at he
    simp at he
    subst he
    simp [NodeEff.isAct] at ha

/-- a valid message is offered to the pool exactly once (`add_vote` for votes, `add_cert` for certificates), an invalid one never -/
theorem a2a_pool_call_count (k : A2AKind) (valid : Bool) (res : PoolRes) (cr : List CertRef) (hf : Nat) :
    (a2aNode k valid res cr hf).1.countP NodeEff.isPoolCall = if valid then 1 else 0 := by
  have hv : ∀ h (l : List CertRef), (votorCerts h l).1.countP NodeEff.isPoolCall = 0 := by
    intro h l
    induction l generalizing h with
    | nil => simp [votorCerts]
    | cons c cs ih =>
      simp only [votorCerts]
      split <;> simp [NodeEff.isPoolCall, ih]
  have hc : ∀ (l : List CertRef), (l.map NodeEff.certCreated).countP NodeEff.isPoolCall = 0 := by
    intro l
    induction l with
    | nil => simp
    | cons c cs ih => simp [NodeEff.isPoolCall, ih]
  unfold a2aNode handleA2A
  cases k <;> cases valid <;> cases res <;>
    simp [List.countP_append, List.countP_cons, NodeEff.isPoolCall, hv, hc]

/-- **a message the pool refuses (`Err(_)`: duplicate, out-of-range slot, slashable) creates and broadcasts nothing** -/
theorem a2a_refused_no_effect (k : A2AKind) (valid : Bool) (res : PoolRes) (cr : List CertRef) (hf : Nat)
    (h : res ≠ .ok) :
    (a2aNode k valid res cr hf).2 = hf ∧
      ∀ e ∈ (a2aNode k valid res cr hf).1, ∃ g, e = .glue g := by
  unfold a2aNode
  have : (valid && decide (res = .ok)) = false := by cases valid <;> simp [h]
  simp only [this]
  refine ⟨rfl, ?_⟩
  intro e he
  simp only [Bool.false_eq_true, if_false, List.mem_map] at he
  obtain ⟨g, _, rfl⟩ := he
  exact ⟨g, rfl⟩

/-- **order of effects** of an accepted message: validation, the one pool call, one `CertCreated` per certificate the
    pool newly stored (in the pool's order), then the Votor's reaction to each of them in the same order -/
theorem a2a_accepted_shape (k : A2AKind) (cr : List CertRef) (hf : Nat) :
    (a2aNode k true .ok cr hf).1 =
      .glue (.validate k true) :: .glue (match k with | .vote => .addVote | .cert => .addCert) ::
        (cr.map NodeEff.certCreated ++ (votorCerts hf cr).1) := by
  unfold a2aNode handleA2A
  cases k <;> simp

/-- the Votor reacts to every `CertCreated` exactly once, in order: re-broadcast or (old slot) drop -/
def NodeEff.cert? : NodeEff → Option CertRef
  | .bcast c | .ignoreOld c | .certCreated c => some c
  | .glue _ => none

theorem votor_reacts_to_each (hf : Nat) (cs : List CertRef) :
    (votorCerts hf cs).1.filterMap NodeEff.cert? = cs ∧
      ∀ e ∈ (votorCerts hf cs).1, (∃ c, e = .bcast c) ∨ (∃ c, e = .ignoreOld c) := by
  induction cs generalizing hf with
  | nil => simp [votorCerts]
  | cons c cs ih =>
    simp only [votorCerts]
    split
    · refine ⟨by simp [NodeEff.cert?, (ih hf).1], ?_⟩
      intro e he
      rcases List.mem_cons.1 he with rfl | he
      · exact .inr ⟨c, rfl⟩
      · exact (ih hf).2 e he
    · refine ⟨by simp [NodeEff.cert?, (ih _).1], ?_⟩
      intro e he
      rcases List.mem_cons.1 he with rfl | he
      · exact .inl ⟨c, rfl⟩
      · exact (ih _).2 e he

/-- only certificates the pool newly stored are ever broadcast -/
theorem bcast_only_created (hf : Nat) (cs : List CertRef) (c : CertRef)
    (h : NodeEff.bcast c ∈ (votorCerts hf cs).1) : c ∈ cs := by
  induction cs generalizing hf with
  | nil => simp [votorCerts] at h
  | cons d ds ih =>
    simp only [votorCerts] at h
    split at h
    · rcases List.mem_cons.1 h with h | h
      · cases h
      · exact List.mem_cons_of_mem _ (ih hf h)
    · rcases List.mem_cons.1 h with h | h
      · cases h; exact List.mem_cons_self
      · exact List.mem_cons_of_mem _ (ih _ h)

/-- `highest_final_cert_slot` never decreases -/
theorem votor_hf_mono (hf : Nat) (cs : List CertRef) : hf ≤ (votorCerts hf cs).2 := by
  induction cs generalizing hf with
  | nil => simp [votorCerts]
  | cons c cs ih =>
    simp only [votorCerts]
    split
    · exact ih hf
    · refine Nat.le_trans ?_ (ih _)
      split
      · exact Nat.le_max_left _ _
      · exact Nat.le_refl _

/-- **an accepted-new certificate is re-broadcast exactly as documented**: a certificate message that validates and is
    new to the pool (`Ok(())`, the pool stores exactly it) whose slot is not below the window of the highest final
    certificate is broadcast once, after `add_cert` and after its `CertCreated` event; below that window it is dropped. -/
theorem a2a_new_cert_rebroadcast (c : CertRef) (hf : Nat) :
    (a2aNode .cert true .ok [c] hf).1 =
      [.glue (.validate .cert true), .glue .addCert, .certCreated c,
        if c.slot < votorFirstUnpruned hf then .ignoreOld c else .bcast c] := by
  unfold a2aNode handleA2A
  by_cases h : c.slot < votorFirstUnpruned hf <;> simp [votorCerts, h]

/-- a vote creates no broadcast unless it completed a certificate -/
theorem a2a_vote_no_cert_no_bcast (valid : Bool) (res : PoolRes) (hf : Nat) :
    (a2aNode .vote valid res [] hf).1.countP NodeEff.isBcast = 0 ∧ (a2aNode .vote valid res [] hf).2 = hf := by
  unfold a2aNode handleA2A
  cases valid <;> cases res <;> simp [votorCerts, NodeEff.isBcast]

/-! ## non-vacuity -/

example : a2aNode .cert true .ok [⟨.final, 5⟩] 0 =
    ([.glue (.validate .cert true), .glue .addCert, .certCreated ⟨.final, 5⟩, .bcast ⟨.final, 5⟩], 5) := by decide
example : (a2aNode .cert true .ok [⟨.notar, 2⟩] 5).1 =
    [.glue (.validate .cert true), .glue .addCert, .certCreated ⟨.notar, 2⟩, .ignoreOld ⟨.notar, 2⟩] := by decide
example : (a2aNode .vote true .ok [⟨.notar, 3⟩, ⟨.fastFinal, 3⟩] 0) =
    ([.glue (.validate .vote true), .glue .addVote, .certCreated ⟨.notar, 3⟩, .certCreated ⟨.fastFinal, 3⟩,
      .bcast ⟨.notar, 3⟩, .bcast ⟨.fastFinal, 3⟩], 3) := by decide
example : (a2aNode .vote true .slashable [⟨.notar, 3⟩] 0).1 =
    [.glue (.validate .vote true), .glue .addVote, .glue .warnSlashable] := by decide
example : renderNode (a2aNode .cert true .ok [⟨.final, 5⟩] 0).1 = "add_cert | bcast final@5" := by decide

end AgModel.NodeGlue
