import AgModel.Proofs.Finality
import AgModel.Proofs.FinalityRun
import AgModel.Proofs.FinalitySafeDec
/-!
# C08 — per-node finality tracking and pruning (property theorems)

Model: `AgModel.Finality` (= `src/consensus/pool/finality_tracker.rs` after the D14 and D27 `fix:` commits), tied to the
real tracker by the correspondence run of `harness/src/bin/c08.rs`; the pool-level half (bounds checks,
`PoolImpl::prune`) is in `AgModel.PoolTrack` / `Props/C08Pool.lean`.

The run-level theorems (`safe_run_no_panic`, `reports_exact`, `reported_once`, `reports_timely`, `order_independent`,
`retained_exact`, `watermark_exact`, `highest_exact`) quantify over every operation sequence from the initial
tracker whose history satisfies the decidable safety premise `Safe`.
The one-step theorems quantify over every tracker state satisfying the invariant `Inv` (established by `inv_init`,
preserved by every successful operation: `step_preserves_inv`, hence along every operation sequence of any
length: `run_preserves_inv`) and every operation (any slots, any hashes, any order).
-/
namespace AgModel.Finality

/-- The invariant holds initially ... -/
theorem inv_initial : Inv init := inv_init

/-- ... and is preserved by every operation that does not panic. -/
theorem step_preserves_inv {t : Tracker} (hi : Inv t) {op : Op} {t' : Tracker} {ev : Event}
    (h : step t op = .ok t' ev) : Inv t' := (step_spec hi h).inv

/-- Along every operation sequence: invariant, `highest_finalized_slot` and the watermark never decrease. -/
theorem run_preserves_inv {ops : List Op} {t' : Tracker} {evs : List Event}
    (h : run init ops = some (t', evs)) : Inv t' := (run_inv inv_init h).1

/-- "its highest finalized slot never decreases" -/
theorem highest_monotone {t : Tracker} (hi : Inv t) {op : Op} {t' : Tracker} {ev : Event}
    (h : step t op = .ok t' ev) : t.highest ≤ t'.highest := (step_spec hi h).highest

/-- the pruning watermark never decreases and never overtakes the highest finalized slot -/
theorem watermark_monotone {t : Tracker} (hi : Inv t) {op : Op} {t' : Tracker} {ev : Event}
    (h : step t op = .ok t' ev) : t.first ≤ t'.first ∧ t'.first ≤ t'.highest :=
  ⟨(step_spec hi h).first, (step_spec hi h).inv.first_le⟩

/-- "once it is decided the node neither retains ... anything older": after every operation no status and no
    parent link below the watermark is retained. -/
theorem retained_bounded {t : Tracker} (hi : Inv t) {op : Op} {t' : Tracker} {ev : Event}
    (h : step t op = .ok t' ev) :
    (∀ s, s < t'.first → t'.status s = none) ∧ (∀ b, b.1 < t'.first → t'.parents b = none) :=
  ⟨(step_spec hi h).inv.st_pruned, (step_spec hi h).inv.par_pruned⟩

/-- A decided slot (finalized, implicitly finalized, implicitly skipped) stays decided *with the same block*
    under every later operation, until it is pruned: no certificate arriving late for a slot that is
    already decided changes the answer.  (This is what D14 violated in the pinned snapshot, see
    `d14_old_*` below.) -/
theorem decided_stable {t : Tracker} (hi : Inv t) {op : Op} {t' : Tracker} {ev : Event}
    (h : step t op = .ok t' ev) (s : Nat) (hd : Dec (t.status s)) :
    s < t'.first ∨ (Dec (t'.status s) ∧ finalHash (t'.status s) = finalHash (t.status s)) :=
  (step_spec hi h).stable s hd

/-- Known parent links are kept until their block is pruned. -/
theorem parents_kept {t : Tracker} (hi : Inv t) {op : Op} {t' : Tracker} {ev : Event}
    (h : step t op = .ok t' ev) (b p : Nat × Nat) (hp : t.parents b = some p) :
    b.1 < t'.first ∨ t'.parents b = some p :=
  (step_spec hi h).parents_stable b p hp

/-- "nothing is discarded before the whole prefix below it is decided": `prune` moves the watermark only
    across slots whose status is decided ... -/
theorem watermark_prefix (t : Tracker) (s : Nat) (h1 : t.first < s) (h2 : s ≤ (prune t).first) :
    Dec (t.status s) := prune_only_decided t s h1 h2

/-- ... changes no answer at or above the new watermark ... -/
theorem prune_lossless (t : Tracker) (s : Nat) (h : (prune t).first ≤ s) :
    (prune t).status s = t.status s ∧ ∀ hh, (prune t).parents (s, hh) = t.parents (s, hh) := by
  have hs : ¬ s < (prune t).first := by omega
  constructor
  · show (if s < (prune t).first then none else t.status s) = _
    simp only [hs, if_false]
  · intro hh
    show (if (s, hh).1 < (prune t).first then none else t.parents (s, hh)) = _
    simp only [hs, if_false]

/-- ... and goes all the way to the end of the decided prefix in the same step ("catches up"): the slot
    after the new watermark is not decided (the fuel of the model's loop is never what stops it). -/
theorem catches_up {t : Tracker} (h : Inv t) : ¬ Dec (t.status ((prune t).first + 1)) :=
  prune_catches_up h

/-- "reports slot s finalized with block b exactly when it holds ..." — soundness, one step:
    a block is reported as directly finalized only by its fast-finalization certificate, or by its notarization
    certificate when the finalization certificate of the slot is already held (`FinalPendingNotar`), or by the
    finalization certificate of its slot when its notarization certificate is already held (`Notarized`).

    (One-step form kept from the first version; the full run-level statement is `reports_exact` /
    `reported_once` / `reports_timely` below.) -/
theorem finalized_justified_partial {t : Tracker} {op : Op} {t' : Tracker} {ev : Event} {b : Nat × Nat}
    (h : step t op = .ok t' ev) (hb : ev.finalized = some b) :
    op = .fastFinal b ∨ (op = .notar b ∧ t.status b.1 = some .finalPending) ∨
    (op = .final b.1 ∧ t.status b.1 = some (.notarized b.2)) :=
  finalized_report_cause h hb

/-! ### whole runs: the reports are exactly the naive closure of the history

Definitions (in `Proofs/FinalitySpec.lean`, `Proofs/FinalityRun.lean`; no reference to the tracker):

* the *history* of a run is the list of operations applied so far (`add_parent`, `mark_fast_finalized`,
  `mark_notarized`, `mark_finalized`; `prune` is not an input — the tracker prunes by itself at the end of every
  operation that decides a slot, so every theorem below holds *with pruning interleaved wherever the code does it*);
* `Direct H b` : `fastFinal b ∈ H`, or `final b.1 ∈ H` and `notar b ∈ H` (genesis counts as notarized);
* `Final H b`  : inductive closure of `Direct` under the parent links of `H`;
* `Skip H s`   : `s` strictly between a `Final` block and its parent;
* `repF evs` / `repS evs` : all blocks reported finalized (`finalized` and `implicitly_finalized` of all events) /
  all slots reported `implicitly_skipped`, in order of emission;
* `Safe H` : the safety premise (decidable, `instance : Decidable (Safe G)`): parents have smaller slots, one parent
  per block, one finalized block per slot, no finalized block strictly between a finalized block and its parent,
  one notarized block per slot and it agrees with the **directly** finalized one (`Direct`) if there is one, no
  finalization certificate for an implicitly skipped slot.  These are consequences of consensus safety (C01) for
  the certificate sets a correct node can hold.

  Until the D27 repair the premise said "… and the notarized block is the `Final` one" (also for a block finalized
  only through a descendant).  That was forced by two assertions of the code and is *not* a consequence of safety:
  one equivocating leader (< 20 % of the stake) can give an implicitly finalized block a notarized sibling, see
  `d27_*` below.  The assertions are gone (`fix:` commit), the premise is weakened, every theorem below is
  re-proved under the weaker premise.
-/

/-- Under the safety premise no operation sequence panics (none of the `assert!`s / "consensus safety violation"
    panics of the tracker is reachable). -/
theorem safe_run_no_panic {ops : List Op} (sf : Safe ops) : ∃ t evs, run init ops = some (t, evs) := by
  obtain ⟨t, evs, h, _⟩ := run_runInv sf ops [] init [] runInv_init (by simpa using Sub.refl ops)
  exact ⟨t, evs, h⟩

/-- **reports_exact.**  After every run from the initial tracker over a safe history `ops`:
    a block of a slot ≥ 1 has been reported finalized (directly or implicitly) iff it is in the closure `Final ops`;
    every reported block is in the closure; a slot has been reported implicitly skipped iff it is in `Skip ops`.
    Genesis `(0,0)` is the one block the statement's restriction "not yet below the watermark when the information
    arrives" bites on: it is reported iff the walk reaches it while the watermark is still 0 — in particular
    whenever the watermark is still 0 at the end (`t.first = 0`); see `genesis_report_depends_on_order`. -/
theorem reports_exact {ops : List Op} (sf : Safe ops) {t : Tracker} {evs : List Event}
    (h : run init ops = some (t, evs)) :
    (∀ b, (1 ≤ b.1 ∨ t.first = 0) → (b ∈ repF evs ↔ Final ops b)) ∧
    (∀ b, b ∈ repF evs → Final ops b) ∧
    (∀ s, s ∈ repS evs ↔ Skip ops s) :=
  have ri := runInv_of_run sf h
  ⟨fun b hb => ri.final_iff sf b hb, ri.soundF, fun s => ri.skip_iff sf s⟩

/-- **reported_once.**  Over the whole run every slot is reported at most once — as finalized (with one block)
    or as implicitly skipped, never both, never twice. -/
theorem reported_once {ops : List Op} (sf : Safe ops) {t : Tracker} {evs : List Event}
    (h : run init ops = some (t, evs)) : ((repF evs).map (·.1) ++ repS evs).Nodup :=
  (runInv_of_run sf h).once sf

/-- **reports_timely.**  Every report is emitted by the very operation that completes its condition: the event of
    the operation `op` applied after the history `pre` contains exactly what is in the closure of `pre ++ [op]` and
    was not in the closure of `pre`. -/
theorem reports_timely {pre : List Op} {op : Op} (sf : Safe (pre ++ [op])) {t1 : Tracker} {evs1 : List Event}
    (h1 : run init pre = some (t1, evs1)) {t2 : Tracker} {ev : Event} (h2 : step t1 op = .ok t2 ev) :
    (∀ b, (1 ≤ b.1 ∨ t2.first = 0) → (b ∈ evF ev ↔ (Final (pre ++ [op]) b ∧ ¬ Final pre b))) ∧
    (∀ s, s ∈ ev.implSkipped ↔ (Skip (pre ++ [op]) s ∧ ¬ Skip pre s)) := by
  have hs := sub_append_left pre op
  have sf1 : Safe pre := sf.sub hs
  have ri1 := runInv_of_run sf1 h1
  have ri2 := runInv_of_run sf (run_snoc h1 h2)
  have hmono := (step_spec ri1.inv h2).first
  have ndF := ri2.nodupF
  have ndS := ri2.nodupS
  rw [repF_snoc, List.map_append, List.nodup_append] at ndF
  rw [repS_snoc, List.nodup_append] at ndS
  constructor
  · intro b hb
    have hb1 : 1 ≤ b.1 ∨ t1.first = 0 := hb.elim Or.inl (fun e => Or.inr (by omega))
    constructor
    · intro hm
      refine ⟨ri2.soundF b (by rw [repF_snoc]; exact List.mem_append_right _ hm), ?_⟩
      intro hf
      have := (ri1.final_iff sf1 b hb1).mpr hf
      exact ndF.2.2 b.1 (List.mem_map.mpr ⟨b, this, rfl⟩) b.1 (List.mem_map.mpr ⟨b, hm, rfl⟩) rfl
    · intro ⟨hf, hn⟩
      have := (ri2.final_iff sf b hb).mpr hf
      rw [repF_snoc] at this
      rcases List.mem_append.mp this with x | x
      · exact absurd (ri1.soundF b x) hn
      · exact x
  · intro s
    constructor
    · intro hm
      refine ⟨ri2.soundS s (by rw [repS_snoc]; exact List.mem_append_right _ hm), ?_⟩
      intro hk
      exact ndS.2.2 s ((ri1.skip_iff sf1 s).mpr hk) s hm rfl
    · intro ⟨hk, hn⟩
      have := (ri2.skip_iff sf s).mpr hk
      rw [repS_snoc] at this
      rcases List.mem_append.mp this with x | x
      · exact absurd (ri1.soundS s x) hn
      · exact x

/-- **Pruning is lossless over whole runs.**  However often the tracker has pruned, the answer it holds for a
    slot at or above the watermark is the one the *complete* history demands: finalized with `h` iff `(s,h)` is in
    the closure, implicitly skipped iff in `Skip`, and otherwise exactly the certificates seen for the slot. -/
theorem retained_exact {ops : List Op} (sf : Safe ops) {t : Tracker} {evs : List Event}
    (h : run init ops = some (t, evs)) (s : Nat) (hw : t.first ≤ s) :
    (∀ hh, finalHash (t.status s) = some hh ↔ Final ops (s, hh)) ∧
    (t.status s = some .implSkipped ↔ Skip ops s) ∧
    (¬ Dec (t.status s) → ((∀ hh, t.status s = some (.notarized hh) ↔ NotarH ops (s, hh)) ∧
                            (t.status s = some .finalPending ↔ FinH ops s))) := by
  have ri := runInv_of_run sf h
  have ok := ri.rel.slot s hw
  refine ⟨?_, ?_, ?_⟩
  · intro hh
    exact ⟨slotOK_final ok, fun a => ri.rel.final_complete sf (Sub.refl _) a hw⟩
  · exact ⟨slotOK_skip ok, fun a => ri.rel.skip_complete sf (Sub.refl _) a hw⟩
  · intro nd
    rcases undec_cases nd with e | ⟨x, e⟩ | e <;> rw [e] at ok ⊢
    · refine ⟨fun hh => ⟨(fun a => by cases a), fun a => absurd a (ok.2.1 hh)⟩, ⟨(fun a => by cases a), fun a => absurd a ok.1⟩⟩
    · refine ⟨fun hh => ⟨(fun a => by cases a; exact ok.1), fun a => ?_⟩, ⟨(fun a => by cases a), fun a => absurd a ok.2.1⟩⟩
      have := sf.notar_fun (s, x) (s, hh) ok.1 a rfl
      cases this; rfl
    · refine ⟨fun hh => ⟨(fun a => by cases a), fun a => absurd a (ok.2.1 hh)⟩, ⟨fun _ => ok.1, fun _ => rfl⟩⟩

/-- **A `Finalized` status means a direct finalization** (fast-finalization certificate, or finalization +
    notarization certificate) — the status the remaining hash assertions of `mark_notarized` /
    `handle_implicitly_finalized` compare against. -/
theorem finalized_status_direct {ops : List Op} (sf : Safe ops) {t : Tracker} {evs : List Event}
    (h : run init ops = some (t, evs)) (s : Nat) (hw : t.first ≤ s) (hh : Nat)
    (e : t.status s = some (.finalized hh)) : Direct ops (s, hh) :=
  slotOK_direct ((runInv_of_run sf h).rel.slot s hw) e

/-- **A notarized sibling does not disturb the answer** (D27).  If the history finalizes `(s, b)` and also contains
    the notarization certificate of a *different* block `(s, b')` of that slot — whichever arrived first —, the
    retained status of the slot is `ImplicitlyFinalized(b)`: the finalized block wins, the notarization of the
    sibling is forgotten, nothing panics (`safe_run_no_panic`), and `(s, b)` is what was reported (`reports_exact`). -/
theorem notarized_sibling_exact {ops : List Op} (sf : Safe ops) {t : Tracker} {evs : List Event}
    (h : run init ops = some (t, evs)) (s : Nat) (hw : t.first ≤ s) (b b' : Nat)
    (hf : Final ops (s, b)) (hn : NotarH ops (s, b')) (hne : b' ≠ b) :
    t.status s = some (.implFinalized b) := by
  have ri := runInv_of_run sf h
  have e := ri.rel.final_complete sf (Sub.refl _) hf hw
  have ok := ri.rel.slot s hw
  cases hst : t.status s with
  | none => rw [hst] at e; cases e
  | some x =>
    rw [hst] at e ok
    cases x with
    | notarized _ => cases e
    | finalPending => cases e
    | implSkipped => cases e
    | implFinalized hh => cases e; rfl
    | finalized hh =>
      cases e
      exact absurd (congrArg Prod.snd (sf.notar_direct (s, b') (s, b) hn ok rfl)) hne

/-- **The watermark is exactly the end of the decided prefix of the history**: every slot `1 … first` is decided
    by the history ("nothing is discarded before the whole prefix below it is decided") and slot `first + 1` is
    not (the watermark has caught up when the operation returns). -/
theorem watermark_exact {ops : List Op} (sf : Safe ops) {t : Tracker} {evs : List Event}
    (h : run init ops = some (t, evs)) :
    (∀ s, 1 ≤ s → s ≤ t.first → (Skip ops s ∨ ∃ hh, Final ops (s, hh))) ∧
    ¬ (Skip ops (t.first + 1) ∨ ∃ hh, Final ops (t.first + 1, hh)) :=
  (runInv_of_run sf h).watermark sf

/-- **`highest_finalized_slot` is exactly the highest slot of a finalized block of the history** (0 = genesis if
    there is none). -/
theorem highest_exact {ops : List Op} (sf : Safe ops) {t : Tracker} {evs : List Event}
    (h : run init ops = some (t, evs)) :
    (∀ b, Final ops b → b.1 ≤ t.highest) ∧ (t.highest = 0 ∨ ∃ b, Final ops b ∧ b.1 = t.highest) := by
  have ri := runInv_of_run sf h
  refine ⟨?_, ri.hiAtt⟩
  intro b hb
  by_cases hw : t.first ≤ b.1
  · exact ri.inv.dec_le _ (dec_of_finalHash (ri.rel.final_complete sf (Sub.refl _) hb hw))
  · have := ri.inv.first_le; omega

/-- **order_independent.**  Two runs over the same *set* of inputs (any order, any multiplicities; the tracker
    prunes whenever it does) end with the same watermark, the same answer for every slot at or above it (`view`
    forgets only whether a block was finalized directly or through a descendant), and the same set of reports
    (modulo genesis, see `genesis_report_depends_on_order`). -/
theorem order_independent {ops1 ops2 : List Op} (hset : ∀ op, op ∈ ops1 ↔ op ∈ ops2) (sf : Safe ops1)
    {t1 t2 : Tracker} {evs1 evs2 : List Event}
    (h1 : run init ops1 = some (t1, evs1)) (h2 : run init ops2 = some (t2, evs2)) :
    t1.first = t2.first ∧ t1.highest = t2.highest ∧
    (∀ s, t1.first ≤ s → view (t1.status s) = view (t2.status s)) ∧
    (∀ b, 1 ≤ b.1 → (b ∈ repF evs1 ↔ b ∈ repF evs2)) ∧
    (∀ s, s ∈ repS evs1 ↔ s ∈ repS evs2) := by
  have hs : Sub ops1 ops2 := fun o h => (hset o).mp h
  have hs' : Sub ops2 ops1 := fun o h => (hset o).mpr h
  have sf2 : Safe ops2 := sf.sub hs'
  have ri1 := runInv_of_run sf h1
  have ri2 := runInv_of_run sf2 h2
  have hf := first_eq sf hs hs' ri1 ri2
  have hle : ∀ {opsA opsB : List Op} {tA tB : Tracker} {eA eB : List Event}, Sub opsA opsB → Safe opsB →
      RunInv opsA tA eA → run init opsB = some (tB, eB) → tA.highest ≤ tB.highest := by
    intro opsA opsB tA tB eA eB hsub sfB riA hB
    rcases riA.hiAtt with e | ⟨b, hb, e⟩
    · omega
    · rw [← e]; exact (highest_exact sfB hB).1 b (hb.mono hsub)
  refine ⟨hf, Nat.le_antisymm (hle hs sf2 ri1 h2) (hle hs' sf ri2 h1), ?_, ?_, ?_⟩
  · intro s a
    exact view_eq sf hs hs' ri1.rel ri2.rel s a (by omega)
  · intro b hb
    rw [ri1.final_iff sf b (Or.inl hb), ri2.final_iff sf2 b (Or.inl hb)]
    exact ⟨Final.mono hs, Final.mono hs'⟩
  · intro s
    rw [ri1.skip_iff sf s, ri2.skip_iff sf2 s]
    exact ⟨Skip.mono hs, Skip.mono hs'⟩

/-- Two orders of the same inputs both run to the end (corollary of `safe_run_no_panic`). -/
theorem order_independent_runs {ops1 ops2 : List Op} (hset : ∀ op, op ∈ ops1 ↔ op ∈ ops2) (sf : Safe ops1) :
    (∃ t evs, run init ops1 = some (t, evs)) ∧ (∃ t evs, run init ops2 = some (t, evs)) :=
  ⟨safe_run_no_panic sf, safe_run_no_panic (sf.sub (fun o h => (hset o).mpr h))⟩

/-! #### the safety premise is needed, and satisfiable -/

/-- Non-vacuity: the out-of-order history of the first example below is safe (kernel-evaluated through the
    `Decidable (Safe _)` instance) … -/
example : Safe [.fastFinal (5, 3), .final 1, .parent (5, 3) (2, 2), .parent (1, 1) (0, 0), .parent (2, 2) (1, 1)] := by
  decide

/-- … and so is one that uses every kind of input, finalization before notarization, a duplicate, a side block
    `(2,9)` notarized in a skipped slot, and inputs for slots that are already pruned when they arrive. -/
def sampleHistory : List Op :=
  [.final 3, .notar (1, 1), .notar (3, 3), .parent (3, 3) (1, 1), .notar (2, 9), .final 1, .parent (1, 1) (0, 0),
   .fastFinal (3, 3), .parent (2, 9) (1, 1), .fastFinal (4, 4), .parent (4, 4) (3, 3), .notar (1, 1)]

example : Safe sampleHistory := by decide

example : (run init sampleHistory).map (fun r => (r.1.first, r.1.highest, repF r.2, repS r.2)) =
    some (4, 4, [(3, 3), (1, 1), (4, 4)], [2]) := by decide

/-- Without the premise "no finalized block strictly between a finalized block and its parent" the reports are
    *not* the closure although nothing panics: `(1,1)`, `(2,2)` are fast-finalized (watermark 2), then `(3,3)` with
    parent `(1,1)`.  The closure demands slot 2 skipped (and finalized): the tracker reports no skip. -/
theorem unsafe_history_not_exact :
    let ops : List Op := [.fastFinal (1, 1), .fastFinal (2, 2), .parent (3, 3) (1, 1), .fastFinal (3, 3)]
    ¬ Safe ops ∧ Skip ops 2 ∧ (run init ops).map (fun r => repS r.2) = some [] := by
  refine ⟨by decide, ?_, by decide⟩
  exact ⟨(3, 3), (1, 1), .direct (Or.inl (by decide)), by decide, by decide, by decide⟩

/-- Without "one finalized block per slot" (or any of the uniqueness premises) the tracker panics
    ("consensus safety violation"). -/
theorem unsafe_history_panics :
    ¬ Safe [.fastFinal (1, 1), .fastFinal (1, 2)] ∧ run init [.fastFinal (1, 1), .fastFinal (1, 2)] = none := by
  constructor <;> decide

/-- The assertions that remain after the D27 repair are the ones safety implies; each is still reachable by an unsafe
    history (none of these histories is `Safe`, each run panics):
    two notarization certificates in one slot; a fast-finalization next to a different notarized block (both
    orders); a notarization certificate completing a *direct* finalization of a sibling of an implicitly finalized
    block (`Finalized` first, then the walk); a fast-finalization of a different block than the implicitly finalized
    one; a finalization certificate for an implicitly skipped slot. -/
theorem unsafe_histories_still_panic :
    (¬ Safe [.notar (1, 1), .notar (1, 2)] ∧ run init [.notar (1, 1), .notar (1, 2)] = none) ∧
    (¬ Safe [.notar (1, 1), .fastFinal (1, 2)] ∧ run init [.notar (1, 1), .fastFinal (1, 2)] = none) ∧
    (¬ Safe [.fastFinal (1, 1), .notar (1, 2)] ∧ run init [.fastFinal (1, 1), .notar (1, 2)] = none) ∧
    (¬ Safe [.final 2, .notar (2, 5), .parent (3, 3) (2, 2), .fastFinal (3, 3)] ∧
      run init [.final 2, .notar (2, 5), .parent (3, 3) (2, 2), .fastFinal (3, 3)] = none) ∧
    (¬ Safe [.parent (3, 3) (2, 2), .fastFinal (3, 3), .fastFinal (2, 5)] ∧
      run init [.parent (3, 3) (2, 2), .fastFinal (3, 3), .fastFinal (2, 5)] = none) ∧
    (¬ Safe [.parent (4, 4) (2, 2), .fastFinal (4, 4), .final 3] ∧
      run init [.parent (4, 4) (2, 2), .fastFinal (4, 4), .final 3] = none) := by
  refine ⟨⟨by decide, by decide⟩, ⟨by decide, by decide⟩, ⟨by decide, by decide⟩, ⟨by decide, by decide⟩,
    ⟨by decide, by decide⟩, ⟨by decide, by decide⟩⟩

/-- What the repaired tracker can no longer notice (it would need one more status): slot 2 holds a finalization
    certificate (`FinalPendingNotar`), `(2,2)` becomes implicitly finalized — the status forgets the certificate —
    and then the notarization certificate of the sibling `(2,5)` arrives, which makes `(2,5)` *directly* finalized:
    a genuine safety violation (`¬ Safe`).  The pinned code panicked here; the repaired code ignores the
    certificate (and reports nothing for `(2,5)`).  Likewise when the sibling's notarization came first, was
    replaced by `ImplicitlyFinalized(2)`, and the finalization certificate of the slot arrives last (second history).
    In the arrival orders in which the direct finalization of `(2,5)` completes *before* the ancestor walk reaches
    slot 2 the violation is still caught (`unsafe_histories_still_panic`, fourth history). -/
theorem unsafe_history_undetected_after_d27 :
    let ops : List Op := [.final 2, .parent (3, 3) (2, 2), .fastFinal (3, 3), .notar (2, 5)]
    let ops' : List Op := [.notar (2, 5), .parent (3, 3) (2, 2), .fastFinal (3, 3), .final 2]
    ¬ Safe ops ∧ Direct ops (2, 5) ∧ Final ops (2, 2) ∧
    (run init ops).map (fun r => (r.1.status 2, repF r.2)) = some (some (.implFinalized 2), [(3, 3), (2, 2)]) ∧
    ¬ Safe ops' ∧
    (run init ops').map (fun r => (r.1.status 2, repF r.2)) = some (some (.implFinalized 2), [(3, 3), (2, 2)]) := by
  refine ⟨by decide, by decide, ?_, by decide, by decide, by decide⟩
  exact .step (c := (3, 3)) (.direct (Or.inl (by decide))) (by decide)

/-- Genesis is the one report that depends on the order of arrival: if the link `(1,1) → genesis` is known before
    `(1,1)` is finalized, genesis is reported as implicitly finalized; if it arrives afterwards the watermark has
    already left slot 0 and the walk stops silently.  Both histories are safe; all other reports agree. -/
theorem genesis_report_depends_on_order :
    (run init [.parent (1, 1) (0, 0), .fastFinal (1, 1)]).map (fun r => repF r.2) = some [(1, 1), (0, 0)] ∧
    (run init [.fastFinal (1, 1), .parent (1, 1) (0, 0)]).map (fun r => repF r.2) = some [(1, 1)] ∧
    Safe [.parent (1, 1) (0, 0), .fastFinal (1, 1)] := by
  refine ⟨by decide, by decide, by decide⟩

/-! ### non-vacuity: concrete runs (evaluated by the kernel) -/

def events (ops : List Op) : Option (List Event) := (run init ops).map (·.2)
def summary (ops : List Op) : Option (Nat × Nat) := (run init ops).map (fun r => (r.1.highest, r.1.first))

/-- final-before-notar, children-before-parents, a gap that closes later: block (5,3) is fast-finalized first,
    the finalization certificate of slot 1 arrives without its notarization, then the chain 5 → 2 → 1 → genesis
    becomes known out of order; slots 3, 4 are implicitly skipped, (1,1) is finalized through its child although
    its notarization certificate never arrives, and the watermark jumps from 0 to 5 in the last step. -/
example : events [.fastFinal (5, 3), .final 1, .parent (5, 3) (2, 2), .parent (1, 1) (0, 0), .parent (2, 2) (1, 1)] =
    some [⟨some (5, 3), [], []⟩, {}, ⟨none, [(2, 2)], [3, 4]⟩, {}, ⟨none, [(1, 1), (0, 0)], []⟩] := by
  decide

example : summary [.fastFinal (5, 3), .final 1, .parent (5, 3) (2, 2), .parent (1, 1) (0, 0)] = some (5, 0) ∧
    summary [.fastFinal (5, 3), .final 1, .parent (5, 3) (2, 2), .parent (1, 1) (0, 0), .parent (2, 2) (1, 1)] =
      some (5, 5) := by decide

/-- a conflicting fast-finalization is a "consensus safety violation" panic -/
example : events [.notar (1, 1), .fastFinal (1, 2)] = none := by decide

/-! ### D14, D27: the pinned snapshot (before the `fix:` commits) -/

/-- one operation of the pinned snapshot (`Model/Finality.lean`, section "The pinned snapshot") -/
def stepOld (t : Tracker) : Op → Res
  | .parent b p => addParentOld t b p
  | .fastFinal b => markFastFinalizedOld t b
  | .notar b => markNotarizedOld t b
  | .final s => markFinalizedOld t s

def runOld (t : Tracker) : List Op → Option (Tracker × List Event)
  | [] => some (t, [])
  | op :: rest =>
    match stepOld t op with
    | .panic => none
    | .ok t1 ev =>
      match runOld t1 rest with
      | some (t2, evs) => some (t2, ev :: evs)
      | none => none

/-- Old code: fast-final, final, notar certificates of one slot (a benign order) report block (1,7) finalized
    twice; the repaired code reports it once. -/
theorem d14_old_reports_twice :
    (runOld init [.fastFinal (1, 7), .final 1, .notar (1, 7)]).map (·.2) =
      some [⟨some (1, 7), [], []⟩, {}, ⟨some (1, 7), [], []⟩] ∧
    events [.fastFinal (1, 7), .final 1, .notar (1, 7)] = some [⟨some (1, 7), [], []⟩, {}, {}] := by
  decide

/-- Old code: after notar + fast-final of (2,5), a late final certificate downgrades slot 2 to `FinalPendingNotar`;
    the parent link registered afterwards no longer finalizes the ancestor (1,4) and the watermark stays at 0.
    The repaired code finalizes (1,4) and moves the watermark to 2 (the link 1 → 0 is still unknown ... it was
    delivered first here). -/
theorem d14_old_loses_ancestor :
    (runOld init [.parent (1, 4) (0, 0), .notar (2, 5), .fastFinal (2, 5), .final 2, .parent (2, 5) (1, 4)]).map
        (fun r => (r.2.getLast?, r.1.first)) = some (some {}, 0) ∧
    (run init [.parent (1, 4) (0, 0), .notar (2, 5), .fastFinal (2, 5), .final 2, .parent (2, 5) (1, 4)]).map
        (fun r => (r.2.getLast?, r.1.first)) = some (some ⟨none, [(1, 4), (0, 0)], []⟩, 2) := by
  decide

/-! ### D27: a notarized sibling of an implicitly finalized block

Protocol scenario (no correct node breaks a rule; one equivocating leader with 10 % of the stake): the leader shows
`B' = (4,5)` to 60 % of the stake and `B = (4,4)` to 40 %.  `B'` gets a notarization certificate; `notar(B) = 40 %` makes
safe-to-notar(`B`) hold at the `B'`-voters, their notar-fallback votes give `B` a notar-fallback certificate.  Nobody
can finalize slot 4.  Both blocks are ready parents; the next leader builds `C = (8,9)` on `B`; `C` is finalized by
everybody; `B` becomes implicitly finalized.  The finality tracker of a node holding the notarization certificate
of `B'` receives `mark_notarized(B')`, `add_parent(C, B)`, `mark_fast_finalized(C)` in some order. -/

/-- the sibling's certificate arrives first, … -/
def d27First : List Op := [.notar (4, 5), .parent (8, 9) (4, 4), .fastFinal (8, 9)]
/-- … or after the implicit finalization -/
def d27Late : List Op := [.parent (8, 9) (4, 4), .fastFinal (8, 9), .notar (4, 5)]

/-- Both histories satisfy the (weakened) safety premise, and they did **not** satisfy the old one: its clause
    `∀ b b', NotarH b → Final b' → b.1 = b'.1 → b = b'` fails for `b = (4,5)`, `b' = (4,4)`. -/
theorem d27_histories_safe :
    Safe d27First ∧ Safe d27Late ∧
    NotarH d27First (4, 5) ∧ Final d27First (4, 4) ∧ ¬ Direct d27First (4, 4) := by
  refine ⟨by decide, by decide, by decide, ?_, by decide⟩
  exact .step (c := (8, 9)) (.direct (Or.inl (by decide))) (by decide)

/-- Repaired code: both orders run to the end, report `(8,9)` finalized, `(4,4)` implicitly finalized and slots
    5, 6, 7 implicitly skipped in the event of `mark_fast_finalized`, nothing for `(4,5)`, and end with slot 4
    `ImplicitlyFinalized(4)` (instances of `safe_run_no_panic`, `reports_exact`, `notarized_sibling_exact`). -/
theorem d27_runs_without_panic :
    events d27First = some [{}, {}, ⟨some (8, 9), [(4, 4)], [5, 6, 7]⟩] ∧
    events d27Late = some [{}, ⟨some (8, 9), [(4, 4)], [5, 6, 7]⟩, {}] ∧
    (run init d27First).map (fun r => (r.1.status 4, r.1.highest, r.1.first)) = some (some (.implFinalized 4), 8, 0) ∧
    (run init d27Late).map (fun r => (r.1.status 4, r.1.highest, r.1.first)) = some (some (.implFinalized 4), 8, 0) := by
  decide

/-- Pinned code: both orders end in a `"consensus safety violation"` panic — the first in
    `handle_implicitly_finalized` (called from `mark_fast_finalized`), the second in `mark_notarized`. -/
theorem d27_old_panics :
    runOld init d27First = none ∧ (runOld init (d27First.take 2)).isSome = true ∧
    runOld init d27Late = none ∧ (runOld init (d27Late.take 2)).isSome = true := by
  decide

end AgModel.Finality
