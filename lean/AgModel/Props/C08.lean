import AgModel.Model.Finality
namespace AgModel.Finality
theorem init_first : init.first = 0 := rfl
end AgModel.Finality
