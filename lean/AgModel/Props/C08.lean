import AgModel.Proofs.Finality
/-!
# C08 — per-node finality tracking and pruning (property theorems)

Model: `AgModel.Finality` (= `src/consensus/pool/finality_tracker.rs` after the D14 `fix:` commit), tied to the
real tracker by the correspondence run of `harness/src/bin/c08.rs`; the pool-level half (bounds checks,
`PoolImpl::prune`) is in `AgModel.PoolTrack` / `Props/C08Pool.lean`.

All theorems quantify over every tracker state satisfying the invariant `Inv` (established by `inv_init`,
preserved by every successful operation: `step_preserves_inv`, hence along every operation sequence of any
length: `run_preserves_inv`) and every operation (any slots, any hashes, any order).
-/
namespace AgModel.Finality

/-- The invariant holds initially ... -/
theorem inv_initial : Inv init := inv_init

/-- ... and is preserved by every operation that does not panic. -/
theorem step_preserves_inv {t : Tracker} (hi : Inv t) {op : Op} {t' : Tracker} {ev : Event}
    (h : step t op = .ok t' ev) : Inv t' := (step_spec hi h).inv

/-- Along every operation sequence: invariant, `highest_finalized_slot` and the watermark never decrease. -/
theorem run_preserves_inv {ops : List Op} {t' : Tracker} {evs : List Event}
    (h : run init ops = some (t', evs)) : Inv t' := (run_inv inv_init h).1

/-- "its highest finalized slot never decreases" -/
theorem highest_monotone {t : Tracker} (hi : Inv t) {op : Op} {t' : Tracker} {ev : Event}
    (h : step t op = .ok t' ev) : t.highest ≤ t'.highest := (step_spec hi h).highest

/-- the pruning watermark never decreases and never overtakes the highest finalized slot -/
theorem watermark_monotone {t : Tracker} (hi : Inv t) {op : Op} {t' : Tracker} {ev : Event}
    (h : step t op = .ok t' ev) : t.first ≤ t'.first ∧ t'.first ≤ t'.highest :=
  ⟨(step_spec hi h).first, (step_spec hi h).inv.first_le⟩

/-- "once it is decided the node neither retains ... anything older": after every operation no status and no
    parent link below the watermark is retained. -/
theorem retained_bounded {t : Tracker} (hi : Inv t) {op : Op} {t' : Tracker} {ev : Event}
    (h : step t op = .ok t' ev) :
    (∀ s, s < t'.first → t'.status s = none) ∧ (∀ b, b.1 < t'.first → t'.parents b = none) :=
  ⟨(step_spec hi h).inv.st_pruned, (step_spec hi h).inv.par_pruned⟩

/-- A decided slot (finalized, implicitly finalized, implicitly skipped) stays decided *with the same block*
    under every later operation, until it is pruned: no certificate arriving late for a slot that is
    already decided changes the answer.  (This is what D14 violated in the pinned snapshot, see
    `d14_old_*` below.) -/
theorem decided_stable {t : Tracker} (hi : Inv t) {op : Op} {t' : Tracker} {ev : Event}
    (h : step t op = .ok t' ev) (s : Nat) (hd : Dec (t.status s)) :
    s < t'.first ∨ (Dec (t'.status s) ∧ finalHash (t'.status s) = finalHash (t.status s)) :=
  (step_spec hi h).stable s hd

/-- Known parent links are kept until their block is pruned. -/
theorem parents_kept {t : Tracker} (hi : Inv t) {op : Op} {t' : Tracker} {ev : Event}
    (h : step t op = .ok t' ev) (b p : Nat × Nat) (hp : t.parents b = some p) :
    b.1 < t'.first ∨ t'.parents b = some p :=
  (step_spec hi h).parents_stable b p hp

/-- "nothing is discarded before the whole prefix below it is decided": `prune` moves the watermark only
    across slots whose status is decided ... -/
theorem watermark_prefix (t : Tracker) (s : Nat) (h1 : t.first < s) (h2 : s ≤ (prune t).first) :
    Dec (t.status s) := prune_only_decided t s h1 h2

/-- ... changes no answer at or above the new watermark ... -/
theorem prune_lossless (t : Tracker) (s : Nat) (h : (prune t).first ≤ s) :
    (prune t).status s = t.status s ∧ ∀ hh, (prune t).parents (s, hh) = t.parents (s, hh) := by
  have hs : ¬ s < (prune t).first := by omega
  constructor
  · show (if s < (prune t).first then none else t.status s) = _
    simp only [hs, if_false]
  · intro hh
    show (if (s, hh).1 < (prune t).first then none else t.parents (s, hh)) = _
    simp only [hs, if_false]

/-- ... and goes all the way to the end of the decided prefix in the same step ("catches up"): the slot
    after the new watermark is not decided (the fuel of the model's loop is never what stops it). -/
theorem catches_up {t : Tracker} (h : Inv t) : ¬ Dec (t.status ((prune t).first + 1)) :=
  prune_catches_up h

/-- "reports slot s finalized with block b exactly when it holds ..." — soundness, one step:
    a block is reported as directly finalized only by its fast-finalization certificate, or by its notarization
    certificate when the finalization certificate of the slot is already held (`FinalPendingNotar`), or by the
    finalization certificate of its slot when its notarization certificate is already held (`Notarized`).

    Full statement (not proved as one theorem; the per-step halves below and the oracle of the harness
    cover it): for every run from `init` with delivered certificate sets N, F, FF and links P, the
    cumulative reports are exactly `DirectFinal = FF ∪ (F ⋈ N)`, their `P`-ancestors and the slots between, each
    once.  Missing for the full statement: the trace-level invariant linking `Notarized`/`FinalPendingNotar`
    entries to N / F, and the "each once" argument across one ancestor walk. -/
theorem finalized_justified_partial {t : Tracker} {op : Op} {t' : Tracker} {ev : Event} {b : Nat × Nat}
    (h : step t op = .ok t' ev) (hb : ev.finalized = some b) :
    op = .fastFinal b ∨ (op = .notar b ∧ t.status b.1 = some .finalPending) ∨
    (op = .final b.1 ∧ t.status b.1 = some (.notarized b.2)) :=
  finalized_report_cause h hb

/-! ### non-vacuity: concrete runs (evaluated by the kernel) -/

def events (ops : List Op) : Option (List Event) := (run init ops).map (·.2)
def summary (ops : List Op) : Option (Nat × Nat) := (run init ops).map (fun r => (r.1.highest, r.1.first))

/-- final-before-notar, children-before-parents, a gap that closes later: block (5,3) is fast-finalized first,
    the finalization certificate of slot 1 arrives without its notarization, then the chain 5 → 2 → 1 → genesis
    becomes known out of order; slots 3, 4 are implicitly skipped, (1,1) is finalized through its child although
    its notarization certificate never arrives, and the watermark jumps from 0 to 5 in the last step. -/
example : events [.fastFinal (5, 3), .final 1, .parent (5, 3) (2, 2), .parent (1, 1) (0, 0), .parent (2, 2) (1, 1)] =
    some [⟨some (5, 3), [], []⟩, {}, ⟨none, [(2, 2)], [3, 4]⟩, {}, ⟨none, [(1, 1), (0, 0)], []⟩] := by
  decide

example : summary [.fastFinal (5, 3), .final 1, .parent (5, 3) (2, 2), .parent (1, 1) (0, 0)] = some (5, 0) ∧
    summary [.fastFinal (5, 3), .final 1, .parent (5, 3) (2, 2), .parent (1, 1) (0, 0), .parent (2, 2) (1, 1)] =
      some (5, 5) := by decide

/-- a conflicting fast-finalization is a "consensus safety violation" panic -/
example : events [.notar (1, 1), .fastFinal (1, 2)] = none := by decide

/-! ### D14: the pinned snapshot (before the `fix:` commit) -/

def stepOld (t : Tracker) : Op → Res
  | .parent b p => addParent t b p
  | .fastFinal b => markFastFinalized t b
  | .notar b => markNotarizedOld t b
  | .final s => markFinalizedOld t s

def runOld (t : Tracker) : List Op → Option (Tracker × List Event)
  | [] => some (t, [])
  | op :: rest =>
    match stepOld t op with
    | .panic => none
    | .ok t1 ev =>
      match runOld t1 rest with
      | some (t2, evs) => some (t2, ev :: evs)
      | none => none

/-- Old code: fast-final, final, notar certificates of one slot (a benign order) report block (1,7) finalized
    twice; the repaired code reports it once. -/
theorem d14_old_reports_twice :
    (runOld init [.fastFinal (1, 7), .final 1, .notar (1, 7)]).map (·.2) =
      some [⟨some (1, 7), [], []⟩, {}, ⟨some (1, 7), [], []⟩] ∧
    events [.fastFinal (1, 7), .final 1, .notar (1, 7)] = some [⟨some (1, 7), [], []⟩, {}, {}] := by
  decide

/-- Old code: after notar + fast-final of (2,5), a late final certificate downgrades slot 2 to `FinalPendingNotar`;
    the parent link registered afterwards no longer finalizes the ancestor (1,4) and the watermark stays at 0.
    The repaired code finalizes (1,4) and moves the watermark to 2 (the link 1 → 0 is still unknown ... it was
    delivered first here). -/
theorem d14_old_loses_ancestor :
    (runOld init [.parent (1, 4) (0, 0), .notar (2, 5), .fastFinal (2, 5), .final 2, .parent (2, 5) (1, 4)]).map
        (fun r => (r.2.getLast?, r.1.first)) = some (some {}, 0) ∧
    (run init [.parent (1, 4) (0, 0), .notar (2, 5), .fastFinal (2, 5), .final 2, .parent (2, 5) (1, 4)]).map
        (fun r => (r.2.getLast?, r.1.first)) = some (some ⟨none, [(1, 4), (0, 0)], []⟩, 2) := by
  decide

end AgModel.Finality
