import AgModel.Proofs.PoolGlue
/-!
# C03 at pool level

`Props/C03.lean` states the certificate properties for the state machine of one slot (`slotRun`). The pool applies those
operations to the slot states it retains, interleaved with the finality / parent-ready trackers, the waiting-children map
and pruning (`Pool.addVote`, `Pool.addCert`, `Pool.addBlock`). `poolRun_ok` (Proofs/PoolGlue.lean) carries the per-slot
invariant through all of that; the corollaries below are the C03 statements for every slot state of every reachable pool.
-/
namespace AgModel.Pool

/-- every slot state retained by a pool that is reachable from the empty pool through any votes, validated
    certificates and block registrations satisfies the per-slot invariant and holds only valid certificates -/
theorem pool_slots_ok (e : Epoch) (hpos : 0 < e.total) (ops : List PoolOp)
    (hrecv : ∀ c, PoolOp.cert c ∈ ops → CertOk e c) :
    ∀ st ∈ (poolRun { epoch := e } ops).1.slots, Inv e st ∧ HeldOk e st := by
  have h := poolRun_ok ops { epoch := e } (PoolOk.init e hpos) hrecv
  intro st hm
  have := h.1.2 st hm
  rw [h.2] at this
  exact this

/-- **Counters are recounts** in every retained slot state of a reachable pool: each validator's stake is in a total
    at most once per class, and exactly the validators whose vote is stored are counted. -/
theorem pool_counters_are_recounts (e : Epoch) (hpos : 0 < e.total) (ops : List PoolOp)
    (hrecv : ∀ c, PoolOp.cert c ∈ ops → CertOk e c) (st : SlotState) (hm : st ∈ (poolRun { epoch := e } ops).1.slots) :
    (∀ b, lookupD st.sNotar b = stakeOf e (st.notarVoters e.n b)) ∧
    (∀ b, lookupD st.sNf b = stakeOf e (st.nfVoters e.n b)) ∧
    st.sSkip = stakeOf e (st.skipVoters e.n) ∧ st.sSf = stakeOf e (st.sfVoters e.n) ∧
    st.sFin = stakeOf e (st.finVoters e.n) := by
  have i := (pool_slots_ok e hpos ops hrecv st hm).1.1
  exact ⟨i.cNotar, i.cNf, i.cSkip, i.cSf, i.cFin⟩

/-- **Timely.** In every retained slot state of a reachable pool: whenever the counted stake meets a threshold the
    corresponding certificate is held (created in the same operation that crossed it, or received). -/
theorem pool_cert_timely (e : Epoch) (hpos : 0 < e.total) (ops : List PoolOp)
    (hrecv : ∀ c, PoolOp.cert c ∈ ops → CertOk e c) (st : SlotState) (hm : st ∈ (poolRun { epoch := e } ops).1.slots) :
    (∀ b, e.isQuorum (lookupD st.sNotar b) = true → st.cNotar.isSome = true) ∧
    (∀ b, e.isStrong (lookupD st.sNotar b) = true → st.cFf.isSome = true) ∧
    (∀ b, e.isQuorum (lookupD st.sNf b + lookupD st.sNotar b) = true → st.isNf b = true) ∧
    (e.isQuorum (st.sSkip + st.sSf) = true → st.cSkip.isSome = true) ∧
    (e.isQuorum st.sFin = true → st.cFin.isSome = true) := by
  have i := (pool_slots_ok e hpos ops hrecv st hm).1.2
  exact ⟨i.tNotar, i.tFf, i.tNf, i.tSkip, i.tFin⟩

/-- **Valid.** Every certificate held by a reachable pool — created locally or received — is valid at any receiver:
    disjoint, in-range signer lists whose stake meets the threshold of its type. -/
theorem pool_held_certs_valid (e : Epoch) (hpos : 0 < e.total) (ops : List PoolOp)
    (hrecv : ∀ c, PoolOp.cert c ∈ ops → CertOk e c) (st : SlotState) (hm : st ∈ (poolRun { epoch := e } ops).1.slots) :
    ∀ c ∈ st.certs, CertOk e c :=
  (pool_slots_ok e hpos ops hrecv st hm).2

end AgModel.Pool
