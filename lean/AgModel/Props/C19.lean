import AgModel.Gen.Consts
import AgModel.Proofs.Wire
import AgModel.Proofs.Cert
/-!
# C19 — wire format: messages round-trip exactly and fit one datagram

All statements are about `AgModel.Wire`, the byte-level model of the wincode encoding of
`ConsensusMessage` (5 vote kinds, 5 certificate types), `Shred`, `RepairRequest`, `RepairResponse`,
`Transaction` and of `alpenglow::network::deserialize` (`deserialize_exact` with the MTU
preallocation limit). The blst point decoders are an abstract parameter `k : CryptoOk`; every
theorem holds for every `k`. `c.valid m` = "m is representable" (integers in range, hashes 32 bytes,
signatures 96 / 64 bytes accepted by the point decoder, bitmask words exactly covering `num_bits`
≤ 2048 bits, indices below their bounds, vectors within the preallocation limit).
-/
namespace AgModel.Wire
set_option linter.unusedSimpArgs false

/-! ## round trip, trailing bytes, stability — for every message family -/

/-- **Round trip**: every representable consensus message (any vote kind, any certificate type, any
    signer bitmask up to `MAX_SIGNERS` bits) decodes from its encoding to the identical message. -/
theorem consensus_decode_encode (k : CryptoOk) (m : ConsensusMsg) (h : (consensusMsg k).valid m) :
    decodeExact (consensusMsg k) ((consensusMsg k).enc m) = some m := (consensusMsg_lawful k).decode_encode m h
theorem shred_decode_encode (s : ShredW) (h : shred.valid s) : decodeExact shred (shred.enc s) = some s :=
  shred_lawful.decode_encode s h
theorem repairRequest_decode_encode (r : Nat × ReqType) (h : repairRequest.valid r) :
    decodeExact repairRequest (repairRequest.enc r) = some r := repairRequest_lawful.decode_encode r h
theorem repairResponse_decode_encode (r : RepairResponse) (h : repairResponse.valid r) :
    decodeExact repairResponse (repairResponse.enc r) = some r := repairResponse_lawful.decode_encode r h
theorem transaction_decode_encode (t : List Nat) (h : transaction.valid t) :
    decodeExact transaction (transaction.enc t) = some t := transaction_lawful.decode_encode t h

/-- **Trailing bytes are rejected** (`deserialize_exact`). -/
theorem consensus_rejects_trailing (k : CryptoOk) (m : ConsensusMsg) (h : (consensusMsg k).valid m) (t : Bytes) (ht : t ≠ []) :
    decodeExact (consensusMsg k) ((consensusMsg k).enc m ++ t) = none := (consensusMsg_lawful k).rejects_trailing m h t ht
theorem shred_rejects_trailing (s : ShredW) (h : shred.valid s) (t : Bytes) (ht : t ≠ []) :
    decodeExact shred (shred.enc s ++ t) = none := shred_lawful.rejects_trailing s h t ht
theorem repairRequest_rejects_trailing (r : Nat × ReqType) (h : repairRequest.valid r) (t : Bytes) (ht : t ≠ []) :
    decodeExact repairRequest (repairRequest.enc r ++ t) = none := repairRequest_lawful.rejects_trailing r h t ht
theorem repairResponse_rejects_trailing (r : RepairResponse) (h : repairResponse.valid r) (t : Bytes) (ht : t ≠ []) :
    decodeExact repairResponse (repairResponse.enc r ++ t) = none := repairResponse_lawful.rejects_trailing r h t ht
theorem transaction_rejects_trailing (x : List Nat) (h : transaction.valid x) (t : Bytes) (ht : t ≠ []) :
    decodeExact transaction (transaction.enc x ++ t) = none := transaction_lawful.rejects_trailing x h t ht

/-- **Stable re-encoding**: for an *arbitrary* byte string that decodes, the re-encoding decodes to
    the same message - hence encoding it again reproduces the same bytes. (The first re-encoding
    may differ from the input: `read_bitvec` drops bitmask words beyond `num_bits`.) -/
theorem consensus_reencode_stable (k : CryptoOk) (bs : Bytes) (m : ConsensusMsg) (h : decodeExact (consensusMsg k) bs = some m) :
    decodeExact (consensusMsg k) ((consensusMsg k).enc m) = some m := (consensusMsg_lawful k).reencode_stable bs m h
theorem shred_reencode_stable (bs : Bytes) (s : ShredW) (h : decodeExact shred bs = some s) :
    decodeExact shred (shred.enc s) = some s := shred_lawful.reencode_stable bs s h
theorem repairRequest_reencode_stable (bs : Bytes) (r : Nat × ReqType) (h : decodeExact repairRequest bs = some r) :
    decodeExact repairRequest (repairRequest.enc r) = some r := repairRequest_lawful.reencode_stable bs r h
theorem repairResponse_reencode_stable (bs : Bytes) (r : RepairResponse) (h : decodeExact repairResponse bs = some r) :
    decodeExact repairResponse (repairResponse.enc r) = some r := repairResponse_lawful.reencode_stable bs r h
theorem transaction_reencode_stable (bs : Bytes) (t : List Nat) (h : decodeExact transaction bs = some t) :
    decodeExact transaction (transaction.enc t) = some t := transaction_lawful.reencode_stable bs t h

/-! ## out-of-range indices, oversize vectors and bitmasks are rejected -/

/-- A slice index ≥ `MAX_SLICES_PER_BLOCK` (any 8-byte value) is rejected wherever it occurs. -/
theorem sliceIndex_out_of_range (i : Nat) (rest : Bytes) (h : AgModel.Gen.MAX_SLICES_PER_BLOCK ≤ i) (h64 : i < 2 ^ 64) :
    sliceIndex.dec (leBytes 8 i ++ rest) = none := by
  have : u64.dec (leBytes 8 i ++ rest) = some (i, rest) := uint_dec_enc 8 i rest (by simpa using h64)
  simp only [sliceIndex, guard, this, MAX_SLICES]
  have : ¬ i < AgModel.Gen.MAX_SLICES_PER_BLOCK := by omega
  simp [this]

/-- A shred index ≥ `TOTAL_SHREDS` is rejected. -/
theorem shredIndex_out_of_range (i : Nat) (rest : Bytes) (h : AgModel.Gen.TOTAL_SHREDS ≤ i) (h64 : i < 2 ^ 64) :
    shredIndex.dec (leBytes 8 i ++ rest) = none := by
  have : u64.dec (leBytes 8 i ++ rest) = some (i, rest) := uint_dec_enc 8 i rest (by simpa using h64)
  simp only [shredIndex, guard, this, TOTAL_SHREDS]
  have : ¬ i < AgModel.Gen.TOTAL_SHREDS := by omega
  simp [this]

/-- Whatever byte string decodes as a shred, its indices are in range, its data and Merkle path are
    within the preallocation limit, its signature has 64 and every path element 32 bytes. -/
theorem decoded_shred_in_range (bs : Bytes) (s : ShredW) (h : decodeExact shred bs = some s) :
    s.sliceIndex < AgModel.Gen.MAX_SLICES_PER_BLOCK ∧ s.shredIndex < AgModel.Gen.TOTAL_SHREDS ∧
      s.data.length ≤ AgModel.Gen.MTU_BYTES ∧ s.path.length * 32 ≤ AgModel.Gen.MTU_BYTES ∧ s.sliceSig.length = 64 ∧
      ∀ p ∈ s.path, p.length = 32 := by
  unfold decodeExact at h
  split at h
  · rename_i a heq
    simp only [Option.some.injEq] at h; subst h
    have hv := shred_lawful.dv _ _ _ heq
    simp only [shred, iso, pair, shredPayloadType, tagged] at hv
    obtain ⟨⟨⟨c, hc, hval⟩, hsig, hpath⟩, _⟩ := hv
    have hf : shredFields.valid (a.coding, a.slot, a.sliceIndex, a.isLast, a.shredIndex, a.data).2 := by
      by_cases hcod : a.coding = true
      · simp only [hcod, if_true, Option.some.injEq] at hc; subst hc; exact hval.1
      · simp only [hcod, Bool.false_eq_true, if_false, Option.some.injEq] at hc; subst hc; exact hval.1
    simp only [shredFields, pair, sliceIndex, shredIndex, guard, byteVec, vec, MAX_SLICES, TOTAL_SHREDS, MTU] at hf
    simp only [ed25519Sig, blob, hashVec, vec, hash, MTU] at hsig hpath
    refine ⟨of_decide_eq_true hf.2.1.2, of_decide_eq_true hf.2.2.2.1.2, by have := hf.2.2.2.2.1; omega, hpath.1, hsig.1, fun p hp => (hpath.2.2 p hp).1⟩
  · simp at h

/-- Whatever decodes as an aggregate signature has a bitmask of `num_bits ≤ 2048` bits held in exactly
    `⌈num_bits/64⌉` words (dead words dropped). -/
theorem decoded_agg_bounded (k : CryptoOk) (bs : Bytes) (a : AggW) (rest : Bytes) (h : (agg k).dec bs = some (a, rest)) :
    a.words.length = wordsFor a.numBits ∧ a.numBits ≤ AgModel.Gen.MAX_SIGNERS ∧ a.sig.length = 96 := by
  have hv := (agg_lawful k).dv _ _ _ h
  simp only [agg, aggRaw, pair, guard, blob, MAX_SIGNERS] at hv
  obtain ⟨⟨⟨⟨hs, _⟩, _⟩, _⟩, hw, hmax⟩ := hv
  refine ⟨hw, ?_, hs⟩
  have : wordsFor AgModel.Gen.MAX_SIGNERS = 32 := by decide
  rw [hw, this] at hmax
  have h2 : AgModel.Gen.MAX_SIGNERS = 2048 := by decide
  unfold wordsFor at hmax; omega

/-- The decoded bitmask is the one `read_bitvec` (as modelled for C09) computes from the raw words:
    dropping the dead words does not change a live bit. -/
theorem agg_bits_eq_readBitvec (nb : Nat) (ws : List Nat) (h1 : ¬ ws.length > (AgModel.Gen.MAX_SIGNERS + 63) / 64)
    (h2 : ¬ nb > 64 * ws.length) :
    AgModel.Cert.readBitvec AgModel.Gen.MAX_SIGNERS nb ws = some ((⟨[], nb, ws.take (wordsFor nb)⟩ : AggW).bits) := by
  unfold AgModel.Cert.readBitvec AggW.bits
  rw [if_neg h1, if_neg h2]
  congr 1
  -- bits of the kept words, cut at nb, equal bits of all words cut at nb
  have hsplit : ws = ws.take (wordsFor nb) ++ ws.drop (wordsFor nb) := (List.take_append_drop _ _).symm
  have hb : AgModel.Cert.bitsOfWords ws =
      AgModel.Cert.bitsOfWords (ws.take (wordsFor nb)) ++ AgModel.Cert.bitsOfWords (ws.drop (wordsFor nb)) := by
    unfold AgModel.Cert.bitsOfWords
    rw [← List.flatMap_append, List.take_append_drop]
  rw [hb]
  have hl : (AgModel.Cert.bitsOfWords (ws.take (wordsFor nb))).length = 64 * wordsFor nb := by
    rw [AgModel.Cert.bitsOfWords_length, List.length_take]
    have := wordsFor_le nb ws.length (by omega)
    omega
  rw [List.take_append_of_le_length (by rw [hl]; unfold wordsFor; omega)]

/-! ## one datagram -/

/-- lengths that determine the encoded size of an aggregate: 96 signature bytes, at most 32 words -/
def AggW.sized (a : AggW) : Prop := a.sig.length = 96 ∧ a.words.length ≤ 32

def optSized : Option AggW → Prop
  | none => True
  | some a => a.sized

def CertW.sized : CertW → Prop
  | .notar _ h a _ | .fastFinal _ h a _ => h.length = 32 ∧ a.sized
  | .notarFallback _ h a1 a2 _ => h.length = 32 ∧ optSized a1 ∧ optSized a2
  | .skip _ a1 a2 _ => optSized a1 ∧ optSized a2
  | .final _ a _ => a.sized

/-- A decoded / representable certificate has these lengths (so the bound below covers every
    certificate with up to `MAX_SIGNERS = 2048` bitmask bits, whatever the signer subset). -/
theorem agg_valid_sized (k : CryptoOk) (a : AggW) (h : (agg k).valid a) : a.sized := by
  simp only [agg, aggRaw, pair, guard, blob, MAX_SIGNERS] at h
  obtain ⟨⟨⟨⟨hs, _⟩, _⟩, _⟩, _, hmax⟩ := h
  have : wordsFor AgModel.Gen.MAX_SIGNERS = 32 := by decide
  exact ⟨hs, by omega⟩

/-- **Every certificate fits one datagram**: at most 794 bytes (two full 2048-bit halves). -/
theorem cert_fits_datagram (k : CryptoOk) (c : CertW) (h : c.sized) :
    ((consensusMsg k).enc (.cert c)).length ≤ 794 ∧ 794 ≤ AgModel.Gen.MTU_BYTES := by
  refine ⟨?_, by decide⟩
  cases c with
  | notar s hh a st =>
    obtain ⟨h1, h2, h3⟩ := h
    simp only [consensusMsg, tagged, ConsensusMsg.tag, iso, cert, CertW.tag, pair, slot, hash, blob, u64, uint,
      List.length_append, leBytes_length, List.length_map, agg_enc_length]
    omega
  | fastFinal s hh a st =>
    obtain ⟨h1, h2, h3⟩ := h
    simp only [consensusMsg, tagged, ConsensusMsg.tag, iso, cert, CertW.tag, pair, slot, hash, blob, u64, uint,
      List.length_append, leBytes_length, List.length_map, agg_enc_length]
    omega
  | final s a st =>
    obtain ⟨h2, h3⟩ := h
    simp only [consensusMsg, tagged, ConsensusMsg.tag, iso, cert, CertW.tag, pair, slot, hash, blob, u64, uint,
      List.length_append, leBytes_length, List.length_map, agg_enc_length]
    omega
  | notarFallback s hh a1 a2 st =>
    obtain ⟨h1, h2, h3⟩ := h
    cases a1 <;> cases a2 <;> simp only [optSized, AggW.sized] at h2 h3 <;>
    simp only [consensusMsg, tagged, ConsensusMsg.tag, iso, cert, CertW.tag, pair, slot, hash, blob, u64, uint,
      List.length_append, leBytes_length, List.length_map, opt_agg_enc_length] <;> omega
  | skip s a1 a2 st =>
    obtain ⟨h2, h3⟩ := h
    cases a1 <;> cases a2 <;> simp only [optSized, AggW.sized] at h2 h3 <;>
    simp only [consensusMsg, tagged, ConsensusMsg.tag, iso, cert, CertW.tag, pair, slot, hash, blob, u64, uint,
      List.length_append, leBytes_length, List.length_map, opt_agg_enc_length] <;> omega

/-- **Every vote is exactly 152 (with block hash) or 120 bytes.** -/
theorem vote_size (k : CryptoOk) (v : VoteW) (h : (vote k).valid v) :
    ((consensusMsg k).enc (.vote v)).length = match v with
      | .notar .. | .notarFallback .. => 152
      | _ => 120 := by
  obtain ⟨c, hc, hval⟩ := h
  cases v <;>
    simp only [VoteW.tag, Option.some.injEq] at hc <;> subst hc <;>
    simp only [iso, hashedVote, plainVote, pair, hash, indSig, guard, blob, slot, u64, uint] at hval <;>
    simp only [consensusMsg, tagged, ConsensusMsg.tag, iso, vote, VoteW.tag, pair, slot, hash, blob, u64, uint, indSig, guard,
      hashedVote, plainVote, List.length_append, leBytes_length, List.length_map] <;>
    omega

/-- **Every shred a shredder produces fits one datagram**, also inside a repair response: with at
    most `MAX_DATA_PER_SHRED` payload bytes and a Merkle path of at most 6 = log2 `TOTAL_SHREDS`
    hashes a shred is at most 1325 bytes, the repair response carrying it at most 1389. -/
theorem shred_fits_datagram (s : ShredW) (hd : s.data.length ≤ AgModel.Gen.MAX_DATA_PER_SHRED) (hp : s.path.length ≤ 6)
    (hs : s.sliceSig.length = 64) (hh : ∀ p ∈ s.path, p.length = 32) :
    (shred.enc s).length ≤ 1325 ∧ 1325 + 64 ≤ AgModel.Gen.MTU_BYTES := by
  refine ⟨?_, by decide⟩
  have hmd : AgModel.Gen.MAX_DATA_PER_SHRED = 1024 := by decide
  have e1 := encAll_uint_length 1 s.data
  have e2 := encAll_hash_length s.path hh
  simp only [uint] at e1
  cases hc : s.coding <;>
    simp only [shred, iso, pair, shredPayloadType, tagged, hc, shredFields, slot, sliceIndex, shredIndex, guard, bool,
      byteVec, hashVec, vec, ed25519Sig, blob, u64, uint, List.length_append, leBytes_length, List.length_map,
      List.length_cons, List.length_nil, if_true, Bool.false_eq_true, if_false] <;>
    omega

/-- A transaction of at most `MAX_TRANSACTION_SIZE` bytes encodes to at most 520 bytes. -/
theorem transaction_fits_datagram (t : List Nat) (h : t.length ≤ AgModel.Gen.MAX_TRANSACTION_SIZE) :
    (transaction.enc t).length ≤ 520 ∧ 520 ≤ AgModel.Gen.MTU_BYTES := by
  refine ⟨?_, by decide⟩
  have hm : AgModel.Gen.MAX_TRANSACTION_SIZE = 512 := by decide
  have e1 := encAll_uint_length 1 t
  simp only [transaction, byteVec, vec, List.length_append, leBytes_length, e1]
  omega

def ReqType.hashLen : ReqType → Nat
  | .lastSliceRoot _ h | .sliceRoot _ h _ | .shred _ h _ _ => h.length

theorem reqType_size (r : ReqType) (h : r.hashLen = 32) : (reqType.enc r).length ≤ 60 := by
  cases r <;> simp only [ReqType.hashLen] at h <;>
    simp only [reqType, tagged, ReqType.tag, iso, pair, slot, hash, blob, sliceIndex, shredIndex, guard, u64, uint,
      List.length_append, leBytes_length, List.length_map] <;> omega

/-- **Every repair response fits one datagram**: a response carrying a shred is at most 64 bytes
    longer than the shred (≤ 1389 with `shred_fits_datagram`); a root response with a Merkle proof of
    at most 10 = log2 `MAX_SLICES_PER_BLOCK` hashes is at most 432 bytes; a nack at most 64. -/
theorem repairResponse_fits_datagram (r : RepairResponse) :
    match r with
    | .shred q s => q.hashLen = 32 → (repairResponse.enc r).length ≤ 64 + (shred.enc s).length
    | .lastSliceRoot q _ root pr => q.hashLen = 32 → root.length = 32 → pr.length ≤ 10 → (∀ p ∈ pr, p.length = 32) →
        (repairResponse.enc r).length ≤ 432
    | .sliceRoot q root pr => q.hashLen = 32 → root.length = 32 → pr.length ≤ 10 → (∀ p ∈ pr, p.length = 32) →
        (repairResponse.enc r).length ≤ 432
    | .nack q => q.hashLen = 32 → (repairResponse.enc r).length ≤ 64 := by
  cases r with
  | shred q s =>
    intro hq
    have := reqType_size q hq
    simp only [repairResponse, tagged, RepairResponse.tag, iso, pair, List.length_append, leBytes_length]
    omega
  | nack q =>
    intro hq
    have := reqType_size q hq
    simp only [repairResponse, tagged, RepairResponse.tag, iso, List.length_append, leBytes_length]
    omega
  | lastSliceRoot q i root pr =>
    intro hq hr hp hh
    have := reqType_size q hq
    have e2 := encAll_hash_length pr hh
    simp only [repairResponse, tagged, RepairResponse.tag, iso, pair, sliceIndex, guard, u64, uint, hashVec, vec,
      List.length_append, leBytes_length]
    have : (hash.enc root).length = 32 := by simp [hash, blob, hr]
    omega
  | sliceRoot q root pr =>
    intro hq hr hp hh
    have := reqType_size q hq
    have e2 := encAll_hash_length pr hh
    simp only [repairResponse, tagged, RepairResponse.tag, iso, pair, hashVec, vec, List.length_append, leBytes_length]
    have : (hash.enc root).length = 32 := by simp [hash, blob, hr]
    omega

/-- A repair request is at most 68 bytes. -/
theorem repairRequest_fits_datagram (r : Nat × ReqType) (h : r.2.hashLen = 32) : (repairRequest.enc r).length ≤ 68 := by
  have := reqType_size r.2 h
  simp only [repairRequest, pair, u64, uint, List.length_append, leBytes_length]
  omega

/-! ## the signed bytes determine the payload (used by C09) -/

/-- `VotePayload` serialisation is injective: two payloads with the same bytes-to-sign have the same
    kind, slot and block hash. -/
theorem encodePayload_injective (p q : PayloadW) (hp : payload.valid p) (hq : payload.valid q)
    (h : bytesToSign p = bytesToSign q) : p = q := payload_lawful.enc_injective p q hp hq h

/-! ## non-vacuity -/

/-- a concrete certificate with a 5-bit bitmask is representable, encodes to 176 bytes and
    round-trips; a transaction with a trailing byte is rejected; a word beyond `num_bits` is dropped
    by decoding and the re-encoding is stable. -/
example :
    let k : CryptoOk := ⟨fun _ => true, fun _ => true⟩
    let a : AggW := ⟨List.replicate 96 7, 5, [0b10110]⟩
    let m : ConsensusMsg := .cert (.notar 9 (List.replicate 32 1) a 6)
    ((consensusMsg k).enc m).length = 176 ∧
    decodeExact (consensusMsg k) ((consensusMsg k).enc m) = some m ∧
    decodeExact transaction [2, 0, 0, 0, 0, 0, 0, 0, 10, 11] = some [10, 11] ∧
    decodeExact transaction [2, 0, 0, 0, 0, 0, 0, 0, 10, 11, 12] = none ∧
    (agg k).dec (List.replicate 96 7 ++ leBytes 8 5 ++ leBytes 8 2 ++ leBytes 8 22 ++ leBytes 8 99) = some (a, []) := by
  decide +kernel

end AgModel.Wire
