import AgModel.Spec.Protocol
/-!
# C02 — Progress once the network is timely (the logical part)

Timing lives in the runtime (tokio timers, task scheduling, UDP) and cannot be exhibited by a theorem;
what *can* be stated is that nothing in the voting logic is stuck: whenever the responsive correct
validators have all cast their initial vote in a slot and see each other's votes, the stake figures in
every one of their pools force the fallback votes that complete a certificate. The event-level halves
("the condition holding in the pool produces the event in the same step", "the event makes Votor cast
the vote") are C06 / C05 / C03 / C07; the timed composition is explored on the real `Pool` + `Votor`
pairs by `harness/src/bin/cluster.rs --timed` (see cfg/C02.json).

`R` is the set of responsive correct validators, `n b` = "notarized `b`", `sk` = "skipped".
-/
namespace AgModel.Spec

open Classical

variable {V Block : Type} [Fintype V] (stake : V → ℕ)

/-- **≥ 80 % responsive: no slot is stuck, whatever the leader did.** If every responsive validator cast one
    initial vote, then either some block has ≥ 40 % of the stake among them (safe-to-notar's stake clause holds
    in each of their pools, so all of them end up in notar ∪ notar-fallback of that block), or for *every*
    block `c` the responsive stake outside `c` is ≥ 40 % (safe-to-skip's stake clause holds for every
    validator that notarized, whatever block is the most voted one in its pool). -/
theorem stake_clause_dichotomy_80 (R sk : V → Prop) (n : Block → V → Prop)
    (hvote : ∀ v, R v → sk v ∨ ∃ b, n b v)
    (h80 : Strong (w stake R) (total stake)) :
    (∃ b, Weak (w stake (fun v => R v ∧ n b v)) (total stake)) ∨
    (∀ c, Weak (w stake (fun v => R v ∧ ¬ n c v)) (total stake)) := by
  by_cases h : ∃ b, Weak (w stake (fun v => R v ∧ n b v)) (total stake)
  · exact Or.inl h
  · right
    intro c
    have hc : ¬ Weak (w stake (fun v => R v ∧ n c v)) (total stake) := fun hw => h ⟨c, hw⟩
    rw [Weak_iff] at hc ⊢
    rw [Strong_iff] at h80
    have hsplit := w_or_add_and stake (fun v => R v ∧ n c v) (fun v => R v ∧ ¬ n c v)
    have h1 : w stake R ≤ w stake (fun v => (R v ∧ n c v) ∨ (R v ∧ ¬ n c v)) := by
      apply w_mono; intro v hv
      by_cases hn : n c v
      · exact Or.inl ⟨hv, hn⟩
      · exact Or.inr ⟨hv, hn⟩
    omega

/-- once every responsive validator is in notar(b) ∪ notar-fallback(b), the notar-fallback certificate exists -/
theorem nf_cert_of_all_responsive (R : V → Prop) (nb nfb : V → Prop)
    (hall : ∀ v, R v → nb v ∨ nfb v) (h60 : Q (w stake R) (total stake)) :
    Q (w stake (fun v => nb v ∨ nfb v)) (total stake) := by
  rw [Q_iff] at h60 ⊢
  have := w_mono stake hall
  omega

/-- once every responsive validator is in skip ∪ skip-fallback, the skip certificate exists -/
theorem skip_cert_of_all_responsive (R : V → Prop) (sk sf : V → Prop)
    (hall : ∀ v, R v → sk v ∨ sf v) (h60 : Q (w stake R) (total stake)) :
    Q (w stake (fun v => sk v ∨ sf v)) (total stake) := by
  rw [Q_iff] at h60 ⊢
  have := w_mono stake hall
  omega

/-- **> 60 % responsive, at most one block voted (correct or crashed/silent leader).** One of the three
    conditions holds: ≥ 40 % notarized the block, ≥ 40 % skipped, or ≥ 20 % notarized it and notar + skip ≥ 60 %
    (the second clause of safe-to-notar). -/
theorem no_stuck_60_single_block (R sk nb : V → Prop)
    (hvote : ∀ v, R v → sk v ∨ nb v)
    (h60 : Q (w stake R) (total stake)) :
    Weak (w stake (fun v => R v ∧ nb v)) (total stake) ∨ Weak (w stake (fun v => R v ∧ sk v)) (total stake) ∨
    (Weakest (w stake (fun v => R v ∧ nb v)) (total stake) ∧
      Q (w stake (fun v => (R v ∧ nb v) ∨ (R v ∧ sk v))) (total stake)) := by
  rw [Q_iff] at h60
  rw [Weak_iff, Weak_iff, Weakest_iff, Q_iff]
  have h1 : w stake R ≤ w stake (fun v => (R v ∧ nb v) ∨ (R v ∧ sk v)) := by
    apply w_mono; intro v hv
    rcases hvote v hv with h | h
    · exact Or.inr ⟨hv, h⟩
    · exact Or.inl ⟨hv, h⟩
  have h2 := w_or_le stake (fun v => R v ∧ nb v) (fun v => R v ∧ sk v)
  omega

/-- **Fast path**: ≥ 80 % notarization stake for one block is a fast-finalization certificate (one round). -/
theorem fast_path (nb : V → Prop) (h : Strong (w stake nb) (total stake)) :
    Strong (w stake nb) (total stake) ∧ Q (w stake nb) (total stake) := by
  refine ⟨h, ?_⟩
  rw [Strong_iff] at h; rw [Q_iff]; omega

/-- the 60 % bound does not extend to equivocating leaders: 39 % / 21 % split, 40 % silent — none of the
    conditions holds (the statement of C02 does not claim progress there) -/
theorem stuck_60_equivocation_counterexample :
    let T := 100; let x := 39; let z := 21; let y := 0
    5 * (x + y + z) ≥ 3 * T ∧ ¬ (5 * x ≥ 2 * T) ∧ ¬ (5 * (y + z) ≥ 2 * T) ∧
    ¬ (5 * z ≥ 2 * T) ∧ ¬ (5 * x ≥ T ∧ 5 * (x + y) ≥ 3 * T) ∧ ¬ (5 * z ≥ T ∧ 5 * (z + y) ≥ 3 * T ∧ 5 * z ≥ 2 * T) := by decide

end AgModel.Spec
