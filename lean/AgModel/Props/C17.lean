import AgModel.Gen.Consts
import AgModel.Proofs.Sampler
import AgModel.Proofs.SamplerPart
/-!
# C17 — committee sampling yields a well-formed, stake-respecting committee

Statements about `AgModel.Sampler` (exact-arithmetic model of `rotor/sampling_strategy.rs`; FA1 seats
as repaired by fix D18).  The random source is a parameter: a theorem about "every draw" is a theorem
about every committee satisfying the strategy's validity predicate (`fa1wValid`, `fa1pValid`,
`fa2Valid`, `iidValid`, `decayValid`, `binsValid`) — the predicates the driver evaluates on every
committee the real samplers return.  All theorems hold for every validator count, every stake
distribution with positive total, every committee size `k ≥ 1`.

Not theorems (f64 / `rand` are outside the model; decided by the differential run, level
translation_validation): that the real constructors compute this structure (compared on every case),
that a draw is a function of the validator set and the RNG only (two constructions, same seed), that
FA2's f64 `round`/fallback weights behave like the exact ones away from x.5 boundaries.

`partition` is `PartitionSampler::new` *as repaired* (fix D8: bins of exactly `total` units, every
validator contributing `stake · num_bins` units): it can be constructed for every validator set with
positive total stake (`partition_total`).  The pinned snapshot's algorithm is kept as `partitionOld`
with decided witnesses of its panic (`partition_d8_witness`, `partition_d8_witness_rotor`); that
`partitionOld w order b = none ↔ partitionDegenerate w b` for every order was compared on every
generated case before the repair, never proved, and is no longer of interest.
-/
namespace AgModel.Sampler

/-! ## FA1: seat allocation -/

/-- **No `Stake` underflow.** The stake removed for the pre-allocated seats never exceeds the stake
    (`v.stake -= …` cannot panic), for every stake, total and `k ≥ 1`. -/
theorem fa1_cut_le (T k s : Nat) (hk : 0 < k) : cut T k s ≤ s := cut_le T k s hk

/-- **Seats never exceed `k`** (`k as usize - required_samples.len()` cannot underflow). -/
theorem fa1_seats_sum_le_k (stakes : List Nat) (k : Nat) (hT : 0 < total stakes) :
    (required stakes k).length ≤ k := required_length_le stakes k hT

/-- **The FA1 pre-processing is total**: for positive total stake and `k ≥ 1` it returns the
    required samples and `k' = k − #required` (no panic), so required + fallback seats = `k`. -/
theorem fa1_constructs (stakes : List Nat) (k : Nat) (hk : 0 < k) (hT : 0 < total stakes) :
    ∃ f, fa1 stakes k = some f ∧ f.req = required stakes k ∧ f.req.length + f.kPrime = k ∧
      f.weights.length = stakes.length :=
  fa1_some stakes k hk hT

/-- **Deterministic seats.** Validator `v` occurs exactly `floor(stake_v · k / total)` times among the
    required samples, and only members of the set occur. -/
theorem fa1_required_count (stakes : List Nat) (k v : Nat) (hv : v < stakes.length) :
    (required stakes k).count v = stakes.getD v 0 * k / total stakes := required_count stakes k v hv

theorem fa1_required_members (stakes : List Nat) (k v : Nat) (h : v ∈ required stakes k) :
    v < stakes.length := required_mem_lt stakes k v h

/-- **Floor guarantee.** Any committee that starts with the required samples gives every validator at
    least `floor(f·k)` seats. -/
theorem fa1_floor_guarantee (stakes : List Nat) (k : Nat) (c : List Nat)
    (hp : c.take (required stakes k).length = required stakes k) (v : Nat) (hv : v < stakes.length) :
    stakes.getD v 0 * k / total stakes ≤ c.count v := by
  have := floor_of_prefix stakes k c hp
  unfold floorGuarantee at this
  simp only [List.all_eq_true, List.mem_range, decide_eq_true_eq] at this
  exact this v hv

/-- **FA1 with IID stake-weighted fallback: every draw is well formed.**  Exactly `k` members of the
    set, the floor guarantee for every validator, and every fallback seat goes to a validator of
    non-zero fallback weight. -/
theorem fa1w_committee (stakes : List Nat) (k : Nat) (c : List Nat) (hk : 0 < k) (hT : 0 < total stakes)
    (h : fa1wValid stakes k c = true) :
    c.length = k ∧ (∀ v ∈ c, v < stakes.length) ∧ floorGuarantee stakes k c = true := by
  obtain ⟨f, hf, hreq, hsum, hwlen⟩ := fa1_constructs stakes k hk hT
  unfold fa1wValid at h
  simp only [hf, Bool.and_eq_true, beq_iff_eq] at h
  obtain ⟨hpre, hiid⟩ := h
  have ⟨hlen, hmem⟩ := iidValid_spec f.weights f.kPrime _ hiid
  refine ⟨?_, ?_, ?_⟩
  · rw [length_of_take_drop c f.req f.kPrime hpre hlen]; exact hsum
  · intro v hv
    rcases mem_of_take_drop c f.req.length v hv with h1 | h1
    · rw [hpre, hreq] at h1; exact required_mem_lt stakes k v h1
    · rw [← hwlen]; exact (hmem v h1).1
  · exact floor_of_prefix stakes k c (by rw [← hreq]; exact hpre)

/-! ## PartitionSampler (as repaired, fix D8) -/

/-- **The partition sampler can always be constructed** — for every stake vector with positive
    total, every number of bins `≥ 1` and every order listing the validators of non-zero stake once
    (the fixed-seed shuffle): no panic, exactly `num_bins` bins, none empty (every
    `WeightedIndex::new` succeeds), **every bin holds exactly `total` units** (= `total/num_bins`
    stake), every entry has positive weight and names a validator of the set, and **every validator's
    units are conserved** (its weights over all bins sum to `stake · num_bins`, so its share of the
    bins is proportional to its stake). -/
theorem partition_total (weights order : List Nat) (numBins : Nat) (hB : 0 < numBins)
    (hT : 0 < total weights) (hord : orderOk weights order = true) :
    ∃ bins, partition weights order numBins = some bins ∧ bins.length = numBins ∧
      (∀ b ∈ bins, b ≠ [] ∧ binSum b = total weights ∧ ∀ e ∈ b, 0 < e.2 ∧ e.1 < weights.length) ∧
      ∀ v, v < weights.length → (bins.map (unitsIn v)).sum = weights.getD v 0 * numBins :=
  partition_spec weights order numBins hB hT hord

/-- **Structure of a constructed partition sampler** (any order): exactly `num_bins` bins, none
    empty, and a draw has exactly one validator per bin. -/
theorem partition_bins (weights order : List Nat) (numBins : Nat) (bins : List (List (Nat × Nat)))
    (h : partition weights order numBins = some bins) :
    bins.length = numBins ∧ (∀ b ∈ bins, b ≠ []) ∧ ∀ c, binsValid bins c = true → c.length = numBins := by
  have hl := partition_length weights order numBins bins h
  exact ⟨hl, partition_nonempty weights order numBins bins h, fun c hc => by rw [binsValid_length bins c hc, hl]⟩

/-- **Every draw of the partition sampler is well formed**: exactly `num_bins` members (one per
    bin), each a validator of the set with non-zero stake. -/
theorem partition_draw (weights order : List Nat) (numBins : Nat) (bins : List (List (Nat × Nat)))
    (c : List Nat) (hT : 0 < total weights) (hord : orderOk weights order = true)
    (h : partition weights order numBins = some bins) (hc : binsValid bins c = true) :
    c.length = numBins ∧ ∀ v ∈ c, v < weights.length ∧ 0 < weights.getD v 0 := by
  refine ⟨(partition_bins weights order numBins bins h).2.2 c hc, ?_⟩
  intro v hv
  obtain ⟨b, hb, e, he, he1, he2⟩ := binsValid_mem bins c hc v hv
  by_cases hB : numBins = 0
  · subst hB
    have : bins = [] := by simpa [partition] using h.symm
    subst this
    simp at hb
  · obtain ⟨bins', hp, _, hall, hcons⟩ := partition_total weights order numBins (by omega) hT hord
    have : bins' = bins := by rw [hp] at h; injection h
    subst this
    have hlt : v < weights.length := by rw [← he1]; exact ((hall b hb).2.2 e he).2
    refine ⟨hlt, ?_⟩
    have h1 := unitsIn_pos v b e he he1 he2
    have h2 := le_sum_of_mem _ _ (List.mem_map_of_mem (f := unitsIn v) hb)
    have h3 := hcons v hlt
    rcases Nat.eq_zero_or_pos (weights.getD v 0) with h0 | h0
    · rw [h0, Nat.zero_mul] at h3; omega
    · exact h0

/-- **FA1 with partition fallback can always be constructed** (the D8 panic is gone): for positive
    total stake, `k ≥ 1` and a shuffle of the fallback validators, FA1 pre-processing and the
    partition of its fallback weights into `k'` bins both succeed. -/
theorem fa1p_constructs (stakes : List Nat) (k : Nat) (order : List Nat) (hk : 0 < k)
    (hT : 0 < total stakes) (hord : ∀ f, fa1 stakes k = some f → orderOk f.weights order = true) :
    ∃ f bins, fa1 stakes k = some f ∧ partition f.weights order f.kPrime = some bins ∧
      bins.length = f.kPrime ∧ f.req.length + f.kPrime = k := by
  obtain ⟨f, hf, _, hsum, _⟩ := fa1_constructs stakes k hk hT
  by_cases h0 : f.kPrime = 0
  · exact ⟨f, [], hf, by simp [partition, h0], by simp [h0], hsum⟩
  · obtain ⟨bins, hp, hl, _⟩ := partition_total f.weights order f.kPrime (by omega)
      (fa1_weights_pos stakes k f hT hf) (hord f hf)
    exact ⟨f, bins, hf, hp, hl, hsum⟩

/-- **FA1 with partition fallback: every draw is well formed** (full strength since fix D8; before,
    only `_partial`).  Exactly `k` members of the validator set, the floor guarantee for every
    validator. -/
theorem fa1p_committee (stakes : List Nat) (k : Nat) (order c : List Nat) (hk : 0 < k)
    (hT : 0 < total stakes) (hord : ∀ f, fa1 stakes k = some f → orderOk f.weights order = true)
    (h : fa1pValid stakes k order c = true) :
    c.length = k ∧ (∀ v ∈ c, v < stakes.length) ∧ floorGuarantee stakes k c = true := by
  obtain ⟨f, hf, hreq, hsum, hwlen⟩ := fa1_constructs stakes k hk hT
  unfold fa1pValid at h
  simp only [hf, Bool.and_eq_true, beq_iff_eq] at h
  obtain ⟨hpre, hbins⟩ := h
  cases hp : partition f.weights order f.kPrime with
  | none => simp [hp] at hbins
  | some bins =>
    simp only [hp] at hbins
    have hd := partition_draw f.weights order f.kPrime bins _ (fa1_weights_pos stakes k f hT hf)
      (hord f hf) hp hbins
    refine ⟨by rw [length_of_take_drop c f.req f.kPrime hpre hd.1]; exact hsum, ?_,
      floor_of_prefix stakes k c (by rw [← hreq]; exact hpre)⟩
    intro v hv
    rcases mem_of_take_drop c f.req.length v hv with h1 | h1
    · rw [hpre, hreq] at h1; exact required_mem_lt stakes k v h1
    · rw [← hwlen]; exact (hd.2 v h1).1

/-- D8 witnesses on the pinned snapshot's algorithm (`partitionOld`): 6 equal stakes do not fill 4
    bins; `Rotor::new_fa1` on 100 equal stakes (k = 64) hits the degenerate condition. -/
theorem partition_d8_witness : partitionOld [1, 1, 1, 1, 1, 1] [0, 1, 2, 3, 4, 5] 4 = none := by decide

theorem partition_d8_witness_rotor :
    (fa1 (List.replicate 100 1) 64).map (fun f => (f.kPrime, partitionDegenerate f.weights f.kPrime)) = some (64, true) := by
  decide +kernel

/-- … and the same inputs on the repaired algorithm: four bins of 6 units each. -/
theorem partition_d8_fixed :
    partition [1, 1, 1, 1, 1, 1] [0, 1, 2, 3, 4, 5] 4 =
      some [[(0, 4), (1, 2)], [(1, 2), (2, 4)], [(3, 4), (4, 2)], [(4, 2), (5, 4)]] := by decide

theorem partition_d8_fixed_rotor :
    ((fa1 (List.replicate 100 1) 64).bind (fun f => partition f.weights (List.range 100) f.kPrime)).map (·.length) = some 64 := by
  decide +kernel

/-! ## FA2 -/

/-- The FA2 constructor panics exactly when the half-up rounded seats exceed `k` (D9). -/
theorem fa2_panics_iff (stakes : List Nat) (k : Nat) (hk : 0 < k) (hT : 0 < total stakes) :
    fa2 stakes k = none ↔ k < (stakes.map (roundSeats (total stakes) k)).sum := by
  have hne : stakes ≠ [] := by intro h; subst h; simp [total] at hT
  have h1 : ¬ (k = 0 ∨ total stakes = 0) := by omega
  unfold fa2
  simp only [hne, h1, if_false]
  split <;> simp_all

/-- D9 witness: 128 equal stakes, k = 64 — every `0.5` rounds up, the assertion fails. -/
theorem fa2_d9_witness : fa2 (List.replicate 128 1) 64 = none := by decide +kernel

/-- **Every FA2 draw is well formed**: `k` members, floor guarantee. -/
theorem fa2_committee (stakes : List Nat) (k : Nat) (c : List Nat) (h : fa2Valid stakes k c = true) :
    c.length = k ∧ (∀ v ∈ c, v < stakes.length) ∧ floorGuarantee stakes k c = true := by
  unfold fa2Valid at h
  simp only [Bool.and_eq_true, beq_iff_eq, List.all_eq_true, decide_eq_true_eq] at h
  exact ⟨h.1.1, h.2, floor_of_prefix stakes k c h.1.2⟩

/-- The required samples FA2 starts from are the FA1 ones. -/
theorem fa2_required (stakes : List Nat) (k : Nat) (req med : List Nat) (hT : 0 < total stakes)
    (h : fa2 stakes k = some (req, med)) : req = required stakes k := fa2_some_req stakes k req med hT h

/-! ## IID strategies, zero weights, decaying acceptance -/

/-- **Exact size, membership, zero weight never drawn** for the IID stake-weighted strategy. -/
theorem iid_committee (weights : List Nat) (k : Nat) (c : List Nat) (h : iidValid weights k c = true) :
    c.length = k ∧ ∀ v ∈ c, v < weights.length ∧ 0 < weights.getD v 0 := iidValid_spec weights k c h

theorem uniform_committee (n k : Nat) (c : List Nat) (h : uniformValid n k c = true) :
    c.length = k ∧ ∀ v ∈ c, v < n := by
  unfold uniformValid at h
  simp only [Bool.and_eq_true, beq_iff_eq, List.all_eq_true, decide_eq_true_eq] at h
  exact h

/-- **Seat cap of the decaying-acceptance sampler.**  Whatever the random source does, a committee
    accepted by the rule `random() ≥ count/max_samples` from fresh counters never contains a validator
    more than `ceil(max_samples)` times; it has `k` members of non-zero weight. -/
theorem decay_cap (weights : List Nat) (num den k : Nat) (c : List Nat) (hden : 0 < den)
    (h : decayValid weights num den k c = true) :
    c.length = k ∧ (∀ v ∈ c, v < weights.length ∧ 0 < weights.getD v 0) ∧ ∀ v, c.count v ≤ capOf num den := by
  unfold decayValid at h
  simp only [Bool.and_eq_true] at h
  have ⟨hl, hm⟩ := iidValid_spec weights k c h.1
  refine ⟨hl, hm, ?_⟩
  cases hr : decayReplay num den (List.replicate weights.length 0) c with
  | none => simp [hr] at h
  | some counts' =>
    have hz : ∀ w, (List.replicate weights.length 0).getD w 0 = 0 := by
      intro w; simp [List.getD_eq_getElem?_getD, List.getElem?_replicate]; split <;> simp
    have ⟨r1, r2⟩ := decayReplay_spec num den hden c _ counts' hr
      (fun v hv => by simpa using (hm v hv).1) (fun w => by rw [hz w]; exact Nat.zero_le _)
    intro v
    have := r2 v
    rw [hz v] at this
    have := r1 v
    omega

/-! ## Non-vacuity -/

example : fa1 [52, 52, 1, 1, 1, 1, 1, 1] 8 = some ⟨[0, 0, 0, 1, 1, 1], 2, false, [11, 11, 1, 1, 1, 1, 1, 1]⟩ := by decide
example : fa1wValid [52, 52, 1, 1, 1, 1, 1, 1] 8 [0, 0, 0, 1, 1, 1, 5, 0] = true := by decide
example : partition [1, 1, 1, 1] [2, 0, 3, 1] 2 = some [[(2, 2), (0, 2)], [(3, 2), (1, 2)]] := by decide
example : orderOk [3, 0, 1, 1] [2, 0, 3] = true ∧ partition [3, 0, 1, 1] [2, 0, 3] 3 = some [[(2, 3), (0, 2)], [(0, 5)], [(0, 2), (3, 3)]] := by decide
example : fa1pValid [3, 1, 1, 1, 1, 1] 4 [4, 0, 2, 5, 1, 3] [0, 4, 2, 1] = true := by decide
example : decayValid [5, 1, 1] 3 2 4 [0, 0, 1, 2] = true ∧ decayValid [5, 1, 1] 3 2 4 [0, 0, 0, 2] = false := by decide
example : fa2 [3, 1] 4 = some ([0, 0, 0, 1], []) := by decide

end AgModel.Sampler
