import AgModel.Model.Sampler
namespace AgModel.Sampler
theorem placeholder : seats 1 1 1 = 1 := by decide
end AgModel.Sampler
