import AgModel.Gen.Consts
import AgModel.Proofs.Sampler
/-!
# C17 — committee sampling yields a well-formed, stake-respecting committee

Statements about `AgModel.Sampler` (exact-arithmetic model of `rotor/sampling_strategy.rs`; FA1 seats
as repaired by fix D18).  The random source is a parameter: a theorem about "every draw" is a theorem
about every committee satisfying the strategy's validity predicate (`fa1wValid`, `fa1pValid`,
`fa2Valid`, `iidValid`, `decayValid`, `binsValid`) — the predicates the driver evaluates on every
committee the real samplers return.  All theorems hold for every validator count, every stake
distribution with positive total, every committee size `k ≥ 1`.

Not theorems (f64 / `rand` are outside the model; decided by the differential run, level
translation_validation): that the real constructors compute this structure (compared on every case),
that a draw is a function of the validator set and the RNG only (two constructions, same seed), that
FA2's f64 `round`/fallback weights behave like the exact ones away from x.5 boundaries.

Full statement not reached — `partition_degenerate_iff`:
  `partition w order b = none ↔ partitionDegenerate w b = true` for every order listing the
  non-zero-weight validators (the D8 panic is independent of the shuffle and happens exactly when
  `total ≤ (b-1)·⌈total/b⌉`).  Proved here: structure of a successful partition
  (`partition_bins`), decided witnesses of the panic; the equivalence is compared against the real
  constructor on every generated case (`degenerate`/`fa1p` ops) but not proved.
-/
namespace AgModel.Sampler

/-! ## FA1: seat allocation -/

/-- **No `Stake` underflow.** The stake removed for the pre-allocated seats never exceeds the stake
    (`v.stake -= …` cannot panic), for every stake, total and `k ≥ 1`. -/
theorem fa1_cut_le (T k s : Nat) (hk : 0 < k) : cut T k s ≤ s := cut_le T k s hk

/-- **Seats never exceed `k`** (`k as usize - required_samples.len()` cannot underflow). -/
theorem fa1_seats_sum_le_k (stakes : List Nat) (k : Nat) (hT : 0 < total stakes) :
    (required stakes k).length ≤ k := required_length_le stakes k hT

/-- **The FA1 pre-processing is total**: for positive total stake and `k ≥ 1` it returns the
    required samples and `k' = k − #required` (no panic), so required + fallback seats = `k`. -/
theorem fa1_constructs (stakes : List Nat) (k : Nat) (hk : 0 < k) (hT : 0 < total stakes) :
    ∃ f, fa1 stakes k = some f ∧ f.req = required stakes k ∧ f.req.length + f.kPrime = k ∧
      f.weights.length = stakes.length :=
  fa1_some stakes k hk hT

/-- **Deterministic seats.** Validator `v` occurs exactly `floor(stake_v · k / total)` times among the
    required samples, and only members of the set occur. -/
theorem fa1_required_count (stakes : List Nat) (k v : Nat) (hv : v < stakes.length) :
    (required stakes k).count v = stakes.getD v 0 * k / total stakes := required_count stakes k v hv

theorem fa1_required_members (stakes : List Nat) (k v : Nat) (h : v ∈ required stakes k) :
    v < stakes.length := required_mem_lt stakes k v h

/-- **Floor guarantee.** Any committee that starts with the required samples gives every validator at
    least `floor(f·k)` seats. -/
theorem fa1_floor_guarantee (stakes : List Nat) (k : Nat) (c : List Nat)
    (hp : c.take (required stakes k).length = required stakes k) (v : Nat) (hv : v < stakes.length) :
    stakes.getD v 0 * k / total stakes ≤ c.count v := by
  have := floor_of_prefix stakes k c hp
  unfold floorGuarantee at this
  simp only [List.all_eq_true, List.mem_range, decide_eq_true_eq] at this
  exact this v hv

/-- **FA1 with IID stake-weighted fallback: every draw is well formed.**  Exactly `k` members of the
    set, the floor guarantee for every validator, and every fallback seat goes to a validator of
    non-zero fallback weight. -/
theorem fa1w_committee (stakes : List Nat) (k : Nat) (c : List Nat) (hk : 0 < k) (hT : 0 < total stakes)
    (h : fa1wValid stakes k c = true) :
    c.length = k ∧ (∀ v ∈ c, v < stakes.length) ∧ floorGuarantee stakes k c = true := by
  obtain ⟨f, hf, hreq, hsum, hwlen⟩ := fa1_constructs stakes k hk hT
  unfold fa1wValid at h
  simp only [hf, Bool.and_eq_true, beq_iff_eq] at h
  obtain ⟨hpre, hiid⟩ := h
  have ⟨hlen, hmem⟩ := iidValid_spec f.weights f.kPrime _ hiid
  refine ⟨?_, ?_, ?_⟩
  · rw [length_of_take_drop c f.req f.kPrime hpre hlen]; exact hsum
  · intro v hv
    rcases mem_of_take_drop c f.req.length v hv with h1 | h1
    · rw [hpre, hreq] at h1; exact required_mem_lt stakes k v h1
    · rw [← hwlen]; exact (hmem v h1).1
  · exact floor_of_prefix stakes k c (by rw [← hreq]; exact hpre)

/-! ## PartitionSampler -/

/-- **Structure of a constructed partition sampler**: exactly `num_bins` bins, none empty (so every
    `WeightedIndex::new` succeeds), and a draw has exactly one validator per bin. -/
theorem partition_bins (weights order : List Nat) (numBins : Nat) (bins : List (List (Nat × Nat)))
    (h : partition weights order numBins = some bins) :
    bins.length = numBins ∧ (∀ b ∈ bins, b ≠ []) ∧ ∀ c, binsValid bins c = true → c.length = numBins := by
  have hl := partition_length weights order numBins bins h
  exact ⟨hl, partition_nonempty weights order numBins bins h, fun c hc => by rw [binsValid_length bins c hc, hl]⟩

/-- **FA1 with partition fallback** (`_partial`: size, prefix and floor guarantee; membership of the
    fallback seats in the validator set needs `orderOk`, which the driver reports per case). -/
theorem fa1p_committee_partial (stakes : List Nat) (k : Nat) (order c : List Nat) (hk : 0 < k)
    (hT : 0 < total stakes) (h : fa1pValid stakes k order c = true) :
    c.length = k ∧ floorGuarantee stakes k c = true := by
  obtain ⟨f, hf, hreq, hsum, _⟩ := fa1_constructs stakes k hk hT
  unfold fa1pValid at h
  simp only [hf, Bool.and_eq_true, beq_iff_eq] at h
  obtain ⟨hpre, hbins⟩ := h
  cases hp : partition f.weights order f.kPrime with
  | none => simp [hp] at hbins
  | some bins =>
    simp only [hp] at hbins
    have := (partition_bins f.weights order f.kPrime bins hp).2.2 _ hbins
    exact ⟨by rw [length_of_take_drop c f.req f.kPrime hpre this]; exact hsum,
      floor_of_prefix stakes k c (by rw [← hreq]; exact hpre)⟩

/-- D8 witnesses: 6 equal stakes do not fill 4 bins; `Rotor::new_fa1` on 100 equal stakes (k = 64). -/
theorem partition_d8_witness : partition [1, 1, 1, 1, 1, 1] [0, 1, 2, 3, 4, 5] 4 = none := by decide

theorem partition_d8_witness_rotor :
    (fa1 (List.replicate 100 1) 64).map (fun f => (f.kPrime, partitionDegenerate f.weights f.kPrime)) = some (64, true) := by
  decide +kernel

/-! ## FA2 -/

/-- The FA2 constructor panics exactly when the half-up rounded seats exceed `k` (D9). -/
theorem fa2_panics_iff (stakes : List Nat) (k : Nat) (hk : 0 < k) (hT : 0 < total stakes) :
    fa2 stakes k = none ↔ k < (stakes.map (roundSeats (total stakes) k)).sum := by
  have hne : stakes ≠ [] := by intro h; subst h; simp [total] at hT
  have h1 : ¬ (k = 0 ∨ total stakes = 0) := by omega
  unfold fa2
  simp only [hne, h1, if_false]
  split <;> simp_all

/-- D9 witness: 128 equal stakes, k = 64 — every `0.5` rounds up, the assertion fails. -/
theorem fa2_d9_witness : fa2 (List.replicate 128 1) 64 = none := by decide +kernel

/-- **Every FA2 draw is well formed**: `k` members, floor guarantee. -/
theorem fa2_committee (stakes : List Nat) (k : Nat) (c : List Nat) (h : fa2Valid stakes k c = true) :
    c.length = k ∧ (∀ v ∈ c, v < stakes.length) ∧ floorGuarantee stakes k c = true := by
  unfold fa2Valid at h
  simp only [Bool.and_eq_true, beq_iff_eq, List.all_eq_true, decide_eq_true_eq] at h
  exact ⟨h.1.1, h.2, floor_of_prefix stakes k c h.1.2⟩

/-- The required samples FA2 starts from are the FA1 ones. -/
theorem fa2_required (stakes : List Nat) (k : Nat) (req med : List Nat) (hT : 0 < total stakes)
    (h : fa2 stakes k = some (req, med)) : req = required stakes k := fa2_some_req stakes k req med hT h

/-! ## IID strategies, zero weights, decaying acceptance -/

/-- **Exact size, membership, zero weight never drawn** for the IID stake-weighted strategy. -/
theorem iid_committee (weights : List Nat) (k : Nat) (c : List Nat) (h : iidValid weights k c = true) :
    c.length = k ∧ ∀ v ∈ c, v < weights.length ∧ 0 < weights.getD v 0 := iidValid_spec weights k c h

theorem uniform_committee (n k : Nat) (c : List Nat) (h : uniformValid n k c = true) :
    c.length = k ∧ ∀ v ∈ c, v < n := by
  unfold uniformValid at h
  simp only [Bool.and_eq_true, beq_iff_eq, List.all_eq_true, decide_eq_true_eq] at h
  exact h

/-- **Seat cap of the decaying-acceptance sampler.**  Whatever the random source does, a committee
    accepted by the rule `random() ≥ count/max_samples` from fresh counters never contains a validator
    more than `ceil(max_samples)` times; it has `k` members of non-zero weight. -/
theorem decay_cap (weights : List Nat) (num den k : Nat) (c : List Nat) (hden : 0 < den)
    (h : decayValid weights num den k c = true) :
    c.length = k ∧ (∀ v ∈ c, v < weights.length ∧ 0 < weights.getD v 0) ∧ ∀ v, c.count v ≤ capOf num den := by
  unfold decayValid at h
  simp only [Bool.and_eq_true] at h
  have ⟨hl, hm⟩ := iidValid_spec weights k c h.1
  refine ⟨hl, hm, ?_⟩
  cases hr : decayReplay num den (List.replicate weights.length 0) c with
  | none => simp [hr] at h
  | some counts' =>
    have hz : ∀ w, (List.replicate weights.length 0).getD w 0 = 0 := by
      intro w; simp [List.getD_eq_getElem?_getD, List.getElem?_replicate]; split <;> simp
    have ⟨r1, r2⟩ := decayReplay_spec num den hden c _ counts' hr
      (fun v hv => by simpa using (hm v hv).1) (fun w => by rw [hz w]; exact Nat.zero_le _)
    intro v
    have := r2 v
    rw [hz v] at this
    have := r1 v
    omega

/-! ## Non-vacuity -/

example : fa1 [52, 52, 1, 1, 1, 1, 1, 1] 8 = some ⟨[0, 0, 0, 1, 1, 1], 2, false, [11, 11, 1, 1, 1, 1, 1, 1]⟩ := by decide
example : fa1wValid [52, 52, 1, 1, 1, 1, 1, 1] 8 [0, 0, 0, 1, 1, 1, 5, 0] = true := by decide
example : partition [1, 1, 1, 1] [2, 0, 3, 1] 2 = some [[(2, 1), (0, 1)], [(3, 1), (1, 1)]] := by decide
example : fa1pValid [3, 1, 1, 1, 1, 1] 4 [4, 0, 2, 5, 1, 3] [0, 4, 2, 1] = true := by decide
example : decayValid [5, 1, 1] 3 2 4 [0, 0, 1, 2] = true ∧ decayValid [5, 1, 1] 3 2 4 [0, 0, 0, 2] = false := by decide
example : fa2 [3, 1] 4 = some ([0, 0, 0, 1], []) := by decide

end AgModel.Sampler
