import AgModel.Proofs.PoolRecover
/-!
# C18 — Standstill recovery re-broadcasts a bundle sufficient to catch up, at any time

`Pool.recover` is the model of `PoolImpl::recover_from_standstill` (after the `fix:` that removed the
panic at genesis). Statements on the pool model; the replay clause ("a node that starts from an
empty state and receives only this bundle reaches the same highest finalized slot and the same ready
parents") is decided on the implementation by the harness oracle (`bundle-replay-*`), see cfg.
-/
namespace AgModel.Pool

/-- **Total.** Triggering recovery is safe in every pool state (also before anything beyond genesis is
    finalized): it yields exactly one `Standstill` event, for the slot after the highest finalized one. -/
theorem recover_total (p : Pool) :
    ∃ certs votes, p.recover = [.standstill (p.fin.highest + 1) certs votes] := by
  unfold Pool.recover
  exact ⟨_, _, rfl⟩

/-- **Contents.** The bundle consists of the certificates proving the highest finalized slot (the
    fast-finalization certificate, or finalization + notarization), every certificate held for a later
    slot, and every own vote stored for a later slot — nothing else. -/
theorem bundle_contents (p : Pool) (certs : List Cert) (votes : List Vote)
    (h : p.recover = [.standstill (p.fin.highest + 1) certs votes]) :
    (∀ c, c ∈ certs ↔ (c ∈ p.getFinalCerts p.fin.highest ∨ ∃ st ∈ p.slots, st.slot > p.fin.highest ∧ c ∈ st.certs)) ∧
    (∀ v, v ∈ votes ↔ ∃ st ∈ p.slots, st.slot > p.fin.highest ∧ v ∈ st.ownVotes p.epoch) :=
  recover_contents p certs votes h

/-- **Valid.** In a pool whose slot states satisfy the pool invariant (`PoolOk`: preserved by every pool
    operation on validated inputs — `Proofs/PoolGlue.lean`), every certificate of the bundle is valid for
    every receiver with the same epoch: signers in range and distinct, aggregates disjoint, stake of the
    signers ≥ the type's threshold. -/
theorem bundle_certs_valid (p : Pool) (hok : PoolOk p) (certs : List Cert) (votes : List Vote)
    (h : p.recover = [.standstill (p.fin.highest + 1) certs votes]) : ∀ c ∈ certs, CertOk p.epoch c := by
  intro c hc
  rcases ((bundle_contents p certs votes h).1 c).mp hc with h1 | ⟨st, hm, _, hcs⟩
  · obtain ⟨st, hm, hcs⟩ := getFinalCerts_held p _ c h1
    exact (hok.2 st hm).2 c hcs
  · exact (hok.2 st hm).2 c hcs

/-- **Valid, at any time.** For every pool reachable from the empty pool by any sequence of validated votes,
    validated certificates and block registrations — and recovery triggered after any such prefix — every
    certificate of the bundle is valid at a receiver. -/
theorem bundle_valid_reachable (e : Epoch) (hpos : 0 < e.total) (ops : List PoolOp)
    (hrecv : ∀ c, PoolOp.cert c ∈ ops → CertOk e c) (certs : List Cert) (votes : List Vote)
    (h : (poolRun { epoch := e } ops).1.recover =
      [.standstill ((poolRun { epoch := e } ops).1.fin.highest + 1) certs votes]) :
    ∀ c ∈ certs, CertOk e c := by
  have hr := poolRun_ok ops { epoch := e } (PoolOk.init e hpos) hrecv
  have := bundle_certs_valid _ hr.1 certs votes h
  rw [hr.2] at this
  exact this

/-- the own votes of the bundle are votes stored (i.e. admitted, hence validated) for the node itself -/
theorem bundle_votes_own (p : Pool) (certs : List Cert) (votes : List Vote)
    (h : p.recover = [.standstill (p.fin.highest + 1) certs votes]) :
    ∀ v ∈ votes, v.signer = p.epoch.own ∧ v.slot > p.fin.highest :=
  recover_votes_own p certs votes h

/-! non-vacuity: recovery at genesis, and after a fast finalization with later votes -/
example : ({ epoch := { stakes := [1, 1, 1], own := 0 } } : Pool).recover = [.standstill 1 [] []] := by decide

example :
    let e : Epoch := { stakes := [1, 1, 1, 1, 1], own := 0 }
    let p := (poolRun { epoch := e } [.vote ⟨.notar, 1, 7, 0⟩, .vote ⟨.notar, 1, 7, 1⟩, .vote ⟨.notar, 1, 7, 2⟩,
      .vote ⟨.notar, 1, 7, 3⟩, .vote ⟨.skip, 2, 0, 0⟩]).1
    p.fin.highest = 1 ∧
      p.recover = [.standstill 2 [⟨.ff, 1, 7, [0, 1, 2, 3], [], 4⟩] [⟨.skip, 2, 0, 0⟩]] := by decide

/-! **D17 (known finding), witness.** The last clause of the statement — "a node that starts from an empty state
and receives only this bundle reaches the same highest finalized slot" — is *false* of the code and of the
model once the sender's finalized slot is `≥ 2·SLOTS_PER_EPOCH` past genesis: the receiver's admission window
refuses every bundled certificate. Sender: two fast-finalization certificates, each inside the window of its
time; receiver: the empty pool fed the bundle. (The replay oracle of the harness decides the clause on the
implementation for all generated histories; this is the excluded point, run there as corpus case d17.) -/
theorem bundle_replay_far_witness :
    let e : Epoch := { stakes := [1, 1, 1], own := 0 }
    let sender := (poolRun { epoch := e } [.cert ⟨.ff, 35999, 1, [0, 1, 2], [], 3⟩, .cert ⟨.ff, 40000, 2, [0, 1, 2], [], 3⟩]).1
    sender.fin.highest = 40000 ∧
      sender.recover = [.standstill 40001 [⟨.ff, 40000, 2, [0, 1, 2], [], 3⟩] []] ∧
      (poolRun { epoch := e } [.cert ⟨.ff, 40000, 2, [0, 1, 2], [], 3⟩]).1.fin.highest = 0 := by decide

end AgModel.Pool
