import AgModel.Proofs.PoolGlue
import AgModel.Model.Votor
import AgModel.Proofs.PoolRecover
import AgModel.Proofs.BundleReplay
/-!
# C18 — Standstill recovery re-broadcasts a bundle sufficient to catch up, at any time

`Pool.recover` is the model of `PoolImpl::recover_from_standstill` (after the `fix:` that removed the
panic at genesis). Statements on the pool model; the replay clause ("a node that starts from an
empty state and receives only this bundle reaches the same highest finalized slot and the same ready
parents") is decided on the implementation by the harness oracle (`bundle-replay-*`), see cfg.
-/
namespace AgModel.Pool

/-- **Total.** Triggering recovery is safe in every pool state (also before anything beyond genesis is
    finalized): it yields exactly one `Standstill` event, for the slot after the highest finalized one. -/
theorem recover_total (p : Pool) :
    ∃ certs votes, p.recover = [.standstill (p.fin.highest + 1) certs votes] := by
  unfold Pool.recover
  exact ⟨_, _, rfl⟩

/-- **Contents.** The bundle consists of the certificates proving the highest finalized slot (the
    fast-finalization certificate, or finalization + notarization), every certificate held for a later
    slot, and every own vote stored for a later slot — nothing else. -/
theorem bundle_contents (p : Pool) (certs : List Cert) (votes : List Vote)
    (h : p.recover = [.standstill (p.fin.highest + 1) certs votes]) :
    (∀ c, c ∈ certs ↔ (c ∈ p.getFinalCerts p.fin.highest ∨ ∃ st ∈ p.slots, st.slot > p.fin.highest ∧ c ∈ st.certs)) ∧
    (∀ v, v ∈ votes ↔ ∃ st ∈ p.slots, st.slot > p.fin.highest ∧ v ∈ st.ownVotes p.epoch) :=
  recover_contents p certs votes h

/-- **Valid.** In a pool whose slot states satisfy the pool invariant (`PoolOk`: preserved by every pool
    operation on validated inputs — `Proofs/PoolGlue.lean`), every certificate of the bundle is valid for
    every receiver with the same epoch: signers in range and distinct, aggregates disjoint, stake of the
    signers ≥ the type's threshold. -/
theorem bundle_certs_valid (p : Pool) (hok : PoolOk p) (certs : List Cert) (votes : List Vote)
    (h : p.recover = [.standstill (p.fin.highest + 1) certs votes]) : ∀ c ∈ certs, CertOk p.epoch c := by
  intro c hc
  rcases ((bundle_contents p certs votes h).1 c).mp hc with h1 | ⟨st, hm, _, hcs⟩
  · obtain ⟨st, hm, hcs⟩ := getFinalCerts_held p _ c h1
    exact (hok.2 st hm).2 c hcs
  · exact (hok.2 st hm).2 c hcs

/-- **Valid, at any time.** For every pool reachable from the empty pool by any sequence of validated votes,
    validated certificates and block registrations — and recovery triggered after any such prefix — every
    certificate of the bundle is valid at a receiver. -/
theorem bundle_valid_reachable (e : Epoch) (hpos : 0 < e.total) (ops : List PoolOp)
    (hrecv : ∀ c, PoolOp.cert c ∈ ops → CertOk e c) (certs : List Cert) (votes : List Vote)
    (h : (poolRun { epoch := e } ops).1.recover =
      [.standstill ((poolRun { epoch := e } ops).1.fin.highest + 1) certs votes]) :
    ∀ c ∈ certs, CertOk e c := by
  have hr := poolRun_ok ops { epoch := e } (PoolOk.init e hpos) hrecv
  have := bundle_certs_valid _ hr.1 certs votes h
  rw [hr.2] at this
  exact this

/-- the own votes of the bundle are votes stored (i.e. admitted, hence validated) for the node itself -/
theorem bundle_votes_own (p : Pool) (certs : List Cert) (votes : List Vote)
    (h : p.recover = [.standstill (p.fin.highest + 1) certs votes]) :
    ∀ v ∈ votes, v.signer = p.epoch.own ∧ v.slot > p.fin.highest :=
  recover_votes_own p certs votes h

/-! non-vacuity: recovery at genesis, and after a fast finalization with later votes -/
example : ({ epoch := { stakes := [1, 1, 1], own := 0 } } : Pool).recover = [.standstill 1 [] []] := by decide

example :
    let e : Epoch := { stakes := [1, 1, 1, 1, 1], own := 0 }
    let p := (poolRun { epoch := e } [.vote ⟨.notar, 1, 7, 0⟩, .vote ⟨.notar, 1, 7, 1⟩, .vote ⟨.notar, 1, 7, 2⟩,
      .vote ⟨.notar, 1, 7, 3⟩, .vote ⟨.skip, 2, 0, 0⟩]).1
    p.fin.highest = 1 ∧
      p.recover = [.standstill 2 [⟨.ff, 1, 7, [0, 1, 2, 3], [], 4⟩] [⟨.skip, 2, 0, 0⟩]] := by decide

/-! **D17 (known finding), witness.** The last clause of the statement — "a node that starts from an empty state
and receives only this bundle reaches the same highest finalized slot" — is *false* of the code and of the
model once the sender's finalized slot is `≥ 2·SLOTS_PER_EPOCH` past genesis: the receiver's admission window
refuses every bundled certificate. Sender: two fast-finalization certificates, each inside the window of its
time; receiver: the empty pool fed the bundle. (The replay oracle of the harness decides the clause on the
implementation for all generated histories; this is the excluded point, run there as corpus case d17.) -/
theorem bundle_replay_far_witness :
    let e : Epoch := { stakes := [1, 1, 1], own := 0 }
    let sender := (poolRun { epoch := e } [.cert ⟨.ff, 35999, 1, [0, 1, 2], [], 3⟩, .cert ⟨.ff, 40000, 2, [0, 1, 2], [], 3⟩]).1
    sender.fin.highest = 40000 ∧
      sender.recover = [.standstill 40001 [⟨.ff, 40000, 2, [0, 1, 2], [], 3⟩] []] ∧
      (poolRun { epoch := e } [.cert ⟨.ff, 40000, 2, [0, 1, 2], [], 3⟩]).1.fin.highest = 0 := by decide

/-! ## The catch-up clause: a fresh pool fed only the bundle

Sender: any pool reachable from the empty pool (`poolRun`) whose ghost log (`poolLog`: block registrations +
`CertCreated` events, `Proofs/PoolWiring.lean`) is `Consistent` (C07/C08 premise: the finality inputs are `Safe`, no
skip certificate for a directly finalized slot, the only finalized block of slot 0 is genesis — met by every pool of a valid
cluster run: `Cluster.cluster_pools_consistent`), recovery triggered after this — i.e. after *every* prefix of every such
history.  Receiver: the empty pool of the same epoch, fed the bundle's certificates (`add_cert`) and own votes
(`add_vote`) in **any order**, with repetitions, every certificate at least once.

Further premises, each necessary (witness theorems below):
* `hfar`  — the finalized slot is below `2·SLOTS_PER_EPOCH` (known finding D17: `bundle_replay_far_witness`);
* `hown`  — the node's own stake is below the quorum threshold (so that its own votes alone create no certificate
  at the receiver).  Without it the *parents* clause fails in the model when a received certificate carries the
  node's own signature for a block it did not vote for (`bundle_replay_parents_needs_own_below_quorum`); for the
  *finalized-slot* clause no counterexample is known — there the premise is an artefact of the proof (the receiver's
  log is shown to be a sub-log of the sender's), see notes/C18.md;
* `hnf` (parents only) — a notar-fallback certificate for a finalized slot (or slot 0) names the finalized block
  (genesis): the bundle carries for the finalized slot only the certificates that prove it
  (`bundle_replay_parents_needs_nf_agree`).
-/

/-- **`bundle_replay_finalized`.**  A node that starts from the empty state and receives only the bundle reaches
    exactly the sender's highest finalized slot. -/
theorem bundle_replay_finalized (e : Epoch) (ops : List PoolOp)
    (hcons : Consistent (poolLog { epoch := e } ops))
    (hfar : (poolRun { epoch := e } ops).1.fin.highest < 2 * Gen.SLOTS_PER_EPOCH)
    (hown : e.isQuorum (e.stake e.own) = false)
    (certs : List Cert) (votes : List Vote)
    (hb : (poolRun { epoch := e } ops).1.recover =
      [.standstill ((poolRun { epoch := e } ops).1.fin.highest + 1) certs votes])
    (rops : List PoolOp)
    (hfed : ∀ op ∈ rops, (∃ c ∈ certs, op = .cert c) ∨ (∃ v ∈ votes, op = .vote v))
    (hall : ∀ c ∈ certs, PoolOp.cert c ∈ rops) :
    (poolRun { epoch := e } rops).1.fin.highest = (poolRun { epoch := e } ops).1.fin.highest :=
  (Replay.mk hcons hfar hown hb hfed hall).finalized

/-- **`bundle_replay_parents`.**  … and for the first slot `w` of the leader window after the finalized slot its
    `parents_ready(w)` has exactly the members of the sender's. -/
theorem bundle_replay_parents (e : Epoch) (ops : List PoolOp)
    (hcons : Consistent (poolLog { epoch := e } ops)) (hnf : NfAgree (poolLog { epoch := e } ops))
    (hfar : (poolRun { epoch := e } ops).1.fin.highest < 2 * Gen.SLOTS_PER_EPOCH)
    (hown : e.isQuorum (e.stake e.own) = false)
    (certs : List Cert) (votes : List Vote)
    (hb : (poolRun { epoch := e } ops).1.recover =
      [.standstill ((poolRun { epoch := e } ops).1.fin.highest + 1) certs votes])
    (rops : List PoolOp)
    (hfed : ∀ op ∈ rops, (∃ c ∈ certs, op = .cert c) ∨ (∃ v ∈ votes, op = .vote v))
    (hall : ∀ c ∈ certs, PoolOp.cert c ∈ rops) (b : Nat × Nat) :
    b ∈ ParentReady.parentsReady (poolRun { epoch := e } rops).1.pr (nextWindow (poolRun { epoch := e } ops).1.fin.highest) ↔
    b ∈ ParentReady.parentsReady (poolRun { epoch := e } ops).1.pr (nextWindow (poolRun { epoch := e } ops).1.fin.highest) :=
  (Replay.mk hcons hfar hown hb hfed hall).parents hnf b

/-- `nextWindow f` is the first slot of the leader window after `f` -/
theorem nextWindow_is_next (f : Nat) :
    ParentReady.isWindowStart (nextWindow f) = true ∧ f < nextWindow f ∧ nextWindow f ≤ f + ParentReady.W :=
  ⟨(nextWindow_spec f).1, (nextWindow_spec f).2.1, (nextWindow_spec f).2.2.1⟩

/-! ### non-vacuity and necessity of the premises (evaluated by the kernel) -/

/-- the bundle of a pool, and the pool a fresh node reaches when fed `certs` then `votes` / `votes` then `certs` -/
def bundleOf (p : Pool) : List Cert × List Vote :=
  match p.recover with
  | [.standstill _ cs vs] => (cs, vs)
  | _ => ([], [])

def replayCV (e : Epoch) (b : List Cert × List Vote) : Pool :=
  (poolRun { epoch := e } (b.1.map PoolOp.cert ++ b.2.map PoolOp.vote)).1
def replayVC (e : Epoch) (b : List Cert × List Vote) : Pool :=
  (poolRun { epoch := e } (b.2.map PoolOp.vote ++ b.1.reverse.map PoolOp.cert)).1

/-- **Non-vacuity**: the demo history of C07 (`demoPoolOps`: certificates, a vote-created skip certificate, blocks,
    slow and fast finalization) extended by certificates and own votes for later slots satisfies every premise; the
    bundle carries the fast-finalization certificate of slot 5, three later certificates and two own votes; both replay
    orders reach slot 5 and the ready parent (5,3) for window start 8. -/
def demoSender : List PoolOp :=
  demoPoolOps ++ [.vote ⟨.notar, 9, 4, 0⟩, .cert (demoCert .notar 9 4), .vote ⟨.skip, 10, 0, 0⟩]

example :
    let p := (poolRun { epoch := demoEpoch } demoSender).1
    Consistent (poolLog { epoch := demoEpoch } demoSender) ∧ NfAgreeC (poolLog { epoch := demoEpoch } demoSender) ∧
    p.fin.highest = 5 ∧ demoEpoch.isQuorum (demoEpoch.stake demoEpoch.own) = false ∧
    (bundleOf p).1.map (fun c => (c.kind, c.slot)) = [(.ff, 5), (.skip, 6), (.skip, 7), (.notar, 9)] ∧
    (bundleOf p).2.length = 2 ∧ nextWindow p.fin.highest = 8 ∧
    ParentReady.parentsReady p.pr 8 = [(5, 3)] ∧
    (replayCV demoEpoch (bundleOf p)).fin.highest = 5 ∧ ParentReady.parentsReady (replayCV demoEpoch (bundleOf p)).pr 8 = [(5, 3)] ∧
    (replayVC demoEpoch (bundleOf p)).fin.highest = 5 ∧ ParentReady.parentsReady (replayVC demoEpoch (bundleOf p)).pr 8 = [(5, 3)] := by
  decide

/-- … and the theorems, instantiated on this history (all premises discharged by evaluation) -/
example :
    (replayCV demoEpoch (bundleOf (poolRun { epoch := demoEpoch } demoSender).1)).fin.highest =
      (poolRun { epoch := demoEpoch } demoSender).1.fin.highest ∧
    ∀ b, b ∈ ParentReady.parentsReady (replayCV demoEpoch (bundleOf (poolRun { epoch := demoEpoch } demoSender).1)).pr
          (nextWindow (poolRun { epoch := demoEpoch } demoSender).1.fin.highest) ↔
        b ∈ ParentReady.parentsReady (poolRun { epoch := demoEpoch } demoSender).1.pr
          (nextWindow (poolRun { epoch := demoEpoch } demoSender).1.fin.highest) := by
  have hcons : Consistent (poolLog { epoch := demoEpoch } demoSender) := by decide
  have hnf : NfAgree (poolLog { epoch := demoEpoch } demoSender) := (nfAgreeC_iff hcons.safe).mp (by decide)
  have hb : (poolRun { epoch := demoEpoch } demoSender).1.recover =
      [.standstill ((poolRun { epoch := demoEpoch } demoSender).1.fin.highest + 1)
        (bundleOf (poolRun { epoch := demoEpoch } demoSender).1).1 (bundleOf (poolRun { epoch := demoEpoch } demoSender).1).2] := by
    decide
  have hfed : ∀ op ∈ (bundleOf (poolRun { epoch := demoEpoch } demoSender).1).1.map PoolOp.cert ++
        (bundleOf (poolRun { epoch := demoEpoch } demoSender).1).2.map PoolOp.vote,
      (∃ c ∈ (bundleOf (poolRun { epoch := demoEpoch } demoSender).1).1, op = .cert c) ∨
      (∃ v ∈ (bundleOf (poolRun { epoch := demoEpoch } demoSender).1).2, op = .vote v) := by
    intro op hop
    rcases List.mem_append.mp hop with h | h
    · obtain ⟨c, hc, rfl⟩ := List.mem_map.mp h; exact Or.inl ⟨c, hc, rfl⟩
    · obtain ⟨v, hv, rfl⟩ := List.mem_map.mp h; exact Or.inr ⟨v, hv, rfl⟩
  have hall : ∀ c ∈ (bundleOf (poolRun { epoch := demoEpoch } demoSender).1).1,
      PoolOp.cert c ∈ (bundleOf (poolRun { epoch := demoEpoch } demoSender).1).1.map PoolOp.cert ++
        (bundleOf (poolRun { epoch := demoEpoch } demoSender).1).2.map PoolOp.vote :=
    fun c hc => List.mem_append_left _ (List.mem_map.mpr ⟨c, hc, rfl⟩)
  exact ⟨bundle_replay_finalized demoEpoch demoSender hcons (by decide) (by decide) _ _ hb _ hfed hall,
    fun b => bundle_replay_parents demoEpoch demoSender hcons hnf (by decide) (by decide) _ _ hb _ hfed hall b⟩

/-- **`hown` is necessary for the parents clause** (in the model; signatures are symbolic): the node holds 60 % of the
    stake, it received a notarization certificate for block (3,8) that carries its own signature, and voted for
    (3,7).  The history is `Consistent` and `NfAgree`, nothing is finalized.  A receiver that gets the own vote
    *before* the certificate creates its own notarization certificate for (3,7) and refuses the bundled one as a
    duplicate: it never learns (3,8). -/
theorem bundle_replay_parents_needs_own_below_quorum :
    let e : Epoch := { stakes := [3, 1, 1], own := 0 }
    let ops : List PoolOp := [.cert ⟨.notar, 3, 8, [0, 1], [], 4⟩, .vote ⟨.notar, 3, 7, 0⟩]
    let p := (poolRun { epoch := e } ops).1
    Consistent (poolLog { epoch := e } ops) ∧ NfAgreeC (poolLog { epoch := e } ops) ∧ p.fin.highest = 0 ∧
    e.isQuorum (e.stake e.own) = true ∧
    ParentReady.parentsReady p.pr 4 = [(3, 8), (3, 7)] ∧
    ParentReady.parentsReady (replayCV e (bundleOf p)).pr 4 = [(3, 8), (3, 7)] ∧
    ParentReady.parentsReady (replayVC e (bundleOf p)).pr 4 = [(3, 7)] := by
  decide

/-- **`hnf` is necessary**: slot 1 is fast-finalized with block (1,7) and the sender also holds a notar-fallback
    certificate for (1,9); slots 2, 3 are skip-certified.  The bundle proves slot 1 with the fast-finalization
    certificate only: the receiver does not learn the parent (1,9). -/
theorem bundle_replay_parents_needs_nf_agree :
    let e : Epoch := { stakes := [1, 1, 1, 1, 1], own := 0 }
    let ops : List PoolOp := [.cert (demoCert .nf 1 9), .cert (demoCert .ff 1 7), .cert (demoCert .skip 2 0),
      .cert (demoCert .skip 3 0)]
    let p := (poolRun { epoch := e } ops).1
    Consistent (poolLog { epoch := e } ops) ∧ ¬ NfAgreeC (poolLog { epoch := e } ops) ∧ p.fin.highest = 1 ∧
    e.isQuorum (e.stake e.own) = false ∧
    ParentReady.parentsReady p.pr 4 = [(1, 9), (1, 7)] ∧
    ParentReady.parentsReady (replayCV e (bundleOf p)).pr 4 = [(1, 7)] := by
  decide

/-- **"no skip certificate for a directly finalized slot" is necessary**: block (2,9) is fast-finalized although slot 2 is
    skip-certified; the sender still answers (1,7) for window start 4 (through the skip certificates of 2 and 3), the
    bundle starts at slot 2. -/
theorem bundle_replay_parents_needs_consistent :
    let e : Epoch := { stakes := [1, 1, 1, 1, 1], own := 0 }
    let ops : List PoolOp := [.cert (demoCert .notar 1 7), .cert (demoCert .skip 2 0), .cert (demoCert .ff 2 9),
      .cert (demoCert .skip 3 0)]
    let p := (poolRun { epoch := e } ops).1
    ¬ Consistent (poolLog { epoch := e } ops) ∧ Finality.Safe (finOps (poolLog { epoch := e } ops)) ∧ p.fin.highest = 2 ∧
    ParentReady.parentsReady p.pr 4 = [(2, 9), (1, 7)] ∧
    ParentReady.parentsReady (replayCV e (bundleOf p)).pr 4 = [(2, 9)] := by
  decide

end AgModel.Pool

/-! ### the voting component forwards the bundle, whatever its own pruning state -/
namespace AgModel.Votor

theorem emitAll_log (v : V) (os : List Out) : (v.emitAll os).log = (os.map Item.out).reverse ++ v.log := by
  induction os generalizing v with
  | nil => rfl
  | cons o os ih => simp only [V.emitAll, ih, V.emit, List.map_cons, List.reverse_cons, List.append_assoc, List.singleton_append]

/-- **Always forwarded.** For every state of the voting component that has not crashed — any highest final
    certificate slot, any pruning watermark, any retired slots — a `Standstill` event makes it hand over
    *exactly* the bundle (every element, in order, nothing else), and changes nothing else. The bundle is abstract here (a
    list of element ids: the Lean pool model produces it, the harness checks the ids are the real certificates and
    votes). -/
theorem votor_forwards_bundle (v : V) (hp : v.panicked = false) (s : Nat) (bundle : List Nat) :
    (step v (.standstill s bundle)).log = (bundle.map (fun r => Item.out (.relay r))).reverse ++ .ev (.standstill s bundle) :: v.log ∧
    (step v (.standstill s bundle)).slots = v.slots ∧ (step v (.standstill s bundle)).hfcs = v.hfcs ∧
    (step v (.standstill s bundle)).panicked = false := by
  have hl : ∀ (w : V) (os : List Out), (w.emitAll os).slots = w.slots ∧ (w.emitAll os).hfcs = w.hfcs ∧ (w.emitAll os).panicked = w.panicked := by
    intro w os
    induction os generalizing w with
    | nil => exact ⟨rfl, rfl, rfl⟩
    | cons o os ih => simp only [V.emitAll]; exact ih (w.emit o)
  unfold step
  simp only [hp, Bool.false_eq_true, if_false, V.ignores, V.handle]
  obtain ⟨a, b, c⟩ := hl (v.logEv (.standstill s bundle)) (bundle.map .relay)
  refine ⟨?_, a, b, c.trans hp⟩
  rw [emitAll_log]
  simp [V.logEv, List.map_map, Function.comp_def]

example : (step { init with hfcs := 40 } (.standstill 3 [7, 8])).log = [.out (.relay 8), .out (.relay 7), .ev (.standstill 3 [7, 8])] ++ init.log := by decide

end AgModel.Votor

