import AgModel.Gen.Consts
import AgModel.Proofs.Cert
/-!
# C09 — only authentic votes and sufficiently backed certificates are admitted

All statements are about `AgModel.Cert` (model of `ValidatedVote::try_new`, `ValidatedCert::try_new`,
`Cert::{check_threshold, check_sig}`, `AggregateSignature::{verify, is_signer, signers}`,
`Fraction::is_met`, `read_bitvec`). BLS signatures are idealised: a signature value is the multiset
of its parts `(key, payload)`; verification is multiset equality ("unless a forgery").
`e.keyOf i` is the voting key of validator `i`; `e.KeysDistinct` says distinct validators have
distinct voting keys (needed only where a *signer* is recovered from a signature).
-/
namespace AgModel.Cert

/-! ## votes -/

/-- **Exact verdict of vote admission**, for every epoch and every vote: unknown signer first, then
    the signature must be *exactly* the named validator's signature over *exactly* this vote's
    (kind, slot, hash). No input panics. -/
theorem vote_verdict (e : Epoch) (v : Vote) :
    validateVote e v =
      if v.signer ≥ e.n then .err .unknownSigner
      else if v.sig = [⟨e.keyOf v.signer, v.payload⟩] then .ok
      else .err .invalidSignature := by
  unfold validateVote
  by_cases h : v.signer ≥ e.n
  · simp [h]
  · simp only [h, if_false]
    obtain ⟨val, hv, hkey⟩ := e.vals_get v.signer (by omega)
    rw [hv]
    simp only
    by_cases hs : v.sig = [⟨e.keyOf v.signer, v.payload⟩]
    · rw [if_pos hs, if_pos]; rw [verifyInd_iff, hkey]; exact hs
    · rw [if_neg hs, if_neg]; rw [verifyInd_iff, hkey]; exact hs

/-- A vote is admitted **iff** the validator it names belongs to the epoch and the signature is that
    validator's signature over exactly this vote's kind, slot and block hash. -/
theorem vote_admitted_iff (e : Epoch) (v : Vote) :
    validateVote e v = .ok ↔ v.signer < e.n ∧ v.sig = [⟨e.keyOf v.signer, v.payload⟩] := by
  rw [vote_verdict]
  by_cases h : v.signer ≥ e.n
  · simp [h]; omega
  · by_cases hs : v.sig = [⟨e.keyOf v.signer, v.payload⟩]
    · simp [h, hs]; omega
    · simp [h, hs]

/-- Vote validation never panics (any epoch, also the empty one; any signer index). -/
theorem validateVote_total (e : Epoch) (v : Vote) : validateVote e v ≠ .panic := by
  rw [vote_verdict]; split
  · simp
  · split <;> simp

/-- A signature admits at most one vote: if two votes carrying the same signature value are both
    admitted they agree in kind, slot, hash and (keys distinct) signer. Hence every alteration of
    kind / slot / hash / signer of an admitted vote that keeps the signature, and every transplant
    of a signature onto another vote, is rejected. -/
theorem vote_sig_binds (e : Epoch) (hk : e.KeysDistinct) (v v' : Vote) (hs : v'.sig = v.sig)
    (h : validateVote e v = .ok) (h' : validateVote e v' = .ok) : v' = v := by
  rw [vote_admitted_iff] at h h'
  obtain ⟨hn, hsig⟩ := h
  obtain ⟨hn', hsig'⟩ := h'
  rw [hs, hsig] at hsig'
  simp only [List.cons.injEq, Part.mk.injEq, and_true] at hsig'
  have : v'.signer = v.signer := (e.keyOf_inj hk _ _ hn hn' hsig'.1).symm
  cases v; cases v'; simp_all

/-- ... and the rejection is an error, not a panic. -/
theorem vote_mutation_rejected (e : Epoch) (hk : e.KeysDistinct) (v v' : Vote) (hs : v'.sig = v.sig)
    (h : validateVote e v = .ok) (hne : v' ≠ v) : ∃ err, validateVote e v' = .err err := by
  cases hv : validateVote e v' with
  | ok => exact absurd (vote_sig_binds e hk v v' hs h hv) hne
  | err x => exact ⟨x, rfl⟩
  | panic => exact absurd hv (validateVote_total e v')

/-! ## certificates -/

/-- **A certificate is admitted iff** the distinct stake of the validators marked in any present
    half meets the certificate type's threshold, and every present half has a bitmask of exactly
    `n` bits, at least one signer, and an aggregate that is exactly the marked signers' signatures
    over exactly the payload the certificate type binds that half to (kind, slot, hash). -/
theorem cert_admitted_iff (e : Epoch) (c : Cert) :
    validateCert e c = .ok ↔
      e.total ≠ 0 ∧
      stakeWhere c.marks 0 e.vals * c.threshold.2 ≥ e.total * c.threshold.1 ∧
      ∀ h ∈ c.halves, h.1.bits.length = e.n ∧ h.1.signers ≠ [] ∧
        h.1.sig.Perm (h.1.signers.map (fun i => (⟨e.keyOf i, h.2⟩ : Part))) := by
  have hsig : checkSig e c = some true ↔ ∀ h ∈ c.halves, h.1.bits.length = e.n ∧ h.1.signers ≠ [] ∧
      h.1.sig.Perm (h.1.signers.map (fun i => (⟨e.keyOf i, h.2⟩ : Part))) := by
    unfold checkSig
    rw [allOpt_true_iff]
    simp only [List.mem_map, forall_exists_index, and_imp, forall_apply_eq_imp_iff₂]
    constructor
    · intro H h hh
      have := (Agg.verify_true_iff h.1 h.2 e.pks).mp (H h hh)
      rw [e.pks_length] at this; exact this
    · intro H h hh
      apply (Agg.verify_true_iff h.1 h.2 e.pks).mpr
      rw [e.pks_length]; exact H h hh
  unfold validateCert checkThreshold isMet
  by_cases ht : e.total = 0
  · simp [ht]
  · simp only [ht, if_false]
    by_cases hm : stakeWhere c.marks 0 e.vals * c.threshold.2 ≥ e.total * c.threshold.1
    · simp only [hm, decide_true]
      rw [← hsig]
      cases hc : checkSig e c with
      | none => simp
      | some b => cases b <;> simp [ht]
    · simp [hm]

/-- Certificate validation never panics, for every epoch with non-zero total stake (with total
    stake 0 the `debug_assert!` in `Fraction::is_met` fires in debug builds), every certificate,
    every bitmask length, every marked index. -/
theorem validateCert_total (e : Epoch) (c : Cert) (ht : e.total ≠ 0) : validateCert e c ≠ .panic := by
  have hs : checkSig e c ≠ none := by
    unfold checkSig
    rw [allOpt_ne_none]
    intro x hx
    simp only [List.mem_map] at hx
    obtain ⟨h, _, rfl⟩ := hx
    exact Agg.verify_ne_none _ _ _
  unfold validateCert checkThreshold isMet
  simp only [ht, if_false]
  split
  · simp_all
  · simp
  · split
    · contradiction
    · simp
    · simp

/-- The stake figure a certificate declares plays no role in admission. -/
theorem declared_stake_irrelevant (e : Epoch) (c : Cert) (st : Nat) :
    validateCert e (c.withDeclared st) = validateCert e c := by
  cases c <;> rfl

/-- **Backing.** An admitted certificate is backed by a duplicate-free set `S` of validators of the
    epoch, each of which really signed (its key's signature over one of the certificate's own
    payloads is a part of the corresponding aggregate), whose stake - each validator counted once
    - meets the threshold of the certificate type. -/
theorem cert_backed (e : Epoch) (c : Cert) (h : validateCert e c = .ok) :
    ∃ S : List Nat, S.Nodup ∧
      (∀ i ∈ S, i < e.n ∧ ∃ hf ∈ c.halves, (⟨e.keyOf i, hf.2⟩ : Part) ∈ hf.1.sig) ∧
      stakeOf e S * c.threshold.2 ≥ e.total * c.threshold.1 := by
  rw [cert_admitted_iff] at h
  obtain ⟨_, hst, hh⟩ := h
  refine ⟨(List.range e.n).filter c.marks, ?_, ?_, ?_⟩
  · exact List.Pairwise.filter _ List.nodup_range
  · intro i hi
    simp only [List.mem_filter, List.mem_range] at hi
    refine ⟨hi.1, ?_⟩
    have hm := hi.2
    unfold Cert.marks at hm
    simp only [List.any_eq_true] at hm
    obtain ⟨hf, hmem, hsg⟩ := hm
    refine ⟨hf, hmem, ?_⟩
    obtain ⟨_, _, hperm⟩ := hh hf hmem
    rw [hperm.mem_iff]
    exact List.mem_map.mpr ⟨i, (mem_signers_iff hf.1 i).mpr hsg, rfl⟩
  · rw [← stakeWhere_eq_stakeOf]; exact hst

/-- The counted stake never exceeds the total (each validator is counted at most once, however many
    halves mark it). -/
theorem counted_stake_le_total (e : Epoch) (c : Cert) : stakeWhere c.marks 0 e.vals ≤ e.total :=
  stakeWhere_le _ _ _

/-- An aggregate signature value verifies for at most one payload: an aggregate accepted in some
    half of an admitted certificate is not accepted under any other (kind, slot, hash) - in
    particular not in the other half of a mixed certificate, and not for another slot or block. -/
theorem agg_payload_unique (e : Epoch) (c c' : Cert) (h : validateCert e c = .ok) (h' : validateCert e c' = .ok)
    (a a' : Agg) (p p' : Payload) (ha : (a, p) ∈ c.halves) (ha' : (a', p') ∈ c'.halves) (hs : a.sig = a'.sig) :
    p = p' := by
  rw [cert_admitted_iff] at h h'
  have v := (Agg.verify_true_iff a p e.pks).mpr (by rw [e.pks_length]; exact h.2.2 _ ha)
  have v' := (Agg.verify_true_iff a' p' e.pks).mpr (by rw [e.pks_length]; exact h'.2.2 _ ha')
  exact verify_payload_unique a a' p p' e.pks hs v v'

/-- ... and (keys distinct) for exactly one signer set: any change of the bitmask of an admitted
    certificate that keeps the signature is rejected. -/
theorem agg_signers_unique (e : Epoch) (hk : e.KeysDistinct) (c c' : Cert) (h : validateCert e c = .ok)
    (h' : validateCert e c' = .ok) (a a' : Agg) (p p' : Payload) (ha : (a, p) ∈ c.halves)
    (ha' : (a', p') ∈ c'.halves) (hs : a.sig = a'.sig) : a = a' := by
  have hp := agg_payload_unique e c c' h h' a a' p p' ha ha' hs
  subst hp
  rw [cert_admitted_iff] at h h'
  have v := (Agg.verify_true_iff a p e.pks).mpr (by rw [e.pks_length]; exact h.2.2 _ ha)
  have v' := (Agg.verify_true_iff a' p e.pks).mpr (by rw [e.pks_length]; exact h'.2.2 _ ha')
  have := verify_bits_unique e hk a a' p hs v v'
  cases a; cases a'; simp_all

/-- Swapping the two halves of an admitted notar-fallback certificate is rejected with
    `InvalidSignature` (whatever stake is declared). -/
theorem half_swap_rejected_nf (e : Epoch) (s hsh st st' : Nat) (a1 a2 : Option Agg)
    (h : validateCert e (.notarFallback s hsh a1 a2 st) = .ok) :
    validateCert e (.notarFallback s hsh a2 a1 st') = .err .invalidSignature := by
  have hmarks : stakeWhere (Cert.notarFallback s hsh a2 a1 st').marks 0 e.vals =
      stakeWhere (Cert.notarFallback s hsh a1 a2 st).marks 0 e.vals := by
    congr 1; funext i
    cases a1 <;> cases a2 <;> simp [Cert.marks, Cert.halves, optHalf, Bool.or_comm]
  have hadm := (cert_admitted_iff e _).mp h
  obtain ⟨ht, hst, hh⟩ := hadm
  cases hv : validateCert e (.notarFallback s hsh a2 a1 st') with
  | ok =>
    -- some half is present (the threshold is met with non-zero total), and it would verify two payloads
    exfalso
    cases a1 with
    | some x =>
      have := agg_payload_unique e _ _ h hv x x (.notar s hsh) (.notarFallback s hsh)
        (by simp [Cert.halves, optHalf]) (by cases a2 <;> simp [Cert.halves, optHalf]) rfl
      cases this
    | none =>
      cases a2 with
      | some y =>
        have := agg_payload_unique e _ _ h hv y y (.notarFallback s hsh) (.notar s hsh)
          (by simp [Cert.halves, optHalf]) (by simp [Cert.halves, optHalf]) rfl
        cases this
      | none =>
        have hz : stakeWhere (Cert.notarFallback s hsh none none st).marks 0 e.vals = 0 := by
          have : (Cert.notarFallback s hsh none none st).marks = fun _ => false := by
            funext i; simp [Cert.marks, Cert.halves, optHalf]
          rw [this]; exact stakeWhere_false _ _
        rw [hz] at hst
        simp only [Cert.threshold, AgModel.Gen.QUORUM_THRESHOLD_NUM, AgModel.Gen.QUORUM_THRESHOLD_DEN] at hst
        omega
  | panic => exact absurd hv (validateCert_total e _ ht)
  | err x =>
    cases x with
    | invalidSignature => rfl
    | insufficientStake =>
      exfalso
      unfold validateCert checkThreshold isMet at hv
      rw [hmarks] at hv
      have hth : (Cert.notarFallback s hsh a2 a1 st').threshold = (Cert.notarFallback s hsh a1 a2 st).threshold := rfl
      rw [hth] at hv
      simp only [ht, if_false, hst, decide_true] at hv
      split at hv <;> simp_all

/-- Swapping the two halves of an admitted skip certificate is rejected with
    `InvalidSignature` (whatever stake is declared). -/
theorem half_swap_rejected_skip (e : Epoch) (s st st' : Nat) (a1 a2 : Option Agg)
    (h : validateCert e (.skip s a1 a2 st) = .ok) :
    validateCert e (.skip s a2 a1 st') = .err .invalidSignature := by
  have hmarks : stakeWhere (Cert.skip s a2 a1 st').marks 0 e.vals =
      stakeWhere (Cert.skip s a1 a2 st).marks 0 e.vals := by
    congr 1; funext i
    cases a1 <;> cases a2 <;> simp [Cert.marks, Cert.halves, optHalf, Bool.or_comm]
  have hadm := (cert_admitted_iff e _).mp h
  obtain ⟨ht, hst, hh⟩ := hadm
  cases hv : validateCert e (.skip s a2 a1 st') with
  | ok =>
    -- some half is present (the threshold is met with non-zero total), and it would verify two payloads
    exfalso
    cases a1 with
    | some x =>
      have := agg_payload_unique e _ _ h hv x x (.skip s) (.skipFallback s)
        (by simp [Cert.halves, optHalf]) (by cases a2 <;> simp [Cert.halves, optHalf]) rfl
      cases this
    | none =>
      cases a2 with
      | some y =>
        have := agg_payload_unique e _ _ h hv y y (.skipFallback s) (.skip s)
          (by simp [Cert.halves, optHalf]) (by simp [Cert.halves, optHalf]) rfl
        cases this
      | none =>
        have hz : stakeWhere (Cert.skip s none none st).marks 0 e.vals = 0 := by
          have : (Cert.skip s none none st).marks = fun _ => false := by
            funext i; simp [Cert.marks, Cert.halves, optHalf]
          rw [this]; exact stakeWhere_false _ _
        rw [hz] at hst
        simp only [Cert.threshold, AgModel.Gen.QUORUM_THRESHOLD_NUM, AgModel.Gen.QUORUM_THRESHOLD_DEN] at hst
        omega
  | panic => exact absurd hv (validateCert_total e _ ht)
  | err x =>
    cases x with
    | invalidSignature => rfl
    | insufficientStake =>
      exfalso
      unfold validateCert checkThreshold isMet at hv
      rw [hmarks] at hv
      have hth : (Cert.skip s a2 a1 st').threshold = (Cert.skip s a1 a2 st).threshold := rfl
      rw [hth] at hv
      simp only [ht, if_false, hst, decide_true] at hv
      split at hv <;> simp_all

/-- A fast-final certificate is a notar aggregate with a higher threshold: whatever is admitted as
    fast-final is admitted as notarization for the same slot and block (the converse needs 4/5). -/
theorem fastFinal_implies_notar (e : Epoch) (s hsh st st' : Nat) (a : Agg)
    (h : validateCert e (.fastFinal s hsh a st) = .ok) : validateCert e (.notar s hsh a st') = .ok := by
  rw [cert_admitted_iff] at h ⊢
  obtain ⟨ht, hst, hh⟩ := h
  refine ⟨ht, ?_, hh⟩
  have hm : (Cert.notar s hsh a st').marks = (Cert.fastFinal s hsh a st).marks := rfl
  rw [hm]
  simp only [Cert.threshold, AgModel.Gen.QUORUM_THRESHOLD_NUM, AgModel.Gen.QUORUM_THRESHOLD_DEN,
    AgModel.Gen.STRONG_QUORUM_THRESHOLD_NUM, AgModel.Gen.STRONG_QUORUM_THRESHOLD_DEN] at hst ⊢
  omega

/-- The thresholds the model uses are the constants of the source: 3/5 for notar, notar-fallback,
    skip and final certificates, 4/5 for fast-final. -/
theorem thresholds_are_source :
    (∀ s h a st, (Cert.notar s h a st).threshold = (AgModel.Gen.QUORUM_THRESHOLD_NUM, AgModel.Gen.QUORUM_THRESHOLD_DEN)) ∧
    (∀ s h a st, (Cert.fastFinal s h a st).threshold = (AgModel.Gen.STRONG_QUORUM_THRESHOLD_NUM, AgModel.Gen.STRONG_QUORUM_THRESHOLD_DEN)) ∧
    AgModel.Gen.QUORUM_THRESHOLD_NUM * 5 = 3 * AgModel.Gen.QUORUM_THRESHOLD_DEN ∧
    AgModel.Gen.STRONG_QUORUM_THRESHOLD_NUM * 5 = 4 * AgModel.Gen.STRONG_QUORUM_THRESHOLD_DEN := by
  refine ⟨fun _ _ _ _ => rfl, fun _ _ _ _ => rfl, by decide, by decide⟩

/-! ## the bitmask decoder (`read_bitvec`) -/

/-- Whatever `num_bits` and word vector arrive on the wire, a decoded bitmask has exactly
    `num_bits ≤ 64·⌈MAX_SIGNERS/64⌉` bits; longer claims are decode errors. -/
theorem readBitvec_length (maxBits numBits : Nat) (ws : List Nat) (bits : List Bool)
    (h : readBitvec maxBits numBits ws = some bits) :
    bits.length = numBits ∧ numBits ≤ 64 * ((maxBits + 63) / 64) := by
  unfold readBitvec at h
  split at h
  · simp at h
  · split at h
    · simp at h
    · rename_i h1 h2
      simp only [Option.some.injEq] at h
      subst h
      have hl := bitsOfWords_length ws
      refine ⟨by rw [List.length_take, hl]; omega, ?_⟩
      have : ws.length ≤ (maxBits + 63) / 64 := by omega
      calc numBits ≤ 64 * ws.length := by omega
        _ ≤ 64 * ((maxBits + 63) / 64) := Nat.mul_le_mul_left 64 this

/-! ## non-vacuity and concrete witnesses -/

private def ep : Epoch := ⟨[⟨10, 3⟩, ⟨11, 1⟩, ⟨12, 1⟩, ⟨13, 1⟩, ⟨14, 4⟩]⟩   -- total stake 10

/-- A concrete epoch with unequal stakes: an honest vote is admitted; the same signature under
    another kind / slot / hash / signer, a signature by an outsider, an out-of-range signer are
    rejected with the right error. -/
example :
    validateVote ep ⟨.notar 5 7, [⟨12, .notar 5 7⟩], 2⟩ = .ok ∧
    validateVote ep ⟨.notarFallback 5 7, [⟨12, .notar 5 7⟩], 2⟩ = .err .invalidSignature ∧
    validateVote ep ⟨.notar 6 7, [⟨12, .notar 5 7⟩], 2⟩ = .err .invalidSignature ∧
    validateVote ep ⟨.notar 5 8, [⟨12, .notar 5 7⟩], 2⟩ = .err .invalidSignature ∧
    validateVote ep ⟨.notar 5 7, [⟨12, .notar 5 7⟩], 3⟩ = .err .invalidSignature ∧
    validateVote ep ⟨.notar 5 7, [⟨99, .notar 5 7⟩], 2⟩ = .err .invalidSignature ∧
    validateVote ep ⟨.notar 5 7, [⟨12, .notar 5 7⟩], 5⟩ = .err .unknownSigner := by decide

/-- Certificates on the same epoch: stake 6 of 10 (validators 0,1,2,3) is admitted as notar and
    rejected as fast-final; validators 0 and 4 in *both* halves of a skip certificate count once
    (7 of 10: admitted) while {1,2,3} in both halves (3 of 10, 6 if double-counted) is rejected;
    a wrong declared stake changes nothing; bitmask of length 6 or 4 is rejected. -/
example :
    let sigN (ks : List Nat) : Sig := ks.map (fun k => ⟨k, .notar 5 7⟩)
    let sigS (ks : List Nat) : Sig := ks.map (fun k => ⟨k, .skip 5⟩)
    let sigSF (ks : List Nat) : Sig := ks.map (fun k => ⟨k, .skipFallback 5⟩)
    validateCert ep (.notar 5 7 ⟨sigN [10, 11, 12, 13], [true, true, true, true, false]⟩ 0) = .ok ∧
    validateCert ep (.fastFinal 5 7 ⟨sigN [10, 11, 12, 13], [true, true, true, true, false]⟩ 10) = .err .insufficientStake ∧
    validateCert ep (.skip 5 (some ⟨sigS [10, 14], [true, false, false, false, true]⟩)
                             (some ⟨sigSF [14, 10], [true, false, false, false, true]⟩) 14) = .ok ∧
    validateCert ep (.skip 5 (some ⟨sigS [11, 12, 13], [false, true, true, true, false]⟩)
                             (some ⟨sigSF [11, 12, 13], [false, true, true, true, false]⟩) 6) = .err .insufficientStake ∧
    validateCert ep (.notar 5 7 ⟨sigN [10, 11, 12, 13], [true, true, true, true, false, false]⟩ 6) = .err .invalidSignature ∧
    validateCert ep (.notar 5 7 ⟨sigN [10, 11, 12, 13], [true, true, true, true]⟩ 6) = .err .invalidSignature ∧
    validateCert ep (.notar 5 8 ⟨sigN [10, 11, 12, 13], [true, true, true, true, false]⟩ 6) = .err .invalidSignature ∧
    validateCert ep (.notar 5 7 ⟨sigN [10, 11, 12], [true, true, true, true, false]⟩ 6) = .err .invalidSignature := by
  decide

end AgModel.Cert
