import AgModel.Gen.Consts
import AgModel.Proofs.Route
/-!
# C16 — all nodes agree on shred routing; fault-free dissemination reaches everyone

Statements about `AgModel.Route` (model of `src/disseminator/{rotor,turbine,trivial}.rs` and of the
forwarding receive path of `consensus.rs`).  The seeded RNG, the committee sampler and the weighted
shuffle are parameters: a relay committee is any list of validators, a Turbine order is any
duplicate-free list of validators.  All theorems hold for every validator count `n`, every stake
distribution (stakes only influence *which* committee / permutation comes out), every fanout `f ≥ 1`
with `n·f + 1 < 2^64` (beyond, `own_pos * fanout + 1` overflows `usize` in the code), every slot.

Not a theorem (hidden nondeterminism cannot be expressed in a functional model): that two
*independently constructed* Rust instances compute the same committee / permutation from
`(slot, slice)` / `(slot, index_in_slot)`.  That part is decided by the differential run of
`harness/src/bin/c16.rs` (two instances per validator, different query orders, cold/warm caches);
it found D7 (`PartitionSampler::new` shuffled with the thread RNG), now fixed in the repository.
-/
namespace AgModel.Route

/-! ## Agreement: routing is a function of (validator set, slot, slice, shred); the caches are
    transparent -/

/-- **Cache transparency.** Whatever sequence of queries and evictions one Rotor instance has seen
    (any call order, any construction time, any `quick_cache` eviction policy), every answer of
    `sample_relays` is the sampler's value at that `(slot, slice)` key. -/
theorem rotor_cache_transparent (sampler : Key → List Nat) (ops : List CacheOp) :
    ∀ a ∈ runCache sampler Cache.empty ops, a.2 = sampler a.1 :=
  runCache_sound sampler ops Cache.empty (by intro e he; simp [Cache.empty] at he)

/-- **Instances agree.** Two instances with the same (deterministic) sampler, driven by arbitrary,
    different operation sequences, give the same committee for the same `(slot, slice)`. -/
theorem rotor_instances_agree (sampler : Key → List Nat) (ops₁ ops₂ : List CacheOp)
    (a b : Key × List Nat) (ha : a ∈ runCache sampler Cache.empty ops₁)
    (hb : b ∈ runCache sampler Cache.empty ops₂) (hk : a.1 = b.1) : a.2 = b.2 := by
  rw [rotor_cache_transparent sampler ops₁ a ha, rotor_cache_transparent sampler ops₂ b hb, hk]

/-- The leader of a slot is a member of the validator set (`EpochInfo::leader` never indexes out of
    range for a non-empty set). -/
theorem leader_lt (n slot : Nat) (hn : 0 < n) : leader n slot < n := Nat.mod_lt _ hn

/-- the window constant of the model is the one in the source -/
theorem leader_def (n slot : Nat) : leader n slot = (slot / AgModel.Gen.SLOTS_PER_WINDOW) % n := rfl

/-! ## Rotor: every shred reaches everyone through exactly one relay broadcast -/

/-- **Rotor delivery sequence.** With relay `r = committee[shred]` (a member of the validator set) the
    loss-free run terminates and delivers first to the relay, then to everybody but relay and leader. -/
theorem rotor_run (n ldr : Nat) (committee : List Nat) (s r : Nat)
    (hc : committee[s]? = some r) (hr : r < n) :
    rotorRun n ldr committee s = r :: broadcastDests n r ldr ∧ rotorRunOk n ldr committee s = true :=
  rotor_run_eq n ldr committee s r hc hr

/-- **Rotor coverage.** Every validator other than the leader receives the shred exactly once; the
    leader receives it once if it is its own relay and never otherwise.  Any `n`, any committee. -/
theorem rotor_cover (n ldr : Nat) (committee : List Nat) (s r v : Nat)
    (hc : committee[s]? = some r) (hr : r < n) (hv : v < n) :
    (rotorRun n ldr committee s).count v = if v = ldr then (if r = ldr then 1 else 0) else 1 := by
  rw [(rotor_run n ldr committee s r hc hr).1]
  exact count_rotor n ldr r v hr hv

/-- **Exactly one relay broadcast.** Only the relay's `forward` sends anything. -/
theorem rotor_one_broadcast (n ldr own : Nat) (committee : List Nat) (s r : Nat)
    (hc : committee[s]? = some r) (hr : r < n) :
    rotorForward n ldr own committee s = (if own = r then .to (broadcastDests n r ldr) else .to []) := by
  have hrel : rotorRelay n committee s = some r := by simp [rotorRelay, hc, hr]
  simp [rotorForward, hrel]

/-- The relay's broadcast reaches exactly the validators other than relay and leader. -/
theorem rotor_broadcast_dests (n r l v : Nat) : v ∈ broadcastDests n r l ↔ v < n ∧ v ≠ r ∧ v ≠ l :=
  mem_broadcastDests n r l v

/-- A shred index beyond the sampler's quorum size, or a relay outside the validator set, is a panic
    (`committee[shred]`, `validator(relay)`): the reason `Rotor::new`/`new_fa1` ask for
    `TOTAL_SHREDS` relays. -/
theorem rotor_short_committee_panics (n : Nat) (committee : List Nat) (s : Nat)
    (h : committee.length ≤ s) : rotorSend n committee s = .panic := by
  have : committee[s]? = none := List.getElem?_eq_none h
  simp [rotorSend, rotorRelay, this]

/-! ## Turbine: the forwarding graph is a tree covering everyone exactly once -/

/-- In the Turbine layout every position `q ≥ 1` is a child of exactly one position: its parent
    `(q-1)/f` (what `TurbineTree::new` computes as `parent_pos`). -/
theorem parent_unique (n f p q : Nat) (hq : 1 ≤ q) (hqn : q < n) (hf : 1 ≤ f) :
    q ∈ childPos n f p ↔ p = parentPos f q := parent_unique' n f p q hq hqn hf

/-- Position 0 (the root) is nobody's child; a parent precedes its child (so every position is
    reachable from the root by induction on the position). -/
theorem root_no_parent (n f p : Nat) : 0 ∉ childPos n f p := by rw [mem_childPos]; omega

theorem parent_lt (f q : Nat) (hq : 1 ≤ q) : parentPos f q < q := by
  unfold parentPos
  have := Nat.div_le_self (q - 1) f
  omega

/-- What each validator does: validator `perm[i]` agrees with everybody on the root `perm[0]` and
    forwards to the validators at positions `i·f+1 … i·f+f`. -/
theorem turbine_tree (perm : List Nat) (f : Nat) (hnd : perm.Nodup) (hf : 1 ≤ f)
    (hb : perm.length * f + 1 < 2 ^ 64) (i : Nat) (h : i < perm.length) :
    turbineTree perm f perm[i] = some (perm[0]'(by omega), (perm.drop (i * f + 1)).take f) :=
  turbineTree_getElem perm f hnd hf hb i h

/-- **Turbine coverage (FIFO schedule).** For every duplicate-free order of the validators, every
    fanout `f ≥ 1` and every leader in the set, the loss-free run terminates and its delivery
    sequence *is* the order: every validator (the leader included, which is a node of the tree)
    receives the shred exactly once. -/
theorem turbine_run (perm : List Nat) (f ldr : Nat) (hnd : perm.Nodup) (hf : 1 ≤ f)
    (hb : perm.length * f + 1 < 2 ^ 64) (hl : ldr ∈ perm) :
    turbineRun perm f ldr = perm ∧ turbineRunOk perm f ldr = true := by
  obtain ⟨j, hj, rfl⟩ := List.getElem_of_mem hl
  have hpos : 0 < perm.length := by omega
  have hsend : turbineSend perm f perm[j] = .to [perm[0]] := by
    simp [turbineSend, turbine_tree perm f hnd hf hb j hj]
  have hfwd : ∀ i (h : i < perm.length), turbineForward perm f perm[i] = .to ((perm.drop (i * f + 1)).take f) := by
    intro i h
    simp [turbineForward, turbine_tree perm f hnd hf hb i h]
  have hq : [perm[0]] = (perm.drop 0).take (min perm.length (0 * f + 1) - 0) := by
    have : min perm.length (0 * f + 1) - 0 = 1 := by omega
    rw [this, List.drop_zero]
    cases perm with
    | nil => simp at hpos
    | cons x xs => simp
  have := bfs perm f (turbineForward perm f) hf hfwd (perm.length + 1) 0 (by omega) (by omega)
  unfold turbineRun turbineRunOk
  rw [hsend]
  simp only [outDests]
  rw [hq, this.1, this.2]
  simp

/-- **Exactly once under Turbine.** If the shuffle output is a permutation of the validator set, every
    validator receives every shred exactly once, for every fanout and every leader. -/
theorem turbine_cover_once (perm : List Nat) (f ldr v : Nat) (hnd : perm.Nodup) (hf : 1 ≤ f)
    (hb : perm.length * f + 1 < 2 ^ 64) (hl : ldr ∈ perm) (hv : v ∈ perm) :
    (turbineRun perm f ldr).count v = 1 := by
  rw [(turbine_run perm f ldr hnd hf hb hl).1, count_of_nodup hnd]
  simp [hv]

/-- **Turbine coverage, schedule independent.** In *any* loss-free run the number of copies `r q`
    received by position `q` satisfies the flow equations (one copy from the leader to the root,
    plus one copy per copy received by each position that has `q` as a child — every received shred
    is forwarded, `consensus.rs::handle_disseminator_shred`).  Their only solution is `r ≡ 1`. -/
theorem turbine_flow_unique (n f : Nat) (hf : 1 ≤ f) (r : Nat → Nat)
    (h : ∀ q, q < n → r q = (if q = 0 then 1 else 0) + inflow n f r q) : ∀ q, q < n → r q = 1 := by
  intro q
  induction q using Nat.strongRecOn with
  | _ q ih =>
    intro hq
    rw [h q hq]
    by_cases h0 : q = 0
    · subst h0; simp [inflow_zero]
    · rw [inflow_pos n f r q (by omega) hq hf]
      have hp : parentPos f q < q := by
        unfold parentPos
        have := Nat.div_le_self (q - 1) f
        omega
      rw [ih _ hp (by omega)]
      simp [h0]
/-- Degenerate fanout 0: every validator but the root panics when it builds its tree
    (`(own_pos - 1) / fanout`) — `with_fanout(0)` is not a usable configuration. -/
theorem turbine_fanout_zero_panics (perm : List Nat) (hnd : perm.Nodup) (i : Nat) (h : i < perm.length)
    (hi : i ≠ 0) : turbineForward perm 0 perm[i] = .panic := by
  cases perm with
  | nil => simp at h
  | cons r rest => simp [turbineForward, turbineTree, posOf_getElem (r :: rest) hnd i h, hi]

/-! ## Trivial disseminator -/

/-- The leader's single `send_to_many` reaches every validator exactly once. -/
theorem trivial_cover (n v : Nat) (hv : v < n) : (trivialRun n).count v = 1 := by
  have := run_leaves (fun _ => Out.to []) (n + 1) (List.range n) (by intros; rfl) (by simp)
  unfold trivialRun trivialSend outDests
  rw [this.1, count_of_nodup List.nodup_range]
  simp [hv]

/-! ## Non-vacuity -/

example : turbineRun [2, 0, 3, 1, 4] 2 4 = [2, 0, 3, 1, 4] ∧ turbineRunOk [2, 0, 3, 1, 4] 2 4 = true := by decide
example : turbineForward [2, 0, 3, 1, 4] 2 2 = .to [0, 3] ∧ turbineForward [2, 0, 3, 1, 4] 2 0 = .to [1, 4] := by decide
example : rotorRun 5 1 [3, 1, 4] 0 = [3, 0, 2, 4] ∧ rotorRun 5 1 [3, 1, 4] 1 = [1, 0, 2, 3, 4] := by decide
example : leader 5 23 = 0 ∧ leader 5 24 = 1 := by decide

end AgModel.Route
