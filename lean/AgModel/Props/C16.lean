import AgModel.Gen.Consts
import AgModel.Proofs.Route
/-!
# C16 — all nodes agree on shred routing; fault-free dissemination reaches everyone
-/
namespace AgModel.Route

/-- In the Turbine layout every position `q ≥ 1` is a child of exactly one position: its parent
    `(q-1)/f` (what `TurbineTree::new` computes as `parent_pos`). -/
theorem parent_unique (n f p q : Nat) (hq : 1 ≤ q) (hqn : q < n) (hf : 1 ≤ f) :
    q ∈ childPos n f p ↔ p = parentPos f q := by
  rw [mem_childPos]; unfold parentPos
  constructor
  · intro ⟨h1, h2, _⟩
    have : (q - 1) / f = p := by
      apply Nat.div_eq_of_lt_le
      · omega
      · rw [Nat.succ_mul]; omega
    omega
  · intro h
    subst h
    have h1 := Nat.div_mul_le_self (q - 1) f
    have h2 := Nat.lt_div_mul_add (a := q - 1) (b := f) (by omega)
    omega

end AgModel.Route
