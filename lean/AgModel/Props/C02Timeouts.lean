import AgModel.Proofs.MachIntExt
import AgModel.Proofs.ProgressSkip
/-!
# C02 (progress once the network is timely): the timeout arithmetic of Votor, on machine integers

`Votor::set_timeouts` (`src/consensus/votor.rs:315-335`) with the real `std::time::Duration` arithmetic
(`{secs: u64, nanos: u32}`, `+` / `* u32` panic on overflow, `saturating_sub`, `from_millis`, `checked_mul(3).unwrap()`)
and the constants `DELTA`, `DELTA_BLOCK`, `DELTA_FIRST_SLICE`, `DELTA_TIMEOUT` read from `src/consensus.rs` on every
run (`Gen/Consts.lean`). For ALL u64 slots:

* the only panic is the `assert!(slot.is_start_of_window())`; no `Duration` expression overflows;
* on an ideal clock the timeout of the `i`-th slot of the window fires exactly `Δtimeout + (i + 1)·Δblock` after the
  call (the formula of the protocol), the crashed-leader timeout at `Δtimeout + Δfirst_slice`;
* these are strictly increasing in the slot index, all later than `Δtimeout`, the crashed-leader timeout first;
* hence the `Timeout` events of a window fire in slot order: exactly the list `List.range' s (wEnd s - s)` in which the
  progress theorem `Cluster.silent_leader_skipped` (`Props/C02Cluster.lean`) delivers them (`skipSched`).

The `Duration` operations are characterised for ALL well-formed operands (`Dur.wf`: `nanos < 10^9`, the type's
invariant), not only the constants. `none` = panic.
-/
namespace AgModel.MachInt.Timeouts
open AgModel AgModel.MachInt

theorem windowSlots_eq (n : Nat) : Votor.windowSlots n = List.range' (n / W * W) W := rfl

/-! ## `Duration` arithmetic, all operands -/

/-- `Duration::from_millis` never panics, keeps the invariant, and is exact. -/
theorem fromMillis_exact (ms : UInt64) :
    (Dur.fromMillis ms).wf ∧ (Dur.fromMillis ms).toNanos = ms.toNat * 1000000 :=
  ⟨Dur.fromMillis_wf ms, Dur.fromMillis_toNanos ms⟩

/-- `a + b` on `Duration` panics iff the exact sum is `≥ 2^64 s`; otherwise it is exact (in ns). -/
theorem add_panics_iff (a b : Dur) (ha : a.wf) (hb : b.wf) :
    (a.add b = none ↔ 2 ^ 64 * NPS ≤ a.toNanos + b.toNanos) ∧
    ∀ c, a.add b = some c → c.wf ∧ c.toNanos = a.toNanos + b.toNanos :=
  ⟨Dur.checkedAdd_none a b ha hb, fun c h => Dur.checkedAdd_some a b c ha hb h⟩

/-- `a * k` (`k: u32`) panics (`checked_mul` is `None`) iff the exact product is `≥ 2^64 s`; otherwise exact. -/
theorem mul_panics_iff (a : Dur) (k : UInt64) (ha : a.wf) (hk : k.toNat < 2 ^ 32) :
    (a.mul k = none ↔ 2 ^ 64 * NPS ≤ a.toNanos * k.toNat) ∧
    ∀ c, a.mul k = some c → c.wf ∧ c.toNanos = a.toNanos * k.toNat :=
  ⟨Dur.checkedMul_none a k ha hk, fun c h => Dur.checkedMul_some a c k ha hk h⟩

/-- `saturating_sub` never panics and is truncated subtraction. -/
theorem saturatingSub_exact (a b : Dur) (ha : a.wf) (hb : b.wf) :
    (a.saturatingSub b).wf ∧ (a.saturatingSub b).toNanos = a.toNanos - b.toNanos :=
  Dur.saturatingSub_spec a b ha hb

/-- `tokio::time::sleep(d)`: the deadline `now + d` is exact unless `now` is within `d + 1 s` of the end of the
    `i64` seconds range (then tokio substitutes a far-future deadline; it never panics). -/
theorem sleep_deadline_exact (now : Inst) (d : Dur) (hn : now.nanos < NPS) (hd : d.wf)
    (h : now.secs + d.secs.toNat + 1 < 2 ^ 63) :
    ∃ t, sleepDeadline now d = some t ∧ t.nanos < NPS ∧ t.toNanos = now.toNanos + d.toNanos := by
  unfold Dur.wf at hd
  unfold sleepDeadline Inst.checkedAdd
  have h1 : ¬ (now.secs + (d.secs.toNat : Int) ≥ 2 ^ 63) := by omega
  have h2 : ¬ (now.secs + (d.secs.toNat : Int) + 1 ≥ 2 ^ 63) := by omega
  simp only [h1, h2, if_false]
  by_cases hc : now.nanos + d.nanos ≥ NPS
  · rw [if_pos hc]
    refine ⟨_, rfl, ?_, ?_⟩
    · simp only; rw [NPS_eq] at *; omega
    · unfold Inst.toNanos Dur.toNanos; simp only; rw [NPS_eq] at *; push_cast; omega
  · rw [if_neg hc]
    refine ⟨_, rfl, ?_, ?_⟩
    · simp only; omega
    · unfold Inst.toNanos Dur.toNanos; simp only; rw [NPS_eq] at *; push_cast; omega

/-! ## the constants -/

/-- `DELTA.checked_mul(3).unwrap()` is `Some` (it compiles), `DELTA_TIMEOUT = 3·DELTA` exactly; the constants keep the
    `Duration` invariant; the const assertion `DELTA_FIRST_SLICE <= DELTA_BLOCK` holds; `DELTA_BLOCK > 0`. -/
theorem consts_ok :
    (∃ dt, DELTA_TIMEOUT = some dt ∧ dt.wf ∧ dt.toNanos = Gen.DELTA_TIMEOUT_FACTOR * DELTA.toNanos) ∧
    DELTA.wf ∧ DELTA_BLOCK.wf ∧ DELTA_FIRST_SLICE.wf ∧ constAssert = true ∧ 0 < DELTA_BLOCK.toNanos := by
  refine ⟨⟨⟨0, 750000000⟩, by decide, by decide, by decide⟩, by decide, by decide, by decide, by decide, by decide⟩

/-! ## `set_timeouts` -/

/-- **No overflow panic.** `set_timeouts(s)` panics iff `s` is not the first slot of a window (its `assert!`): for
    every u64 slot, including the last window, no `Duration` / slot expression in it overflows. -/
theorem setTimeouts_panics_iff (s : UInt64) : setTimeouts s = none ↔ s.toNat % W ≠ 0 := by
  unfold setTimeouts
  obtain ⟨dt, hdt, hwf, hns⟩ := DELTA_TIMEOUT_some
  obtain ⟨l, hl, _⟩ := slotsInWindow_eq s
  by_cases h : s.toNat % W = 0
  · rw [if_neg (by rw [(isStart_iff s).mpr h]; simp), hdt]
    simp only
    cases hadd : dt.add DELTA_FIRST_SLICE with
    | none =>
      have := (Dur.checkedAdd_none dt _ hwf DELTA_FIRST_SLICE_wf.1).mp hadd
      rw [hns, DELTA_FIRST_SLICE_wf.2] at this
      have := consts_fit
      omega
    | some d0 => simp [hl, h]
  · have : isStart s = false := by
      cases hh : isStart s with
      | false => rfl
      | true => exact absurd ((isStart_iff s).mp hh) h
    simp [this, h]

/-- **Exact schedule (refinement to the Nat form).** For every window start `s` the sleeps of the spawned task add up,
    on an ideal clock, to: `TimeoutCrashedLeader(s)` at `Δtimeout + Δfirst_slice`, then `Timeout(s + i)` at exactly
    `Δtimeout + (i + 1)·Δblock` for `i = 0 … W-1` (`natSchedule`), nothing else. -/
theorem setTimeouts_exact (s : UInt64) (h : s.toNat % W = 0) :
    ∃ sched, setTimeouts s = some sched ∧ sched.length = W + 1 ∧ fireTimes sched 0 = natSchedule s.toNat := by
  obtain ⟨dt, hdt, hwf, hns⟩ := DELTA_TIMEOUT_some
  obtain ⟨l, hl, hm⟩ := slotsInWindow_eq s
  have hlen : l.length = W := by
    have := congrArg List.length hm
    rw [List.length_map, windowSlots_eq, List.length_range'] at this; exact this
  have hfirst : s.toNat / W * W = s.toNat := by
    have := Nat.div_add_mod s.toNat W
    rw [h, Nat.add_zero, Nat.mul_comm] at this; exact this
  unfold setTimeouts
  rw [if_neg (by rw [(isStart_iff s).mpr h]; simp), hdt]
  simp only
  cases hadd : dt.add DELTA_FIRST_SLICE with
  | none =>
    have := (Dur.checkedAdd_none dt _ hwf DELTA_FIRST_SLICE_wf.1).mp hadd
    rw [hns, DELTA_FIRST_SLICE_wf.2] at this
    have := consts_fit
    omega
  | some d0 =>
    have hd0 := (Dur.checkedAdd_some dt _ d0 hwf DELTA_FIRST_SLICE_wf.1 hadd).2
    rw [hns, DELTA_FIRST_SLICE_wf.2] at hd0
    rw [hl]
    refine ⟨_, rfl, by simp [hlen], ?_⟩
    -- the window: its start, then W-1 further slots
    have hW := W_pos
    cases l with
    | nil => simp at hlen; omega
    | cons x r =>
      simp only [List.length_cons] at hlen
      have hm' : (x :: r).map UInt64.toNat = List.range' s.toNat (r.length + 1) := by
        rw [hm, windowSlots_eq, hfirst, hlen]
      simp only [List.map_cons, List.range'_succ, List.cons.injEq] at hm'
      obtain ⟨hx, hr⟩ := hm'
      have htail := fireTimes_tail r s.toNat 0 (0 + d0.toNanos + (slotSleep x).toNanos) h
        (by rw [hr]) (by omega)
      have hsx : (slotSleep x).toNanos = natDeltaBlockNs - natDeltaFirstSliceNs := by
        rw [slotSleep_toNanos, if_pos (by rw [hx]; exact h)]
      show (0 + d0.toNanos, TEv.crashed s.toNat) :: (0 + d0.toNanos + (slotSleep x).toNanos, TEv.timeout x.toNat) ::
        fireTimes (r.map (fun x => (slotSleep x, TEv.timeout x.toNat))) (0 + d0.toNanos + (slotSleep x).toNanos) = _
      rw [htail, hsx, hd0, hx]
      unfold natSchedule natCrashed
      rw [← hlen, List.range_succ_eq_map, List.map_cons, List.map_map]
      have hfb := first_le_block
      refine List.cons_eq_cons.mpr ⟨by simp, List.cons_eq_cons.mpr ⟨?_, ?_⟩⟩
      · unfold natTimeout; refine Prod.ext (by simp only; omega) (by simp)
      · apply List.map_congr_left
        intro i _
        simp only [Function.comp]
        unfold natTimeout
        refine Prod.ext ?_ ?_
        · simp only; rw [Nat.add_mul (i + 1) 1]; omega
        · simp only; congr 1; omega

/-- **Strictly increasing, at least the base.** The timeouts of the slots of one window are strictly increasing in the
    slot index; the `i`-th is exactly `base + (i + 1)·Δblock ≥ base + Δblock` with `base = Δtimeout = 3Δ`; the
    crashed-leader timeout lies after the base and not after the first slot's timeout. -/
theorem natTimeout_strictMono_ge_base :
    (∀ i j, i < j → natTimeout i < natTimeout j) ∧
    (∀ i, natTimeout i = natDeltaTimeoutNs + (i + 1) * natDeltaBlockNs ∧ natDeltaTimeoutNs + natDeltaBlockNs ≤ natTimeout i) ∧
    natDeltaTimeoutNs ≤ natCrashed ∧ natCrashed ≤ natTimeout 0 ∧
    natDeltaTimeoutNs = Gen.DELTA_TIMEOUT_FACTOR * (Gen.DELTA_MS * 1000000) := by
  have hb := block_pos
  have hfb := first_le_block
  refine ⟨?_, ?_, ?_, ?_, ?_⟩
  · intro i j hij
    unfold natTimeout
    have : (i + 1) * natDeltaBlockNs < (j + 1) * natDeltaBlockNs := Nat.mul_lt_mul_of_pos_right (by omega) hb
    omega
  · intro i
    refine ⟨rfl, ?_⟩
    unfold natTimeout
    have : 1 * natDeltaBlockNs ≤ (i + 1) * natDeltaBlockNs := Nat.mul_le_mul_right _ (by omega)
    omega
  · unfold natCrashed; omega
  · unfold natCrashed natTimeout; omega
  · unfold natDeltaTimeoutNs; rw [Nat.mul_assoc]

/-- the fire times of `natSchedule` are pairwise strictly increasing in list order (with the production constants,
    where `Δfirst_slice < Δblock`): no two timeouts of a window coincide, they fire in the order they were requested -/
theorem natSchedule_strictly_increasing (f : Nat) :
    ((natSchedule f).map Prod.fst).Pairwise (· < ·) := by
  have : (natSchedule f).map Prod.fst = natCrashed :: (List.range W).map natTimeout := by
    simp [natSchedule, List.map_map, Function.comp_def]
  rw [this]; decide

/-- **Link to the progress model.** For a window start `s` the `Timeout` events fire in slot order, and that order is
    `Votor.windowSlots s` = `List.range' s (wEnd s - s)`: the list `ts` of `Cluster.skipSched c s ts` in
    `Cluster.silent_leader_skipped` / `timely_progress` (`Props/C02Cluster.lean`); `Votor.V.setTimeouts` emits
    `.timer s` under the same condition under which the machine form does not panic. -/
theorem fire_order_is_skipSched_order (s : UInt64) (h : s.toNat % W = 0) :
    ∃ sched, setTimeouts s = some sched ∧
      timeoutSlots (fireTimes sched 0) = Votor.windowSlots s.toNat ∧
      timeoutSlots (fireTimes sched 0) = List.range' s.toNat (Cluster.wEnd s.toNat - s.toNat) := by
  obtain ⟨sched, hs, _, hf⟩ := setTimeouts_exact s h
  have hfirst : s.toNat / W * W = s.toNat := by
    have := Nat.div_add_mod s.toNat W
    rw [h, Nat.add_zero, Nat.mul_comm] at this; exact this
  have hts : ∀ (n : Nat) (g : Nat → Nat), timeoutSlots ((List.range n).map (fun i => (g i, TEv.timeout (s.toNat + i)))) =
      (List.range n).map (fun i => s.toNat + i) := by
    intro n g
    generalize List.range n = l
    induction l with
    | nil => rfl
    | cons a r ih => simp only [List.map_cons, timeoutSlots, ih]
  have hslots : timeoutSlots (fireTimes sched 0) = List.range' s.toNat W := by
    rw [hf]; unfold natSchedule
    show timeoutSlots ((List.range W).map (fun i => (natTimeout i, TEv.timeout (s.toNat + i)))) = _
    rw [hts W natTimeout, List.range_eq_range', List.map_add_range']
    simp
  refine ⟨sched, hs, ?_, ?_⟩
  · rw [hslots]; unfold Votor.windowSlots Votor.firstInWindow
    show _ = List.range' (s.toNat / W * W) W
    rw [hfirst]
  · rw [hslots]; unfold Cluster.wEnd Votor.firstInWindow
    show _ = List.range' s.toNat (s.toNat / W * W + W - s.toNat)
    rw [hfirst, Nat.add_sub_cancel_left]

/-- the Votor model's `set_timeouts` (`Votor.V.setTimeouts`) panics exactly when the machine form does -/
theorem votor_model_agrees (v : Votor.V) (s : UInt64) (hv : v.panicked = false) :
    ((v.setTimeouts s.toNat).panicked = true ↔ setTimeouts s = none) := by
  rw [setTimeouts_panics_iff]
  unfold Votor.V.setTimeouts
  show (if s.toNat % W = 0 then _ else _ : Votor.V).panicked = true ↔ _
  by_cases h : s.toNat % W = 0
  · rw [if_pos h]; simp [Votor.V.emit, hv, h]
  · rw [if_neg h]; simp [Votor.V.panic, h]

/-! ## non-vacuity -/

example : (setTimeouts 8).map (fun l => fireTimes l 0) =
    some [(760000000, .crashed 8), (1150000000, .timeout 8), (1550000000, .timeout 9), (1950000000, .timeout 10),
      (2350000000, .timeout 11)] := by decide
example : setTimeouts 9 = none := by decide
example : (setTimeouts (UInt64.ofNat (2 ^ 64 - 4))).isSome = true := by decide
example : Dur.add ⟨UInt64.ofNat (2 ^ 64 - 1), 999999999⟩ ⟨0, 1⟩ = none := by decide
example : Dur.add ⟨UInt64.ofNat (2 ^ 64 - 1), 999999998⟩ ⟨0, 1⟩ = some ⟨UInt64.ofNat (2 ^ 64 - 1), 999999999⟩ := by decide
example : Dur.mul ⟨5, 500000000⟩ 3 = some ⟨16, 500000000⟩ := by decide
example : Dur.saturatingSub ⟨1, 0⟩ ⟨0, 1⟩ = ⟨0, 999999999⟩ := by decide

end AgModel.MachInt.Timeouts
