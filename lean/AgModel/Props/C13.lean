import AgModel.Proofs.Blockstore
/-!
# C13 — the blockstore rebuilds exactly the disseminated block, once, and flags bad ones
-/
namespace AgModel.Blockstore

/-- `flag_leader_misbehavior` notifies at most once: it sends `InvalidBlock` exactly when the slot
    was not flagged before, and the slot is flagged afterwards. -/
theorem flag_once (sd : SlotData) :
    (flag sd).1.misbehaved = true ∧ ((flag sd).2 = if sd.misbehaved then [] else [.invalidBlock]) := by
  unfold flag; cases h : sd.misbehaved <;> simp [h]

end AgModel.Blockstore
