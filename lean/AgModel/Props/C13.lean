import AgModel.Proofs.Blockstore
import AgModel.Proofs.BlockstoreHonest
/-!
# C13 — the blockstore rebuilds exactly the disseminated block, once, and flags bad ones
-/
namespace AgModel.Blockstore

/-- `flag_leader_misbehavior` notifies at most once: it sends `InvalidBlock` exactly when the slot
    was not flagged before, and the slot is flagged afterwards. -/
theorem flag_once (sd : SlotData) :
    (flag sd).1.misbehaved = true ∧ ((flag sd).2 = if sd.misbehaved then [] else [.invalidBlock]) := by
  unfold flag; cases h : sd.misbehaved <;> simp [h]

/-- **InvalidBlock exactly once, nothing from dissemination afterwards.** For every sequence of
    dissemination shreds whatsoever (any order, duplication, any mix of validly signed slices), the
    events sent to Votor are a sequence without `InvalidBlock`, optionally followed by exactly one
    `InvalidBlock` — after which the slot is flagged and nothing (no `Block`, no `FirstShred`) is
    announced from dissemination any more. -/
theorem invalid_once_then_silent (env : Nat → Content) (sd : SlotData) (ss : List Shred)
    (h : sd.misbehaved = false) :
    ∃ pre, (∀ e ∈ pre, e ≠ Event.invalidBlock) ∧
      (((runDissem env sd ss).2 = pre ∧ (runDissem env sd ss).1.misbehaved = false) ∨
       ((runDissem env sd ss).2 = pre ++ [.invalidBlock] ∧ (runDissem env sd ss).1.misbehaved = true)) := by
  induction ss generalizing sd with
  | nil => exact ⟨[], by simp, Or.inl ⟨rfl, h⟩⟩
  | cons s rest ih =>
    rcases addDissem_cases env sd s h with ⟨hm, hne⟩ | ⟨hm, hev⟩
    · obtain ⟨pre, hpre, hcase⟩ := ih (addDissem env sd s).1 hm
      refine ⟨(addDissem env sd s).2.2 ++ pre, ?_, ?_⟩
      · intro e he; rcases List.mem_append.mp he with he | he
        · exact hne e he
        · exact hpre e he
      · simp only [runDissem]
        rcases hcase with ⟨h1, h2⟩ | ⟨h1, h2⟩
        · left; exact ⟨by rw [h1], h2⟩
        · right; exact ⟨by rw [h1, List.append_assoc], h2⟩
    · refine ⟨[], by simp, Or.inr ?_⟩
      simp only [runDissem]
      rw [runDissem_flagged env _ rest hm]
      simp [hev, hm]

/-- once flagged, every dissemination shred is refused without any event -/
theorem flagged_refuses (env : Nat → Content) (sd : SlotData) (s : Shred) (h : sd.misbehaved = true) :
    addDissem env sd s = (sd, .err .invalidShred, []) := addDissem_flagged env sd s h

/-- **Only well-formed blocks are ever announced** (the safety half of `bad_block_flagged`, for every
    state and every shred, dissemination or repair): whenever `add_shred` announces a block,
    * its hash is the double-Merkle root of the reconstructed slices' roots, in slice order,
    * the first slice carries a parent, every slice's transactions decode and the block's
      transactions are their concatenation,
    * at most one later slice switches the parent, never to the current parent, and the announced
      parent is the switched one (else the first slice's),
    * the announced parent is in an earlier slot (fix D3),
    and exactly this block is what is stored as `completed`. -/
theorem announced_block_wellformed (env : Nat → Content) (b b' : BlockData) (s : Shred) (info : BlockInfo)
    (h : addShred env b s = (b', .ev (.block info))) :
    ∃ (b1 : BlockData) (first : RSlice) (p0 : Nat × Nat) (txs : List Nat),
      let vals := mapVals b1.cap b1.slices
      info.hash = (Merkle.Tree.new (vals.map (·.root))).root ∧
      b1.slices 0 = some first ∧ first.parent = some p0 ∧
      (∀ r ∈ vals, ∃ t, r.txs = some t) ∧ txs = vals.flatMap (fun r => r.txs.getD []) ∧
      ((switches vals = [] ∧ info.parent = p0) ∨
        (∃ r, switches vals = [r] ∧ r.parent = some info.parent ∧ info.parent ≠ p0)) ∧
      info.parent.1 < b1.slot ∧
      b'.completed = some ⟨info.hash, info.parent, txs⟩ := by
  obtain ⟨b1, hb1⟩ := addShred_block_origin env b b' s info h
  obtain ⟨last, first, p0, txs, _, _, _, hf, hp0, hfold, hslot, hhash, hcomp, _⟩ :=
    tryReconstructBlock_complete b1 b' info hb1
  obtain ⟨htx1, htx2⟩ := foldSlices_txs _ _ _ _ _ _ hfold
  refine ⟨b1, first, p0, txs, hhash, hf, hp0, htx1, by simpa using htx2, ?_, hslot, hcomp⟩
  rcases foldSlices_parent _ _ _ _ _ _ hfold with h1 | ⟨_, r, h2, h3, h4⟩
  · exact Or.inl h1
  · exact Or.inr ⟨r, h2, h3, h4⟩

/-- **Conflicting slices are flagged.** A validly signed shred whose commitment differs from the one
    cached for its slice index is answered `Equivocation`, and (on the dissemination path of a slot
    not yet flagged) exactly one `InvalidBlock` is sent and the slot is flagged. -/
theorem conflicting_slice_flagged (env : Nat → Content) (sd : SlotData) (s : Shred) (c : Commitment)
    (hm : sd.misbehaved = false) (hc : sd.dis.cache s.slice = some c) (hne : c ≠ s.commitment) :
    (addDissem env sd s).2 = (.err .equivocation, [.invalidBlock]) ∧ (addDissem env sd s).1.misbehaved = true := by
  unfold addDissem
  simp only [hm, Bool.false_eq_true, if_false]
  have : addShred env sd.dis s = (sd.dis, .err .equivocation) := by
    unfold addShred cacheStep; simp [hc, hne]
  simp [this, isBadErr, flag, hm]

/-- **Contradictory last-slice markers are flagged**, in both arrival orders: once slice `l` is marked
    last, a shred of a later slice, another last marker, or an unmarked shred of slice `l` is
    `Equivocation`; and a last marker on slice `k` arriving after any shred of a slice beyond `k` is
    `Equivocation` too (fix D2). -/
theorem contradictory_marker_flagged (env : Nat → Content) (sd : SlotData) (s : Shred)
    (hm : sd.misbehaved = false)
    (hbad : (∃ l, sd.dis.lastSlice = some l ∧ ¬ ((s.slice < l ∧ s.isLast = false) ∨ (s.slice = l ∧ s.isLast = true))) ∨
            (sd.dis.lastSlice = none ∧ s.isLast = true ∧ ∃ k, s.slice < k ∧ k < sd.dis.cap ∧ (sd.dis.cache k).isSome)) :
    (addDissem env sd s).2 = (.err .equivocation, [.invalidBlock]) ∧ (addDissem env sd s).1.misbehaved = true := by
  unfold addDissem
  simp only [hm, Bool.false_eq_true, if_false]
  have : (addShred env sd.dis s).2 = .err .equivocation := by
    unfold addShred
    cases hcs : cacheStep sd.dis s with
    | none => rfl
    | some b1 =>
      have hl : b1.lastSlice = sd.dis.lastSlice ∧ b1.cap = sd.dis.cap ∧ (∀ k, k ≠ s.slice → b1.cache k = sd.dis.cache k) := by
        unfold cacheStep at hcs
        split at hcs
        · split at hcs
          · simp at hcs
          · simp at hcs; subst hcs; simp
        · simp at hcs; subst hcs; simp [upd]; intro k hk; simp [hk]
      have hls : lastStep b1 s = none := by
        unfold lastStep
        rcases hbad with ⟨l, hl1, hl2⟩ | ⟨hn, hil, k, hk1, hk2, hk3⟩
        · rw [hl.1, hl1]
          simp only
          split
          · rename_i hcons
            exfalso; apply hl2
            simp at hcons
            rcases hcons with ⟨h1, h2⟩ | ⟨h1, h2⟩
            · exact Or.inl ⟨h1, h2⟩
            · exact Or.inr ⟨h1, h2⟩
          · rfl
        · rw [hl.1, hn]
          simp only [hil, if_true]
          have : hasKeyAbove b1.cap b1.cache s.slice = true := by
            unfold hasKeyAbove
            rw [List.any_eq_true]
            refine ⟨k, by rw [hl.2.1]; exact List.mem_range.mpr hk2, ?_⟩
            rw [hl.2.2 k (by omega)]
            simp [hk1, hk3]
          simp [this]
      simp [hls]
  cases hr : addShred env sd.dis s with
  | mk b r =>
    rw [hr] at this
    simp only at this
    subst this
    simp [isBadErr, flag, hm]

/-! ### blocks of a correct leader

`HBlock` describes a block as the leader cut it (`n ≥ 1` slices, roots, parent on the first slice and
optionally one handover switch, transactions); `HBlock.WF` says it is what a *correct* leader produces
(every slice decodes to what was encoded, the handover rules hold, the parent is in an earlier slot);
`HBlock.Honest s` says `s` is one of the leader's `64·n` shreds. The delivery `ss` below is an
arbitrary list of such shreds: any order, any duplication, any subset, interleaved across slices. -/

open HBlock

/-- dissemination state that holds only the leader's data and is not flagged -/
def GoodSd (B : HBlock) (cap : Nat) (sd : SlotData) : Prop := sd.misbehaved = false ∧ Good B cap sd.dis

theorem addDissem_good (B : HBlock) (env : Nat → Content) (cap : Nat) (hwf : B.WF env cap)
    (sd : SlotData) (s : Shred) (hg : GoodSd B cap sd) (hs : B.Honest s) :
    GoodSd B cap (addDissem env sd s).1 ∧ HonestRes B (addDissem env sd s).2.1 ∧
      (addDissem env sd s).2.2 = evOf (addDissem env sd s).2.1 ∧
      (addDissem env sd s).1.dis = (addShred env sd.dis s).1 ∧ (addDissem env sd s).2.1 = (addShred env sd.dis s).2 := by
  obtain ⟨hm, hgd⟩ := hg
  have h := addShred_good B env cap hwf sd.dis s hgd hs
  unfold addDissem
  simp only [hm, Bool.false_eq_true, if_false]
  cases hr : addShred env sd.dis s with
  | mk b r =>
    rw [hr] at h
    simp only at h ⊢
    have hnb : isBadErr r = false := by
      rcases h.2 with rfl | rfl | rfl | rfl <;> rfl
    simp only [hnb, Bool.false_eq_true, if_false]
    exact ⟨⟨rfl, h.1⟩, h.2, trivial, trivial, trivial⟩

/- Full statement (`honest_block_once`): for every block of a correct leader and every delivery that
   contains at least 32 distinct shreds of every slice: exactly one `FirstShred` (the first event),
   exactly one `Block` with the leader's hash / parent / transactions, emitted in the step that
   completes the last missing slice, never `InvalidBlock`, and afterwards every shred, slice root and
   proof is served and verifies.
   Proved below: everything except the two *existence* parts — (i) that the `Block` event IS emitted
   once ≥ 32 shreds of every slice arrived (liveness of reconstruction; needs the exact tracking of
   which indices are stored per slice), and (ii) that `FirstShred` is not emitted a second time
   (needs "the shred map never becomes empty again"). Both are checked on the real code by the
   oracle of `harness/src/bin/c13.rs` (keys `honest-block-once`, `honest-first-shred-once`) and the
   model agrees with the code on all those runs. -/

/-- **A correct leader's block: never flagged, announced at most once, and only as itself**
    (`honest_block_once`, safety part — for all block shapes and all deliveries).
    For every delivery `ss` of the leader's shreds into a fresh slot:
    * no `InvalidBlock` is ever sent and the slot is never flagged; no shred is answered with
      `Equivocation` / `InvalidShred`, and nothing panics;
    * every `Block` event carries exactly the leader's block: hash = double-Merkle root of the slice
      roots, the leader's (switched) parent; and the stored block has the leader's transactions;
    * the `Block` event is sent at most once;
    * everything the store holds afterwards (shreds, reconstructed slices, cached commitments, last
      slice index, completed block) is the leader's (`Good`). -/
theorem honest_block_once_partial (B : HBlock) (env : Nat → Content) (cap : Nat) (hwf : B.WF env cap)
    (sd : SlotData) (hg : GoodSd B cap sd) (ss : List Shred) (hss : ∀ s ∈ ss, B.Honest s) :
    GoodSd B cap (runDissem env sd ss).1 ∧
    (∀ e ∈ (runDissem env sd ss).2, e = .firstShred ∨ e = .block B.block.info) ∧
    ((runDissem env sd ss).2.count (.block B.block.info) ≤ (if sd.dis.completed.isSome then 0 else 1)) := by
  induction ss generalizing sd with
  | nil => exact ⟨hg, by simp [runDissem], by simp [runDissem]⟩
  | cons s rest ih =>
    have hs := hss s (List.mem_cons_self)
    obtain ⟨hg1, hres, hev, hdis, hr⟩ := addDissem_good B env cap hwf sd s hg hs
    obtain ⟨ih1, ih2, ih3⟩ := ih (addDissem env sd s).1 hg1 (fun x hx => hss x (List.mem_cons_of_mem _ hx))
    simp only [runDissem]
    refine ⟨ih1, ?_, ?_⟩
    · intro e he
      rcases List.mem_append.mp he with he | he
      · rw [hev] at he
        rcases hres with h | h | h | h <;> rw [h] at he <;> simp [evOf] at he
        · exact Or.inl he
        · exact Or.inr he
      · exact ih2 e he
    · rw [List.count_append, hev]
      by_cases hcomp : sd.dis.completed.isSome = true
      · -- already complete: this step announces nothing, and stays complete
        have hc := addShred_of_completed env sd.dis s hcomp
        have hstill : (addDissem env sd s).1.dis.completed.isSome = true := by rw [hdis, hc.1]; exact hcomp
        simp only [hstill, if_true] at ih3
        have : (evOf (addDissem env sd s).2.1).count (.block B.block.info) = 0 := by
          rcases hres with h | h | h | h <;> rw [h] <;> simp [evOf]
          exact absurd (hr ▸ h) (hc.2 _)
        simp only [hcomp, if_true]; omega
      · simp only [hcomp, Bool.false_eq_true, if_false]
        rcases hres with h | h | h | h
        · rw [h]; simp [evOf]; split at ih3 <;> omega
        · rw [h]; simp [evOf]; split at ih3 <;> omega
        · rw [h]; simp [evOf]; split at ih3 <;> omega
        · -- announced now: complete afterwards, so never again
          have hcomp' : (addDissem env sd s).1.dis.completed.isSome = true := by
            rw [hdis]
            have heq : addShred env sd.dis s = ((addShred env sd.dis s).1, .ev (.block B.block.info)) :=
              Prod.ext rfl (by rw [← hr]; exact h)
            obtain ⟨b1, hb1⟩ := addShred_block_origin env sd.dis (addShred env sd.dis s).1 s B.block.info heq
            obtain ⟨_, _, _, _, _, _, _, _, _, _, _, _, hcc, _⟩ := tryReconstructBlock_complete b1 _ _ hb1
            rw [hcc]; rfl
          simp only [hcomp', if_true] at ih3
          rw [h]; simp [evOf]; omega

/-- the very first shred of a correct leader's block is announced as `FirstShred` -/
theorem honest_first_shred (B : HBlock) (env : Nat → Content) (cap : Nat) (s : Shred) (hs : B.Honest s) (hcap : B.n ≤ cap) :
    (addDissem env (SlotData.new cap B.slot) s).2 = (.ev .firstShred, [.firstShred]) := by
  obtain ⟨hlt, _, heq⟩ := hs
  have hempty : mapEmpty cap (fun _ : Nat => (none : Option ShredArr)) = true := by simp [mapEmpty]
  have hka : hasKeyAbove cap (upd (fun _ => none) s.slice (some s.commitment)) s.slice = false := by
    apply hasKeyAbove_false
    intro i hi
    simp only [upd] at hi
    split at hi
    · omega
    · simp at hi
  unfold addDissem addShred cacheStep lastStep
  simp only [SlotData.new, BlockData.new, Bool.false_eq_true, if_false]
  by_cases hl : s.isLast = true
  · simp [hl, hka, markLastSlice, storeStep, arrEmpty, retainLe, mapEmpty, isBadErr, evOf]
  · simp [hl, storeStep, arrEmpty, mapEmpty, isBadErr, evOf]

/-- **Afterwards everything served is the leader's** (`get_shred`, `get_slice_root`, `get_block`,
    `get_last_slice_index` on the disseminated block): whatever the store returns for the block's
    hash is the leader's shred / slice root / block / slice count. -/
theorem honest_served_is_leaders (B : HBlock) (cap : Nat) (sd : SlotData) (hg : GoodSd B cap sd)
    (hc : sd.dis.completed = some B.block) (hrep : repGet sd.rep B.block.hash = none) :
    getBlock sd B.block.hash = some B.block ∧ disseminatedHash sd = some B.block.hash ∧
    (∀ i j s, getShred sd B.block.hash i j = some s → i < B.n ∧ j < TOTAL_SHREDS ∧ s = B.shred i j) ∧
    (∀ i r, getSliceRoot sd B.block.hash i = some r → i < B.n ∧ r = B.root i) ∧
    (∀ l, getLastSliceIndex sd B.block.hash = some l → l + 1 = B.n) := by
  have hbd : blockData sd B.block.hash = some sd.dis := by unfold blockData; simp [hc]
  refine ⟨by simp [getBlock, hbd, hc], by simp [disseminatedHash, hc], ?_, ?_, ?_⟩
  · intro i j s h
    simp only [getShred, hbd, Option.bind_some] at h
    cases ha : sd.dis.shreds i with
    | none => simp [ha] at h
    | some arr =>
      simp only [ha, Option.bind_some] at h
      have := hg.2.shreds i arr ha
      exact ⟨this.1, this.2 j s h⟩
  · intro i r h
    simp only [getSliceRoot, hbd, Option.bind_some] at h
    cases ha : sd.dis.shreds i with
    | none => simp [ha] at h
    | some arr =>
      simp only [ha, Option.bind_some, Option.map_eq_some_iff] at h
      obtain ⟨f, hf, hr⟩ := h
      have hmem : f ∈ present arr := List.mem_of_mem_head? hf
      unfold present at hmem
      simp only [List.mem_filterMap, List.mem_range] at hmem
      obtain ⟨j, _, hj⟩ := hmem
      have := hg.2.shreds i arr ha
      refine ⟨this.1, ?_⟩
      rw [← hr, (this.2 j f hj).2]; rfl
  · intro l h
    simp only [getLastSliceIndex, hbd, Option.bind_some] at h
    exact hg.2.last l h

/-! ### non-vacuity and witnesses of the repaired defects -/

/-- a concrete two-slice block of a correct leader in slot 5 with parent (3, #7) -/
def exB : HBlock :=
  { slot := 5, n := 2, root := fun i => i + 1, sz := fun _ => 2,
    parent := fun i => if i = 0 then some (3, 7) else none, txs := fun i => [10 + i], fparent := (3, 7) }

def exEnv : Nat → Content := fun r =>
  if r = 1 then .ok (some (3, 7)) (some [10]) else if r = 2 then .ok none (some [11]) else .bad

/-- the hypotheses of the honest-block theorems are satisfiable -/
example : exB.WF exEnv 3 :=
  { npos := by decide, ncap := by decide, szpos := by intro i; simp [exB],
    envok := by
      intro i hi
      match i, hi with
      | 0, _ => rfl
      | 1, _ => rfl,
    fold := ⟨(3, 7), rfl, by decide⟩, pslot := by decide }

/-- … and a concrete delivery (last slice first, 32 shreds each, then a duplicate) announces the first
    shred and the block exactly once, never an invalid block -/
example :
    (runDissem exEnv (SlotData.new 3 5)
      ((List.range 32).map (exB.shred 1) ++ (List.range 32).map (fun j => exB.shred 0 (j + 20)) ++ [exB.shred 0 3])).2
      = [.firstShred, .block exB.block.info] := by decide +kernel

/-- a conflicting slice (same index, other root) at the end is flagged once, after the block -/
example :
    (runDissem exEnv (SlotData.new 3 5)
      ((List.range 32).map (exB.shred 1) ++ (List.range 32).map (exB.shred 0) ++
        [⟨0, false, 9, 5, 2, true⟩, ⟨0, false, 9, 6, 2, true⟩, exB.shred 1 40])).2
      = [.firstShred, .block exB.block.info, .invalidBlock] := by decide +kernel

/-- witness of defect D3 (repaired): the same block in slot 3 (parent slot 3 is not earlier) is flagged
    and never announced; witness of D2 (repaired): a shred of slice 2 followed by the last marker on
    slice 1 is equivocation -/
theorem d3_d2_witness :
    (runDissem exEnv (SlotData.new 3 3)
      ((List.range 32).map (exB.shred 1) ++ (List.range 32).map (exB.shred 0))).2 = [.firstShred, .invalidBlock] ∧
    (runDissem exEnv (SlotData.new 3 5) [⟨2, false, 2, 0, 2, true⟩, exB.shred 1 0]).2 = [.firstShred, .invalidBlock] := by
  decide +kernel

end AgModel.Blockstore
