import AgModel.Proofs.Blockstore
/-!
# C13 — the blockstore rebuilds exactly the disseminated block, once, and flags bad ones
-/
namespace AgModel.Blockstore

/-- `flag_leader_misbehavior` notifies at most once: it sends `InvalidBlock` exactly when the slot
    was not flagged before, and the slot is flagged afterwards. -/
theorem flag_once (sd : SlotData) :
    (flag sd).1.misbehaved = true ∧ ((flag sd).2 = if sd.misbehaved then [] else [.invalidBlock]) := by
  unfold flag; cases h : sd.misbehaved <;> simp [h]

/-- **InvalidBlock exactly once, nothing from dissemination afterwards.** For every sequence of
    dissemination shreds whatsoever (any order, duplication, any mix of validly signed slices), the
    events sent to Votor are a sequence without `InvalidBlock`, optionally followed by exactly one
    `InvalidBlock` — after which the slot is flagged and nothing (no `Block`, no `FirstShred`) is
    announced from dissemination any more. -/
theorem invalid_once_then_silent (env : Nat → Content) (sd : SlotData) (ss : List Shred)
    (h : sd.misbehaved = false) :
    ∃ pre, (∀ e ∈ pre, e ≠ Event.invalidBlock) ∧
      (((runDissem env sd ss).2 = pre ∧ (runDissem env sd ss).1.misbehaved = false) ∨
       ((runDissem env sd ss).2 = pre ++ [.invalidBlock] ∧ (runDissem env sd ss).1.misbehaved = true)) := by
  induction ss generalizing sd with
  | nil => exact ⟨[], by simp, Or.inl ⟨rfl, h⟩⟩
  | cons s rest ih =>
    rcases addDissem_cases env sd s h with ⟨hm, hne⟩ | ⟨hm, hev⟩
    · obtain ⟨pre, hpre, hcase⟩ := ih (addDissem env sd s).1 hm
      refine ⟨(addDissem env sd s).2.2 ++ pre, ?_, ?_⟩
      · intro e he; rcases List.mem_append.mp he with he | he
        · exact hne e he
        · exact hpre e he
      · simp only [runDissem]
        rcases hcase with ⟨h1, h2⟩ | ⟨h1, h2⟩
        · left; exact ⟨by rw [h1], h2⟩
        · right; exact ⟨by rw [h1, List.append_assoc], h2⟩
    · refine ⟨[], by simp, Or.inr ?_⟩
      simp only [runDissem]
      rw [runDissem_flagged env _ rest hm]
      simp [hev, hm]

/-- once flagged, every dissemination shred is refused without any event -/
theorem flagged_refuses (env : Nat → Content) (sd : SlotData) (s : Shred) (h : sd.misbehaved = true) :
    addDissem env sd s = (sd, .err .invalidShred, []) := addDissem_flagged env sd s h

/-- **Only well-formed blocks are ever announced** (the safety half of `bad_block_flagged`, for every
    state and every shred, dissemination or repair): whenever `add_shred` announces a block,
    * its hash is the double-Merkle root of the reconstructed slices' roots, in slice order,
    * the first slice carries a parent, every slice's transactions decode and the block's
      transactions are their concatenation,
    * at most one later slice switches the parent, never to the current parent, and the announced
      parent is the switched one (else the first slice's),
    * the announced parent is in an earlier slot (fix D3),
    and exactly this block is what is stored as `completed`. -/
theorem announced_block_wellformed (env : Nat → Content) (b b' : BlockData) (s : Shred) (info : BlockInfo)
    (h : addShred env b s = (b', .ev (.block info))) :
    ∃ (b1 : BlockData) (first : RSlice) (p0 : Nat × Nat) (txs : List Nat),
      let vals := mapVals b1.cap b1.slices
      info.hash = (Merkle.Tree.new (vals.map (·.root))).root ∧
      b1.slices 0 = some first ∧ first.parent = some p0 ∧
      (∀ r ∈ vals, ∃ t, r.txs = some t) ∧ txs = vals.flatMap (fun r => r.txs.getD []) ∧
      ((switches vals = [] ∧ info.parent = p0) ∨
        (∃ r, switches vals = [r] ∧ r.parent = some info.parent ∧ info.parent ≠ p0)) ∧
      info.parent.1 < b1.slot ∧
      b'.completed = some ⟨info.hash, info.parent, txs⟩ := by
  obtain ⟨b1, hb1⟩ := addShred_block_origin env b b' s info h
  obtain ⟨last, first, p0, txs, _, _, _, hf, hp0, hfold, hslot, hhash, hcomp, _⟩ :=
    tryReconstructBlock_complete b1 b' info hb1
  obtain ⟨htx1, htx2⟩ := foldSlices_txs _ _ _ _ _ _ hfold
  refine ⟨b1, first, p0, txs, hhash, hf, hp0, htx1, by simpa using htx2, ?_, hslot, hcomp⟩
  rcases foldSlices_parent _ _ _ _ _ _ hfold with h1 | ⟨_, r, h2, h3, h4⟩
  · exact Or.inl h1
  · exact Or.inr ⟨r, h2, h3, h4⟩

/-- **Conflicting slices are flagged.** A validly signed shred whose commitment differs from the one
    cached for its slice index is answered `Equivocation`, and (on the dissemination path of a slot
    not yet flagged) exactly one `InvalidBlock` is sent and the slot is flagged. -/
theorem conflicting_slice_flagged (env : Nat → Content) (sd : SlotData) (s : Shred) (c : Commitment)
    (hm : sd.misbehaved = false) (hc : sd.dis.cache s.slice = some c) (hne : c ≠ s.commitment) :
    (addDissem env sd s).2 = (.err .equivocation, [.invalidBlock]) ∧ (addDissem env sd s).1.misbehaved = true := by
  unfold addDissem
  simp only [hm, Bool.false_eq_true, if_false]
  have : addShred env sd.dis s = (sd.dis, .err .equivocation) := by
    unfold addShred cacheStep; simp [hc, hne]
  simp [this, isBadErr, flag, hm]

/-- **Contradictory last-slice markers are flagged**, in both arrival orders: once slice `l` is marked
    last, a shred of a later slice, another last marker, or an unmarked shred of slice `l` is
    `Equivocation`; and a last marker on slice `k` arriving after any shred of a slice beyond `k` is
    `Equivocation` too (fix D2). -/
theorem contradictory_marker_flagged (env : Nat → Content) (sd : SlotData) (s : Shred)
    (hm : sd.misbehaved = false)
    (hbad : (∃ l, sd.dis.lastSlice = some l ∧ ¬ ((s.slice < l ∧ s.isLast = false) ∨ (s.slice = l ∧ s.isLast = true))) ∨
            (sd.dis.lastSlice = none ∧ s.isLast = true ∧ ∃ k, s.slice < k ∧ k < sd.dis.cap ∧ (sd.dis.cache k).isSome)) :
    (addDissem env sd s).2 = (.err .equivocation, [.invalidBlock]) ∧ (addDissem env sd s).1.misbehaved = true := by
  unfold addDissem
  simp only [hm, Bool.false_eq_true, if_false]
  have : (addShred env sd.dis s).2 = .err .equivocation := by
    unfold addShred
    cases hcs : cacheStep sd.dis s with
    | none => rfl
    | some b1 =>
      have hl : b1.lastSlice = sd.dis.lastSlice ∧ b1.cap = sd.dis.cap ∧ (∀ k, k ≠ s.slice → b1.cache k = sd.dis.cache k) := by
        unfold cacheStep at hcs
        split at hcs
        · split at hcs
          · simp at hcs
          · simp at hcs; subst hcs; simp
        · simp at hcs; subst hcs; simp [upd]; intro k hk; simp [hk]
      have hls : lastStep b1 s = none := by
        unfold lastStep
        rcases hbad with ⟨l, hl1, hl2⟩ | ⟨hn, hil, k, hk1, hk2, hk3⟩
        · rw [hl.1, hl1]
          simp only
          split
          · rename_i hcons
            exfalso; apply hl2
            simp at hcons
            rcases hcons with ⟨h1, h2⟩ | ⟨h1, h2⟩
            · exact Or.inl ⟨h1, h2⟩
            · exact Or.inr ⟨h1, h2⟩
          · rfl
        · rw [hl.1, hn]
          simp only [hil, if_true]
          have : hasKeyAbove b1.cap b1.cache s.slice = true := by
            unfold hasKeyAbove
            rw [List.any_eq_true]
            refine ⟨k, by rw [hl.2.1]; exact List.mem_range.mpr hk2, ?_⟩
            rw [hl.2.2 k (by omega)]
            simp [hk1, hk3]
          simp [this]
      simp [hls]
  cases hr : addShred env sd.dis s with
  | mk b r =>
    rw [hr] at this
    simp only at this
    subst this
    simp [isBadErr, flag, hm]

end AgModel.Blockstore
