import AgModel.Proofs.Blockstore
import AgModel.Proofs.BlockstoreHonest
import AgModel.Proofs.BlockstoreExactRun
import AgModel.Proofs.BlockstoreOwn
import AgModel.Props.C15
/-!
# C13 — the blockstore rebuilds exactly the disseminated block, once, and flags bad ones
-/
namespace AgModel.Blockstore

/-- `flag_leader_misbehavior` notifies at most once: it sends `InvalidBlock` exactly when the slot
    was not flagged before, and the slot is flagged afterwards. -/
theorem flag_once (sd : SlotData) :
    (flag sd).1.misbehaved = true ∧ ((flag sd).2 = if sd.misbehaved then [] else [.invalidBlock]) := by
  unfold flag; cases h : sd.misbehaved <;> simp [h]

/-- **InvalidBlock exactly once, nothing from dissemination afterwards.** For every sequence of
    dissemination shreds whatsoever (any order, duplication, any mix of validly signed slices), the
    events sent to Votor are a sequence without `InvalidBlock`, optionally followed by exactly one
    `InvalidBlock` — after which the slot is flagged and nothing (no `Block`, no `FirstShred`) is
    announced from dissemination any more. -/
theorem invalid_once_then_silent (env : Nat → Content) (sd : SlotData) (ss : List Shred)
    (h : sd.misbehaved = false) :
    ∃ pre, (∀ e ∈ pre, e ≠ Event.invalidBlock) ∧
      (((runDissem env sd ss).2 = pre ∧ (runDissem env sd ss).1.misbehaved = false) ∨
       ((runDissem env sd ss).2 = pre ++ [.invalidBlock] ∧ (runDissem env sd ss).1.misbehaved = true)) := by
  induction ss generalizing sd with
  | nil => exact ⟨[], by simp, Or.inl ⟨rfl, h⟩⟩
  | cons s rest ih =>
    rcases addDissem_cases env sd s h with ⟨hm, hne⟩ | ⟨hm, hev⟩
    · obtain ⟨pre, hpre, hcase⟩ := ih (addDissem env sd s).1 hm
      refine ⟨(addDissem env sd s).2.2 ++ pre, ?_, ?_⟩
      · intro e he; rcases List.mem_append.mp he with he | he
        · exact hne e he
        · exact hpre e he
      · simp only [runDissem]
        rcases hcase with ⟨h1, h2⟩ | ⟨h1, h2⟩
        · left; exact ⟨by rw [h1], h2⟩
        · right; exact ⟨by rw [h1, List.append_assoc], h2⟩
    · refine ⟨[], by simp, Or.inr ?_⟩
      simp only [runDissem]
      rw [runDissem_flagged env _ rest hm]
      simp [hev, hm]

/-- once flagged, every dissemination shred is refused without any event -/
theorem flagged_refuses (env : Nat → Content) (sd : SlotData) (s : Shred) (h : sd.misbehaved = true) :
    addDissem env sd s = (sd, .err .invalidShred, []) := addDissem_flagged env sd s h

/-- **Only well-formed blocks are ever announced** (the safety half of `bad_block_flagged`, for every
    state and every shred, dissemination or repair): whenever `add_shred` announces a block,
    * its hash is the double-Merkle root of the reconstructed slices' roots, in slice order,
    * the first slice carries a parent, every slice's transactions decode and the block's
      transactions are their concatenation,
    * at most one later slice switches the parent, never to the current parent, and the announced
      parent is the switched one (else the first slice's),
    * the announced parent is in an earlier slot (fix D3),
    and exactly this block is what is stored as `completed`. -/
theorem announced_block_wellformed (env : Nat → Content) (b b' : BlockData) (s : Shred) (info : BlockInfo)
    (h : addShredCore env b s = (b', .ev (.block info))) :
    ∃ (b1 : BlockData) (first : RSlice) (p0 : Nat × Nat) (txs : List Nat),
      let vals := mapVals b1.cap b1.slices
      info.hash = (Merkle.Tree.new (vals.map (·.root))).root ∧
      b1.slices 0 = some first ∧ first.parent = some p0 ∧
      (∀ r ∈ vals, ∃ t, r.txs = some t) ∧ txs = vals.flatMap (fun r => r.txs.getD []) ∧
      ((switches vals = [] ∧ info.parent = p0) ∨
        (∃ r, switches vals = [r] ∧ r.parent = some info.parent ∧ info.parent ≠ p0)) ∧
      info.parent.1 < b1.slot ∧
      b'.completed = some ⟨info.hash, info.parent, txs⟩ := by
  obtain ⟨b1, hb1⟩ := addShred_block_origin env b b' s info h
  obtain ⟨last, first, p0, txs, _, _, _, hf, hp0, hfold, hslot, hhash, hcomp, _⟩ :=
    tryReconstructBlock_complete b1 b' info hb1
  obtain ⟨htx1, htx2⟩ := foldSlices_txs _ _ _ _ _ _ hfold
  refine ⟨b1, first, p0, txs, hhash, hf, hp0, htx1, by simpa using htx2, ?_, hslot, hcomp⟩
  rcases foldSlices_parent _ _ _ _ _ _ hfold with h1 | ⟨_, r, h2, h3, h4⟩
  · exact Or.inl h1
  · exact Or.inr ⟨r, h2, h3, h4⟩

/-- **A shred whose data/coding type does not fit its index is ignored** (D15 `fix:`): on an unflagged slot it
    changes nothing, sends nothing and flags nobody - whatever else it carries. (This is why the two theorems below
    got the premise `s.ty = true`: the blockstore cannot tell a relay's flip from the leader's doing, so it neither
    stores nor blames; at node level a conflicting commitment is still reported, by `try_new`, before the type is
    looked at - C12 `node_conflict_reported`.) -/
theorem wrong_type_ignored (env : Nat → Content) (sd : SlotData) (s : Shred) (hm : sd.misbehaved = false)
    (hty : s.ty = false) : addDissem env sd s = (sd, .err .wrongType, []) :=
  addDissem_wrongType env sd s hm hty

/-- **Conflicting slices are flagged.** A validly signed shred (of the type that fits its index) whose commitment
    differs from the one cached for its slice index is answered `Equivocation`, and (on the dissemination path of a slot
    not yet flagged) exactly one `InvalidBlock` is sent and the slot is flagged. -/
theorem conflicting_slice_flagged (env : Nat → Content) (sd : SlotData) (s : Shred) (c : Commitment)
    (hm : sd.misbehaved = false) (hty : s.ty = true) (hc : sd.dis.cache s.slice = some c) (hne : c ≠ s.commitment) :
    (addDissem env sd s).2 = (.err .equivocation, [.invalidBlock]) ∧ (addDissem env sd s).1.misbehaved = true := by
  unfold addDissem
  simp only [hm, Bool.false_eq_true, if_false, addShred_of_ty env sd.dis s hty]
  have : addShredCore env sd.dis s = (sd.dis, .err .equivocation) := by
    unfold addShredCore cacheStep; simp [hc, hne]
  simp [this, isBadErr, flag, hm]

/-- **Contradictory last-slice markers are flagged**, in both arrival orders: once slice `l` is marked
    last, a shred of a later slice, another last marker, or an unmarked shred of slice `l` is
    `Equivocation`; and a last marker on slice `k` arriving after any shred of a slice beyond `k` is
    `Equivocation` too (fix D2). -/
theorem contradictory_marker_flagged (env : Nat → Content) (sd : SlotData) (s : Shred)
    (hm : sd.misbehaved = false) (hty : s.ty = true)
    (hbad : (∃ l, sd.dis.lastSlice = some l ∧ ¬ ((s.slice < l ∧ s.isLast = false) ∨ (s.slice = l ∧ s.isLast = true))) ∨
            (sd.dis.lastSlice = none ∧ s.isLast = true ∧ ∃ k, s.slice < k ∧ k < sd.dis.cap ∧ (sd.dis.cache k).isSome)) :
    (addDissem env sd s).2 = (.err .equivocation, [.invalidBlock]) ∧ (addDissem env sd s).1.misbehaved = true := by
  unfold addDissem
  simp only [hm, Bool.false_eq_true, if_false, addShred_of_ty env sd.dis s hty]
  have : (addShredCore env sd.dis s).2 = .err .equivocation := by
    unfold addShredCore
    cases hcs : cacheStep sd.dis s with
    | none => rfl
    | some b1 =>
      have hl : b1.lastSlice = sd.dis.lastSlice ∧ b1.cap = sd.dis.cap ∧ (∀ k, k ≠ s.slice → b1.cache k = sd.dis.cache k) := by
        unfold cacheStep at hcs
        split at hcs
        · split at hcs
          · simp at hcs
          · simp at hcs; subst hcs; simp
        · simp at hcs; subst hcs; simp [upd]; intro k hk; simp [hk]
      have hls : lastStep b1 s = none := by
        unfold lastStep
        rcases hbad with ⟨l, hl1, hl2⟩ | ⟨hn, hil, k, hk1, hk2, hk3⟩
        · rw [hl.1, hl1]
          simp only
          split
          · rename_i hcons
            exfalso; apply hl2
            simp at hcons
            rcases hcons with ⟨h1, h2⟩ | ⟨h1, h2⟩
            · exact Or.inl ⟨h1, h2⟩
            · exact Or.inr ⟨h1, h2⟩
          · rfl
        · rw [hl.1, hn]
          simp only [hil, if_true]
          have : hasKeyAbove b1.cap b1.cache s.slice = true := by
            unfold hasKeyAbove
            rw [List.any_eq_true]
            refine ⟨k, by rw [hl.2.1]; exact List.mem_range.mpr hk2, ?_⟩
            rw [hl.2.2 k (by omega)]
            simp [hk1, hk3]
          simp [this]
      simp [hls]
  cases hr : addShredCore env sd.dis s with
  | mk b r =>
    rw [hr] at this
    simp only at this
    subst this
    simp [isBadErr, flag, hm]

/-! ### blocks of a correct leader

`HBlock` describes a block as the leader cut it (`n ≥ 1` slices, roots, parent on the first slice and
optionally one handover switch, transactions); `HBlock.WF` says it is what a *correct* leader produces
(every slice decodes to what was encoded, the handover rules hold, the parent is in an earlier slot);
`HBlock.Honest s` says `s` is one of the leader's `64·n` shreds. The delivery `ss` below is an
arbitrary list of such shreds: any order, any duplication, any subset, interleaved across slices. -/

open HBlock

/-- dissemination state that holds only the leader's data and is not flagged -/
def GoodSd (B : HBlock) (cap : Nat) (sd : SlotData) : Prop := sd.misbehaved = false ∧ Good B cap sd.dis

theorem addDissem_good (B : HBlock) (env : Nat → Content) (cap : Nat) (hwf : B.WF env cap)
    (sd : SlotData) (s : Shred) (hg : GoodSd B cap sd) (hs : B.Honest s) :
    GoodSd B cap (addDissem env sd s).1 ∧ HonestRes B (addDissem env sd s).2.1 ∧
      (addDissem env sd s).2.2 = evOf (addDissem env sd s).2.1 ∧
      (addDissem env sd s).1.dis = (addShredCore env sd.dis s).1 ∧ (addDissem env sd s).2.1 = (addShredCore env sd.dis s).2 := by
  obtain ⟨hm, hgd⟩ := hg
  have h := addShred_good B env cap hwf sd.dis s hgd hs
  unfold addDissem
  simp only [hm, Bool.false_eq_true, if_false, addShred_of_ty env sd.dis s hs.ty]
  cases hr : addShredCore env sd.dis s with
  | mk b r =>
    rw [hr] at h
    simp only at h ⊢
    have hnb : isBadErr r = false := by
      rcases h.2 with rfl | rfl | rfl | rfl <;> rfl
    simp only [hnb, Bool.false_eq_true, if_false]
    exact ⟨⟨rfl, h.1⟩, h.2, trivial, trivial, trivial⟩

/- `honest_block_once` is proved in two layers. `honest_never_flagged` (safety, from ANY store state that
   holds only the leader's data): never flagged, only the leader's block, at most once. The exact layer
   below (`honest_run_exact` … `leader_fast_path_equal`, from a fresh slot): the store and the events
   are a *function of the set of delivered shreds*, which gives existence, exactly-once, timeliness,
   order independence and the equality with the leader's own fast path. -/

/-- **A correct leader's block: never flagged, announced at most once, and only as itself**
    (`honest_block_once`, safety layer — for all block shapes, all deliveries, all `Good` start states).
    For every delivery `ss` of the leader's shreds into a store holding only the leader's data:
    * no `InvalidBlock` is ever sent and the slot is never flagged; no shred is answered with
      `Equivocation` / `InvalidShred`, and nothing panics;
    * every `Block` event carries exactly the leader's block: hash = double-Merkle root of the slice
      roots, the leader's (switched) parent; and the stored block has the leader's transactions;
    * the `Block` event is sent at most once;
    * everything the store holds afterwards (shreds, reconstructed slices, cached commitments, last
      slice index, completed block) is the leader's (`Good`). -/
theorem honest_never_flagged_typed (B : HBlock) (env : Nat → Content) (cap : Nat) (hwf : B.WF env cap)
    (sd : SlotData) (hg : GoodSd B cap sd) (ss : List Shred) (hss : ∀ s ∈ ss, B.Honest s) :
    GoodSd B cap (runDissem env sd ss).1 ∧
    (∀ e ∈ (runDissem env sd ss).2, e = .firstShred ∨ e = .block B.block.info) ∧
    ((runDissem env sd ss).2.count (.block B.block.info) ≤ (if sd.dis.completed.isSome then 0 else 1)) := by
  induction ss generalizing sd with
  | nil => exact ⟨hg, by simp [runDissem], by simp [runDissem]⟩
  | cons s rest ih =>
    have hs := hss s (List.mem_cons_self)
    obtain ⟨hg1, hres, hev, hdis, hr⟩ := addDissem_good B env cap hwf sd s hg hs
    obtain ⟨ih1, ih2, ih3⟩ := ih (addDissem env sd s).1 hg1 (fun x hx => hss x (List.mem_cons_of_mem _ hx))
    simp only [runDissem]
    refine ⟨ih1, ?_, ?_⟩
    · intro e he
      rcases List.mem_append.mp he with he | he
      · rw [hev] at he
        rcases hres with h | h | h | h <;> rw [h] at he <;> simp [evOf] at he
        · exact Or.inl he
        · exact Or.inr he
      · exact ih2 e he
    · rw [List.count_append, hev]
      by_cases hcomp : sd.dis.completed.isSome = true
      · -- already complete: this step announces nothing, and stays complete
        have hc := addShred_of_completed env sd.dis s hcomp
        have hstill : (addDissem env sd s).1.dis.completed.isSome = true := by rw [hdis, hc.1]; exact hcomp
        simp only [hstill, if_true] at ih3
        have : (evOf (addDissem env sd s).2.1).count (.block B.block.info) = 0 := by
          rcases hres with h | h | h | h <;> rw [h] <;> simp [evOf]
          exact absurd (hr ▸ h) (hc.2 _)
        simp only [hcomp, if_true]; omega
      · simp only [hcomp, Bool.false_eq_true, if_false]
        rcases hres with h | h | h | h
        · rw [h]; simp [evOf]; split at ih3 <;> omega
        · rw [h]; simp [evOf]; split at ih3 <;> omega
        · rw [h]; simp [evOf]; split at ih3 <;> omega
        · -- announced now: complete afterwards, so never again
          have hcomp' : (addDissem env sd s).1.dis.completed.isSome = true := by
            rw [hdis]
            have heq : addShredCore env sd.dis s = ((addShredCore env sd.dis s).1, .ev (.block B.block.info)) :=
              Prod.ext rfl (by rw [← hr]; exact h)
            obtain ⟨b1, hb1⟩ := addShred_block_origin env sd.dis (addShredCore env sd.dis s).1 s B.block.info heq
            obtain ⟨_, _, _, _, _, _, _, _, _, _, _, _, hcc, _⟩ := tryReconstructBlock_complete b1 _ _ hb1
            rw [hcc]; rfl
          simp only [hcomp', if_true] at ih3
          rw [h]; simp [evOf]; omega

/-- a shred of the leader's block as it may arrive: the leader's shred, except that whoever passed it on may have
    flipped the (unauthenticated) data/coding type -/
def HBlock.HonestUpToType (B : HBlock) (s : Shred) : Prop := B.Honest { s with ty := true }

theorem HBlock.Honest.upToType {B : HBlock} {s : Shred} (hs : B.Honest s) : B.HonestUpToType s := by
  have := hs.ty
  cases s; simp_all [HBlock.HonestUpToType]

theorem HBlock.HonestUpToType.honest {B : HBlock} {s : Shred} (hs : B.HonestUpToType s) (hty : s.ty = true) :
    B.Honest s := by
  cases s; simp_all [HBlock.HonestUpToType]

/-- **Relayed type flips are invisible** (D15 `fix:`): from a store that holds only the leader's data, a delivery of
    the leader's shreds some of which had their data/coding type flipped on the way behaves - state and events -
    exactly like the delivery without those shreds. Every theorem below about deliveries of the leader's own shreds
    (`honest_run_exact`, `honest_block_timely`, `delivery_order_independent`, …) therefore applies to the deliveries
    with flips through this equation. -/
theorem relayed_type_flips_ignored (B : HBlock) (env : Nat → Content) (cap : Nat) (hwf : B.WF env cap)
    (sd : SlotData) (hg : GoodSd B cap sd) (ss : List Shred) (hss : ∀ s ∈ ss, B.HonestUpToType s) :
    runDissem env sd ss = runDissem env sd (ss.filter (·.ty)) ∧ ∀ s ∈ ss.filter (·.ty), B.Honest s := by
  refine ⟨?_, ?_⟩
  · induction ss generalizing sd with
    | nil => rfl
    | cons s rest ih =>
      have hrest : ∀ x ∈ rest, B.HonestUpToType x := fun x hx => hss x (List.mem_cons_of_mem _ hx)
      cases hty : s.ty with
      | false =>
        simp only [List.filter_cons, hty, Bool.false_eq_true, if_false]
        rw [← ih sd hg hrest]
        simp only [runDissem, wrong_type_ignored env sd s hg.1 hty, List.nil_append]
      | true =>
        have hs := (hss s List.mem_cons_self).honest hty
        obtain ⟨hg1, _⟩ := addDissem_good B env cap hwf sd s hg hs
        simp only [List.filter_cons, hty, if_true, runDissem]
        rw [ih _ hg1 hrest]
  · intro s hs
    obtain ⟨h1, h2⟩ := List.mem_filter.mp hs
    exact (hss s h1).honest h2

/-- **A correct leader's block: never flagged, announced at most once, and only as itself - whatever relays do to
    the data/coding type of its shreds** (`honest_block_once`, safety layer, at full strength since the D15 `fix:`).
    The statement of `honest_never_flagged_typed` for every delivery of shreds that are the leader's *up to the
    unauthenticated type*: no `InvalidBlock`, never flagged, only the leader's block and at most once, and the store
    holds only the leader's data afterwards. (On the pinned snapshot one flipped shred among 32 of a slice made the
    reconstruction fail and the leader flagged: `tag_flip_flagged_old_witness`.) -/
theorem honest_never_flagged (B : HBlock) (env : Nat → Content) (cap : Nat) (hwf : B.WF env cap)
    (sd : SlotData) (hg : GoodSd B cap sd) (ss : List Shred) (hss : ∀ s ∈ ss, B.HonestUpToType s) :
    GoodSd B cap (runDissem env sd ss).1 ∧
    (∀ e ∈ (runDissem env sd ss).2, e = .firstShred ∨ e = .block B.block.info) ∧
    ((runDissem env sd ss).2.count (.block B.block.info) ≤ (if sd.dis.completed.isSome then 0 else 1)) := by
  obtain ⟨heq, hh⟩ := relayed_type_flips_ignored B env cap hwf sd hg ss hss
  rw [heq]
  exact honest_never_flagged_typed B env cap hwf sd hg _ hh

/-- the very first shred of a correct leader's block is announced as `FirstShred` -/
theorem honest_first_shred (B : HBlock) (env : Nat → Content) (cap : Nat) (s : Shred) (hs : B.Honest s) (hcap : B.n ≤ cap) :
    (addDissem env (SlotData.new cap B.slot) s).2 = (.ev .firstShred, [.firstShred]) := by
  have hty := hs.ty
  obtain ⟨hlt, _, heq⟩ := hs
  have hempty : mapEmpty cap (fun _ : Nat => (none : Option ShredArr)) = true := by simp [mapEmpty]
  have hka : hasKeyAbove cap (upd (fun _ => none) s.slice (some s.commitment)) s.slice = false := by
    apply hasKeyAbove_false
    intro i hi
    simp only [upd] at hi
    split at hi
    · omega
    · simp at hi
  unfold addDissem
  rw [addShred_of_ty _ _ s hty]
  unfold addShredCore cacheStep lastStep
  simp only [SlotData.new, BlockData.new, Bool.false_eq_true, if_false]
  by_cases hl : s.isLast = true
  · simp [hl, hka, markLastSlice, storeStep, arrEmpty, retainLe, mapEmpty, isBadErr, evOf]
  · simp [hl, storeStep, arrEmpty, mapEmpty, isBadErr, evOf]

/-- **Afterwards everything served is the leader's** (`get_shred`, `get_slice_root`, `get_block`,
    `get_last_slice_index` on the disseminated block): whatever the store returns for the block's
    hash is the leader's shred / slice root / block / slice count. -/
theorem honest_served_is_leaders (B : HBlock) (cap : Nat) (sd : SlotData) (hg : GoodSd B cap sd)
    (hc : sd.dis.completed = some B.block) (hrep : repGet sd.rep B.block.hash = none) :
    getBlock sd B.block.hash = some B.block ∧ disseminatedHash sd = some B.block.hash ∧
    (∀ i j s, getShred sd B.block.hash i j = some s → i < B.n ∧ j < TOTAL_SHREDS ∧ s = B.shred i j) ∧
    (∀ i r, getSliceRoot sd B.block.hash i = some r → i < B.n ∧ r = B.root i) ∧
    (∀ l, getLastSliceIndex sd B.block.hash = some l → l + 1 = B.n) := by
  have hbd : blockData sd B.block.hash = some sd.dis := by unfold blockData; simp [hc]
  refine ⟨by simp [getBlock, hbd, hc], by simp [disseminatedHash, hc], ?_, ?_, ?_⟩
  · intro i j s h
    simp only [getShred, hbd, Option.bind_some] at h
    cases ha : sd.dis.shreds i with
    | none => simp [ha] at h
    | some arr =>
      simp only [ha, Option.bind_some] at h
      have := hg.2.shreds i arr ha
      exact ⟨this.1, this.2 j s h⟩
  · intro i r h
    simp only [getSliceRoot, hbd, Option.bind_some] at h
    cases ha : sd.dis.shreds i with
    | none => simp [ha] at h
    | some arr =>
      simp only [ha, Option.bind_some, Option.map_eq_some_iff] at h
      obtain ⟨f, hf, hr⟩ := h
      have hmem : f ∈ present arr := List.mem_of_mem_head? hf
      unfold present at hmem
      simp only [List.mem_filterMap, List.mem_range] at hmem
      obtain ⟨j, _, hj⟩ := hmem
      have := hg.2.shreds i arr ha
      refine ⟨this.1, ?_⟩
      rw [← hr, (this.2 j f hj).2]; rfl
  · intro l h
    simp only [getLastSliceIndex, hbd, Option.bind_some] at h
    exact hg.2.last l h

/-! ### completeness: the store and the events are a function of the delivered set

`distinctShreds ss i` is the number of distinct shred indices of slice `i` occurring in the delivery `ss`
(`(List.range TOTAL_SHREDS).countP fun j => ss.any fun s => i == s.slice && j == s.idx`);
`Enough B ss` says every slice `i < B.n` of the block — including the last-marked one — has at least
`DATA_SHREDS` (32) distinct shreds in `ss`. The Reed–Solomon law used is `HBlock.WF.envok`: any
`DATA_SHREDS` of the `TOTAL_SHREDS` shreds of a slice root the leader signed decode to the payload the
leader encoded (the decoder `env` is a parameter; `exEnv` below is a lawful instance). All theorems are
for a fresh slot (`SlotData.new`), every well-formed block, every list of the leader's shreds. -/

/-- **Exact run.** After any delivery `ss` of a correct leader's shreds (any order, duplicates, any
    subset, interleaved across slices) into a fresh slot, the slot's state is the canonical state of
    the *set* of delivered shreds (never flagged, no repair data), and the events sent to Votor are
    exactly: `FirstShred` iff something was delivered, then `Block(B)` iff every slice has ≥ 32
    distinct shreds — nothing else, in this order. -/
theorem honest_run_exact (B : HBlock) (env : Nat → Content) (cap : Nat) (hwf : B.WF env cap)
    (ss : List Shred) (hss : ∀ s ∈ ss, B.Honest s) :
    (runDissem env (SlotData.new cap B.slot) ss).1 = ⟨canon B cap (delivered ss), [], false⟩ ∧
    (runDissem env (SlotData.new cap B.slot) ss).2 =
      (if ss = [] then [] else [.firstShred]) ++ (if Enough B ss then [.block B.block.info] else []) :=
  runDissem_fresh B env cap hwf ss hss

/-- **One step, exactly** (`pre` = what was delivered before, `s` = the shred delivered now): the answer
    of `add_shred_from_dissemination` and the events it sends. `Duplicate` iff the very shred is stored
    already or its slice is already decoded; else `FirstShred` iff nothing was delivered before; else
    `Block(B)` iff now every slice has ≥ 32 distinct shreds; else nothing. -/
theorem honest_step_exact (B : HBlock) (env : Nat → Content) (cap : Nat) (hwf : B.WF env cap)
    (pre : List Shred) (s : Shred) (hss : ∀ x ∈ pre ++ [s], B.Honest x) :
    (addDissem env (runDissem env (SlotData.new cap B.slot) pre).1 s).2.1 =
      (if delivered pre s.slice s.idx = true ∨ DATA_SHREDS ≤ distinctShreds pre s.slice then .err .duplicate
       else if pre = [] then .ev .firstShred
       else if Enough B (pre ++ [s]) then .ev (.block B.block.info) else .none) ∧
    (addDissem env (runDissem env (SlotData.new cap B.slot) pre).1 s).2.2 =
      (if pre = [] then [.firstShred]
       else if ¬ Enough B pre ∧ Enough B (pre ++ [s]) then [.block B.block.info] else []) := by
  have hpre : ∀ x ∈ pre, B.Honest x := fun x hx => hss x (List.mem_append_left _ hx)
  have hs : B.Honest s := hss s (by simp)
  obtain ⟨h1, _, h3, _⟩ := runDissem_exact B env cap hwf pre hpre dnone (SlotData.new cap B.slot) rfl
    (exact_fresh B env cap hwf)
  rw [daddAll_none] at h3
  obtain ⟨_, _, _, r1, r2⟩ := addDissem_exact B env cap hwf (delivered pre) _ s h1 h3 hs
  have hemp := empty_delivered_iff B pre hpre
  have hfull : Full B (dadd (delivered pre) s) ↔ Enough B (pre ++ [s]) := by
    rw [← delivered_append_one]; exact Iff.rfl
  refine ⟨?_, ?_⟩
  · rw [r1]
    unfold resOf distinctShreds
    by_cases hdup : delivered pre s.slice s.idx = true ∨ DATA_SHREDS ≤ cnt (delivered pre) s.slice
    · rw [if_pos hdup, if_pos hdup]
    · rw [if_neg hdup, if_neg hdup, ite_iff hemp, ite_iff hfull]
  · rw [r2]
    unfold stepEvents
    rw [ite_iff hemp]
    by_cases hnil : pre = []
    · rw [if_pos hnil, if_pos hnil]
    · rw [if_neg hnil, if_neg hnil]
      apply ite_iff
      rw [hfull]; exact Iff.rfl

/-- **Announced iff enough arrived, exactly once, only as itself** (`honest_block_once`, completeness).
    For every delivery `ss` — hence for every prefix of every delivery — of a correct leader's shreds:
    the `Block` event of `B` (hash = double-Merkle root of the slice roots, the leader's parent after
    the single legal handover, see `HBlock.block`) has been emitted **iff** every slice of `B`
    (including the last-marked one) has at least `DATA_SHREDS` distinct shreds in `ss`; it is emitted
    exactly once in that case and no other `Block` event, no `InvalidBlock`, ever; and the block is
    stored as `completed` iff it was announced. -/
theorem honest_block_announced_iff (B : HBlock) (env : Nat → Content) (cap : Nat) (hwf : B.WF env cap)
    (ss : List Shred) (hss : ∀ s ∈ ss, B.Honest s) :
    (.block B.block.info ∈ (runDissem env (SlotData.new cap B.slot) ss).2 ↔ Enough B ss) ∧
    (runDissem env (SlotData.new cap B.slot) ss).2.count (.block B.block.info) = (if Enough B ss then 1 else 0) ∧
    (∀ e ∈ (runDissem env (SlotData.new cap B.slot) ss).2, e = .firstShred ∨ e = .block B.block.info) ∧
    (runDissem env (SlotData.new cap B.slot) ss).1.dis.completed = (if Enough B ss then some B.block else none) ∧
    (runDissem env (SlotData.new cap B.slot) ss).1.misbehaved = false := by
  obtain ⟨h1, h2⟩ := honest_run_exact B env cap hwf ss hss
  rw [h1, h2]
  have hnn := not_enough_nil B hwf.npos
  refine ⟨?_, ?_, ?_, ?_, rfl⟩
  · by_cases hnil : ss = []
    · subst hnil; simp [hnn]
    · by_cases hen : Enough B ss <;> simp [hnil, hen]
  · by_cases hnil : ss = []
    · subst hnil; simp [hnn]
    · by_cases hen : Enough B ss <;> simp [hnil, hen]
  · intro e he
    rcases List.mem_append.mp he with he | he
    · split at he
      · simp at he
      · simp at he; exact Or.inl he
    · split at he
      · simp at he; exact Or.inr he
      · simp at he
  · simp only [canon]
    exact ite_iff (enough_iff_full B ss).symm _ _

/-- **As soon as possible, never again.** After the deliveries `pre`, the step delivering `s` emits the
    `Block` event of `B` **iff** `pre` did not yet contain 32 distinct shreds of every slice and
    `pre ++ [s]` does — i.e. exactly in the step in which, for the first time, every slice (including
    the last-marked one) has `DATA_SHREDS` distinct shreds; never before, never afterwards; that step's
    return value is `Ok(Some(Block))`, and a step never emits any other `Block`. -/
theorem honest_block_timely (B : HBlock) (env : Nat → Content) (cap : Nat) (hwf : B.WF env cap)
    (pre : List Shred) (s : Shred) (hss : ∀ x ∈ pre ++ [s], B.Honest x) :
    (.block B.block.info ∈ (addDissem env (runDissem env (SlotData.new cap B.slot) pre).1 s).2.2 ↔
      (¬ Enough B pre ∧ Enough B (pre ++ [s]))) ∧
    ((addDissem env (runDissem env (SlotData.new cap B.slot) pre).1 s).2.1 = .ev (.block B.block.info) ↔
      (¬ Enough B pre ∧ Enough B (pre ++ [s]))) ∧
    (∀ info, .block info ∈ (addDissem env (runDissem env (SlotData.new cap B.slot) pre).1 s).2.2 →
      info = B.block.info) := by
  obtain ⟨r1, r2⟩ := honest_step_exact B env cap hwf pre s hss
  have hpre : ∀ x ∈ pre, B.Honest x := fun x hx => hss x (List.mem_append_left _ hx)
  have hs : B.Honest s := hss s (by simp)
  -- a single shred is never enough
  have hone : pre = [] → ¬ Enough B (pre ++ [s]) := by
    intro hnil
    subst hnil
    rw [enough_iff_full, delivered_append_one]
    exact not_full_add_of_empty B _ s hs.1 hs.2.1 (empty_dnone B)
  -- a duplicate does not change `Enough`
  have hdup : (delivered pre s.slice s.idx = true ∨ DATA_SHREDS ≤ distinctShreds pre s.slice) →
      ¬ (¬ Enough B pre ∧ Enough B (pre ++ [s])) := by
    rintro hd ⟨h1, h2⟩
    rw [enough_iff_full, delivered_append_one] at h2
    rcases hd with h | h
    · rw [dadd_same _ s h] at h2; exact h1 h2
    · exact h1 ((full_add_of_ge B _ s h).mp h2)
  have hnotdup : ¬ (delivered pre s.slice s.idx = true ∨ DATA_SHREDS ≤ distinctShreds pre s.slice) → ¬ Enough B pre := by
    intro hd
    apply not_full_of_lt B _ s.slice hs.1
    have : ¬ DATA_SHREDS ≤ cnt (delivered pre) s.slice := fun h => hd (Or.inr h)
    omega
  rw [r1, r2]
  refine ⟨?_, ?_, ?_⟩
  · by_cases hnil : pre = []
    · have := hone hnil
      simp [hnil]
      intro _; subst hnil; exact this
    · rw [if_neg hnil]
      by_cases hc : ¬ Enough B pre ∧ Enough B (pre ++ [s])
      · simp [hc]
      · rw [if_neg hc]; simp only [List.not_mem_nil, false_iff]; exact hc
  · by_cases hd : delivered pre s.slice s.idx = true ∨ DATA_SHREDS ≤ distinctShreds pre s.slice
    · rw [if_pos hd]
      constructor
      · intro h; cases h
      · intro h; exact absurd h (hdup hd)
    · rw [if_neg hd]
      by_cases hnil : pre = []
      · rw [if_pos hnil]
        constructor
        · intro h; cases h
        · intro h; exact absurd h.2 (hone hnil)
      · rw [if_neg hnil]
        by_cases hen : Enough B (pre ++ [s])
        · rw [if_pos hen]
          constructor
          · intro _; exact ⟨hnotdup hd, hen⟩
          · intro _; rfl
        · rw [if_neg hen]
          constructor
          · intro h; cases h
          · intro h; exact absurd h.2 hen
  · intro info hi
    by_cases hnil : pre = []
    · rw [if_pos hnil] at hi; simp at hi
    · rw [if_neg hnil] at hi
      split at hi
      · simp at hi; rw [hi]
      · simp at hi

/-- **`FirstShred` exactly once, in the step of the first accepted shred of the slot.** A step emits
    `FirstShred` iff nothing was delivered before it (the first shred of a correct leader is always
    accepted); hence a non-empty delivery contains exactly one `FirstShred`, and it is the first event. -/
theorem first_shred_once (B : HBlock) (env : Nat → Content) (cap : Nat) (hwf : B.WF env cap) :
    (∀ (pre : List Shred) (s : Shred), (∀ x ∈ pre ++ [s], B.Honest x) →
      (.firstShred ∈ (addDissem env (runDissem env (SlotData.new cap B.slot) pre).1 s).2.2 ↔ pre = [])) ∧
    (∀ (ss : List Shred), (∀ s ∈ ss, B.Honest s) →
      (runDissem env (SlotData.new cap B.slot) ss).2.count .firstShred = (if ss = [] then 0 else 1) ∧
      (ss ≠ [] → (runDissem env (SlotData.new cap B.slot) ss).2.head? = some .firstShred)) := by
  constructor
  · intro pre s hss
    rw [(honest_step_exact B env cap hwf pre s hss).2]
    by_cases hnil : pre = []
    · simp [hnil]
    · rw [if_neg hnil]
      split <;> simp [hnil]
  · intro ss hss
    rw [(honest_run_exact B env cap hwf ss hss).2]
    by_cases hnil : ss = []
    · subst hnil; simp [not_enough_nil B hwf.npos]
    · by_cases hen : Enough B ss <;> simp [hnil, hen]

/-- **Order independence.** Two deliveries of a correct leader's shreds that contain the same *set* of
    shreds (in any orders, with any duplications) end in the same slot state — the same stored block,
    shreds, slices, cache, marker, Merkle leaves — and send the same events. -/
theorem delivery_order_independent (B : HBlock) (env : Nat → Content) (cap : Nat) (hwf : B.WF env cap)
    (ss₁ ss₂ : List Shred) (h₁ : ∀ s ∈ ss₁, B.Honest s) (hset : ∀ s, s ∈ ss₁ ↔ s ∈ ss₂) :
    runDissem env (SlotData.new cap B.slot) ss₁ = runDissem env (SlotData.new cap B.slot) ss₂ := by
  have h₂ : ∀ s ∈ ss₂, B.Honest s := fun s hs => h₁ s ((hset s).mpr hs)
  obtain ⟨a1, a2⟩ := honest_run_exact B env cap hwf ss₁ h₁
  obtain ⟨b1, b2⟩ := honest_run_exact B env cap hwf ss₂ h₂
  have hd : delivered ss₁ = delivered ss₂ := delivered_congr ss₁ ss₂ hset
  have hnil : ss₁ = [] ↔ ss₂ = [] := by
    constructor
    · intro h; subst h
      cases ss₂ with
      | nil => rfl
      | cons x r => exact absurd ((hset x).mpr List.mem_cons_self) (by simp)
    · intro h; subst h
      cases ss₁ with
      | nil => rfl
      | cons x r => exact absurd ((hset x).mp List.mem_cons_self) (by simp)
  have hen : Enough B ss₁ ↔ Enough B ss₂ := by
    rw [enough_iff_full, enough_iff_full, hd]
  apply Prod.ext
  · rw [a1, b1, hd]
  · rw [a2, b2, ite_iff hnil, ite_iff hen]

/-- **The leader's fast path stores what a follower reconstructs.** The leader handing its `n` slices,
    in order, to `add_own_slice` on a fresh slot never panics, and ends in exactly the state — stored
    block, all shreds, cache, last-slice marker, Merkle leaves — and with exactly the events
    (`[FirstShred, Block(B)]`) of a follower that was delivered ≥ 32 distinct shreds of every slice in
    any order. -/
theorem leader_fast_path_equal (B : HBlock) (env : Nat → Content) (cap : Nat) (hwf : B.WF env cap)
    (ss : List Shred) (hss : ∀ s ∈ ss, B.Honest s) (hen : Enough B ss) :
    ownRun B (SlotData.new cap B.slot) (List.range B.n) =
      ((runDissem env (SlotData.new cap B.slot) ss).1, true, (runDissem env (SlotData.new cap B.slot) ss).2) := by
  obtain ⟨a1, a2⟩ := honest_run_exact B env cap hwf ss hss
  have hne : ss ≠ [] := by
    intro h; subst h
    exact not_enough_nil B hwf.npos hen
  rw [ownRun_fresh B env cap hwf, a1, a2, canon_full B cap _ hwf.npos ((enough_iff_full B ss).mp hen),
    if_neg hne, if_pos hen]
  rfl

/-- **Afterwards everything is served** (complement of `honest_served_is_leaders`): once ≥ 32 distinct
    shreds of every slice were delivered, the store serves the block, the slice count, *every* one of
    the `64·n` shreds (also those never received: the decoder rebuilt them), every slice root, and a
    double-Merkle proof for every slice, which verifies against the block hash. -/
theorem honest_serves_everything (B : HBlock) (env : Nat → Content) (cap : Nat) (hwf : B.WF env cap)
    (ss : List Shred) (hss : ∀ s ∈ ss, B.Honest s) (hen : Enough B ss) (hn : B.n ≤ 2 ^ 32) :
    let sd := (runDissem env (SlotData.new cap B.slot) ss).1
    getBlock sd B.block.hash = some B.block ∧ disseminatedHash sd = some B.block.hash ∧
    getLastSliceIndex sd B.block.hash = some (B.n - 1) ∧
    (∀ i j, i < B.n → j < TOTAL_SHREDS → getShred sd B.block.hash i j = some (B.shred i j)) ∧
    (∀ i, i < B.n → getSliceRoot sd B.block.hash i = some (B.root i)) ∧
    (∀ i, i < B.n → ∃ π, createProof sd B.block.hash i = some (some π) ∧
      Merkle.checkProof (B.root i) i B.block.hash π = true) := by
  intro sd
  have hsd : sd = ⟨canonFull B cap, [], false⟩ := by
    show (runDissem env (SlotData.new cap B.slot) ss).1 = _
    rw [(honest_run_exact B env cap hwf ss hss).1, canon_full B cap _ hwf.npos ((enough_iff_full B ss).mp hen)]
  have hbd : blockData sd B.block.hash = some (canonFull B cap) := by
    rw [hsd]; simp [blockData, canonFull]
  have hlen : B.roots.length = B.n := by simp [HBlock.roots]
  refine ⟨?_, ?_, ?_, ?_, ?_, ?_⟩
  · simp [getBlock, hbd, canonFull]
  · rw [hsd]; simp [disseminatedHash, canonFull]
  · simp [getLastSliceIndex, hbd, canonFull]
  · intro i j hi hj
    simp [getShred, hbd, canonFull, hi, hj]
  · intro i hi
    have hpres : (present (fun j => if j < TOTAL_SHREDS then some (B.shred i j) else none)).head? = some (B.shred i 0) := by
      unfold present
      have : TOTAL_SHREDS = 63 + 1 := by decide
      rw [this, List.range_succ_eq_map]
      simp
    simp [getSliceRoot, hbd, canonFull, hi, hpres]
    rfl
  · intro i hi
    refine ⟨(Merkle.Tree.new B.roots).createProof i, ?_, ?_⟩
    · simp [createProof, hbd, canonFull, hlen, hi]
    · have := Merkle.complete B.roots i (by rw [hlen]; exact hi) (by rw [hlen]; exact hn)
      have hget : B.roots.getD i 0 = B.root i := by
        simp [HBlock.roots, List.getD, hi]
      rw [hget] at this
      exact this

/-! ### non-vacuity and witnesses of the repaired defects -/

/-- a concrete two-slice block of a correct leader in slot 5 with parent (3, #7) -/
def exB : HBlock :=
  { slot := 5, n := 2, root := fun i => i + 1, sz := fun _ => 2,
    parent := fun i => if i = 0 then some (3, 7) else none, txs := fun i => [10 + i], fparent := (3, 7) }

def exEnv : Nat → Content := fun r =>
  if r = 1 then .ok (some (3, 7)) (some [10]) else if r = 2 then .ok none (some [11]) else .bad

/-- the hypotheses of the honest-block theorems are satisfiable (`exEnv` is a lawful decoder for `exB`) -/
theorem exB_wf : exB.WF exEnv 3 :=
  { npos := by decide, ncap := by decide, szpos := by intro i; simp [exB],
    envok := by
      intro i hi
      match i, hi with
      | 0, _ => rfl
      | 1, _ => rfl,
    fold := ⟨(3, 7), rfl, by decide⟩, pslot := by decide }

/-- 63 shreds: all 32 of the last slice first, then 31 of slice 0 — one short -/
def exPre : List Shred := (List.range 32).map (exB.shred 1) ++ (List.range 31).map (fun j => exB.shred 0 (j + 20))

theorem exPre_honest : ∀ x ∈ exPre ++ [exB.shred 0 5], exB.Honest x := by
  intro x hx
  simp only [exPre, List.mem_append, List.mem_map, List.mem_range, List.mem_singleton] at hx
  have h51 : 51 ≤ TOTAL_SHREDS := by decide
  rcases hx with (⟨j, hj, rfl⟩ | ⟨j, hj, rfl⟩) | rfl
  · exact ⟨by show (1 : Nat) < 2; omega, by show j < TOTAL_SHREDS; omega, rfl⟩
  · exact ⟨by show (0 : Nat) < 2; omega, by show j + 20 < TOTAL_SHREDS; omega, rfl⟩
  · exact ⟨by decide, by decide, rfl⟩

/-- non-vacuity of `honest_block_timely`: on this delivery the right-hand side holds for the 64th shred
    (and fails one step earlier), so that very step announces the block -/
example : ¬ Enough exB exPre ∧ Enough exB (exPre ++ [exB.shred 0 5]) := by decide +kernel

example : .block exB.block.info ∈
    (addDissem exEnv (runDissem exEnv (SlotData.new 3 5) exPre).1 (exB.shred 0 5)).2.2 :=
  ((honest_block_timely exB exEnv 3 exB_wf exPre (exB.shred 0 5) exPre_honest).1).mpr (by decide +kernel)

/-- non-vacuity of `delivery_order_independent` / `leader_fast_path_equal`: the reversed delivery with
    the last shred duplicated ends in the same state with the same events, which are the leader's own -/
example : runDissem exEnv (SlotData.new 3 5) (exPre ++ [exB.shred 0 5]) =
    runDissem exEnv (SlotData.new 3 5) (exB.shred 0 5 :: (exPre ++ [exB.shred 0 5]).reverse) :=
  delivery_order_independent exB exEnv 3 exB_wf _ _ exPre_honest (by intro s; simp; exact or_comm)

example : ownRun exB (SlotData.new 3 5) (List.range 2) =
    ((runDissem exEnv (SlotData.new 3 5) (exPre ++ [exB.shred 0 5])).1, true, [.firstShred, .block exB.block.info]) := by
  have hen : Enough exB (exPre ++ [exB.shred 0 5]) := by decide +kernel
  have h := leader_fast_path_equal exB exEnv 3 exB_wf _ exPre_honest hen
  rw [(honest_run_exact exB exEnv 3 exB_wf _ exPre_honest).2, if_neg (by simp), if_pos hen] at h
  exact h

/-- … and a concrete delivery (last slice first, 32 shreds each, then a duplicate) announces the first
    shred and the block exactly once, never an invalid block -/
example :
    (runDissem exEnv (SlotData.new 3 5)
      ((List.range 32).map (exB.shred 1) ++ (List.range 32).map (fun j => exB.shred 0 (j + 20)) ++ [exB.shred 0 3])).2
      = [.firstShred, .block exB.block.info] := by decide +kernel

/-- a conflicting slice (same index, other root) at the end is flagged once, after the block -/
example :
    (runDissem exEnv (SlotData.new 3 5)
      ((List.range 32).map (exB.shred 1) ++ (List.range 32).map (exB.shred 0) ++
        [⟨0, false, 9, 5, 2, true⟩, ⟨0, false, 9, 6, 2, true⟩, exB.shred 1 40])).2
      = [.firstShred, .block exB.block.info, .invalidBlock] := by decide +kernel

/-- witness of defect D3 (repaired): the same block in slot 3 (parent slot 3 is not earlier) is flagged
    and never announced; witness of D2 (repaired): a shred of slice 2 followed by the last marker on
    slice 1 is equivocation -/
theorem d3_d2_witness :
    (runDissem exEnv (SlotData.new 3 3)
      ((List.range 32).map (exB.shred 1) ++ (List.range 32).map (exB.shred 0))).2 = [.firstShred, .invalidBlock] ∧
    (runDissem exEnv (SlotData.new 3 5) [⟨2, false, 2, 0, 2, true⟩, exB.shred 1 0]).2 = [.firstShred, .invalidBlock] := by
  decide +kernel

/-- `add_shred_from_dissemination` / a delivery on the pinned snapshot (before the D15 `fix:`): `addShredCore`
    without the type check -/
def addDissemOld (env : Nat → Content) (sd : SlotData) (s : Shred) : SlotData × AddRes × List Event :=
  if sd.misbehaved then (sd, .err .invalidShred, [])
  else
    let (b, r) := addShredCore env sd.dis s
    let sd := { sd with dis := b }
    if isBadErr r then
      let (sd, evs) := flag sd
      (sd, r, evs)
    else (sd, r, evOf r)

def runDissemOld (env : Nat → Content) : SlotData → List Shred → SlotData × List Event
  | sd, [] => (sd, [])
  | sd, s :: rest =>
    let (sd', _, evs) := addDissemOld env sd s
    let (sd'', evs') := runDissemOld env sd' rest
    (sd'', evs ++ evs')

/-- the leader's shred (0, 7) with its data/coding type flipped by a relay -/
def exFlip : Shred := { exB.shred 0 7 with ty := false }

/-- **Witness of defect D15 and of its repair.** A delivery of shreds of the correct leader's block `exB`
    (all of slice 1, then 31 genuine shreds of slice 0 and the type-flipped one): the pinned blockstore stores the
    flipped shred, the 32nd shred of slice 0 makes `deshred` fail on the layout and the *correct* leader is flagged
    (`InvalidBlock`), the block is never announced, the missing genuine shreds are refused afterwards. The repaired
    blockstore answers the flipped shred `WrongType`, and the same delivery followed by one more genuine shred
    announces the block; the flipped shred is `HonestUpToType`, so `honest_never_flagged` applies to it. -/
theorem tag_flip_flagged_old_witness :
    (runDissemOld exEnv (SlotData.new 3 5)
      ((List.range 32).map (exB.shred 1) ++ exFlip :: (List.range 31).map (fun j => exB.shred 0 (j + 20)))).2
        = [.firstShred, .invalidBlock] ∧
    (runDissemOld exEnv (SlotData.new 3 5)
      ((List.range 32).map (exB.shred 1) ++ exFlip :: (List.range 31).map (fun j => exB.shred 0 (j + 20))
        ++ [exB.shred 0 5, exB.shred 0 7])).2 = [.firstShred, .invalidBlock] ∧
    (addDissem exEnv (runDissem exEnv (SlotData.new 3 5) ((List.range 32).map (exB.shred 1))).1 exFlip).2
        = (.err .wrongType, []) ∧
    (runDissem exEnv (SlotData.new 3 5)
      ((List.range 32).map (exB.shred 1) ++ exFlip :: (List.range 31).map (fun j => exB.shred 0 (j + 20))
        ++ [exB.shred 0 5])).2 = [.firstShred, .block exB.block.info] ∧
    exB.HonestUpToType exFlip ∧ ¬ exB.Honest exFlip := by
  refine ⟨by decide +kernel, by decide +kernel, by decide +kernel, by decide +kernel, ?_, ?_⟩
  · exact ⟨by decide, by decide, rfl⟩
  · intro h; have := h.ty; simp [exFlip] at this

end AgModel.Blockstore
