import AgModel.Proofs.RepairResponder
import AgModel.Props.C13
/-!
# C14, second half — completion of a repair, the responder, panic-freedom

Model: `AgModel.Repair` over `AgModel.Blockstore` (as in `Props/C14.lean`). Schedules (`Ev`, `run`),
fairness (`Fair`, `Served`), the progress invariant (`RepInv`) and the blockstore invariant (`SInv`,
`StoreInv`, `BInv`) are defined in `Proofs/RepairRun.lean`, `Proofs/RepairStore.lean`,
`Proofs/BlockstoreInv.lean`; `HBlock` / `WF` (a correct leader's block) in `Proofs/BlockstoreHonest.lean`.
-/
namespace AgModel.Repair
open AgModel.Blockstore AgModel.Merkle HBlock

/-! ### 1. completion -/

/-- **Repair completes on every fair schedule.**
    `B`: any block of a correct leader (`n ≥ 1` slices, any shape allowed by `WF`); `sdH`: the slot data of
    a peer that holds it (`Holds`), `respOf sdH` is what that peer answers. `σ`: any state of the
    requester satisfying the progress invariant `RepInv` (`repair_block` establishes it: `repInv_begin`;
    every admissible step keeps it). `evs`: any finite schedule of events at the requester — responses of
    any kind from anybody (correct, NACK, unsolicited, replayed, wrong variant, bad proof, wrong root /
    index / slot, unsigned shreds, responses about other blocks), timeouts, further `repair_block` calls —
    that is *fair*: every request about `B` outstanding at any point of the schedule (so every request
    ever issued or re-sent) is, at that point or later, answered by the holder while still outstanding.
    Then after the schedule no request about `B` is outstanding, `get_block(id B)` returns exactly `B`,
    the block was announced (`Block` event to Votor and `pool.add_block(id, parent)`) in exactly the step
    that completed it, and no step panicked.

    `Admissible` (see there) is necessary: `derail_by_last_marker`, `derail_by_tag` below. -/
theorem repair_completes (B : HBlock) (env : Nat → Content) (cap : Nat) (hwf : B.WF env cap)
    (hroots : ∀ i, i < B.n → B.root i ≠ 0)
    (sdH : SlotData) (_hH : Holds B cap sdH)
    (σ : Sys) (hinv : RepInv B cap σ) (hstore : StoreInv cap σ.store)
    (evs : List Ev) (hadm : ∀ e ∈ evs, Admissible B e)
    (hfair : Fair env cap (respOf sdH) (bidOf B) σ evs) :
    (∀ r ∈ (run env cap σ evs).1.st.outstanding, r.bid ≠ bidOf B) ∧
    getBlock (storeGet cap (run env cap σ evs).1.store B.slot) B.block.hash = some B.block ∧
    ((spotOf cap B σ.store).completed = none → ∃ o ∈ (run env cap σ evs).2, Announced B o) ∧
    (∀ o ∈ (run env cap σ evs).2, o.panic = false) ∧
    RepInv B cap (run env cap σ evs).1 ∧ StoreInv cap (run env cap σ evs).1.store := by
  have hq := fair_quiescent env cap (respOf sdH) (bidOf B) evs σ hfair
  obtain ⟨h1, _, h3⟩ := run_repInv B env cap hwf hroots evs σ hinv hadm
  obtain ⟨hc, hg⟩ := repInv_quiescent_done B cap _ h1 hq
  obtain ⟨p1, _, p3⟩ := run_no_panic env cap evs σ hinv.rootsKnown hstore
  exact ⟨hq, hg, fun hn => h3 hn (by rw [hc]; rfl), p1, h1, p3⟩

/-- **Fair schedules exist from every state, and are finite** (the hypotheses of `repair_completes` are
    satisfiable after *any* admissible prefix): from every state satisfying `RepInv` the holder answering
    the outstanding requests one at a time is a finite, admissible, fair schedule. The measure is the
    weight `mu` of the outstanding requests about `B` (last-slice root `1 + 65 n`, slice root `65`,
    shred `1`): every correct response to an outstanding request strictly decreases it (`honest_step`). -/
theorem fair_schedule_exists (B : HBlock) (env : Nat → Content) (cap : Nat) (hwf : B.WF env cap)
    (hroots : ∀ i, i < B.n → B.root i ≠ 0) (hn32 : B.n ≤ 2 ^ 32)
    (sdH : SlotData) (hH : Holds B cap sdH) (σ : Sys) (hinv : RepInv B cap σ) :
    ∃ ext : List Ev, (∀ e ∈ ext, Admissible B e) ∧
      (∀ e ∈ ext, ∃ r, r.bid = bidOf B ∧ InBlock B r ∧ e = .resp (respOf sdH r)) ∧
      Fair env cap (respOf sdH) (bidOf B) σ ext := by
  obtain ⟨ext, h1, h2, h3⟩ := fair_extension B env cap hwf hroots hn32 σ hinv
  have hρ : ∀ r, r.bid = bidOf B → InBlock B r → honestResp B r = respOf sdH r := by
    intro r hb hin
    have : r.bid.hash = B.block.hash := by rw [hb]; rfl
    simp [respOf, holder_answers B cap sdH hH r this hin]
  refine ⟨ext, h1, ?_, fair_congr B env cap hwf hroots _ _ hρ ext σ hinv h1 h3⟩
  intro e he
  obtain ⟨r, hb, hin, rfl⟩ := h2 e he
  exact ⟨r, hb, hin, by rw [hρ r hb hin]⟩

end AgModel.Repair
