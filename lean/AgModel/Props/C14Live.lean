import AgModel.Proofs.RepairResponder
import AgModel.Props.C13
/-!
# C14, second half — completion of a repair, the responder, panic-freedom

Model: `AgModel.Repair` over `AgModel.Blockstore` (as in `Props/C14.lean`). Schedules (`Ev`, `run`),
fairness (`Fair`, `Served`), the progress invariant (`RepInv`) and the blockstore invariant (`SInv`,
`StoreInv`, `BInv`) are defined in `Proofs/RepairRun.lean`, `Proofs/RepairStore.lean`,
`Proofs/BlockstoreInv.lean`; `HBlock` / `WF` (a correct leader's block) in `Proofs/BlockstoreHonest.lean`.
-/
namespace AgModel.Repair
open AgModel.Blockstore AgModel.Merkle HBlock

/-! ### 1. completion -/

/-- **Repair completes on every fair schedule.**
    `B`: any block of a correct leader (`n ≥ 1` slices, any shape allowed by `WF`); `sdH`: the slot data of
    a peer that holds it (`Holds`), `respOf sdH` is what that peer answers. `σ`: any state of the
    requester satisfying the progress invariant `RepInv` (`repair_block` establishes it: `repInv_begin`;
    every admissible step keeps it). `evs`: any finite schedule of events at the requester — responses of
    any kind from anybody (correct, NACK, unsolicited, replayed, wrong variant, bad proof, wrong root /
    index / slot, unsigned shreds, validly signed shreds of other slices or with the other last-slice
    marker of a Byzantine leader, responses about other blocks), timeouts, further `repair_block` calls —
    that is *fair*: every request about `B` outstanding at any point of the schedule (so every request
    ever issued or re-sent) is, at that point or later, answered by the holder while still outstanding.
    Then after the schedule no request about `B` is outstanding, `get_block(id B)` returns exactly `B`,
    the block was announced (`Block` event to Votor and `pool.add_block(id, parent)`) in exactly the step
    that completed it, and no step panicked.

    `Admissible` (see `Proofs/RepairRun.lean`) is no longer an assumption about responders at all: it only
    holds the two typing constraints of the model's response type (`padding_leaf_witness`,
    `size_class_witness`). Since fix D26 it says nothing about the last-slice marker (`evilLast_admissible`,
    `last_marker_no_longer_derails`), and since fix D15b nothing about the unauthenticated data/coding type
    either: a response with a flipped type is admissible (`evilTag_admissible`), the requester drops it and
    keeps the request outstanding, so the hostile schedule that used to derail the repair (`derail_by_tag`,
    now the pinned-definition witness `derail_by_tag_old`) is covered by this theorem
    (`tag_no_longer_derails`). -/
theorem repair_completes (B : HBlock) (env : Nat → Content) (cap : Nat) (hwf : B.WF env cap)
    (hroots : ∀ i, i < B.n → B.root i ≠ 0)
    (sdH : SlotData) (_hH : Holds B cap sdH)
    (σ : Sys) (hinv : RepInv B cap σ) (hstore : StoreInv cap σ.store)
    (evs : List Ev) (hadm : ∀ e ∈ evs, Admissible B e)
    (hfair : Fair env cap (respOf sdH) (bidOf B) σ evs) :
    (∀ r ∈ (run env cap σ evs).1.st.outstanding, r.bid ≠ bidOf B) ∧
    getBlock (storeGet cap (run env cap σ evs).1.store B.slot) B.block.hash = some B.block ∧
    ((spotOf cap B σ.store).completed = none → ∃ o ∈ (run env cap σ evs).2, Announced B o) ∧
    (∀ o ∈ (run env cap σ evs).2, o.panic = false) ∧
    RepInv B cap (run env cap σ evs).1 ∧ StoreInv cap (run env cap σ evs).1.store := by
  have hq := fair_quiescent env cap (respOf sdH) (bidOf B) evs σ hfair
  obtain ⟨h1, _, h3⟩ := run_repInv B env cap hwf hroots evs σ hinv hadm
  obtain ⟨hc, hg⟩ := repInv_quiescent_done B cap _ h1 hq
  obtain ⟨p1, _, p3⟩ := run_no_panic env cap evs σ hinv.rootsKnown hstore
  exact ⟨hq, hg, fun hn => h3 hn (by rw [hc]; rfl), p1, h1, p3⟩

/-- **Repair of a block the node knows nothing about** (`repair_completes` composed with `repInv_begin`):
    on any requester state whose blockstore satisfies the invariant and that has no request, proven root
    or repair spot for `B` yet and does not hold it, `repair_block(id B)` followed by any admissible
    schedule that is fair towards `B` stores and announces `B`, and nothing panics. -/
theorem repair_completes_from_start (B : HBlock) (env : Nat → Content) (cap : Nat) (hwf : B.WF env cap)
    (hroots : ∀ i, i < B.n → B.root i ≠ 0)
    (sdH : SlotData) (hH : Holds B cap sdH)
    (σ : Sys) (hstore : StoreInv cap σ.store) (hrk : RootsKnown σ.st)
    (hnone : getBlock (storeGet cap σ.store B.slot) B.block.hash = none)
    (hspot : repGet (storeGet cap σ.store B.slot).rep B.block.hash = none)
    (hnoroots : ∀ i, rootGet σ.st.sliceRoots (bidOf B, i) = none)
    (hnoreq : ∀ r ∈ σ.st.outstanding, r.bid ≠ bidOf B)
    (evs : List Ev) (hadm : ∀ e ∈ evs, Admissible B e)
    (hfair : Fair env cap (respOf sdH) (bidOf B) (stepEv env cap σ (.start (bidOf B))).1 evs) :
    (∀ r ∈ (run env cap σ (.start (bidOf B) :: evs)).1.st.outstanding, r.bid ≠ bidOf B) ∧
    getBlock (storeGet cap (run env cap σ (.start (bidOf B) :: evs)).1.store B.slot) B.block.hash = some B.block ∧
    (∃ o ∈ (run env cap σ (.start (bidOf B) :: evs)).2, Announced B o) ∧
    (∀ o ∈ (run env cap σ (.start (bidOf B) :: evs)).2, o.panic = false) := by
  have hinv := repInv_begin B env cap hwf.npos σ (hstore B.slot).2.1 (hstore B.slot).2.2 hnone hspot hrk hnoroots hnoreq
  have hs0 := stepEv_no_panic env cap σ (.start (bidOf B)) hrk hstore
  have hstore' : (stepEv env cap σ (.start (bidOf B))).1.store = σ.store := rfl
  obtain ⟨h1, h2, h3, h4, _, _⟩ := repair_completes B env cap hwf hroots sdH hH _ hinv (by rw [hstore']; exact hstore) evs hadm hfair
  have hsp : (spotOf cap B (stepEv env cap σ (.start (bidOf B))).1.store).completed = none := by
    rw [hstore']; unfold spotOf; rw [hspot]; rfl
  obtain ⟨o, ho, ha⟩ := h3 hsp
  simp only [run]
  refine ⟨h1, h2, ⟨o, List.mem_cons_of_mem _ ho, ha⟩, ?_⟩
  intro o' ho'
  rcases List.mem_cons.mp ho' with rfl | ho'
  · exact hs0.1
  · exact h4 o' ho'

/-- **Fair schedules exist from every state, and are finite** (the hypotheses of `repair_completes` are
    satisfiable after *any* admissible prefix): from every state satisfying `RepInv` the holder answering
    the outstanding requests one at a time is a finite, admissible, fair schedule. The measure is the
    weight `mu` of the outstanding requests about `B` (last-slice root `1 + 65 n`, slice root `65`,
    shred `1`): every correct response to an outstanding request strictly decreases it (`honest_step`). -/
theorem fair_schedule_exists (B : HBlock) (env : Nat → Content) (cap : Nat) (hwf : B.WF env cap)
    (hroots : ∀ i, i < B.n → B.root i ≠ 0) (hn32 : B.n ≤ 2 ^ 32)
    (sdH : SlotData) (hH : Holds B cap sdH) (σ : Sys) (hinv : RepInv B cap σ) :
    ∃ ext : List Ev, (∀ e ∈ ext, Admissible B e) ∧
      (∀ e ∈ ext, ∃ r, r.bid = bidOf B ∧ InBlock B r ∧ e = .resp (respOf sdH r)) ∧
      Fair env cap (respOf sdH) (bidOf B) σ ext := by
  obtain ⟨ext, h1, h2, h3⟩ := fair_extension B env cap hwf hroots hn32 σ hinv
  have hρ : ∀ r, r.bid = bidOf B → InBlock B r → honestResp B r = respOf sdH r := by
    intro r hb hin
    have : r.bid.hash = B.block.hash := by rw [hb]; rfl
    simp [respOf, holder_answers B cap sdH hH r this hin]
  refine ⟨ext, h1, ?_, fair_congr B env cap hwf hroots _ _ hρ ext σ hinv h1 h3⟩
  intro e he
  obtain ⟨r, hb, hin, rfl⟩ := h2 e he
  exact ⟨r, hb, hin, by rw [hρ r hb hin]⟩


/-- **A node that completed the repair holds the block** (and can serve it in turn: `Holds` is what
    `repair_completes` / `fair_schedule_exists` ask of the answering peer). -/
theorem repaired_node_holds (B : HBlock) (cap : Nat) (σ : Sys) (hinv : RepInv B cap σ) (hstore : StoreInv cap σ.store)
    (hq : ∀ r ∈ σ.st.outstanding, r.bid ≠ bidOf B) : Holds B cap (storeGet cap σ.store B.slot) := by
  obtain ⟨hc, _⟩ := repInv_quiescent_done B cap σ hinv hq
  refine ⟨(hstore B.slot).1, spotOf cap B σ.store, ?_, hinv.live.good, by rw [hc]; rfl⟩
  have hbd : blockData (storeGet cap σ.store B.slot) B.block.hash = repGet (storeGet cap σ.store B.slot).rep B.block.hash := by
    unfold blockData
    cases hd : (storeGet cap σ.store B.slot).dis.completed with
    | none => rfl
    | some b => simp only; rw [if_neg (hinv.nodis b hd)]
  rw [hbd]
  unfold spotOf at hc ⊢
  cases hr : repGet (storeGet cap σ.store B.slot).rep B.block.hash with
  | none => rw [hr] at hc; simp [BlockData.new] at hc
  | some b => rfl

/-! ### 2. the responder -/

/-- **Every answer for a held block verifies at the requester and carries exactly the requested item.**
    For every slot data satisfying the blockstore invariant and every block id `b` whose block is held
    (`get_block(b)` is `Some`): the answer to `LastSliceRoot(b)` is a `LastSliceRoot` response echoing the
    request whose `(last, root, proof)` passes `check_proof_last` against `b`'s hash; for every slice
    `i ≤ last` the answer to `SliceRoot(b, i)` passes `check_proof` against the hash, and the answer to
    `Shred(b, i, j)` for each of the 64 indices is a (leader-signed) shred of slot `b.slot`, slice `i`,
    index `j`, carrying exactly the slice root that was proven, the last-slice flag `i = last` and the data/coding
    type that fits its index (`TyInv`: since the D15 fix nothing else is ever stored) — i.e.
    it passes every check of `handle_response` (`Valid`, including the flag comparison of fix D26) at a
    requester that recorded that root and that last slice index. This holds for every held block, also
    one of a Byzantine leader: a node only ever stores shreds whose flag agrees with its last-slice marker
    (`FlagInv`), so the fix cannot make an honest holder's answers unacceptable. Uses C15 `complete`,
    `complete_last`. -/
theorem responder_answers_verify (sd : SlotData) (b : Bid) (blk : Block) (hs : SInv sd) (hcap : sd.dis.cap ≤ 2 ^ 32)
    (hheld : getBlock sd b.hash = some blk) :
    ∃ l, (∃ root π, answer sd (.last b) = some (.lastRoot (.last b) l root π) ∧ checkProofLast root l b.hash π = true) ∧
      ∀ i, i ≤ l → ∃ root π, answer sd (.root b i) = some (.sliceRoot (.root b i) root π) ∧
        checkProof root i b.hash π = true ∧
        ∀ j, j < TOTAL_SHREDS → ∃ s, answer sd (.shred b i j) = some (.shred (.shred b i j) b.slot s true) ∧
          s.slice = i ∧ s.idx = j ∧ s.root = root ∧ s.isLast = decide (i = l) ∧ s.ty = true ∧
          ∀ st : RepairSt, rootGet st.sliceRoots (b, i) = some root → lastGet st.lastSlices b = some l →
            Valid st (.shred (.shred b i j) b.slot s true) := by
  obtain ⟨l, h1, h2⟩ := answer_held_verifies sd b blk hs hcap hheld
  refine ⟨l, h1, ?_⟩
  intro i hi
  obtain ⟨root, π, a1, a2, a3⟩ := h2 i hi
  refine ⟨root, π, a1, a2, ?_⟩
  intro j hj
  obtain ⟨s, s1, s2, s3, s4, s5, s6⟩ := a3 j hj
  refine ⟨s, s1, s2, s3, s4, s5, s6, fun st hst hlst => ⟨rfl, s2, s3, by rw [hst, s4], ?_, s6, rfl⟩⟩
  rw [s5, hlst]
  apply decide_eq_decide.mpr
  constructor
  · intro h; rw [h]
  · intro h; injection h with h; exact h.symm

/-- **The responder is total: never a panic, a NACK for what it cannot serve.** For every slot data
    satisfying the blockstore invariant: every request (any kind, block id, indices) is answered — the
    `assert!(index < leaves)` of `create_proof` is unreachable —; every request about a block id the node
    has no data for is NACKed; and every request about a slice beyond the last slice of a known block is
    NACKed. -/
theorem responder_total (sd : SlotData) (hs : SInv sd) :
    (∀ r, answer sd r ≠ none) ∧
    (∀ r, (∀ b, (r = .last b ∨ (∃ i, r = .root b i) ∨ (∃ i j, r = .shred b i j)) → blockData sd b.hash = none) →
      answer sd r = some (.nack r)) ∧
    (∀ b l i j, getLastSliceIndex sd b.hash = some l → l < i →
      answer sd (.root b i) = some (.nack (.root b i)) ∧ answer sd (.shred b i j) = some (.nack (.shred b i j))) :=
  ⟨fun r => answer_total sd r hs, fun r h => responder_nacks_unknown sd r h,
    fun b l i j h1 h2 => answer_beyond_last sd b l i j hs h1 h2⟩

/-! ### 3. panic-freedom -/

/-- **`add_shred_from_repair` is total**: from every slot data satisfying the blockstore invariant, for
    every requested hash and every validated shred whatsoever (any slice index, shred index, last-slice
    flag, root, size class, tag — any mix of validly signed slices of a Byzantine leader), it does not
    panic (no `expect` of `try_reconstruct_slice` / `try_reconstruct_block` fires) and the invariant holds
    again. The invariant holds for the empty slot and is preserved by dissemination as well. -/
theorem repair_store_total (env : Nat → Content) (sd : SlotData) (h : H) (s : Shred) (hinv : SInv sd) :
    (addRepair env sd h s).2.1 ≠ .panic ∧ SInv (addRepair env sd h s).1 :=
  ⟨(addRepair_sinv env sd h s hinv).2, (addRepair_sinv env sd h s hinv).1⟩

/-- the blockstore invariant is an invariant: it holds initially and after every
    `add_shred_from_dissemination` / `add_shred_from_repair` (none of which panics) and after every
    `add_own_slice` that passes its own `assert!(last_slice.is_none())` with a parent on the first slice -/
theorem blockstore_invariant (env : Nat → Content) (cap slot : Nat) :
    SInv (SlotData.new cap slot) ∧
    (∀ sd s, SInv sd → SInv (addDissem env sd s).1 ∧ (addDissem env sd s).2.1 ≠ .panic) ∧
    (∀ sd h s, SInv sd → SInv (addRepair env sd h s).1 ∧ (addRepair env sd h s).2.1 ≠ .panic) ∧
    (∀ sd c sz parent txs, SInv sd → sd.dis.lastSlice = none → (c.slice = 0 → parent.isSome) →
      SInv (addOwn sd c sz parent txs).1) :=
  ⟨sinv_new cap slot, fun sd s h => addDissem_sinv env sd s h, fun sd h s hi => addRepair_sinv env sd h s hi,
    fun sd c sz parent txs h1 h2 h3 => addOwn_sinv sd c sz parent txs h1 h2 h3⟩

/-- **The repair task never panics**: with the two invariants (`RootsKnown`: proven in `Props/C14.lean`
    to hold along every run; `StoreInv`) no response whatsoever reaches the `unreachable!`, a blockstore
    `expect`, the `assert_eq!(block_info.hash, block_hash)` or the `assert!` of `pool.add_block`, and both
    invariants hold again; hence no step of any schedule panics. -/
theorem repair_task_never_panics (env : Nat → Content) (cap : Nat) (evs : List Ev) (σ : Sys)
    (hk : RootsKnown σ.st) (hs : StoreInv cap σ.store) :
    (∀ o ∈ (run env cap σ evs).2, o.panic = false) ∧ RootsKnown (run env cap σ evs).1.st ∧
      StoreInv cap (run env cap σ evs).1.store := run_no_panic env cap evs σ hk hs


/-! ### 4. fixes D26 and D15b; what is left of the hypothesis `Admissible` is typing only; non-vacuity -/

/-- the two-slice block of `Props/C13.lean` (slot 5, parent (3, #7)) is a correct leader's block -/
theorem exB_wf : exB.WF exEnv 3 :=
  { npos := by decide, ncap := by decide, szpos := by intro i; simp [exB],
    envok := by
      intro i hi
      match i, hi with
      | 0, _ => rfl
      | 1, _ => rfl,
    fold := ⟨(3, 7), rfl, by decide⟩, pslot := by decide }

theorem exB_roots : ∀ i, i < exB.n → exB.root i ≠ 0 := by intro i _; simp [exB]

def exBid : Bid := bidOf exB
/-- the holder's answer to `r` as an event -/
def hon (r : Req) : Ev := .resp (honestResp exB r)
def shredsOf (i : Nat) : List Ev := (List.range TOTAL_SHREDS).map (fun j => hon (.shred exBid i j))
/-- start, last-slice root, then per slice: its root and its 64 shreds -/
def schedHonest : List Ev :=
  [.start exBid, hon (.last exBid), hon (.root exBid 0)] ++ shredsOf 0 ++ [hon (.root exBid 1)] ++ shredsOf 1

/-- a Byzantine leader signed slice 0 (same root) also with the last-slice marker; a hostile peer
    answers `Shred(id, 0, 0)` with that shred: right slot / slice / index, the proven slice root, a
    valid leader signature (known finding D26, fixed: the requester now drops it) -/
def evilLast : Ev := .resp (.shred (.shred exBid 0 0) 5 { exB.shred 0 0 with isLast := true } true)
/-- a hostile peer flips the unauthenticated data/coding tag (D15) of the genuine shred (0, 0) -/
def evilTag : Ev := .resp (.shred (.shred exBid 0 0) 5 { exB.shred 0 0 with ty := false } true)

def schedWith (evil : Ev) : List Ev :=
  [.start exBid, hon (.last exBid), hon (.root exBid 0), evil] ++ shredsOf 0 ++ [hon (.root exBid 1)] ++ shredsOf 1

/-- Non-vacuity, concretely: on a fresh requester the holder's answers in order complete the repair —
    nothing outstanding, the block stored under its id, announced exactly once, no panic. -/
theorem honest_schedule_completes :
    (run exEnv 3 ⟨RepairSt.init, []⟩ schedHonest).1.st.outstanding = [] ∧
    getBlock (storeGet 3 (run exEnv 3 ⟨RepairSt.init, []⟩ schedHonest).1.store 5) exBid.hash = some exB.block ∧
    ((run exEnv 3 ⟨RepairSt.init, []⟩ schedHonest).2.filter (fun o => decide (o.poolAdd = some (exBid, exB.fparent)))).length = 1 ∧
    (run exEnv 3 ⟨RepairSt.init, []⟩ schedHonest).2.all (fun o => !o.panic) = true := by
  decide +kernel

/-- **Fix D26 — the last-slice marker no longer derails the repair.** The schedule that used to be the
    witness `derail_by_last_marker`: all events but one are the holder's answers, and a hostile peer
    answers `Shred(id, 0, 0)` with the shred of slice 0 that the Byzantine leader also signed with the
    last-slice marker (right slot / slice / index, the proven slice root, valid leader signature). The
    requester proved through `LastSliceRoot` that slice 1 is the last one, so the response is now dropped:
    the request is still outstanding after it, that step stores and announces nothing, and at the end of
    the very same schedule nothing is outstanding, the block is stored under its id, announced exactly
    once, and no step panicked. -/
theorem last_marker_no_longer_derails :
    Req.shred exBid 0 0 ∈ (run exEnv 3 ⟨RepairSt.init, []⟩ ((schedWith evilLast).take 3)).1.st.outstanding ∧
    Req.shred exBid 0 0 ∈ (run exEnv 3 ⟨RepairSt.init, []⟩ ((schedWith evilLast).take 4)).1.st.outstanding ∧
    (run exEnv 3 ⟨RepairSt.init, []⟩ ((schedWith evilLast).take 4)).2.getLast? = some {} ∧
    (run exEnv 3 ⟨RepairSt.init, []⟩ (schedWith evilLast)).1.st.outstanding = [] ∧
    getBlock (storeGet 3 (run exEnv 3 ⟨RepairSt.init, []⟩ (schedWith evilLast)).1.store 5) exBid.hash = some exB.block ∧
    ((run exEnv 3 ⟨RepairSt.init, []⟩ (schedWith evilLast)).2.filter
      (fun o => decide (o.poolAdd = some (exBid, exB.fparent)))).length = 1 ∧
    (run exEnv 3 ⟨RepairSt.init, []⟩ (schedWith evilLast)).2.all (fun o => !o.panic) = true ∧
    (storeGet 3 (run exEnv 3 ⟨RepairSt.init, []⟩ (schedWith evilLast)).1.store 5).misbehaved = false := by
  decide +kernel

/-- the same, the other way round: the last slice signed *without* the marker is dropped as well -/
def evilNotLast : Ev := .resp (.shred (.shred exBid 1 0) 5 { exB.shred 1 0 with isLast := false } true)

theorem missing_last_marker_rejected :
    (stepEv exEnv 3 (run exEnv 3 ⟨RepairSt.init, []⟩ ((schedWith evilLast).take 69)).1 evilNotLast).2 = {} ∧
    Req.shred exBid 1 0 ∈ (run exEnv 3 ⟨RepairSt.init, []⟩ ((schedWith evilLast).take 69)).1.st.outstanding ∧
    Req.shred exBid 1 0 ∈
      (stepEv exEnv 3 (run exEnv 3 ⟨RepairSt.init, []⟩ ((schedWith evilLast).take 69)).1 evilNotLast).1.st.outstanding := by
  decide +kernel

/-- **Why the check is needed (the old behaviour, at the blockstore).** Had the shred with the wrong
    marker been handed to `add_shred_from_repair` (as `handle_response` did before fix D26), the repair
    spot would have cached its commitment and marked slice 0 as last: the genuine shreds of slice 0 and
    of slice 1 are then rejected as `Equivocation` — and each of their requests was consumed by its
    (valid) response, so nothing retried. -/
theorem last_marker_would_poison :
    (addRepair exEnv (addRepair exEnv (SlotData.new 3 5) exBid.hash { exB.shred 0 0 with isLast := true }).1
      exBid.hash (exB.shred 0 1)).2.1 = .err .equivocation ∧
    (addRepair exEnv (addRepair exEnv (SlotData.new 3 5) exBid.hash { exB.shred 0 0 with isLast := true }).1
      exBid.hash (exB.shred 1 0)).2.1 = .err .equivocation := by
  decide +kernel

/-- `add_shred_from_repair` of the pinned snapshot (before the D15 `fix:`): `addShredCore`, no type check -/
def addRepairOld (env : Nat → Content) (sd : SlotData) (h : H) (s : Shred) : SlotData × AddRes × List Event :=
  let br := addShredCore env ((repGet sd.rep h).getD (BlockData.new sd.dis.cap sd.dis.slot)) s
  let p := fileRepair sd h br.1 br.2
  flagIfBad p.1 p.2

/-- the pinned blockstore fed the type-flipped shred (0, 0) and then the genuine shreds (0, 1) … (0, k) -/
def oldAfterFlip (k : Nat) : SlotData × AddRes × List Event :=
  ((List.range k).map (fun j => exB.shred 0 (j + 1))).foldl (fun acc s => addRepairOld exEnv acc.1 exBid.hash s)
    (addRepairOld exEnv (SlotData.new 3 5) exBid.hash { exB.shred 0 0 with ty := false })

/-- **The defect D15b, on the pinned definitions** (was `derail_by_tag`, the witness that `Admissible` had to
    exclude flipped tags): the pinned requester had no check between the signature and `add_shred_from_repair` (the
    fixed `handle_response` differs from it only by the new check), so the genuine shred (0, 0) of a *correct* leader
    with its unauthenticated data/coding type flipped by the responder was handed to the blockstore - and its request
    removed. The pinned blockstore stores it; the next shred of slice 0 makes `deshred` fail on the layout (the
    layout check precedes the count): `InvalidShred`, the correct leader's slot is flagged, `InvalidBlock` is sent,
    every further shred is `InvalidShred` and the block is never completed in that spot. -/
theorem derail_by_tag_old :
    (addRepairOld exEnv (SlotData.new 3 5) exBid.hash { exB.shred 0 0 with ty := false }).2.1 = .ev .firstShred ∧
    (oldAfterFlip 1).2 = (.err .invalidShred, [.invalidBlock]) ∧ (oldAfterFlip 1).1.misbehaved = true ∧
    (oldAfterFlip 31).2 = (.err .invalidShred, []) ∧
    getBlock (oldAfterFlip 63).1 exBid.hash = none := by
  decide +kernel

/-- **Fix D15b — a flipped data/coding type no longer derails the repair** (the schedule of the old witness
    `derail_by_tag`): all events but one are the holder's answers, and a hostile peer answers `Shred(id, 0, 0)` with
    the genuine shred whose type it flipped. The response is dropped: the request is still outstanding after it, that
    step stores and announces nothing, and at the end of the very same schedule nothing is outstanding, the block is
    stored under its id, announced exactly once, no step panicked and the correct leader is not flagged. The
    blockstore itself would also have ignored the shred (`WrongType`). -/
theorem tag_no_longer_derails :
    Req.shred exBid 0 0 ∈ (run exEnv 3 ⟨RepairSt.init, []⟩ ((schedWith evilTag).take 4)).1.st.outstanding ∧
    (run exEnv 3 ⟨RepairSt.init, []⟩ ((schedWith evilTag).take 4)).2.getLast? = some {} ∧
    (run exEnv 3 ⟨RepairSt.init, []⟩ (schedWith evilTag)).1.st.outstanding = [] ∧
    getBlock (storeGet 3 (run exEnv 3 ⟨RepairSt.init, []⟩ (schedWith evilTag)).1.store 5) exBid.hash = some exB.block ∧
    ((run exEnv 3 ⟨RepairSt.init, []⟩ (schedWith evilTag)).2.filter
      (fun o => decide (o.poolAdd = some (exBid, exB.fparent)))).length = 1 ∧
    (run exEnv 3 ⟨RepairSt.init, []⟩ (schedWith evilTag)).2.all (fun o => !o.panic) = true ∧
    (storeGet 3 (run exEnv 3 ⟨RepairSt.init, []⟩ (schedWith evilTag)).1.store 5).misbehaved = false ∧
    (addRepair exEnv (SlotData.new 3 5) exBid.hash { exB.shred 0 0 with ty := false }).2 = (.err .wrongType, []) := by
  decide +kernel

/-- What `Admissible` excludes and what it does not: the shred with the other last-slice marker is
    admissible (the code rejects it, nothing needs to be assumed about it); so is the flipped data/coding type
    (`evilTag_admissible`, since the D15b fix); the holder's answers are admissible (`honest_step`). -/
theorem evilLast_admissible : Admissible exB evilLast ∧ Admissible exB evilNotLast := by
  constructor
  · intro _ _ _ _ _ h
    simp [HBlock.shred, HBlock.isLast, exB] at h
  · intro _ _ _ _ _ h
    simp [HBlock.shred, HBlock.isLast, exB] at h

/-- nothing is assumed about the data/coding type any more: the flipped shred is an admissible event -/
theorem evilTag_admissible : Admissible exB evilTag := by
  intro _ _ _ _ _ _; rfl

/-- The size-class part of `Admissible` is a typing constraint of the model's encoding: `sz` abstracts
    the payload length, and the payload of a shred is what its Merkle path to the slice root
    authenticates, so a shred that verifies under the leader's root at index `j` has the leader's
    payload. In the model's wider response type `sz` is a free attribute, and a shred with the right
    commitment and a different size class would make the layout check of slice 0 fail for good. -/
def evilSz : Ev := .resp (.shred (.shred exBid 0 0) 5 { exB.shred 0 0 with sz := 4 } true)

theorem size_class_witness :
    ¬ Admissible exB evilSz ∧
    (run exEnv 3 ⟨RepairSt.init, []⟩ (schedWith evilSz)).1.st.outstanding = [] ∧
    getBlock (storeGet 3 (run exEnv 3 ⟨RepairSt.init, []⟩ (schedWith evilSz)).1.store 5) exBid.hash = none := by
  refine ⟨?_, by decide +kernel⟩
  intro h
  have := h rfl rfl rfl rfl rfl rfl
  simp [HBlock.shred, exB] at this

/-- The `root ≠ 0` part of `Admissible` is a typing constraint of the model's encoding, not an
    assumption about peers: data id `0` is the empty byte string of the padding leaves
    (`EMPTY_ROOTS[0] = hash_leaf(&[])`), which a 32-byte `SliceRoot` can never be. In the model's wider
    response type such a "root" does verify as last leaf at the first padding position. -/
theorem padding_leaf_witness :
    checkProofLast 0 3 (Tree.new [1, 2, 3]).root ((Tree.new [1, 2, 3, 0]).createProof 3) = true := by decide

/-- a peer that received 32 shreds of every slice of `exB` through dissemination -/
def exHolder : SlotData :=
  (runDissem exEnv (SlotData.new 3 5) ((List.range 32).map (exB.shred 1) ++ (List.range 32).map (exB.shred 0))).1

theorem exHolder_holds : Holds exB 3 exHolder := by
  have hhon : ∀ s ∈ (List.range 32).map (exB.shred 1) ++ (List.range 32).map (exB.shred 0), exB.Honest s := by
    intro s hs
    simp only [List.mem_append, List.mem_map, List.mem_range] at hs
    rcases hs with ⟨j, hj, rfl⟩ | ⟨j, hj, rfl⟩
    · exact ⟨by simp [HBlock.shred, exB], by simp only [HBlock.shred, total_shreds_eq]; omega, rfl⟩
    · exact ⟨by simp [HBlock.shred, exB], by simp only [HBlock.shred, total_shreds_eq]; omega, rfl⟩
  have hgood := (honest_never_flagged_typed exB exEnv 3 exB_wf (SlotData.new 3 5) ⟨rfl, good_new exB 3⟩ _ hhon).1
  have hc : exHolder.dis.completed = some exB.block := by decide +kernel
  refine ⟨runDissem_sinv exEnv _ _ (sinv_new 3 5), exHolder.dis, ?_, hgood.2, by rw [hc]; rfl⟩
  unfold blockData
  rw [hc]
  simp

/-- **Non-vacuity of `repair_completes`**: all its hypotheses hold together for a concrete block, holder,
    start state and a non-empty schedule (so its conclusion is not vacuous); the schedule comes from
    `fair_schedule_exists`. -/
example : ∃ (σ : Sys) (evs : List Ev), RepInv exB 3 σ ∧ StoreInv 3 σ.store ∧ (∀ e ∈ evs, Admissible exB e) ∧
    Fair exEnv 3 (respOf exHolder) (bidOf exB) σ evs ∧ evs ≠ [] ∧ (spotOf 3 exB σ.store).completed = none := by
  have hinv : RepInv exB 3 (stepEv exEnv 3 ⟨RepairSt.init, []⟩ (.start (bidOf exB))).1 :=
    repInv_begin exB exEnv 3 (by decide) ⟨RepairSt.init, []⟩ rfl rfl (by decide) rfl rootsKnown_init
      (fun _ => rfl) (by intro r hr; simp [RepairSt.init] at hr)
  obtain ⟨evs, h1, _, h3⟩ := fair_schedule_exists exB exEnv 3 exB_wf exB_roots (by decide) exHolder exHolder_holds _ hinv
  refine ⟨_, evs, hinv, storeInv_nil 3, h1, h3, ?_, by decide⟩
  rintro rfl
  exact h3 (.last (bidOf exB)) (by decide) rfl

end AgModel.Repair
