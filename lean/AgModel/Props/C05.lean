import AgModel.Gen.Consts
import AgModel.Proofs.Votor
import AgModel.Proofs.VotorExt
import AgModel.Proofs.NodeFallback
/-!
# C05 — a correct node's own votes obey the voting rules under every event order

All statements are about `AgModel.Votor` (model of `src/consensus/votor.rs`, tied to the code by the
correspondence run) and quantify over **every finite event list** `es` delivered to a fresh Votor —
the adversary chooses all events: blocks (several per slot, before their parents), timeouts,
parent-ready announcements, certificates of every kind, safe-to-notar / safe-to-skip announcements,
standstill bundles, events for retired and pruned slots, in any order.

`log es` is the history, newest first, of the events received (`.ev`) and of everything handed to
`All2All::broadcast` (`.out`). In `log = a ++ x :: b` the list `b` is what happened *before* `x`.

The clause "fallback votes only in slots where the node already voted" is not a property of Votor alone
(`fallback_before_vote_without_pool`); it is proved at the end of this file for the composed node
`AgModel.Node` (the node's own pool feeding Votor through the event queue): `node_fallback_only_after_vote`,
`node_fallback_not_for_own_block`.
-/
namespace AgModel.Votor

/-- the history after delivering `es` to a fresh Votor (newest first) -/
def log (es : List Event) : List Item := (run init es).log

/-- the window constant of the model is the one in the source -/
theorem W_is_source : W = AgModel.Gen.SLOTS_PER_WINDOW := rfl

/-- **At most one initial vote per slot** (notarize one block, or skip). -/
theorem one_initial_vote (es : List Event) (s : Nat) : (log es).countP (·.isInit s) ≤ 1 :=
  (inv_reachable es).once s

private theorem countP_ge_two {p : Item → Bool} : ∀ {l : List Item} {x y : Item}, x ∈ l → y ∈ l → x ≠ y →
    p x = true → p y = true → 2 ≤ l.countP p := by
  intro l
  induction l with
  | nil => intro x y hx; cases hx
  | cons z t ih =>
    intro x y hx hy hne px py
    rw [List.countP_cons]
    rcases List.mem_cons.mp hx with rfl | hx' <;> rcases List.mem_cons.mp hy with rfl | hy'
    · exact absurd rfl hne
    · have : 1 ≤ t.countP p := List.countP_pos_iff.mpr ⟨y, hy', py⟩
      rw [if_pos px]; omega
    · have : 1 ≤ t.countP p := List.countP_pos_iff.mpr ⟨x, hx', px⟩
      rw [if_pos py]; omega
    · have := ih hx' hy' hne px py
      omega

/-- two initial votes of one slot are the same vote -/
theorem initial_vote_unique (es : List Event) (s : Nat) (x y : Item) (hx : x ∈ log es) (hy : y ∈ log es)
    (px : x.isInit s = true) (py : y.isInit s = true) : x = y := by
  by_cases h : x = y
  · exact h
  · have := countP_ge_two (p := (·.isInit s)) hx hy h px py
    have := one_initial_vote es s
    omega

/-- **A block is notarized only if its parent is acceptable.** Whenever a notar vote for block `h`
    of slot `s` with parent `(ps, ph)` is cast, that block was delivered by the blockstore before, and
    * in the first slot of a window: the pool announced `ParentReady(s, (ps, ph))` before;
    * otherwise: `ps` is the preceding slot and `ph` is the block the node itself notarized there
      before (for slot 1: the genesis block). -/
theorem notar_parent_ok (es : List Event) (a b : List Item) (s h ps ph : Nat)
    (hl : log es = a ++ .out (.notar s h ps ph) :: b) :
    .ev (.block s ⟨h, ps, ph⟩) ∈ b ∧
    (if s % W = 0 then .ev (.parentReady s ps ph) ∈ b
     else ps + 1 = s ∧ ((ps = 0 ∧ ph = 0) ∨ ∃ ps' ph', .out (.notar ps ph ps' ph') ∈ b)) :=
  (inv_reachable es).hist.split a _ b hl

/-- **A finalize vote is cast only for the block the node notarized, after seeing that block's
    notarization certificate** (the pre-notarized genesis block being the only other case). -/
theorem final_only_for_notarized_own_block (es : List Event) (a b : List Item) (s : Nat)
    (hl : log es = a ++ .out (.final s) :: b) :
    ∃ h, ((s = 0 ∧ h = 0) ∨ ∃ ps ph, .out (.notar s h ps ph) ∈ b) ∧
         ((s = 0 ∧ h = 0) ∨ .ev (.cert .notar s h) ∈ b) :=
  (inv_reachable es).hist.split a _ b hl

/-- **No finalize vote in a slot with a skip, skip-fallback or notar-fallback vote, in either
    order** (never finalizes a bad slot; never casts any of those after finalizing). -/
theorem no_final_in_bad_slot (es : List Event) (s : Nat) (hf : .out (.final s) ∈ log es) :
    .out (.skip s) ∉ log es ∧ .out (.skipFallback s) ∉ log es ∧ ∀ h, .out (.notarFallback s h) ∉ log es := by
  have hc := (inv_reachable es).finalClean s ⟨_, hf, by simp [Item.isFinal]⟩
  refine ⟨fun h => ?_, fun h => ?_, fun hh h => ?_⟩ <;> simpa [Item.isBad] using hc _ h

/-- **Nothing but (repeated) finalize votes after finalizing**: once a finalize vote for `s` is
    cast, every later vote for `s` is a finalize vote. (`s ≠ 0`: the genesis slot is born finalized;
    that it never gets an initial vote either is not proved here.) -/
theorem nothing_after_final (es : List Event) (a b : List Item) (s : Nat)
    (hl : log es = a ++ .out (.final s) :: b) (hs0 : s ≠ 0) (x : Item) (hx : x ∈ a)
    (hs : x.voteSlot = some s) : x = .out (.final s) := by
  have hfin : .out (.final s) ∈ log es := by rw [hl]; simp
  have hxl : x ∈ log es := by rw [hl]; simp [hx]
  obtain ⟨h1, h2, h3⟩ := no_final_in_bad_slot es s hfin
  obtain ⟨h, hn, _⟩ := final_only_for_notarized_own_block es a b s hl
  cases x with
  | ev e => simp [Item.voteSlot] at hs
  | out o =>
    cases o with
    | notar s' h' ps' ph' =>
      simp only [Item.voteSlot, Option.some.injEq] at hs; subst hs
      -- a second notar vote would be a second initial vote
      exfalso
      rcases hn with ⟨h0, _⟩ | ⟨ps, ph, hb⟩
      · exact hs0 h0
      · have hbl : .out (.notar s' h ps ph) ∈ log es := by rw [hl]; simp [hb]
        have heq := initial_vote_unique es s' _ _ hxl hbl (by simp [Item.isInit]) (by simp [Item.isInit])
        -- the same item occurs both before and after the finalize vote: two occurrences
        rw [heq] at hx
        have : 2 ≤ (log es).countP (·.isInit s') := by
          rw [hl, List.countP_append, List.countP_cons]
          have c1 : 1 ≤ a.countP (·.isInit s') := List.countP_pos_iff.mpr ⟨_, hx, by simp [Item.isInit]⟩
          have c2 : 1 ≤ b.countP (·.isInit s') := List.countP_pos_iff.mpr ⟨_, hb, by simp [Item.isInit]⟩
          omega
        have := one_initial_vote es s'
        omega
    | skip s' => simp only [Item.voteSlot, Option.some.injEq] at hs; subst hs; exact absurd hxl h1
    | final s' => simp only [Item.voteSlot, Option.some.injEq] at hs; subst hs; rfl
    | notarFallback s' h' => simp only [Item.voteSlot, Option.some.injEq] at hs; subst hs; exact absurd hxl (h3 h')
    | skipFallback s' => simp only [Item.voteSlot, Option.some.injEq] at hs; subst hs; exact absurd hxl h2
    | cert k s' h' => simp [Item.voteSlot] at hs
    | relay i => simp [Item.voteSlot] at hs
    | timer s' => simp [Item.voteSlot] at hs

/-- **Fallback votes only after the corresponding condition held at the node**: a notar-fallback
    vote for `(s, h)` is cast exactly in response to `SafeToNotar(s, h)`, a skip-fallback vote for `s`
    exactly in response to `SafeToSkip(s)` (the event is the item logged immediately before). -/
theorem fallback_only_after_condition (es : List Event) (a b : List Item) (s : Nat) :
    (∀ h, log es = a ++ .out (.notarFallback s h) :: b → ∃ rest, b = .ev (.safeToNotar s h) :: rest) ∧
    (log es = a ++ .out (.skipFallback s) :: b → ∃ rest, b = .ev (.safeToSkip s) :: rest) :=
  ⟨fun _ hl => (inv_reachable es).hist.split a _ b hl, fun hl => (inv_reachable es).hist.split a _ b hl⟩

/-- What the node's own pool guarantees (C06; `slot_state.rs` emits the safe-to events only once the
    own initial vote is stored): every safe-to-notar / safe-to-skip announcement for `s` arrives after
    an own initial vote for `s` was cast. -/
def PoolOrdered : List Item → Prop :=
  Hist (fun x past => match x with
    | .ev (.safeToNotar s _) => ∃ y ∈ past, y.isInit s = true
    | .ev (.safeToSkip s) => ∃ y ∈ past, y.isInit s = true
    | _ => True)

/-- **Fallback votes only in slots where the node already voted** — `_partial`: relative to the
    pool-side guarantee `PoolOrdered` (Votor alone, fed a safe-to event for an unvoted slot, broadcasts
    the fallback vote and *then* the skip vote: see `fallback_before_vote_without_pool`). The
    assumption is discharged for the composed node (Pool ∘ Votor) below: `node_pool_ordered`,
    `node_fallback_only_after_vote`. -/
theorem fallback_only_after_vote_partial (es : List Event) (hp : PoolOrdered (log es))
    (a b : List Item) (s : Nat) (x : Item)
    (hx : x = .out (.skipFallback s) ∨ ∃ h, x = .out (.notarFallback s h))
    (hl : log es = a ++ x :: b) : ∃ y ∈ b, y.isInit s = true := by
  rcases hx with rfl | ⟨h, rfl⟩
  · obtain ⟨rest, rfl⟩ := (fallback_only_after_condition es a b s).2 hl
    have := hp.split (a ++ [.out (.skipFallback s)]) (.ev (.safeToSkip s)) rest (by rw [hl]; simp)
    obtain ⟨y, hy, hyi⟩ := this
    exact ⟨y, by simp [hy], hyi⟩
  · obtain ⟨rest, rfl⟩ := (fallback_only_after_condition es a b s).1 h hl
    have := hp.split (a ++ [.out (.notarFallback s h)]) (.ev (.safeToNotar s h)) rest (by rw [hl]; simp)
    obtain ⟨y, hy, hyi⟩ := this
    exact ⟨y, by simp [hy], hyi⟩

/-- witness that the pool-side guarantee is needed: Votor alone answers `SafeToNotar` for an unvoted
    slot with the fallback vote first and the skip votes of the window afterwards -/
theorem fallback_before_vote_without_pool :
    log [.safeToNotar 5 7] =
      [.out (.skip 7), .out (.skip 6), .out (.skip 5), .out (.skip 4), .out (.notarFallback 5 7),
       .ev (.safeToNotar 5 7), .out (.timer 0)] := by decide

/-- the slashable combinations of `SlashableOffence` (`pool/slot_state.rs check_slashable_offence`) -/
def slashable : Out → Out → Bool
  | .notar s h _ _, .notar s' h' _ _ => s == s' && h != h'      -- NotarDifferentHash
  | .skip s, .notar s' _ _ _ => s == s'                         -- SkipAndNotarize
  | .notar s _ _ _, .skip s' => s == s'
  | .skip s, .final s' => s == s'                               -- SkipAndFinalize
  | .final s, .skip s' => s == s'
  | .skipFallback s, .final s' => s == s'
  | .final s, .skipFallback s' => s == s'
  | .notarFallback s _, .final s' => s == s'                    -- NotarFallbackAndFinalize
  | .final s, .notarFallback s' _ => s == s'
  | _, _ => false

/-- **The node's own votes are never a slashable combination.** -/
theorem own_votes_never_slashable (es : List Event) (o1 o2 : Out)
    (h1 : .out o1 ∈ log es) (h2 : .out o2 ∈ log es) : slashable o1 o2 = false := by
  have uniq := fun s x y hx hy px py => initial_vote_unique es s x y hx hy px py
  have nofin := no_final_in_bad_slot es
  cases o1 <;> cases o2 <;> simp only [slashable] <;> try rfl
  case notar.notar s h ps ph s' h' ps' ph' =>
    by_cases hs : s = s'
    · subst hs
      have := uniq s _ _ h1 h2 (by simp [Item.isInit]) (by simp [Item.isInit])
      simp only [Item.out.injEq, Out.notar.injEq] at this
      simp [this.2.1]
    · simp [hs]
  case notar.skip s h ps ph s' =>
    by_cases hs : s = s'
    · subst hs
      have := uniq s _ _ h1 h2 (by simp [Item.isInit]) (by simp [Item.isInit])
      simp at this
    · simp [hs]
  case skip.notar s s' h ps ph =>
    by_cases hs : s = s'
    · subst hs
      have := uniq s _ _ h1 h2 (by simp [Item.isInit]) (by simp [Item.isInit])
      simp at this
    · simp [hs]
  case skip.final s s' =>
    by_cases hs : s = s'
    · subst hs; exact absurd h1 (nofin s h2).1
    · simp [hs]
  case final.skip s s' =>
    by_cases hs : s = s'
    · subst hs; exact absurd h2 (nofin s h1).1
    · simp [hs]
  case skipFallback.final s s' =>
    by_cases hs : s = s'
    · subst hs; exact absurd h1 (nofin s h2).2.1
    · simp [hs]
  case final.skipFallback s s' =>
    by_cases hs : s = s'
    · subst hs; exact absurd h2 (nofin s h1).2.1
    · simp [hs]
  case notarFallback.final s h s' =>
    by_cases hs : s = s'
    · subst hs; exact absurd h1 ((nofin s h2).2.2 h)
    · simp [hs]
  case final.notarFallback s s' h =>
    by_cases hs : s = s'
    · subst hs; exact absurd h2 ((nofin s h1).2.2 h)
    · simp [hs]

/-- **Pruning never resurrects a slot; votes are only cast for retained slots.** Everything logged
    after the point where slot `s` fell below the retained window (`s < firstUnpruned`, the start of
    the window of the highest final certificate seen) contains no vote for `s`, whatever events
    follow. -/
theorem pruned_slot_never_votes (es es' : List Event) (s : Nat) (hs : s < (run init es).firstUnpruned) :
    ∃ xs, log (es ++ es') = xs ++ log es ∧ ∀ x ∈ xs, x.voteSlot ≠ some s := by
  obtain ⟨_, xs, hl, hq⟩ := Ext.run es' (run init es)
  refine ⟨xs, by unfold log; rw [run_append]; exact hl, ?_⟩
  intro x hx hv
  have := hq x hx s hv
  omega

/-- the retained window only moves forward -/
theorem first_unpruned_monotone (es es' : List Event) :
    (run init es).firstUnpruned ≤ (run init (es ++ es')).firstUnpruned := by
  rw [run_append]
  exact firstInWindow_mono' (Ext.run es' (run init es)).1

/-- **The asserts of votor.rs are unreachable**: as long as the pool announces `ParentReady` only for
    the first slot of a window (what `set_timeouts` asserts; the pool's contract), no event list makes
    Votor panic — in particular the three `slot >= first_unpruned_slot()` asserts of `try_notar`,
    `try_final`, `try_skip_window` can never fire, also not from `check_pending_blocks` after pruning. -/
theorem votor_asserts_unreachable (es : List Event) (hwf : ∀ e ∈ es, e.wellFormed) :
    (run init es).panicked = false :=
  run_panicked es Inv.init hwf

/-- the hypothesis is needed: `ParentReady` for a slot inside a window trips `set_timeouts`' assert -/
theorem parent_ready_mid_window_panics : (run init [.parentReady 5 0 0]).panicked = true := by decide

/-! ## non-vacuity: concrete histories in which the votes of the theorems are really cast -/

/-- block of slot 1 on genesis, its notarization certificate: notar vote, then finalize vote -/
example : log [.block 1 ⟨9, 0, 0⟩, .cert .notar 1 9] =
    [.out (.cert .notar 1 9), .out (.final 1), .ev (.cert .notar 1 9),
     .out (.notar 1 9 0 0), .ev (.block 1 ⟨9, 0, 0⟩), .out (.timer 0)] := by decide

/-- a block of a window's first slot arriving before its parent is ready is voted for only once
    the parent is announced; its child (delivered even earlier) follows in the same step -/
example : log [.block 5 ⟨50, 4, 40⟩, .block 4 ⟨40, 2, 20⟩, .parentReady 4 2 20] =
    [.out (.timer 4), .out (.notar 5 50 4 40), .out (.notar 4 40 2 20), .ev (.parentReady 4 2 20),
     .ev (.block 4 ⟨40, 2, 20⟩), .ev (.block 5 ⟨50, 4, 40⟩), .out (.timer 0)] := by decide

/-- timeout, then the late block is not notarized; safe-to-notar gives the fallback vote; the
    notarization certificate gives no finalize vote -/
example : log [.timeout 1, .block 1 ⟨9, 0, 0⟩, .safeToNotar 1 9, .cert .notar 1 9] =
    [.out (.cert .notar 1 9), .ev (.cert .notar 1 9), .out (.notarFallback 1 9), .ev (.safeToNotar 1 9),
     .ev (.block 1 ⟨9, 0, 0⟩), .out (.skip 3), .out (.skip 2), .out (.skip 1), .ev (.timeout 1),
     .out (.timer 0)] := by decide

/-- a final certificate in the second window prunes the first: a late block there gets no vote -/
example : log [.cert .final 5 0, .block 1 ⟨9, 0, 0⟩, .timeout 2] =
    [.ev (.timeout 2), .ev (.block 1 ⟨9, 0, 0⟩), .out (.cert .final 5 0), .out (.timer 4),
     .ev (.cert .final 5 0), .out (.timer 0)] := by decide

/-- observation (not a violation of C05): a notarization certificate delivered twice makes Votor
    broadcast the finalize vote twice — `CertCreated` is not filtered for retired slots -/
theorem duplicate_final_on_repeated_cert :
    log [.block 1 ⟨9, 0, 0⟩, .cert .notar 1 9, .cert .notar 1 9] =
    [.out (.cert .notar 1 9), .out (.final 1), .ev (.cert .notar 1 9),
     .out (.cert .notar 1 9), .out (.final 1), .ev (.cert .notar 1 9),
     .out (.notar 1 9 0 0), .ev (.block 1 ⟨9, 0, 0⟩), .out (.timer 0)] := by decide

end AgModel.Votor

/-! ## The composed node: the pool-side ordering is a theorem

`Model/Node.lean` wires the pool model (C03/C06) to Votor through the FIFO event queue as `consensus.rs` does; `NodeOp` /
`nodeStep` / `nodeRun` (`Proofs/NodeRun.lean`) let the adversary choose every interleaving of network votes, certificates,
reconstructed blocks, queue pumps, blockstore events and timeouts. The node's own votes reach its own pool like everybody
else's: as network votes (`All2All::broadcast` delivers to the sender as well). The only premise is unforgeability:
`OwnVotesFromVotor own n sent ops` — every `recvVote v` with `v.signer = own` in `ops` is matched (`outMatches`: kind,
slot, and block for notar / notar-fallback) by a broadcast of the node's own Votor earlier in the same run. -/
namespace AgModel.Node
open AgModel AgModel.NodePanic

/-- **The pool-side guarantee holds in the composed node**: in every run from the fresh node satisfying the unforgeability
    premise, Votor's history is that of a list of well-formed events and satisfies `PoolOrdered` — every safe-to-notar /
    safe-to-skip event reached Votor after Votor cast its initial vote of that slot. (Chain: the pool stores an own vote
    only when it is delivered, hence after it was broadcast, `poolStep_own`; the pool raises the events only when the
    own vote is stored, `s2n_s2s_sound` → `poolStep_goodO`; the queue only delays them.) -/
theorem node_pool_ordered (e : Pool.Epoch) (ops : List NodeOp)
    (hown : OwnVotesFromVotor e.own { pool := { epoch := e } } [] ops = true) :
    ∃ es, (∀ ev ∈ es, Votor.Event.wellFormed ev) ∧
      (nodeRun { pool := { epoch := e } } ops).votor = Votor.run Votor.init es ∧ Votor.PoolOrdered (Votor.log es) := by
  have i0 : VInv ({ pool := { epoch := e } } : Node) := ⟨⟨[], by simp, rfl⟩, by intro x hx; simp at hx⟩
  obtain ⟨es, hes, hrun⟩ := (nodeRun_inv ops _ i0).hist
  refine ⟨es, hes, hrun, ?_⟩
  have hf := (nodeRun_finv e ops [] _ (FInv.init e) hown).hist
  rw [hrun] at hf
  refine Votor.Hist.mono ?_ hf
  intro x past hx
  cases x with
  | out o => trivial
  | ev ev =>
    cases ev with
    | safeToNotar s h =>
      rcases hx with hx | ⟨h', _, ps, ph, hx⟩
      · exact ⟨_, hx, by simp [Votor.Item.isInit]⟩
      · exact ⟨_, hx, by simp [Votor.Item.isInit]⟩
    | safeToSkip s =>
      obtain ⟨h', ps, ph, hx⟩ := hx
      exact ⟨_, hx, by simp [Votor.Item.isInit]⟩
    | _ => trivial

/-- **Fallback votes are backed by the right own vote**: whenever the node's Votor casts a notar-fallback vote for
    `(s, h)`, it has before cast a skip vote for `s` or a notar vote for a *different* block of `s`; whenever it casts a
    skip-fallback vote for `s`, it has before cast a notar vote for `s`. -/
theorem node_fallback_backed (e : Pool.Epoch) (ops : List NodeOp)
    (hown : OwnVotesFromVotor e.own { pool := { epoch := e } } [] ops = true) (a b : List Votor.Item) (s : Nat) :
    (∀ h, (nodeRun { pool := { epoch := e } } ops).votor.log = a ++ .out (.notarFallback s h) :: b →
      .out (.skip s) ∈ b ∨ ∃ h' ps ph, h' ≠ h ∧ .out (.notar s h' ps ph) ∈ b) ∧
    ((nodeRun { pool := { epoch := e } } ops).votor.log = a ++ .out (.skipFallback s) :: b →
      ∃ h ps ph, .out (.notar s h ps ph) ∈ b) := by
  have i0 : VInv ({ pool := { epoch := e } } : Node) := ⟨⟨[], by simp, rfl⟩, by intro x hx; simp at hx⟩
  obtain ⟨es, _, hrun⟩ := (nodeRun_inv ops _ i0).hist
  have hf := (nodeRun_finv e ops [] _ (FInv.init e) hown).hist
  constructor
  · intro h hl
    have hl' : Votor.log es = a ++ .out (.notarFallback s h) :: b := by rw [← hl, hrun]; rfl
    obtain ⟨rest, rfl⟩ := (Votor.fallback_only_after_condition es a b s).1 h hl'
    have := hf.split (a ++ [.out (.notarFallback s h)]) (.ev (.safeToNotar s h)) rest (by rw [hl]; simp)
    rcases this with hx | ⟨h', hne, ps, ph, hx⟩
    · exact Or.inl (List.mem_cons_of_mem _ hx)
    · exact Or.inr ⟨h', ps, ph, hne, List.mem_cons_of_mem _ hx⟩
  · intro hl
    have hl' : Votor.log es = a ++ .out (.skipFallback s) :: b := by rw [← hl, hrun]; rfl
    obtain ⟨rest, rfl⟩ := (Votor.fallback_only_after_condition es a b s).2 hl'
    have := hf.split (a ++ [.out (.skipFallback s)]) (.ev (.safeToSkip s)) rest (by rw [hl]; simp)
    obtain ⟨h', ps, ph, hx⟩ := this
    exact ⟨h', ps, ph, List.mem_cons_of_mem _ hx⟩

/-- **Fallback votes only in slots where the node already voted** (the clause of C05, in full): for every run of the
    composed node from its initial state — every interleaving of network votes and certificates (anything other
    validators can sign), reconstructed blocks, queue pumps, blockstore events and timeouts, across window boundaries and
    pruning — in which votes signed by the node itself only come from its own Votor, every notar-fallback / skip-fallback
    vote the Votor casts for slot `s` is preceded in its history by an initial vote (notar or skip) of the Votor in `s`. -/
theorem node_fallback_only_after_vote (e : Pool.Epoch) (ops : List NodeOp)
    (hown : OwnVotesFromVotor e.own { pool := { epoch := e } } [] ops = true)
    (a b : List Votor.Item) (s : Nat) (x : Votor.Item)
    (hx : x = .out (.skipFallback s) ∨ ∃ h, x = .out (.notarFallback s h))
    (hl : (nodeRun { pool := { epoch := e } } ops).votor.log = a ++ x :: b) : ∃ y ∈ b, y.isInit s = true := by
  obtain ⟨h1, h2⟩ := node_fallback_backed e ops hown a b s
  rcases hx with rfl | ⟨h, rfl⟩
  · obtain ⟨h', ps, ph, hm⟩ := h2 hl
    exact ⟨_, hm, by simp [Votor.Item.isInit]⟩
  · rcases h1 h hl with hm | ⟨h', ps, ph, _, hm⟩
    · exact ⟨_, hm, by simp [Votor.Item.isInit]⟩
    · exact ⟨_, hm, by simp [Votor.Item.isInit]⟩

/-- the same on what an observer of the network sees: in the list of all broadcasts of the run, in order, every fallback
    vote for `s` comes after a notar or skip vote for `s` -/
theorem node_fallback_only_after_vote_broadcasts (e : Pool.Epoch) (ops : List NodeOp)
    (hown : OwnVotesFromVotor e.own { pool := { epoch := e } } [] ops = true)
    (pre post : List Votor.Out) (s : Nat) (x : Votor.Out)
    (hx : x = .skipFallback s ∨ ∃ h, x = .notarFallback s h)
    (hl : nodeRunOuts { pool := { epoch := e } } ops = pre ++ x :: post) :
    ∃ y ∈ pre, y = .skip s ∨ ∃ h ps ph, y = .notar s h ps ph := by
  have hout := nodeRun_outs ops ({ pool := { epoch := e } } : Node)
  rw [hl] at hout
  have h0 : outsOf ({ pool := { epoch := e } } : Node).votor.log = [.timer 0] := rfl
  rw [h0, ← List.append_assoc] at hout
  obtain ⟨a, b, hab, hb⟩ := outsOf_split hout
  obtain ⟨y, hy, hyi⟩ := node_fallback_only_after_vote e ops hown a b s (.out x)
    (by rcases hx with rfl | ⟨h, rfl⟩; exact Or.inl rfl; exact Or.inr ⟨h, rfl⟩) hab
  cases y with
  | ev ev => simp [Votor.Item.isInit] at hyi
  | out o =>
    have ho : o ∈ [Votor.Out.timer 0] ++ pre := by rw [← hb]; exact mem_outsOf.mpr hy
    cases o with
    | notar s' h ps ph =>
      simp only [Votor.Item.isInit, beq_iff_eq] at hyi; subst hyi
      exact ⟨_, by simpa using ho, Or.inr ⟨h, ps, ph, rfl⟩⟩
    | skip s' =>
      simp only [Votor.Item.isInit, beq_iff_eq] at hyi; subst hyi
      exact ⟨_, by simpa using ho, Or.inl rfl⟩
    | _ => simp [Votor.Item.isInit] at hyi

/-- **Safe-to-notar fallback votes are never for the block the node notarized**: in such a run, if the Votor casts a
    notar-fallback vote for `(s, h)` and (at any time) a notar vote for `(s, h')`, then `h' ≠ h`. -/
theorem node_fallback_not_for_own_block (e : Pool.Epoch) (ops : List NodeOp)
    (hown : OwnVotesFromVotor e.own { pool := { epoch := e } } [] ops = true) (s h h' ps ph : Nat)
    (hf : .out (.notarFallback s h) ∈ (nodeRun { pool := { epoch := e } } ops).votor.log)
    (hn : .out (.notar s h' ps ph) ∈ (nodeRun { pool := { epoch := e } } ops).votor.log) : h' ≠ h := by
  have i0 : VInv ({ pool := { epoch := e } } : Node) := ⟨⟨[], by simp, rfl⟩, by intro x hx; simp at hx⟩
  obtain ⟨es, _, hrun⟩ := (nodeRun_inv ops _ i0).hist
  obtain ⟨a, b, hab⟩ := List.append_of_mem hf
  have hlog : (nodeRun { pool := { epoch := e } } ops).votor.log = Votor.log es := by rw [hrun]; rfl
  have hsub : ∀ y ∈ b, y ∈ Votor.log es := by intro y hy; rw [← hlog, hab]; simp [hy]
  rw [hlog] at hn
  rcases (node_fallback_backed e ops hown a b s).1 h hab with hm | ⟨h'', ps', ph', hne, hm⟩
  · have := Votor.initial_vote_unique es s _ _ hn (hsub _ hm) (by simp [Votor.Item.isInit]) (by simp [Votor.Item.isInit])
    cases this
  · have := Votor.initial_vote_unique es s _ _ hn (hsub _ hm) (by simp [Votor.Item.isInit]) (by simp [Votor.Item.isInit])
    simp only [Votor.Item.out.injEq, Votor.Out.notar.injEq] at this
    rw [this.2.1]; exact hne

/-! ### the premise is needed, and satisfiable by runs in which the fallback votes are really cast -/

/-- 5 equal validators, the node is validator 0 -/
def demoEpoch : Pool.Epoch := { stakes := [1, 1, 1, 1, 1], own := 0 }

/-- the node times out in window 0 (skip votes for 1, 2, 3), its skip vote for slot 2 loops back into its pool, two others
    notarize block 7 of slot 2 whose parent `(1, 5)` has a notar-fallback certificate: the pool raises safe-to-notar and
    Votor answers with the notar-fallback vote -/
def demoS2N : List NodeOp :=
  [.timeout 1, .recvCert ⟨.nf, 1, 5, [1, 2], [3], 3⟩, .recvVote ⟨.skip, 2, 0, 0⟩, .recvVote ⟨.notar, 2, 7, 1⟩,
   .recvVote ⟨.notar, 2, 7, 2⟩, .poolBlock (2, 7) (1, 5), .pump, .pump]

/-- non-vacuity (safe-to-notar): the premise holds and the fallback vote is cast, after the skip vote -/
example : OwnVotesFromVotor 0 { pool := { epoch := demoEpoch } } [] demoS2N = true ∧
    nodeRunOuts { pool := { epoch := demoEpoch } } demoS2N =
      [.skip 1, .skip 2, .skip 3, .cert .notarFallback 1 5, .notarFallback 2 7] := by decide +kernel

/-- non-vacuity (safe-to-skip): the node notarizes block 9 of slot 1, the vote loops back, two others skip: safe-to-skip,
    skip-fallback vote (and the skip votes for the rest of the window) -/
example :
    let ops : List NodeOp := [.votorBlock 1 ⟨9, 0, 0⟩, .recvVote ⟨.notar, 1, 9, 0⟩, .recvVote ⟨.skip, 1, 0, 1⟩,
      .recvVote ⟨.skip, 1, 0, 2⟩, .pump]
    OwnVotesFromVotor 0 { pool := { epoch := demoEpoch } } [] ops = true ∧
    nodeRunOuts { pool := { epoch := demoEpoch } } ops = [.notar 1 9 0 0, .skipFallback 1, .skip 2, .skip 3] := by
  decide +kernel

/-- **The unforgeability premise is necessary**: the same run as `demoS2N` without the timeout — the skip vote "of validator
    0" for slot 2 delivered to node 0 was never cast by its Votor (a forgery) — makes the pool raise safe-to-notar for the
    unvoted slot, and Votor broadcasts the notar-fallback vote *before* its initial (skip) vote of slot 2. -/
theorem node_fallback_needs_unforgeability :
    OwnVotesFromVotor 0 { pool := { epoch := demoEpoch } } [] demoS2N.tail = false ∧
    nodeRunOuts { pool := { epoch := demoEpoch } } demoS2N.tail =
      [.cert .notarFallback 1 5, .notarFallback 2 7, .skip 1, .skip 2, .skip 3] := by decide +kernel

end AgModel.Node
