import AgModel.Gen.Consts
import AgModel.Proofs.Votor
import AgModel.Proofs.VotorExt
/-!
# C05 — a correct node's own votes obey the voting rules under every event order

All statements are about `AgModel.Votor` (model of `src/consensus/votor.rs`, tied to the code by the
correspondence run) and quantify over **every finite event list** `es` delivered to a fresh Votor —
the adversary chooses all events: blocks (several per slot, before their parents), timeouts,
parent-ready announcements, certificates of every kind, safe-to-notar / safe-to-skip announcements,
standstill bundles, events for retired and pruned slots, in any order.

`log es` is the history, newest first, of the events received (`.ev`) and of everything handed to
`All2All::broadcast` (`.out`). In `log = a ++ x :: b` the list `b` is what happened *before* `x`.
-/
namespace AgModel.Votor

/-- the history after delivering `es` to a fresh Votor (newest first) -/
def log (es : List Event) : List Item := (run init es).log

/-- the window constant of the model is the one in the source -/
theorem W_is_source : W = AgModel.Gen.SLOTS_PER_WINDOW := rfl

/-- **At most one initial vote per slot** (notarize one block, or skip). -/
theorem one_initial_vote (es : List Event) (s : Nat) : (log es).countP (·.isInit s) ≤ 1 :=
  (inv_reachable es).once s

private theorem countP_ge_two {p : Item → Bool} : ∀ {l : List Item} {x y : Item}, x ∈ l → y ∈ l → x ≠ y →
    p x = true → p y = true → 2 ≤ l.countP p := by
  intro l
  induction l with
  | nil => intro x y hx; cases hx
  | cons z t ih =>
    intro x y hx hy hne px py
    rw [List.countP_cons]
    rcases List.mem_cons.mp hx with rfl | hx' <;> rcases List.mem_cons.mp hy with rfl | hy'
    · exact absurd rfl hne
    · have : 1 ≤ t.countP p := List.countP_pos_iff.mpr ⟨y, hy', py⟩
      rw [if_pos px]; omega
    · have : 1 ≤ t.countP p := List.countP_pos_iff.mpr ⟨x, hx', px⟩
      rw [if_pos py]; omega
    · have := ih hx' hy' hne px py
      omega

/-- two initial votes of one slot are the same vote -/
theorem initial_vote_unique (es : List Event) (s : Nat) (x y : Item) (hx : x ∈ log es) (hy : y ∈ log es)
    (px : x.isInit s = true) (py : y.isInit s = true) : x = y := by
  by_cases h : x = y
  · exact h
  · have := countP_ge_two (p := (·.isInit s)) hx hy h px py
    have := one_initial_vote es s
    omega

/-- **A block is notarized only if its parent is acceptable.** Whenever a notar vote for block `h`
    of slot `s` with parent `(ps, ph)` is cast, that block was delivered by the blockstore before, and
    * in the first slot of a window: the pool announced `ParentReady(s, (ps, ph))` before;
    * otherwise: `ps` is the preceding slot and `ph` is the block the node itself notarized there
      before (for slot 1: the genesis block). -/
theorem notar_parent_ok (es : List Event) (a b : List Item) (s h ps ph : Nat)
    (hl : log es = a ++ .out (.notar s h ps ph) :: b) :
    .ev (.block s ⟨h, ps, ph⟩) ∈ b ∧
    (if s % W = 0 then .ev (.parentReady s ps ph) ∈ b
     else ps + 1 = s ∧ ((ps = 0 ∧ ph = 0) ∨ ∃ ps' ph', .out (.notar ps ph ps' ph') ∈ b)) :=
  (inv_reachable es).hist.split a _ b hl

/-- **A finalize vote is cast only for the block the node notarized, after seeing that block's
    notarization certificate** (the pre-notarized genesis block being the only other case). -/
theorem final_only_for_notarized_own_block (es : List Event) (a b : List Item) (s : Nat)
    (hl : log es = a ++ .out (.final s) :: b) :
    ∃ h, ((s = 0 ∧ h = 0) ∨ ∃ ps ph, .out (.notar s h ps ph) ∈ b) ∧
         ((s = 0 ∧ h = 0) ∨ .ev (.cert .notar s h) ∈ b) :=
  (inv_reachable es).hist.split a _ b hl

/-- **No finalize vote in a slot with a skip, skip-fallback or notar-fallback vote, in either
    order** (never finalizes a bad slot; never casts any of those after finalizing). -/
theorem no_final_in_bad_slot (es : List Event) (s : Nat) (hf : .out (.final s) ∈ log es) :
    .out (.skip s) ∉ log es ∧ .out (.skipFallback s) ∉ log es ∧ ∀ h, .out (.notarFallback s h) ∉ log es := by
  have hc := (inv_reachable es).finalClean s ⟨_, hf, by simp [Item.isFinal]⟩
  refine ⟨fun h => ?_, fun h => ?_, fun hh h => ?_⟩ <;> simpa [Item.isBad] using hc _ h

/-- **Nothing but (repeated) finalize votes after finalizing**: once a finalize vote for `s` is
    cast, every later vote for `s` is a finalize vote. (`s ≠ 0`: the genesis slot is born finalized;
    that it never gets an initial vote either is not proved here.) -/
theorem nothing_after_final (es : List Event) (a b : List Item) (s : Nat)
    (hl : log es = a ++ .out (.final s) :: b) (hs0 : s ≠ 0) (x : Item) (hx : x ∈ a)
    (hs : x.voteSlot = some s) : x = .out (.final s) := by
  have hfin : .out (.final s) ∈ log es := by rw [hl]; simp
  have hxl : x ∈ log es := by rw [hl]; simp [hx]
  obtain ⟨h1, h2, h3⟩ := no_final_in_bad_slot es s hfin
  obtain ⟨h, hn, _⟩ := final_only_for_notarized_own_block es a b s hl
  cases x with
  | ev e => simp [Item.voteSlot] at hs
  | out o =>
    cases o with
    | notar s' h' ps' ph' =>
      simp only [Item.voteSlot, Option.some.injEq] at hs; subst hs
      -- a second notar vote would be a second initial vote
      exfalso
      rcases hn with ⟨h0, _⟩ | ⟨ps, ph, hb⟩
      · exact hs0 h0
      · have hbl : .out (.notar s' h ps ph) ∈ log es := by rw [hl]; simp [hb]
        have heq := initial_vote_unique es s' _ _ hxl hbl (by simp [Item.isInit]) (by simp [Item.isInit])
        -- the same item occurs both before and after the finalize vote: two occurrences
        rw [heq] at hx
        have : 2 ≤ (log es).countP (·.isInit s') := by
          rw [hl, List.countP_append, List.countP_cons]
          have c1 : 1 ≤ a.countP (·.isInit s') := List.countP_pos_iff.mpr ⟨_, hx, by simp [Item.isInit]⟩
          have c2 : 1 ≤ b.countP (·.isInit s') := List.countP_pos_iff.mpr ⟨_, hb, by simp [Item.isInit]⟩
          omega
        have := one_initial_vote es s'
        omega
    | skip s' => simp only [Item.voteSlot, Option.some.injEq] at hs; subst hs; exact absurd hxl h1
    | final s' => simp only [Item.voteSlot, Option.some.injEq] at hs; subst hs; rfl
    | notarFallback s' h' => simp only [Item.voteSlot, Option.some.injEq] at hs; subst hs; exact absurd hxl (h3 h')
    | skipFallback s' => simp only [Item.voteSlot, Option.some.injEq] at hs; subst hs; exact absurd hxl h2
    | cert k s' h' => simp [Item.voteSlot] at hs
    | relay i => simp [Item.voteSlot] at hs
    | timer s' => simp [Item.voteSlot] at hs

/-- **Fallback votes only after the corresponding condition held at the node**: a notar-fallback
    vote for `(s, h)` is cast exactly in response to `SafeToNotar(s, h)`, a skip-fallback vote for `s`
    exactly in response to `SafeToSkip(s)` (the event is the item logged immediately before). -/
theorem fallback_only_after_condition (es : List Event) (a b : List Item) (s : Nat) :
    (∀ h, log es = a ++ .out (.notarFallback s h) :: b → ∃ rest, b = .ev (.safeToNotar s h) :: rest) ∧
    (log es = a ++ .out (.skipFallback s) :: b → ∃ rest, b = .ev (.safeToSkip s) :: rest) :=
  ⟨fun _ hl => (inv_reachable es).hist.split a _ b hl, fun hl => (inv_reachable es).hist.split a _ b hl⟩

/-- What the node's own pool guarantees (C06; `slot_state.rs` emits the safe-to events only once the
    own initial vote is stored): every safe-to-notar / safe-to-skip announcement for `s` arrives after
    an own initial vote for `s` was cast. -/
def PoolOrdered : List Item → Prop :=
  Hist (fun x past => match x with
    | .ev (.safeToNotar s _) => ∃ y ∈ past, y.isInit s = true
    | .ev (.safeToSkip s) => ∃ y ∈ past, y.isInit s = true
    | _ => True)

/-- **Fallback votes only in slots where the node already voted** — `_partial`: relative to the
    pool-side guarantee `PoolOrdered` (the full statement composes this with the Pool model of C06;
    Votor alone, fed a safe-to event for an unvoted slot, broadcasts the fallback vote and *then* the
    skip vote: see `fallback_before_vote_without_pool`). -/
theorem fallback_only_after_vote_partial (es : List Event) (hp : PoolOrdered (log es))
    (a b : List Item) (s : Nat) (x : Item)
    (hx : x = .out (.skipFallback s) ∨ ∃ h, x = .out (.notarFallback s h))
    (hl : log es = a ++ x :: b) : ∃ y ∈ b, y.isInit s = true := by
  rcases hx with rfl | ⟨h, rfl⟩
  · obtain ⟨rest, rfl⟩ := (fallback_only_after_condition es a b s).2 hl
    have := hp.split (a ++ [.out (.skipFallback s)]) (.ev (.safeToSkip s)) rest (by rw [hl]; simp)
    obtain ⟨y, hy, hyi⟩ := this
    exact ⟨y, by simp [hy], hyi⟩
  · obtain ⟨rest, rfl⟩ := (fallback_only_after_condition es a b s).1 h hl
    have := hp.split (a ++ [.out (.notarFallback s h)]) (.ev (.safeToNotar s h)) rest (by rw [hl]; simp)
    obtain ⟨y, hy, hyi⟩ := this
    exact ⟨y, by simp [hy], hyi⟩

/-- witness that the pool-side guarantee is needed: Votor alone answers `SafeToNotar` for an unvoted
    slot with the fallback vote first and the skip votes of the window afterwards -/
theorem fallback_before_vote_without_pool :
    log [.safeToNotar 5 7] =
      [.out (.skip 7), .out (.skip 6), .out (.skip 5), .out (.skip 4), .out (.notarFallback 5 7),
       .ev (.safeToNotar 5 7), .out (.timer 0)] := by decide

/-- the slashable combinations of `SlashableOffence` (`pool/slot_state.rs check_slashable_offence`) -/
def slashable : Out → Out → Bool
  | .notar s h _ _, .notar s' h' _ _ => s == s' && h != h'      -- NotarDifferentHash
  | .skip s, .notar s' _ _ _ => s == s'                         -- SkipAndNotarize
  | .notar s _ _ _, .skip s' => s == s'
  | .skip s, .final s' => s == s'                               -- SkipAndFinalize
  | .final s, .skip s' => s == s'
  | .skipFallback s, .final s' => s == s'
  | .final s, .skipFallback s' => s == s'
  | .notarFallback s _, .final s' => s == s'                    -- NotarFallbackAndFinalize
  | .final s, .notarFallback s' _ => s == s'
  | _, _ => false

/-- **The node's own votes are never a slashable combination.** -/
theorem own_votes_never_slashable (es : List Event) (o1 o2 : Out)
    (h1 : .out o1 ∈ log es) (h2 : .out o2 ∈ log es) : slashable o1 o2 = false := by
  have uniq := fun s x y hx hy px py => initial_vote_unique es s x y hx hy px py
  have nofin := no_final_in_bad_slot es
  cases o1 <;> cases o2 <;> simp only [slashable] <;> try rfl
  case notar.notar s h ps ph s' h' ps' ph' =>
    by_cases hs : s = s'
    · subst hs
      have := uniq s _ _ h1 h2 (by simp [Item.isInit]) (by simp [Item.isInit])
      simp only [Item.out.injEq, Out.notar.injEq] at this
      simp [this.2.1]
    · simp [hs]
  case notar.skip s h ps ph s' =>
    by_cases hs : s = s'
    · subst hs
      have := uniq s _ _ h1 h2 (by simp [Item.isInit]) (by simp [Item.isInit])
      simp at this
    · simp [hs]
  case skip.notar s s' h ps ph =>
    by_cases hs : s = s'
    · subst hs
      have := uniq s _ _ h1 h2 (by simp [Item.isInit]) (by simp [Item.isInit])
      simp at this
    · simp [hs]
  case skip.final s s' =>
    by_cases hs : s = s'
    · subst hs; exact absurd h1 (nofin s h2).1
    · simp [hs]
  case final.skip s s' =>
    by_cases hs : s = s'
    · subst hs; exact absurd h2 (nofin s h1).1
    · simp [hs]
  case skipFallback.final s s' =>
    by_cases hs : s = s'
    · subst hs; exact absurd h1 (nofin s h2).2.1
    · simp [hs]
  case final.skipFallback s s' =>
    by_cases hs : s = s'
    · subst hs; exact absurd h2 (nofin s h1).2.1
    · simp [hs]
  case notarFallback.final s h s' =>
    by_cases hs : s = s'
    · subst hs; exact absurd h1 ((nofin s h2).2.2 h)
    · simp [hs]
  case final.notarFallback s s' h =>
    by_cases hs : s = s'
    · subst hs; exact absurd h2 ((nofin s h1).2.2 h)
    · simp [hs]

/-- **Pruning never resurrects a slot; votes are only cast for retained slots.** Everything logged
    after the point where slot `s` fell below the retained window (`s < firstUnpruned`, the start of
    the window of the highest final certificate seen) contains no vote for `s`, whatever events
    follow. -/
theorem pruned_slot_never_votes (es es' : List Event) (s : Nat) (hs : s < (run init es).firstUnpruned) :
    ∃ xs, log (es ++ es') = xs ++ log es ∧ ∀ x ∈ xs, x.voteSlot ≠ some s := by
  obtain ⟨_, xs, hl, hq⟩ := Ext.run es' (run init es)
  refine ⟨xs, by unfold log; rw [run_append]; exact hl, ?_⟩
  intro x hx hv
  have := hq x hx s hv
  omega

/-- the retained window only moves forward -/
theorem first_unpruned_monotone (es es' : List Event) :
    (run init es).firstUnpruned ≤ (run init (es ++ es')).firstUnpruned := by
  rw [run_append]
  exact firstInWindow_mono' (Ext.run es' (run init es)).1

/-- **The asserts of votor.rs are unreachable**: as long as the pool announces `ParentReady` only for
    the first slot of a window (what `set_timeouts` asserts; the pool's contract), no event list makes
    Votor panic — in particular the three `slot >= first_unpruned_slot()` asserts of `try_notar`,
    `try_final`, `try_skip_window` can never fire, also not from `check_pending_blocks` after pruning. -/
theorem votor_asserts_unreachable (es : List Event) (hwf : ∀ e ∈ es, e.wellFormed) :
    (run init es).panicked = false :=
  run_panicked es Inv.init hwf

/-- the hypothesis is needed: `ParentReady` for a slot inside a window trips `set_timeouts`' assert -/
theorem parent_ready_mid_window_panics : (run init [.parentReady 5 0 0]).panicked = true := by decide

/-! ## non-vacuity: concrete histories in which the votes of the theorems are really cast -/

/-- block of slot 1 on genesis, its notarization certificate: notar vote, then finalize vote -/
example : log [.block 1 ⟨9, 0, 0⟩, .cert .notar 1 9] =
    [.out (.cert .notar 1 9), .out (.final 1), .ev (.cert .notar 1 9),
     .out (.notar 1 9 0 0), .ev (.block 1 ⟨9, 0, 0⟩), .out (.timer 0)] := by decide

/-- a block of a window's first slot arriving before its parent is ready is voted for only once
    the parent is announced; its child (delivered even earlier) follows in the same step -/
example : log [.block 5 ⟨50, 4, 40⟩, .block 4 ⟨40, 2, 20⟩, .parentReady 4 2 20] =
    [.out (.timer 4), .out (.notar 5 50 4 40), .out (.notar 4 40 2 20), .ev (.parentReady 4 2 20),
     .ev (.block 4 ⟨40, 2, 20⟩), .ev (.block 5 ⟨50, 4, 40⟩), .out (.timer 0)] := by decide

/-- timeout, then the late block is not notarized; safe-to-notar gives the fallback vote; the
    notarization certificate gives no finalize vote -/
example : log [.timeout 1, .block 1 ⟨9, 0, 0⟩, .safeToNotar 1 9, .cert .notar 1 9] =
    [.out (.cert .notar 1 9), .ev (.cert .notar 1 9), .out (.notarFallback 1 9), .ev (.safeToNotar 1 9),
     .ev (.block 1 ⟨9, 0, 0⟩), .out (.skip 3), .out (.skip 2), .out (.skip 1), .ev (.timeout 1),
     .out (.timer 0)] := by decide

/-- a final certificate in the second window prunes the first: a late block there gets no vote -/
example : log [.cert .final 5 0, .block 1 ⟨9, 0, 0⟩, .timeout 2] =
    [.ev (.timeout 2), .ev (.block 1 ⟨9, 0, 0⟩), .out (.cert .final 5 0), .out (.timer 4),
     .ev (.cert .final 5 0), .out (.timer 0)] := by decide

/-- observation (not a violation of C05): a notarization certificate delivered twice makes Votor
    broadcast the finalize vote twice — `CertCreated` is not filtered for retired slots -/
theorem duplicate_final_on_repeated_cert :
    log [.block 1 ⟨9, 0, 0⟩, .cert .notar 1 9, .cert .notar 1 9] =
    [.out (.cert .notar 1 9), .out (.final 1), .ev (.cert .notar 1 9),
     .out (.cert .notar 1 9), .out (.final 1), .ev (.cert .notar 1 9),
     .out (.notar 1 9 0 0), .ev (.block 1 ⟨9, 0, 0⟩), .out (.timer 0)] := by decide

end AgModel.Votor
