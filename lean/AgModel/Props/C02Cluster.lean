import AgModel.Proofs.ProgressCluster
import AgModel.Proofs.ProgressSkip
import AgModel.Proofs.ProgressOrder
import AgModel.Proofs.ClusterDec
import AgModel.Proofs.BundleReplay
import AgModel.Props.C10Cluster
/-!
# C02 — progress of the cluster of executable model nodes under timely delivery

Timing itself (tokio timers, scheduling, UDP) is not a theorem; what is: **once messages are delivered before the timeouts fire,
the logic finalizes the correct leader's blocks.** The statements are about runs of the cluster model of `Spec/Cluster.lean`
(`n` composed nodes `PoolImpl ∘ queue ∘ Votor`, the models kept equal to the code by the correspondence checks) that follow the
*timely schedule* of `Proofs/ProgressDefs.lean` (`deliverBlock`, `pumpAll`, `exchange`, `deliverTimeouts`): every message a
correct node broadcasts reaches every correct node, and no timeout of a slot fires before the votes of that slot are exchanged.

They hold for **every** configuration — any number of validators, any stakes with positive total, any Byzantine set (silent in
the schedule itself) — and any cluster state in which every correct node is *ready for slot `s` with parent `p`* (`CReady`; a
conjunction of explicit facts about each node's Votor, pool slot states, finality tracker and parent-ready tracker that holds in
the initial cluster for `s = 1`, `p =` genesis: `init_ready`, and is re-established by every theorem below).

`hi` is any bound on the slots involved that the pools still accept: `hi < highest_finalized_slot + 2 · SLOTS_PER_EPOCH` at
every correct node (`PoolImpl` rejects votes for later slots as out of bounds; the bound moves with finalization).
-/
namespace AgModel.Cluster
open AgModel AgModel.Node AgModel.NodePanic AgModel.Pool

/-! ## the premise holds initially -/

/-- **In the initial cluster every correct node is ready for slot 1 with the genesis block as parent.** (The genesis
    `ParentReady` needs no event: slot 1 is not the first slot of its window, and `Votor::new` starts with the genesis block
    notarized in slot 0.) -/
theorem init_ready (c : Cfg) (hi : Nat) (hhi : hi < 2 * Gen.SLOTS_PER_EPOCH) : CReady c hi 1 (0, 0) (init c) := by
  intro i _
  refine ⟨rfl, rfl, rfl, ?_, fun t _ => rfl, (fun k hk => by exact absurd hk (by simp [init])), ?_⟩
  · refine ⟨by decide, Nat.le_refl _, Nat.le_refl _, (by show hi < 0 + 2 * Gen.SLOTS_PER_EPOCH; omega), ?_, fun b _ => rfl, ?_, Nat.le_refl _, ?_, ?_, ?_, ?_, rfl⟩
    · intro t ht
      show (if t = 0 then _ else none) = none
      rw [if_neg (by simp only [] at ht; omega)]
    · exact Or.inr ⟨rfl, rfl, rfl, rfl⟩
    · intro t h1 h2; simp only [] at h1; omega
    · exact ⟨rfl, rfl, rfl⟩
    · intro t ht
      have : ParentReady.get ParentReady.init t = {} := by
        unfold ParentReady.get ParentReady.init
        simp only []
        rw [if_neg (by omega)]; rfl
      rw [show (init c i).pool.pr = ParentReady.init from rfl, this]
      exact ⟨rfl, rfl, rfl⟩
    · intro _; exact ⟨rfl, rfl, rfl⟩
  · refine ⟨rfl, (by show 0 < 1; omega), ?_, ?_, (fun h => by exact absurd h (by decide)), fun _ => ⟨rfl, rfl⟩, fun j => rfl, rfl⟩
    · intro t ht
      have : (init c i).votor.getS t = {} := by
        show ((Votor.lookup [(0, Votor.genesisState)] t).getD {}) = {}
        simp only [Votor.lookup]
        rw [if_neg (by omega)]; rfl
      rw [this]; exact freshS_default
    · intro x hx
      have : x = (0, Votor.genesisState) := by simpa [init, Votor.init] using hx
      subst this; rfl

/-! ## Stage A — lock-step delivery finalizes a correct leader's block -/

theorem poolFinalized_fast {c : Cfg} {hi s h : Nat} {p : Nat × Nat} {F : List Nat} {fv nr hf : Bool} {q : List Votor.Event}
    {st : State} (m : CMid c hi s h p (correctIds c) F fv nr hf q st) (hs0 : s ≠ 0) (h80 : cStrong c = true) (i : Nat)
    (hi' : i ∈ correctIds c) : PoolFinalized st i (Blk.mk' s h) := by
  obtain ⟨a, ps, hst⟩ := (m i hi').slot
  obtain ⟨x, hx, hxh⟩ := hst.2.cFfSome h80
  refine ⟨a, by rw [Blk.mk'_slot]; exact ps.slot, Or.inl ⟨x, hx, ?_⟩⟩
  rw [Blk.mk'_hash _ _ hs0]; exact hxh

theorem poolFinalized_slow {c : Cfg} {hi s h : Nat} {p : Nat × Nat} {fv nr hf : Bool} {q : List Votor.Event}
    {st : State} (m : CMid c hi s h p (correctIds c) (correctIds c) fv nr hf q st) (hs0 : s ≠ 0) (h60 : cQuorum c = true) (i : Nat)
    (hi' : i ∈ correctIds c) : PoolFinalized st i (Blk.mk' s h) := by
  obtain ⟨a, ps, hst⟩ := (m i hi').slot
  obtain ⟨x, hx, hxh⟩ := hst.2.cNotarSome h60
  refine ⟨a, by rw [Blk.mk'_slot]; exact ps.slot, Or.inr ⟨?_, x, hx, ?_⟩⟩
  · rw [hst.2.cFin]; exact h60
  · rw [Blk.mk'_hash _ _ hs0]; exact hxh

/-- **Fast path: one voting round.** Every configuration `c` (any `n`, any stakes with positive total, any Byzantine set) whose
    correct validators hold at least 80 % of the stake; every cluster state in which every correct node is ready for slot `s`
    with parent `p`; every block `(s, h)` whose parent is `p`: after `deliverBlock; pumpAll; exchange; pumpAll` — the block
    reaches every correct node, one exchange of votes, every Votor drains its queue — the pool of **every** correct node holds a
    fast-finalization certificate for `(s, h)`. The schedule is `Valid` (unforgeability holds by construction), and no node that
    was alive is dead afterwards. -/
theorem timely_fast_finalization (c : Cfg) (hpos : 0 < c.stakes.sum) (hi s h : Nat) (p : Nat × Nat) (st : State) (hs : s ≤ hi)
    (hr : CReady c hi s p st) (hp : c.parentOf (s, h) = p) (h80 : 4 * c.stakes.sum ≤ 5 * correctStake c) :
    Valid c st (fastSched c (s, h) st) ∧
    (∀ i, (st i).dead = false → (run st (fastSched c (s, h) st) i).dead = false) ∧
    ∀ i ∈ correctIds c, PoolFinalized (run st (fastSched c (s, h) st)) i (Blk.mk' s h) := by
  obtain ⟨v, m, _, o⟩ := fast_master c hpos hs hr hp
  refine ⟨v, ?_, ?_⟩
  · intro i hd
    by_cases hi' : i ∈ correctIds c
    · exact (m i hi').alive
    · rw [o i hi']; exact hd
  · intro i hi'
    have hs0 : s ≠ 0 := by have := (hr i hi').trk.plt; omega
    exact poolFinalized_fast m hs0 ((cStrong_iff c).mpr h80) i hi'

/-- **Slow path: two voting rounds.** With the correct validators holding at least 60 % of the stake (the property assumes more
    than 60 %): after one more `exchange; pumpAll` (the finalization votes) the pool of every correct node holds a
    notarization certificate for `(s, h)` and a finalization certificate for slot `s` (or, with ≥ 80 %, also the
    fast-finalization certificate); the schedule is valid, nobody died, and **every correct node is ready for slot `s + 1`
    with parent `(s, h)`** — progress is inductive. -/
theorem timely_finalization (c : Cfg) (hpos : 0 < c.stakes.sum) (hi s h : Nat) (p : Nat × Nat) (st : State) (hs : s ≤ hi)
    (hr : CReady c hi s p st) (hp : c.parentOf (s, h) = p) (h60 : 3 * c.stakes.sum ≤ 5 * correctStake c) :
    Valid c st (slotSched c (s, h) st) ∧
    (∀ i, (st i).dead = false → (run st (slotSched c (s, h) st) i).dead = false) ∧
    (∀ i ∈ correctIds c, PoolFinalized (run st (slotSched c (s, h) st)) i (Blk.mk' s h)) ∧
    CReady c hi (s + 1) (s, h) (run st (slotSched c (s, h) st)) := by
  have hq := (cQuorum_iff c).mpr h60
  obtain ⟨v, m, r', o⟩ := slot_master c hpos hs hr hp hq
  refine ⟨v, ?_, ?_, r'⟩
  · intro i hd
    by_cases hi' : i ∈ correctIds c
    · exact (m i hi').alive
    · rw [o i hi']; exact hd
  · intro i hi'
    have hs0 : s ≠ 0 := by have := (hr i hi').trk.plt; omega
    exact poolFinalized_slow m hs0 hq i hi'

/-- … from the initial cluster: the first block of the first leader window, built on genesis -/
theorem first_block_finalized (c : Cfg) (hpos : 0 < c.stakes.sum) (h : Nat) (hp : c.parentOf (1, h) = (0, 0))
    (h60 : 3 * c.stakes.sum ≤ 5 * correctStake c) :
    Valid c (init c) (slotSched c (1, h) (init c)) ∧
    (∀ i, (run (init c) (slotSched c (1, h) (init c)) i).dead = false) ∧
    (∀ i ∈ correctIds c, PoolFinalized (run (init c) (slotSched c (1, h) (init c))) i (Blk.mk' 1 h)) ∧
    (4 * c.stakes.sum ≤ 5 * correctStake c →
      ∀ i ∈ correctIds c, PoolFinalized (run (init c) (fastSched c (1, h) (init c))) i (Blk.mk' 1 h)) := by
  have hr := init_ready c 1 (by decide)
  obtain ⟨a1, a2, a3, _⟩ := timely_finalization c hpos 1 1 h (0, 0) (init c) (Nat.le_refl _) hr hp h60
  exact ⟨a1, fun i => a2 i rfl, a3, fun h80 => (timely_fast_finalization c hpos 1 1 h (0, 0) (init c) (Nat.le_refl _) hr hp h80).2.2⟩

/-! ## Stage B — a chain of blocks of correct leaders: the whole leader window, and the next windows -/

/-- the blocks `(s, h₀), (s+1, h₁), …` form a chain on top of `p` -/
def chainOk (c : Cfg) : Nat × Nat → Nat → List Nat → Prop
  | _, _, [] => True
  | p, s, h :: hs => c.parentOf (s, h) = p ∧ chainOk c (s, h) (s + 1) hs

def blocksFrom (s : Nat) : List Nat → List (Nat × Nat)
  | [] => []
  | h :: hs => (s, h) :: blocksFrom (s + 1) hs

def lastBlock : Nat × Nat → Nat → List Nat → Nat × Nat
  | p, _, [] => p
  | _, s, h :: hs => lastBlock (s, h) (s + 1) hs

/-- node `i`'s pool reported `b` finalized at some point of the run `evs` from `st` (slot states are pruned once a later slot is
    finalized, so "at the end" would be too strong) -/
def FinalizedDuring (st : State) (evs : List Ev) (i : Nat) (b : Blk) : Prop :=
  ∃ k, PoolFinalized (run st (evs.take k)) i b

theorem FinalizedDuring.append_left {st : State} {a b : List Ev} {i : Nat} {x : Blk} (h : FinalizedDuring st a i x) :
    FinalizedDuring st (a ++ b) i x := by
  obtain ⟨k, hk⟩ := h
  refine ⟨min k a.length, ?_⟩
  rw [List.take_append_of_le_length (Nat.min_le_right _ _)]
  have : a.take (min k a.length) = a.take k := by
    rw [List.take_eq_take_iff]; omega
  rw [this]; exact hk

theorem FinalizedDuring.append_right {st : State} {a b : List Ev} {i : Nat} {x : Blk} (h : FinalizedDuring (run st a) b i x) :
    FinalizedDuring st (a ++ b) i x := by
  obtain ⟨k, hk⟩ := h
  refine ⟨a.length + k, ?_⟩
  rw [List.take_append, List.take_of_length_le (by omega), run_append]
  simpa using hk

theorem FinalizedDuring.at_end {st : State} {a : List Ev} {i : Nat} {x : Blk} (h : PoolFinalized (run st a) i x) :
    FinalizedDuring st a i x := ⟨a.length, by rw [List.take_length]; exact h⟩

/-- **The blocks of correct leaders, delivered in slot order, are all finalized by every correct node** — the whole leader
    window and any number of following windows: for every chain `(s, h₀) ← (s+1, h₁) ← …` on top of `p`, from every state in
    which every correct node is ready for `s` with parent `p`, with ≥ 60 % correct stake: the timely schedule is valid, nobody
    dies, every block of the chain is reported finalized by the pool of every correct node during the run, and at the end
    every correct node is ready for the next slot with the last block as parent (in particular `ParentReady` for the first
    slot of the next window has been announced and handled: `chain_next_window_ready`). -/
theorem timely_chain (c : Cfg) (hpos : 0 < c.stakes.sum) (hi : Nat) (h60 : 3 * c.stakes.sum ≤ 5 * correctStake c) :
    ∀ (hs : List Nat) (p : Nat × Nat) (s : Nat) (st : State), s + hs.length ≤ hi + 1 → CReady c hi s p st → chainOk c p s hs →
    Valid c st (windowSched c (blocksFrom s hs) st) ∧
    (∀ i, (st i).dead = false → (run st (windowSched c (blocksFrom s hs) st) i).dead = false) ∧
    (∀ b ∈ blocksFrom s hs, ∀ i ∈ correctIds c, FinalizedDuring st (windowSched c (blocksFrom s hs) st) i (Blk.mk' b.1 b.2)) ∧
    CReady c hi (s + hs.length) (lastBlock p s hs) (run st (windowSched c (blocksFrom s hs) st)) := by
  intro hs
  induction hs with
  | nil =>
    intro p s st _ hr _
    refine ⟨trivial, fun i hd => hd, ?_, by simpa [lastBlock, windowSched, blocksFrom, run] using hr⟩
    intro b hb; simp [blocksFrom] at hb
  | cons h hs ih =>
    intro p s st hlen hr hc
    obtain ⟨hp, hc'⟩ := hc
    obtain ⟨a1, a2, a3, a4⟩ := timely_finalization c hpos hi s h p st (by simp at hlen; omega) hr hp h60
    obtain ⟨b1, b2, b3, b4⟩ := ih (s, h) (s + 1) (run st (slotSched c (s, h) st)) (by simp at hlen ⊢; omega) a4 hc'
    simp only [blocksFrom, windowSched]
    refine ⟨(valid_append c st _ _).mpr ⟨a1, b1⟩, ?_, ?_, ?_⟩
    · intro i hd
      rw [run_append]
      exact b2 i (a2 i hd)
    · intro b hb i hi'
      rcases List.mem_cons.mp hb with rfl | hb
      · exact (FinalizedDuring.at_end (a3 i hi')).append_left
      · exact (b3 b hb i hi').append_right
    · rw [run_append]
      have : s + (h :: hs).length = s + 1 + hs.length := by simp; omega
      rw [this]
      exact b4

/-- after a chain that ends at the last slot of a leader window, every correct node's Votor holds the last block as a ready
    parent for the first slot of the next window (it has handled `ParentReady`), and so does the pool's parent-ready tracker -/
theorem chain_next_window_ready (c : Cfg) (hi s : Nat) (p : Nat × Nat) (st : State) (hr : CReady c hi s p st)
    (hw : s % Votor.W = 0) (i : Nat) (hi' : i ∈ correctIds c) :
    ((st i).votor.getS s).parentsReady.contains p = true ∧ ParentReady.parentsReady (st i).pool.pr s = [p] := by
  refine ⟨(hr i hi').votor.parentW hw, ?_⟩
  rw [ParentReady.parentsReady_eq_get, (hr i hi').trk.atS.2.2, if_pos ((isWindowStart_iff s).mpr hw)]

/-! ## Stage D — a window whose leader is silent or crashed is skipped and does not block the next one -/

/-- **Silent / crashed leader.** From any state in which every correct node is ready for slot `s` with parent `p` (`s` the first
    slot of a window, or any later slot of it: the leader crashed mid-window), with ≥ 60 % correct stake: no block is delivered,
    the timeouts of the slots `s … E-1` of the window fire at every correct node (`E = wEnd s`, the first slot of the next
    window), one exchange of the skip votes and every Votor draining its queue. Then the pool of every correct node holds a
    **skip certificate for every slot `s ≤ t < E`**, and **every correct node is ready for the first slot `E` of the next window
    with the same parent `p`** (its pool announced `ParentReady(E, p)`, its Votor handled it: `chain_next_window_ready`) — the
    window does not block the next one. The schedule is valid and nobody dies. -/
theorem silent_leader_skipped (c : Cfg) (hpos : 0 < c.stakes.sum) (hi s : Nat) (p : Nat × Nat) (st : State)
    (hE : wEnd s ≤ hi + 1) (hr : CReady c hi s p st) (h60 : 3 * c.stakes.sum ≤ 5 * correctStake c) :
    Valid c st (skipSched c s (List.range' s (wEnd s - s)) st) ∧
    (∀ i, (st i).dead = false → (run st (skipSched c s (List.range' s (wEnd s - s)) st) i).dead = false) ∧
    (∀ i ∈ correctIds c, ∀ t, s ≤ t → t < wEnd s →
      ∃ a x, (run st (skipSched c s (List.range' s (wEnd s - s)) st) i).pool.getSlot t = some a ∧ a.cSkip = some x) ∧
    CReady c hi (wEnd s) p (run st (skipSched c s (List.range' s (wEnd s - s)) st)) := by
  have hq := (cQuorum_iff c).mpr h60
  obtain ⟨v, m, r', o⟩ := skip_master c hpos hE hr hq
  refine ⟨v, ?_, ?_, r'⟩
  · intro i hd
    by_cases hi' : i ∈ correctIds c
    · exact (m i hi').alive
    · rw [o i hi']; exact hd
  · intro i hi' t h1 h2
    have hsk := (m i hi').pool.slots t h1 h2
    have hsome : ((run st (skipSched c s (List.range' s (wEnd s - s)) st) i).pool.slotState t).2.cSkip.isSome = true := by
      rw [hsk.cSkip]; exact hq
    cases hg : (run st (skipSched c s (List.range' s (wEnd s - s)) st) i).pool.getSlot t with
    | none =>
      rw [slotState_snd_of_none hg] at hsome
      cases hsome
    | some a =>
      rw [slotState_snd_of_some hg] at hsome
      obtain ⟨x, hx⟩ := option_some_of_isSome hsome
      exact ⟨a, x, rfl, hx⟩

/-! ## progress is inductive: any sequence of windows with correct or silent leaders -/

/-- a plan: `some hs` — the next leader(s) are correct and their blocks `(s, h₀), (s+1, h₁), …` arrive in time (any number of
    consecutive slots, also across window boundaries); `none` — the leader of the current window is silent from the current
    slot on, the timeouts of the rest of the window fire -/
abbrev Plan := List (Option (List Nat))

def planSched (c : Cfg) : Plan → Nat → State → List Ev
  | [], _, _ => []
  | some hs :: rest, s, st =>
    windowSched c (blocksFrom s hs) st ++ planSched c rest (s + hs.length) (run st (windowSched c (blocksFrom s hs) st))
  | none :: rest, s, st =>
    skipSched c s (List.range' s (wEnd s - s)) st ++
      planSched c rest (wEnd s) (run st (skipSched c s (List.range' s (wEnd s - s)) st))

/-- the blocks of the plan form a chain (blocks after a skipped window build on the last block before it) -/
def planOk (c : Cfg) : Plan → Nat × Nat → Nat → Prop
  | [], _, _ => True
  | some hs :: rest, p, s => chainOk c p s hs ∧ planOk c rest (lastBlock p s hs) (s + hs.length)
  | none :: rest, p, s => planOk c rest p (wEnd s)

def planEnd : Plan → Nat × Nat → Nat → (Nat × Nat) × Nat
  | [], p, s => (p, s)
  | some hs :: rest, p, s => planEnd rest (lastBlock p s hs) (s + hs.length)
  | none :: rest, p, s => planEnd rest p (wEnd s)

def planBlocks : Plan → Nat → List (Nat × Nat)
  | [], _ => []
  | some hs :: rest, s => blocksFrom s hs ++ planBlocks rest (s + hs.length)
  | none :: rest, s => planBlocks rest (wEnd s)

/-- **Progress over any sequence of leader windows** with correct leaders (blocks delivered in time) and silent / crashed
    leaders (timeouts), from any state in which every correct node is ready — in particular from the initial cluster
    (`init_ready`): the timely schedule is valid, nobody dies, **every block of a correct leader is reported finalized by the
    pool of every correct node**, windows of silent leaders are skipped, and at the end every correct node is ready for the
    next slot: the highest finalized slot keeps advancing for as long as the plan goes on. -/
theorem timely_progress (c : Cfg) (hpos : 0 < c.stakes.sum) (hi : Nat) (h60 : 3 * c.stakes.sum ≤ 5 * correctStake c) :
    ∀ (pl : Plan) (p : Nat × Nat) (s : Nat) (st : State), (planEnd pl p s).2 ≤ hi + 1 → CReady c hi s p st → planOk c pl p s →
    Valid c st (planSched c pl s st) ∧
    (∀ i, (st i).dead = false → (run st (planSched c pl s st) i).dead = false) ∧
    (∀ b ∈ planBlocks pl s, ∀ i ∈ correctIds c, FinalizedDuring st (planSched c pl s st) i (Blk.mk' b.1 b.2)) ∧
    CReady c hi (planEnd pl p s).2 (planEnd pl p s).1 (run st (planSched c pl s st)) := by
  have hmono : ∀ (pl : Plan) (p : Nat × Nat) (s : Nat), s ≤ (planEnd pl p s).2 := by
    intro pl
    induction pl with
    | nil => intro p s; exact Nat.le_refl _
    | cons a rest ih =>
      intro p s
      cases a with
      | none => exact Nat.le_trans (Nat.le_of_lt (lt_wEnd s)) (ih p (wEnd s))
      | some hs => exact Nat.le_trans (Nat.le_add_right _ _) (ih (lastBlock p s hs) (s + hs.length))
  intro pl
  induction pl with
  | nil =>
    intro p s st _ hr _
    exact ⟨trivial, fun i hd => hd, fun b hb => by simp [planBlocks] at hb, hr⟩
  | cons a rest ih =>
    intro p s st hend hr hok
    cases a with
    | some hs =>
      obtain ⟨hc, hok'⟩ := hok
      have hlen : s + hs.length ≤ hi + 1 := Nat.le_trans (hmono rest _ _) hend
      obtain ⟨a1, a2, a3, a4⟩ := timely_chain c hpos hi h60 hs p s st hlen hr hc
      obtain ⟨b1, b2, b3, b4⟩ := ih (lastBlock p s hs) (s + hs.length) _ hend a4 hok'
      simp only [planSched, planBlocks, planEnd]
      refine ⟨(valid_append c st _ _).mpr ⟨a1, b1⟩, ?_, ?_, by rw [run_append]; exact b4⟩
      · intro i hd; rw [run_append]; exact b2 i (a2 i hd)
      · intro b hb i hi'
        rcases List.mem_append.mp hb with hb | hb
        · exact (a3 b hb i hi').append_left
        · exact (b3 b hb i hi').append_right
    | none =>
      have hlen : wEnd s ≤ hi + 1 := Nat.le_trans (hmono rest _ _) hend
      obtain ⟨a1, a2, _, a4⟩ := silent_leader_skipped c hpos hi s p st hlen hr h60
      obtain ⟨b1, b2, b3, b4⟩ := ih p (wEnd s) _ hend a4 hok
      simp only [planSched, planBlocks, planEnd]
      refine ⟨(valid_append c st _ _).mpr ⟨a1, b1⟩, ?_, ?_, by rw [run_append]; exact b4⟩
      · intro i hd; rw [run_append]; exact b2 i (a2 i hd)
      · intro b hb i hi'
        exact (b3 b hb i hi').append_right

/-! ## the highest finalized slot keeps advancing -/

/-- in a cluster that is ready for slot `s` with parent `p`, every correct node's highest finalized slot — as its Votor knows
    it (`highest_finalized_cert_slot`) and as its pool's finality tracker knows it — is the slot of `p` -/
theorem ready_watermarks (c : Cfg) (hi s : Nat) (p : Nat × Nat) (st : State) (hr : CReady c hi s p st) (i : Nat)
    (hi' : i ∈ correctIds c) : (st i).votor.hfcs = p.1 ∧ (st i).pool.fin.highest = p.1 :=
  ⟨(hr i hi').votor.hfcsEq, (hr i hi').trk.highEq⟩

/-- **Every correct node's highest finalized slot advances to the slot of the last block of the plan** (with
    `timely_progress`): after the timely schedule of any plan whose last segment is a chain of blocks, it is the slot of the
    plan's last block — at every correct node, in Votor and in the pool — and (`hfcs_never_decreases`) it never goes back,
    whatever happens afterwards. -/
theorem timely_progress_watermark (c : Cfg) (hpos : 0 < c.stakes.sum) (hi : Nat) (h60 : 3 * c.stakes.sum ≤ 5 * correctStake c)
    (pl : Plan) (p : Nat × Nat) (s : Nat) (st : State) (hend : (planEnd pl p s).2 ≤ hi + 1) (hr : CReady c hi s p st)
    (hok : planOk c pl p s) (i : Nat) (hi' : i ∈ correctIds c) :
    (run st (planSched c pl s st) i).votor.hfcs = (planEnd pl p s).1.1 ∧
    (run st (planSched c pl s st) i).pool.fin.highest = (planEnd pl p s).1.1 :=
  ready_watermarks c hi _ _ _ (timely_progress c hpos hi h60 pl p s st hend hr hok).2.2.2 i hi'

/-- **Monotonicity**: in every run of the cluster — valid or not, any events at any node, timeouts, Byzantine messages — the
    highest finalized slot known to a node's Votor never decreases -/
theorem hfcs_never_decreases (st : State) (evs : List Ev) (i : Nat) : (st i).votor.hfcs ≤ (run st evs i).votor.hfcs :=
  run_hfcs_mono st evs i

/-! ## Stage C (partial) — the order of deliveries

The full statement — *every* `Valid` run segment that contains the deliveries of the timely schedule in any interleaving, with
arbitrary additional Byzantine votes / certificates and duplicated or reordered deliveries mixed in, no timeout for the slots of
the window, all correct queues drained at the end, finalizes the block — is **not** proved. Proved (`…_partial`):

* the nodes are independent (`run_congr_proj`): any interleaving *between* nodes of the same per-node sequences reaches the
  same state — the nodes need not run in lock-step with each other;
* at each node the votes of a round may arrive from the senders in **any order**, a different one at every node, and any
  number of **surplus pumps** is harmless; what the nodes of Byzantine validators receive is arbitrary.

Missing: votes / certificates that are not part of the schedule mixed in (Byzantine votes for other blocks, received
certificates), duplicates other than the re-delivered notarization votes of round 2, votes of round 2 overtaking the pumps of
round 1 at a node. -/

/-- **The nodes are independent**: two runs with the same projection to every node reach the same cluster state — the
    interleaving of the events of different nodes is irrelevant -/
theorem interleaving_between_nodes_irrelevant (st : State) (evs evs' : List Ev) (h : ∀ i, proj i evs = proj i evs') :
    run st evs = run st evs' := run_congr_proj st evs evs' h

/-- the operations of one slot at one node: block, pumps, the notarization votes in the order `L1`, pumps, notarization and
    finalization votes in the order `L2`, pumps -/
def slotOps (c : Cfg) (b : Nat × Nat) (L1 L2 : List Nat) (m0 m1 m2 : Nat) : List NodeOp :=
  blockOps c b ++ List.replicate m0 .pump ++ L1.map (fun j => NodeOp.recvVote ⟨.notar, b.1, b.2, j⟩) ++
    List.replicate m1 .pump ++
    L2.flatMap (fun j => [NodeOp.recvVote ⟨.notar, b.1, b.2, j⟩, NodeOp.recvVote ⟨.final, b.1, 0, j⟩]) ++ List.replicate m2 .pump

/-- **`timely_finalization` for every interleaving that keeps the per-node order of the phases** — `_partial`, see above: for
    every run `evs` (no validity hypothesis is needed for the conclusion) whose projection to each correct node `i` is
    `slotOps` for some orders `L1 i`, `L2 i` of the correct validators and pump counts `m1 ≥ 4`, `m2 ≥ 1` (the queue of a
    round never holds more), whatever `evs` does at the nodes of Byzantine validators: every correct pool reports `(s, h)`
    finalized and every correct node is ready for slot `s + 1`. -/
theorem timely_finalization_interleaved_partial (c : Cfg) (hpos : 0 < c.stakes.sum) (hi s h : Nat) (p : Nat × Nat) (st : State)
    (hs : s ≤ hi) (hr : CReady c hi s p st) (hp : c.parentOf (s, h) = p) (h60 : 3 * c.stakes.sum ≤ 5 * correctStake c)
    (evs : List Ev)
    (hshape : ∀ i ∈ correctIds c, ∃ L1 L2 m0 m1 m2, L1.Perm (correctIds c) ∧ L2.Perm (correctIds c) ∧ 4 ≤ m1 ∧ 1 ≤ m2 ∧
      proj i evs = slotOps c (s, h) L1 L2 m0 m1 m2) :
    (∀ i ∈ correctIds c, PoolFinalized (run st evs) i (Blk.mk' s h)) ∧ CReady c hi (s + 1) (s, h) (run st evs) := by
  have hq : (c.epoch 0).isQuorum (stakeOf (c.epoch 0) (correctIds c)) = true := (cQuorum_iff c).mpr h60
  have key : ∀ i ∈ correctIds c, NReady (c.epoch i) hi (s + 1) (s, h) (run st evs i) ∧
      ∃ a x, (run st evs i).pool.getSlot s = some a ∧ a.cFin.isSome = true ∧ a.cNotar = some x ∧ x.hash = h := by
    intro i hi'
    obtain ⟨L1, L2, m0, m1, m2, p1, p2, hm1, hm2, hproj⟩ := hshape i hi'
    rw [run_proj, hproj]
    have hb : blockOps c (s, h) = [.poolBlock (s, h) p, .votorBlock s ⟨h, p.1, p.2⟩] := by unfold blockOps; rw [hp]
    unfold slotOps
    rw [hb]
    exact node_slot_any_order (e := c.epoch i) (by exact hpos) hs (hr i hi') (correctIds c) L1 L2 (correctIds_nodup c)
      (fun j hj => (mem_correctIds.mp hj).1) p1 p2 hq m0 m1 m2 hm1 hm2
  refine ⟨?_, fun i hi' => (key i hi').1⟩
  intro i hi'
  obtain ⟨_, a, x, hg, hf, hx, hxh⟩ := key i hi'
  have hs0 : s ≠ 0 := by have := (hr i hi').trk.plt; omega
  exact ⟨a, by rw [Blk.mk'_slot]; exact hg, Or.inr ⟨hf, x, hx, by rw [Blk.mk'_hash _ _ hs0]; exact hxh⟩⟩

/-! ## Stage C — monotonicity: what a pool reports finalized stays reported until the slot is pruned -/

theorem poolLog_append (p : Pool) (a b : List PoolOp) : poolLog p (a ++ b) = poolLog p a ++ poolLog (poolRun p a).1 b := by
  induction a generalizing p with
  | nil => simp [poolLog, poolRun]
  | cons op a ih => simp only [List.cons_append, poolLog, poolRun, ih, List.append_assoc]

/-- **Extra valid events cannot undo a finalization.** In every valid, admitted run of the cluster with less than 20 %
    Byzantine stake — arbitrary interleavings, Byzantine votes and certificates, duplicates, timeouts —: if after the prefix
    `pre` the pool of node `i` reports block `b` finalized (`PoolImpl::get_final_certs`), then after any continuation `post` it
    still does, as long as `b`'s slot is at or above the pool's pruning watermark (`first_unpruned_slot`; below it the slot
    state is dropped, the block being finalized or an ancestor of a finalized one). The held certificates are never
    replaced or lost: every held certificate is logged (C18 `hl_poolRun`), every logged certificate of a retained slot is
    held by kind and block (`held_poolRun`). -/
theorem poolFinalized_persists (c : Cfg) (pre post : List Ev) (hv : Valid c (init c) (pre ++ post))
    (hw : Admitted c (pre ++ post)) (hb : 5 * Spec.w (stakeFn c) (byz c) < Spec.total (stakeFn c)) (i : ℕ) (b : Blk)
    (hf : PoolFinalized (run (init c) pre) i b)
    (hkeep : (run (init c) (pre ++ post) i).pool.fin.first ≤ b.slot) : PoolFinalized (run (init c) (pre ++ post)) i b := by
  have hvp : Valid c (init c) pre := ((valid_append c _ pre post).mp hv).1
  have hwp : Admitted c pre := fun x hx => hw x (List.mem_append_left _ hx)
  obtain ⟨hp1, _⟩ := cluster_pools_consistent c pre hvp hwp hb i
  obtain ⟨hp2, hc2⟩ := cluster_pools_consistent c (pre ++ post) hv hw hb i
  have hops : poolOps (proj i (pre ++ post)) = poolOps (proj i pre) ++ poolOps (proj i post) := by
    rw [proj_append]; unfold poolOps; rw [List.filterMap_append]
  generalize poolOps (proj i pre) = ops1 at *
  generalize poolOps (proj i post) = ops2 at *
  rw [hops] at hp2 hc2
  rw [poolLog_append] at hc2
  -- held ⇒ logged, for the pool after `pre`
  have hall := hl_poolRun ops1 { epoch := c.epoch i } [] (by intro st hst; simp at hst)
  simp only [List.nil_append] at hall
  -- logged ⇒ held, for the pool after `pre ++ post`
  have hheld := (held_poolRun (ops1 ++ ops2) { epoch := c.epoch i } [] (HeldLog.init _) (by
    rw [List.nil_append, poolLog_append]; exact hc2)).logHeld
  rw [List.nil_append, poolLog_append] at hheld
  rw [← hp2] at hheld
  obtain ⟨st, hg, hor⟩ := hf
  rw [hp1] at hg
  obtain ⟨hwf, hlog⟩ := hall st (getSlot_mem _ _ _ hg).1
  have hsl : st.slot = b.slot := (getSlot_mem _ _ _ hg).2
  obtain ⟨w1, _, _, w4, w5⟩ := hwf
  rcases hor with ⟨x, hx, hxh⟩ | ⟨hfin, x, hx, hxh⟩
  · obtain ⟨hk, hs⟩ := w4 x hx
    obtain ⟨st', h1, h2⟩ := hheld x (List.mem_append_left _ (hlog x ((mem_certs st x).mpr (Or.inr (Or.inl hx)))))
      (by rw [hs, hsl]; exact hkeep)
    rw [hs, hsl] at h1
    unfold HeldKey at h2
    simp only [hk] at h2
    obtain ⟨c', hc', hh⟩ := h2
    exact ⟨st', h1, Or.inl ⟨c', hc', hh.trans hxh⟩⟩
  · obtain ⟨y, hy⟩ := option_some_of_isSome hfin
    obtain ⟨hky, hsy⟩ := w5 y hy
    obtain ⟨hkx, hsx⟩ := w1 x hx
    obtain ⟨st1, g1, k1⟩ := hheld y (List.mem_append_left _ (hlog y ((mem_certs st y).mpr (Or.inl hy))))
      (by rw [hsy, hsl]; exact hkeep)
    obtain ⟨st2, g2, k2⟩ := hheld x (List.mem_append_left _ (hlog x ((mem_certs st x).mpr (Or.inr (Or.inr (Or.inl hx))))))
      (by rw [hsx, hsl]; exact hkeep)
    rw [hsy, hsl] at g1
    rw [hsx, hsl, g1] at g2
    cases g2
    unfold HeldKey at k1 k2
    simp only [hky] at k1
    simp only [hkx] at k2
    obtain ⟨c', hc', hh⟩ := k2
    exact ⟨st1, g1, Or.inr ⟨k1, c', hc', hh.trans hxh⟩⟩

/-- **A correct node that notarized a block of slot `s` never casts a skip vote for `s`** — in any valid run, whatever is mixed
    in (its skip vote could only come from a timeout *before* the block, which is what "no premature timeout" excludes): the
    log form of C01 `cluster_notar_no_skip`. -/
theorem notarized_never_skipped (c : Cfg) (evs : List Ev) (hv : Valid c (init c) evs) (hpos : 0 < c.stakes.sum) (v : Fin c.n)
    (hc : c.correct v.val = true) (s h ps ph : ℕ)
    (hm : Votor.Item.out (.notar s h ps ph) ∈ (run (init c) evs v.val).votor.log) :
    Votor.Item.out (.skip s) ∉ (run (init c) evs v.val).votor.log := by
  obtain ⟨F⟩ := nodeFacts c evs hv hpos v.val hc
  have hs0 : s ≠ 0 := by
    intro e0
    have := no_slot_zero c evs v F hc _ hm (by rw [e0]; rfl)
    cases this
  intro hsk
  have hn : (histOf c (run (init c) evs)).notar v (Blk.mk' s h) := by
    intro _
    right
    rw [Blk.mk'_slot, Blk.mk'_hash _ _ hs0]
    exact ⟨ps, ph, hm⟩
  apply cluster_notar_no_skip c evs v F hc (Blk.mk' s h) hn
  intro _
  show Votor.Item.out (.skip (Blk.mk' s h).slot) ∈ _
  rw [Blk.mk'_slot]
  exact hsk

/-! ## non-vacuity, and the necessity of the hypotheses -/
namespace Progress

/-- a pool's answer, as a Boolean (for evaluation) -/
def finB (st : State) (i s h : Nat) : Bool :=
  match (st i).pool.getSlot s with
  | none => false
  | some a => (match a.cFf with | some x => x.hash == h | none => false) ||
      (a.cFin.isSome && (match a.cNotar with | some x => x.hash == h | none => false))

/-- every block's parent is the block with the same hash in the previous slot (genesis for slot 1); block `(8, 9)` is built on
    `(3, 7)` (the window 4–7 in between is skipped) -/
def par : Nat × Nat → Nat × Nat
  | (8, 9) => (3, 7)
  | (s + 1, h) => (s, if s = 0 then 0 else h)
  | _ => (0, 0)

/-- six validators with stakes 3, 1, 1, 1, 1, 2; the last one is Byzantine (2/9 > 20 %: the progress theorems do not need the
    Byzantine bound, only the correct stake 7/9 ≥ 60 %; it is below 80 %: slow path) -/
def c6 : Cfg := { stakes := [3, 1, 1, 1, 1, 2], correct := fun i => decide (i < 5), parentOf := par }

/-- five validators with equal stake, one Byzantine: the correct stake is exactly 80 %: fast path -/
def c5 : Cfg := { stakes := [1, 1, 1, 1, 1], correct := fun i => decide (i < 4), parentOf := par }

/-- **Non-vacuity (slow path)**: the premises of `timely_finalization` hold for `c6` in the initial cluster; its conclusion,
    for the five correct nodes — and the same computed by evaluation of the model -/
example : ∀ i ∈ correctIds c6, PoolFinalized (run (init c6) (slotSched c6 (1, 7) (init c6))) i (Blk.mk' 1 7) :=
  (first_block_finalized c6 (by decide) 7 rfl (by decide)).2.2.1

example : correctIds c6 = [0, 1, 2, 3, 4] ∧
    (List.range 5).all (fun i => finB (run (init c6) (slotSched c6 (1, 7) (init c6))) i 1 7) = true ∧
    (List.range 5).all (fun i => finB (run (init c6) (fastSched c6 (1, 7) (init c6))) i 1 7) = false := by decide +kernel

/-- **Non-vacuity (fast path)**: one voting round suffices for `c5` -/
example : ∀ i ∈ correctIds c5, PoolFinalized (run (init c5) (fastSched c5 (1, 7) (init c5))) i (Blk.mk' 1 7) :=
  (first_block_finalized c5 (by decide) 7 rfl (by decide)).2.2.2 (by decide)

example : (List.range 4).all (fun i => finB (run (init c5) (fastSched c5 (1, 7) (init c5))) i 1 7) = true := by decide +kernel

/-- **Non-vacuity (windows)**: the blocks of slots 1–3 (first window), the window 4–7 is skipped (silent leader), block `(8, 9)`
    built on `(3, 7)`: the premises of `timely_progress` hold; all four blocks are finalized at every correct node -/
def plan : Plan := [some [7, 7, 7], none, some [9]]

theorem plan_ok : planOk c6 plan (0, 0) 1 ∧ (planEnd plan (0, 0) 1).2 = 9 ∧ planBlocks plan 1 = [(1, 7), (2, 7), (3, 7), (8, 9)] := by
  refine ⟨⟨⟨rfl, rfl, rfl, trivial⟩, ⟨rfl, trivial⟩, trivial⟩, by decide, by decide⟩

example : ∀ b ∈ [(1, 7), (2, 7), (3, 7), (8, 9)], ∀ i ∈ correctIds c6,
    FinalizedDuring (init c6) (planSched c6 plan 1 (init c6)) i (Blk.mk' b.1 b.2) := by
  have h := (timely_progress c6 (by decide) 100 (by decide) plan (0, 0) 1 (init c6) (by rw [plan_ok.2.1]; decide)
    (init_ready c6 100 (by decide)) plan_ok.1).2.2.1
  rw [plan_ok.2.2] at h
  exact h

example : ∀ i ∈ correctIds c6, (run (init c6) (planSched c6 plan 1 (init c6)) i).votor.hfcs = 8 := fun i hi' =>
  (timely_progress_watermark c6 (by decide) 100 (by decide) plan (0, 0) 1 (init c6) (by rw [plan_ok.2.1]; decide)
    (init_ready c6 100 (by decide)) plan_ok.1 i hi').1

/-- … and by evaluation: at the end every correct node's finality tracker has slot 8 as its highest finalized slot, and its
    Votor is past slot 8 -/
example : (List.range 5).all (fun i => (run (init c6) (planSched c6 plan 1 (init c6)) i).pool.fin.highest == 8 &&
    (run (init c6) (planSched c6 plan 1 (init c6)) i).votor.hfcs == 8) = true := by decide +kernel

/-- four correct validators with stakes 41, 20, 20, 19 -/
def c4 : Cfg := { stakes := [41, 20, 20, 19], correct := fun _ => true, parentOf := par }

/-- **No premature timeouts is necessary.** One correct validator with 41 % (> 40 %) of the stake times out in slot 1 *before*
    the block arrives (it skips the window); then the timely schedule for block `(1, 7)` runs, and two more voting rounds. The
    run is valid, all validators are correct and alive — and no pool ever reports `(1, 7)` finalized: the block has 59 % of the
    notarization votes, the other three validators cast skip-fallback votes, slot 1 gets a skip certificate at every node. -/
theorem premature_timeout_blocks_finalization :
    let st0 := step (init c4) (0, .timeout 1)
    let evs := slotSched c4 (1, 7) st0
    let evs' := evs ++ round c4 1 (run st0 evs)
    let evs'' := evs' ++ round c4 1 (run st0 evs')
    Valid c4 (init c4) ((0, .timeout 1) :: evs'') ∧ 3 * c4.stakes.sum ≤ 5 * correctStake c4 ∧
    (List.range 4).all (fun i => !(run st0 evs'' i).dead && !finB (run st0 evs) i 1 7 && !finB (run st0 evs') i 1 7 &&
      !finB (run st0 evs'') i 1 7 &&
      (match (run st0 evs'' i).pool.getSlot 1 with | some a => a.cSkip.isSome && a.cNotar.isNone | none => false)) = true := by
  decide +kernel

end Progress

end AgModel.Cluster
