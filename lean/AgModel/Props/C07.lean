import AgModel.Proofs.ParentReadyRun
import AgModel.Proofs.PoolWiring
import AgModel.Proofs.PoolNoPanic
/-!
# C07 — parent-ready (property theorems)

Model: `AgModel.ParentReady` (= `parent_ready_tracker.rs` + `parent_ready_state.rs`), composed with the finality
tracker and the pool's pruning in `AgModel.PoolTrack`; tied to the real code by the correspondence run of
`harness/src/bin/c07.rs` (direct tracker ops, all orders of small mark sets, certificates through a real `PoolImpl`).

**Main statement (theorems of the second half of this file, over whole runs).**  Runs are lists of `Op`
(`nf`, `skip`, `fin` = `handle_finalization`, `prune`, `wait`) from `init`; `hist ops` is the ghost history of the marks
the tracker *accepted* (a mark below the root at the time of the call is ignored by the code and not recorded).
Premise `SafeRun ops` (decidable on the op list): prune roots are monotone and a slot used as prune root is never —
before or after — accepted as a skip mark, unless it is the first slot of a window
(`safeRun_of_roots_never_skipped`: the plain syntactic form implies it).  Under `SafeRun`, for every run:

* `ready_iff` — for every window start `s ≥ root` and block `b`:
  `b ∈ parentsReady t s ↔ b.1 < s ∧ b ∈ (hist ops).nf ∧ ∀ u, b.1 < u < s → u ∈ (hist ops).sk`
  (+ `ready_only_for_live_window_starts`, `order_independent`, `order_independent_perm`);
* `run_never_panics` — no operation hits `add_to_ready`'s `assert!` (and the forward loops end by `break`, not by
  fuel: `fwd_exact`); `run_ok_of_single_waits` — no panic at all when each slot is waited for at most once;
* `announced_once` — the concatenation of all announcement lists of the run has no duplicate;
  `announce_exact_on_certificate_paths` — `mark_notar_fallback` / `mark_skipped` announce exactly the pairs that
  enter a ready list in that step (`handle_finalization` announces one highest-slot pair of its batch, by design);
* `waiter_woken_by_first_ready`, `waiter_means_not_ready` — a waiter is woken exactly by the first parent that becomes
  ready for its slot.

The premise is necessary: `ready_iff_fails_if_skipped_slot_becomes_root`, `ready_iff_fails_if_root_is_skipped_later`,
`panic_if_prune_roots_decrease`, `ready_iff_fails_if_prune_roots_decrease` (`decide`d runs, replayed on the real
tracker by the harness shape `pr-witness`); non-vacuity: `demoRun`.

The first half (one-step lemmas for arbitrary tracker states): `announce_subset_query_*`, `marks_never_lost_*`,
`ready_lists_stay_duplicate_free`, `ready_only_at_window_starts`, `finalization_announces_highest`,
`waiter_woken_with_ready_parent`, `wait_*`, `below_root_ignored_*`, `prune_loses_nothing`.
-/
namespace AgModel.ParentReady

/-- Announcements ⊆ query, certificate path (`mark_notar_fallback`): each announced `(s, b)` has `s` a window start
    and `b ∈ parents_ready(s)` in the resulting state. -/
theorem announce_subset_query_nf {t : Tracker} {id : Nat × Nat} {t' : Tracker}
    {ann : List (Nat × (Nat × Nat))} {w : List Wake} (h : markNotarFallback t id = some (t', ann, w)) :
    ∀ a ∈ ann, isWindowStart a.1 = true ∧ a.2 ∈ parentsReady t' a.1 := (markNotarFallback_ok h).2

/-- Announcements ⊆ query, certificate path (`mark_skipped`). -/
theorem announce_subset_query_skip {t : Tracker} {ms : Nat} {t' : Tracker}
    {ann : List (Nat × (Nat × Nat))} {w : List Wake} (h : markSkipped t ms = some (t', ann, w)) :
    ∀ a ∈ ann, isWindowStart a.1 = true ∧ a.2 ∈ parentsReady t' a.1 := (markSkipped_ok h).2

/-- Announcements ⊆ query, finalization path (`handle_finalization`). -/
theorem announce_subset_query_finalization {t : Tracker} {ev : Finality.Event} {t' : Tracker}
    {ann : List (Nat × (Nat × Nat))} {w : List Wake} (h : handleFinalization t ev = some (t', ann, w)) :
    ∀ a ∈ ann, isWindowStart a.1 = true ∧ a.2 ∈ parentsReady t' a.1 := (handleFinalization_ok h).2

/-- A finalization batch announces at most one pair, and it is one with the highest slot of the batch
    ("keep only highest slot ParentReady"). -/
theorem finalization_announces_highest (l : List (Nat × (Nat × Nat))) :
    (lastMax l).toList.length ≤ 1 ∧ (l ≠ [] → ∃ x, lastMax l = some x ∧ x ∈ l ∧ ∀ y ∈ l, y.1 ≤ x.1) := by
  constructor
  · cases lastMax l <;> simp
  · intro hne
    cases hl : lastMax l with
    | none => exact absurd (lastMax_none hl) hne
    | some x => exact ⟨x, rfl, lastMax_mem hl, lastMax_max hl⟩

/-- Skip marks, notar-fallback marks and ready parents are never lost by any operation other than `prune`
    (so a pair that was ready stays answered by the query: order of arrival cannot retract an answer). -/
theorem marks_never_lost_nf {t : Tracker} {id : Nat × Nat} {t' : Tracker}
    {ann : List (Nat × (Nat × Nat))} {w : List Wake} (h : markNotarFallback t id = some (t', ann, w)) :
    Grow t t' := (markNotarFallback_ok h).1

theorem marks_never_lost_skip {t : Tracker} {ms : Nat} {t' : Tracker}
    {ann : List (Nat × (Nat × Nat))} {w : List Wake} (h : markSkipped t ms = some (t', ann, w)) :
    Grow t t' := (markSkipped_ok h).1

theorem marks_never_lost_finalization {t : Tracker} {ev : Finality.Event} {t' : Tracker}
    {ann : List (Nat × (Nat × Nat))} {w : List Wake} (h : handleFinalization t ev = some (t', ann, w)) :
    Grow t t' := (handleFinalization_ok h).1

/-- "each (s, b) pair at most once" on the state: no operation that returns (does not hit the `assert!`) leaves a
    duplicate in a ready list. -/
theorem ready_lists_stay_duplicate_free {t t' : Tracker} (g : Grow t t')
    (h : ∀ s, (get t s).ready.Nodup) : ∀ s, (get t' s).ready.Nodup := fun s => g.nodup s (h s)

/-- Ready parents exist only for first slots of leader windows. -/
theorem ready_only_at_window_starts {t t' : Tracker} (g : Grow t t')
    (h : ∀ s, isWindowStart s = false → (get t s).ready = []) :
    ∀ s, isWindowStart s = false → parentsReady t' s = [] := by
  intro s hs
  rw [parentsReady_eq_get, g.nonstart s hs]; exact h s hs

theorem init_ready_empty : ∀ s, (get init s).ready = [] := by
  intro s
  simp only [get, init]
  split <;> rfl

/-- "a waiter registered for s is woken with a ready parent": when the first parent becomes ready for a slot with a
    registered waiter, exactly that parent is sent to the waiter, the waiter is deregistered and the parent is the
    slot's ready list. -/
theorem waiter_woken_with_ready_parent {t : Tracker} {s : Nat} {id : Nat × Nat} {t' : Tracker} {w : List Wake}
    (h : addToReady t s id = some (t', w)) (hw : (get t s).waiter = true) (hr : (get t s).ready = []) :
    w = [(s, id)] ∧ (get t' s).waiter = false ∧ (get t' s).ready = [id] := addToReady_wakes h hw hr

/-- `wait_for_parent_ready` answers immediately exactly when a parent is ready, with a member of the ready list ... -/
theorem wait_ready_is_member {t : Tracker} {s : Nat} {t' : Tracker} {b : Nat × Nat}
    (h : waitForParentReady t s = .ready t' b) : b ∈ parentsReady t s := by
  unfold waitForParentReady at h
  simp only at h
  split at h
  · rename_i b' rest hs
    cases h
    rw [parentsReady_eq_get, ← mem_sortBlocks, hs]; simp
  · split at h <;> cases h

/-- ... and registers a waiter only when none is ready. -/
theorem wait_registers_only_if_not_ready {t : Tracker} {s : Nat} {t' : Tracker}
    (h : waitForParentReady t s = .waiting t') : parentsReady t s = [] ∧ (get t' s).waiter = true := by
  unfold waitForParentReady at h
  simp only at h
  split at h
  · cases h
  · rename_i hs
    split at h
    · cases h
    · cases h
      refine ⟨?_, by rw [get_put_same]⟩
      rw [parentsReady_eq_get]
      cases hr : (get t s).ready with
      | nil => rfl
      | cons x xs =>
        have : x ∈ sortBlocks (get t s).ready := mem_sortBlocks.mpr (by rw [hr]; simp)
        rw [hs] at this; cases this

/-- Marks for pruned (decided) slots are ignored: nothing is re-created, nothing is announced again. -/
theorem below_root_ignored_nf (t : Tracker) (id : Nat × Nat) (h : id.1 < t.root) :
    markNotarFallback t id = some (t, [], []) := by
  unfold markNotarFallback; simp [h]

theorem below_root_ignored_skip (t : Tracker) (ms : Nat) (h : ms < t.root) :
    markSkipped t ms = some (t, [], []) := by
  unfold markSkipped; simp [h]

/-- "discarding decided slots never causes a pair to be lost": `prune` changes no answer at or above the new root,
    and retains nothing below it. -/
theorem prune_loses_nothing (t : Tracker) (r s : Nat) :
    (r ≤ s → parentsReady (prune t r) s = parentsReady t s ∧ get (prune t r) s = get t s) ∧
    (s < r → (prune t r).states s = none) := by
  constructor
  · intro h
    have : ¬ s < r := by omega
    simp [parentsReady, prune, get, this]
  · intro h; simp [prune, h]

/-! ### concrete runs (evaluated by the kernel) -/

def announcedBy (ops : List (Tracker → Res)) : Option (List (List (Nat × (Nat × Nat)))) :=
  (ops.foldl (fun acc op => acc.bind (fun (t, l) => (op t).map (fun r => (r.1, l ++ [r.2.1])))) (some (init, []))).map (·.2)

/-- out-of-order skips (the repository's `out_of_order_skips` test): skip 3, skip 2, notar-fallback (1,7), skip 1 -/
example : announcedBy [(markSkipped · 3), (markSkipped · 2), (markNotarFallback · (1, 7)), (markSkipped · 1)] =
    some [[], [], [(4, (1, 7))], [(4, (0, 0))]] := by decide

/-- two fully skipped windows: one mark announces the parent for both window starts; re-delivery announces nothing -/
example : announcedBy [(markSkipped · 7), (markSkipped · 6), (markSkipped · 5), (markSkipped · 4), (markSkipped · 3),
      (markSkipped · 2), (markNotarFallback · (1, 7)), (markNotarFallback · (1, 7)), (markSkipped · 4)] =
    some [[], [], [], [], [], [], [(4, (1, 7)), (8, (1, 7))], [], []] := by decide

/-- a finalization batch keeps only its highest pair -/
example : announcedBy [(markSkipped · 4), (markSkipped · 5), (markSkipped · 6), (markSkipped · 7),
      (handleFinalization · ⟨some (3, 9), [(2, 8)], []⟩)] = some [[], [], [], [], [(8, (3, 9))]] := by decide

/-! ## Whole runs: exactness (`ready_iff`), panic-freedom, announcements at most once

Operation sequences over the tracker from `init`, with the ghost history `hist ops` of the marks the tracker
*accepted* (`Proofs/ParentReadyExact.lean`: a mark for a slot below the root at the time of the call is ignored by the
code and is not recorded). -/

/-! The operations `Op`, `run`, the ghost history `hist`, the premise `SafeRun` and the induction over a run
    (`reach_inv`, invariant `RInv`) are in `Proofs/ParentReadyRun.lean`. -/

/-- **Every run that respects the premise keeps the invariant** (in particular never hits the `assert!` of
    `add_to_ready`); the only possible panic is a second waiter for a slot. -/
theorem reach (ops : List Op) (hs : SafeRun ops) :
    (∃ st, run ops = .ok st ∧ RInv ops st) ∨ (run ops = .error .waiterAssert ∧ ¬ (waitSlots ops).Nodup) :=
  reach_inv ops hs

/-! ### the property theorems over whole runs -/

/-- **`ready_iff` (exactness).**  In every state reached by a run that respects the premise on pruning, for every first
    slot `s` of a leader window at or above the root and every block `b = (ps, h)`:
    `b` is answered by `parents_ready(s)` **iff** `ps < s`, `b` was accepted as notar-fallback / finalized mark (genesis
    counts) and every slot strictly between `ps` and `s` was accepted as skip mark — whatever the order of arrival,
    however marks, finalization events, waits and prunes are interleaved. -/
theorem ready_iff {ops : List Op} {st : RunState} (hs : SafeRun ops) (hrun : run ops = .ok st)
    {s : Nat} (hroot : (hist ops).root ≤ s) (hws : isWindowStart s = true) (b : Nat × Nat) :
    b ∈ parentsReady st.t s ↔ b.1 < s ∧ b ∈ (hist ops).nf ∧ ∀ u, b.1 < u → u < s → u ∈ (hist ops).sk := by
  rcases reach ops hs with ⟨st', hrun', ri⟩ | ⟨herr, _⟩
  · rw [hrun] at hrun'; cases hrun'
    rw [parentsReady_eq_get, ri.inv.ready s b hroot]
    exact ⟨fun h => h.2, fun h => ⟨hws, h⟩⟩
  · rw [hrun] at herr; cases herr

/-- … and slots that are not the first of a window, and pruned slots, have no ready parents. -/
theorem ready_only_for_live_window_starts {ops : List Op} {st : RunState} (hs : SafeRun ops) (hrun : run ops = .ok st)
    {s : Nat} (h : isWindowStart s = false ∨ s < (hist ops).root) : parentsReady st.t s = [] := by
  rcases reach ops hs with ⟨st', hrun', ri⟩ | ⟨herr, _⟩
  · rw [hrun] at hrun'; cases hrun'
    rw [parentsReady_eq_get]
    by_cases hr : s < (hist ops).root
    · exact ri.inv.low s hr
    · rcases h with h | h
      · apply List.eq_nil_iff_forall_not_mem.mpr
        intro p hp
        have := ((ri.inv.ready s p (by omega)).mp hp).1
        rw [h] at this; cases this
      · exact absurd h hr
  · rw [hrun] at herr; cases herr

/-- the tracker's root is the last prune root -/
theorem run_root {ops : List Op} {st : RunState} (hs : SafeRun ops) (hrun : run ops = .ok st) :
    st.t.root = (hist ops).root := by
  rcases reach ops hs with ⟨st', hrun', ri⟩ | ⟨herr, _⟩
  · rw [hrun] at hrun'; cases hrun'; exact ri.inv.root
  · rw [hrun] at herr; cases herr

/-- **No panic in `add_to_ready`**: no operation of any run that respects the premise hits
    `assert!(!ready_ids.contains(&id))` (nor runs a forward loop out of fuel: `fwd_exact` shows the loops end by
    `break`). -/
theorem run_never_panics {ops : List Op} (hs : SafeRun ops) : run ops ≠ .error .readyAssert := by
  rcases reach ops hs with ⟨st', hrun', _⟩ | ⟨herr, _⟩
  · rw [hrun']; intro h; cases h
  · rw [herr]; intro h; cases h

/-- … and when `wait_for_parent_ready` is called at most once per slot (the block producer waits once per window) no
    operation panics at all. -/
theorem run_ok_of_single_waits {ops : List Op} (hs : SafeRun ops) (hw : (waitSlots ops).Nodup) :
    ∃ st, run ops = .ok st := by
  rcases reach ops hs with ⟨st', hrun', _⟩ | ⟨_, hnd⟩
  · exact ⟨st', hrun'⟩
  · exact absurd hw hnd

/-- **Each `(s, b)` pair is announced at most once over a whole run**: the concatenation of the announcement lists of
    all operations (certificate paths and finalization batches; pruning in between) has no duplicate. -/
theorem announced_once {ops : List Op} {st : RunState} (hs : SafeRun ops) (hrun : run ops = .ok st) : st.ann.Nodup := by
  rcases reach ops hs with ⟨st', hrun', ri⟩ | ⟨herr, _⟩
  · rw [hrun] at hrun'; cases hrun'; exact ri.annNodup
  · rw [hrun] at herr; cases herr

/-- … and an announced pair stays answered by the query until its slot is pruned. -/
theorem announced_stays_ready {ops : List Op} {st : RunState} (hs : SafeRun ops) (hrun : run ops = .ok st)
    {s : Nat} {b : Nat × Nat} (ha : (s, b) ∈ st.ann) (hroot : (hist ops).root ≤ s) : b ∈ parentsReady st.t s := by
  rcases reach ops hs with ⟨st', hrun', ri⟩ | ⟨herr, _⟩
  · rw [hrun] at hrun'; cases hrun'; rw [parentsReady_eq_get]; exact ri.annReady s b ha hroot
  · rw [hrun] at herr; cases herr

/-- **Announcements are complete on the certificate paths**: after any run, `mark_notar_fallback` / `mark_skipped`
    announce *exactly* the pairs that enter a ready list in that very step.  (`handle_finalization` deliberately
    announces only one highest-slot pair of its batch — `finalization_announces_highest` — so there only `⊆` holds:
    `announce_subset_query_finalization`.) -/
theorem announce_exact_on_certificate_paths {ops : List Op} {st : RunState} {op : Op}
    (hs : SafeRun (ops ++ [op])) (hrun : run ops = .ok st) (hop : (∃ b, op = .nf b) ∨ (∃ s, op = .skip s)) :
    ∃ t' ann w, applyOp st.t op = .ok (t', ann, w) ∧
      ∀ s p, (s, p) ∈ ann ↔ p ∈ parentsReady t' s ∧ p ∉ parentsReady st.t s := by
  rcases reach ops hs.prefix with ⟨st', hrun', ri⟩ | ⟨herr, _⟩
  · rw [hrun] at hrun'; cases hrun'
    have hok := hs.rootOK
    rw [hist_snoc] at hok
    rcases hop with ⟨b, rfl⟩ | ⟨ms, rfl⟩
    · obtain ⟨t', a, w, e, _, stp, hex⟩ := nf_step ri.inv b
      refine ⟨t', a, w, by simp only [applyOp, e], fun s p => ?_⟩
      rw [parentsReady_eq_get, parentsReady_eq_get]
      exact ⟨fun h => (stp.annNew s p h).2, fun h => hex s p h.1 h.2⟩
    · obtain ⟨t', a, w, e, _, stp, hex⟩ := skip_step ri.inv ms hok
      refine ⟨t', a, w, by simp only [applyOp, e], fun s p => ?_⟩
      rw [parentsReady_eq_get, parentsReady_eq_get]
      exact ⟨fun h => (stp.annNew s p h).2, fun h => hex s p h.1 h.2⟩
  · rw [hrun] at herr; cases herr

/-- A registered waiter means that no parent is ready for its slot yet. -/
theorem waiter_means_not_ready {ops : List Op} {st : RunState} (hs : SafeRun ops) (hrun : run ops = .ok st)
    {s : Nat} (hw : (get st.t s).waiter = true) : parentsReady st.t s = [] := by
  rcases reach ops hs with ⟨st', hrun', ri⟩ | ⟨herr, _⟩
  · rw [hrun] at hrun'; cases hrun'; rw [parentsReady_eq_get]; exact ri.inv.waiter s hw
  · rw [hrun] at herr; cases herr

/-- **A waiter registered for `s` is woken exactly by the first parent that becomes ready for `s`**: after any run, a mark
    operation (certificate or finalization batch) sends `b` to the waiter of `s` iff a waiter is registered for `s` and
    `b` is the first entry of the ready list of `s` afterwards (the list was empty before: `waiter_means_not_ready`);
    the waiter stays registered exactly when the list is still empty. -/
theorem waiter_woken_by_first_ready {ops : List Op} {st : RunState} {op : Op}
    (hs : SafeRun (ops ++ [op])) (hrun : run ops = .ok st)
    (hop : (∃ b, op = .nf b) ∨ (∃ s, op = .skip s) ∨ (∃ ev, op = .fin ev)) :
    ∃ t' ann w, applyOp st.t op = .ok (t', ann, w) ∧
      (∀ s b, (s, b) ∈ w ↔ (get st.t s).waiter = true ∧ (parentsReady t' s).head? = some b) ∧
      (∀ s, (get t' s).waiter = true ↔ (get st.t s).waiter = true ∧ parentsReady t' s = []) := by
  rcases reach ops hs.prefix with ⟨st', hrun', ri⟩ | ⟨herr, _⟩
  · rw [hrun] at hrun'; cases hrun'
    have hok := hs.rootOK
    rw [hist_snoc] at hok
    rcases hop with ⟨b, rfl⟩ | ⟨ms, rfl⟩ | ⟨ev, rfl⟩
    · obtain ⟨t', a, w, e, _, stp, _⟩ := nf_step ri.inv b
      exact ⟨t', a, w, by simp only [applyOp, e], fun s p => by rw [parentsReady_eq_get]; exact stp.wake s p,
        fun s => by rw [parentsReady_eq_get]; exact stp.waiter s⟩
    · obtain ⟨t', a, w, e, _, stp, _⟩ := skip_step ri.inv ms hok
      exact ⟨t', a, w, by simp only [applyOp, e], fun s p => by rw [parentsReady_eq_get]; exact stp.wake s p,
        fun s => by rw [parentsReady_eq_get]; exact stp.waiter s⟩
    · obtain ⟨t', a, w, e, _, stp⟩ := fin_step ri.inv ev hok
      exact ⟨t', a, w, by simp only [applyOp, e], fun s p => by rw [parentsReady_eq_get]; exact stp.wake s p,
        fun s => by rw [parentsReady_eq_get]; exact stp.waiter s⟩
  · rw [hrun] at herr; cases herr

/-! ### the premise: a syntactic sufficient form, necessity, non-vacuity -/


/-- The premise in its plain syntactic form implies `SafeRun`: the prune roots are monotone and no slot that is ever
    used as a prune root is ever submitted as a skip mark (directly or by a finalization event), before or after. -/
theorem safeRun_of_roots_never_skipped {ops : List Op} (hmono : (pruneArgs ops).Pairwise (· ≤ ·))
    (hns : ∀ r ∈ pruneArgs ops, r ∉ skipArgs ops) : SafeRun ops :=
  ⟨hist_mono_of_sorted ops hmono, fun r hr => Or.inr (fun hm => hns r ((hist_roots ops).1 r hr) (hist_sk_sub ops r hm))⟩

/-! ### order independence -/

/-- all blocks ever submitted as notar-fallback marks (directly or by a finalization event) -/
def nfArgs (ops : List Op) : List (Nat × Nat) :=
  ops.flatMap (fun | .nf b => [b] | .fin ev => ev.finalized.toList ++ ev.implFinalized | _ => [])

theorem mem_foldl_nfMark0 {bs : List (Nat × Nat)} {h : Hist} (hr : h.root = 0) (x : Nat × Nat) :
    x ∈ (bs.foldl Hist.nfMark h).nf ↔ x ∈ h.nf ∨ x ∈ bs := by
  induction bs generalizing h with
  | nil => simp
  | cons b bs ih =>
    have e : h.nfMark b = h.addNf b := by unfold Hist.nfMark; rw [hr, if_neg (Nat.not_lt_zero _)]
    rw [List.foldl_cons, e, ih (h := h.addNf b) hr]
    simp only [Hist.addNf, List.mem_cons]
    constructor
    · rintro ((a | a) | a)
      · exact Or.inr (Or.inl a)
      · exact Or.inl a
      · exact Or.inr (Or.inr a)
    · rintro (a | a | a)
      · exact Or.inl (Or.inr a)
      · exact Or.inl (Or.inl a)
      · exact Or.inr a

theorem mem_foldl_skMark0 {ss : List Nat} {h : Hist} (hr : h.root = 0) (x : Nat) :
    x ∈ (ss.foldl Hist.skMark h).sk ↔ x ∈ h.sk ∨ x ∈ ss := by
  induction ss generalizing h with
  | nil => simp
  | cons b bs ih =>
    have e : h.skMark b = h.addSk b := by unfold Hist.skMark; rw [hr, if_neg (Nat.not_lt_zero _)]
    rw [List.foldl_cons, e, ih (h := h.addSk b) hr]
    simp only [Hist.addSk, List.mem_cons]
    constructor
    · rintro ((a | a) | a)
      · exact Or.inr (Or.inl a)
      · exact Or.inl a
      · exact Or.inr (Or.inr a)
    · rintro (a | a | a)
      · exact Or.inl (Or.inr a)
      · exact Or.inl (Or.inl a)
      · exact Or.inr a

theorem pruneArgs_snoc_nil {ops : List Op} {op : Op} (h : pruneArgs (ops ++ [op]) = []) :
    pruneArgs ops = [] ∧ ∀ r, op ≠ .prune r := by
  unfold pruneArgs at *
  rw [List.flatMap_append, List.append_eq_nil_iff] at h
  refine ⟨h.1, fun r e => ?_⟩
  subst e
  simp at h

/-- without pruning every mark is accepted: the history is the set of submitted marks (plus genesis) -/
theorem hist_of_no_prune (ops : List Op) (hp : pruneArgs ops = []) :
    (hist ops).root = 0 ∧ (hist ops).roots = [] ∧ (hist ops).mono = true ∧
    (∀ b, b ∈ (hist ops).nf ↔ b = (0, 0) ∨ b ∈ nfArgs ops) ∧ (∀ u, u ∈ (hist ops).sk ↔ u ∈ skipArgs ops) := by
  induction ops using snoc_induction with
  | nil => exact ⟨rfl, rfl, rfl, fun b => by simp [hist, nfArgs], fun u => by simp [hist, skipArgs]⟩
  | snoc ops op ih =>
    obtain ⟨hp', hnp⟩ := pruneArgs_snoc_nil hp
    obtain ⟨i1, i2, i3, i4, i5⟩ := ih hp'
    rw [hist_snoc]
    have hn : nfArgs (ops ++ [op]) = nfArgs ops ++ nfArgs [op] := by unfold nfArgs; rw [List.flatMap_append]
    have hk : skipArgs (ops ++ [op]) = skipArgs ops ++ skipArgs [op] := by unfold skipArgs; rw [List.flatMap_append]
    simp only [hn, hk, List.mem_append]
    cases op with
    | nf b =>
      obtain ⟨a1, a2, a3, a4⟩ := nfMark_same (hist ops) b
      refine ⟨a1.trans i1, a3.trans i2, a4.trans i3, fun x => ?_, fun u => ?_⟩
      · have := @mem_foldl_nfMark0 [b] _ i1 x
        simp only [List.foldl_cons, List.foldl_nil] at this
        rw [Hist.step, this, i4]
        simp [nfArgs, or_assoc]
      · rw [Hist.step, a2, i5]; simp [skipArgs]
    | skip s =>
      obtain ⟨a1, a3, a4⟩ := skMark_same (hist ops) s
      refine ⟨a1.trans i1, a3.trans i2, a4.trans i3, fun x => ?_, fun u => ?_⟩
      · have e : (hist ops).skMark s = (hist ops).addSk s := by unfold Hist.skMark; rw [i1, if_neg (Nat.not_lt_zero _)]
        rw [Hist.step, e]
        show x ∈ (hist ops).nf ↔ _
        rw [i4]; simp [nfArgs]
      · have := @mem_foldl_skMark0 [s] _ i1 u
        simp only [List.foldl_cons, List.foldl_nil] at this
        rw [Hist.step, this, i5]
        simp [skipArgs]
    | fin ev =>
      obtain ⟨a1, a3, a4⟩ := finMark_same (hist ops) ev
      obtain ⟨b1, b2, _, _⟩ := foldl_nfMark_same (ev.finalized.toList ++ ev.implFinalized) (hist ops)
      refine ⟨a1.trans i1, a3.trans i2, a4.trans i3, fun x => ?_, fun u => ?_⟩
      · have e : ((hist ops).finMark ev).nf = ((ev.finalized.toList ++ ev.implFinalized).foldl Hist.nfMark (hist ops)).nf := by
          unfold Hist.finMark
          generalize (ev.finalized.toList ++ ev.implFinalized).foldl Hist.nfMark (hist ops) = h0
          induction ev.implSkipped generalizing h0 with
          | nil => rfl
          | cons s ss ihs =>
            rw [List.foldl_cons, ihs]
            unfold Hist.skMark; split <;> rfl
        rw [Hist.step, e, mem_foldl_nfMark0 i1, i4]
        simp [nfArgs, or_assoc]
      · rw [Hist.step, Hist.finMark, mem_foldl_skMark0 (b1.trans i1), b2, i5]
        simp [skipArgs]
    | prune r => exact absurd rfl (hnp r)
    | wait s =>
      refine ⟨i1, i2, i3, fun x => ?_, fun u => ?_⟩
      · rw [Hist.step, i4]; simp [nfArgs]
      · rw [Hist.step, i5]; simp [skipArgs]

theorem safeRun_of_no_prune {ops : List Op} (hp : pruneArgs ops = []) : SafeRun ops := by
  obtain ⟨_, h2, h3, _⟩ := hist_of_no_prune ops hp
  exact ⟨h3, fun r hr => by rw [h2] at hr; cases hr⟩

/-- **Order independence** ("whatever order the certificates arrive in"): two runs whose accepted marks are the same
    *sets* answer every query at or above both roots identically. -/
theorem order_independent {ops ops' : List Op} {st st' : RunState} (hs : SafeRun ops) (hs' : SafeRun ops')
    (hrun : run ops = .ok st) (hrun' : run ops' = .ok st')
    (hnf : ∀ b, b ∈ (hist ops).nf ↔ b ∈ (hist ops').nf) (hsk : ∀ u, u ∈ (hist ops).sk ↔ u ∈ (hist ops').sk)
    {s : Nat} (hr : (hist ops).root ≤ s) (hr' : (hist ops').root ≤ s) (hws : isWindowStart s = true) (b : Nat × Nat) :
    b ∈ parentsReady st.t s ↔ b ∈ parentsReady st'.t s := by
  rw [ready_iff hs hrun hr hws, ready_iff hs' hrun' hr' hws, hnf]
  constructor
  · rintro ⟨a, c, d⟩; exact ⟨a, c, fun u x y => (hsk u).mp (d u x y)⟩
  · rintro ⟨a, c, d⟩; exact ⟨a, c, fun u x y => (hsk u).mpr (d u x y)⟩

/-- … in particular any two orders (permutations) of the same marks, finalization events and waits (no pruning in
    between) give the same ready parents for every window start — or one of them ran into a second waiter. -/
theorem order_independent_perm {ops ops' : List Op} {st st' : RunState} (hperm : ops.Perm ops')
    (hp : pruneArgs ops = []) (hrun : run ops = .ok st) (hrun' : run ops' = .ok st')
    {s : Nat} (hws : isWindowStart s = true) (b : Nat × Nat) :
    b ∈ parentsReady st.t s ↔ b ∈ parentsReady st'.t s := by
  have hp' : pruneArgs ops' = [] := by
    unfold pruneArgs at *
    rw [List.flatMap_eq_nil_iff] at *
    exact fun x hx => hp x (hperm.mem_iff.mpr hx)
  obtain ⟨r1, _, _, n1, k1⟩ := hist_of_no_prune ops hp
  obtain ⟨r2, _, _, n2, k2⟩ := hist_of_no_prune ops' hp'
  refine order_independent (safeRun_of_no_prune hp) (safeRun_of_no_prune hp') hrun hrun' ?_ ?_
    (by omega) (by omega) hws b
  · intro x
    rw [n1, n2]
    unfold nfArgs
    simp only [List.mem_flatMap]
    exact ⟨fun h => h.imp id (fun ⟨a, ha, hx⟩ => ⟨a, hperm.mem_iff.mp ha, hx⟩),
      fun h => h.imp id (fun ⟨a, ha, hx⟩ => ⟨a, hperm.mem_iff.mpr ha, hx⟩)⟩
  · intro x
    rw [k1, k2]
    unfold skipArgs
    simp only [List.mem_flatMap]
    exact ⟨fun ⟨a, ha, hx⟩ => ⟨a, hperm.mem_iff.mp ha, hx⟩, fun ⟨a, ha, hx⟩ => ⟨a, hperm.mem_iff.mpr ha, hx⟩⟩

def outcome (ops : List Op) : Option Panic := match run ops with | .ok _ => none | .error e => some e
def queryOf (ops : List Op) (s : Nat) : Option (List (Nat × Nat)) :=
  match run ops with | .ok st => some (parentsReady st.t s) | .error _ => none
def annOf (ops : List Op) : Option (List (Nat × (Nat × Nat))) :=
  match run ops with | .ok st => some st.ann | .error _ => none
def wakesOfRun (ops : List Op) : Option (List Wake) :=
  match run ops with | .ok st => some st.wakes | .error _ => none

/-- **The premise is necessary (1a)**: a slot is skip-marked and later used as prune root (slot 2, inside a window).
    The run is fine otherwise (monotone roots, no panic), block (1,7) is connected to window start 4 in the accepted
    history (skips 2, 3), but the backward walk of `mark_skipped(3)` is cut at the root: `parents_ready(4)` is empty. -/
theorem ready_iff_fails_if_skipped_slot_becomes_root :
    let ops : List Op := [.nf (1, 7), .skip 2, .prune 2, .skip 3]
    ¬ SafeRun ops ∧ (hist ops).mono = true ∧ (hist ops).root ≤ 4 ∧
      queryOf ops 4 = some [] ∧ Connected (hist ops) 4 (1, 7) := by decide

/-- **The premise is necessary (1b)**: … and likewise when the prune root is skip-marked *afterwards*. -/
theorem ready_iff_fails_if_root_is_skipped_later :
    let ops : List Op := [.nf (1, 7), .prune 2, .skip 2, .skip 3]
    ¬ SafeRun ops ∧ (hist ops).mono = true ∧ (hist ops).root ≤ 4 ∧
      queryOf ops 4 = some [] ∧ Connected (hist ops) 4 (1, 7) := by decide

/-- **The premise is necessary (2)**: prune roots that go backwards re-open decided slots; a re-delivered mark then hits
    `assert!(!ready_ids.contains(&id))` … -/
theorem panic_if_prune_roots_decrease :
    outcome [.nf (3, 9), .prune 4, .prune 0, .nf (3, 9)] = some .readyAssert := by decide

/-- … and the query is not exact either (the ready list of slot 4 is gone, the history still connects (1,7) to it). -/
theorem ready_iff_fails_if_prune_roots_decrease :
    let ops : List Op := [.nf (1, 7), .skip 2, .skip 3, .prune 8, .prune 0]
    ¬ SafeRun ops ∧ (hist ops).root ≤ 4 ∧ queryOf ops 4 = some [] ∧ Connected (hist ops) 4 (1, 7) := by decide

/-- The exemption of window starts in `SafeRun` is real (so `SafeRun` is strictly weaker than the syntactic premise):
    slot 4 is skip-marked *and* used as prune root; the tracker stays exact — block (3,9) reaches window start 8 through
    the retained ready list of slot 4. -/
example :
    let ops : List Op := [.nf (3, 9), .skip 4, .prune 4, .skip 5, .skip 6, .skip 7]
    SafeRun ops ∧ 4 ∈ pruneArgs ops ∧ 4 ∈ skipArgs ops ∧ queryOf ops 8 = some [(3, 9)] ∧ Connected (hist ops) 8 (3, 9) := by
  decide

/-- **Non-vacuity**: a run over four windows with out-of-order skips, two waiters, a finalization event and two prunes in
    the middle (to slot 5 inside a window, then to slot 9); marks below the root (skip 4, skip 8) are ignored.  The
    premise holds (also in its syntactic form), nothing panics, four pairs are announced (each once), both waiters
    are woken by the first parent of their window. -/
def demoRun : List Op :=
  [.nf (1, 7), .skip 2, .wait 4, .skip 3, .wait 8, .nf (5, 3), .prune 5, .skip 4, .skip 7, .skip 6, .nf (5, 2),
   .fin ⟨some (9, 1), [(8, 6)], []⟩, .skip 11, .skip 10, .wait 12, .prune 9, .skip 8, .nf (9, 4)]

example : SafeRun demoRun ∧ (pruneArgs demoRun).Pairwise (· ≤ ·) ∧ (∀ r ∈ pruneArgs demoRun, r ∉ skipArgs demoRun) ∧
    (waitSlots demoRun).Nodup ∧ outcome demoRun = none ∧
    annOf demoRun = some [(4, (1, 7)), (8, (5, 3)), (8, (5, 2)), (12, (9, 1)), (12, (9, 4))] ∧
    wakesOfRun demoRun = some [(4, (1, 7)), (8, (5, 3))] ∧
    queryOf demoRun 12 = some [(9, 1), (9, 4)] ∧ (hist demoRun).root = 9 ∧
    Connected (hist demoRun) 12 (9, 4) ∧ ¬ Connected (hist demoRun) 12 (8, 6) := by decide

end AgModel.ParentReady

/-! ## Pool-level wiring (`PoolImpl`): which certificate triggers which mark, pruning only at safe roots

Model: `AgModel.Pool` (`Model/Pool.lean`: `add_vote`, `add_cert`, `add_valid_cert`, `handle_finalization`, `prune`,
`add_block` with both trackers inside).  Helper lemmas: `Proofs/PoolWiring.lean`.

* the **ghost log** `poolLog p ops` of a pool run: the block registrations and the `CertCreated` events (one per
  `add_valid_cert`), in order — observable from the outside;
* `finOps L` : the operations the finality tracker received; `prTrace L` : the operations the parent-ready
  tracker received (`mark_notar_fallback` for notarization / notar-fallback certificates, `mark_skipped` for skip
  certificates, `handle_finalization` with each event of the finality tracker, `prune` to `first_unpruned_slot`);
* **premise** `Consistent L` (decidable): `Finality.Safe (finOps L)` (C08's premise: parents in earlier slots, one
  parent per block, at most one finalized block per slot, …), no skip certificate for the slot of a **directly**
  finalized block (fast-finalization certificate, or finalization + notarization certificate), and the only
  finalized block of slot 0 is genesis (explicit since the D27 repair weakened `Finality.Safe`) — what
  consensus safety (C01) gives for the certificates a correct node can ever hold: **a theorem now**,
  `Cluster.cluster_pools_consistent` (`Props/C10Cluster.lean`).  (The skip clause used to exclude every `Final` block,
  also the implicitly finalized ancestors; safety does not give that — `Cluster.old_skip_premise_fails_on_valid_run` —
  and it is not needed: the prune roots are slots of directly finalized blocks, `first_direct` / `roots_direct`.)
-/
namespace AgModel.Pool
open AgModel

/-- **The consistency premise implies the premises of both tracker theorems** for the trackers inside the pool:
    `Safe` of C08 for the finality tracker's inputs and `SafeRun` of C07 for the parent-ready tracker's operations
    (the prune roots are the watermarks: monotone, genesis or the slot of a finalized block, never skip-marked). -/
theorem pool_premises {L : List LogItem} (hc : Consistent L) :
    Finality.Safe (finOps L) ∧ ParentReady.SafeRun (prTrace L) :=
  ⟨hc.safe, safeRun_prTrace hc⟩

/-- **Every reachable pool is wired**: after any sequence of votes, certificates and block registrations from the
    empty pool whose log is consistent, the pool's finality tracker is the finality tracker after `finOps L` and its
    parent-ready tracker (with the wake-ups sent so far) is the result of running `prTrace L` from
    `ParentReadyTracker::default()`. -/
theorem pool_wired (e : Epoch) (ops : List PoolOp) (hc : Consistent (poolLog { epoch := e } ops)) :
    Wired (poolRun { epoch := e } ops).1.trk (poolLog { epoch := e } ops) := by
  have := poolRun_wired ops { epoch := e } [] (Wired.init e) (by simpa using hc)
  simpa using this

/-- **`pool_marks_exact`.**  For every pool `p` reachable from the empty pool with a consistent log `L`:
    the finality tracker ran `finOps L` without panic; the parent-ready tracker ran `prTrace L` without panic; its root
    is the pool's `first_unpruned_slot`; the prune roots were monotone; and the marks it *accepted* are exactly:
    * notar-fallback mark `b`: genesis, or a notarization / notar-fallback certificate for `b` was added while `b`'s slot
      was at or above the root (`NfCertAcc`), or the finality tracker reported `b` finalized / implicitly finalized
      (= `b` is in the closure `Final` of the history, C08 `reports_exact`);
    * skip mark `s`: a skip certificate for `s` was added while `s` was at or above the root (`SkCertAcc`), or the
      finality tracker reported `s` implicitly skipped (= `Skip` of the history). -/
theorem pool_marks_exact (e : Epoch) (ops : List PoolOp) (hc : Consistent (poolLog { epoch := e } ops)) :
    ∃ fevs anns,
      Finality.run Finality.init (finOps (poolLog { epoch := e } ops)) = some ((poolRun { epoch := e } ops).1.fin, fevs) ∧
      ParentReady.run (prTrace (poolLog { epoch := e } ops)) =
        .ok ⟨(poolRun { epoch := e } ops).1.pr, anns, (poolRun { epoch := e } ops).1.wakes⟩ ∧
      (poolRun { epoch := e } ops).1.pr.root = (poolRun { epoch := e } ops).1.fin.first ∧
      (ParentReady.hist (prTrace (poolLog { epoch := e } ops))).root = (poolRun { epoch := e } ops).1.fin.first ∧
      (ParentReady.pruneArgs (prTrace (poolLog { epoch := e } ops))).Pairwise (· ≤ ·) ∧
      (∀ b, b ∈ (ParentReady.hist (prTrace (poolLog { epoch := e } ops))).nf ↔
        b = (0, 0) ∨ NfCertAcc (poolLog { epoch := e } ops) b ∨ Finality.Final (finOps (poolLog { epoch := e } ops)) b) ∧
      (∀ s, s ∈ (ParentReady.hist (prTrace (poolLog { epoch := e } ops))).sk ↔
        SkCertAcc (poolLog { epoch := e } ops) s ∨ Finality.Skip (finOps (poolLog { epoch := e } ops)) s) := by
  have w := pool_wired e ops hc
  generalize poolLog { epoch := e } ops = L at hc w ⊢
  generalize (poolRun { epoch := e } ops).1 = p at w ⊢
  obtain ⟨fevs, hrun, ti⟩ := trace_inv L hc.safe
  obtain ⟨anns, hpr⟩ := w.pr
  have hfin : finState L = p.fin := w.fin
  have ri := Finality.runInv_of_run hc.safe hrun
  have hroot : p.pr.root = p.fin.first := by
    have := ParentReady.run_root (safeRun_prTrace hc) hpr
    rw [ti.root, hfin] at this
    exact this
  refine ⟨fevs, anns, by rw [hrun, hfin], hpr, hroot, by rw [ti.root, hfin], ti.sorted, ?_, ?_⟩
  · intro b
    rw [ti.nf]
    constructor
    · rintro (a | a | a)
      · exact Or.inl a
      · exact Or.inr (Or.inl a)
      · exact Or.inr (Or.inr (ri.soundF b a))
    · rintro (a | a | a)
      · exact Or.inl a
      · exact Or.inr (Or.inl a)
      · by_cases h0 : 1 ≤ b.1
        · exact Or.inr (Or.inr ((ri.final_iff hc.safe b (Or.inl h0)).mpr a))
        · left
          have hb0 : b.1 = 0 := by omega
          have hb' : b = (0, b.2) := Prod.ext hb0 rfl
          rw [hb'] at a
          exact Prod.ext hb0 (hc.genesis b.2 a)
  · intro s
    rw [ti.sk, ri.skip_iff hc.safe]

/-- **`pool_ready_iff` (exactness of the pool's query).**  For every pool `p` reachable from the empty pool with a
    consistent log `L`, every first slot `w` of a leader window at or above `first_unpruned_slot` and every block `b`:
    `b` is answered by `parents_ready(w)` **iff** `b` is in a slot before `w`, `b` is genesis / has an accepted
    notarization or notar-fallback certificate / is finalized in the history, and every slot strictly between is
    skip-certified (accepted) or implicitly skipped by a finalization — whatever the order of arrival and however
    finalization-driven pruning was interleaved. -/
theorem pool_ready_iff (e : Epoch) (ops : List PoolOp) (hc : Consistent (poolLog { epoch := e } ops))
    {w : Nat} (hw : (poolRun { epoch := e } ops).1.fin.first ≤ w) (hws : ParentReady.isWindowStart w = true)
    (b : Nat × Nat) :
    b ∈ ParentReady.parentsReady (poolRun { epoch := e } ops).1.pr w ↔
      b.1 < w ∧
      (b = (0, 0) ∨ NfCertAcc (poolLog { epoch := e } ops) b ∨ Finality.Final (finOps (poolLog { epoch := e } ops)) b) ∧
      ∀ u, b.1 < u → u < w →
        (SkCertAcc (poolLog { epoch := e } ops) u ∨ Finality.Skip (finOps (poolLog { epoch := e } ops)) u) := by
  obtain ⟨fevs, anns, _, hpr, _, hroot, _, hnf, hsk⟩ := pool_marks_exact e ops hc
  have := @ParentReady.ready_iff _ ⟨_, anns, _⟩ (safeRun_prTrace hc) hpr w (by rw [hroot]; exact hw) hws b
  rw [this, hnf]
  constructor
  · rintro ⟨a, c, d⟩; exact ⟨a, c, fun u x y => (hsk u).mp (d u x y)⟩
  · rintro ⟨a, c, d⟩; exact ⟨a, c, fun u x y => (hsk u).mpr (d u x y)⟩

/-- … in the form without the acceptance qualifier, for blocks at or above the watermark (marks for such slots were
    never refused): certificates *in the log* and the closure of the history. -/
theorem pool_ready_iff_above (e : Epoch) (ops : List PoolOp) (hc : Consistent (poolLog { epoch := e } ops))
    {w : Nat} (hw : (poolRun { epoch := e } ops).1.fin.first ≤ w) (hws : ParentReady.isWindowStart w = true)
    (b : Nat × Nat) (hb : (poolRun { epoch := e } ops).1.fin.first ≤ b.1) :
    b ∈ ParentReady.parentsReady (poolRun { epoch := e } ops).1.pr w ↔
      b.1 < w ∧
      (b = (0, 0) ∨ (∃ c, LogItem.cert c ∈ poolLog { epoch := e } ops ∧ (c.kind = .notar ∨ c.kind = .nf) ∧ (c.slot, c.hash) = b) ∨
        Finality.Final (finOps (poolLog { epoch := e } ops)) b) ∧
      ∀ u, b.1 < u → u < w →
        (SkipCertIn (poolLog { epoch := e } ops) u ∨ Finality.Skip (finOps (poolLog { epoch := e } ops)) u) := by
  have hfs : finState (poolLog { epoch := e } ops) = (poolRun { epoch := e } ops).1.fin := (pool_wired e ops hc).fin
  rw [pool_ready_iff e ops hc hw hws b, nfCertAcc_above hc.safe (by rw [hfs]; exact hb)]
  constructor
  · rintro ⟨a, c, d⟩
    exact ⟨a, c, fun u x y => (d u x y).imp (skCertAcc_above hc.safe (by rw [hfs]; omega)).mp id⟩
  · rintro ⟨a, c, d⟩
    exact ⟨a, c, fun u x y => (d u x y).imp (skCertAcc_above hc.safe (by rw [hfs]; omega)).mpr id⟩

/-- **`pool_pr_never_panics`.**  In every pool run with a consistent log the parent-ready tracker never hits
    `assert!(!ready_ids.contains(&id))` (nor any other panic): the sequence `prTrace L` of *all* calls the pool made
    to it (by `pool_wired` the tracker state is the result of exactly these calls) ran to the end, and it satisfies the
    premise `SafeRun` of the tracker theorems, so that all of C07 (`ready_iff`, `announced_once`, …) applies to it. -/
theorem pool_pr_never_panics (e : Epoch) (ops : List PoolOp) (hc : Consistent (poolLog { epoch := e } ops)) :
    ParentReady.SafeRun (prTrace (poolLog { epoch := e } ops)) ∧
    (∀ x, ParentReady.run (prTrace (poolLog { epoch := e } ops)) ≠ .error x) ∧
    ∃ anns, ParentReady.run (prTrace (poolLog { epoch := e } ops)) =
      .ok ⟨(poolRun { epoch := e } ops).1.pr, anns, (poolRun { epoch := e } ops).1.wakes⟩ ∧ anns.Nodup := by
  obtain ⟨anns, hpr⟩ := (pool_wired e ops hc).pr
  refine ⟨safeRun_prTrace hc, fun x hx => (by rw [hpr] at hx; cases hx), anns, hpr, ?_⟩
  exact ParentReady.announced_once (safeRun_prTrace hc) hpr

/-- **`pool_never_panics`.**  A pool run with a consistent log whose votes name validator indices (signature validation)
    emits no `Event.panic` at all: with C06 `pool_panic_only_from_trackers` (every `.panic` comes from the finality tracker,
    the parent-ready tracker, the signer bound of `add_vote` or `add_block`'s assertions) and the two tracker theorems
    (`Wired`, `fin_item_ok`, `pr_item_ok`) every one of these sites is unreachable — in particular `add_block`'s
    `assert!(block_id.0 > parent_id.0)` (`Safe.link_lt` on the logged registration). -/
theorem pool_never_panics (e : Epoch) (ops : List PoolOp) (hc : Consistent (poolLog { epoch := e } ops))
    (hsig : ∀ v, PoolOp.vote v ∈ ops → v.signer < e.n) : Event.panic ∉ (poolRun { epoch := e } ops).2 :=
  poolRun_no_panic e ops hc hsig

/-- **No tracker panic, step by step.**  In a reachable pool with consistent log `L`, for every next log item `it`
    (a certificate passed to `add_valid_cert`, or a block registration) that keeps the log consistent: the finality
    operation it triggers does not panic, and none of the calls it makes to the parent-ready tracker does (the whole
    trace, which ends with exactly these calls, runs to the end).  In the pool these are the only sources of the `panic`
    events of `handle_finalization` / `applyPr` (`handleFin_panic_iff`, `applyPr_panic_iff`). -/
theorem pool_trackers_never_panic (e : Epoch) (ops : List PoolOp) (it : LogItem)
    (hc : Consistent (poolLog { epoch := e } ops ++ [it])) :
    (∀ op ∈ it.finOp, ∃ t ev, Finality.step (poolRun { epoch := e } ops).1.fin op = .ok t ev) ∧
    ∃ st, ParentReady.run (prTrace (poolLog { epoch := e } ops) ++
        (itemStep (poolRun { epoch := e } ops).1.fin it).2) = .ok st ∧
      st.t = ((poolRun { epoch := e } ops).1.trk.item it).pr := by
  have w := pool_wired e ops hc.prefix
  refine ⟨fin_item_ok w it hc, ?_⟩
  obtain ⟨anns, hpr⟩ := (w.item it hc).pr
  rw [prTrace_snoc, w.fin] at hpr
  exact ⟨_, hpr, rfl⟩

/-! ### the premise: non-vacuity, necessity -/

def demoEpoch : Epoch := { stakes := [1, 1, 1, 1, 1], own := 0 }
def demoCert (k : CertKind) (s h : Nat) : Cert := ⟨k, s, h, [0, 1, 2, 3], [], 4⟩

/-- **Non-vacuity**: certificates, votes (three skip votes create the skip certificate of slot 3 inside the pool) and
    block registrations over two windows, out of order, with a slow finalization (notarization + finalization
    certificate) that moves the watermark to 1 and a fast finalization that moves it to 5. -/
def demoPoolOps : List PoolOp :=
  [.cert (demoCert .skip 2 0), .cert (demoCert .notar 1 7), .block (1, 7) (0, 0), .vote ⟨.skip, 3, 0, 0⟩,
   .vote ⟨.skip, 3, 0, 1⟩, .vote ⟨.skip, 3, 0, 2⟩, .cert (demoCert .final 1 0), .cert (demoCert .nf 5 3),
   .block (5, 3) (1, 7), .cert (demoCert .skip 6 0), .cert (demoCert .ff 5 3), .cert (demoCert .skip 7 0),
   .cert (demoCert .skip 4 0)]

example : Consistent (poolLog { epoch := demoEpoch } (demoPoolOps.take 8)) ∧
    (poolLog { epoch := demoEpoch } (demoPoolOps.take 8)).length = 6 ∧
    (poolRun { epoch := demoEpoch } (demoPoolOps.take 8)).1.fin.first = 1 ∧
    ParentReady.parentsReady (poolRun { epoch := demoEpoch } (demoPoolOps.take 8)).1.pr 4 = [(1, 7)] := by decide

example : Consistent (poolLog { epoch := demoEpoch } demoPoolOps) ∧
    (poolRun { epoch := demoEpoch } demoPoolOps).1.fin.first = 5 ∧
    ParentReady.parentsReady (poolRun { epoch := demoEpoch } demoPoolOps).1.pr 8 = [(5, 3)] ∧
    Event.panic ∉ (poolRun { epoch := demoEpoch } demoPoolOps).2 := by decide

/-- **The premise "no skip certificate for a directly finalized slot" is necessary**: block (2,9) is fast-finalized (watermark
    2, parent-ready root 2) although slot 2 is skip-certified; the finality tracker's own premise `Safe` holds and
    nothing panics.  The skip certificate of slot 3 then walks back only to the root: `parents_ready(4)` lacks (1,7)
    although the accepted marks connect it to slot 4 (`ready_iff` fails for the pool). -/
theorem pool_ready_iff_needs_skip_premise :
    let ops : List PoolOp := [.cert (demoCert .notar 1 7), .block (1, 7) (0, 0), .block (2, 9) (1, 7),
      .cert (demoCert .skip 2 0), .cert (demoCert .ff 2 9), .cert (demoCert .skip 3 0)]
    let L := poolLog { epoch := demoEpoch } ops
    let p := (poolRun { epoch := demoEpoch } ops).1
    ¬ Consistent L ∧ Finality.Safe (finOps L) ∧ Event.panic ∉ (poolRun { epoch := demoEpoch } ops).2 ∧
      p.fin.first = 2 ∧ ParentReady.parentsReady p.pr 4 = [(2, 9)] ∧
      ParentReady.Connected (ParentReady.hist (prTrace L)) 4 (1, 7) := by decide

/-- **The premise `Safe` on the finality inputs is necessary**: a fast-finalization certificate that contradicts a
    notarization certificate makes the finality tracker panic ("consensus safety violation") inside the pool. -/
theorem pool_unsafe_history_panics :
    let ops : List PoolOp := [.cert (demoCert .notar 1 7), .cert (demoCert .ff 1 8)]
    ¬ Consistent (poolLog { epoch := demoEpoch } ops) ∧ Event.panic ∈ (poolRun { epoch := demoEpoch } ops).2 := by
  decide

end AgModel.Pool
