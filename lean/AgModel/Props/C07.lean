import AgModel.Model.ParentReady
namespace AgModel.ParentReady
theorem init_root : init.root = 0 := rfl
end AgModel.ParentReady
