import AgModel.Proofs.ParentReady
/-!
# C07 — parent-ready (property theorems)

Model: `AgModel.ParentReady` (= `parent_ready_tracker.rs` + `parent_ready_state.rs`), composed with the finality
tracker and the pool's pruning in `AgModel.PoolTrack`; tied to the real code by the correspondence run of
`harness/src/bin/c07.rs` (direct tracker ops, all orders of small mark sets, certificates through a real `PoolImpl`).

Full statement of the property (`ready_iff`, **not proved as a theorem**; it is what the harness oracle evaluates on
the real code after every operation, for every window start above the root):

    for every sequence of marks / finalization events / prunes from `init` that does not skip-mark the slot of a
    root, and every window start `s > root`:
      b ∈ parentsReady t s  ↔  b.1 < s ∧ b is marked notar-fallback ∧ ∀ u, b.1 < u < s → u is marked skipped

What is proved below (all for arbitrary tracker states and arbitrary inputs, no bound on slots or list sizes):
`announce_subset_query_*` (every announced pair is a window start and is answered by the query at once and forever
after: `Grow.ready`), `marks_never_lost_*`, `ready_lists_stay_duplicate_free_*` (the `assert!` of `add_to_ready` is what
makes a duplicate a panic: a successful run never holds one), `ready_only_at_window_starts`, `finalization_announces_highest`,
`waiter_woken_with_ready_parent`, `wait_*`, `below_root_ignored_*`, `prune_loses_nothing`.
Missing for `ready_iff`: the invariant that relates each ready entry to the marks between the parent and the window
(soundness) and the reachability argument through `collect`/`fwd` (completeness).
-/
namespace AgModel.ParentReady

/-- Announcements ⊆ query, certificate path (`mark_notar_fallback`): each announced `(s, b)` has `s` a window start
    and `b ∈ parents_ready(s)` in the resulting state. -/
theorem announce_subset_query_nf {t : Tracker} {id : Nat × Nat} {t' : Tracker}
    {ann : List (Nat × (Nat × Nat))} {w : List Wake} (h : markNotarFallback t id = some (t', ann, w)) :
    ∀ a ∈ ann, isWindowStart a.1 = true ∧ a.2 ∈ parentsReady t' a.1 := (markNotarFallback_ok h).2

/-- Announcements ⊆ query, certificate path (`mark_skipped`). -/
theorem announce_subset_query_skip {t : Tracker} {ms : Nat} {t' : Tracker}
    {ann : List (Nat × (Nat × Nat))} {w : List Wake} (h : markSkipped t ms = some (t', ann, w)) :
    ∀ a ∈ ann, isWindowStart a.1 = true ∧ a.2 ∈ parentsReady t' a.1 := (markSkipped_ok h).2

/-- Announcements ⊆ query, finalization path (`handle_finalization`). -/
theorem announce_subset_query_finalization {t : Tracker} {ev : Finality.Event} {t' : Tracker}
    {ann : List (Nat × (Nat × Nat))} {w : List Wake} (h : handleFinalization t ev = some (t', ann, w)) :
    ∀ a ∈ ann, isWindowStart a.1 = true ∧ a.2 ∈ parentsReady t' a.1 := (handleFinalization_ok h).2

/-- A finalization batch announces at most one pair, and it is one with the highest slot of the batch
    ("keep only highest slot ParentReady"). -/
theorem finalization_announces_highest (l : List (Nat × (Nat × Nat))) :
    (lastMax l).toList.length ≤ 1 ∧ (l ≠ [] → ∃ x, lastMax l = some x ∧ x ∈ l ∧ ∀ y ∈ l, y.1 ≤ x.1) := by
  constructor
  · cases lastMax l <;> simp
  · intro hne
    cases hl : lastMax l with
    | none => exact absurd (lastMax_none hl) hne
    | some x => exact ⟨x, rfl, lastMax_mem hl, lastMax_max hl⟩

/-- Skip marks, notar-fallback marks and ready parents are never lost by any operation other than `prune`
    (so a pair that was ready stays answered by the query: order of arrival cannot retract an answer). -/
theorem marks_never_lost_nf {t : Tracker} {id : Nat × Nat} {t' : Tracker}
    {ann : List (Nat × (Nat × Nat))} {w : List Wake} (h : markNotarFallback t id = some (t', ann, w)) :
    Grow t t' := (markNotarFallback_ok h).1

theorem marks_never_lost_skip {t : Tracker} {ms : Nat} {t' : Tracker}
    {ann : List (Nat × (Nat × Nat))} {w : List Wake} (h : markSkipped t ms = some (t', ann, w)) :
    Grow t t' := (markSkipped_ok h).1

theorem marks_never_lost_finalization {t : Tracker} {ev : Finality.Event} {t' : Tracker}
    {ann : List (Nat × (Nat × Nat))} {w : List Wake} (h : handleFinalization t ev = some (t', ann, w)) :
    Grow t t' := (handleFinalization_ok h).1

/-- "each (s, b) pair at most once" on the state: no operation that returns (does not hit the `assert!`) leaves a
    duplicate in a ready list. -/
theorem ready_lists_stay_duplicate_free {t t' : Tracker} (g : Grow t t')
    (h : ∀ s, (get t s).ready.Nodup) : ∀ s, (get t' s).ready.Nodup := fun s => g.nodup s (h s)

/-- Ready parents exist only for first slots of leader windows. -/
theorem ready_only_at_window_starts {t t' : Tracker} (g : Grow t t')
    (h : ∀ s, isWindowStart s = false → (get t s).ready = []) :
    ∀ s, isWindowStart s = false → parentsReady t' s = [] := by
  intro s hs
  rw [parentsReady_eq_get, g.nonstart s hs]; exact h s hs

theorem init_ready_empty : ∀ s, (get init s).ready = [] := by
  intro s
  simp only [get, init]
  split <;> rfl

/-- "a waiter registered for s is woken with a ready parent": when the first parent becomes ready for a slot with a
    registered waiter, exactly that parent is sent to the waiter, the waiter is deregistered and the parent is the
    slot's ready list. -/
theorem waiter_woken_with_ready_parent {t : Tracker} {s : Nat} {id : Nat × Nat} {t' : Tracker} {w : List Wake}
    (h : addToReady t s id = some (t', w)) (hw : (get t s).waiter = true) (hr : (get t s).ready = []) :
    w = [(s, id)] ∧ (get t' s).waiter = false ∧ (get t' s).ready = [id] := addToReady_wakes h hw hr

/-- `wait_for_parent_ready` answers immediately exactly when a parent is ready, with a member of the ready list ... -/
theorem wait_ready_is_member {t : Tracker} {s : Nat} {t' : Tracker} {b : Nat × Nat}
    (h : waitForParentReady t s = .ready t' b) : b ∈ parentsReady t s := by
  unfold waitForParentReady at h
  simp only at h
  split at h
  · rename_i b' rest hs
    cases h
    rw [parentsReady_eq_get, ← mem_sortBlocks, hs]; simp
  · split at h <;> cases h

/-- ... and registers a waiter only when none is ready. -/
theorem wait_registers_only_if_not_ready {t : Tracker} {s : Nat} {t' : Tracker}
    (h : waitForParentReady t s = .waiting t') : parentsReady t s = [] ∧ (get t' s).waiter = true := by
  unfold waitForParentReady at h
  simp only at h
  split at h
  · cases h
  · rename_i hs
    split at h
    · cases h
    · cases h
      refine ⟨?_, by rw [get_put_same]⟩
      rw [parentsReady_eq_get]
      cases hr : (get t s).ready with
      | nil => rfl
      | cons x xs =>
        have : x ∈ sortBlocks (get t s).ready := mem_sortBlocks.mpr (by rw [hr]; simp)
        rw [hs] at this; cases this

/-- Marks for pruned (decided) slots are ignored: nothing is re-created, nothing is announced again. -/
theorem below_root_ignored_nf (t : Tracker) (id : Nat × Nat) (h : id.1 < t.root) :
    markNotarFallback t id = some (t, [], []) := by
  unfold markNotarFallback; simp [h]

theorem below_root_ignored_skip (t : Tracker) (ms : Nat) (h : ms < t.root) :
    markSkipped t ms = some (t, [], []) := by
  unfold markSkipped; simp [h]

/-- "discarding decided slots never causes a pair to be lost": `prune` changes no answer at or above the new root,
    and retains nothing below it. -/
theorem prune_loses_nothing (t : Tracker) (r s : Nat) :
    (r ≤ s → parentsReady (prune t r) s = parentsReady t s ∧ get (prune t r) s = get t s) ∧
    (s < r → (prune t r).states s = none) := by
  constructor
  · intro h
    have : ¬ s < r := by omega
    simp [parentsReady, prune, get, this]
  · intro h; simp [prune, h]

/-! ### concrete runs (evaluated by the kernel) -/

def announcedBy (ops : List (Tracker → Res)) : Option (List (List (Nat × (Nat × Nat)))) :=
  (ops.foldl (fun acc op => acc.bind (fun (t, l) => (op t).map (fun r => (r.1, l ++ [r.2.1])))) (some (init, []))).map (·.2)

/-- out-of-order skips (the repository's `out_of_order_skips` test): skip 3, skip 2, notar-fallback (1,7), skip 1 -/
example : announcedBy [(markSkipped · 3), (markSkipped · 2), (markNotarFallback · (1, 7)), (markSkipped · 1)] =
    some [[], [], [(4, (1, 7))], [(4, (0, 0))]] := by decide

/-- two fully skipped windows: one mark announces the parent for both window starts; re-delivery announces nothing -/
example : announcedBy [(markSkipped · 7), (markSkipped · 6), (markSkipped · 5), (markSkipped · 4), (markSkipped · 3),
      (markSkipped · 2), (markNotarFallback · (1, 7)), (markNotarFallback · (1, 7)), (markSkipped · 4)] =
    some [[], [], [], [], [], [], [(4, (1, 7)), (8, (1, 7))], [], []] := by decide

/-- a finalization batch keeps only its highest pair -/
example : announcedBy [(markSkipped · 4), (markSkipped · 5), (markSkipped · 6), (markSkipped · 7),
      (handleFinalization · ⟨some (3, 9), [(2, 8)], []⟩)] = some [[], [], [], [], [(8, (3, 9))]] := by decide

end AgModel.ParentReady
