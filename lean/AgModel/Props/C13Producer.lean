import AgModel.Proofs.BlockProducerE2E
import AgModel.Props.C13
/-!
# C13, leader side — what `block_producer.rs` disseminates is exactly what a follower reconstructs

All theorems are about `AgModel.BlockProducer` (model of `src/consensus/block_producer.rs`, tied to the code by the
`bp` harness / `drv_bp` correspondence) and quantify over every producer configuration `c` (both entry points, every
slot and parent), every input `ins : List SliceIn` (every transaction stream and sizes, every pattern of deadlines and
clock readings, every ParentReady arrival point or none) - hence every number of slices and every handover point.
-/
namespace AgModel.BlockProducer
open AgModel.Blockstore

/-- **Every produced slice fits the slice budget** - and still fits after *any* parent is assigned to it (property
    D28: `apply_parent_ready` may set `payload.parent` on a slice that was filled without one); the `usize`
    subtraction `buffer_space - buffer.len()` never underflows; the shredder's `expect` never fires. -/
theorem slice_fits_budget (c : Cfg) (ins : List SliceIn) :
    (∀ o ∈ (produce c ins).2,
      o.payload.encLen ≤ MAX_DATA_PER_SLICE ∧
      (∀ p, ({ o.payload with parent := some p } : Payload).encLen ≤ MAX_DATA_PER_SLICE) ∧
      o.payload.dataLen ≤ bufferSpace) ∧
    (produce c ins).1.status ≠ .panicked := by
  obtain ⟨_, _, h3, h4, _⟩ := run_spec c ins (init c) max_slices_pos rfl _ rfl
  refine ⟨?_, h4⟩
  intro o ho
  obtain ⟨_, h1, h2, _, _⟩ := h3 o ho
  exact ⟨h1, fun p => encLen_le _ h2, h2⟩

/-- the receive loop alone, for every stream of arrivals: the buffer never exceeds `buffer_space`; a slice reported
    full has no room for another maximum-size transaction, one not reported full has (and consumed all arrivals) -/
theorem fill_budget (arr : List Tx) :
    dataLen (fill 0 [] arr).txs ≤ bufferSpace ∧
    ((fill 0 [] arr).full = true → bufferSpace - dataLen (fill 0 [] arr).txs < MAX_TRANSACTION_SIZE + LEN) ∧
    ((fill 0 [] arr).full = false →
      (fill 0 [] arr).rest = [] ∧ dataLen (fill 0 [] arr).txs + MAX_TRANSACTION_SIZE + LEN ≤ bufferSpace) :=
  ⟨fill_fits 0 [] arr room_init, fill_full_tight 0 [] arr, fun h => fill_notfull 0 [] arr h room_init⟩

/-- **The transaction count prefix equals the number of serialised transactions**; the serialised transactions are
    exactly the acceptable ones (`len ≤ MAX_TRANSACTION_SIZE`) among the arrivals the slice consumed, in order:
    oversized ones are dropped, never counted, never serialised. -/
theorem tx_count_prefix (arr : List Tx) :
    (fill 0 [] arr).count = (fill 0 [] arr).txs.length ∧
    ∃ consumed, arr = consumed ++ (fill 0 [] arr).rest ∧
      (fill 0 [] arr).txs = consumed.filter (fun t => decide (t.len ≤ MAX_TRANSACTION_SIZE)) := by
  refine ⟨by simpa using fill_count 0 [] arr, ?_⟩
  obtain ⟨cs, h1, h2⟩ := fill_split 0 [] arr
  exact ⟨cs, h1, by rw [h2, List.nil_append]; rfl⟩

/-- ... and so for every slice of every produced block -/
theorem produced_count_prefix (c : Cfg) (ins : List SliceIn) :
    ∀ o ∈ (produce c ins).2, o.payload.count = o.payload.txs.length ∧ ∀ t ∈ o.payload.txs, t.len ≤ MAX_TRANSACTION_SIZE := by
  obtain ⟨_, _, h3, _⟩ := run_spec c ins (init c) max_slices_pos rfl _ rfl
  intro o ho
  exact ⟨(h3 o ho).2.2.2.1, (h3 o ho).2.2.2.2⟩

/-- **Exactly one slice is marked last and it is the final one**; slice indices are `0, 1, …, n-1` with
    `n ≤ MAX_SLICES_PER_BLOCK`, every header carries the block's slot; a block that is not (yet) complete has no
    last marker at all. -/
theorem exactly_one_last (c : Cfg) (ins : List SliceIn) :
    (produce c ins).2.map (·.index) = List.range (produce c ins).2.length ∧
    (produce c ins).2.length ≤ MAX_SLICES ∧
    (∀ o ∈ (produce c ins).2, o.slot = c.slot) ∧
    ((produce c ins).1.status = .done →
      ∃ pre l, (produce c ins).2 = pre ++ [l] ∧ l.isLast = true ∧ ∀ o ∈ pre, o.isLast = false) ∧
    ((produce c ins).1.status ≠ .done → ∀ o ∈ (produce c ins).2, o.isLast = false) := by
  obtain ⟨h1, h2, h3, _, h5, h6, _⟩ := run_spec c ins (init c) max_slices_pos rfl _ rfl
  refine ⟨?_, ?_, fun o ho => (h3 o ho).1, h5, h6⟩
  · rw [List.range_eq_range']; exact h1
  · have : (init c).k = 0 := rfl
    simp only [this, Nat.zero_add] at h2
    exact h2

/-- **The parent appears in slice 0 and in at most one later slice** - exactly as the follower's reconstruction
    (`Blockstore.foldSlices`) accepts: the first slice carries a parent `p0`; either no later slice carries one and the
    producer's parent is `p0`, or exactly one does, it carries the producer's final parent, and that differs from `p0`;
    the follower's fold over the produced slices succeeds with the producer's parent and all transactions. -/
theorem parent_in_first_slice_one_switch (c : Cfg) (root : Nat → Nat) (ins : List SliceIn)
    (hne : (produce c ins).2 ≠ []) :
    ∃ o p0, (produce c ins).2.head? = some o ∧ o.index = 0 ∧ o.payload.parent = some p0 ∧
      foldSlices ((produce c ins).2.map (rsOf root)) p0 false [] =
        some ((produce c ins).1.parent, (produce c ins).2.flatMap txIds) ∧
      ((switches ((produce c ins).2.map (rsOf root)) = [] ∧ (produce c ins).1.parent = p0) ∨
       (∃ r, switches ((produce c ins).2.map (rsOf root)) = [r] ∧ r.parent = some (produce c ins).1.parent ∧
          (produce c ins).1.parent ≠ p0)) := by
  obtain ⟨o, p, h1, h2, h3, h4⟩ := fold_produce c root ins hne
  refine ⟨o, p, h1, h2, h3, h4, ?_⟩
  rcases foldSlices_parent _ _ _ _ _ _ h4 with h | ⟨_, r, hr⟩
  · exact Or.inl h
  · exact Or.inr ⟨r, hr⟩

/-- the producer's final parent is in an earlier slot whenever the parent it was called with and every ParentReady it
    receives are (what the follower's D3 check demands of the announced parent) -/
theorem final_parent_earlier (c : Cfg) (ins : List SliceIn) (hp : c.parent.1 < c.slot)
    (hpr : ∀ si ∈ ins, ∀ np, si.pr = some np → np.1 < c.slot) : (produce c ins).1.parent.1 < c.slot :=
  run_parent_slot c ins (init c) c.slot hp hpr

/-- **Leader → follower, end to end.** Let the producer (either entry point, any inputs) complete a block: slices
    `outs`, final parent `P = (produce c ins).1.parent`. Let `B` be these slices as a block (`toHBlock`; by
    `toHBlock_faithful` slice `i` of `B` has exactly the header and payload of `outs[i]`), `root i` the signed root of
    slice `i` and `env` any decoder that decodes each of these roots to what was encoded. The given parent and every
    ParentReady are in earlier slots (`assert_eq!(parent_slot, slot.prev())`; Pool, C06). Then for EVERY delivery `ss`
    of the leader's shreds (any order, duplicates, subsets, interleaving) into a fresh follower slot:
    * `B.block` has the producer's parent `P`, the double-Merkle root of the slice roots as hash, and the
      concatenation of the admitted transactions;
    * the follower emits the `Block` event of exactly this block **iff** it received ≥ 32 distinct shreds of every
      slice, exactly once; it never emits `InvalidBlock` nor any other block, and is never flagged;
    * when it did, the leader's own fast path (`add_own_slice` of the `n` slices in order, never panicking) has stored
      the identical state and sent the identical events. -/
theorem leader_to_follower (c : Cfg) (ins : List SliceIn) (root sz : Nat → Nat) (env : Nat → Content) (cap : Nat)
    (hd : (produce c ins).1.status = .done) (hcap : MAX_SLICES ≤ cap) (hsz : ∀ i, sz i ≠ 0)
    (henv : ∀ o ∈ (produce c ins).2, env (root o.index) = .ok o.payload.parent (some (txIds o)))
    (hp : c.parent.1 < c.slot) (hpr : ∀ si ∈ ins, ∀ np, si.pr = some np → np.1 < c.slot)
    (ss : List Shred) (hss : ∀ s ∈ ss, (toHBlock c root sz (produce c ins)).Honest s) :
    let B := toHBlock c root sz (produce c ins)
    let run := runDissem env (SlotData.new cap c.slot) ss
    B.block.parent = (produce c ins).1.parent ∧
    B.block.hash = (Merkle.Tree.new ((List.range (produce c ins).2.length).map root)).root ∧
    B.block.txs = (produce c ins).2.flatMap txIds ∧
    (.block B.block.info ∈ run.2 ↔ Enough B ss) ∧
    run.2.count (.block B.block.info) = (if Enough B ss then 1 else 0) ∧
    (∀ e ∈ run.2, e = .firstShred ∨ e = .block B.block.info) ∧
    Event.invalidBlock ∉ run.2 ∧
    run.1.misbehaved = false ∧
    run.1.dis.completed = (if Enough B ss then some B.block else none) ∧
    (Enough B ss → ownRun B (SlotData.new cap c.slot) (List.range B.n) = (run.1, true, run.2)) := by
  intro B run
  have hwf : B.WF env cap := produce_wf c root sz env cap ins hd hcap hsz henv hp hpr
  obtain ⟨a1, a2, a3, a4, a5⟩ := honest_block_announced_iff B env cap hwf ss hss
  refine ⟨rfl, rfl, toHBlock_allTxs c root sz _, a1, a2, a3, ?_, a5, a4, ?_⟩
  · intro hin
    rcases a3 _ hin with h | h <;> cases h
  · intro hen
    exact leader_fast_path_equal B env cap hwf ss hss hen

/-- the block of `leader_to_follower` is literally the produced slices (headers and payloads), so its shreds are the
    produced shreds -/
theorem produced_block_is_the_slices (c : Cfg) (root sz : Nat → Nat) (ins : List SliceIn)
    (hd : (produce c ins).1.status = .done) :
    (List.range (toHBlock c root sz (produce c ins)).n).map (toHBlock c root sz (produce c ins)).rslice =
      (produce c ins).2.map (rsOf root) := toHBlock_faithful c root sz ins hd

/-- the side effects of a completed production, in the order of the code: per slice `shred`, the 64 `send`s in index
    order, `add_own_slice`; finally `pool.add_block` with the final parent -/
theorem effects_order (c : Cfg) (ins : List SliceIn) (hd : (produce c ins).1.status = .done) :
    effects c ins = (produce c ins).2.flatMap sliceEffects ++ [.poolAddBlock c.slot (produce c ins).1.parent] := by
  simp [effects, hd]

/-! ### non-vacuity -/

/-- an optimistic block in slot 9 built on (8, #5): slice 0 times out with one transaction and an oversize one, during
    slice 1 the ParentReady names (6, #7) while 70 maximum-size transactions arrive (the slice fills up after 62, its
    parent is assigned afterwards), slice 2 takes the rest and ends the block at its deadline -/
def exCfg : Cfg := ⟨.notReady, 9, (8, 5), false⟩
def exIns : List SliceIn :=
  [⟨[⟨0, 100⟩, ⟨1, 513⟩], true, false, none⟩,
   ⟨(List.range 70).map (fun i => ⟨2 + i, 512⟩), false, false, some (6, 7)⟩,
   ⟨[⟨72, 0⟩], true, false, none⟩]

example : (produce exCfg exIns).1.status = .done ∧ (produce exCfg exIns).1.parent = (6, 7) ∧
    (produce exCfg exIns).2.map (fun o => (o.index, o.isLast, o.payload.parent, o.payload.count, o.payload.encLen)) =
      [(0, false, some (8, 5), 1, 165), (1, false, some (6, 7), 62, 32297), (2, true, none, 9, 4185)] := by
  decide +kernel

/-- a slice filled to the last byte of the buffer gets its parent afterwards and is exactly `MAX_DATA_PER_SLICE` long
    (the D28 boundary): 61 maximum-size transactions, one of 462 bytes, one more of maximum size -/
example : ((produce ⟨.notReady, 9, (8, 5), false⟩
      [⟨[], true, false, none⟩,
       ⟨(List.range 61).map (fun i => ⟨i, 512⟩) ++ [⟨61, 462⟩, ⟨62, 512⟩], false, false, some (6, 7)⟩]).2.map
        (fun o => (o.payload.parent, o.payload.encLen))) = [(some (8, 5), 57), (some (6, 7), MAX_DATA_PER_SLICE)] := by
  decide +kernel

/-- the pinned behaviour before fix D28 (buffer sized with the parent the slice was produced with, here `None`):
    the same slice would have been allowed 40 bytes more and no longer fit once the parent is assigned -/
theorem d28_witness : MAX_DATA_PER_SLICE - PARENT_NONE - LEN + PARENT_SOME + LEN > MAX_DATA_PER_SLICE := by decide

/-- the hypotheses of `leader_to_follower` are satisfiable: the example block, its three slices' roots 1, 2, 3 -/
def exEnvP : Nat → Content := fun r =>
  match (produce exCfg exIns).2[r - 1]? with
  | some o => if r = 0 then .bad else .ok o.payload.parent (some (txIds o))
  | none => .bad

example : (produce exCfg exIns).1.status = .done ∧ MAX_SLICES ≤ 1024 ∧
    (∀ o ∈ (produce exCfg exIns).2, exEnvP (o.index + 1) = .ok o.payload.parent (some (txIds o))) ∧
    exCfg.parent.1 < exCfg.slot ∧ (∀ si ∈ exIns, ∀ np, si.pr = some np → np.1 < exCfg.slot) := by
  refine ⟨by decide +kernel, by decide, by decide +kernel, by decide, by decide⟩

/-- `wait_for_first_slot`: the ParentReady first -> ready producer; the block of the previous slot first -> optimistic
    producer on that block; a later finalisation -> skip -/
example : waitForFirstSlot 8 ⟨false, none, some (5, 3), some 9, true⟩ = some (.ready (5, 3)) ∧
    waitForFirstSlot 8 ⟨false, none, none, some 9, true⟩ = some (.parentReadyNotSeen (7, 9)) ∧
    waitForFirstSlot 8 ⟨false, none, none, none, true⟩ = some .skip ∧
    waitForFirstSlot 8 ⟨false, none, none, none, false⟩ = none := by decide

end AgModel.BlockProducer
