import AgModel.Model.PoolTrack
/-!
# C08 — pool half: bounds check and `PoolImpl::prune`

Model: `AgModel.PoolTrack` (certificate-only regime), after the `fix:` commits for D12, the
`s2n_waiting_parent_cert` leak and D27 (finality tracker).
-/
namespace AgModel.PoolTrack
open AgModel

/-- "votes and certificates for slots that are not yet decided are still accepted ... once it is decided the node
    neither retains nor accepts anything older": a certificate is refused as out of bounds exactly when its slot
    is below the pruning watermark (`first_unpruned_slot`, below which every slot is decided:
    `Finality.watermark_prefix`) or at least two epochs above the highest finalized slot — whatever else the pool
    holds. -/
theorem oob_iff (p : Pool) (k : CertKind) (slot h : Nat) :
    addCert p k slot h = .oob ↔ (slot < p.fin.first ∨ slot ≥ p.fin.highest + 2 * Gen.SLOTS_PER_EPOCH) := by
  have hb : outOfBounds p slot = true ↔ (slot < p.fin.first ∨ slot ≥ p.fin.highest + 2 * Gen.SLOTS_PER_EPOCH) := by
    simp [outOfBounds, farFuture]
  rw [← hb]
  unfold addCert
  by_cases hob : outOfBounds p slot = true
  · simp [hob]
  · simp only [hob]
    constructor
    · intro hh
      exfalso
      revert hh
      simp only [Bool.false_eq_true, if_false]
      repeat' split
      all_goals (intro hh; cases hh)
    · intro hh; cases hh

/-- an out-of-bounds certificate leaves the pool untouched (there is no state to report: `Out.oob`) and an
    in-bounds one for an undecided slot is never answered `oob` -/
theorem undecided_slot_accepted (p : Pool) (k : CertKind) (slot h : Nat)
    (h1 : p.fin.first ≤ slot) (h2 : slot < p.fin.highest + 2 * Gen.SLOTS_PER_EPOCH) :
    addCert p k slot h ≠ .oob := by
  intro hh
  rcases (oob_iff p k slot h).mp hh with h' | h' <;> omega

/-- `PoolImpl::prune`: afterwards no per-slot vote/certificate state, no parent-ready state and no safe-to-notar
    waiting entry of a child below the watermark is retained, and the parent-ready root is the watermark. -/
theorem prune_bounded (p : Pool) :
    (∀ s, s < p.fin.first → (prune p).slots s = none ∧ (prune p).pr.states s = none) ∧
    (∀ e ∈ (prune p).s2n, p.fin.first ≤ e.2.1) ∧ (prune p).pr.root = p.fin.first ∧ (prune p).fin = p.fin := by
  refine ⟨?_, ?_, rfl, rfl⟩
  · intro s hs
    simp [prune, ParentReady.prune, hs]
  · intro e he
    simp only [prune, List.mem_filter, decide_eq_true_eq] at he
    exact he.2

/-- ... and nothing at or above the watermark is touched ("discarding old state never changes these answers") -/
theorem prune_lossless (p : Pool) (s : Nat) (h : p.fin.first ≤ s) :
    (prune p).slots s = p.slots s ∧ (prune p).pr.states s = p.pr.states s := by
  have : ¬ s < p.fin.first := by omega
  simp [prune, ParentReady.prune, this]

/-! ### witnesses of the repaired defects (evaluated by the kernel) -/

def runWith (stepf : Pool → Op → Out) (p : Pool) : List Op → Option Pool
  | [] => some p
  | op :: rest =>
    match stepf p op with
    | .ok p1 _ _ => runWith stepf p1 rest
    | .dup p1 => runWith stepf p1 rest
    | .oob => runWith stepf p rest
    | .panic => none

def stepOld (p : Pool) : Op → Out
  | .cert k s h => addCert p k s h
  | .block b q => addBlockOld p b q

def summary (p : Pool) : Nat × Nat × Bool × Nat := (p.fin.first, p.pr.root, (p.slots 1).isSome, p.s2n.length)

/-- D12: block (3,3) is fast-finalized, its parent (1,1) notarized, slot 2 skip-certified.  Registering the link
    3 → 1 → 0 through `add_block` finalizes (1,1) and moves the watermark to 3.  The pinned `add_block` keeps the
    per-slot state of slot 1, the parent-ready root at 0 and both waiting entries; the repaired one prunes in the
    same step. -/
theorem d12_old_add_block_does_not_prune :
    (runWith stepOld init [.cert .fastFinal 3 3, .cert .notar 1 1, .cert .skip 2 0, .block (1, 1) (0, 0),
        .block (3, 3) (1, 1)]).map summary = some (3, 0, true, 2) ∧
    (runWith step init [.cert .fastFinal 3 3, .cert .notar 1 1, .cert .skip 2 0, .block (1, 1) (0, 0),
        .block (3, 3) (1, 1)]).map summary = some (3, 3, false, 1) := by
  decide

/-- The pruned-child lookup: with `pruneOld` (no s2n pruning) the notarization certificate of (1,1) finds the waiting
    child (2,9) whose slot state was just pruned and panics (`"parent not known"`); with the repaired `prune` the run
    completes. -/
def addCertOld (p : Pool) (k : CertKind) (slot h : Nat) : Out :=
  -- `addCert` with `pruneOld` in `handle_finalization`, notar path only (what the witness needs)
  if outOfBounds p slot then .oob
  else
    let p0 := putSlot p slot (getSlot p slot)
    if isDuplicate (getSlot p0 slot) k h then .dup p0
    else
      let p1 := putSlot p0 slot (storeCert (getSlot p0 slot) k h)
      match finalityOf p1 k slot h with
      | none => .ok p1 [] []
      | some .panic => .panic
      | some (.ok f1 ev) =>
        match ParentReady.handleFinalization p1.pr ev with
        | none => .panic
        | some (pr1, a1, w1) =>
          let p2 := pruneOld { p1 with fin := f1, pr := pr1 }
          match k with
          | .notar =>
            match s2nGet p2.s2n (slot, h) with
            | none => .ok p2 a1 w1
            | some child =>
              if (getSlot p2 child.1).known.contains child.2 then .ok p2 a1 w1 else .panic
          | _ => .ok p2 a1 w1

theorem s2n_old_pruned_child_panics :
    (runWith (fun p op => match op with | .cert k s h => addCertOld p k s h | .block b q => addBlockOld p b q) init
      [.block (2, 9) (1, 1), .cert .final 1 0, .cert .fastFinal 2 8, .cert .fastFinal 3 7, .cert .notar 1 1]).isNone = true ∧
    (runWith step init
      [.block (2, 9) (1, 1), .cert .final 1 0, .cert .fastFinal 2 8, .cert .fastFinal 3 7, .cert .notar 1 1]).map summary
      = some (3, 3, false, 0) := by
  decide

/-- D27 at pool level (certificate-only regime): the notarization certificate of `(4,5)`, the block `(8,9)` with parent
    `(4,4)` and the fast-finalization certificate of `(8,9)`, in both arrival orders of the sibling's certificate:
    the repaired pool runs through (finality tracker *and* parent-ready tracker) and ends with highest finalized
    slot 8 and slot 4 `ImplicitlyFinalized(4)`.  (With the pinned finality tracker both orders panicked:
    `Finality.d27_old_panics`.) -/
theorem d27_pool_runs :
    (runWith step init [.cert .notar 4 5, .block (8, 9) (4, 4), .cert .fastFinal 8 9]).map
        (fun p => (p.fin.highest, p.fin.status 4)) = some (8, some (.implFinalized 4)) ∧
    (runWith step init [.block (8, 9) (4, 4), .cert .fastFinal 8 9, .cert .notar 4 5]).map
        (fun p => (p.fin.highest, p.fin.status 4)) = some (8, some (.implFinalized 4)) := by
  decide

end AgModel.PoolTrack
