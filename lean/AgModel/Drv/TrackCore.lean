import Driver.Util
import AgModel.Model.Finality
/-! Shared step function of the C07 / C08 drivers: executes the ops of `harness/src/trackkit.rs`
    on `AgModel.Finality` (ops `f*`), `AgModel.ParentReady` (ops `p*`) and `AgModel.PoolTrack` (ops `c*`). -/
open Driver
namespace TrackCore
open AgModel

def fmtBlk (b : Nat × Nat) : String := s!"{b.1}:{b.2}"

def fmtList (l : List String) : String := if l.isEmpty then "-" else ",".intercalate l

def fmtEvent (ev : Finality.Event) : String :=
  let f := match ev.finalized with | some b => fmtBlk b | none => "-"
  s!"F={f} IF={fmtList (ev.implFinalized.map fmtBlk)} IS={fmtList (ev.implSkipped.map toString)}"

def fmtStatus (s : Nat) : Finality.Status → String
  | .notarized h => s!"{s}:N:{h}"
  | .finalPending => s!"{s}:P"
  | .finalized h => s!"{s}:F:{h}"
  | .implFinalized h => s!"{s}:I:{h}"
  | .implSkipped => s!"{s}:S"

def insertSorted (b : Nat × Nat) : List (Nat × Nat) → List (Nat × Nat)
  | [] => [b]
  | x :: xs =>
    if b = x then x :: xs
    else if b.1 < x.1 ∨ (b.1 = x.1 ∧ b.2 < x.2) then b :: x :: xs
    else x :: insertSorted b xs

def fmtTracker (t : Finality.Tracker) (maxSlot : Nat) (blocks : List (Nat × Nat)) : String :=
  let sts := (List.range (maxSlot + 1)).filterMap (fun s => (t.status s).map (fmtStatus s))
  let pars := blocks.filterMap (fun b => (t.parents b).map (fun p => s!"{fmtBlk b}>{fmtBlk p}"))
  s!"hi={t.highest} fu={t.first} st={fmtList sts} par={fmtList pars}"

structure St where
  fin : Option Finality.Tracker := some Finality.init
  maxSlot : Nat := 0
  blocks : List (Nat × Nat) := []

def note (st : St) (bs : List (Nat × Nat)) : St :=
  { st with
    maxSlot := bs.foldl (fun m b => max m b.1) st.maxSlot
    blocks := bs.foldl (fun l b => insertSorted b l) st.blocks }

def finStep (st : St) (op : Finality.Op) : St × List String :=
  match st.fin with
  | none => (st, ["dead"])
  | some t =>
    match Finality.step t op with
    | .panic => ({ st with fin := none }, ["panic"])
    | .ok t1 ev => ({ st with fin := some t1 }, [s!"{fmtEvent ev} {fmtTracker t1 st.maxSlot st.blocks}"])

def step (st : St) (ws : List String) : St × List String :=
  match ws with
  | "case" :: k :: _ => ({}, [s!"case {k}"])
  | ["fp", s, h, ps, ph] =>
    let b := (nat! s, nat! h); let p := (nat! ps, nat! ph)
    finStep (note st [b, p]) (.parent b p)
  | ["fff", s, h] => let b := (nat! s, nat! h); finStep (note st [b]) (.fastFinal b)
  | ["fn", s, h] => let b := (nat! s, nat! h); finStep (note st [b]) (.notar b)
  | ["ffi", s] => finStep { st with maxSlot := max st.maxSlot (nat! s) } (.final (nat! s))
  | _ => (st, ["bad-op"])

end TrackCore
