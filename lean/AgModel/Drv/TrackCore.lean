import Driver.Util
import AgModel.Model.Finality
import AgModel.Model.ParentReady
import AgModel.Model.PoolTrack
/-! Shared step function of the C07 / C08 drivers: executes the ops of `harness/src/trackkit.rs`
    on `AgModel.Finality` (ops `f*`), `AgModel.ParentReady` (ops `p*`) and `AgModel.PoolTrack` (ops `c*`). -/
open Driver
namespace TrackCore
open AgModel

def fmtBlk (b : Nat × Nat) : String := s!"{b.1}:{b.2}"

def fmtList (l : List String) : String := if l.isEmpty then "-" else ",".intercalate l

def fmtEvent (ev : Finality.Event) : String :=
  let f := match ev.finalized with | some b => fmtBlk b | none => "-"
  s!"F={f} IF={fmtList (ev.implFinalized.map fmtBlk)} IS={fmtList (ev.implSkipped.map toString)}"

def fmtStatus (s : Nat) : Finality.Status → String
  | .notarized h => s!"{s}:N:{h}"
  | .finalPending => s!"{s}:P"
  | .finalized h => s!"{s}:F:{h}"
  | .implFinalized h => s!"{s}:I:{h}"
  | .implSkipped => s!"{s}:S"

def insertSorted (b : Nat × Nat) : List (Nat × Nat) → List (Nat × Nat)
  | [] => [b]
  | x :: xs =>
    if b = x then x :: xs
    else if b.1 < x.1 ∨ (b.1 = x.1 ∧ b.2 < x.2) then b :: x :: xs
    else x :: insertSorted b xs

def fmtTracker (t : Finality.Tracker) (maxSlot : Nat) (blocks : List (Nat × Nat)) : String :=
  let sts := (List.range (maxSlot + 1)).filterMap (fun s => (t.status s).map (fmtStatus s))
  let pars := blocks.filterMap (fun b => (t.parents b).map (fun p => s!"{fmtBlk b}>{fmtBlk p}"))
  s!"hi={t.highest} fu={t.first} st={fmtList sts} par={fmtList pars}"

def fmtAnn (l : List (Nat × (Nat × Nat))) : String := fmtList (l.map (fun a => s!"{a.1}={fmtBlk a.2}"))

/-- wake-ups are observed by polling the receivers in slot order: canonical order = by slot -/
def sortWakes (l : List (Nat × (Nat × Nat))) : List (Nat × (Nat × Nat)) :=
  l.foldr (fun x acc =>
    let rec ins : List (Nat × (Nat × Nat)) → List (Nat × (Nat × Nat))
      | [] => [x]
      | y :: ys => if x.1 ≤ y.1 then x :: y :: ys else y :: ins ys
    ins acc) []

def fmtPState (s : Nat) (st : ParentReady.PState) : String :=
  let b (x : Bool) := if x then "1" else "0"
  s!"{s}:{b st.skip}:{"/".intercalate (st.nfs.map toString)}:{"/".intercalate (st.ready.map (fun r => s!"{r.1}.{r.2}"))}:{b st.waiter}"

def fmtPr (t : ParentReady.Tracker) (maxSlot : Nat) : String :=
  let sts := (List.range (maxSlot + 2)).filterMap (fun s => (t.states s).map (fmtPState s))
  s!"root={t.root} pr={fmtList sts}"

def sortPairs (l : List ((Nat × Nat) × (Nat × Nat))) : List ((Nat × Nat) × (Nat × Nat)) :=
  let le (a b : (Nat × Nat) × (Nat × Nat)) : Bool :=
    if a.1 = b.1 then ParentReady.blkLe a.2 b.2 else ParentReady.blkLe a.1 b.1
  l.foldr (fun x acc =>
    let rec ins : List ((Nat × Nat) × (Nat × Nat)) → List ((Nat × Nat) × (Nat × Nat))
      | [] => [x]
      | y :: ys => if le x y then x :: y :: ys else y :: ins ys
    ins acc) []

def fmtPool (p : PoolTrack.Pool) (maxSlot : Nat) : String :=
  let ret := (List.range (maxSlot + 2)).filter (fun s => (p.slots s).isSome)
  let s2n := (sortPairs p.s2n).map (fun e => s!"{fmtBlk e.1}>{fmtBlk e.2}")
  s!"hi={p.fin.highest} fu={p.fin.first} ret={fmtList (ret.map toString)} {fmtPr p.pr maxSlot} s2n={fmtList s2n}"

structure St where
  fin : Option Finality.Tracker := some Finality.init
  pr : Option ParentReady.Tracker := some ParentReady.init
  pool : Option PoolTrack.Pool := some PoolTrack.init
  maxSlot : Nat := 0
  blocks : List (Nat × Nat) := []
  /-- slots whose waiter's receiver was dropped by the harness (`pwd`): their wake-up is unobservable -/
  dropped : List Nat := []

def note (st : St) (bs : List (Nat × Nat)) : St :=
  { st with
    maxSlot := bs.foldl (fun m b => max m b.1) st.maxSlot
    blocks := bs.foldl (fun l b => insertSorted b l) st.blocks }

def finStep (st : St) (op : Finality.Op) : St × List String :=
  match st.fin with
  | none => (st, ["dead"])
  | some t =>
    match Finality.step t op with
    | .panic => ({ st with fin := none }, ["panic"])
    | .ok t1 ev => ({ st with fin := some t1 }, [s!"{fmtEvent ev} {fmtTracker t1 st.maxSlot st.blocks}"])

def prRes (st : St) (r : ParentReady.Res) : St × List String :=
  match r with
  | none => ({ st with pr := none }, ["panic"])
  | some (t1, ann, wk) =>
    let seen := wk.filter (fun w => !st.dropped.contains w.1)
    ({ st with pr := some t1, dropped := st.dropped.filter (fun s => !(wk.any (·.1 == s))) },
      [s!"A={fmtAnn ann} W={fmtAnn (sortWakes seen)} {fmtPr t1 st.maxSlot}"])

def parseBlk (s : String) : Option (Nat × Nat) :=
  match s.splitOn ":" with
  | [a, b] => some (nat! a, nat! b)
  | _ => none

def parseBlks (s : String) : List (Nat × Nat) :=
  if s = "-" then [] else (s.splitOn ",").filterMap parseBlk

def parseSlots (s : String) : List Nat :=
  if s = "-" then [] else (s.splitOn ",").map nat!

def parseKind : String → Option PoolTrack.CertKind
  | "N" => some .notar | "NF" => some .notarFallback | "S" => some .skip
  | "FF" => some .fastFinal | "F" => some .final | _ => none

def poolOut (st : St) (o : PoolTrack.Out) : St × List String :=
  match o with
  | .oob => (st, [s!"oob {(st.pool.map (fun p => fmtPool p st.maxSlot)).getD ""}"])
  | .dup p => ({ st with pool := some p }, [s!"dup {fmtPool p st.maxSlot}"])
  | .panic => ({ st with pool := none }, ["panic"])
  | .ok p ann wk => ({ st with pool := some p }, [s!"ok A={fmtAnn ann} W={fmtAnn (sortWakes wk)} {fmtPool p st.maxSlot}"])

def step (st : St) (ws : List String) : St × List String :=
  match ws with
  | "case" :: k :: _ => ({}, [s!"case {k}"])
  | ["pn", s, h] =>
    let st := note st [(nat! s, nat! h)]
    match st.pr with
    | none => (st, ["dead"])
    | some t => prRes st (ParentReady.markNotarFallback t (nat! s, nat! h))
  | ["ps", s] =>
    let st := { st with maxSlot := max st.maxSlot (nat! s) }
    match st.pr with
    | none => (st, ["dead"])
    | some t => prRes st (ParentReady.markSkipped t (nat! s))
  | ["pf", f, i, k] =>
    let ev : Finality.Event := { finalized := parseBlk f, implFinalized := parseBlks i, implSkipped := parseSlots k }
    let st := note st (ev.finalized.toList ++ ev.implFinalized)
    let st := { st with maxSlot := ev.implSkipped.foldl max st.maxSlot }
    match st.pr with
    | none => (st, ["dead"])
    | some t => prRes st (ParentReady.handleFinalization t ev)
  | ["pp", r] =>
    match st.pr with
    | none => (st, ["dead"])
    | some t => let t1 := ParentReady.prune t (nat! r); ({ st with pr := some t1 }, [s!"{fmtPr t1 st.maxSlot}"])
  | ["pq", s] =>
    match st.pr with
    | none => (st, ["dead"])
    | some t => (st, [s!"q={fmtList ((ParentReady.parentsReady t (nat! s)).map fmtBlk)}"])
  | ["pw", s] =>
    let st := { st with maxSlot := max st.maxSlot (nat! s) }
    match st.pr with
    | none => (st, ["dead"])
    | some t =>
      match ParentReady.waitForParentReady t (nat! s) with
      | .panic => ({ st with pr := none }, ["panic"])
      | .ready t1 b => ({ st with pr := some t1 }, [s!"ready {fmtBlk b} {fmtPr t1 st.maxSlot}"])
      | .waiting t1 => ({ st with pr := some t1 }, [s!"waiting {fmtPr t1 st.maxSlot}"])
  | ["pwd", s] =>
    let st := { st with maxSlot := max st.maxSlot (nat! s) }
    match st.pr with
    | none => (st, ["dead"])
    | some t =>
      match ParentReady.waitForParentReady t (nat! s) with
      | .panic => ({ st with pr := none }, ["panic"])
      | .ready t1 b => ({ st with pr := some t1 }, [s!"ready {fmtBlk b} {fmtPr t1 st.maxSlot}"])
      | .waiting t1 => ({ st with pr := some t1, dropped := (nat! s) :: st.dropped }, [s!"waiting {fmtPr t1 st.maxSlot}"])
  | ["cc", k, s, h] =>
    let st := note st [(nat! s, nat! h)]
    match st.pool, parseKind k with
    | some p, some kk => poolOut st (PoolTrack.addCert p kk (nat! s) (nat! h))
    | _, _ => (st, ["dead"])
  | ["cb", s, h, ps, ph] =>
    let st := note st [(nat! s, nat! h), (nat! ps, nat! ph)]
    match st.pool with
    | some p => poolOut st (PoolTrack.addBlock p (nat! s, nat! h) (nat! ps, nat! ph))
    | none => (st, ["dead"])
  | ["cq", s] =>
    match st.pool with
    | some p => (st, [s!"q={fmtList ((ParentReady.parentsReady p.pr (nat! s)).map fmtBlk)}"])
    | none => (st, ["dead"])
  | ["cw", s] =>
    let st := { st with maxSlot := max st.maxSlot (nat! s) }
    match st.pool with
    | none => (st, ["dead"])
    | some p =>
      match ParentReady.waitForParentReady p.pr (nat! s) with
      | .panic => ({ st with pool := none }, ["panic"])
      | .ready t1 b => ({ st with pool := some { p with pr := t1 } }, [s!"ready {fmtBlk b}"])
      | .waiting t1 => ({ st with pool := some { p with pr := t1 } }, ["waiting"])
  | ["fp", s, h, ps, ph] =>
    let b := (nat! s, nat! h); let p := (nat! ps, nat! ph)
    finStep (note st [b, p]) (.parent b p)
  | ["fff", s, h] => let b := (nat! s, nat! h); finStep (note st [b]) (.fastFinal b)
  | ["fn", s, h] => let b := (nat! s, nat! h); finStep (note st [b]) (.notar b)
  | ["ffi", s] => finStep { st with maxSlot := max st.maxSlot (nat! s) } (.final (nat! s))
  | _ => (st, ["bad-op"])

end TrackCore
