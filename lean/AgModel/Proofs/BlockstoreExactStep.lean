import AgModel.Proofs.BlockstoreExact
/-! One `add_shred` step on the exact invariant (core Lean only). -/
namespace AgModel.Blockstore
open AgModel.Merkle HBlock

/-- the state between `try_reconstruct_slice` (which just completed a slice) and `try_reconstruct_block` -/
structure Pre (B : HBlock) (cap : Nat) (D : DSet) (b : BlockData) : Prop where
  hcap : b.cap = cap
  hslot : b.slot = B.slot
  cache : ∀ i, b.cache i = if i < B.n ∧ 0 < cnt D i then some (B.commit i) else none
  last : b.lastSlice = if 0 < cnt D (B.n - 1) then some (B.n - 1) else none
  shreds : ∀ i, b.shreds i = if i < B.n ∧ 0 < cnt D i then some (arrOf B D i) else none
  slices : ∀ i, b.slices i = if i < B.n ∧ DATA_SHREDS ≤ cnt D i then some (B.rslice i) else none
  completed : b.completed = none
  tree : b.tree = none

theorem pre_exact (B : HBlock) (cap : Nat) (D : DSet) (b : BlockData) (hp : Pre B cap D b) (hnf : ¬ Full B D) :
    Exact B cap D D D b := by
  refine ⟨hp.hcap, hp.hslot, hp.cache, hp.last, hp.shreds, ?_, by rw [hp.completed, if_neg hnf], by rw [hp.tree, if_neg hnf]⟩
  intro i
  rw [hp.slices i]
  apply ite_iff
  constructor
  · intro h; exact ⟨hnf, h⟩
  · intro h; exact h.2

theorem tryReconstructBlock_exact (B : HBlock) (env : Nat → Content) (cap : Nat) (hwf : B.WF env cap)
    (D : DSet) (b : BlockData) (hp : Pre B cap D b) :
    Exact B cap D D D (tryReconstructBlock b).1 ∧
      (tryReconstructBlock b).2 = if Full B D then .complete B.block.info else .noAction := by
  have hdp := data_shreds_pos
  have hnpos := hwf.npos
  have hkeys : ∀ i, (b.slices i).isSome → i < B.n := by
    intro i hi
    rw [hp.slices i] at hi
    split at hi
    · rename_i h; exact h.1
    · simp at hi
  obtain ⟨d, hd⟩ : ∃ d, b.cap = B.n + d := ⟨b.cap - B.n, by have := hwf.ncap; have := hp.hcap; omega⟩
  have hml : mapLen b.cap b.slices = mapLen B.n b.slices := by rw [hd]; exact mapLen_bound b.slices B.n d hkeys
  unfold tryReconstructBlock
  rw [hp.completed]
  simp only [Option.isSome_none, Bool.false_eq_true, if_false]
  rw [hp.last]
  by_cases hpos : 0 < cnt D (B.n - 1)
  · simp only [hpos, if_true]
    by_cases hfull : Full B D
    · have hfullS : ∀ i, i < B.n → b.slices i = some (B.rslice i) := by
        intro i hi
        rw [hp.slices i, if_pos ⟨hi, hfull i hi⟩]
      have hlen : mapLen b.cap b.slices = B.n - 1 + 1 := by
        rw [hml, mapLen_eq_of_all b.slices B.n (by intro i hi; rw [hfullS i hi]; rfl)]
        omega
      rw [if_neg (by intro h; exact h hlen)]
      have hnone : ∀ i, B.n ≤ i → b.slices i = none := by
        intro i hi
        rw [hp.slices i, if_neg (by omega)]
      have hvals : mapVals b.cap b.slices = (List.range B.n).map B.rslice := by
        rw [hd, mapVals_bound b.slices B.n d hnone]
        exact mapVals_map b.slices B.rslice B.n hfullS
      have hroots : ((List.range B.n).map B.rslice).map (·.root) = B.roots := by
        simp [HBlock.roots, HBlock.rslice, List.map_map, Function.comp_def]
      obtain ⟨p, hp0, hfold⟩ := hwf.fold
      have h0 : b.slices 0 = some (B.rslice 0) := hfullS 0 hnpos
      have hslot : ¬ (B.fparent.1 ≥ b.slot) := by rw [hp.hslot]; have := hwf.pslot; omega
      simp only [hvals, h0, hroots]
      have hp' : (B.rslice 0).parent = some p := hp0
      simp only [hp', hfold, hslot, if_false]
      refine ⟨⟨hp.hcap, hp.hslot, hp.cache, by simp only; rw [if_pos hpos], hp.shreds, ?_, ?_, ?_⟩,
        by rw [if_pos hfull]; rfl⟩
      · intro i
        simp only
        have hr : (if ¬ Full B D ∧ i < B.n ∧ DATA_SHREDS ≤ cnt D i then some (B.rslice i) else none) = none :=
          if_neg (fun h => h.1 hfull)
        rw [hr]
        split
        · rfl
        · exact hnone i (by omega)
      · simp only; rw [if_pos hfull]; rfl
      · simp only; rw [if_pos hfull]
    · have hlen : mapLen b.cap b.slices ≠ B.n - 1 + 1 := by
        intro h
        apply hfull
        intro k hk
        have h1 : mapLen B.n b.slices = B.n := by rw [← hml, h]; omega
        have := mapLen_full b.slices B.n h1 k hk
        rw [hp.slices k] at this
        split at this
        · rename_i hc; exact hc.2
        · simp at this
      rw [if_pos hlen]
      exact ⟨pre_exact B cap D b hp hfull, by rw [if_neg hfull]⟩
  · simp only [hpos, if_false]
    have hnf : ¬ Full B D := not_full_of_lt B D (B.n - 1) (by omega) (by omega)
    exact ⟨pre_exact B cap D b hp hnf, by rw [if_neg hnf]⟩

/-- `try_reconstruct_slice` after a stored shred that leaves the slice below the threshold -/
theorem tryReconstructSlice_lt (B : HBlock) (env : Nat → Content) (cap : Nat) (hwf : B.WF env cap)
    (D : DSet) (b b' : BlockData) (s : Shred)
    (hg : Exact B cap (dadd D s) (dadd D s) D b) (hs : B.Honest s)
    (hlt : cnt (dadd D s) s.slice < DATA_SHREDS)
    (e5 : b'.shreds = upd b.shreds s.slice (some (upd (arrOf B D s.slice) s.idx (some s))))
    (e6 : b'.slices = b.slices) (e7 : b'.completed = b.completed) :
    tryReconstructSlice env b' s.slice = (b', .noAction) := by
  have hc : cnt D s.slice < DATA_SHREDS := by have := cnt_mono D s s.slice; omega
  have hnf : ¬ Full B D := not_full_of_lt B D s.slice hs.1 hc
  have hcomp : b'.completed = none := by rw [e7, hg.completed, if_neg hnf]
  have hsl : b'.slices s.slice = none := by rw [e6, hg.slices, if_neg (by omega)]
  have hsh : b'.shreds s.slice = some (upd (arrOf B D s.slice) s.idx (some s)) := by rw [e5]; simp [upd]
  have harr' : ∀ j x, upd (arrOf B D s.slice) s.idx (some s) j = some x → j < TOTAL_SHREDS ∧ x = B.shred s.slice j := by
    intro j x h
    simp only [upd] at h
    split at h
    · rename_i hj; subst hj; simp at h; subst h; exact ⟨hs.2.1, hs.2.2⟩
    · exact arrOf_honest B D s.slice j x h
  unfold tryReconstructSlice
  simp only [hcomp, hsl, hsh, Option.isSome_none, Bool.false_eq_true, if_false]
  rw [deshred_lt B env cap hwf s.slice _ harr' (by rw [present_len_upd B D s hs.2.1 hc]; exact hlt)]

/-- `try_reconstruct_slice` after the stored shred that makes the slice decodable -/
theorem tryReconstructSlice_ge (B : HBlock) (env : Nat → Content) (cap : Nat) (hwf : B.WF env cap)
    (D : DSet) (b b' : BlockData) (s : Shred)
    (hg : Exact B cap (dadd D s) (dadd D s) D b) (hs : B.Honest s)
    (hc : cnt D s.slice < DATA_SHREDS) (hge : DATA_SHREDS ≤ cnt (dadd D s) s.slice)
    (e1 : b'.cap = b.cap) (e2 : b'.slot = b.slot) (e3 : b'.cache = b.cache) (e4 : b'.lastSlice = b.lastSlice)
    (e5 : b'.shreds = upd b.shreds s.slice (some (upd (arrOf B D s.slice) s.idx (some s))))
    (e6 : b'.slices = b.slices) (e7 : b'.completed = b.completed) (e8 : b'.tree = b.tree) :
    Pre B cap (dadd D s) (tryReconstructSlice env b' s.slice).1 ∧
      (tryReconstructSlice env b' s.slice).2 = .complete := by
  have hnf : ¬ Full B D := not_full_of_lt B D s.slice hs.1 hc
  have hcomp : b'.completed = none := by rw [e7, hg.completed, if_neg hnf]
  have hsl : b'.slices s.slice = none := by rw [e6, hg.slices, if_neg (by omega)]
  have hsh : b'.shreds s.slice = some (upd (arrOf B D s.slice) s.idx (some s)) := by rw [e5]; simp [upd]
  have harr' : ∀ j x, upd (arrOf B D s.slice) s.idx (some s) j = some x → j < TOTAL_SHREDS ∧ x = B.shred s.slice j := by
    intro j x h
    simp only [upd] at h
    split at h
    · rename_i hj; subst hj; simp at h; subst h; exact ⟨hs.2.1, hs.2.2⟩
    · exact arrOf_honest B D s.slice j x h
  have hpar : ((B.rslice s.slice).parent.isNone && (B.rslice s.slice).slice == 0) = false := by
    obtain ⟨p, hp, _⟩ := hwf.fold
    by_cases h0 : s.slice = 0
    · rw [h0]; simp [HBlock.rslice, hp]
    · simp [HBlock.rslice, h0]
  have hfullarr : (fun j => if j < TOTAL_SHREDS then some (B.shred s.slice j)
        else upd (arrOf B D s.slice) s.idx (some s) j) = arrOf B (dadd D s) s.slice := by
    rw [arrOf_of_ge B _ _ hge]
    funext j
    split
    · rfl
    · rename_i hj
      simp only [upd]
      rw [if_neg (by have := hs.2.1; omega)]
      unfold arrOf
      rw [if_neg (by intro h; exact hj h.1)]
  unfold tryReconstructSlice
  simp only [hcomp, hsl, hsh, Option.isSome_none, Bool.false_eq_true, if_false]
  rw [deshred_ge B env cap hwf s.slice hs.1 _ harr' (by rw [present_len_upd B D s hs.2.1 hc]; exact hge)]
  simp only [hpar, Bool.false_eq_true, if_false]
  refine ⟨⟨by rw [e1]; exact hg.hcap, by rw [e2]; exact hg.hslot, by rw [e3]; exact hg.cache,
    by rw [e4]; exact hg.last, ?_, ?_, rfl, by simp only; rw [e8, hg.tree, if_neg hnf]⟩, trivial⟩
  · intro i
    simp only
    by_cases hi : i = s.slice
    · subst hi
      rw [upd_same, if_pos ⟨hs.1, cnt_add_pos D s hs.2.1⟩, hfullarr]
    · rw [upd_other _ _ _ _ hi, e5, upd_other _ _ _ _ hi]
      rw [hg.shreds i, cnt_add_other D s i hi, arrOf_add_other B D s i hi]
  · intro i
    simp only
    by_cases hi : i = s.slice
    · subst hi
      rw [upd_same, if_pos ⟨hs.1, hge⟩]
    · rw [upd_other _ _ _ _ hi, e6, hg.slices i, cnt_add_other D s i hi]
      apply ite_iff
      constructor
      · intro h; exact h.2
      · intro h; exact ⟨hnf, h⟩

theorem reconstruct_exact (B : HBlock) (env : Nat → Content) (cap : Nat) (hwf : B.WF env cap)
    (D : DSet) (b b' : BlockData) (s : Shred)
    (hg : Exact B cap (dadd D s) (dadd D s) D b) (hs : B.Honest s)
    (hc : cnt D s.slice < DATA_SHREDS)
    (e1 : b'.cap = b.cap) (e2 : b'.slot = b.slot) (e3 : b'.cache = b.cache) (e4 : b'.lastSlice = b.lastSlice)
    (e5 : b'.shreds = upd b.shreds s.slice (some (upd (arrOf B D s.slice) s.idx (some s))))
    (e6 : b'.slices = b.slices) (e7 : b'.completed = b.completed) (e8 : b'.tree = b.tree) :
    Exact B cap (dadd D s) (dadd D s) (dadd D s) (reconstruct env b' s.slice).1 ∧
      (reconstruct env b' s.slice).2 = if Full B (dadd D s) then .ev (.block B.block.info) else .none := by
  unfold reconstruct
  by_cases hlt : cnt (dadd D s) s.slice < DATA_SHREDS
  · rw [tryReconstructSlice_lt B env cap hwf D b b' s hg hs hlt e5 e6 e7]
    simp only
    exact ⟨exact_small B cap D b b' s hg hs hlt e1 e2 e3 e4 e5 e6 e7 e8,
      by rw [if_neg (not_full_of_lt B _ s.slice hs.1 hlt)]⟩
  · have h1 := tryReconstructSlice_ge B env cap hwf D b b' s hg hs hc (by omega) e1 e2 e3 e4 e5 e6 e7 e8
    cases hrs : tryReconstructSlice env b' s.slice with
    | mk b3 r3 =>
      rw [hrs] at h1
      simp only at h1 ⊢
      obtain ⟨hpre, rfl⟩ := h1
      simp only
      have h2 := tryReconstructBlock_exact B env cap hwf (dadd D s) b3 hpre
      cases hrb : tryReconstructBlock b3 with
      | mk b4 r4 =>
        rw [hrb] at h2
        simp only at h2 ⊢
        obtain ⟨hx, hr⟩ := h2
        by_cases hfull : Full B (dadd D s)
        · rw [if_pos hfull] at hr; subst hr
          simp only
          exact ⟨hx, by rw [if_pos hfull]⟩
        · rw [if_neg hfull] at hr; subst hr
          simp only
          exact ⟨hx, by rw [if_neg hfull]⟩

/-- the result of `add_shred` for a leader's shred `s` after the deliveries `D` -/
def resOf (B : HBlock) (D : DSet) (s : Shred) : AddRes :=
  if D s.slice s.idx = true ∨ DATA_SHREDS ≤ cnt D s.slice then .err .duplicate
  else if Empty B D then .ev .firstShred
  else if Full B (dadd D s) then .ev (.block B.block.info) else .none

theorem storeStep_exact (B : HBlock) (env : Nat → Content) (cap : Nat) (hwf : B.WF env cap)
    (D : DSet) (b : BlockData) (s : Shred)
    (hg : Exact B cap (dadd D s) (dadd D s) D b) (hs : B.Honest s) :
    Exact B cap (dadd D s) (dadd D s) (dadd D s) (storeStep env b s).1 ∧ (storeStep env b s).2 = resOf B D s := by
  have harr := getD_arr B cap _ _ D b s.slice hg hs.1
  have hsome : (arrOf B D s.slice s.idx).isSome = true ↔ (D s.slice s.idx = true ∨ DATA_SHREDS ≤ cnt D s.slice) := by
    unfold arrOf
    constructor
    · intro h
      split at h
      · rename_i hc; exact hc.2
      · simp at h
    · intro h
      rw [if_pos ⟨hs.2.1, h⟩]; rfl
  unfold storeStep
  simp only
  rw [harr]
  by_cases hdup : D s.slice s.idx = true ∨ DATA_SHREDS ≤ cnt D s.slice
  · rw [if_pos (hsome.mpr hdup)]
    simp only
    exact ⟨exact_dup B cap D b _ s hg hs hdup rfl rfl rfl rfl rfl rfl rfl rfl, by unfold resOf; rw [if_pos hdup]⟩
  · rw [if_neg (fun h => hdup (hsome.mp h))]
    have hD : D s.slice s.idx = false := by
      cases h : D s.slice s.idx with
      | false => rfl
      | true => exact absurd (Or.inl h) hdup
    have hc : cnt D s.slice < DATA_SHREDS := by
      have : ¬ DATA_SHREDS ≤ cnt D s.slice := fun h => hdup (Or.inr h)
      omega
    have hemp := mapEmpty_exact B env cap hwf _ _ D b hg
    by_cases he : Empty B D
    · rw [if_pos (hemp.mpr he)]
      simp only
      have hlt : cnt (dadd D s) s.slice < DATA_SHREDS := by
        rw [cnt_add_new D s hD hs.2.1, he s.slice hs.1]; exact data_shreds_gt_one
      exact ⟨exact_small B cap D b _ s hg hs hlt rfl rfl rfl rfl rfl rfl rfl rfl,
        by unfold resOf; rw [if_neg hdup, if_pos he]⟩
    · rw [if_neg (fun h => he (hemp.mp h))]
      have := reconstruct_exact B env cap hwf D b
        { b with shreds := upd b.shreds s.slice (some (upd (arrOf B D s.slice) s.idx (some s))) }
        s hg hs hc rfl rfl rfl rfl rfl rfl rfl rfl
      refine ⟨this.1, ?_⟩
      rw [this.2]
      unfold resOf
      rw [if_neg hdup, if_neg he]

/-- **The exact invariant**: one `add_shred` of a leader's shred moves the store from the state of
    the delivered set `D` to the state of `D ∪ {s}`, and answers `resOf B D s`. -/
theorem addShred_exact (B : HBlock) (env : Nat → Content) (cap : Nat) (hwf : B.WF env cap)
    (D : DSet) (b : BlockData) (s : Shred) (hg : Exact B cap D D D b) (hs : B.Honest s) :
    Exact B cap (dadd D s) (dadd D s) (dadd D s) (addShredCore env b s).1 ∧ (addShredCore env b s).2 = resOf B D s := by
  unfold addShredCore
  obtain ⟨b1, hc, hg1⟩ := cacheStep_exact B cap D b s hg hs
  rw [hc]
  simp only
  obtain ⟨b2, hl, hg2⟩ := lastStep_exact B cap D b1 s hg1 hs
  rw [hl]
  simp only
  exact storeStep_exact B env cap hwf D b2 s hg2 hs

end AgModel.Blockstore
