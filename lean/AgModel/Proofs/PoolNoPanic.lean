import AgModel.Proofs.PoolWiring
import AgModel.Proofs.PoolS2NGluePanic
/-!
# A pool whose ghost log stays consistent never emits `Event.panic` (C10 / C07 composition)

`Proofs/PoolS2NGluePanic.lean` reduces every `.panic` event of a pool operation to the events of the tracker sites
(`trackerEvents`: finality tracker, parent-ready tracker, the signer bound of `add_vote`, the slot-order assertion of
`add_block`); `Proofs/PoolWiring.lean` shows that under `Consistent` neither tracker panics (as statements about the
trackers: `Wired`, `fin_item_ok`).  This file joins the two: **if the log stays `Consistent` and the vote's signer is a
validator index, the operation emits no `.panic` event** (`poolStep_no_panic`), for every pool that is wired and satisfies
the flag invariant — in particular for every pool reachable from the empty pool (`poolRun_no_panic`).
-/
namespace AgModel.Pool
open AgModel

/-! ### the operations of the parent-ready tracker, one by one -/

/-- every operation of the list succeeds when applied in order from `t` -/
def prOk : ParentReady.Tracker → List ParentReady.Op → Prop
  | _, [] => True
  | t, op :: rest => ∃ t' a w, ParentReady.applyOp t op = .ok (t', a, w) ∧ prOk t' rest

/-- the tracker after the operations (a failing one leaves it unchanged) -/
def prAfter : ParentReady.Tracker → List ParentReady.Op → ParentReady.Tracker
  | t, [] => t
  | t, op :: rest =>
    match ParentReady.applyOp t op with
    | .ok (t', _, _) => prAfter t' rest
    | .error _ => prAfter t rest

theorem prOk_append (t : ParentReady.Tracker) (a b : List ParentReady.Op) :
    prOk t (a ++ b) ↔ prOk t a ∧ prOk (prAfter t a) b := by
  induction a generalizing t with
  | nil => simp [prOk, prAfter]
  | cons op a ih =>
    simp only [List.cons_append, prOk, prAfter]
    constructor
    · rintro ⟨t', x, w, e, h⟩
      refine ⟨⟨t', x, w, e, ((ih t').mp h).1⟩, ?_⟩
      rw [e]
      exact ((ih t').mp h).2
    · rintro ⟨⟨t', x, w, e, h1⟩, h2⟩
      rw [e] at h2
      exact ⟨t', x, w, e, (ih t').mpr ⟨h1, h2⟩⟩

open ParentReady in
/-- a successful run of further operations: each of them succeeded -/
theorem prOk_of_run {tr ops : List Op} {t : Tracker} {anns : List (Nat × (Nat × Nat))} {wk : List Wake} {st' : RunState}
    (h0 : run tr = .ok ⟨t, anns, wk⟩) (h1 : run (tr ++ ops) = .ok st') : prOk t ops := by
  induction ops generalizing tr t anns wk with
  | nil => trivial
  | cons op ops ih =>
    have e : tr ++ op :: ops = (tr ++ [op]) ++ ops := by simp
    rw [e] at h1
    have h2 : run (tr ++ [op]) = runStep (run tr) op := run_snoc tr op
    rw [h0] at h2
    simp only [runStep, RunState.step] at h2
    cases ha : applyOp t op with
    | error x =>
      rw [ha] at h2
      rw [run_append, h2, foldl_runStep_error] at h1
      cases h1
    | ok r =>
      obtain ⟨t', a, w⟩ := r
      rw [ha] at h2
      simp only at h2
      exact ⟨t', a, w, ha, ih h2 h1⟩

/-- **the parent-ready operations of a consistent next log item all succeed** on the wired tracker -/
theorem pr_item_ok {k : Trk} {L : List LogItem} (w : Wired k L) (it : LogItem) (hc : Consistent (L ++ [it])) :
    prOk k.pr (itemStep k.fin it).2 := by
  have hsr := safeRun_prTrace hc
  obtain ⟨fevs, _, ti⟩ := trace_inv _ hc.safe
  rcases ParentReady.reach_inv _ hsr with ⟨st, hst, _⟩ | ⟨_, hnd⟩
  · obtain ⟨anns, hpr⟩ := w.pr
    rw [prTrace_snoc, w.fin] at hst
    exact prOk_of_run hpr hst
  · exfalso
    rw [ti.nowait] at hnd
    exact hnd List.nodup_nil

/-! ### the events of the tracker sites -/

theorem prEvents_no_panic (anns : List (Nat × (Nat × Nat))) : Event.panic ∉ prEvents anns := by
  unfold prEvents
  intro h
  obtain ⟨a, _, e⟩ := List.mem_map.mp h
  cases e

/-- `handle_finalization` after a finality operation that did not panic, when the finalization batch succeeds: no
    `.panic` event, and the parent-ready tracker is the one after the batch and the prune -/
theorem handleFin_step_ok (q : Pool) (op : Finality.Op) (h1 : ∃ t ev, Finality.step q.fin op = .ok t ev)
    (h2 : prOk q.pr (finPart q.fin op).2) :
    Event.panic ∉ (q.handleFin (Finality.step q.fin op)).2 ∧
    (q.handleFin (Finality.step q.fin op)).1.pr = prAfter q.pr (finPart q.fin op).2 ∧
    (q.handleFin (Finality.step q.fin op)).1.fin = (finPart q.fin op).1 := by
  obtain ⟨t, ev, hs⟩ := h1
  unfold finPart at h2 ⊢
  rw [hs] at h2 ⊢
  simp only [prOk, ParentReady.applyOp] at h2
  obtain ⟨t1, a1, w1, e1, _⟩ := h2
  cases hf : ParentReady.handleFinalization q.pr ev with
  | none => rw [hf] at e1; cases e1
  | some r =>
    obtain ⟨t1', a1', w1'⟩ := r
    unfold Pool.handleFin Pool.applyPr
    simp only [hf, prAfter, ParentReady.applyOp]
    exact ⟨prEvents_no_panic _, rfl, rfl⟩

theorem applyPr_nf_ok (q : Pool) (b : Nat × Nat) (h : prOk q.pr [.nf b]) :
    Event.panic ∉ (q.applyPr (ParentReady.markNotarFallback q.pr b)).2 := by
  simp only [prOk, ParentReady.applyOp] at h
  obtain ⟨t1, a1, w1, e1, _⟩ := h
  cases hf : ParentReady.markNotarFallback q.pr b with
  | none => rw [hf] at e1; cases e1
  | some r => obtain ⟨x, y, z⟩ := r; unfold Pool.applyPr; exact prEvents_no_panic _

theorem applyPr_skip_ok (q : Pool) (s : Nat) (h : prOk q.pr [.skip s]) :
    Event.panic ∉ (q.applyPr (ParentReady.markSkipped q.pr s)).2 := by
  simp only [prOk, ParentReady.applyOp] at h
  obtain ⟨t1, a1, w1, e1, _⟩ := h
  cases hf : ParentReady.markSkipped q.pr s with
  | none => rw [hf] at e1; cases e1
  | some r => obtain ⟨x, y, z⟩ := r; unfold Pool.applyPr; exact prEvents_no_panic _

theorem stored_trk (p : Pool) (c : Cert) : (p.stored c).trk = p.trk := by
  unfold Pool.stored; rw [putSlot_trk, slotState_trk]

theorem finParts_single (t : Finality.Tracker) (op : Finality.Op) :
    finParts t [op] = ((finPart t op).1, (finPart t op).2) := by
  simp [finParts]

/-- **`add_valid_cert(c)` emits no tracker panic** when the pool is wired and the log extended by `c` is consistent -/
theorem cert_no_panic (q : Pool) (L : List LogItem) (c : Cert) (w : Wired q.trk L)
    (hc : Consistent (L ++ [.cert c])) : Event.panic ∉ q.certTrackerEvents c := by
  have hfin := fin_item_ok w (.cert c) hc
  have hpr := pr_item_ok w (.cert c) hc
  have hs := stored_trk q c
  have hsf : (q.stored c).fin = q.fin := congrArg Trk.fin hs
  have hsp : (q.stored c).pr = q.pr := congrArg Trk.pr hs
  rw [trk_fin] at hfin
  rw [trk_fin, trk_pr] at hpr
  unfold Pool.certTrackerEvents
  unfold itemStep at hpr
  cases hk : c.kind <;> simp only [hk, LogItem.finOp, LogItem.marks] at hfin hpr ⊢
  · -- notarization
    rw [finParts_single, prOk_append] at hpr
    obtain ⟨p1, p2⟩ := hpr
    have hstep : ∃ t ev, Finality.step (q.stored c).fin (.notar (c.slot, c.hash)) = .ok t ev := by
      rw [hsf]; exact hfin _ (List.mem_singleton.mpr rfl)
    have p1' : prOk (q.stored c).pr (finPart (q.stored c).fin (.notar (c.slot, c.hash))).2 := by rw [hsf, hsp]; exact p1
    obtain ⟨a1, a2, _⟩ := handleFin_step_ok (q.stored c) _ hstep p1'
    simp only [Finality.step] at a1 a2
    intro hm
    rcases List.mem_append.mp hm with hm | hm
    · exact a1 hm
    · have e : (((q.stored c).handleFin (Finality.markNotarized (q.stored c).fin (c.slot, c.hash))).1.notifyWaiting
          (c.slot, c.hash)).1.pr = prAfter q.pr (finPart q.fin (.notar (c.slot, c.hash))).2 := by
        have := congrArg Trk.pr (notifyWaiting_trk ((q.stored c).handleFin (Finality.markNotarized (q.stored c).fin (c.slot, c.hash))).1
          (c.slot, c.hash))
        rw [trk_pr, trk_pr, a2, hsf, hsp] at this
        rw [hsf]
        exact this
      refine applyPr_nf_ok _ (c.slot, c.hash) ?_ hm
      rw [e]; exact p2
  · -- notar-fallback
    simp only [finParts, List.nil_append] at hpr
    have e : ((q.stored c).notifyWaiting (c.slot, c.hash)).1.pr = q.pr := by
      have := congrArg Trk.pr (notifyWaiting_trk (q.stored c) (c.slot, c.hash))
      rw [trk_pr, trk_pr, hsp] at this
      exact this
    exact applyPr_nf_ok _ (c.slot, c.hash) (by rw [e]; exact hpr)
  · -- skip
    simp only [finParts, List.nil_append] at hpr
    exact applyPr_skip_ok _ c.slot (by rw [hsp]; exact hpr)
  · -- fast-finalization
    rw [finParts_single, List.append_nil] at hpr
    have hstep : ∃ t ev, Finality.step (q.stored c).fin (.fastFinal (c.slot, c.hash)) = .ok t ev := by
      rw [hsf]; exact hfin _ (List.mem_singleton.mpr rfl)
    have p1' : prOk (q.stored c).pr (finPart (q.stored c).fin (.fastFinal (c.slot, c.hash))).2 := by rw [hsf, hsp]; exact hpr
    exact (handleFin_step_ok (q.stored c) _ hstep p1').1
  · -- finalization
    rw [finParts_single, List.append_nil] at hpr
    have hstep : ∃ t ev, Finality.step (q.stored c).fin (.final c.slot) = .ok t ev := by
      rw [hsf]; exact hfin _ (List.mem_singleton.mpr rfl)
    have p1' : prOk (q.stored c).pr (finPart (q.stored c).fin (.final c.slot)).2 := by rw [hsf, hsp]; exact hpr
    exact (handleFin_step_ok (q.stored c) _ hstep p1').1

theorem certs_no_panic (cs : List Cert) (q : Pool) (L : List LogItem) (w : Wired q.trk L)
    (hc : Consistent (L ++ cs.map LogItem.cert)) : Event.panic ∉ q.certsTrackerEvents cs := by
  induction cs generalizing q L with
  | nil => simp [Pool.certsTrackerEvents]
  | cons c cs ih =>
    have e : L ++ (c :: cs).map LogItem.cert = (L ++ [.cert c]) ++ cs.map LogItem.cert := by simp
    rw [e] at hc
    simp only [Pool.certsTrackerEvents, List.mem_append, not_or]
    exact ⟨cert_no_panic q L c w hc.prefix, ih _ _ (addValidCert_wired q c L w hc.prefix) hc⟩

/-- `add_vote` answers `panic` only for a signer that is not a validator index -/
theorem addVote_panic_signer (p : Pool) (v : Vote) (h : (p.addVote v).2.1 = .panic) : p.epoch.n ≤ v.signer := by
  unfold Pool.addVote at h
  split at h
  · cases h
  split at h
  · rename_i hs; exact hs
  dsimp only at h
  split at h
  · cases h
  · split at h <;> cases h

/-- **One pool operation emits no `.panic` event**, provided the pool is wired to its log, satisfies the flag invariant,
    the log extended by the operation's items is `Consistent`, and a vote names a validator index (signature
    validation, C09). -/
theorem poolStep_no_panic (R : List Reg) (p : Pool) (op : PoolOp) (L : List LogItem) (hf : FlagInv R p) (w : Wired p.trk L)
    (hc : Consistent (L ++ stepItems op (poolStep p op).2)) (hsig : ∀ v, op = .vote v → v.signer < p.epoch.n) :
    Event.panic ∉ (poolStep p op).2 := by
  intro hp
  have ht := poolStep_panic_source R p op hf hp
  cases op with
  | vote v =>
    simp only [trackerEvents] at ht
    simp only [stepItems, poolStep, List.nil_append] at hc
    rcases addVote_out p v with ⟨h1, h2, _⟩ | ⟨h1, _⟩ | ⟨h1, h2⟩
    · cases hv : (p.addVote v).2.1 <;> rw [hv] at ht h1 h2 <;> simp at ht h1 h2
    · have := addVote_panic_signer p v h1
      have := hsig v rfl
      omega
    · rw [h1] at ht
      dsimp only at ht
      rw [h2, certsOf_append, certsOf_addValidCerts, certsOf_quiet (slot_addVote_quiet _ _ _)] at hc
      simp only [certsOf, List.filterMap_nil, List.nil_append, List.append_nil] at hc
      refine certs_no_panic _ _ L ?_ hc ht
      rw [putSlot_trk, slotState_trk]; exact w
  | cert c =>
    simp only [trackerEvents] at ht
    simp only [stepItems, poolStep, List.nil_append] at hc
    rcases addCert_out p c with ⟨h1, _⟩ | ⟨h1, h2⟩
    · cases hv : (p.addCert c).2.1 <;> rw [hv] at ht h1 <;> simp at ht h1
    · rw [h1] at ht
      dsimp only at ht
      rw [h2, certsOf_addValidCert] at hc
      exact cert_no_panic _ L c (by rw [slotState_trk]; exact w) hc ht
  | block b par =>
    have hitems : stepItems (.block b par) (poolStep p (.block b par)).2 = [.block b par] := by
      simp [stepItems, poolStep, certsOf_addBlock]
    rw [hitems] at hc
    have hlt : par.1 < b.1 := by
      apply hc.safe.link_lt b par
      show Finality.Op.parent b par ∈ finOps (L ++ [.block b par])
      rw [finOp_snoc]
      exact List.mem_append_right _ (List.mem_singleton.mpr rfl)
    have hfin := fin_item_ok w (.block b par) hc
    have hpr := pr_item_ok w (.block b par) hc
    rw [trk_fin] at hfin
    rw [trk_fin, trk_pr] at hpr
    simp only [LogItem.finOp] at hfin
    unfold itemStep at hpr
    simp only [LogItem.finOp, LogItem.marks, List.append_nil] at hpr
    rw [finParts_single] at hpr
    obtain ⟨t, ev, hs⟩ := hfin _ (List.mem_singleton.mpr rfl)
    simp only [Finality.step] at hs
    simp only [trackerEvents] at ht
    rw [if_neg (by omega), hs] at ht
    dsimp only at ht
    unfold finPart at hpr
    simp only [Finality.step, hs, prOk, ParentReady.applyOp] at hpr
    obtain ⟨t1, a1, w1, e1, _⟩ := hpr
    cases hfz : ParentReady.handleFinalization p.pr ev with
    | none => rw [hfz] at e1; cases e1
    | some r =>
      obtain ⟨x, y, z⟩ := r
      rw [hfz] at ht
      unfold Pool.applyPr at ht
      exact prEvents_no_panic _ ht

/-- the epoch is never touched (`addVote_epoch` of `Proofs/PoolGlue.lean` without its unused premise) -/
theorem addVote_epoch' (p : Pool) (v : Vote) : (p.addVote v).1.epoch = p.epoch := by
  unfold Pool.addVote
  split
  · rfl
  split
  · rfl
  have h0 := slotState_spec p v.slot (fun _ => True) (fun _ _ => trivial) trivial
  dsimp only
  split
  · exact h0.2.2.2.1
  · split
    · exact h0.2.2.2.1
    · have key : ∀ (cs : List Cert) (q : Pool) (acc : List Event), (q.addValidCerts cs acc).1.epoch = q.epoch := by
        intro cs
        induction cs with
        | nil => intro q acc; rfl
        | cons c cs ih =>
          intro q acc
          unfold Pool.addValidCerts
          dsimp only
          rw [ih]
          exact addValidCert_epoch q c
      rw [key]
      exact (putSlot_spec _ _ (fun _ => True) (fun _ _ => trivial) trivial).2.1.trans h0.2.2.2.1

theorem poolStep_epoch' (p : Pool) (op : PoolOp) : (poolStep p op).1.epoch = p.epoch := by
  cases op with
  | vote v => exact addVote_epoch' p v
  | cert c => exact addCert_epoch p c
  | block b par => exact addBlock_epoch p b par

/-- **Every run from the empty pool whose ghost log is `Consistent` and whose votes name validator indices emits no
    `.panic` event at all** — the finality tracker's "consensus safety violation" assertions, the parent-ready tracker's
    `add_to_ready` assertion, `add_block`'s slot-order assertion, the signer bound and the `parent not known` panic are all
    unreachable. -/
theorem poolRun_no_panic (e : Epoch) (ops : List PoolOp) (hc : Consistent (poolLog { epoch := e } ops))
    (hsig : ∀ v, PoolOp.vote v ∈ ops → v.signer < e.n) : Event.panic ∉ (poolRun { epoch := e } ops).2 := by
  have key : ∀ (ops : List PoolOp) (R : List Reg) (p : Pool) (L : List LogItem), FlagInv R p → Wired p.trk L →
      Consistent (L ++ poolLog p ops) → p.epoch = e →
      (∀ v, PoolOp.vote v ∈ ops → v.signer < e.n) → Event.panic ∉ (poolRun p ops).2 := by
    intro ops
    induction ops with
    | nil => intro R p L _ _ _ _ _ h; cases h
    | cons op ops ih =>
      intro R p L hf w hc he hsig
      simp only [poolLog] at hc
      rw [← List.append_assoc] at hc
      simp only [poolRun, List.mem_append, not_or]
      refine ⟨poolStep_no_panic R p op L hf w hc.prefix (fun v hv => by rw [he]; exact hsig v (by rw [hv]; simp)), ?_⟩
      exact ih _ _ _ (poolStep_flag R p op hf) (poolStep_wired p op L w hc.prefix) hc
        ((poolStep_epoch' p op).trans he) (fun v hv => hsig v (by simp [hv]))
  exact key ops [] { epoch := e } [] (FlagInv.init e) (Wired.init e) (by simpa using hc) rfl hsig

end AgModel.Pool
