import AgModel.Proofs.PoolGlue
import AgModel.Proofs.PoolS2NComplete
import AgModel.Proofs.FinalityEvents
/-! Pool-level glue for C06, part 1: what every primitive pool transformer (`slotState`, `putSlot`, `prune`, the
    waiting-map updates) does to the three *views* the invariants read — `getSlot`, the waiting map (`kidsOf`
    and its entries) and the pruning watermark `fin.first` — and induction principles that expose the call
    structure of `addValidCert`, `addVote`, `addCert`, `addBlock` once, for any invariant. -/
namespace AgModel.Pool

/-! ### `getSlot` -/

theorem getSlot_slot {p : Pool} {s : Nat} {st : SlotState} (h : p.getSlot s = some st) : st.slot = s :=
  (getSlot_mem p s st h).2

theorem find_slot_append_single (l : List SlotState) (st : SlotState) (s' : Nat)
    (hn : l.find? (·.slot == st.slot) = none) :
    (l ++ [st]).find? (·.slot == s') = if s' = st.slot then some st else l.find? (·.slot == s') := by
  rw [List.find?_append]
  by_cases h : s' = st.slot
  · subst h
    simp [hn]
  · have : (st.slot == s') = false := by
      simp only [beq_eq_false_iff_ne, ne_eq]; exact fun e => h e.symm
    simp only [h, if_false, List.find?_cons, this, List.find?_nil, Option.or_none]

theorem getSlot_slotState (p : Pool) (s s' : Nat) :
    (p.slotState s).1.getSlot s' = if s' = s then some (p.slotState s).2 else p.getSlot s' := by
  unfold Pool.slotState
  split
  · rename_i st hg
    by_cases h : s' = s
    · subst h; simp only [if_true]; exact hg
    · simp only [h, if_false]
  · rename_i hg
    unfold Pool.getSlot at hg ⊢
    exact find_slot_append_single p.slots { slot := s } s' hg

theorem slotState_snd_of_some {p : Pool} {s : Nat} {st : SlotState} (h : p.getSlot s = some st) :
    (p.slotState s).2 = st := by
  unfold Pool.slotState; rw [h]

theorem slotState_snd_of_none {p : Pool} {s : Nat} (h : p.getSlot s = none) :
    (p.slotState s).2 = { slot := s } := by
  unfold Pool.slotState; rw [h]

theorem slotState_snd_slot (p : Pool) (s : Nat) : (p.slotState s).2.slot = s := by
  cases h : p.getSlot s with
  | none => rw [slotState_snd_of_none h]
  | some st => rw [slotState_snd_of_some h]; exact getSlot_slot h

theorem slotState_frame (p : Pool) (s : Nat) :
    (p.slotState s).1.epoch = p.epoch ∧ (p.slotState s).1.fin = p.fin ∧ (p.slotState s).1.waiting = p.waiting := by
  unfold Pool.slotState; split <;> exact ⟨rfl, rfl, rfl⟩

theorem find_slot_replace (l : List SlotState) (st : SlotState) (s' : Nat) :
    (l.map (fun x => if x.slot == st.slot then st else x)).find? (·.slot == s') =
      if s' = st.slot then (if l.any (·.slot == st.slot) then some st else none) else l.find? (·.slot == s') := by
  induction l with
  | nil => simp
  | cons a as ih =>
    simp only [List.map_cons, List.find?_cons, List.any_cons]
    by_cases ha : a.slot = st.slot
    · have ha' : (a.slot == st.slot) = true := by simpa using ha
      simp only [ha', if_true, Bool.true_or]
      by_cases h : s' = st.slot
      · subst h; simp
      · have : (st.slot == s') = false := by
          simp only [beq_eq_false_iff_ne, ne_eq]; exact fun e => h e.symm
        have h2 : (a.slot == s') = false := by rw [ha]; exact this
        simp only [this, h2, h, if_false]
        rw [ih]; simp only [h, if_false]
    · have ha' : (a.slot == st.slot) = false := by simpa using ha
      simp only [ha', Bool.false_eq_true, if_false, Bool.false_or]
      by_cases h : s' = st.slot
      · subst h
        simp only [ha', if_true]
        rw [ih]; simp
      · simp only [h, if_false]
        rw [ih]; simp only [h, if_false]

theorem getSlot_putSlot (p : Pool) (st : SlotState) (s' : Nat) :
    (p.putSlot st).getSlot s' = if s' = st.slot then some st else p.getSlot s' := by
  unfold Pool.putSlot
  split
  · rename_i hany
    unfold Pool.getSlot
    dsimp only
    rw [find_slot_replace]
    simp only [hany, if_true]
  · rename_i hany
    unfold Pool.getSlot
    dsimp only
    apply find_slot_append_single
    rw [List.find?_eq_none]
    intro x hx hc
    apply hany
    simp only [List.any_eq_true]
    exact ⟨x, hx, hc⟩

theorem putSlot_frame (p : Pool) (st : SlotState) :
    (p.putSlot st).epoch = p.epoch ∧ (p.putSlot st).fin = p.fin ∧ (p.putSlot st).waiting = p.waiting := by
  unfold Pool.putSlot; split <;> exact ⟨rfl, rfl, rfl⟩

theorem find_slot_filter (l : List SlotState) (f s' : Nat) :
    (l.filter (·.slot ≥ f)).find? (·.slot == s') = if f ≤ s' then l.find? (·.slot == s') else none := by
  induction l with
  | nil => simp
  | cons a as ih =>
    simp only [List.filter_cons]
    by_cases ha : a.slot ≥ f
    · simp only [ha, decide_true, if_true, List.find?_cons]
      by_cases h : a.slot = s'
      · have h' : (a.slot == s') = true := by simpa using h
        have : f ≤ s' := by omega
        simp [h', this]
      · have h' : (a.slot == s') = false := by simpa using h
        simp only [h']; exact ih
    · simp only [ha, decide_false, Bool.false_eq_true, if_false, List.find?_cons]
      by_cases h : a.slot = s'
      · have : ¬ f ≤ s' := by omega
        rw [ih]; simp [this]
      · have h' : (a.slot == s') = false := by simpa using h
        simp only [h']; exact ih

theorem getSlot_prune (p : Pool) (s' : Nat) :
    p.prune.getSlot s' = if p.fin.first ≤ s' then p.getSlot s' else none := by
  unfold Pool.prune Pool.getSlot
  exact find_slot_filter p.slots p.fin.first s'

theorem getSlot_applyPr (p : Pool) (r : ParentReady.Res) (s : Nat) : (p.applyPr r).1.getSlot s = p.getSlot s := by
  unfold Pool.applyPr; split <;> rfl

theorem applyPr_frame (p : Pool) (r : ParentReady.Res) :
    (p.applyPr r).1.epoch = p.epoch ∧ (p.applyPr r).1.fin = p.fin ∧ (p.applyPr r).1.waiting = p.waiting := by
  unfold Pool.applyPr; split <;> exact ⟨rfl, rfl, rfl⟩

theorem getSlot_addWaiting (p : Pool) (par b : Nat × Nat) (s : Nat) : (Pool.addWaiting p par b).getSlot s = p.getSlot s := by
  unfold Pool.addWaiting; split <;> rfl

theorem addWaiting_frame (p : Pool) (par b : Nat × Nat) :
    (Pool.addWaiting p par b).epoch = p.epoch ∧ (Pool.addWaiting p par b).fin = p.fin := by
  unfold Pool.addWaiting; split <;> exact ⟨rfl, rfl⟩

/-! ### the waiting map -/

abbrev WMap := List ((Nat × Nat) × List (Nat × Nat))

/-- the children waiting for a certificate of `par` (what `notify_waiting_children` iterates over) -/
def kidsOf (p : Pool) (par : Nat × Nat) : List (Nat × Nat) := (p.waiting.lookup par).getD []

theorem lookup_mem_entry (w : WMap) (par : Nat × Nat) (kids : List (Nat × Nat)) (h : w.lookup par = some kids) :
    (par, kids) ∈ w := by
  induction w with
  | nil => simp at h
  | cons a as ih =>
    obtain ⟨k, v⟩ := a
    by_cases hk : par = k
    · subst hk
      simp only [List.lookup_cons_self] at h
      cases h; simp
    · have : (par == k) = false := by simpa using hk
      simp only [List.lookup, this] at h
      exact List.mem_cons_of_mem _ (ih h)

theorem kidsOf_entry {p : Pool} {par k : Nat × Nat} (h : k ∈ kidsOf p par) :
    ∃ kids, (par, kids) ∈ p.waiting ∧ k ∈ kids := by
  unfold kidsOf at h
  cases hl : p.waiting.lookup par with
  | none => rw [hl] at h; simp at h
  | some kids => rw [hl] at h; exact ⟨kids, lookup_mem_entry _ _ _ hl, h⟩

/-- the waiting map after `prune` with watermark `f` -/
def pruneW (w : WMap) (f : Nat) : WMap :=
  (w.map (fun x => (x.1, x.2.filter (·.1 ≥ f)))).filter (fun x => !x.2.isEmpty)

theorem prune_waiting (p : Pool) : p.prune.waiting = pruneW p.waiting p.fin.first := rfl

theorem pruneW_entry (w : WMap) (f : Nat) (par : Nat × Nat) (kids' : List (Nat × Nat)) (h : (par, kids') ∈ pruneW w f) :
    ∃ kids, (par, kids) ∈ w ∧ ∀ k ∈ kids', k ∈ kids := by
  unfold pruneW at h
  obtain ⟨h1, _⟩ := List.mem_filter.mp h
  obtain ⟨x, hx, he⟩ := List.mem_map.mp h1
  obtain ⟨a, b⟩ := x
  simp only [Prod.mk.injEq] at he
  obtain ⟨rfl, rfl⟩ := he
  exact ⟨b, hx, fun k hk => (List.mem_filter.mp hk).1⟩

theorem pruneW_lookup (w : WMap) (f : Nat) (par b : Nat × Nat) (hb : b ∈ (w.lookup par).getD []) (hf : f ≤ b.1) :
    b ∈ ((pruneW w f).lookup par).getD [] := by
  induction w with
  | nil => simp at hb
  | cons a as ih =>
    obtain ⟨k, v⟩ := a
    unfold pruneW at ih ⊢
    simp only [List.map_cons, List.filter_cons]
    by_cases hk : par = k
    · subst hk
      simp only [List.lookup_cons_self, Option.getD_some] at hb
      have hmem : b ∈ v.filter (·.1 ≥ f) := List.mem_filter.mpr ⟨hb, by simpa using hf⟩
      have hne : (!(v.filter (·.1 ≥ f)).isEmpty) = true := by
        cases hv : v.filter (·.1 ≥ f) with
        | nil => rw [hv] at hmem; cases hmem
        | cons _ _ => rfl
      simp only [hne, if_true, List.lookup_cons_self, Option.getD_some]
      exact hmem
    · have hk' : (par == k) = false := by simpa using hk
      simp only [List.lookup, hk'] at hb
      split
      · simp only [List.lookup, hk']; exact ih hb
      · exact ih hb

theorem kidsOf_prune {p : Pool} {par b : Nat × Nat} (hb : b ∈ kidsOf p par) (hf : p.fin.first ≤ b.1) :
    b ∈ kidsOf p.prune par := by
  unfold kidsOf; rw [prune_waiting]; exact pruneW_lookup _ _ _ _ hb hf

theorem lookup_filter_ne (w : WMap) (b par : Nat × Nat) :
    (w.filter (·.1 ≠ b)).lookup par = if par = b then none else w.lookup par := by
  induction w with
  | nil => simp
  | cons a as ih =>
    obtain ⟨k, v⟩ := a
    simp only [List.filter_cons]
    by_cases hk : k = b
    · subst hk
      simp only [ne_eq, not_true_eq_false, decide_false, Bool.false_eq_true, if_false]
      rw [ih]
      by_cases hp : par = k
      · simp [hp]
      · have : (par == k) = false := by simpa using hp
        simp only [hp, if_false, List.lookup, this]
    · simp only [ne_eq, hk, not_false_eq_true, decide_true, if_true]
      by_cases hp : par = k
      · subst hp
        simp only [List.lookup_cons_self, hk, if_false]
      · have : (par == k) = false := by simpa using hp
        simp only [List.lookup, this]
        exact ih

theorem addWaiting_waiting (p : Pool) (par b : Nat × Nat) :
    (Pool.addWaiting p par b).waiting =
      if p.waiting.any (·.1 == par) then p.waiting.map (fun w => if w.1 == par then (w.1, w.2 ++ [b]) else w)
      else p.waiting ++ [(par, [b])] := by
  unfold Pool.addWaiting; split <;> rfl

theorem addWaiting_entry (p : Pool) (par b par' : Nat × Nat) (kids' : List (Nat × Nat))
    (h : (par', kids') ∈ (Pool.addWaiting p par b).waiting) :
    (par', kids') ∈ p.waiting ∨ (par' = par ∧ ∀ k ∈ kids', k = b ∨ ∃ kids, (par, kids) ∈ p.waiting ∧ k ∈ kids) := by
  rw [addWaiting_waiting] at h
  split at h
  · obtain ⟨x, hx, he⟩ := List.mem_map.mp h
    obtain ⟨a, v⟩ := x
    by_cases ha : a = par
    · subst ha
      simp only [BEq.rfl, if_true, Prod.mk.injEq] at he
      obtain ⟨rfl, rfl⟩ := he
      right
      refine ⟨rfl, fun k hk => ?_⟩
      rcases List.mem_append.mp hk with hk | hk
      · exact Or.inr ⟨v, hx, hk⟩
      · simp at hk; exact Or.inl hk
    · have : (a == par) = false := by simpa using ha
      simp only [this, Bool.false_eq_true, if_false] at he
      rw [← he]; exact Or.inl hx
  · rcases List.mem_append.mp h with h | h
    · exact Or.inl h
    · simp only [List.mem_singleton, Prod.mk.injEq] at h
      obtain ⟨rfl, rfl⟩ := h
      right
      refine ⟨rfl, fun k hk => ?_⟩
      simp at hk; exact Or.inl hk

theorem lookup_map_append (w : WMap) (par b par' : Nat × Nat) :
    (w.map (fun x => if x.1 == par then (x.1, x.2 ++ [b]) else x)).lookup par' =
      if par' = par then (w.lookup par').map (· ++ [b]) else w.lookup par' := by
  induction w with
  | nil => simp
  | cons a as ih =>
    obtain ⟨k, v⟩ := a
    simp only [List.map_cons]
    by_cases hk : k = par
    · subst hk
      simp only [BEq.rfl, if_true]
      by_cases hp : par' = k
      · subst hp; simp
      · have : (par' == k) = false := by simpa using hp
        simp only [List.lookup, this, hp, if_false]
        rw [ih]; simp only [hp, if_false]
    · have hk' : (k == par) = false := by simpa using hk
      simp only [hk', Bool.false_eq_true, if_false]
      by_cases hp : par' = k
      · subst hp
        simp only [List.lookup_cons_self, hk, if_false]
      · have : (par' == k) = false := by simpa using hp
        simp only [List.lookup, this]
        exact ih

theorem lookup_append_new (w : WMap) (par par' : Nat × Nat) (v : List (Nat × Nat)) (hn : w.any (·.1 == par) = false) :
    (w ++ [(par, v)]).lookup par' = if par' = par then some v else w.lookup par' := by
  induction w with
  | nil =>
    by_cases hp : par' = par
    · subst hp; simp
    · have : (par' == par) = false := by simpa using hp
      simp [List.lookup, this, hp]
  | cons a as ih =>
    obtain ⟨k, x⟩ := a
    simp only [List.any_cons, Bool.or_eq_false_iff] at hn
    have hk : ¬ k = par := by simpa using hn.1
    by_cases hp : par' = k
    · subst hp
      simp only [List.cons_append, List.lookup_cons_self, hk, if_false]
    · have : (par' == k) = false := by simpa using hp
      simp only [List.cons_append, List.lookup, this]
      exact ih hn.2

/-- `addWaiting` only adds: every waiting child keeps waiting, and the new child waits for its parent -/
theorem kidsOf_addWaiting (p : Pool) (par b : Nat × Nat) :
    (∀ par' k, k ∈ kidsOf p par' → k ∈ kidsOf (Pool.addWaiting p par b) par') ∧ b ∈ kidsOf (Pool.addWaiting p par b) par := by
  unfold kidsOf
  rw [addWaiting_waiting]
  split
  · constructor
    · intro par' k hk
      rw [lookup_map_append]
      split
      · cases hl : p.waiting.lookup par' with
        | none => rw [hl] at hk; simp at hk
        | some v => rw [hl] at hk; simp only [Option.map_some, Option.getD_some, List.mem_append]; exact Or.inl hk
      · exact hk
    · rename_i hany
      rw [lookup_map_append]
      simp only [if_true]
      cases hl : p.waiting.lookup par with
      | none =>
        exfalso
        obtain ⟨x, hx, he⟩ := List.any_eq_true.mp hany
        have he' : x.1 = par := by simpa using he
        rw [List.lookup_eq_none_iff] at hl
        have := hl x hx
        simp [he'] at this
      | some v => simp
  · rename_i hany
    have hany' : p.waiting.any (·.1 == par) = false := by simpa only [Bool.not_eq_true] using hany
    constructor
    · intro par' k hk
      rw [lookup_append_new _ _ _ _ hany']
      split
      · rename_i he
        subst he
        exfalso
        cases hl : p.waiting.lookup par' with
        | none => rw [hl] at hk; simp at hk
        | some v =>
          have hm := lookup_mem_entry _ _ _ hl
          have : p.waiting.any (·.1 == par') = true := List.any_eq_true.mpr ⟨_, hm, by simp⟩
          rw [hany'] at this; cases this
      · exact hk
    · rw [lookup_append_new _ _ _ _ hany']
      simp

/-! ### the watermark only moves forward -/

theorem fin_first_mono {t : Finality.Tracker} {op : Finality.Op} {t' : Finality.Tracker} {ev : Finality.Event}
    (h : Finality.step t op = .ok t' ev) : t.first ≤ t'.first := by
  obtain ⟨m, me, hm⟩ := Finality.step_mid h
  rcases hm with ⟨rfl, _⟩ | rfl
  · rw [me.first]; exact Nat.le_refl _
  · rw [← me.first]; exact Finality.advance_ge _ _ _

/-! ### induction principles: the call structure of the pool operations, once -/

/-- a new finality-tracker state is installed, the parent-ready tracker is told, then `prune()` -/
def Pool.advance (p : Pool) (t : Finality.Tracker) (r : ParentReady.Res) : Pool :=
  (({ p with fin := t } : Pool).applyPr r).1.prune

theorem advance_fin (p : Pool) (t : Finality.Tracker) (r : ParentReady.Res) : (p.advance t r).fin = t := by
  unfold Pool.advance Pool.prune
  exact (applyPr_frame _ r).2.1

theorem advance_epoch (p : Pool) (t : Finality.Tracker) (r : ParentReady.Res) : (p.advance t r).epoch = p.epoch := by
  unfold Pool.advance Pool.prune
  exact (applyPr_frame _ r).1

theorem getSlot_advance (p : Pool) (t : Finality.Tracker) (r : ParentReady.Res) (s : Nat) :
    (p.advance t r).getSlot s = if t.first ≤ s then p.getSlot s else none := by
  unfold Pool.advance
  rw [getSlot_prune, getSlot_applyPr, (applyPr_frame _ r).2.1]
  rfl

theorem advance_waiting (p : Pool) (t : Finality.Tracker) (r : ParentReady.Res) :
    (p.advance t r).waiting = pruneW p.waiting t.first := by
  unfold Pool.advance
  rw [prune_waiting, (applyPr_frame _ r).2.1, (applyPr_frame _ r).2.2]

theorem kidsOf_advance {p : Pool} (t : Finality.Tracker) (r : ParentReady.Res) {par b : Nat × Nat}
    (hb : b ∈ kidsOf p par) (hf : t.first ≤ b.1) : b ∈ kidsOf (p.advance t r) par := by
  unfold kidsOf; rw [advance_waiting]; exact pruneW_lookup _ _ _ _ hb hf

/-- `handle_finalization` either leaves the pool alone (tracker panic) or advances it to a later watermark -/
theorem handleFin_cases (p : Pool) (op : Finality.Op) :
    (p.handleFin (Finality.step p.fin op)).1 = p ∨
    ∃ t r, p.fin.first ≤ t.first ∧ (p.handleFin (Finality.step p.fin op)).1 = p.advance t r := by
  unfold Pool.handleFin
  split
  · exact Or.inl rfl
  · rename_i t ev hst
    right
    exact ⟨t, _, fin_first_mono hst, rfl⟩

/-- the call structure of `add_valid_cert`: store the certificate (`J` afterwards), finality handling, wake the
    children waiting for the certified block (back to `I`), parent-ready bookkeeping -/
theorem addValidCert_ind (c : Cert) (p : Pool) (I J : Pool → Prop)
    (hstore : J ((p.slotState c.slot).1.putSlot ((p.slotState c.slot).2.addCert c)))
    (hadv : ∀ q t r, q.fin.first ≤ t.first → J q → J (q.advance t r))
    (hprJ : ∀ q r, J q → J (q.applyPr r).1)
    (hprI : ∀ q r, I q → I (q.applyPr r).1)
    (hwake : (c.kind = .notar ∨ c.kind = .nf ∨ c.kind = .ff) → ∀ q, J q → I (q.notifyWaiting (c.slot, c.hash)).1)
    (hweak : (c.kind = .skip ∨ c.kind = .final) → ∀ q, J q → I q) :
    I (p.addValidCert c).1 := by
  have hfin : ∀ q op, J q → J (q.handleFin (Finality.step q.fin op)).1 := by
    intro q op hq
    rcases handleFin_cases q op with h | ⟨t, r, hm, h⟩
    · rw [h]; exact hq
    · rw [h]; exact hadv q t r hm hq
  unfold Pool.addValidCert
  dsimp only
  generalize ((p.slotState c.slot).1.putSlot ((p.slotState c.slot).2.addCert c)) = p1 at hstore
  cases hk : c.kind <;> dsimp only
  · simp only [show (CertKind.notar == CertKind.notar) = true from rfl, if_true]
    exact hprI _ _ (hwake (Or.inl hk) _ (hfin p1 (.notar (c.slot, c.hash)) hstore))
  · simp only [show (CertKind.nf == CertKind.notar) = false from rfl, Bool.false_eq_true, if_false]
    exact hprI _ _ (hwake (Or.inr (Or.inl hk)) _ hstore)
  · exact hweak (Or.inl hk) _ (hprJ _ _ hstore)
  · exact hwake (Or.inr (Or.inr hk)) _ (hfin p1 (.fastFinal (c.slot, c.hash)) hstore)
  · exact hweak (Or.inr hk) _ (hfin p1 (.final c.slot) hstore)

theorem addValidCerts_ind (I : Pool → Prop) (cs : List Cert) (p : Pool) (acc : List Event)
    (hvc : ∀ c ∈ cs, ∀ q, I q → I (q.addValidCert c).1) (hp : I p) : I (p.addValidCerts cs acc).1 := by
  induction cs generalizing p acc with
  | nil => exact hp
  | cons c cs ih =>
    unfold Pool.addValidCerts
    dsimp only
    exact ih _ _ (fun c' hc' => hvc c' (by simp [hc'])) (hvc c (by simp) p hp)

theorem addValidCert_event (p : Pool) (c : Cert) : Event.cert c ∈ (p.addValidCert c).2 := by
  unfold Pool.addValidCert
  dsimp only
  simp

theorem addValidCerts_events (cs : List Cert) (p : Pool) (acc : List Event) :
    (∀ ev ∈ acc, ev ∈ (p.addValidCerts cs acc).2) ∧ ∀ c ∈ cs, Event.cert c ∈ (p.addValidCerts cs acc).2 := by
  induction cs generalizing p acc with
  | nil => exact ⟨fun ev h => h, fun c h => by cases h⟩
  | cons c cs ih =>
    unfold Pool.addValidCerts
    dsimp only
    obtain ⟨h1, h2⟩ := ih (p.addValidCert c).1 (acc ++ (p.addValidCert c).2)
    refine ⟨fun ev h => h1 ev (List.mem_append_left _ h), fun c' hc' => ?_⟩
    rcases List.mem_cons.mp hc' with rfl | hc'
    · exact h1 _ (List.mem_append_right _ (addValidCert_event p c'))
    · exact h2 c' hc'

/-- the three ways `Pool::add_vote` can end -/
theorem addVote_cases (p : Pool) (v : Vote) :
    (p.addVote v).1 = p ∨ (p.addVote v).1 = (p.slotState v.slot).1 ∨
    (Adm (p.slotState v.slot).2 v ∧
      (p.addVote v).1 = (((p.slotState v.slot).1.putSlot ((p.slotState v.slot).2.addVote p.epoch v).1).addValidCerts
        ((p.slotState v.slot).2.addVote p.epoch v).2.1 []).1 ∧
      ∀ c ∈ ((p.slotState v.slot).2.addVote p.epoch v).2.1, Event.cert c ∈ (p.addVote v).2.2) := by
  unfold Pool.addVote
  split
  · exact Or.inl rfl
  split
  · exact Or.inl rfl
  dsimp only
  split
  · exact Or.inr (Or.inl rfl)
  · rename_i hsl
    split
    · exact Or.inr (Or.inl rfl)
    · rename_i hig
      have ha : Adm (p.slotState v.slot).2 v := ⟨hsl, by simpa using hig⟩
      have hep : (p.slotState v.slot).1.epoch = p.epoch := (slotState_frame p v.slot).1
      rw [hep]
      refine Or.inr (Or.inr ⟨ha, rfl, fun c hc => ?_⟩)
      exact List.mem_append_left _ ((addValidCerts_events _ _ _).2 c hc)

/-- the call structure of `Pool::add_vote` -/
theorem addVote_ind (I : Pool → Prop) (p : Pool) (v : Vote)
    (hss : ∀ s, I p → I (p.slotState s).1)
    (hput : Adm (p.slotState v.slot).2 v → I (p.slotState v.slot).1 →
      I ((p.slotState v.slot).1.putSlot ((p.slotState v.slot).2.addVote p.epoch v).1))
    (hvc : ∀ c ∈ ((p.slotState v.slot).2.addVote p.epoch v).2.1, Event.cert c ∈ (p.addVote v).2.2 →
      ∀ q, I q → I (q.addValidCert c).1)
    (hp : I p) : I (p.addVote v).1 := by
  rcases addVote_cases p v with h | h | ⟨ha, h, hev⟩
  · rw [h]; exact hp
  · rw [h]; exact hss _ hp
  · rw [h]
    exact addValidCerts_ind I _ _ _ (fun c hc => hvc c hc (hev c hc)) (hput ha (hss _ hp))

/-- the three ways `Pool::add_cert` can end -/
theorem addCert_cases (p : Pool) (c : Cert) :
    (p.addCert c).1 = p ∨ (p.addCert c).1 = (p.slotState c.slot).1 ∨
    ((p.addCert c).1 = ((p.slotState c.slot).1.addValidCert c).1 ∧ Event.cert c ∈ (p.addCert c).2.2) := by
  unfold Pool.addCert
  split
  · exact Or.inl rfl
  dsimp only
  split <;> split
  all_goals first
    | exact Or.inr (Or.inl rfl)
    | exact Or.inr (Or.inr ⟨rfl, addValidCert_event _ c⟩)

/-- the call structure of `Pool::add_cert` -/
theorem addCert_ind (I : Pool → Prop) (p : Pool) (c : Cert)
    (hss : ∀ s, I p → I (p.slotState s).1)
    (hvc : Event.cert c ∈ (p.addCert c).2.2 → ∀ q, I q → I (q.addValidCert c).1)
    (hp : I p) : I (p.addCert c).1 := by
  rcases addCert_cases p c with h | h | ⟨h, hev⟩
  · rw [h]; exact hp
  · rw [h]; exact hss _ hp
  · rw [h]; exact hvc hev _ (hss _ hp)

/-- the tracker accepted the registration `b → par` -/
def accepted (p : Pool) (b par : Nat × Nat) : Prop :=
  b.1 > par.1 ∧ ∃ t ev, Finality.addParent p.fin b par = .ok t ev

instance (p : Pool) (b par : Nat × Nat) : Decidable (accepted p b par) := by
  unfold accepted
  cases h : Finality.addParent p.fin b par with
  | panic => exact isFalse (fun ⟨_, t, ev, h'⟩ => by cases h')
  | ok t ev => exact decidable_of_iff (b.1 > par.1) ⟨fun a => ⟨a, t, ev, rfl⟩, fun a => a.1⟩

/-- the pool after `add_block` made the block known in its slot -/
def Pool.known (q : Pool) (b : Nat × Nat) : Pool :=
  (q.slotState b.1).1.putSlot ((q.slotState b.1).2.notifyParentKnown b.2)

/-- `add_block`'s test "the pool holds a notar-fallback-or-stronger certificate for the parent" -/
def Pool.certifiedB (q : Pool) (par : Nat × Nat) : Bool :=
  match q.getSlot par.1 with
  | some ps => ps.isNfOrStronger par.2
  | none => false

/-- the call structure of `Pool::add_block`: refused registrations leave the pool alone (`hrej`); otherwise the
    watermark advances, blocks of decided slots are dropped, the block is made known in its slot and the tail either
    certifies it or queues it -/
theorem addBlock_ind (I : Pool → Prop) (p : Pool) (b par : Nat × Nat)
    (hrej : ¬ accepted p b par → I p)
    (hacc : accepted p b par → ∀ t r, p.fin.first ≤ t.first →
      (t.first ≤ b.1 → ∀ e0, I (Pool.addBlockTail ((p.advance t r).known b) b par e0 (((p.advance t r).known b).certifiedB par)).1) ∧
      (b.1 < t.first → I (p.advance t r))) :
    I (p.addBlock b par).1 := by
  unfold Pool.addBlock
  split
  · rename_i hgt
    exact hrej (fun a => hgt a.1)
  rename_i hgt
  have hgt' : b.1 > par.1 := by omega
  split
  · rename_i hst
    exact hrej (fun ⟨_, t, ev, a⟩ => by rw [hst] at a; cases a)
  rename_i t ev hst
  have hmono : p.fin.first ≤ t.first := fin_first_mono (op := .parent b par) hst
  obtain ⟨h1, h2⟩ := hacc ⟨hgt', t, ev, hst⟩ t (ParentReady.handleFinalization p.pr ev) hmono
  dsimp only
  have hfin : (p.advance t (ParentReady.handleFinalization p.pr ev)).fin = t := advance_fin _ _ _
  unfold Pool.known Pool.certifiedB Pool.advance at h1
  unfold Pool.advance at h2 hfin
  split
  · rename_i hlt
    rw [hfin] at hlt
    exact h2 hlt
  · rename_i hge
    rw [hfin] at hge
    exact h1 (by omega) _

end AgModel.Pool
