import AgModel.Props.C01Cluster
/-!
# C10 cluster composition, part 1: every certified block descends from *the* genesis block

The history `histOf` identifies all ids `(0, h)` with the genesis block (`Blk.mk'`), so the protocol-level theorems say nothing
about a block that names a parent `(0, h)` with `h ≠ 0` — "the hash binds the parent" allows a Byzantine leader to sign such
a block. The trackers inside the pool work on raw ids: a finalized block `(0, h)` with `h ≠ 0` would violate the `genesis`
clause of `Pool.Consistent` (and the parent-ready tracker's genesis mark). This file shows that it cannot happen.

* `RAnc c a b`: `a` is `b` or a raw ancestor of `b` along `parentOf` (only links to strictly earlier slots count);
* `GOK c b`: every raw ancestor of `b` (and `b` itself) in slot 0 is `(0, 0)`;
* `tp0 c`: the abstract tracker predicates of `Proofs/PoolReady.lean` instantiated with `GOK` — every block a pool's trackers
  ever hold (notarized, finalized, ready parent, …) is `GOK`;
* `votes_gok`: in every valid run with less than 20 % Byzantine stake every block a correct validator voted to notarize or
  notar-fallback is `GOK`; `GInv.run`: the tracker invariants; `backed_gok`: so is every block with a backed notarization,
  notar-fallback or fast-finalization certificate.

(No safety hypothesis is needed for this: only that a certificate has a correct signer.)
-/
namespace AgModel.Cluster
open AgModel AgModel.Node AgModel.NodePanic AgModel.Pool AgModel.Spec

/-- `a` is `b` or a raw ancestor of `b`: steps along `parentOf` to strictly earlier slots -/
inductive RAnc (c : Cfg) (a : ℕ × ℕ) : ℕ × ℕ → Prop
  | refl : RAnc c a a
  | step {x : ℕ × ℕ} : (c.parentOf x).1 < x.1 → RAnc c a (c.parentOf x) → RAnc c a x

/-- every raw ancestor in slot 0 is the genesis block `(0, 0)` -/
def GOK (c : Cfg) (b : ℕ × ℕ) : Prop := ∀ a, RAnc c a b → a.1 = 0 → a.2 = 0

theorem GOK.zero (c : Cfg) : GOK c (0, 0) := by
  intro a h h0
  cases h with
  | refl => rfl
  | step hlt _ => exact absurd hlt (Nat.not_lt_zero _)

theorem GOK.slot0 {c : Cfg} {h : ℕ} (g : GOK c (0, h)) : h = 0 := g (0, h) .refl rfl

theorem GOK.parent {c : Cfg} {x : ℕ × ℕ} (g : GOK c x) (hlt : (c.parentOf x).1 < x.1) : GOK c (c.parentOf x) :=
  fun a ha h0 => g a (.step hlt ha) h0

theorem GOK.child {c : Cfg} {x : ℕ × ℕ} (h0 : x.1 ≠ 0) (hp : (c.parentOf x).1 < x.1 → GOK c (c.parentOf x)) : GOK c x := by
  intro a ha ha0
  cases ha with
  | refl => exact absurd ha0 h0
  | step hlt hanc => exact hp hlt a hanc ha0

/-- the tracker predicates: everything is `GOK`, nothing else is claimed -/
def tp0 (c : Cfg) : TP where
  F := {
    par := c.parentOf
    L := GOK c
    G := fun _ => True
    N := GOK c
    Fc := fun _ => True
    direct := fun _ hn _ => hn
    down := by
      intro x p hl hp hlt
      subst hp
      exact ⟨hl.parent hlt, fun _ _ _ => trivial⟩ }
  CP := GOK c
  SP := fun _ => True
  cpL := fun _ h => h
  spG := fun _ _ => trivial

/-! ### a backed certificate has a correct signer -/

theorem backed_correct_signer (c : Cfg) (S : SigLog) (i : ℕ) (x : Cert) (hb : CertBacked S (c.epoch i) x)
    (hbz : 5 * w (stakeFn c) (byz c) < total (stakeFn c)) :
    ∃ v : Fin c.n, c.correct v.val = true ∧ (v.val ∈ x.sig1 ∨ v.val ∈ x.sig2) := by
  have hle := certStake_le_w c i x (fun v => v.val ∈ x.sig1 ∨ v.val ∈ x.sig2) (fun _ h => Or.inl h) (fun _ h => Or.inr h)
  have hq : Q (w (stakeFn c) (fun v : Fin c.n => v.val ∈ x.sig1 ∨ v.val ∈ x.sig2)) (total (stakeFn c)) := by
    have hthr := hb.thr
    unfold threshold at hthr
    cases hk : x.kind <;> simp only [hk] at hthr
    · exact Q_of_isQuorum c i _ _ hthr hle
    · exact Q_of_isQuorum c i _ _ hthr hle
    · exact Q_of_isQuorum c i _ _ hthr hle
    · have := Strong_of_isStrong c i _ _ hthr hle
      rw [Strong_iff] at this; rw [Q_iff]; omega
    · exact Q_of_isQuorum c i _ _ hthr hle
  rw [Q_iff] at hq
  obtain ⟨v, hv, hc⟩ := exists_correct (stakeFn c) (byz c) _ (by omega :
    w (stakeFn c) (byz c) < w (stakeFn c) (fun v : Fin c.n => v.val ∈ x.sig1 ∨ v.val ∈ x.sig2))
  refine ⟨v, ?_, hv⟩
  unfold byz at hc
  cases hcv : c.correct v.val
  · exact absurd hcv hc
  · rfl

/-- every block a correct validator voted to notarize / notar-fallback is `GOK` -/
def VotesGOK (c : Cfg) (s : State) : Prop :=
  ∀ j, c.correct j = true → ∀ sl h,
    ((∃ ps ph, Votor.Item.out (.notar sl h ps ph) ∈ (s j).votor.log) ∨ Votor.Item.out (.notarFallback sl h) ∈ (s j).votor.log) →
    GOK c (sl, h)

/-- a backed notarization / notar-fallback / fast-finalization certificate is for a `GOK` block -/
theorem backed_gok (c : Cfg) (s : State) (hv : VotesGOK c s) (hbz : 5 * w (stakeFn c) (byz c) < total (stakeFn c))
    (i : ℕ) (x : Cert) (hs : x.strong) (hb : CertBacked (sigOf c s) (c.epoch i) x) : GOK c (x.slot, x.hash) := by
  obtain ⟨v, hc, hm⟩ := backed_correct_signer c _ i x hb hbz
  have h1 := hb.s1
  have h2 := hb.s2
  unfold sig1Of at h1
  unfold sig2Of at h2
  rcases hs with hk | hk | hk <;> simp only [hk] at h1 h2
  · rcases hm with hm | hm
    · exact hv v.val hc _ _ (Or.inl (h1 _ hm hc))
    · exact hv v.val hc _ _ (Or.inl (h2 _ hm hc))
  · rcases hm with hm | hm
    · exact hv v.val hc _ _ (Or.inl (h1 _ hm hc))
    · exact hv v.val hc _ _ (Or.inr (h2 _ hm hc))
  · rcases hm with hm | hm
    · exact hv v.val hc _ _ (Or.inl (h1 _ hm hc))
    · exact hv v.val hc _ _ (Or.inl (h2 _ hm hc))

theorem certT0_of_backed (c : Cfg) (s : State) (hv : VotesGOK c s) (hbz : 5 * w (stakeFn c) (byz c) < total (stakeFn c))
    (i : ℕ) (x : Cert) (hb : CertBacked (sigOf c s) (c.epoch i) x) : CertT (tp0 c) x := by
  unfold CertT
  cases hk : x.kind <;> simp only
  · exact ⟨backed_gok c s hv hbz i x (Or.inl hk) hb, backed_gok c s hv hbz i x (Or.inl hk) hb⟩
  · exact backed_gok c s hv hbz i x (Or.inr (Or.inl hk)) hb
  · trivial
  · exact backed_gok c s hv hbz i x (Or.inr (Or.inr hk)) hb
  · trivial

/-! ### the votes of the correct validators, by induction on the slot -/

/-- every `ParentReady` event a correct Votor has handled names a `GOK` parent -/
def PRok (c : Cfg) (s : State) : Prop :=
  ∀ j, c.correct j = true → ∀ w ps ph, Votor.Item.ev (.parentReady w ps ph) ∈ (s j).votor.log → GOK c (ps, ph)

theorem votes_gok (c : Cfg) (evs : List Ev) (hv : Valid c (init c) evs) (hbz : 5 * w (stakeFn c) (byz c) < total (stakeFn c))
    (hpr : PRok c (run (init c) evs)) : VotesGOK c (run (init c) evs) := by
  have hpos := pos_of_byz c hbz
  -- strong induction on the slot
  have key : ∀ sl, ∀ j, c.correct j = true → ∀ h,
      ((∃ ps ph, Votor.Item.out (.notar sl h ps ph) ∈ (run (init c) evs j).votor.log) ∨
        Votor.Item.out (.notarFallback sl h) ∈ (run (init c) evs j).votor.log) → GOK c (sl, h) := by
    intro sl
    induction sl using Nat.strong_induction_on with
    | _ sl ih =>
      intro j hc h hvote
      obtain ⟨F⟩ := nodeFacts c evs hv hpos j hc
      rcases hvote with ⟨ps, ph, hm⟩ | hm
      · -- a notarization vote
        have h0 : sl ≠ 0 := by
          intro e0
          have hm' := hm
          rw [F.hlog] at hm'
          have := Votor.no_vote_in_slot_zero F.es _ hm' (by rw [e0]; rfl)
          cases this
        have hm' := hm
        rw [F.hlog] at hm'
        obtain ⟨a, b, hab⟩ := List.append_of_mem hm'
        obtain ⟨hblk, hpar⟩ := Votor.notar_parent_ok F.es a b sl h ps ph hab
        have hsub : ∀ y ∈ b, y ∈ (run (init c) evs j).votor.log := by intro y hy; rw [F.hlog, hab]; simp [hy]
        have hpo : c.parentOf (sl, h) = (ps, ph) := F.ninv.log _ (hsub _ hblk)
        apply GOK.child h0
        rw [hpo]
        intro _
        by_cases hw : sl % Votor.W = 0
        · rw [if_pos hw] at hpar
          exact hpr j hc _ _ _ (hsub _ hpar)
        · rw [if_neg hw] at hpar
          obtain ⟨hs1, hor⟩ := hpar
          rcases hor with ⟨e0, e1⟩ | ⟨ps', ph', hm2⟩
          · rw [e0, e1]; exact GOK.zero c
          · exact ih ps (by omega) j hc ph (Or.inl ⟨ps', ph', hsub _ hm2⟩)
      · -- a notar-fallback vote
        have h0 : sl ≠ 0 := by
          intro e0
          have hm' := hm
          rw [F.hlog] at hm'
          have := Votor.no_vote_in_slot_zero F.es _ hm' (by rw [e0]; rfl)
          cases this
        have hm' := hm
        rw [F.hlog] at hm'
        obtain ⟨a, b, hab⟩ := List.append_of_mem hm'
        obtain ⟨rest, hb⟩ := (Votor.fallback_only_after_condition F.es a b sl).1 h hab
        have hev : Votor.Item.ev (.safeToNotar sl h) ∈ (run (init c) evs j).votor.log := by
          rw [F.hlog, hab, hb]; simp
        obtain ⟨_, y, hst, hid, hback⟩ := F.ninv.log _ hev
        apply GOK.child h0
        intro hlt
        rw [← hid]
        rw [← hid] at hlt
        obtain ⟨u, huc, hum⟩ := backed_correct_signer c _ j y hback hbz
        have h1 := hback.s1
        have h2 := hback.s2
        unfold sig1Of at h1
        unfold sig2Of at h2
        have hlt' : y.slot < sl := hlt
        rcases hst with hk | hk | hk <;> simp only [hk] at h1 h2
        · rcases hum with hum | hum
          · exact ih y.slot hlt' u.val huc y.hash (Or.inl (h1 _ hum huc))
          · exact ih y.slot hlt' u.val huc y.hash (Or.inl (h2 _ hum huc))
        · rcases hum with hum | hum
          · exact ih y.slot hlt' u.val huc y.hash (Or.inl (h1 _ hum huc))
          · exact ih y.slot hlt' u.val huc y.hash (Or.inr (h2 _ hum huc))
        · rcases hum with hum | hum
          · exact ih y.slot hlt' u.val huc y.hash (Or.inl (h1 _ hum huc))
          · exact ih y.slot hlt' u.val huc y.hash (Or.inl (h2 _ hum huc))
  intro j hc sl h hvote
  exact key sl j hc h hvote

/-! ### the tracker invariants along the run -/

/-- the pool operation a node operation performs -/
def poolOpOf : NodeOp → Option PoolOp
  | .recvVote v => some (.vote v)
  | .recvCert x => some (.cert x)
  | .poolBlock b p => some (.block b p)
  | _ => none

/-- a pool operation of a node keeps the tracker invariants (for any predicates) -/
theorem poolOp_ti (T : TP) (n : Node) (op : PoolOp) (hc : ∀ x, Event.cert x ∈ (poolStep n.pool op).2 → CertT T x)
    (hb : ∀ b p, op = .block b p → T.F.par b = p) (h : TI T n.pool ∧ ∀ ev ∈ n.queue, ReadyEv T ev) :
    TI T (enqueue { n with pool := (poolStep n.pool op).1 } (poolStep n.pool op).2).pool ∧
    ∀ ev ∈ (enqueue { n with pool := (poolStep n.pool op).1 } (poolStep n.pool op).2).queue, ReadyEv T ev := by
  have := poolStep_ti T n.pool op h.1 hc hb
  rw [enqueue_pool]
  exact ⟨this.1, enqueue_rinv _ _ _ h.2 this.2⟩

/-- one step of a node keeps the tracker invariants (for any predicates), provided the certificates announced by its pool
    operation satisfy the predicate of their type and a registration agrees with the parent function -/
theorem nodeStep_ti (T : TP) (n : Node) (op : NodeOp)
    (hc : ∀ pop, poolOpOf op = some pop → ∀ x, Event.cert x ∈ (poolStep n.pool pop).2 → CertT T x)
    (hb : ∀ b p, op = .poolBlock b p → T.F.par b = p) (h : TI T n.pool ∧ ∀ ev ∈ n.queue, ReadyEv T ev) :
    TI T (nodeStep n op).pool ∧ ∀ ev ∈ (nodeStep n op).queue, ReadyEv T ev := by
  cases op with
  | recvVote v =>
    simp only [nodeStep, recvVote]
    split
    · exact h
    · exact poolOp_ti T n (.vote v) (hc _ rfl) (fun _ _ e => by cases e) h
  | recvCert x =>
    simp only [nodeStep, recvCert]
    split
    · exact h
    · exact poolOp_ti T n (.cert x) (hc _ rfl) (fun _ _ e => by cases e) h
  | poolBlock b p =>
    simp only [nodeStep, poolBlock]
    split
    · exact h
    · exact poolOp_ti T n (.block b p) (hc _ rfl) (fun b' p' e => by cases e; exact hb b p rfl) h
  | pump =>
    simp only [nodeStep, pump]
    split
    · exact h
    · rename_i qe rest hq
      have hrest : ∀ ev ∈ rest, ReadyEv T ev := fun ev hev => h.2 ev (by rw [hq]; exact List.mem_cons_of_mem _ hev)
      split
      · rename_i ve hve
        obtain ⟨a, b⟩ := votorStep_pool { n with queue := rest } ve
        rw [a, b]; exact ⟨h.1, hrest⟩
      · exact ⟨h.1, hrest⟩
  | votorBlock sl b => obtain ⟨a, b'⟩ := votorStep_pool n (.block sl b); simp only [nodeStep]; rw [a, b']; exact h
  | firstShred sl => obtain ⟨a, b'⟩ := votorStep_pool n (.firstShred sl); simp only [nodeStep]; rw [a, b']; exact h
  | invalidBlock sl => obtain ⟨a, b'⟩ := votorStep_pool n (.invalidBlock sl); simp only [nodeStep]; rw [a, b']; exact h
  | timeout sl => obtain ⟨a, b'⟩ := votorStep_pool n (.timeout sl); simp only [nodeStep]; rw [a, b']; exact h
  | timeoutCrashed sl => obtain ⟨a, b'⟩ := votorStep_pool n (.timeoutCrashed sl); simp only [nodeStep]; rw [a, b']; exact h

/-- every pool's trackers only hold `GOK` blocks, every queued and every handled `ParentReady` event names a `GOK` parent -/
def GInv (c : Cfg) (s : State) : Prop :=
  ∀ i, (TI (tp0 c) (s i).pool ∧ ∀ ev ∈ (s i).queue, ReadyEv (tp0 c) ev) ∧
    ∀ w ps ph, Votor.Item.ev (.parentReady w ps ph) ∈ (s i).votor.log → GOK c (ps, ph)

theorem GInv.init (c : Cfg) : GInv c (init c) := by
  intro i
  refine ⟨⟨TI.init _ _ (GOK.zero c) (GOK.zero c), fun ev h => by cases h⟩, ?_⟩
  intro w ps ph hm
  simp only [Cluster.init, Votor.init, List.mem_singleton] at hm
  cases hm

theorem GInv.prok {c : Cfg} {s : State} (h : GInv c s) : PRok c s := fun j _ w ps ph hm => (h j).2 w ps ph hm

/-- **In every valid run with less than 20 % Byzantine stake the trackers of every pool only hold `GOK` blocks.** -/
theorem GInv.run (c : Cfg) (hbz : 5 * w (stakeFn c) (byz c) < total (stakeFn c)) :
    ∀ evs, Valid c (Cluster.init c) evs → GInv c (Cluster.run (Cluster.init c) evs) := by
  have hpos := pos_of_byz c hbz
  apply snoc_induction
  · intro _; exact GInv.init c
  · intro pre ev ih hv
    rw [valid_append] at hv
    obtain ⟨hvp, hve, _⟩ := hv
    have ihp := ih hvp
    have hvg := votes_gok c pre hvp hbz ihp.prok
    have hci : CInv c (Cluster.run (Cluster.init c) pre) := (CInv.init c).run hpos pre hvp
    have hrun : Cluster.run (Cluster.init c) (pre ++ [ev]) = Cluster.step (Cluster.run (Cluster.init c) pre) ev := by rw [run_append]; rfl
    rw [hrun]
    obtain ⟨i, op⟩ := ev
    intro j
    by_cases hj : j = i
    · subst hj
      rw [step_self]
      have hok : NodeOk (sigOf c (Cluster.run (Cluster.init c) pre)) (c.epoch j) c.parentOf op := hve
      refine ⟨nodeStep_ti (tp0 c) _ op ?_ ?_ (ihp j).1, ?_⟩
      · intro pop hpop x hx
        have hop : OpOk (sigOf c (Cluster.run (Cluster.init c) pre)) (c.epoch j) c.parentOf pop := by
          cases op <;> simp only [poolOpOf, Option.some.injEq, reduceCtorEq] at hpop <;> subst hpop <;> exact hok
        exact certT0_of_backed c _ hvg hbz j x (poolStep_certs (e := c.epoch j) hpos _ pop (hci j).pool.slots hop x hx)
      · intro b p e; subst e; exact hok
      · intro w ps ph hm
        rcases nodeStep_parentReady _ op w ps ph hm with h | h
        · exact (ihp j).2 w ps ph h
        · exact (ihp j).1.2 _ h |>.2.1
    · rw [step_other _ _ _ _ hj]
      exact ihp j

/-- **In every valid run with less than 20 % Byzantine stake every block a correct validator voted to notarize or
    notar-fallback descends from the genesis block `(0, 0)`** (no raw ancestor `(0, h)` with `h ≠ 0`). -/
theorem votes_gok_run (c : Cfg) (evs : List Ev) (hv : Valid c (init c) evs)
    (hbz : 5 * w (stakeFn c) (byz c) < total (stakeFn c)) : VotesGOK c (run (init c) evs) :=
  votes_gok c evs hv hbz (GInv.run c hbz evs hv).prok

end AgModel.Cluster
